(* C21 — Allocation failure never causes undefined behaviour (PARTIAL: the allocation / cleanup
   protocol of the engine's constructors and destructors; see harness/props/c21.py META for what
   is proved, tied, observed and not covered).
   Only statements, each closed by a lemma of Proof/AllocProtoProof.v. *)
From Coq Require Import List Bool Arith.
From MJV Require Import Model.AllocProto Proof.AllocProtoProof.
Import ListNotations.

(* The trace monitor the harness applies to implementation traces is sound and complete for the
   declarative small-step definition of a safe trace. *)
Theorem C21_monitor_sound :
  forall t : trace, safe_trace t = true <-> exists h : list nat, Safe [] t h.
Proof. exact safe_trace_sound. Qed.

(* An accepted trace has no double free ... *)
Theorem C21_no_double_free :
  forall (t1 t2 t3 : trace) (id : nat),
    safe_trace (t1 ++ Free id :: t2 ++ Free id :: t3) = true -> exists s : nat, In (Alloc id s) t2.
Proof. exact safe_no_double_free. Qed.

(* ... frees only blocks that were allocated and not freed since ... *)
Theorem C21_free_only_live :
  forall (t1 t2 : trace) (id : nat),
    safe_trace (t1 ++ Free id :: t2) = true -> allocated_in t1 id.
Proof. exact safe_free_live. Qed.

(* ... and never dereferences NULL (the result of a failed allocation) or a block that is not live. *)
Theorem C21_no_null_or_dangling_use :
  forall (t1 t2 : trace) (p : option nat),
    safe_trace (t1 ++ Use p :: t2) = true -> exists id : nat, p = Some id /\ allocated_in t1 id.
Proof. exact safe_use_live. Qed.

(* The live set computed by the monitor is the set of blocks allocated and not freed afterwards. *)
Theorem C21_live_set :
  forall (t : trace) (id : nat),
    safe_trace t = true -> (In id (live_at_end t) <-> allocated_in t id).
Proof. exact live_at_end_spec. Qed.

(* Every failure oracle (any subset of the allocation attempts failing) drives a program along one
   of its finitely many paths, and every path is the behaviour under some oracle. *)
Theorem C21_oracles_are_paths :
  forall (A : Type) (p : prog A) (n : nat),
    (forall o : nat -> bool, In (run p o n) (paths p n)) /\
    (forall x : A * trace * list bool, In x (paths p n) -> exists o : nat -> bool, run p o n = x).
Proof.
  intros A p n. split; [intro o; apply run_in_paths | apply paths_realised].
Qed.

(* For every source variant, both handler modes of the contract (process exit, longjmp), every
   scenario (all dimension vectors: rejection class of the loaded file, 0/1/2 plugin instances,
   object kept or destroyed, in-place remake, in-place mj_recompile followed by the caller's cleanup)
   and EVERY failure oracle: the trace is safe.  safe_clause_holds is true except for the in-place
   scenarios when the arena cleanup leaves d->buffer dangling or when there are plugin instances;
   C21_inplace_dangling_buffer_refuted / C21_inplace_plugin_refuted show the exceptions are real. *)
Theorem C21_protocol_safe :
  forall (v : variant) (md : hmode) (sc : scenario) (o : nat -> bool), md <> HReturn ->
    safe_clause_holds v sc = true ->
    exists h : list nat, Safe [] (trace_of (run (scenario_prog v md sc) o 0)) h.
Proof. exact protocol_safe. Qed.

(* The trace contains an error or a NULL return iff some attempted allocation failed (or the
   scenario feeds a file that is rejected anyway). *)
Theorem C21_failure_iff_abnormal :
  forall (v : variant) (md : hmode) (sc : scenario) (o : nat -> bool), md <> HReturn ->
    let x := run (scenario_prog v md sc) o 0 in
    abnormal (trace_of x) = true <->
    (attempted_failure o (length (asked_of x)) \/ rejects sc = true).
Proof. exact protocol_failure_iff. Qed.

(* Leak freedom on every run that returns to the caller: the blocks live at the end are exactly
   those owned by the objects the scenario still holds.  leak_clause_holds names the variants and
   scenarios for which this is true; the three theorems after the next one show it is exact. *)
Theorem C21_leak_free :
  forall (v : variant) (md : hmode) (sc : scenario) (o : nat -> bool), md <> HReturn ->
    safe_clause_holds v sc = true -> leak_clause_holds v sc = true ->
    forall owned : list nat,
      value_of (run (scenario_prog v md sc) o 0) = Val owned ->
      forall id : nat,
        allocated_in (trace_of (run (scenario_prog v md sc) o 0)) id <-> In id owned.
Proof. exact protocol_leak_free. Qed.

(* Constructor(s) followed by the matching destructor(s) leave the heap empty. *)
Theorem C21_ctor_dtor_empty :
  forall (v : variant) (md : hmode) (sc : scenario) (o : nat -> bool), md <> HReturn ->
    safe_clause_holds v sc = true -> leak_clause_holds v sc = true -> keeps sc = false ->
    forall owned : list nat,
      value_of (run (scenario_prog v md sc) o 0) = Val owned ->
      owned = [] /\ forall id : nat, ~ allocated_in (trace_of (run (scenario_prog v md sc) o 0)) id.
Proof. exact protocol_ctor_dtor. Qed.

(* In-place construction (mj_makeRawData + mj_initPlugin + mj_resetData on an mjData struct owned by
   the caller, no plugins): whichever allocation fails, the object is left deletable - the caller's
   mj_deleteData after the failure frees every live block exactly once (safe trace: none twice;
   nothing allocated stays unfreed).  Needs the arena cleanup to clear d->buffer (or not to free it). *)
Theorem C21_inplace_failure_deletable :
  forall (v : variant) (md : hmode) (o : nat -> bool), md <> HReturn ->
    negb (v_darena v) || v_dnull v = true ->
    let x := run (scenario_prog v md (SC_INPLACE NP0)) o 0 in
    safe_trace (trace_of x) = true /\
    forall owned : list nat, value_of x = Val owned ->
      forall id : nat, ~ allocated_in (trace_of x) id.
Proof. exact inplace_failure_deletable. Qed.

(* ... and it is false when the cleanup frees the new buffer but keeps the pointer: the in-place
   remake and mj_recompile followed by the caller's mj_deleteData free that buffer twice. *)
Theorem C21_inplace_dangling_buffer_refuted :
  forall (v : variant) (np : npl), v_darena v = true -> v_dnull v = false ->
    safe_trace (trace_of (run (scenario_prog v HJump (SC_INPLACE NP0)) (oracle_of [4]) 0)) = false /\
    safe_trace (trace_of (run (scenario_prog v HJump (SC_RECOMPILE NP0)) (oracle_of [19]) 0)) = false.
Proof. exact inplace_dangling_buffer_double_free. Qed.

(* With plugin instances the in-place path is unsafe as long as d->nplugin is not cleared by the
   in-place mj_makeRawData: freeDataBuffers leaves d->nplugin and the pointers into the freed
   buffer, which mj_deleteData then reads.  (With v_npl the in-place scenarios with 1 and 2 plugin
   instances are covered by C21_protocol_safe.) *)
Theorem C21_inplace_plugin_refuted :
  forall v : variant, v_npl v = false ->
    safe_trace (trace_of (run (scenario_prog v HJump (SC_INPLACE NP1)) (oracle_of [6]) 0)) = false.
Proof. exact inplace_plugin_use_after_free. Qed.

(* The leak clause is FALSE of the faithful model of the compile path as long as one of the three
   buffer allocations goes through the raising mju_malloc: a single failing allocation makes
   mj_compile return NULL with a block still live that nobody owns. *)
Theorem C21_compile_leak_refuted :
  forall v : variant, v_mbuf v && v_dbuf v && v_darena v = false ->
    exists k : nat, leaks (run (scenario_prog v HJump (SC_COMPILE NP0 false)) (oracle_of [k]) 0).
Proof. exact compile_leak_when_raising. Qed.

(* With plugin instances the compile path leaks the whole mjData for every variant. *)
Theorem C21_compile_plugin_leak_refuted :
  forall v : variant,
    exists k : nat, leaks (run (scenario_prog v HJump (SC_COMPILE NP1 false)) (oracle_of [k]) 0).
Proof. exact compile_plugin_leak. Qed.

(* mj_loadModelBuffer without the mj_deleteModel on "ran out of data while reading structs" leaks
   the model on a NULL return, without any allocation failure. *)
Theorem C21_load_structs_leak_refuted :
  forall (v : variant) (md : hmode), v_lstructs v = false ->
    leaks (run (scenario_prog v md (SC_LOAD LR_structs false)) (oracle_of []) 0).
Proof. exact load_structs_leak. Qed.

(* ---- non-vacuity ---- *)
Definition v_raising := {| v_mbuf := false; v_dbuf := false; v_darena := false; v_lstructs := false; v_dnull := false; v_npl := false |}.
Definition v_cleanup := {| v_mbuf := true; v_dbuf := true; v_darena := true; v_lstructs := true; v_dnull := true; v_npl := true |}.

(* without faults the data scenario with two plugin instances makes 14 allocations, ends holding a
   mjData of 5 blocks, and the trace is safe *)
Example C21_ex_data_kept :
  let x := run (scenario_prog v_raising HExit (SC_DATA NP2 true)) (oracle_of []) 0 in
  value_of x = Val [0; 1; 2; 3; 4] /\ length (asked_of x) = 14 /\ safe_trace (trace_of x) = true /\
  abnormal (trace_of x) = false.
Proof. vm_compute. repeat split; reflexivity. Qed.

(* a failing arena allocation under the compiler's handler, cleanup variant: struct and buffer are
   freed before the error is raised, compile returns NULL, the retry succeeds *)
Example C21_ex_compile_fault :
  observable (trace_of (run (scenario_prog v_cleanup HJump (SC_COMPILE NP0 false)) (oracle_of [4]) 0)) =
  [Alloc 0 0; Alloc 1 1; Alloc 2 2; Alloc 3 3; AllocFail 4 4; Free 3; Free 2; Error 101; Free 1; Free 0;
   Return RetNull;
   Alloc 5 0; Alloc 6 1; Alloc 7 2; Alloc 8 3; Alloc 9 4; Free 8; Free 9; Free 7;
   Alloc 10 2; Alloc 11 3; Alloc 12 4; Free 11; Free 12; Free 10; Return RetOk; Free 6; Free 5].
Proof. vm_compute. reflexivity. Qed.

(* the monitor does reject: with a handler that RETURNS (outside the documented contract) the
   model of mj_copyModel dereferences the NULL result of the failed first allocation *)
Example C21_ex_returning_handler_unsafe :
  safe_trace (trace_of (run (scenario_prog v_raising HReturn (SC_COPYMODEL false)) (oracle_of [0]) 0)) = false.
Proof. vm_compute. reflexivity. Qed.

(* and it rejects a double free and a free of a never-allocated block *)
Example C21_ex_monitor_rejects :
  safe_trace [Alloc 0 0; Free 0; Free 0] = false /\ safe_trace [Free 3] = false /\
  safe_trace [AllocFail 0 0; Use None] = false /\ safe_trace [Alloc 0 0; Free 0; Use (Some 0)] = false.
Proof. vm_compute. repeat split; reflexivity. Qed.

(* in-place mj_recompile, arena allocation of the final MakeData step fails (attempt 19), handler
   longjmps to the caller, who then deletes data and model: every block is freed exactly once *)
Example C21_ex_recompile_arena_fault :
  let x := run (scenario_prog v_cleanup HJump (SC_RECOMPILE NP0)) (oracle_of [19]) 0 in
  value_of x = Val [] /\ safe_trace (trace_of x) = true /\ live_at_end (trace_of x) = [] /\
  length (asked_of x) = 20.
Proof. vm_compute. repeat split; reflexivity. Qed.
