(* C12 — The constraint cost has consistent derivatives (mj_constraintUpdate_impl).
   Only statements, each closed by a lemma of Proof/ConstraintUpdateProof.v.  All statements are over
   the real numbers (model Model/ConstraintUpdate.v instantiated at R); hypotheses are spelled out in
   Model/ConstraintUpdateSpec.v (cu_wf = the relations among efc_D, efc_R, frictionloss, contact.mu and
   contact.friction that mj_makeImpedance establishes). *)
From Coq Require Import ZArith List Bool Reals Lra Lia.
From Coquelicot Require Import Coquelicot.
From MJV Require Import Lib.Num Lib.NumR Model.ConstraintUpdate Model.ConstraintUpdateSpec Proof.ConstraintUpdateProof.
Import ListNotations.
Open Scope R_scope.

(* For every composition of equality, friction-loss, limit/frictionless/pyramidal and elliptic rows
   (any number of rows, any contact dimensions), every residual vector jar — including points on
   zone boundaries — and every row k: the update returns a result and efc_force[k] is minus the
   partial derivative of the returned cost with respect to jar[k]. *)
Theorem C12_gradient :
  forall flgH ne nf (con : list (@contact R)) (rows : list (@rowdesc R)) (jar : list R) k,
    cu_wf (length rows) ne nf con 0 rows -> length jar = length rows -> (k < length jar)%nat ->
    constraint_update flgH ne nf con rows jar <> None /\
    length (cu_force (constraint_update flgH ne nf con rows jar)) = length rows /\
    is_derive (fun t : R => cu_cost (constraint_update flgH ne nf con rows (upd jar k t)))
              (nth k jar 0)
              (- nth k (cu_force (constraint_update flgH ne nf con rows jar)) 0).
Proof. exact cu_gradient. Qed.
Print Assumptions C12_gradient.

(* the same for one elliptic contact of any dimension (hypotheses of the block only) *)
Theorem C12_gradient_elliptic :
  forall (flg : bool) (mu : R) (fr : list R) (D0 : R) (Dt : list R) (x0 : R) (xt : list R) (k : nat),
    0 < mu -> length Dt = length xt -> (length xt <= length fr)%nat -> rel_ok mu fr D0 Dt ->
    (k < length (x0 :: xt))%nat ->
    is_derive (fun t : R => e_cost (block_ell flg 0 mu fr (D0 :: Dt) (upd (x0 :: xt) k t)))
              (nth k (x0 :: xt) 0)
              (- nth k (e_force (block_ell flg 0 mu fr (D0 :: Dt) (x0 :: xt))) 0).
Proof. exact ell_grad. Qed.
Print Assumptions C12_gradient_elliptic.

(* C1, part 1: on every coordinate line through every point the cost is differentiable (with
   derivative -force) and continuous, at every parameter value: no jump or kink of the cost at any
   zone boundary. *)
Theorem C12_C1_cost :
  forall flgH ne nf (con : list (@contact R)) (rows : list (@rowdesc R)) (jar : list R) k,
    cu_wf (length rows) ne nf con 0 rows -> length jar = length rows -> (k < length jar)%nat ->
    forall t : R,
      is_derive (fun u : R => cu_cost (constraint_update flgH ne nf con rows (upd jar k u))) t
                (- nth k (cu_force (constraint_update flgH ne nf con rows (upd jar k t))) 0) /\
      continuous (fun u : R => cu_cost (constraint_update flgH ne nf con rows (upd jar k u))) t.
Proof. exact cu_cost_line. Qed.
Print Assumptions C12_C1_cost.

(* the output of an elliptic block is, zone by zone (Zsel: top mu*T <= N, bottom mu*N+T <= 0, middle),
   the following expressions of N = jar0*mu and T = |(jar_j*friction_j)| *)
Theorem C12_elliptic_zones :
  forall flg s mu fr D0 Dt x0 xt, 0 < mu ->
    e_cost (block_ell flg s mu fr (D0 :: Dt) (x0 :: xt)) =
      s + Zsel mu (x0 * mu) (Tnorm xt fr) 0 (quad (D0 :: Dt) (x0 :: xt))
            (/ 2 * Dmid mu D0 * (x0 * mu - mu * Tnorm xt fr) * (x0 * mu - mu * Tnorm xt fr)) /\
    nth 0 (e_force (block_ell flg s mu fr (D0 :: Dt) (x0 :: xt))) 0 =
      Zsel mu (x0 * mu) (Tnorm xt fr) 0 (- (D0 * x0)) (- Dmid mu D0 * (x0 * mu - mu * Tnorm xt fr) * mu) /\
    forall k, (k < length xt)%nat -> (k < length fr)%nat -> (k < length Dt)%nat ->
      nth (S k) (e_force (block_ell flg s mu fr (D0 :: Dt) (x0 :: xt))) 0 =
      Zsel mu (x0 * mu) (Tnorm xt fr) 0 (- (nth k Dt 0 * nth k xt 0))
           (Dmid mu D0 * (x0 * mu - mu * Tnorm xt fr) * mu / Tnorm xt fr * (nth k xt 0 * nth k fr 0) * nth k fr 0).
Proof. exact block_ell_zones. Qed.
Print Assumptions C12_elliptic_zones.

(* C1, part 2: on the boundary between two zones the expressions of the adjacent zones coincide, for
   the cost and for every force component (any dimension) — on mu*N + T = 0 this needs exactly the
   relation D[i+j]*mu^2 = D[i]*friction[j-1]^2. *)
Theorem C12_C1_boundary :
  forall (mu : R) (fr : list R) (D0 : R) (Dt : list R) (x0 : R) (xt : list R),
    0 < mu -> length Dt = length xt -> (length xt <= length fr)%nat -> rel_ok mu fr D0 Dt ->
    let N := x0 * mu in let T := Tnorm xt fr in
    (mu * T = N ->
       / 2 * Dmid mu D0 * (N - mu * T) * (N - mu * T) = 0 /\ - Dmid mu D0 * (N - mu * T) * mu = 0 /\
       forall u f : R, Dmid mu D0 * (N - mu * T) * mu / T * u * f = 0) /\
    (mu * N + T = 0 -> 0 < T ->
       / 2 * Dmid mu D0 * (N - mu * T) * (N - mu * T) = quad (D0 :: Dt) (x0 :: xt) /\
       - Dmid mu D0 * (N - mu * T) * mu = - (D0 * x0) /\
       forall k, (k < length xt)%nat ->
         Dmid mu D0 * (N - mu * T) * mu / T * (nth k xt 0 * nth k fr 0) * nth k fr 0 = - (nth k Dt 0 * nth k xt 0)).
Proof. exact ell_boundary. Qed.
Print Assumptions C12_C1_boundary.

(* C1, part 3: every force component is continuous along every coordinate line through every point,
   at every parameter value — including the lines through the apex of the cone, the zone boundaries
   and the axis T = 0 (proved for every row composition and contact dimension) *)
Theorem C12_C1_force :
  forall flgH ne nf (con : list (@contact R)) (rows : list (@rowdesc R)) (jar : list R) a k,
    cu_wf (length rows) ne nf con 0 rows -> length jar = length rows -> (a < length jar)%nat -> (k < length jar)%nat ->
    forall t : R,
      continuous (fun u : R => nth a (cu_force (constraint_update flgH ne nf con rows (upd jar k u))) 0) t.
Proof. exact cu_force_line. Qed.
Print Assumptions C12_C1_force.

(* cone Hessian, any contact dimension: strictly inside the middle zone the update (with
   flg_coneHessian) returns state CONE and a dim x dim matrix H (row-major) that is symmetric and whose
   entry (a, b) is the partial derivative of -efc_force[a] with respect to jar[b], i.e. the Hessian of
   the cost *)
Theorem C12_hessian :
  forall s mu fr D0 Dt (x0 : R) (xt : list R), 0 < mu ->
    length Dt = length xt -> (length xt <= length fr)%nat ->
    x0 * mu < mu * Tnorm xt fr -> 0 < mu * (x0 * mu) + Tnorm xt fr ->
    exists H : list R,
      snd (block_ell true s mu fr (D0 :: Dt) (x0 :: xt)) = Some H /\
      e_state (block_ell true s mu fr (D0 :: Dt) (x0 :: xt)) = ST_CONE /\
      forall a b, (a < S (length xt))%nat -> (b < S (length xt))%nat ->
        nth (a * S (length xt) + b) H 0 = nth (b * S (length xt) + a) H 0 /\
        is_derive (fun t : R => nth a (e_force (block_ell true s mu fr (D0 :: Dt) (upd (x0 :: xt) b t))) 0)
                  (nth b (x0 :: xt) 0) (- nth (a * S (length xt) + b) H 0).
Proof. exact ell_hessian_full. Qed.
Print Assumptions C12_hessian.

(* friction-loss rows: with D*R = 1 cost and force are D times the Huber function of threshold R*floss
   and its derivative, which is the clamp of jar to [-R*floss, R*floss] (continuous) *)
Theorem C12_C1_friction :
  forall D Rr fl x, D * Rr = 1 ->
    r_cost (row_fric 0 D Rr fl x) = D * hub (Rr * fl) x /\
    r_force (row_fric 0 D Rr fl x) = - (D * hubg (Rr * fl) x).
Proof. exact row_fric_hub. Qed.
Print Assumptions C12_C1_friction.

(* each scalar row cost is convex *)
Theorem C12_convex_scalar :
  (forall D, 0 <= D -> convex1 (fun t => r_cost (row_eq 0 D t))) /\
  (forall D, 0 <= D -> convex1 (fun t => r_cost (row_uni 0 D t))) /\
  (forall D Rr fl, D * Rr = 1 -> 0 < Rr -> 0 <= fl -> convex1 (fun t => r_cost (row_fric 0 D Rr fl t))).
Proof. exact scalar_convex. Qed.
Print Assumptions C12_convex_scalar.

(* the total cost (any composition of rows, elliptic contacts of any dimension included) lies above each
   of its tangent planes, cost(y) >= cost(x) - efc_force(x) . (y - x), and is therefore jointly convex in
   the whole residual vector (needs efc_D >= 0 in addition to cu_wf) *)
Theorem C12_tangent :
  forall flgH ne nf (con : list (@contact R)) (rows : list (@rowdesc R)) (x y : list R),
    cu_wf (length rows) ne nf con 0 rows -> D_nonneg rows -> length x = length rows -> length y = length rows ->
    cu_cost (constraint_update flgH ne nf con rows x) -
    dotl (cu_force (constraint_update flgH ne nf con rows x)) (vsub y x) <=
    cu_cost (constraint_update flgH ne nf con rows y).
Proof. exact cu_tangent. Qed.
Print Assumptions C12_tangent.

Theorem C12_convex :
  forall flgH ne nf (con : list (@contact R)) (rows : list (@rowdesc R)) (a b : list R) (lam : R),
    cu_wf (length rows) ne nf con 0 rows -> D_nonneg rows -> length a = length rows -> length b = length rows ->
    0 <= lam <= 1 ->
    cu_cost (constraint_update flgH ne nf con rows (lincomb lam a b)) <=
    lam * cu_cost (constraint_update flgH ne nf con rows a) + (1 - lam) * cu_cost (constraint_update flgH ne nf con rows b).
Proof. exact cu_convex. Qed.
Print Assumptions C12_convex.

(* the hypotheses are what mj_makeImpedance establishes: for a frictional contact whose normal row has
   R0 > 0, with impratio > 0 and positive friction coefficients, the assigned mu, R and D = 1/R satisfy
   mu > 0, R > 0, D*R = 1 and rel_ok *)
Theorem C12_relations_established :
  forall (R0 impratio : R) (fr : list R) (dim : nat),
    0 < R0 -> 0 < impratio -> (2 <= dim)%nat -> (dim - 1 <= length fr)%nat ->
    List.Forall (fun f => 0 < f) (firstn (dim - 1) fr) ->
    match ell_impedance R0 impratio fr dim with
    | (mu, Rs, Ds) =>
        0 < mu /\ length Rs = dim /\ length Ds = dim /\
        (forall k, (k < dim)%nat -> 0 < nth k Rs 0 /\ nth k Ds 0 * nth k Rs 0 = 1) /\
        match Ds with D0 :: Dt => rel_ok mu fr D0 Dt | [] => False end
    end.
Proof. exact ell_impedance_rel. Qed.
Print Assumptions C12_relations_established.

(* non-vacuity: a composition with one equality row, one friction-loss row, one limit row and one
   elliptic contact of dimension 3 (mu = 1/2, friction = (1/2, 1/4)) meets cu_wf *)
Example C12_wf_example :
  cu_wf 6 1 1 [(3%Z, / 2, [/ 2; / 4; 1; 1; 1])] 0
        [(2, / 2, 0, 0%Z, 0%Z); (4, / 4, 3, 1%Z, 0%Z); (5, / 5, 0, 3%Z, 0%Z);
         (8, / 8, 0, 7%Z, 0%Z); (8, / 8, 0, 7%Z, 0%Z); (2, / 2, 0, 7%Z, 0%Z)].
Proof.
  simpl. repeat split; try lra; try lia.
  intros k Hk. simpl in Hk. destruct k as [|[|k]]; simpl; try lra; lia.
Qed.
