(* C31 — Binary model files round-trip exactly; corrupt files are rejected.
   Statements only, each closed by a lemma of Proof/MJBProof.v.  The model (Model/MJB.v) is generic in
   a layout table L; Gen/ModelLayout.v (real_layout) is the table regenerated from the tree under test.
   encode = mj_saveModel, sizeModel = mj_sizeModel, decode/decode_i = mj_loadModelBuffer (with
   mj_makeModel's checks and the table part of mj_validateReferences); a buffer is a list of bytes and
   buffer_sz its length.  wf_layout / wf_modelb are executable and are evaluated on the real layout and
   on every implementation model by the correspondence run. *)
From Coq Require Import List ZArith Bool.
From MJV Require Import Model.MJB Gen.ModelLayout Proof.MJBProof.
Import ListNotations.
Open Scope Z_scope.

(* ---------- for EVERY well-formed layout table ---------- *)

(* save then load reproduces the model: every size, struct block and array *)
Theorem C31_roundtrip : forall L m, wf_layout L = true -> wf_modelb L m = true ->
  decode L (encode L m) = Ok m.
Proof. exact decode_encode. Qed.
Print Assumptions C31_roundtrip.

(* mj_sizeModel equals the serialized length *)
Theorem C31_size : forall L m, wf_modelb L m = true -> zlen (encode L m) = sizeModel L m.
Proof. exact size_model_length. Qed.
Print Assumptions C31_size.

(* every crash-truncation of a valid file (every proper prefix, k = 0 .. length-1) is rejected *)
Theorem C31_truncation_rejected : forall L m k, wf_layout L = true -> wf_modelb L m = true ->
  (k < length (encode L m))%nat -> exists r, decode L (firstn k (encode L m)) = Reject r.
Proof. exact truncation_rejected. Qed.
Print Assumptions C31_truncation_rejected.

(* a valid file followed by any non-empty garbage is rejected *)
Theorem C31_trailing_bytes_rejected : forall L m g, wf_layout L = true -> wf_modelb L m = true ->
  g <> [] -> zlen (encode L m ++ g) <= INT_MAX -> exists r, decode L (encode L m ++ g) = Reject r.
Proof. exact trailing_bytes_rejected. Qed.
Print Assumptions C31_trailing_bytes_rejected.

(* the loader never reads outside its input: every (offset, count) it reads lies in [0, length b) —
   for ANY buffer b (corrupt or not), on the instrumented reader decode_i whose outcome is decode *)
Theorem C31_reads_in_bounds : forall L b, wf_layout L = true -> zlen b <= INT_MAX ->
  Forall (fun r => 0 <= fst r /\ 0 <= snd r /\ fst r + snd r <= zlen b) (reads_of L b).
Proof. exact reads_in_bounds. Qed.
Print Assumptions C31_reads_in_bounds.

(* ANY accepted buffer has exactly the length mj_sizeModel gives for the loaded model, ... *)
Theorem C31_accept_exact_length : forall L b m, decode L b = Ok m -> zlen b <= INT_MAX ->
  zlen b = sizeModel L m.
Proof. exact accept_exact_length. Qed.
Print Assumptions C31_accept_exact_length.

(* ... IS the file mj_saveModel writes for the loaded model (re-saving gives the same bytes; with
   C31_roundtrip: accepted buffers and well-formed models correspond one to one), ... *)
Theorem C31_accept_resave_identical : forall L b m, wf_layout L = true -> zlen b <= INT_MAX ->
  Forall (fun x => 0 <= x < 256) b -> decode L b = Ok m -> encode L m = b.
Proof. exact accept_resave_identical. Qed.
Print Assumptions C31_accept_resave_identical.

(* ... carries the expected header, field by field; a wrong header is rejected at its first wrong field *)
Theorem C31_accept_header : forall L b m, decode L b = Ok m -> file_hdr L b = l_hdr L.
Proof. exact accept_header. Qed.
Print Assumptions C31_accept_header.

Theorem C31_header_mismatch_rejected : forall L b, hdr_bytes L <= zlen b -> file_hdr L b <> l_hdr L ->
  exists i, decode L b = Reject (RHdr i) /\ nth i (file_hdr L b) 0 <> nth i (l_hdr L) 0 /\
            firstn i (file_hdr L b) = firstn i (l_hdr L).
Proof. exact header_mismatch_rejected. Qed.
Print Assumptions C31_header_mismatch_rejected.

(* loading never writes outside the model: for ANY buffer, every bufread into an array writes exactly
   the number of bytes allocated for that array, inside m->buffer — provided every size that
   determines an array length is an argument of mj_makeModel or is compared with the derived value
   (sizes_checked); a layout without that property has a counterexample file (overflow_witness) *)
Theorem C31_writes_in_model : forall L b, wf_layout L = true -> sizes_checked L = true ->
  Forall (fun w : wr => let '(mo, n, q) := w in n = q /\ 0 <= mo /\ 0 <= n /\ mo + n <= nbuffer_of L b)
         (writes_of L b).
Proof. exact writes_in_model. Qed.
Print Assumptions C31_writes_in_model.

(* partial (reference validation): covers only the table MJMODEL_REFERENCES of mj_validateReferences,
   as regenerated into l_refs; the hand-written checks after the table are not modelled.  An accepted
   model has every listed index array in bounds: -1 <= adr, 0 <= num, adr + num <= target size *)
Theorem C31_validate_partial : forall L b m, l_ref64 L = true -> decode L b = Ok m ->
  forall r, In r (l_refs L) ->
  Forall (fun p => 0 <= snd p /\ -1 <= fst p /\ fst p + snd p <= sz (m_sizes m) (r_tgt r))
         (combine (ref_adrs m r) (ref_nums m r)).
Proof. exact validate_partial. Qed.
Print Assumptions C31_validate_partial.

(* partial, for the VARIANT of mj_validateReferences with a second list MJMODEL_REFERENCES_REQUIRED (regenerated
   into l_reqs; the pinned tree has no such list, l_reqs real_layout = [], and there the statement is empty:
   -1 is accepted for every reference array, recorded as known finding C31-F4): an accepted model has no
   negative entry in the listed arrays.  Not an obligation on the regenerated layout. *)
Theorem C31_validate_required_partial : forall L b m, decode L b = Ok m ->
  forall q, In q (l_reqs L) -> Forall (fun a => 0 <= a) (req_adrs m q).
Proof. exact validate_required. Qed.
Print Assumptions C31_validate_required_partial.

(* ---------- the layout regenerated from the tree under test ---------- *)
Theorem C31_real_layout_wf : wf_layout real_layout = true.
Proof. vm_compute. reflexivity. Qed.
Print Assumptions C31_real_layout_wf.

(* fails by computation when the loader stops comparing nnames_map with the derived value, or when a
   new array is sized by a field that mj_makeModel does not receive *)
Theorem C31_real_layout_sizes_checked : sizes_checked real_layout = true.
Proof. vm_compute. reflexivity. Qed.
Print Assumptions C31_real_layout_sizes_checked.

(* fails when mj_validateReferences computes adr + num in int again (wraps for adr near INT_MAX) *)
Theorem C31_real_layout_ref64 : l_ref64 real_layout = true.
Proof. vm_compute. reflexivity. Qed.
Print Assumptions C31_real_layout_ref64.

Theorem C31_real_writes_in_model : forall b,
  Forall (fun w : wr => let '(mo, n, q) := w in n = q /\ 0 <= mo /\ 0 <= n /\ mo + n <= nbuffer_of real_layout b)
         (writes_of real_layout b).
Proof. intros. apply writes_in_model; [exact C31_real_layout_wf | exact C31_real_layout_sizes_checked]. Qed.
Print Assumptions C31_real_writes_in_model.

Theorem C31_real_validate_partial : forall b m, decode real_layout b = Ok m ->
  forall r, In r (l_refs real_layout) ->
  Forall (fun p => 0 <= snd p /\ -1 <= fst p /\ fst p + snd p <= sz (m_sizes m) (r_tgt r))
         (combine (ref_adrs m r) (ref_nums m r)).
Proof. intros b m. apply validate_partial. exact C31_real_layout_ref64. Qed.
Print Assumptions C31_real_validate_partial.

(* ---------- non-vacuity: a concrete layout and model meeting the hypotheses; the same layout without
   the derived-field comparison is not sizes_checked and its witness file makes the loader write
   outside the model buffer ---------- *)
Definition toy (chk : bool) : layout :=
  mkLayout [7; 8] 3 1 [] 0 1 2 [0%nat] 64 [2]
           [mkArr 4 0 (NcC 1); mkArr 1 1 (NcC 1)] [mkRef 0 0 1 0 None] [mkReq 0 0] chk true.
Definition toy_model : model := mkModel [2; 4; 68] [[1; 2]] [[0; 0; 0; 0; 1; 0; 0; 0]; [9; 9; 9; 9]].

Example C31_toy_wf : wf_layout (toy true) = true /\ wf_modelb (toy true) toy_model = true /\
                     sizes_checked (toy true) = true /\ sizes_checked (toy false) = false.
Proof. vm_compute. repeat split. Qed.
Example C31_toy_roundtrip : decode (toy true) (encode (toy true) toy_model) = Ok toy_model /\
                            zlen (encode (toy true) toy_model) = 46.
Proof. vm_compute. split; reflexivity. Qed.
Example C31_toy_unchecked_overflow :
  existsb (write_outside (nbuffer_of (toy false) (overflow_witness (toy false))))
          (writes_of (toy false) (overflow_witness (toy false))) = true /\
  decode (toy true) (overflow_witness (toy true)) = Reject RMapField.
Proof. vm_compute. split; reflexivity. Qed.
