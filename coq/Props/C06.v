(* C06 — Inertia, bias force and inverse dynamics are mutually consistent.
   Only statements, each closed by a lemma of Proof/*.v, followed by Print Assumptions.
   Statements are about Model/SparseM.v (mj_makeDofDofSparse, mj_factorI, mj_solveLD) and the
   symmetric CSR routines of Model/Sparse.v (mj_mulM = mju_mulSymVecSparse, mj_fullM = mju_sym2dense).

   Vocabulary (Proof/SparseMProof.v):
     forest nv par        := length par = nv and every entry is -1 or smaller than its index
                             (parents precede children; what the compiler guarantees for dof_parentid);
     chain_rel par j l    := l = [j; parent j; parent (parent j); ...] ending at a root (empty if j < 0);
     ancestors nv par i   := the model's ancestor walk from parent i (nearest first);
     diagOnly simple reduced i := reduced and dof_simplenum[i] <> 0 (row reduced to the diagonal);
     fits cols rows       := rows of values have the lengths of the structure rows;
     tri n cols           := row i of the structure = distinct columns < i followed by i (what C06_structure
                             establishes for every forest: C06_structure_tri);
     Lfull cols rows i c  := the unit-lower-triangular L stored in the strict lower entries of the rows
                             (1 on the diagonal), Dof rows i := the diagonal entry of row i,
     LDL n cols rows r s  := (L' D L)(r, s) = sum_i Lfull i r * Dof i * Lfull i s;
     pref n cols          := the row of every off-diagonal column of row p is a prefix of row p;
     Ent cols rows i j    := stored entry (i, j), j <= i;  Msym := the symmetric matrix it denotes;
     csr_of cols rows     := the CSR matrix (Model/Sparse.v) with that structure and those values. *)
From Coq Require Import ZArith List Bool Arith Lia PrimFloat Reals Sorted.
From MJV Require Import Lib.Num Lib.NumR Model.Sparse Model.SparseM
  Proof.LinAlgBase Proof.SparseProof Proof.SparseSymProof Proof.SparseMProof Proof.SparseMSolveProof
  Proof.SparseMFactorProof.
Import ListNotations.

(* ---------------- structure: for EVERY forest, EVERY dof_simplenum and both values of `reduced`
   (upper = false, the structure of M), for each dof i the CSR slice [rowadr i, rowadr i + rownnz i)
   of colind is: the ancestor chain of i in strictly increasing order followed by i (diagonal last),
   or i alone for a reduced simple dof; rowadr are the prefix sums of rownnz, colind has exactly
   sum rownnz entries, diag points at the diagonal, and the row of every ancestor j of i is a
   prefix of the row of i (what mj_factorI's prefix update relies on) *)
Theorem C06_structure :
  forall (nv : nat) (par simple : list Z) (reduced : bool), forest nv par ->
    let rs := makeDofDofSparse nv par simple reduced false in
    let rownnz := fst (fst (fst rs)) in let rowadr := snd (fst (fst rs)) in
    let diag := snd (fst rs) in let colind := snd rs in
    length rownnz = nv /\ rowadr = psums 0 rownnz /\ length colind = sumn rownnz /\
    forall i : nat, (i < nv)%nat ->
      let rw := slice (nth i rowadr 0%nat) (nth i rownnz 0%nat) colind in
      rw = lowrow nv par simple reduced i /\
      (diagOnly simple reduced i = true -> rw = [i]) /\
      (diagOnly simple reduced i = false ->
         rw = rev (ancestors nv par i) ++ [i] /\ chain_rel par (parentOf par i) (ancestors nv par i)) /\
      StronglySorted lt rw /\
      nth i rownnz 0%nat = length rw /\
      nth i diag 0%nat = (length rw - 1)%nat /\ nth (nth i diag 0%nat) rw 0%nat = i /\
      (forall j : nat, In j (ancestors nv par i) ->
         exists rest : list nat, rev (ancestors nv par i) ++ [i] = (rev (ancestors nv par j) ++ [j]) ++ rest).
Proof. exact structure_spec. Qed.
Print Assumptions C06_structure.

(* the ancestor walk needs no more fuel than nv on a forest: any larger fuel gives the same chain *)
Theorem C06_chain_fuel :
  forall (nv : nat) (par : list Z), forest nv par ->
    forall (f1 f2 : nat) (j : Z), (j < Z.of_nat f1)%Z -> (j < Z.of_nat f2)%Z -> chain f1 par j = chain f2 par j.
Proof. exact chain_fuel_indep. Qed.
Print Assumptions C06_chain_fuel.

(* ---------------- mj_fullM v = mj_mulM v, for every forest, every matrix with the structure
   (any values), all sizes; mj_fullM is symmetric *)
Theorem C06_fullM_mulM :
  forall (nv : nat) (par simple : list Z) (reduced : bool) (rows : list (list R)) (v : list R),
    forest nv par -> fits (dofdof_rows nv par simple reduced false) rows -> length v = nv ->
    let M := csr_of (dofdof_rows nv par simple reduced false) rows in
    mulSymVecSparse nv M v = dmulMatVec (sym2dense nv M) v /\
    (forall i j : nat, dget (sym2dense nv M) i j = dget (sym2dense nv M) j i).
Proof. exact fullM_mulM. Qed.
Print Assumptions C06_fullM_mulM.

(* ---------------- mj_factorI + mj_solveLD (index = NULL, one right-hand side): solve o factor
   inverts mj_fullM / mj_mulM.  For EVERY forest, every dof_simplenum such that a dof whose row is
   not reduced has no ancestor with a reduced row (the compiler marks only childless world-children
   as simple), every matrix M with the structure (any values: only the stored lower triangle
   matters) and every x: if the pivots D_i stored by mj_factorI are non-zero, then
   w = mj_solveLD(mj_factorI(M), x) satisfies  mj_fullM(M) w = x  and  mj_mulM(M, w) = x.
   (Positive definiteness of M, which makes the pivots positive, is not proved; it is checked by the
   oracle on the implementation's M.) *)
Theorem C06_solve_factor :
  forall (nv : nat) (par simple : list Z) (reduced : bool) (rows0 : list (list R)) (x : list R),
    forest nv par ->
    (forall i j : nat, (i < nv)%nat -> diagOnly simple reduced i = false -> In j (ancestors nv par i) ->
       diagOnly simple reduced j = false) ->
    let cs := dofdof_rows nv par simple reduced false in
    fits cs rows0 -> length x = nv ->
    let st := factorI nv cs rows0 in
    (forall i : nat, (i < nv)%nat -> Dof (fst st) i <> 0%R) ->
    let w := solveLD nv cs (fst st) (snd st) x in
    let M := csr_of cs rows0 in
    length w = nv /\ dmulMatVec (sym2dense nv M) w = x /\ mulSymVecSparse nv M w = x.
Proof. exact factor_solve_forest. Qed.
Print Assumptions C06_solve_factor.

(* mj_factorI alone, on any triangular structure with the prefix property: the stored L (strict lower
   entries), D (diagonals) and inverse pivots satisfy L' D L = M and D_i * dinv_i = 1 *)
Theorem C06_factorI :
  forall (n : nat) (cs : list (list nat)) (rows0 : list (list R)),
    tri n cs -> pref n cs -> fits cs rows0 ->
    let st := factorI n cs rows0 in
    (forall i : nat, (i < n)%nat -> Dof (fst st) i <> 0%R) ->
    fits cs (fst st) /\ length (snd st) = n /\
    (forall i : nat, (i < n)%nat -> (Dof (fst st) i * nth i (snd st) 0 = 1)%R) /\
    (forall r s : nat, (r < n)%nat -> (s < n)%nat -> LDL n cs (fst st) r s = Msym cs rows0 r s).
Proof. exact factorI_spec. Qed.
Print Assumptions C06_factorI.

(* mj_solveLD alone: for every stored factor (unit-lower L, pivots D, inverse pivots) the three
   passes (zero-skip and diagonal-row shortcuts included) return the solution of (L' D L) w = x *)
Theorem C06_solveLD :
  forall (n : nat) (cols : list (list nat)) (rows : list (list R)) (dinv x : list R),
    tri n cols -> fits cols rows -> length dinv = n -> length x = n ->
    (forall i : nat, (i < n)%nat -> (Dof rows i * nth i dinv 0 = 1)%R) ->
    length (solveLD n cols rows dinv x) = n /\
    forall r : nat, (r < n)%nat ->
      bsum n (fun s => (LDL n cols rows r s * nth s (solveLD n cols rows dinv x) 0)%R) = nth r x 0%R.
Proof. exact solveLD_spec. Qed.
Print Assumptions C06_solveLD.

(* every forest structure is triangular with the diagonal last and has the prefix property *)
Theorem C06_structure_tri :
  forall (nv : nat) (par simple : list Z) (reduced : bool), forest nv par ->
    tri nv (dofdof_rows nv par simple reduced false).
Proof. exact forest_tri. Qed.
Print Assumptions C06_structure_tri.

Theorem C06_structure_pref :
  forall (nv : nat) (par simple : list Z) (reduced : bool), forest nv par ->
    (forall i j : nat, (i < nv)%nat -> diagOnly simple reduced i = false -> In j (ancestors nv par i) ->
       diagOnly simple reduced j = false) ->
    pref nv (dofdof_rows nv par simple reduced false).
Proof. exact forest_pref. Qed.
Print Assumptions C06_structure_pref.

(* ---------------- non-vacuity: a branching forest with two trees *)
Example C06_example_structure :
  forest 6 [-1; 0; 1; 0; -1; 4]%Z /\
  makeDofDofSparse 6 [-1; 0; 1; 0; -1; 4]%Z [0; 0; 0; 0; 2; 1]%Z true false =
    ([1; 2; 3; 2; 1; 1]%nat, [0; 1; 3; 6; 8; 9]%nat, [0; 1; 2; 1; 0; 0]%nat, [0; 0; 1; 0; 1; 2; 0; 3; 4; 5]%nat).
Proof.
  split; [|vm_compute; reflexivity].
  split; [reflexivity|]. intros i Hi.
  destruct i as [|[|[|[|[|[|i]]]]]]; simpl; lia.
Qed.
