(* C06 — Inertia, bias force and inverse dynamics are mutually consistent.
   Only statements, each closed by a lemma of Proof/*.v, followed by Print Assumptions.
   Statements are about Model/SparseM.v (mj_makeDofDofSparse, mj_factorI, mj_solveLD) and the
   symmetric CSR routines of Model/Sparse.v (mj_mulM = mju_mulSymVecSparse, mj_fullM = mju_sym2dense).

   Vocabulary (Proof/SparseMProof.v):
     forest nv par        := length par = nv and every entry is -1 or smaller than its index
                             (parents precede children; what the compiler guarantees for dof_parentid);
     chain_rel par j l    := l = [j; parent j; parent (parent j); ...] ending at a root (empty if j < 0);
     ancestors nv par i   := the model's ancestor walk from parent i (nearest first);
     diagOnly simple reduced i := reduced and dof_simplenum[i] <> 0 (row reduced to the diagonal);
     fits cols rows       := rows of values have the lengths of the structure rows;
     csr_of cols rows     := the CSR matrix (Model/Sparse.v) with that structure and those values. *)
From Coq Require Import ZArith List Bool Arith Lia PrimFloat Reals Sorted.
From MJV Require Import Lib.Num Lib.NumR Model.Sparse Model.SparseM
  Proof.LinAlgBase Proof.SparseProof Proof.SparseSymProof Proof.SparseMProof.
Import ListNotations.

(* ---------------- structure: for EVERY forest, EVERY dof_simplenum and both values of `reduced`
   (upper = false, the structure of M), for each dof i the CSR slice [rowadr i, rowadr i + rownnz i)
   of colind is: the ancestor chain of i in strictly increasing order followed by i (diagonal last),
   or i alone for a reduced simple dof; rowadr are the prefix sums of rownnz, colind has exactly
   sum rownnz entries, diag points at the diagonal, and the row of every ancestor j of i is a
   prefix of the row of i (what mj_factorI's prefix update relies on) *)
Theorem C06_structure :
  forall (nv : nat) (par simple : list Z) (reduced : bool), forest nv par ->
    let rs := makeDofDofSparse nv par simple reduced false in
    let rownnz := fst (fst (fst rs)) in let rowadr := snd (fst (fst rs)) in
    let diag := snd (fst rs) in let colind := snd rs in
    length rownnz = nv /\ rowadr = psums 0 rownnz /\ length colind = sumn rownnz /\
    forall i : nat, (i < nv)%nat ->
      let rw := slice (nth i rowadr 0%nat) (nth i rownnz 0%nat) colind in
      rw = lowrow nv par simple reduced i /\
      (diagOnly simple reduced i = true -> rw = [i]) /\
      (diagOnly simple reduced i = false ->
         rw = rev (ancestors nv par i) ++ [i] /\ chain_rel par (parentOf par i) (ancestors nv par i)) /\
      StronglySorted lt rw /\
      nth i rownnz 0%nat = length rw /\
      nth i diag 0%nat = (length rw - 1)%nat /\ nth (nth i diag 0%nat) rw 0%nat = i /\
      (forall j : nat, In j (ancestors nv par i) ->
         exists rest : list nat, rev (ancestors nv par i) ++ [i] = (rev (ancestors nv par j) ++ [j]) ++ rest).
Proof. exact structure_spec. Qed.
Print Assumptions C06_structure.

(* the ancestor walk needs no more fuel than nv on a forest: any larger fuel gives the same chain *)
Theorem C06_chain_fuel :
  forall (nv : nat) (par : list Z), forest nv par ->
    forall (f1 f2 : nat) (j : Z), (j < Z.of_nat f1)%Z -> (j < Z.of_nat f2)%Z -> chain f1 par j = chain f2 par j.
Proof. exact chain_fuel_indep. Qed.
Print Assumptions C06_chain_fuel.

(* ---------------- mj_fullM v = mj_mulM v, for every forest, every matrix with the structure
   (any values), all sizes; mj_fullM is symmetric *)
Theorem C06_fullM_mulM :
  forall (nv : nat) (par simple : list Z) (reduced : bool) (rows : list (list R)) (v : list R),
    forest nv par -> fits (dofdof_rows nv par simple reduced false) rows -> length v = nv ->
    let M := csr_of (dofdof_rows nv par simple reduced false) rows in
    mulSymVecSparse nv M v = dmulMatVec (sym2dense nv M) v /\
    (forall i j : nat, dget (sym2dense nv M) i j = dget (sym2dense nv M) j i).
Proof. exact fullM_mulM. Qed.
Print Assumptions C06_fullM_mulM.

(* ---------------- non-vacuity: a branching forest with two trees *)
Example C06_example_structure :
  forest 6 [-1; 0; 1; 0; -1; 4]%Z /\
  makeDofDofSparse 6 [-1; 0; 1; 0; -1; 4]%Z [0; 0; 0; 0; 2; 1]%Z true false =
    ([1; 2; 3; 2; 1; 1]%nat, [0; 1; 3; 6; 8; 9]%nat, [0; 1; 2; 1; 0; 0]%nat, [0; 0; 1; 0; 1; 2; 0; 3; 4; 5]%nat).
Proof.
  split; [|vm_compute; reflexivity].
  split; [reflexivity|]. intros i Hi.
  destruct i as [|[|[|[|[|[|i]]]]]]; simpl; lia.
Qed.
