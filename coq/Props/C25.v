(* C25 — Analytic derivatives match finite differences.
   Only statements, each closed by a lemma of Proof/DerivProof.v, followed by Print Assumptions.
   Model: Model/Deriv.v (velocity-dependent force kernels and the slopes mjd_passive_vel /
   mjd_actuator_vel add to qDeriv; the save / perturb / call / restore skeletons of mjd_stepFD, which
   mjd_transitionFD wraps, and of mjd_inverseFD over the state-API model of C26).
   The numeric statements are about the model instantiated at R (exact real arithmetic).
   Vocabulary (Proof/DerivProof.v): vadd / vsub = entrywise sum / difference; allzero poly := every
   polynomial damping coefficient is 0 (the linear damping of the documentation);
   restored spec d0 d1 := every mjData field of a component of the signature spec has in d1 the
   contents it has in d0; wf = array sizes of the state components (C26).
   Not stated as theorems: mjd_rne_vel, fluid and muscle derivatives, DC-motor / SO3 / PID terms, the numerical agreement of the finite-difference
   Jacobians (oracle on the implementation only). *)
From Coq Require Import ZArith List PrimFloat Reals Bool String.
From Coquelicot Require Coquelicot.
From MJV Require Import Lib.Num Lib.NumR Model.StateAPI Model.Deriv Proof.StateAPIProof Proof.DerivProof Proof.DerivPolyProof.
Import ListNotations.

Open Scope R_scope.

(* ---------------- linear terms: the force is affine in qvel and the slope added to qDeriv is its exact
   secant slope, for every velocity, every perturbation (not only infinitesimal ones) and every
   transmission row J of any length:
   (a) dof damping  f(v) = -v * polyForce(b, poly, v)  with poly = 0:   f(v+h) - f(v) = damper_slope * h;
   (b) tendon damping  qfrc(qvel) = J^T f(J.qvel):   qfrc(qvel+w) - qfrc(qvel) = (J^T B J) w  with the B
       of mjd_passive_vel;
   (c) affine gain / bias actuators  force = (g0+g1 len+g2 vel) input + (b0+b1 len+b2 vel), vel = J.qvel,
       qfrc = J^T force:   qfrc(qvel+w) - qfrc(qvel) = (J^T s J) w  with s = b2 + g2*input as computed by
       mjd_actuator_vel (unclamped actuator) *)
Theorem C25_linear_terms :
  (forall (b : R) (poly : list R) (v h : R), allzero poly ->
     damper_force b poly (v + h) - damper_force b poly v = damper_slope b poly v * h) /\
  (forall (J : list R) (b : R) (poly : list R) (v w : list R), allzero poly -> List.length v = List.length w ->
     vsub (tendon_damper_qfrc J b poly (vadd v w)) (tendon_damper_qfrc J b poly v) =
     mulMatVec (jtbj J (damper_slope b poly (trn_vel J v))) w) /\
  (forall (J : list R) (g b : R * R * R) (input len : R) (v w : list R), List.length v = List.length w ->
     vsub (act_qfrc J g b input len (vadd v w)) (act_qfrc J g b input len v) =
     mulMatVec (jtbj J (act_slope g b input)) w).
Proof. exact linear_terms. Qed.
Print Assumptions C25_linear_terms.

(* ---------------- clamped differences (clampedDiff and the control loop of mjd_stepFD), over R.
   (a) for an output that is affine in the perturbed variable, every branch of clampedDiff (forward only,
       backward only, both = centred) returns the exact slope, and zeros when neither direction is given;
   (b) the control loop (nudge_fwd / nudge_back selected with inRange as written, for every flg_centered,
       limited or not, control inside, at the edge of or outside its range, any eps > 0) applied to an output
       that is affine in the control as the force law sees it (mju_clip to ctrlrange when limited): the row
       equals the exact slope whenever at least one nudge is allowed and zero otherwise, and an allowed
       nudge keeps both evaluation points inside the range. *)
Theorem C25_clamped_diff :
  (forall (a c0 : list R) (u h : R), 0 < h -> List.length a = List.length c0 ->
     clampedDiff (aff a c0 u) (Some (aff a c0 (u + h))) None h = a /\
     clampedDiff (aff a c0 u) None (Some (aff a c0 (u - h))) h = a /\
     clampedDiff (aff a c0 u) (Some (aff a c0 (u + h))) (Some (aff a c0 (u - h))) h = a /\
     clampedDiff (aff a c0 u) None None h = map (fun _ : R => 0) a) /\
  (forall (a c0 : list R) (limited centered : bool) (c eps lo hi : R), 0 < eps -> List.length a = List.length c0 ->
     ctrl_column limited centered c eps lo hi (gclip limited lo hi a c0) =
       (if nudge_fwd limited c eps lo hi || nudge_back limited centered c eps lo hi then a else map (fun _ : R => 0) a) /\
     (limited = true -> nudge_fwd limited c eps lo hi = true -> lo <= c <= hi /\ lo <= c + eps <= hi) /\
     (limited = true -> nudge_back limited centered c eps lo hi = true -> lo <= c - eps <= hi /\ lo <= c <= hi)).
Proof. exact (conj clampedDiff_affine ctrl_column_affine). Qed.
Print Assumptions C25_clamped_diff.

(* ---------------- polynomial damping (the general mju_polyForce / mjd_xPolyForce loops, any number of
   coefficients).  Partial: for v <> 0 the slope mjd_passive_vel adds on the diagonal is the derivative
   (Coquelicot is_derive) of the dof damping force -v * polyForce(b, poly, |v|); v = 0 is excluded and the
   composition with a tendon Jacobian is only stated for the linear case above. *)
Theorem C25_poly_damping_partial :
  forall (b : R) (poly : list R) (v : R), v <> 0 ->
    @Coquelicot.Derive.is_derive Coquelicot.Hierarchy.R_AbsRing Coquelicot.Hierarchy.R_NormedModule
      (fun y : R => damper_force b poly y) v (damper_slope b poly v).
Proof. exact damper_derive. Qed.
Print Assumptions C25_poly_damping_partial.

Close Scope R_scope.
Open Scope Z_scope.

(* ---------------- mjd_stepFD / mjd_transitionFD: for EVERY table of state elements with distinct fields
   (C26), every restore signature the state API accepts, every list of perturbed evaluations and
   whatever the un-nudged step and the evaluations do to mjData (they only have to keep the array
   sizes): no state-API error, and at the end every component of the restore signature holds its
   initial contents.  The empty list of evaluations (nothing requested) is included. *)
Theorem C25_fd_restores :
  forall (V : Type) (toBool : V -> V) (F : Type) (feqb : F -> F -> bool),
    (forall a b : F, feqb a b = true <-> a = b) ->
    forall (n : nat) (elems : nat -> option (elem F)),
      fields_injective F elems ->
      forall (spec : Z) (first : mjdata V F -> mjdata V F) (evals : list (mjdata V F -> mjdata V F)) (d : mjdata V F),
        wf V toBool F elems d ->
        (exists es : list (nat * elem F), resolve F n elems spec = Some es) ->
        (forall x : mjdata V F, wf V toBool F elems x -> wf V toBool F elems (first x)) ->
        Forall (fun ev : mjdata V F -> mjdata V F => forall x : mjdata V F, wf V toBool F elems x -> wf V toBool F elems (ev x)) evals ->
        exists d' : mjdata V F,
          stepFD V toBool F feqb n elems spec first evals d = Some d' /\
          wf V toBool F elems d' /\ restored V F n elems spec d d'.
Proof. exact stepFD_restores. Qed.
Print Assumptions C25_fd_restores.

(* on the table regenerated from the working tree, for every model, every signature below 2^mjNSTATE
   resolves (in particular mjSTATE_FULLPHYSICS | mjSTATE_CTRL [| mjSTATE_WARMSTART] = 8287 [8319]),
   so the premise of C25_fd_restores about the state API holds there *)
Theorem C25_restore_spec_resolves :
  forall (env : string -> Z) (spec : Z),
    0 <= spec < 2 ^ Z.of_nat (Z.to_nat (t_nstate gen_tables)) ->
    exists es : list (nat * elem string),
      resolve string (Z.to_nat (t_nstate gen_tables)) (elems_of gen_tables env) spec = Some es.
Proof. exact restore_spec_resolves. Qed.
Print Assumptions C25_restore_spec_resolves.

(* the same on the state table regenerated from the working tree, for every model (env) and both restore
   signatures of mjd_stepFD (8287 = mjSTATE_FULLPHYSICS | mjSTATE_CTRL, 8319 = with mjSTATE_WARMSTART; the check
   compares these numbers with the header): time, qpos, qvel, act, ctrl, plugin_state (and qacc_warmstart) of
   mjData end with their initial contents *)
Theorem C25_fd_restores_mjdata :
  forall (V : Type) (toBool : V -> V) (env : string -> Z) (spec : Z)
         (first : mjdata V string -> mjdata V string) (evals : list (mjdata V string -> mjdata V string)) (d : mjdata V string),
    spec = 8287 \/ spec = 8319 ->
    wf V toBool string (elems_of gen_tables env) d ->
    (forall x : mjdata V string, wf V toBool string (elems_of gen_tables env) x -> wf V toBool string (elems_of gen_tables env) (first x)) ->
    Forall (fun ev : mjdata V string -> mjdata V string =>
              forall x : mjdata V string, wf V toBool string (elems_of gen_tables env) x -> wf V toBool string (elems_of gen_tables env) (ev x)) evals ->
    exists d' : mjdata V string,
      stepFD V toBool string String.eqb (Z.to_nat (t_nstate gen_tables)) (elems_of gen_tables env) spec first evals d = Some d' /\
      d' "time"%string = d "time"%string /\ d' "qpos"%string = d "qpos"%string /\ d' "qvel"%string = d "qvel"%string /\
      d' "act"%string = d "act"%string /\ d' "ctrl"%string = d "ctrl"%string /\ d' "plugin_state"%string = d "plugin_state"%string /\
      (spec = 8319 -> d' "qacc_warmstart"%string = d "qacc_warmstart"%string).
Proof. exact stepFD_restores_mjdata. Qed.
Print Assumptions C25_fd_restores_mjdata.

(* ---------------- mjd_inverseFD.  Partial: the skeleton saves and restores single entries / the qpos
   array around calls of the inverse dynamics, so the statement needs the premise that those calls do
   not write the input fields (qpos, qvel, qacc): under it, for every list of nudges of input fields
   and every call function, every input field ends with its initial contents. *)
Theorem C25_fd_restores_inverse_partial :
  forall (V : Type) (F : Type) (feqb : F -> F -> bool),
    (forall a b : F, feqb a b = true <-> a = b) ->
    forall (inputs : list F) (call : mjdata V F -> mjdata V F) (ps : list (nudge V F)) (d : mjdata V F),
      (forall (x : mjdata V F) (f : F), In f inputs -> call x f = x f) ->
      Forall (fun p : nudge V F => In (nudge_field V F p) inputs) ps ->
      forall f0 : F, In f0 inputs -> inverseFD V F feqb call ps d f0 = d f0.
Proof. exact inverseFD_restores. Qed.
Print Assumptions C25_fd_restores_inverse_partial.

(* ---------------- non-vacuity *)
Example C25_linear_example :
  act_slope (T:=R) (1, 2, 3)%R (4, 5, 6)%R 2%R = 12%R /\ damper_slope (T:=R) 3%R [0%R; 0%R] 7%R = (-3)%R /\
  damper_slope (T:=R) 3%R [1%R; 0%R] 2%R = (-7)%R.
Proof. exact linear_example. Qed.

(* a step that overwrites qpos and time is undone; a field outside the signature keeps what the step wrote *)
Example C25_fd_example :
  let elems := fun i : nat => match i with
                              | 0%nat => Some (mkElem "time"%string 1%nat false)
                              | 1%nat => Some (mkElem "qpos"%string 2%nat false)
                              | _ => None end in
  let d : mjdata Z string := fun f => if String.eqb f "time" then [5] else if String.eqb f "qpos" then [1; 2] else [7] in
  let step : mjdata Z string -> mjdata Z string := fun x f => map (Z.add 1) (x f) in
  match stepFD Z (fun x => x) string String.eqb 2%nat elems 3 step [step; step] d with
  | Some d' => d' "time"%string = [5] /\ d' "qpos"%string = [1; 2] /\ d' "xpos"%string = [10]
  | None => False
  end.
Proof. vm_compute. repeat split; reflexivity. Qed.
