(* C44 — MJX batching, compilation and data transfer are transparent: the state-API part.
   Statements only; proofs are in Proof/MjxStateProof.v (and Proof/StateAPIProof.v of C26).

   Model/MjxState.v models mjx.state_size / get_state / set_state of mjx/mujoco/mjx/_src/io.py generically in a table of
   state elements, with the types of the C model Model/StateAPI.v:  V = values, toBool = astype(bool) read back as float
   (x != 0), F = Data fields, n = mjNSTATE, elems i = (field, size, cast-to-bool) of bit i or None when the bit is not in
   _STATE_MAP / has no size.  None as a result = the Python function raises.
   Gen/MjxStateTable.v is regenerated from io.py, Gen/StateTable.v from the C headers and engine_support.c.

   NOT expressed here: jax.jit / jax.vmap transparency (a property of JAX tracing, not of MuJoCo code), the field mapping
   of put_data / get_data / make_data (oracle only). *)
From Coq Require Import String Ascii List ZArith Bool.
From MJV Require Import Model.StateAPI Gen.StateTable Proof.StateAPIProof Model.MjxState Gen.MjxStateTable Proof.MjxStateProof.
Import ListNotations.
Open Scope Z_scope.

(* --- structure of the three functions, by computation on the regenerated table: every loop runs to mjNSTATE, both
       upper-bound checks compare with 1 << mjNSTATE, the scalar field has size 1, every key of _STATE_MAP is an
       enumerator of this tree's mjtState, casts name keys of _STATE_MAP, no duplicate key --- *)
Theorem C44_table_ok : mjx_table_ok mjx_gen (t_enum gen_tables) = true.
Proof. vm_compute. reflexivity. Qed.
Print Assumptions C44_table_ok.

(* --- MJX's table (component, field, symbolic size, stored-through-bool), bit by bit with the enumerator values of THIS
       tree's header, equals the C table restricted to the components MJX supports ... --- *)
Theorem C44_table_restricted :
  mjx_static_gen = restrict_static mjx_supported_gen (static gen_tables).
Proof. vm_compute. reflexivity. Qed.
Print Assumptions C44_table_restricted.

(* --- ... and MJX supports every component of this tree (all bits below mjNSTATE), so the two tables are equal --- *)
Theorem C44_supported_all : mjx_supported_gen = seq 0 (Z.to_nat (t_nstate gen_tables)).
Proof. vm_compute. reflexivity. Qed.
Print Assumptions C44_supported_all.

Theorem C44_table_eq : mjx_static_gen = static gen_tables.
Proof. vm_compute. reflexivity. Qed.
Print Assumptions C44_table_eq.

(* --- consequently MJX's element function is the C one for EVERY model (valuation env of nq, nv, ...), every bit has an
       entry and distinct bits live in distinct Data fields: the hypotheses of the generic theorems below hold --- *)
Theorem C44_generated_table :
  forall env : string -> Z,
    mjx_elems env = elems_of gen_tables env /\
    all_valid string mjx_nstate (mjx_elems env) /\
    fields_injective string (mjx_elems env).
Proof.
  exact (fun env =>
           conj (elems_static_eq mjx_static_gen gen_tables env C44_table_eq)
          (conj (eq_ind_r (fun E => all_valid string mjx_nstate E)
                          (inst_valid gen_tables env gen_table_ok)
                          (elems_static_eq mjx_static_gen gen_tables env C44_table_eq))
                (eq_ind_r (fun E => fields_injective string E)
                          (inst_inj gen_tables env gen_table_ok)
                          (elems_static_eq mjx_static_gen gen_tables env C44_table_eq)))).
Qed.
Print Assumptions C44_generated_table.

(* --- on every valid signature and well-formed Data, the MJX functions compute what the C functions compute
       (for EVERY table; set_state given a vector of the right length, results equal field by field) --- *)
Theorem C44_agrees_with_C :
  forall (V : Type) (toBool : V -> V) (F : Type) (feqb : F -> F -> bool),
    (forall a b : F, feqb a b = true <-> a = b) ->
    forall (n : nat) (elems : nat -> option (elem F)),
      fields_injective F elems ->
      forall (d : data V F) (sig : Z),
        wf V toBool F elems d -> 0 <= sig < 2 ^ Z.of_nat n ->
        mjx_stateSize F n elems sig = stateSize F n elems sig /\
        mjx_getState V F n elems d sig = getState V F n elems d sig /\
        (forall v : list V, stateSize F n elems sig = Some (List.length v) ->
           exists d1 d2 : data V F,
             mjx_setState V toBool F feqb n elems d v sig = Some d1 /\
             setState V toBool F feqb n elems d v sig = Some d2 /\
             forall f : F, d1 f = d2 f).
Proof.
  exact (fun V toBool F feqb spec n elems inj d sig Hwf Hr =>
           conj (mjx_size_agrees F n elems sig (proj2 (valid_sig_range n sig) Hr))
          (conj (mjx_get_agrees V toBool F n elems d sig Hwf (proj2 (valid_sig_range n sig) Hr))
                (fun v => mjx_set_agrees V toBool F feqb spec n elems inj d sig v Hwf (proj2 (valid_sig_range n sig) Hr)))).
Qed.
Print Assumptions C44_agrees_with_C.

(* --- state_size equals the length get_state returns --- *)
Theorem C44_size_get :
  forall (V : Type) (toBool : V -> V) (F : Type) (n : nat) (elems : nat -> option (elem F)) (d : data V F) (sig : Z),
    wf V toBool F elems d -> 0 <= sig < 2 ^ Z.of_nat n ->
    option_map (@List.length V) (mjx_getState V F n elems d sig) = mjx_stateSize F n elems sig.
Proof.
  exact (fun V toBool F n elems d sig Hwf Hr =>
           mjx_size_get V toBool F n elems d sig Hwf (proj2 (valid_sig_range n sig) Hr)).
Qed.
Print Assumptions C44_size_get.

(* --- set_state after get_state restores exactly the components of the signature and leaves every other field --- *)
Theorem C44_set_get :
  forall (V : Type) (toBool : V -> V) (F : Type) (feqb : F -> F -> bool),
    (forall a b : F, feqb a b = true <-> a = b) ->
    forall (n : nat) (elems : nat -> option (elem F)),
      fields_injective F elems ->
      forall (d d' : data V F) (sig : Z) (v : list V),
        wf V toBool F elems d -> wf V toBool F elems d' -> 0 <= sig < 2 ^ Z.of_nat n ->
        mjx_getState V F n elems d sig = Some v ->
        exists d'' : data V F,
          mjx_setState V toBool F feqb n elems d' v sig = Some d'' /\
          (forall (i : nat) (e : elem F), In i (bits n sig) -> elems i = Some e -> d'' (e_field e) = d (e_field e)) /\
          (forall f : F, (forall (i : nat) (e : elem F), In i (bits n sig) -> elems i = Some e -> e_field e <> f) -> d'' f = d' f).
Proof.
  exact (fun V toBool F feqb spec n elems inj d d' sig v Hwf Hwf' Hr =>
           mjx_set_get V toBool F feqb spec n elems inj d d' sig v Hwf Hwf' (proj2 (valid_sig_range n sig) Hr)).
Qed.
Print Assumptions C44_set_get.

(* --- get_state after set_state returns the vector, entries of bool components passed through x != 0 --- *)
Theorem C44_get_set :
  forall (V : Type) (toBool : V -> V) (F : Type) (feqb : F -> F -> bool),
    (forall a b : F, feqb a b = true <-> a = b) ->
    forall (n : nat) (elems : nat -> option (elem F)),
      fields_injective F elems ->
      forall (d : data V F) (sig : Z) (v : list V) (size : nat) (m : list bool),
        wf V toBool F elems d -> 0 <= sig < 2 ^ Z.of_nat n ->
        mjx_stateSize F n elems sig = Some size -> List.length v = size ->
        stateMask F n elems sig = Some m ->
        exists d' : data V F,
          mjx_setState V toBool F feqb n elems d v sig = Some d' /\
          mjx_getState V F n elems d' sig = Some (applyMask V toBool m v).
Proof.
  exact (fun V toBool F feqb spec n elems inj d sig v size m Hwf Hr =>
           mjx_get_set V toBool F feqb spec n elems inj d sig v size m Hwf (proj2 (valid_sig_range n sig) Hr)).
Qed.
Print Assumptions C44_get_set.

(* ... hence the vector itself when the entries at bool positions are already 0/1 *)
Theorem C44_get_set_bool :
  forall (V : Type) (toBool : V -> V) (F : Type) (feqb : F -> F -> bool),
    (forall a b : F, feqb a b = true <-> a = b) ->
    forall (n : nat) (elems : nat -> option (elem F)),
      fields_injective F elems ->
      forall (d : data V F) (sig : Z) (v : list V) (size : nat) (m : list bool),
        wf V toBool F elems d -> 0 <= sig < 2 ^ Z.of_nat n ->
        mjx_stateSize F n elems sig = Some size -> List.length v = size ->
        stateMask F n elems sig = Some m ->
        (forall (k : nat) (x : V), nth_error m k = Some true -> nth_error v k = Some x -> toBool x = x) ->
        exists d' : data V F,
          mjx_setState V toBool F feqb n elems d v sig = Some d' /\
          mjx_getState V F n elems d' sig = Some v.
Proof.
  exact (fun V toBool F feqb spec n elems inj d sig v size m Hwf Hr =>
           mjx_get_set_bool V toBool F feqb spec n elems inj d sig v size m Hwf (proj2 (valid_sig_range n sig) Hr)).
Qed.
Print Assumptions C44_get_set_bool.

(* --- the round trips on MJX's own table of this tree, for every model, every value type, every Data: the instance the
       property asks for (fields are strings, compared by String.eqb) --- *)
Theorem C44_mjx_round_trip :
  forall (V : Type) (toBool : V -> V) (env : string -> Z) (d d' : data V string) (sig : Z),
    let E := mjx_elems env in
    wf V toBool string E d -> wf V toBool string E d' -> 0 <= sig < 2 ^ Z.of_nat mjx_nstate ->
    (exists v : list V,
       mjx_getState V string mjx_nstate E d sig = Some v /\
       mjx_stateSize string mjx_nstate E sig = Some (List.length v) /\
       exists d'' : data V string,
         mjx_setState V toBool string String.eqb mjx_nstate E d' v sig = Some d'' /\
         (forall (i : nat) (e : elem string), In i (bits mjx_nstate sig) -> E i = Some e -> d'' (e_field e) = d (e_field e)) /\
         (forall f : string, (forall (i : nat) (e : elem string), In i (bits mjx_nstate sig) -> E i = Some e -> e_field e <> f) -> d'' f = d' f)) /\
    (forall (v : list V) (m : list bool),
       mjx_stateSize string mjx_nstate E sig = Some (List.length v) ->
       stateMask string mjx_nstate E sig = Some m ->
       exists d1 : data V string,
         mjx_setState V toBool string String.eqb mjx_nstate E d v sig = Some d1 /\
         mjx_getState V string mjx_nstate E d1 sig = Some (applyMask V toBool m v)).
Proof.
  exact (fun V toBool env d d' sig Hwf Hwf' Hr =>
           mjx_round_trip_inst V toBool mjx_nstate (mjx_elems env)
             (proj1 (proj2 (C44_generated_table env))) (proj2 (proj2 (C44_generated_table env))) d d' sig Hwf Hwf' Hr).
Qed.
Print Assumptions C44_mjx_round_trip.

(* --- outcomes outside the valid signatures.  get_state / set_state raise for sig >= 2^n like the C functions, and
       set_state raises on a vector of the wrong length (mj_setState has no such check).  DIFFERENT from C, where
       every function takes the error outcome for sig < 0 and mj_stateSize also for sig >= 2^n (C26_errors):
       state_size ignores the bits at or above mjNSTATE and a negative python int selects the components of
       sig mod 2^n, in state_size and in get_state --- *)
Theorem C44_errors :
  forall (V : Type) (toBool : V -> V) (F : Type) (feqb : F -> F -> bool) (n : nat) (elems : nat -> option (elem F)),
    (forall sig : Z, 2 ^ Z.of_nat n <= sig ->
       (forall d : data V F, mjx_getState V F n elems d sig = None) /\
       (forall (d : data V F) (v : list V), mjx_setState V toBool F feqb n elems d v sig = None)) /\
    (forall (d : data V F) (v : list V) (sig : Z) (size : nat),
       mjx_stateSize F n elems sig = Some size -> List.length v <> size ->
       mjx_setState V toBool F feqb n elems d v sig = None) /\
    (forall sig : Z, mjx_stateSize F n elems sig = stateSize F n elems (sig mod 2 ^ Z.of_nat n)) /\
    (forall (d : data V F) (sig : Z), sig < 0 ->
       mjx_getState V F n elems d sig = mjx_getState V F n elems d (sig mod 2 ^ Z.of_nat n)).
Proof.
  exact (fun V toBool F feqb n elems =>
           conj (mjx_high_sig V toBool F feqb n elems)
          (conj (mjx_set_wrong_length V toBool F feqb n elems)
          (conj (mjx_size_unchecked F n elems)
                (mjx_get_negative V F n elems)))).
Qed.
Print Assumptions C44_errors.

(* non-vacuity: on the generated MJX table with a small model a well-formed Data exists and the round trip moves data *)
Example C44_example :
  let env := fun k : string => if String.eqb k "nq" then 2 else if String.eqb k "nmocap" then 1 else if String.eqb k "neq" then 2 else 1 in
  let E := mjx_elems env in
  let d : data Z string := fun f => if String.eqb f "eq_active" then [1; 0] else if String.eqb f "qpos" then [5; 6] else
                                    if String.eqb f "mocap_pos" then [7; 8; 9] else if String.eqb f "mocap_quat" then [1; 0; 0; 0] else
                                    if String.eqb f "xfrc_applied" then [0; 0; 0; 0; 0; 0] else [4] in
  mjx_stateSize string 14 E 16383 = Some 26%nat /\
  mjx_getState Z string 14 E d 514 = Some [5; 6; 1; 0] /\
  option_map (fun d' => (d' "qpos"%string, d' "eq_active"%string, d' "qvel"%string))
             (mjx_setState Z toBoolZ string String.eqb 14 E d [9; 8; 7; 0] 514) = Some ([9; 8], [1; 0], [4]) /\
  mjx_setState Z toBoolZ string String.eqb 14 E d [9; 8; 7] 514 = None /\
  mjx_stateSize string 14 E 16384 = Some 0%nat /\
  mjx_stateSize string 14 E (-1) = Some 26%nat /\
  mjx_getState Z string 14 E d 16384 = None.
Proof. vm_compute. repeat split; reflexivity. Qed.
