(* C15 — Convex narrow-phase distances are correct and swap-symmetric: the part that is proved.
   Only statements, each closed by a lemma of Proof/ConvexSupportProof.v, followed by Print Assumptions.
   The theorems are about the per-shape support functions of engine_collision_convex.c and the Minkowski-difference
   support of engine_collision_gjk.c (Model/ConvexSupport.v instantiated at R): the two facts the correctness of
   GJK/EPA rests on.  The GJK/EPA iteration itself and the libccd path are NOT modelled.
   Geometry of a geom: world point = mat l + pos for l in the geom frame (localToGlobal). *)
From Coq Require Import ZArith List PrimFloat Reals Lra.
From MJV Require Import Lib.Num Lib.NumR Model.Spatial Model.CollidePrim Model.ConvexSupport Proof.ConvexSupportProof.
Import ListNotations.
Open Scope R_scope.

(* mjc_sphereSupport for a unit direction (the GJK/EPA callers normalise): the point lies in the ball and maximises <x, dir> over the ball (Cauchy-Schwarz) *)
Theorem C15_support_sphere :
forall (pos : vec3 R) (r : R) (dir : vec3 R),
  0 <= r -> dot3 dir dir = 1 ->
  norm3 (sub3 (sphereSupport pos r dir) pos) <= r /\
  forall x : vec3 R, norm3 (sub3 x pos) <= r -> dot3 x dir <= dot3 (sphereSupport pos r dir) dir.
Proof. exact C15_support_sphere_l. Qed.
Print Assumptions C15_support_sphere.

(* mjc_lineSupport (capsule shrunk to its segment pos + t a, |t| <= len, a the z-axis column; any direction, any matrix): the point is an end point of the
   segment and maximises <x, dir> over the segment (sign argument) *)
Theorem C15_support_line :
forall (mat : mat3 R) (pos : vec3 R) (len : R) (dir : vec3 R),
  0 <= len ->
  (exists t : R, - len <= t <= len /\ lineSupport mat pos len dir = add3 pos (scl3 (zaxis mat) t)) /\
  forall t : R, - len <= t <= len ->
    dot3 (add3 pos (scl3 (zaxis mat) t)) dir <= dot3 (lineSupport mat pos len dir) dir.
Proof. exact C15_support_line_l. Qed.
Print Assumptions C15_support_line.

(* mjc_capsuleSupport for a rotation matrix and a unit direction: the point is mat l* + pos with l* in the capsule {l : exists |t| <= h, |l - (0,0,t)| <= r}
   of the geom frame, and it maximises <x, dir> over the capsule (case split on the sign of the axial component + Cauchy-Schwarz) *)
Theorem C15_support_capsule :
forall (mat : mat3 R) (pos : vec3 R) (r h : R) (dir : vec3 R),
  0 <= r -> 0 <= h -> mulMatMat3 mat (transpose3 mat) = matId -> dot3 dir dir = 1 ->
  let inCap := fun l : vec3 R => exists t : R, - h <= t <= h /\ norm3 (sub3 l (0, 0, t)) <= r in
  exists lstar : vec3 R,
    capsuleSupport mat pos r h dir = localToGlobal mat lstar pos /\ inCap lstar /\
    forall l : vec3 R, inCap l -> dot3 (localToGlobal mat l pos) dir <= dot3 (capsuleSupport mat pos r h dir) dir.
Proof. exact C15_support_capsule_l. Qed.
Print Assumptions C15_support_capsule.

(* mjc_ellipsoidSupport for positive semi-axes, any matrix and ANY direction: in the regular arm (|S mat^T dir|^2 >= mjMINVAL^2) the point is mat l* + pos with l* on the
   ellipsoid and it maximises <x, dir> over the ellipsoid (Cauchy-Schwarz in the scaled coordinates; the direction is scaled by the semi-axes twice);
   in the degenerate arm the returned +x pole still belongs to the ellipsoid *)
Theorem C15_support_ellipsoid :
forall (mat : mat3 R) (pos size dir : vec3 R),
  (let '(s0, s1, s2) := size in 0 < s0 /\ 0 < s1 /\ 0 < s2) ->
  let inEll := fun l : vec3 R =>
    let '(s0, s1, s2) := size in let '(l0, l1, l2) := l in
    (l0 / s0) * (l0 / s0) + (l1 / s1) * (l1 / s1) + (l2 / s2) * (l2 / s2) <= 1 in
  exists lstar : vec3 R,
    ellipsoidSupport mat pos size dir = localToGlobal mat lstar pos /\ inEll lstar /\
    (mjMINVAL2 <= ellipsoidNorm2 size (mulMatTVec3 mat dir) ->
     forall l : vec3 R, inEll l -> dot3 (localToGlobal mat l pos) dir <= dot3 (ellipsoidSupport mat pos size dir) dir).
Proof. exact C15_support_ellipsoid_l. Qed.
Print Assumptions C15_support_ellipsoid.

(* mjc_cylinderSupport for any matrix and ANY direction: the point is mat l* + pos with l* in the cylinder {l0^2 + l1^2 <= r^2, |l2| <= h}; it maximises <x, dir> over the
   cylinder when the radial part of the local direction is at least mjMINVAL long (case split: cap by the sign of the axial component, rim by planar Cauchy-Schwarz),
   and in the degenerate arm (radial part shorter than mjMINVAL: cap centre returned) up to r times that radial length *)
Theorem C15_support_cylinder :
forall (mat : mat3 R) (pos : vec3 R) (r h : R) (dir : vec3 R),
  0 <= r -> 0 <= h ->
  let inCyl := fun l : vec3 R => let '(l0, l1, l2) := l in l0 * l0 + l1 * l1 <= r * r /\ - h <= l2 <= h in
  let n2 := (let '(d0, d1, _) := mulMatTVec3 mat dir in d0 * d0 + d1 * d1) in
  exists lstar : vec3 R,
    cylinderSupport mat pos r h dir = localToGlobal mat lstar pos /\ inCyl lstar /\
    forall l : vec3 R, inCyl l ->
      dot3 (localToGlobal mat l pos) dir <=
      dot3 (cylinderSupport mat pos r h dir) dir + (if Rlt_dec n2 mjMINVAL2 then r * sqrt n2 else 0).
Proof. exact C15_support_cylinder_l. Qed.
Print Assumptions C15_support_cylinder.

(* mjc_boxSupport for any matrix and ANY direction: the point is the corner mat l* + pos with l*_i = +-size_i by the sign of the local direction (>= 0 gives +), it belongs to the box
   and maximises <x, dir> over the box (sign argument); the recorded vertindex has bit i set iff the i-th local direction component is >= 0 *)
Theorem C15_support_box :
forall (mat : mat3 R) (pos size dir : vec3 R),
  (let '(s0, s1, s2) := size in 0 < s0 /\ 0 < s1 /\ 0 < s2) ->
  let inBx := fun l : vec3 R =>
    let '(s0, s1, s2) := size in let '(l0, l1, l2) := l in - s0 <= l0 <= s0 /\ - s1 <= l1 <= s1 /\ - s2 <= l2 <= s2 in
  exists lstar : vec3 R,
    fst (boxSupport mat pos size dir) = localToGlobal mat lstar pos /\ inBx lstar /\
    (forall l : vec3 R, inBx l -> dot3 (localToGlobal mat l pos) dir <= dot3 (fst (boxSupport mat pos size dir)) dir) /\
    snd (boxSupport mat pos size dir) =
      (let '(d0, d1, d2) := mulMatTVec3 mat dir in
       ((if Rle_dec 0 d0 then 1 else 0) + (if Rle_dec 0 d1 then 2 else 0) + (if Rle_dec 0 d2 then 4 else 0))%Z).
Proof. exact C15_support_box_l. Qed.
Print Assumptions C15_support_box.

(* mjc_meshSupport (exhaustive scan over the vertex list, optional cached start index): for a valid cached index, or without cache when some vertex has <v, mat^T dir> > -FLT_MAX,
   the result is vertex k of the list transformed to the world frame, k is the recorded vertindex, and it maximises <x, dir> over all vertices (hence over their convex hull) *)
Theorem C15_support_mesh :
forall (mat : mat3 R) (pos : vec3 R) (verts : list (vec3 R)) (vertindex : Z) (dir : vec3 R),
  let ld := mulMatTVec3 mat dir in
  ((vertindex < 0)%Z /\ (exists v : vec3 R, In v verts /\ - fltMax < dot3 ld v)) \/
  ((0 <= vertindex < Z.of_nat (length verts))%Z) ->
  let r := meshSupport mat pos verts vertindex dir in
  exists k : nat, (k < length verts)%nat /\ snd r = Z.of_nat k /\
    fst r = localToGlobal mat (nth k verts zero3) pos /\
    (forall v : vec3 R, In v verts -> dot3 ld v <= dot3 ld (nth k verts zero3)) /\
    (forall v : vec3 R, In v verts -> dot3 (localToGlobal mat v pos) dir <= dot3 (fst r) dir).
Proof. exact C15_support_mesh_l. Qed.
Print Assumptions C15_support_mesh.

(* support(v, obj1, obj2, dir, -dir) of engine_collision_gjk.c without margins: if s1 maximises <., dir> over A and s2 maximises <., -dir> over B then
   vert = s1(dir) - s2(-dir) = vert1 - vert2 maximises <a - b, dir> over the Minkowski difference A - B *)
Theorem C15_minkowski :
forall (A B : vec3 R -> Prop) (s1 s2 : vec3 R -> vec3 R) (dir : vec3 R),
  let dneg := scl3 dir (-1) in
  (forall a : vec3 R, A a -> dot3 a dir <= dot3 (s1 dir) dir) ->
  (forall b : vec3 R, B b -> dot3 b dneg <= dot3 (s2 dneg) dneg) ->
  let '(v, v1, v2) := minkSupport s1 s2 0 0 dir dneg in
  v = sub3 v1 v2 /\ v1 = s1 dir /\ v2 = s2 dneg /\
  forall a b : vec3 R, A a -> B b -> dot3 (sub3 a b) dir <= dot3 v dir.
Proof. exact C15_minkowski_l. Qed.
Print Assumptions C15_minkowski.

(* the margin handling of support(): adding margin/2 along a unit direction (only when margin > 0) yields the support point of the set inflated by a ball of
   radius max(0, margin)/2; and gjkSupport calls support() with dir = -x_k/|x_k| (unit) and dir_neg = -dir *)
Theorem C15_minkowski_margin :
(forall (A : vec3 R -> Prop) (s dir : vec3 R) (margin : R),
   dot3 dir dir = 1 -> (forall a : vec3 R, A a -> dot3 a dir <= dot3 s dir) ->
   forall (a e : vec3 R), A a -> norm3 e <= Rmax 0 margin / 2 ->
     dot3 (add3 a e) dir <= dot3 (addMargin s dir margin) dir) /\
(forall (s1 s2 : vec3 R -> vec3 R) (m1 m2 : R) (x : vec3 R),
   0 < norm3 x ->
   let dneg := scl3 x (1 / norm3 x) in
   let dir := scl3 dneg (-1) in
   gjkSupport s1 s2 m1 m2 x (norm3 x) = minkSupport s1 s2 m1 m2 dir dneg /\
   dot3 dir dir = 1 /\ dneg = scl3 dir (-1)).
Proof. exact C15_minkowski_margin_l. Qed.
Print Assumptions C15_minkowski_margin.
