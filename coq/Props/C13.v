(* C13 — Contacts report true geometry.
   Only statements, each closed by a lemma of Proof/CollidePrimProof.v, followed by Print Assumptions.
   All statements are over the real numbers (the model Model/CollidePrim.v instantiated at R); IEEE rounding is outside.
   Vectors are the flat tuples of Model/Spatial.v; zaxis m is the third column of a geom's rotation matrix
   (plane normal / capsule axis); a pre-contact is (dist, pos, normal, tangent). *)
From Coq Require Import ZArith List PrimFloat Reals Lra.
From MJV Require Import Lib.Num Lib.NumR Model.Spatial Model.CollidePrim Proof.CollidePrimProof.
Import ListNotations.
Open Scope R_scope.

(* mju_makeFrame (model of the function as it is in /repo after the fix of the parallel-tangent defect):
   mjERROR exactly when the x-axis is shorter than 0.5; otherwise, for EVERY y-axis input, the result is an orthonormal
   right-handed frame whose first row is the normalised x-axis.  Branches: the y-axis candidate is the given one unless
   |y|^2 < 1/4, in which case it is the default (0,1,0) (when |x_1| < 1/2) or (0,0,1); the result's y-axis is the
   normalised rejection of the candidate from x, or of the default when that rejection is shorter than mjMINVAL
   (candidate parallel to x). *)
Theorem C13_frame :
forall xin yin : vec3 R,
  (norm3 xin < / 2 -> makeFrame xin yin = None) /\
  (/ 2 <= norm3 xin ->
     exists x y z : vec3 R,
       makeFrame xin yin = Some (x, y, z) /\ x = scl3 xin (1 / norm3 xin) /\
       (dot3 x x = 1 /\ dot3 y y = 1 /\ dot3 z z = 1 /\ dot3 x y = 0 /\ dot3 x z = 0 /\ dot3 y z = 0 /\
       z = cross x y /\ dot3 x (cross y z) = 1) /\
       (let dflt := if Rlt_dec (Rabs (let '(_, b, _) := x in b)) (/ 2) then (0, 1, 0) else (0, 0, 1) in
        let cand := if Rlt_dec (dot3 yin yin) (/ 4) then dflt else yin in
        let rej := fun w : vec3 R => sub3 w (scl3 x (dot3 x w)) in
        y = if Rlt_dec (norm3 (rej cand)) mjMINVAL then scl3 (rej dflt) (1 / norm3 (rej dflt))
            else scl3 (rej cand) (1 / norm3 (rej cand)))).
Proof. exact C13_frame_l. Qed.
Print Assumptions C13_frame.

(* frame assembly of mj_narrowphase + mj_setContact: a pre-contact with a unit normal gets an orthonormal right-handed
   frame whose first row is that normal, whatever tangent the collider wrote *)
Theorem C13_contact_frame :
forall c : precon R,
  dot3 (pc_normal c) (pc_normal c) = 1 ->
  exists y z : vec3 R,
    contactFrame c = Some (pc_normal c, y, z) /\
    (let x := pc_normal c in dot3 x x = 1 /\ dot3 y y = 1 /\ dot3 z z = 1 /\ dot3 x y = 0 /\ dot3 x z = 0 /\ dot3 y z = 0 /\
       z = cross x y /\ dot3 x (cross y z) = 1).
Proof. exact C13_contact_frame_l. Qed.
Print Assumptions C13_contact_frame.

(* mjraw_SphereSphere / mjc_SphereSphere: a contact is emitted iff the signed distance d = |c2-c1| - r1 - r2 is <= margin
   (for margin + r1 + r2 >= 0: the C code compares squares); it reports dist = d, a unit normal, pos = c1 + (r1 + d/2) n;
   for centres at least mjMINVAL apart the normal is (c2-c1)/|c2-c1| (from geom 1 to geom 2), pos is the midpoint of the two
   surface points p1 = c1 + r1 n, p2 = c2 - r2 n, and p2 - p1 = d n; for (nearly) coincident centres the normal is the
   normalised cross product of the two z-axes (or (1,0,0)), still unit *)
Theorem C13_sphere_sphere :
forall (margin : R) (c1 : vec3 R) (m1 : mat3 R) (r1 : R) (c2 : vec3 R) (m2 : mat3 R) (r2 : R),
  0 <= margin + r1 + r2 ->
  let D := norm3 (sub3 c2 c1) in
  let d := D - r1 - r2 in
  (margin < d -> rawSphereSphere margin c1 m1 r1 c2 m2 r2 = []) /\
  (d <= margin ->
     exists (pos n : vec3 R),
       rawSphereSphere margin c1 m1 r1 c2 m2 r2 = [(d, pos, n, zero3)] /\ dot3 n n = 1 /\
       pos = add3 (scl3 n (r1 + d / 2)) c1 /\
       (D < mjMINVAL -> n = fst (normalize3 (cross (zaxis m1) (zaxis m2)))) /\
       (mjMINVAL <= D ->
          n = scl3 (sub3 c2 c1) (1 / D) /\
          let p1 := add3 c1 (scl3 n r1) in
          let p2 := sub3 c2 (scl3 n r2) in
          pos = scl3 (add3 p1 p2) (/ 2) /\ sub3 p2 p1 = scl3 n d)).
Proof. exact C13_sphere_sphere_l. Qed.
Print Assumptions C13_sphere_sphere.

(* the reported value is the true signed distance: |c2-c1| - r1 - r2 is a lower bound of |y - x| over all points x of ball 1
   and y of ball 2, and when the balls do not overlap it is attained by the two surface points of the contact *)
Theorem C13_sphere_sphere_distance :
forall (c1 : vec3 R) (r1 : R) (c2 : vec3 R) (r2 : R),
  let d := norm3 (sub3 c2 c1) - r1 - r2 in
  (forall x y : vec3 R, norm3 (sub3 x c1) <= r1 -> norm3 (sub3 y c2) <= r2 -> d <= norm3 (sub3 y x)) /\
  (0 <= r1 -> 0 <= r2 -> mjMINVAL <= norm3 (sub3 c2 c1) -> 0 <= d ->
     let n := scl3 (sub3 c2 c1) (1 / norm3 (sub3 c2 c1)) in
     let p1 := add3 c1 (scl3 n r1) in
     let p2 := sub3 c2 (scl3 n r2) in
     norm3 (sub3 p1 c1) <= r1 /\ norm3 (sub3 p2 c2) <= r2 /\ norm3 (sub3 p2 p1) = d).
Proof. exact C13_sphere_sphere_distance_l. Qed.
Print Assumptions C13_sphere_sphere_distance.

(* mjraw_PlaneSphere / mjc_PlaneSphere with plane normal n = z-axis of geom 1: a contact is emitted iff d = n.(c2-c1) - r <= margin;
   it reports dist = d, normal = n (pointing from the plane to the sphere), and pos is the midpoint of the foot point
   p1 = c2 - (n.(c2-c1)) n of the centre on the plane and the lowest sphere point p2 = c2 - r n; p2 - p1 = d n *)
Theorem C13_plane_sphere :
forall (margin : R) (c1 : vec3 R) (m1 : mat3 R) (c2 : vec3 R) (r : R),
  let n := zaxis m1 in
  let d := dot3 (sub3 c2 c1) n - r in
  (margin < d -> rawPlaneSphere margin c1 m1 c2 r = []) /\
  (d <= margin ->
     exists pos : vec3 R,
       rawPlaneSphere margin c1 m1 c2 r = [(d, pos, n, zero3)] /\
       let p1 := sub3 c2 (scl3 n (dot3 (sub3 c2 c1) n)) in
       let p2 := sub3 c2 (scl3 n r) in
       pos = scl3 (add3 p1 p2) (/ 2) /\ sub3 p2 p1 = scl3 n d /\ (dot3 n n = 1 -> dot3 (sub3 p1 c1) n = 0)).
Proof. exact C13_plane_sphere_l. Qed.
Print Assumptions C13_plane_sphere.

(* true signed distance plane (half-space below the plane) to ball: lower bound for all point pairs, attained when separated *)
Theorem C13_plane_sphere_distance :
forall (c1 n c2 : vec3 R) (r : R),
  dot3 n n = 1 ->
  let d := dot3 (sub3 c2 c1) n - r in
  (forall x y : vec3 R, dot3 (sub3 x c1) n <= 0 -> norm3 (sub3 y c2) <= r -> d <= norm3 (sub3 y x)) /\
  (0 <= r -> 0 <= d ->
     let p1 := sub3 c2 (scl3 n (dot3 (sub3 c2 c1) n)) in
     let p2 := sub3 c2 (scl3 n r) in
     dot3 (sub3 p1 c1) n <= 0 /\ norm3 (sub3 p2 c2) <= r /\ norm3 (sub3 p2 p1) = d).
Proof. exact C13_plane_sphere_distance_l. Qed.
Print Assumptions C13_plane_sphere_distance.

(* mjc_PlaneCapsule: the contacts are exactly the plane-sphere contacts of the two end spheres (centres c2 +- len a, a = capsule axis),
   each present iff its own distance is <= margin, each with normal = plane normal and tangent = capsule axis; the smaller of the two
   end distances is the true signed distance: a lower bound of |y - x| over the half-space and the capsule *)
Theorem C13_plane_capsule :
forall (margin : R) (c1 : vec3 R) (m1 : mat3 R) (c2 : vec3 R) (m2 : mat3 R) (r len : R),
  let n := zaxis m1 in
  let a := zaxis m2 in
  let eP := add3 c2 (scl3 a len) in
  let eM := sub3 c2 (scl3 a len) in
  let dP := dot3 (sub3 eP c1) n - r in
  let dM := dot3 (sub3 eM c1) n - r in
  let con := fun (e : vec3 R) (d : R) => (d, add3 e (scl3 n (- d / 2 - r)), n, a) in
  planeCapsule margin c1 m1 c2 m2 r len =
    (if Rle_dec dP margin then [con eP dP] else []) ++ (if Rle_dec dM margin then [con eM dM] else []) /\
  (dot3 n n = 1 -> 0 <= len ->
   forall (x y : vec3 R) (s : R), - len <= s <= len -> dot3 (sub3 x c1) n <= 0 ->
     norm3 (sub3 y (add3 c2 (scl3 a s))) <= r -> Rmin dP dM <= norm3 (sub3 y x)).
Proof. exact C13_plane_capsule_l. Qed.
Print Assumptions C13_plane_capsule.

(* mjraw_SphereCapsule / mjc_SphereCapsule (a = capsule axis, unit): the function is the sphere-sphere test of geom 1 against a sphere of
   radius r2 centred at q = c2 + clip(a.(c1-c2), -len, len) a, so C13_sphere_sphere applies with c2 := q; q lies on the segment and is its
   nearest point to c1, and |q - c1| - r1 - r2 is a lower bound of |y - x| over the ball and the capsule (true signed distance) *)
Theorem C13_sphere_capsule :
forall (margin : R) (c1 : vec3 R) (m1 : mat3 R) (r1 : R) (c2 : vec3 R) (m2 : mat3 R) (r2 len : R),
  let a := zaxis m2 in
  let q := add3 (scl3 a (clip (dot3 a (sub3 c1 c2)) (- len) len)) c2 in
  sphereCapsule margin c1 m1 r1 c2 m2 r2 len = rawSphereSphere margin c1 m1 r1 q m2 r2 /\
  (dot3 a a = 1 -> 0 <= len ->
     (exists s : R, - len <= s <= len /\ q = add3 (scl3 a s) c2) /\
     (forall s : R, - len <= s <= len -> norm3 (sub3 q c1) <= norm3 (sub3 (add3 (scl3 a s) c2) c1)) /\
     (forall (x y : vec3 R) (s : R), - len <= s <= len -> norm3 (sub3 x c1) <= r1 ->
        norm3 (sub3 y (add3 (scl3 a s) c2)) <= r2 -> norm3 (sub3 q c1) - r1 - r2 <= norm3 (sub3 y x))).
Proof. exact C13_sphere_capsule_l. Qed.
Print Assumptions C13_sphere_capsule.

(* mjc_SphereCylinder, deep arm (sphere centre strictly inside the cylinder: |x| < h along the unit axis a, radial distance rho < R): exactly one of the cap and side
   sub-colliders is used, the nearer one, so the reported dist is -min(h - |x|, R - rho) - r = (signed distance of the centre to the solid cylinder) - r, for centres in the
   upper AND the lower half; a contact is emitted iff that is <= margin.  (The outside arms -- side, cap, corner -- have no theorem: tie and oracle only.) *)
Theorem C13_sphere_cylinder_deep :
forall (margin : R) (c1 : vec3 R) (m1 : mat3 R) (r : R) (c2 : vec3 R) (m2 : mat3 R) (Rc h : R),
  let a := zaxis m2 in
  let x := dot3 a (sub3 c1 c2) in
  let rho := norm3 (sub3 (sub3 c1 c2) (scl3 a x)) in
  dot3 a a = 1 -> Rabs x < h -> rho < Rc -> 0 <= margin + r + Rc ->
  let d := - Rmin (h - Rabs x) (Rc - rho) - r in
  (margin < d -> sphereCylinder margin c1 m1 r c2 m2 Rc h = []) /\
  (d <= margin -> exists (pos n : vec3 R), sphereCylinder margin c1 m1 r c2 m2 Rc h = [(d, pos, n, zero3)]).
Proof. exact C13_sphere_cylinder_deep_l. Qed.
Print Assumptions C13_sphere_cylinder_deep.

(* mjraw_CapsuleCapsule, PARTIAL: only the non-parallel arm (|det| >= mjMINVAL): the chosen segment parameters lie in [-1,1] and the result is the
   sphere-sphere test (C13_sphere_sphere) of the two segment points, hence dist = |q2-q1| - r1 - r2 >= true distance.  MISSING: that (q1,q2) is the
   nearest pair of the two segments (only checked by the oracle), and the whole parallel arm (see C13_capsule_parallel_refuted) *)
Theorem C13_capsule_capsule_partial :
forall (margin : R) (c1 : vec3 R) (m1 : mat3 R) (r1 len1 : R) (c2 : vec3 R) (m2 : mat3 R) (r2 len2 : R),
  let axis1 := scl3 (zaxis m1) len1 in
  let axis2 := scl3 (zaxis m2) len2 in
  let dif := sub3 c1 c2 in
  let ma := dot3 axis1 axis1 in
  let mb := - dot3 axis1 axis2 in
  let mc := dot3 axis2 axis2 in
  let u := - dot3 axis1 dif in
  let v := dot3 axis2 dif in
  let det := ma * mc - mb * mb in
  mjMINVAL <= Rabs det ->
  exists x1 x2 : R,
    -1 <= x1 <= 1 /\ -1 <= x2 <= 1 /\ (x1, x2) = capsuleParams ma mb mc u v det /\
    capsuleCapsule margin c1 m1 r1 len1 c2 m2 r2 len2 =
      rawSphereSphere margin (add3 (scl3 axis1 x1) c1) m1 r1 (add3 (scl3 axis2 x2) c2) m2 r2.
Proof. exact C13_capsule_capsule_partial_l. Qed.
Print Assumptions C13_capsule_capsule_partial.

(* REFUTED for the parallel arm (finding C13 parallel-overhang, recorded in KNOWN_FINDINGS.json): two parallel capsules with unit axes and positive sizes
   for which every contact returned reports dist = 3 although two segment points are at signed distance 1 (capsule 1, half-length 5, overhangs
   capsule 2, half-length 1, on both sides; lateral offset 3, radii 1) *)
Theorem C13_capsule_parallel_refuted :
exists (margin : R) (c1 : vec3 R) (m1 : mat3 R) (r1 len1 : R) (c2 : vec3 R) (m2 : mat3 R) (r2 len2 : R),
    dot3 (zaxis m1) (zaxis m1) = 1 /\ dot3 (zaxis m2) (zaxis m2) = 1 /\
    0 < r1 /\ 0 < r2 /\ 0 < len1 /\ 0 < len2 /\ 0 <= margin /\
    capsuleCapsule margin c1 m1 r1 len1 c2 m2 r2 len2 <> [] /\
    (forall c : precon R, In c (capsuleCapsule margin c1 m1 r1 len1 c2 m2 r2 len2) -> pc_dist c = 3) /\
    (exists s t : R, - len1 <= s <= len1 /\ - len2 <= t <= len2 /\
       norm3 (sub3 (add3 c2 (scl3 (zaxis m2) t)) (add3 c1 (scl3 (zaxis m1) s))) - r1 - r2 = 1).
Proof. exact C13_capsule_parallel_refuted_l. Qed.
Print Assumptions C13_capsule_parallel_refuted.

(* every contact written by the five colliders is within the margin handed to the collider (margin + gap of the pair), has a unit normal when the
   geom z-axes are unit, and therefore (C13_contact_frame) gets an orthonormal frame *)
Theorem C13_margin :
forall (margin : R) (c1 : vec3 R) (m1 : mat3 R) (s1 l1 : R) (c2 : vec3 R) (m2 : mat3 R) (s2 l2 : R) (c : precon R),
  (In c (rawPlaneSphere margin c1 m1 c2 s2) \/ In c (planeCapsule margin c1 m1 c2 m2 s2 l2) ->
     pc_dist c <= margin /\ pc_normal c = zaxis m1) /\
  (0 <= margin + s1 + s2 ->
   In c (rawSphereSphere margin c1 m1 s1 c2 m2 s2) \/ In c (sphereCapsule margin c1 m1 s1 c2 m2 s2 l2) \/
   In c (capsuleCapsule margin c1 m1 s1 l1 c2 m2 s2 l2) ->
     pc_dist c <= margin /\ dot3 (pc_normal c) (pc_normal c) = 1).
Proof. exact C13_margin_l. Qed.
Print Assumptions C13_margin.

(* analytic arm of mj_geomDistance on the contact list of the pair: the result is min(distmax, smallest contact dist) (never above distmax, never above a
   contact dist, and equal to distmax or to the dist of some contact below distmax); the witness points are pos -+ dist/2 normal of that contact
   (from on geom 1, to on geom 2), and when the two geoms are passed in the other order (flip: they are sorted by type and the same collider call
   is made) the distance is the same and the witness points are exchanged *)
Theorem C13_geomDistance :
forall (cons : list (precon R)) (distmax : R),
  let r := geomDistance false cons distmax in
  let d := let '(d, _, _) := r in d in
  let from := let '(_, f, _) := r in f in
  let to := let '(_, _, t) := r in t in
  d <= distmax /\ (forall c : precon R, In c cons -> d <= pc_dist c) /\
  ((d = distmax /\ from = zero3 /\ to = zero3) \/
   (exists c : precon R, In c cons /\ d = pc_dist c /\ pc_dist c < distmax /\
      from = sub3 (pc_pos c) (scl3 (pc_normal c) (1 * pc_dist c / 2)) /\
      to = add3 (pc_pos c) (scl3 (pc_normal c) (1 * pc_dist c / 2)))) /\
  geomDistance true cons distmax = (d, to, from).
Proof. exact C13_geomDistance_l. Qed.
Print Assumptions C13_geomDistance.

(* non-vacuity: unit spheres with centres 3 apart: one contact with dist 1, normal +x and pos half way when margin = 2, none when margin = 1/2 *)
Example C13_example :
exists (pos n : vec3 R),
  rawSphereSphere 2 (0, 0, 0) I3 1 (3, 0, 0) I3 1 = [(1, pos, n, zero3)] /\ n = (1, 0, 0) /\ pos = (3 / 2, 0, 0) /\
  rawSphereSphere (/ 2) (0, 0, 0) I3 1 (3, 0, 0) I3 1 = [].
Proof. exact C13_example_l. Qed.
