(* C42 — Schema generators faithfully translate any valid schema: the element table
   (generate_mjcf_table.py) and the keyword map (generate_mjcf_map.py), for the model
   Model/GenTables.v, which starts from the parsed schema object.
   Only statements, each closed by a lemma of Proof/GenTablesProof.v. *)
From Coq Require Import List String Bool.
From MJV Require Import Model.GenTables Proof.GenTablesProof.
Import ListNotations.
Open Scope string_scope.

(* For EVERY valid schema (Model.GenTables.valid: the structural rules of mjcf_schema._validate,
   including the rule that the child graph has no cycle through distinct non-alias elements) that
   declares the root element, the generator terminates and the sequence of table entries is exactly
   the pre-order traversal of the child tree below mujoco: [is_ctree] says that every node carries
   the expansion of its element's members through nested use (the relation gexp: attributes in
   declaration order), and that its subtrees are, in declaration order, the trees of exactly the
   children that get rows (not the element itself, not alias elements, not plugin in default
   context) with their declared cardinalities and the default-context flag; [preorder] emits for a
   node one row {tag, cardinality, attribute names} (minus name/class/nodefault attributes in
   default context), then the bracketed rows of its subtrees.  Equality of lists: nothing else is
   emitted.  Determinism is definitional (table_entries is a function of the schema). *)
Theorem C42_table_faithful :
  forall (s : schema) (root : element),
    valid s = true -> lookup_element s "mujoco" = Some root ->
    exists t, root_is t root "!" false /\ is_ctree s t /\ table_entries s = Some (preorder 0 t).
Proof. exact table_faithful. Qed.
Print Assumptions C42_table_faithful.

(* what the rows of a pre-order listing say: one row per node of the tree, in pre-order, made of
   the quoted XML tag, the quoted cardinality and the quoted names of the (projected) attributes *)
Theorem C42_rows_content :
  forall (t : tree) (indent : nat),
    map (fun en => match en with ERow _ p _ => p | _ => [] end) (filter is_row (preorder indent t))
    = map (fun n => match n with Node e card proj attrs _ _ =>
                      quote (e_xml e) :: quote card :: map quote (map a_name (projected proj attrs)) end)
          (nodes t).
Proof. exact rows_of_preorder. Qed.
Print Assumptions C42_rows_content.

(* the expansion through nested use is a function of the schema: a row cannot list anything but
   the declared attributes, in the declared order *)
Theorem C42_expansion_functional :
  forall s ms o1, gexp s ms o1 -> forall o2, gexp s ms o2 -> o1 = o2.
Proof. exact gexp_fun. Qed.
Print Assumptions C42_expansion_functional.

(* keyword map: for every schema, the emitted items are exactly the (keyword, constant) pairs of
   the enums in declaration order, one head and one size row per enum with the item count *)
Theorem C42_map_faithful :
  forall s : schema,
    flat_map (fun r => match r with MapItem _ k v => [(k, v)] | _ => [] end) (map_rows s)
      = flat_map en_items (s_enums s)
    /\ flat_map (fun r => match r with MapHead n => [n] | _ => [] end) (map_rows s) = map en_name (s_enums s)
    /\ flat_map (fun r => match r with MapSize n k => [(n, k)] | _ => [] end) (map_rows s)
       = map (fun e => (en_name e, List.length (en_items e))) (s_enums s).
Proof. intros s. split; [apply map_rows_items | apply map_rows_heads]. Qed.
Print Assumptions C42_map_faithful.

(* the hypotheses are satisfiable by a non-trivial schema: nested use, default-context projection,
   a self child, an alias child, a shared child, a constraint that survives only outside defaults *)
Definition ex_attr (n : string) (nd : bool) : member := MAttr (mkAttr n "int" "" "1..1" "" nd false).
Definition ex_schema : schema :=
  mkSchema [mkEnum "en" [("a", "1"); ("2d", "mjX")]]
    [mkGroup "g0" [ex_attr "pos" false; MCon "exclusive" [["pos"]; ["name"]]];
     mkGroup "g1" [MUse "g0"; ex_attr "quat" true]]
    [mkElement "mujoco" "mujoco" false [ex_attr "model" false; MChild "default" "?"; MChild "body" "*"];
     mkElement "default" "default" false [ex_attr "class" false; MChild "default" "R"; MChild "geom" "?"];
     mkElement "body" "body" false [ex_attr "name" false; MUse "g1"; MChild "body" "R"; MChild "frame" "*"; MChild "geom" "*"];
     mkElement "frame" "frame" true [MChild "body" "*"];
     mkElement "geom" "geom" false [ex_attr "name" false; MUse "g1"; MConst]].
Example C42_example_valid : valid ex_schema = true.
Proof. vm_compute. reflexivity. Qed.
Example C42_example_rows :
  option_map (map (fun en => match en with ERow i p _ => (i, p) | EOpen i => (i, ["<"]) | EClose i => (i, [">"]) | EBlank => (0, []) end))
             (table_entries ex_schema)
  = Some [(0, ["""mujoco"""; """!"""; """model"""]); (0, ["<"]);
          (4, ["""default"""; """?"""; """class"""]); (4, ["<"]);
          (8, ["""geom"""; """?"""; """pos"""]); (4, [">"]); (0, []);
          (4, ["""body"""; """*"""; """name"""; """pos"""; """quat"""]); (4, ["<"]);
          (8, ["""geom"""; """*"""; """name"""; """pos"""; """quat"""]); (4, [">"]); (0, []);
          (0, [">"])].
Proof. vm_compute. reflexivity. Qed.

(* a child cycle through two distinct elements is not a valid schema (the rule added to
   _validate after this check found that the generator did not terminate on it), and the model of
   the generator indeed has no finite output for it *)
Definition cyc_schema : schema :=
  mkSchema [] []
    [mkElement "mujoco" "mujoco" false [MChild "a" "*"];
     mkElement "a" "a" false [ex_attr "x" false; MChild "b" "?"];
     mkElement "b" "b" false [ex_attr "y" false; MChild "a" "?"]].
Example C42_child_cycle_invalid : valid cyc_schema = false /\ table_entries cyc_schema = None.
Proof. vm_compute. split; reflexivity. Qed.
