(* C23 — Linear algebra routines agree with their definitions.
   Only statements, each closed by a lemma of Proof/*.v, followed by Print Assumptions.
   All statements are about Model/Sparse.v and Model/Chol.v instantiated at R (exact real
   arithmetic; IEEE rounding is outside every theorem).

   Vocabulary (defined in the Proof files):
     csrR = csr R: (rownnz, rowadr, zipped (column, value) array); row S r = the slice of row r;
     cols es = the column indices of an entry list; lk c es = the value stored for column c (0 if absent);
     wf_row nc es      := the columns of es are pairwise distinct and < nc;
     wf_pattern nr nc S := every row r < nr is wf_row.  NOTHING is asked of the layout: empty rows,
                          gaps between rows (uncompressed layout), rows stored in any order;
     ordered nr S      := rows are stored in increasing address order without overlap, inside the
                          arrays (gaps allowed) - the precondition of the in-place compression;
     inc es            := the columns of es are strictly increasing;
     wf_lower n S      := row i = distinct columns < i (any order) followed by the diagonal entry;
     Full S i j        := the symmetric matrix denoted by a lower-triangular CSR matrix;
     bsum n f          := f 0 + ... + f (n-1);   low L, LLt n L: the lower-triangular matrix stored
                          in L (strict upper triangle ignored) and its product with its transpose;
     dget M i j        := entry (i, j) of a dense matrix given as the list of its rows. *)
From Coq Require Import ZArith List Bool Arith Lia PrimFloat Reals Sorted.
From MJV Require Import Lib.Num Lib.NumR Model.Sparse Model.SparseSuper Model.SparseExtra Model.Chol Proof.SparseSuperProof
  Proof.SparseExtraProof
  Proof.LinAlgBase Proof.SparseProof Proof.SparseMergeProof Proof.SparseSymProof
  Proof.SparseCompressProof Proof.BandProof Proof.CholProof Proof.CholFactorProof.
Import ListNotations.
Open Scope R_scope.

(* ---------------- dense -> sparse -> dense is the identity, for every matrix (any shape, zero
   rows, empty matrix); the sparse result is well formed and compressed and stores no zero *)
Theorem C23_sparse_roundtrip :
  forall (nc : nat) (M : list (list R)),
    Forall (fun rw : list R => length rw = nc) M ->
    sparse2dense (length M) nc (dense2sparse M) = M /\ wf_pattern (length M) nc (dense2sparse M).
Proof. exact sparse_roundtrip. Qed.
Print Assumptions C23_sparse_roundtrip.

Theorem C23_dense2sparse_layout :
  forall M : list (list R),
    c_adr (dense2sparse M) = psums 0 (c_nnz (dense2sparse M)) /\
    length (c_ent (dense2sparse M)) = sumn (c_nnz (dense2sparse M)) /\
    Forall (fun e : ent R => snd e <> 0) (c_ent (dense2sparse M)).
Proof. exact dense2sparse_layout. Qed.
Print Assumptions C23_dense2sparse_layout.

(* ---------------- sparse products equal the dense products of sparse2dense, for ANY well-formed
   pattern and ANY layout; the 4-lane accumulation of mju_dotSparse (scalar and AVX order) is
   part of the model *)
Theorem C23_mulMatVecSparse :
  forall (nr nc : nat) (S : csr R) (v : list R),
    wf_pattern nr nc S -> length v = nc ->
    mulMatVecSparse nr S v = dmulMatVec (sparse2dense nr nc S) v.
Proof. exact mulMatVecSparse_dense. Qed.
Print Assumptions C23_mulMatVecSparse.

Theorem C23_mulMatTVecSparse :
  forall (nr nc : nat) (S : csr R) (v : list R),
    wf_pattern nr nc S -> length v = nr ->
    mulMatTVecSparse nr nc S v = dmulMatTVec nr nc (sparse2dense nr nc S) v.
Proof. exact mulMatTVecSparse_dense. Qed.
Print Assumptions C23_mulMatTVecSparse.

(* the lane-wise dot products are plain sums of products *)
Theorem C23_dot_lanes :
  forall a b : list R, dot a b = bsum (length b) (fun j => nth j a 0 * nth j b 0).
Proof. exact dot_spec. Qed.
Print Assumptions C23_dot_lanes.

Theorem C23_dotSparse_lanes :
  forall (es : list (ent R)) (v : list R), dotSparse es v = sdot es v.
Proof. exact dotSparse_spec. Qed.
Print Assumptions C23_dotSparse_lanes.

(* ---------------- transpose: dense(transposeSparse S) = dense(S)', the result is well formed,
   has sorted rows and the compressed layout *)
Theorem C23_transposeSparse :
  forall (nr nc : nat) (S : csr R),
    wf_pattern nr nc S ->
    sparse2dense nc nr (transposeSparse nr nc S) = dtranspose nr nc (sparse2dense nr nc S) /\
    wf_pattern nc nr (transposeSparse nr nc S) /\
    (forall c : nat, (c < nc)%nat -> StronglySorted lt (cols (row (transposeSparse nr nc S) c))) /\
    c_adr (transposeSparse nr nc S) = psums 0 (c_nnz (transposeSparse nr nc S)).
Proof. exact transposeSparse_dense. Qed.
Print Assumptions C23_transposeSparse.

(* ---------------- addition: mju_combineSparse (backward in-place merge) of two sorted sparse
   vectors is a*dst + b*src on the sorted union pattern *)
Theorem C23_combineSparse :
  forall (a b : R) (dst src : list (ent R)), inc dst -> inc src ->
    inc (combineSparse a b dst src) /\
    (forall c : nat, lk c (combineSparse a b dst src) = a * lk c dst + b * lk c src) /\
    (forall c : nat, In c (cols (combineSparse a b dst src)) <-> In c (cols dst) \/ In c (cols src)).
Proof. exact combineSparse_spec. Qed.
Print Assumptions C23_combineSparse.

Theorem C23_combineSparse_dense :
  forall (nc : nat) (a b : R) (dst src : list (ent R)),
    inc dst -> inc src ->
    Forall (fun c : nat => (c < nc)%nat) (cols dst) -> Forall (fun c : nat => (c < nc)%nat) (cols src) ->
    s2d_row nc (combineSparse a b dst src) = vadd (vscl a (s2d_row nc dst)) (vscl b (s2d_row nc src)) /\
    wf_row nc (combineSparse a b dst src).
Proof. exact combineSparse_dense. Qed.
Print Assumptions C23_combineSparse_dense.

(* ---------------- compression IN PLACE: for every layout whose rows are in address order
   (gaps allowed) no entry is overwritten before it is read: every row of the result is the
   filtered input row, the layout is compressed, the return value is the total count;
   densely: entries with |x| <= minval (when minval >= 0) become zero and nothing else changes *)
Theorem C23_compressSparse :
  forall (minval : R) (nr : nat) (S : csr R), ordered nr S ->
    let rm := nleb nzero minval in
    let S' := compressSparse nr S minval in
    (forall r : nat, (r < nr)%nat -> row S' r = filter (keepb rm minval) (row S r)) /\
    c_nnz S' = map (fun r : nat => length (filter (keepb rm minval) (row S r))) (seq 0 nr) /\
    c_adr S' = psums 0 (c_nnz S') /\
    length (c_ent S') = length (c_ent S) /\
    ((1 <= nr)%nat -> compressSparse_ret nr S minval = sumn (c_nnz S')).
Proof. exact compressSparse_spec. Qed.
Print Assumptions C23_compressSparse.

Theorem C23_compressSparse_dense :
  forall (minval : R) (nr nc : nat) (S : csr R),
    ordered nr S -> wf_pattern nr nc S ->
    let rm := nleb nzero minval in
    sparse2dense nr nc (compressSparse nr S minval) = map (map (thresh rm minval)) (sparse2dense nr nc S) /\
    wf_pattern nr nc (compressSparse nr S minval) /\
    (minval < 0 -> sparse2dense nr nc (compressSparse nr S minval) = sparse2dense nr nc S).
Proof. exact compressSparse_dense. Qed.
Print Assumptions C23_compressSparse_dense.

(* ---------------- gather / scatter are mutually inverse on distinct in-range indices *)
Theorem C23_gather_scatter :
  forall (ind : list nat) (vec res : list R),
    NoDup ind -> Forall (fun i : nat => (i < length res)%nat) ind -> length vec = length ind ->
    gather (scatter res vec ind) ind = vec /\
    (forall j : nat, ~ In j ind -> nth j (scatter res vec ind) 0 = nth j res 0) /\
    length (scatter res vec ind) = length res.
Proof. exact gather_scatter. Qed.
Print Assumptions C23_gather_scatter.

Theorem C23_scatter_gather :
  forall (ind : list nat) (vec : list R),
    Forall (fun i : nat => (i < length vec)%nat) ind -> scatter vec (gather vec ind) ind = vec.
Proof. exact scatter_gather. Qed.
Print Assumptions C23_scatter_gather.

(* ---------------- band-dense format: dense -> band -> dense keeps exactly the stored part
   (band of the banded rows, lower triangle of the dense rows) and band -> dense -> band
   reproduces the storage, unused slots included *)
Theorem C23_band_roundtrip :
  forall (ntotal nband nsparse ndense : nat) (M B0 D0 : list (list R)),
    (nsparse + ndense)%nat = ntotal -> (1 <= nband)%nat ->
    length B0 = nsparse -> length D0 = ndense ->
    (forall i : nat, (i < nsparse)%nat -> length (nth i B0 []) = nband) ->
    (forall i : nat, (i < ntotal)%nat -> length (nth i M []) = ntotal) ->
    forall i j : nat, (i < ntotal)%nat -> (j < ntotal)%nat ->
      dget (band2Dense ntotal nband (fst (dense2Band ntotal nband M B0 D0))
                       (snd (dense2Band ntotal nband M B0 D0)) false) i j =
      (if inband nsparse nband i j then dget M i j else 0).
Proof. exact band2Dense_dense2Band. Qed.
Print Assumptions C23_band_roundtrip.

Theorem C23_band_storage_roundtrip :
  forall (ntotal nband : nat) (B D : list (list R)),
    (length B + length D = ntotal)%nat -> (1 <= nband)%nat ->
    (forall i : nat, (i < length B)%nat -> length (nth i B []) = nband) ->
    (forall i : nat, (i < length D)%nat -> length (nth i D []) = ntotal) ->
    dense2Band ntotal nband (band2Dense ntotal nband B D false) B D = (B, D).
Proof. exact dense2Band_band2Dense. Qed.
Print Assumptions C23_band_storage_roundtrip.

Theorem C23_band_symmetrize :
  forall (n : nat) (L : list (list R)) (i j : nat), (i < n)%nat -> (j < n)%nat ->
    dget (symmetrize_upper n L) i j = if Nat.ltb i j then dget L j i else dget L i j.
Proof. exact symmetrize_upper_get. Qed.
Print Assumptions C23_band_symmetrize.

(* ---------------- symmetric lower-triangular CSR (mj_fullM / mj_mulM): mju_sym2dense is the
   full symmetric matrix and mju_mulSymVecSparse multiplies by it *)
Theorem C23_mulSymVec_sym2dense :
  forall (n : nat) (S : csr R) (v : list R),
    wf_lower n S -> length v = n ->
    mulSymVecSparse n S v = dmulMatVec (sym2dense n S) v /\
    (forall i j : nat, (i < n)%nat -> (j < n)%nat -> dget (sym2dense n S) i j = Full S i j) /\
    (forall i j : nat, dget (sym2dense n S) i j = dget (sym2dense n S) j i).
Proof. exact mulSymVec_sym2dense. Qed.
Print Assumptions C23_mulSymVec_sym2dense.

(* ---------------- mju_cholSolve: for every n, every storage L with non-zero diagonal (the strict
   upper triangle is ignored) and every b, the result x satisfies (low L)(low L)' x = b *)
Theorem C23_chol_solve :
  forall (n : nat) (L : list (list R)) (b : list R),
    (forall i : nat, (i < n)%nat -> dget L i i <> 0) ->
    length (cholSolve n L b) = n /\
    forall i : nat, (i < n)%nat ->
      bsum n (fun j => LLt n L i j * nth j (cholSolve n L b) 0) = nth i b 0.
Proof. exact cholSolve_spec. Qed.
Print Assumptions C23_chol_solve.

(* ---------------- mju_cholFactor (in place, column by column): when no column is rank-deficient
   (returned rank = n) and mindiag > 0, the lower triangle of the result is L with positive
   diagonal and L L' = A on the lower triangle; the strict upper triangle is untouched.
   (mat_dims n A: A has n rows of length n.  The rank-deficient branch is modelled and tied but
   nothing is proved about it.) *)
Theorem C23_chol_factor :
  forall (n : nat) (mindiag : R) (A : list (list R)), mat_dims n A -> 0 < mindiag ->
    snd (cholFactor n mindiag A) = Z.of_nat n ->
    let L := fst (cholFactor n mindiag A) in
    mat_dims n L /\
    (forall i j : nat, (j <= i)%nat -> (i < n)%nat -> LLt n L i j = dget A i j) /\
    (forall i : nat, (i < n)%nat -> 0 < dget L i i) /\
    (forall i j : nat, (i < j)%nat -> (j < n)%nat -> dget L i j = dget A i j).
Proof. exact cholFactor_spec. Qed.
Print Assumptions C23_chol_factor.

(* factor, then solve: the symmetric matrix denoted by the lower triangle of A times x is b *)
Theorem C23_chol_factor_solve :
  forall (n : nat) (mindiag : R) (A : list (list R)) (b : list R),
    mat_dims n A -> 0 < mindiag -> snd (cholFactor n mindiag A) = Z.of_nat n ->
    let x := cholSolve n (fst (cholFactor n mindiag A)) b in
    length x = n /\
    forall i : nat, (i < n)%nat ->
      bsum n (fun j => (if Nat.leb j i then dget A i j else dget A j i) * nth j x 0) = nth i b 0.
Proof. exact chol_factor_solve. Qed.
Print Assumptions C23_chol_factor_solve.

(* ---------------- row supernodes (mju_superSparse, res_rowsuper of mju_transposeSparse): entry r of
   the model's vector counts exactly the maximal run of rows following r with the same column list:
   rows r .. r+k have the column list of row r, and row r+k+1 (if any) does not *)
Theorem C23_supernodes :
  forall (rs : list (list nat)) (r : nat), (r < length rs)%nat ->
    let k := nth r (super_rows rs) 0%nat in
    (r + k < length rs)%nat /\
    (forall t : nat, (t <= k)%nat -> nth (r + t) rs [] = nth r rs []) /\
    ((r + k + 1 < length rs)%nat -> nth (r + k + 1) rs [] <> nth r rs []).
Proof. exact super_rows_spec. Qed.
Print Assumptions C23_supernodes.

(* ---------------- mju_addToSparseMat (dst: nrow packed rows sharing one sorted index vector):
   every packed row of the result is dst_row + scl * src_row on the sorted union pattern, and the
   pattern is the same for every row (it does not depend on the values) *)
Theorem C23_addToSparseMat_row :
  forall (scl : R) (dind sind : list nat) (drow srow : list R),
    StronglySorted lt dind -> StronglySorted lt sind -> length drow = length dind -> length srow = length sind ->
    let m := combineSparse 1 scl (combine dind drow) (combine sind srow) in
    inc m /\
    (forall c : nat, lk c m = lk c (combine dind drow) + scl * lk c (combine sind srow)) /\
    (forall c : nat, In c (cols m) <-> In c dind \/ In c sind) /\
    cols m = cols (combineSparse 1 scl (combine dind (repeat 0 (length dind))) (combine sind (repeat 0 (length sind)))).
Proof. exact addToSparseMat_row. Qed.
Print Assumptions C23_addToSparseMat_row.

(* ---------------- non-vacuity: concrete well-formed inputs with gaps, an empty row, unsorted
   columns; the models compute what the statements say *)
Example C23_example_pattern :
  let S := mkcsr [2; 0; 1]%nat [3; 0; 0]%nat [(0%nat, 7); (9%nat, 9); (9%nat, 9); (2%nat, 5); (0%nat, 4)] in
  wf_pattern 3 3 S /\
  sparse2dense 3 3 S = [[4; 0; 5]; [0; 0; 0]; [7; 0; 0]] /\
  mulMatVecSparse 3 S [1; 1; 1] = [(0 + 0 + (0 + 0)) + 5 * 1 + 4 * 1; 0 + 0 + (0 + 0); (0 + 0 + (0 + 0)) + 7 * 1].
Proof.
  split; [|split]; [|reflexivity|reflexivity].
  intros r Hr. destruct r as [|[|[|r]]]; try lia;
    (split; [cbn; repeat constructor; simpl; intuition congruence | cbn; repeat constructor]).
Qed.
