(* C39 — Virtual file system operations have set semantics (src/user/user_vfs.cc, user_resource.cc).
   Only statements, each closed by a lemma of Proof/VFSProof.v, followed by Print Assumptions.

   Vocabulary (Model/VFS.v, Proof/VFSProof.v):
     file_path name        = FilePath(name).Str()       (PathReduce: the key of a buffer)
     file_path2 dir name   = FilePath(dir, name).Str()  (the path mju_openResource looks for)
     file_key dir name     = stripped, lower-cased file name (the key mj_addFileVFS mounts)
     del_key2 name         = the second key mj_deleteFileVFS tries (stripped, lower-cased)
     run disk h v          = replay of the calls h from mounts v; events disk h v = per call, what it
                             did to the mounts: EAdd key bytes | EDel key | EClear | ENone
     last_ev k evs None    = contents of key k according to the last event on k (None = absent)
     open_read             = possible outcomes of mju_openResource + mju_readResource
                             (None = NULL); several only for an ambiguous legacy match *)
From Coq Require Import List ZArith Bool String.
From MJV Require Import Model.VFS Proof.VFSProof.
Import ListNotations.
Open Scope Z_scope. Open Scope string_scope.

(* present <=> added and not deleted since; contents = bytes of that add.  For every call
   sequence and every key. *)
Theorem C39_present_iff :
  forall disk h k, lookup k (fst (run disk h [])) = last_ev k (events disk h []) None.
Proof. exact present_iff. Qed.
Print Assumptions C39_present_iff.

(* the events are exactly what the return codes report: an add event iff the add returned 0 (key =
   normalised name), repeated-name code 2 iff the key was present, and then nothing changes; a delete
   event iff delete returned 0 (on the normalised name, else on its stripped-lowered form), -1 iff
   neither key is mounted, and then nothing changes; queries never change the mounts. *)
Theorem C39_event_codes :
  forall disk o v,
  match o with
  | OAddBuffer name b =>
      (event_of disk o v = EAdd (file_path name) b /\ snd (step disk o v) = RCode 0) \/
      (event_of disk o v = ENone /\ snd (step disk o v) = RCode 2 /\ fst (step disk o v) = v /\
       mem (file_path name) v = true)
  | OAddFile dir name =>
      (event_of disk o v = EAdd (file_key dir name) (file_contents disk dir name) /\ snd (step disk o v) = RCode 0) \/
      (event_of disk o v = ENone /\ snd (step disk o v) = RCode 2 /\ fst (step disk o v) = v /\
       mem (file_key dir name) v = true)
  | ODelete name =>
      ((event_of disk o v = EDel (file_path name) \/ event_of disk o v = EDel (del_key2 name)) /\
       snd (step disk o v) = RCode 0) \/
      (event_of disk o v = ENone /\ snd (step disk o v) = RCode (-1) /\ fst (step disk o v) = v /\
       mem (file_path name) v = false /\ mem (del_key2 name) v = false)
  | OReinit => event_of disk o v = EClear
  | _ => event_of disk o v = ENone /\ fst (step disk o v) = v
  end.
Proof. exact event_codes. Qed.
Print Assumptions C39_event_codes.

(* the mounts of every reachable state form a map: keys are unique *)
Theorem C39_keys_unique :
  forall disk v, reachable disk v -> NoDup (map fst v).
Proof. exact reachable_NoDup. Qed.
Print Assumptions C39_keys_unique.

(* adding an existing name: repeated-name code, state (hence contents) unchanged *)
Theorem C39_repeated_add :
  forall name b v, mem (file_path name) v = true -> add_buffer name b v = (v, 2).
Proof. exact repeated_add. Qed.
Print Assumptions C39_repeated_add.

Theorem C39_repeated_add_file :
  forall disk dir name v, mem (file_key dir name) v = true -> add_file disk dir name v = (v, 2).
Proof. exact repeated_add_file. Qed.
Print Assumptions C39_repeated_add_file.

(* a successful add makes the name present for mj_containsBufferVFS under that name and under
   every name with the same normalisation (case-preserving; separator and ./.. variants), stores
   exactly the bytes and touches no other key *)
Theorem C39_contains_after_add :
  forall name name' b v v',
    add_buffer name b v = (v', 0) -> file_path name' = file_path name ->
    contains_buffer name' v' = true /\ lookup (file_path name) v' = Some b /\
    (forall k, k <> file_path name -> lookup k v' = lookup k v).
Proof. exact add_then_contains. Qed.
Print Assumptions C39_contains_after_add.

(* history form: mj_containsBufferVFS(name) is true exactly when the last event on the normalised
   name is an add *)
Theorem C39_contains_iff :
  forall disk h name,
    contains_buffer name (fst (run disk h [])) = true <->
    exists b, last_ev (file_path name) (events disk h []) None = Some b.
Proof. exact contains_iff. Qed.
Print Assumptions C39_contains_iff.

(* reading a present file returns exactly the added bytes: if the last event on the normalised
   path is an add of b, open+read yields b and nothing else (the exact match wins over any legacy
   candidate) *)
Theorem C39_read_present :
  forall disk h dir name b,
    file_path2 dir name <> [] ->
    last_ev (file_path2 dir name) (events disk h []) None = Some b ->
    open_read disk dir name (fst (run disk h [])) = [Some b].
Proof. exact read_last_add. Qed.
Print Assumptions C39_read_present.

(* deleting an absent file reports failure and changes nothing; deleting a present one removes
   exactly that key *)
Theorem C39_delete_absent :
  forall name v,
    mem (file_path name) v = false -> mem (del_key2 name) v = false -> delete_file name v = (v, -1).
Proof. exact delete_absent. Qed.
Print Assumptions C39_delete_absent.

Theorem C39_delete_present :
  forall name v, mem (file_path name) v = true ->
    exists v', delete_file name v = (v', 0) /\ lookup (file_path name) v' = None /\
               (forall k, k <> file_path name -> lookup k v' = lookup k v).
Proof. exact delete_present. Qed.
Print Assumptions C39_delete_present.

(* FindMount terminates (the fuel of the model is never exhausted) *)
Theorem C39_find_mount_total :
  forall v full, find_mount v full <> FFuel.
Proof. exact find_mount_total. Qed.
Print Assumptions C39_find_mount_total.

(* Legacy case-insensitive file-name lookup: the C++ code returns the first match in
   unordered_map iteration order.  It is deterministic ONLY under the hypothesis that the
   stripped-lowered names of the mounts are pairwise distinct (DESIGN section 7 item 6; without it
   the result depends on hash order, which the implementation exhibits). *)
Theorem C39_open_deterministic_if_unique :
  forall disk dir name v,
    NoDup (map fst v) ->
    (forall k1 k2, In k1 (map fst v) -> In k2 (map fst v) -> strip_lower k1 = strip_lower k2 -> k1 = k2) ->
    List.length (open_read disk dir name v) = 1%nat.
Proof. exact open_deterministic. Qed.
Print Assumptions C39_open_deterministic_if_unique.

(* non-vacuity: separator/case variants, repeated add, legacy match, delete through the second key;
   and the ambiguity the hypothesis above excludes *)
Example C39_example :
  let h := [OAddBuffer (p "a\b.txt") [104; 105]; OContainsBuffer (p "a\b.txt"); OAddBuffer (p "a/./b.txt") [1];
            OOpen (p "zz") (p "B.TXT"); ODelete (p "x/B.TXT"); OAddBuffer (p "b.txt") [2]; ODelete (p "x/B.TXT");
            OContainsBuffer (p "b.txt")] in
  snd (run (fun _ => None) h []) =
  [RCode 0; RCode 1; RCode 2; ROpen [Some [104; 105]]; RCode (-1); RCode 0; RCode 0; RCode 0].
Proof. vm_compute. reflexivity. Qed.

Example C39_legacy_ambiguous :
  open_read (fun _ => None) (p "zz") (p "a") [(p "y/a", [2]); (p "x/A", [1])] = [Some [2]; Some [1]].
Proof. vm_compute. reflexivity. Qed.
