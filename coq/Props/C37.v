(* C37 — Model loading never crashes and enforces the schema (schema half; the crash half is
   observation only and has no theorem).
   Only statements, each closed by a lemma of Proof/SchemaProof.v / Proof/LexProof.v. *)
From Coq Require Import String List Bool ZArith Arith.
From MJV Require Import Model.Schema Model.SchemaSpec Gen.Schema Proof.SchemaProof Model.Lex Proof.LexProof.
Import ListNotations.
Open Scope string_scope.

(* ConformsFull / ConformsOutsideAliases: Model/SchemaSpec.v *)

(* For EVERY table and EVERY document: the matcher in which the recursion loop follows NameMatch
   accepts exactly the documents that conform. *)
Theorem C37_check_iff_conforms :
  forall (tbl : schema) (doc : dom), check_doc true tbl doc = None <-> ConformsFull tbl doc.
Proof. exact (check_doc_iff true). Qed.
Print Assumptions C37_check_iff_conforms.

(* For EVERY table and EVERY document: the matcher as it is in the tree when Gen.Schema says
   rec_by_namematch = false (recursion loop descends only into children literally named like the
   row) accepts exactly the documents that conform outside alias subtrees. *)
Theorem C37_check_iff_conforms_outside_aliases :
  forall (tbl : schema) (doc : dom), check_doc false tbl doc = None <-> ConformsOutsideAliases tbl doc.
Proof. exact (check_doc_iff false). Qed.
Print Assumptions C37_check_iff_conforms_outside_aliases.

(* Both variants: a document that conforms (full meaning) is never rejected
   ("documents that conform are not rejected for schema reasons"). *)
Theorem C37_conforming_not_rejected :
  forall (bnm : bool) (tbl : schema) (doc : dom), ConformsFull tbl doc -> check_doc bnm tbl doc = None.
Proof. exact conforming_not_rejected. Qed.
Print Assumptions C37_conforming_not_rejected.

(* The exact-name variant does NOT reject every violator: the full iff fails for it, witnessed by two
   unique <inertial> children below a <frame> (replayed on the implementation by c37.py). *)
Theorem C37_exact_name_full_iff_refuted :
  exists (tbl : schema) (doc : dom), check_doc false tbl doc = None /\ ~ ConformsFull tbl doc.
Proof. exact exact_name_accepts_nonconforming. Qed.
Print Assumptions C37_exact_name_full_iff_refuted.

(* The regenerated table is well formed: no two sibling rows with the same name, no sibling row named
   like its parent, known cardinalities and constraint kinds, constraints over declared attributes
   with non-empty bundles, and along every path of rows the names are pairwise distinct (a row
   re-occurs below itself only through its own 'R' recursion). *)
Theorem C37_table_wellformed : wf_schema mjcf_schema = true /\ path_distinct [] mjcf_schema = true.
Proof. vm_compute. split; reflexivity. Qed.
Print Assumptions C37_table_wellformed.

(* non-vacuity: a conforming and a non-conforming document for the regenerated table *)
Example C37_ex_conforming :
  ConformsFull mjcf_schema
    (Elem "mujoco" ["model"] 1 [Elem "option" ["timestep"] 2 [Elem "flag" ["contact"] 3 []];
                                Elem "worldbody" [] 4 [Elem "body" ["name"] 5 [Elem "inertial" ["mass"; "pos"] 6 []; Elem "geom" ["size"] 7 []]]]).
Proof. apply C37_check_iff_conforms. vm_compute. reflexivity. Qed.
Example C37_ex_violating :
  ~ ConformsFull mjcf_schema
    (Elem "mujoco" [] 1 [Elem "option" [] 2 [Elem "flag" [] 3 []; Elem "flag" [] 4 []]]).
Proof. intros H. apply C37_check_iff_conforms in H. vm_compute in H. discriminate. Qed.

(* ---- attribute-value lexers (enforced by the reader, not by mjXSchema) *)

(* ReadAttr (numeric lists), for every numeral recogniser wf, every len, exact flag and text: n >= 1
   values are accepted iff the text splits into n whitespace-separated tokens that are all
   well-formed numerals, with 1 <= n <= len and n = len when exact. *)
Theorem C37_numlist_accepts_iff :
  forall (wf : string -> bool) (len : nat) (exact : bool) (text : string) (n : nat),
    (read_num wf len exact text = NumOk n /\ (0 < n)%nat) <->
    (Forall (fun t => wf t = true) (split_ws text) /\ n = length (split_ws text) /\ (1 <= n <= len)%nat /\ (exact = true -> n = len)).
Proof. exact numlist_accepts_iff. Qed.
Print Assumptions C37_numlist_accepts_iff.

(* the three rejections: an ill-formed token ("bad format"); more than len tokens ("too much data");
   fewer than len tokens when exact ("does not have enough data") *)
Theorem C37_numlist_rejections :
  forall (wf : string -> bool) (len : nat) (exact : bool) (text : string),
    (read_num wf len exact text = NumFormat <-> forallb wf (split_ws text) = false) /\
    (read_num wf len exact text = NumMany <-> forallb wf (split_ws text) = true /\ (len < length (split_ws text))%nat /\
                                              (exact = true -> (len <= length (split_ws text))%nat)) /\
    (read_num wf len exact text = NumFew <-> forallb wf (split_ws text) = true /\ exact = true /\ (0 < length (split_ws text) < len)%nat).
Proof. exact numlist_rejections. Qed.
Print Assumptions C37_numlist_rejections.

(* the tokenizer: tokens are non-empty and space-free, and any list of such tokens joined by single
   spaces is split back into exactly these tokens *)
Theorem C37_tokenizer :
  (forall s : string, Forall (fun t => is_empty t = false /\ no_space t = true) (split_ws s)) /\
  (forall ts : list string, Forall (fun t => is_empty t = false /\ no_space t = true) ts -> split_ws (join_sp ts) = ts).
Proof. split; [exact split_ws_tokens | exact split_join]. Qed.
Print Assumptions C37_tokenizer.

(* MapValue: accepted iff the whole text is one of the keys; MapValues: accepted iff every token is a
   key and no token is repeated *)
Theorem C37_keyword_accepts_iff :
  forall (keys : list string) (text : string), (exists v, map_value keys text = KeyOk v) <-> In text keys.
Proof. exact keyword_accepts_iff. Qed.
Print Assumptions C37_keyword_accepts_iff.
Theorem C37_keywords_accept_iff :
  forall (keys : list string) (text : string),
    (exists v, map_values keys text = KeyOk v) <-> (Forall (fun t => In t keys) (split_ws text) /\ NoDup (split_ws text)).
Proof. exact keywords_accept_iff. Qed.
Print Assumptions C37_keywords_accept_iff.

Example C37_ex_lex :
  read_num is_decimal 3 true " 1 -2.5e3	.5 " = NumOk 3 /\ read_num is_decimal 3 true "1 2" = NumFew /\
  read_num is_decimal 3 false "1 2 3 4" = NumMany /\ read_num is_decimal 3 false "1 x" = NumFormat /\
  map_value ["false"; "true"] "true" = KeyOk [1%nat] /\ map_value ["false"; "true"] " true" = KeyInvalid /\
  map_values ["a"; "b"; "c"] "c a" = KeyOk [2%nat; 0%nat] /\ map_values ["a"; "b"; "c"] "c c" = KeyDup.
Proof. vm_compute. repeat split; reflexivity. Qed.

(* the refutation on the regenerated table itself: the two-inertial document of finding C37-F1 *)
Example C37_ex_alias_subtree_on_real_table :
  let doc := Elem "mujoco" [] 1 [Elem "worldbody" [] 2 [Elem "body" [] 3 [Elem "frame" [] 4
               [Elem "inertial" ["mass"; "pos"; "diaginertia"] 5 []; Elem "inertial" ["mass"; "pos"; "diaginertia"] 6 []; Elem "geom" ["size"] 7 []]]]] in
  check_doc false mjcf_schema doc = None /\ ~ ConformsFull mjcf_schema doc.
Proof.
  split; [vm_compute; reflexivity |].
  intros H. apply C37_check_iff_conforms in H. vm_compute in H. discriminate.
Qed.

(* ---- integer attribute types (StrToNum<int>, StrToNum<unsigned char> behind ReadAttr) *)

(* for every range [lo, hi], len, exact flag and text: a non-empty value list is accepted iff every
   token is an integer literal ([+-]? digit+) whose VALUE lies in [lo, hi] - and exactly these values
   are returned, nothing wraps - with the number of tokens within the arity bounds *)
Theorem C37_intlist_accepts_iff :
  forall (lo hi : Z) (len : nat) (exact : bool) (text : string) (vals : list Z),
    (read_ints lo hi len exact text = IntOk vals /\ vals <> []) <->
    (Forall2 (fun (t : string) (z : Z) => int_value t = Some z /\ (lo <= z <= hi)%Z) (split_ws text) vals /\
     (1 <= length vals <= len)%nat /\ (exact = true -> length vals = len)).
Proof. exact intlist_accepts_iff. Qed.
Print Assumptions C37_intlist_accepts_iff.

(* "number is too large": the first offending token is an integer literal outside [lo, hi] *)
Theorem C37_intlist_range_rejected :
  forall (lo hi : Z) (len : nat) (exact : bool) (text : string),
    read_ints lo hi len exact text = IntRange <->
    exists (pre : list string) (t : string) (post : list string) (z : Z),
      split_ws text = (pre ++ t :: post)%list /\
      (exists vs : list Z, Forall2 (fun (t0 : string) (z0 : Z) => int_value t0 = Some z0 /\ (lo <= z0 <= hi)%Z) pre vs) /\
      int_value t = Some z /\ ~ (lo <= z <= hi)%Z.
Proof. exact intlist_range_rejected. Qed.
Print Assumptions C37_intlist_range_rejected.

Example C37_ex_int_range :
  read_ints int32_lo int32_hi 1 true "2147483647" = IntOk [2147483647%Z] /\
  read_ints int32_lo int32_hi 1 true "4294967297" = IntRange /\
  read_ints int32_lo int32_hi 1 true "-2147483649" = IntRange /\
  read_ints int32_lo int32_hi 2 false "7 99999999999999999999999" = IntRange /\
  read_ints int32_lo int32_hi 1 true "12x" = IntFormat /\
  read_ints 0 255 4 true "0 255 1 +3" = IntOk [0; 255; 1; 3]%Z /\ read_ints 0 255 1 true "256" = IntRange /\ read_ints 0 255 1 true "-1" = IntRange.
Proof. vm_compute. repeat split; reflexivity. Qed.
