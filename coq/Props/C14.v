(* C14 — Collision pair selection is complete and respects the filters.
   Only statements, each closed by a lemma of Proof/BroadphaseProof.v, followed by Print Assumptions.
   Model: Model/Broadphase.v (filterBitmask, filterBodyPair, canCollide(2), add_pair, mj_SAP with the
   (float) cast as an abstract monotone map rnd, the body-pair part of mj_broadphase). *)
From Coq Require Import List ZArith Bool Sorted.
From MJV Require Import Model.Sort Model.Broadphase Proof.BroadphaseProof.
Import ListNotations.
Open Scope Z_scope.

(* The filters equal the documented rule table, for all C ints (as Z, two's complement bits):
   - bitmask: a pair is discarded iff NO bit k is set both in the contype of one geom and in the
     conaffinity of the other; symmetric in the two geoms; canCollide2 is its negation; a body can
     collide iff one of its masks is non-zero;
   - body pair: discarded iff same weld body, or both without dofs, or both asleep, or asleep against
     world-static, or (parent filter not disabled, both not welded to the world, one weld body is the
     other's weld parent); symmetric. *)
Theorem C14_filters :
  (forall c1 a1 c2 a2,
     filterBitmask c1 a1 c2 a2 = true <->
     ~ exists k, 0 <= k /\ ((Z.testbit c1 k = true /\ Z.testbit a2 k = true) \/
                            (Z.testbit c2 k = true /\ Z.testbit a1 k = true))) /\
  (forall c1 a1 c2 a2, filterBitmask c1 a1 c2 a2 = filterBitmask c2 a2 c1 a1) /\
  (forall c1 a1 c2 a2, canCollide2 c1 a1 c2 a2 = negb (filterBitmask c1 a1 c2 a2)) /\
  (forall ct ca, canCollide ct ca = true <-> (ct <> 0 \/ ca <> 0)) /\
  (forall w1 p1 s1 d1 w2 p2 s2 d2 dsbl,
     filterBodyPair w1 p1 s1 d1 w2 p2 s2 d2 dsbl = true <->
     (w1 = w2 \/ (d1 = 0 /\ d2 = 0) \/ (s1 <> 0 /\ s2 <> 0) \/ (s1 <> 0 /\ w2 = 0) \/ (s2 <> 0 /\ w1 = 0) \/
      (dsbl = 0 /\ w1 <> 0 /\ w2 <> 0 /\ (w1 = p2 \/ w2 = p1)))) /\
  (forall w1 p1 s1 d1 w2 p2 s2 d2 dsbl,
     filterBodyPair w1 p1 s1 d1 w2 p2 s2 d2 dsbl = filterBodyPair w2 p2 s2 d2 w1 p1 s1 d1 dsbl).
Proof. exact filters_spec. Qed.
Print Assumptions C14_filters.

(* The body-level pruning of add_pair (OR of the geom masks of each body) never drops a body pair
   that contains a compatible geom pair, and only passes when some geom pair has a common bit. *)
Theorem C14_bodymask_complete :
  (forall gs1 gs2 g1 g2, In g1 gs1 -> In g2 gs2 ->
     filterBitmask (fst g1) (snd g1) (fst g2) (snd g2) = false ->
     filterBitmask (or_types gs1) (or_affs gs1) (or_types gs2) (or_affs gs2) = false) /\
  (forall gs1 gs2,
     filterBitmask (or_types gs1) (or_affs gs1) (or_types gs2) (or_affs gs2) = false ->
     exists g1 g2, In g1 gs1 /\ In g2 gs2 /\
       (Z.land (fst g1) (snd g2) <> 0 \/ Z.land (fst g2) (snd g1) <> 0)).
Proof. split; [exact bodymask_complete | exact bodymask_sound]. Qed.
Print Assumptions C14_bodymask_complete.

(* mj_SAP, any coordinate type K with a three-way comparison that is a total preorder, any monotone
   rounding map rnd (the float cast), any number of boxes whose sweep-axis intervals are well formed:
   every emitted pair consists of two distinct valid ids whose boxes overlap on the sweep axis (in the
   rounded images) and on the two other axes. *)
Theorem C14_sap_sound :
  forall (K : Type) (kcmp : K -> K -> Z) (rnd : K -> K),
    (forall a b, kcmp a b < 0 <-> 0 < kcmp b a) ->
    (forall a b c, kcmp a b <= 0 -> kcmp b c <= 0 -> kcmp a c <= 0) ->
    forall (axis : Z) (bs : list (box K)),
    (forall a b, kcmp a b <= 0 -> kcmp (rnd a) (rnd b) <= 0) ->
    (forall b, In b bs -> kcmp (bmin K axis b) (bmax K axis b) <= 0) ->
    forall (d : box K) (i j : nat),
    In (i, j) (sap K kcmp rnd axis bs d) ->
    exists bi bj, nth_error bs i = Some bi /\ nth_error bs j = Some bj /\ i <> j /\
      kcmp (rnd (bmin K axis bi)) (rnd (bmax K axis bj)) <= 0 /\
      kcmp (rnd (bmin K axis bj)) (rnd (bmax K axis bi)) <= 0 /\
      kcmp (bmin K (axis_y axis) bi) (bmax K (axis_y axis) bj) <= 0 /\
      kcmp (bmin K (axis_y axis) bj) (bmax K (axis_y axis) bi) <= 0 /\
      kcmp (bmin K (axis_z axis) bi) (bmax K (axis_z axis) bj) <= 0 /\
      kcmp (bmin K (axis_z axis) bj) (bmax K (axis_z axis) bi) <= 0.
Proof. exact sap_sound. Qed.
Print Assumptions C14_sap_sound.

(* Completeness (after the SAPcmp tie-break "starts before ends", /repo cb66bd0cb): every pair of distinct
   boxes whose rounded images overlap on the sweep axis - non-strictly, hence by monotonicity of rnd every
   pair whose un-rounded intervals overlap - and whose intervals overlap on the other two axes is
   emitted exactly once, in exactly one of the two orientations; and no pair at all is emitted twice or
   in both orientations.  Together with C14_sap_sound: the emitted set is EXACTLY the set of pairs
   overlapping (rounded on the sweep axis) on all three axes. *)
Theorem C14_sap_complete :
  forall (K : Type) (kcmp : K -> K -> Z) (rnd : K -> K),
    (forall a b, kcmp a b < 0 <-> 0 < kcmp b a) ->
    (forall a b c, kcmp a b <= 0 -> kcmp b c <= 0 -> kcmp a c <= 0) ->
    forall (axis : Z) (bs : list (box K)),
    (forall a b, kcmp a b <= 0 -> kcmp (rnd a) (rnd b) <= 0) ->
    (forall b, In b bs -> kcmp (bmin K axis b) (bmax K axis b) <= 0) ->
    forall (d : box K),
    (forall (i j : nat) (bi bj : box K),
       nth_error bs i = Some bi -> nth_error bs j = Some bj -> i <> j ->
       kcmp (rnd (bmin K axis bi)) (rnd (bmax K axis bj)) <= 0 ->
       kcmp (rnd (bmin K axis bj)) (rnd (bmax K axis bi)) <= 0 ->
       (kcmp (bmin K (axis_y axis) bi) (bmax K (axis_y axis) bj) <= 0 /\
        kcmp (bmin K (axis_y axis) bj) (bmax K (axis_y axis) bi) <= 0 /\
        kcmp (bmin K (axis_z axis) bi) (bmax K (axis_z axis) bj) <= 0 /\
        kcmp (bmin K (axis_z axis) bj) (bmax K (axis_z axis) bi) <= 0) ->
       (count_occ pair_dec (sap K kcmp rnd axis bs d) (i, j) +
        count_occ pair_dec (sap K kcmp rnd axis bs d) (j, i) = 1)%nat) /\
    NoDup (sap K kcmp rnd axis bs d) /\
    (forall i j, In (i, j) (sap K kcmp rnd axis bs d) -> ~ In (j, i) (sap K kcmp rnd axis bs d)).
Proof.
  intros K kcmp rnd Ha Ht axis bs Hm Hw d. split; [|split].
  - exact (sap_exactly_once K kcmp rnd Ha Ht axis bs Hm Hw d).
  - exact (sap_NoDup K kcmp rnd Ha Ht axis bs d).
  - exact (sap_one_orientation K kcmp rnd Ha Ht axis bs Hm Hw d).
Qed.
Print Assumptions C14_sap_complete.

(* At most n(n-1)/2 pairs are emitted, hence the buffer of mj_broadphase (maxsappair = n(n-1)/2) never
   cuts the result: mj_SAP returns exactly the emitted pairs. *)
Theorem C14_sap_count :
  forall (K : Type) (kcmp : K -> K -> Z) (rnd : K -> K),
    (forall a b, kcmp a b < 0 <-> 0 < kcmp b a) ->
    (forall a b c, kcmp a b <= 0 -> kcmp b c <= 0 -> kcmp a c <= 0) ->
    forall (axis : Z) (bs : list (box K)) (d : box K) (maxpair : Z),
    Z.of_nat (length (sap K kcmp rnd axis bs d)) <= Z.of_nat (length bs) * (Z.of_nat (length bs) - 1) / 2 /\
    (0 <= axis <= 2 -> Z.of_nat (length bs) < 65536 -> 1 <= maxpair ->
     Z.of_nat (length bs) * (Z.of_nat (length bs) - 1) / 2 <= maxpair ->
     mj_SAP K kcmp rnd axis bs d maxpair = (Z.of_nat (length (sap K kcmp rnd axis bs d)), sap K kcmp rnd axis bs d)).
Proof.
  intros K kcmp rnd Ha Ht axis bs d maxpair. split.
  - exact (sap_count K kcmp rnd Ha Ht axis bs d).
  - exact (mj_SAP_nocut K kcmp rnd Ha Ht axis bs d maxpair).
Qed.
Print Assumptions C14_sap_count.

(* Output order is determined by the sorted entry list alone: pairs come out ordered by the position
   (in the stably sorted list of rounded interval ends) of the start of their second box, and among
   pairs with the same second box by the position of the start of their first box.  [precedes l x y]:
   x occurs in l and y occurs after it. *)
Theorem C14_sap_order :
  forall (K : Type) (kcmp : K -> K -> Z) (rnd : K -> K) (axis : Z) (bs : list (box K)) (d : box K),
    StronglySorted
      (fun p q : nat * nat =>
         precedes (sorted_tags K kcmp rnd axis bs) (snd p, false) (snd q, false) \/
         (snd p = snd q /\ precedes (sorted_tags K kcmp rnd axis bs) (fst p, false) (fst q, false)))
      (sap K kcmp rnd axis bs d).
Proof. exact sap_sorted. Qed.
Print Assumptions C14_sap_order.

(* un-rounded overlap implies rounded overlap (monotone rnd), so C14_sap_complete covers every pair whose
   double intervals overlap: stated once for the record *)
Theorem C14_sap_unrounded :
  forall (K : Type) (kcmp : K -> K -> Z) (rnd : K -> K),
    (forall a b, kcmp a b <= 0 -> kcmp (rnd a) (rnd b) <= 0) ->
    forall lo1 hi1 lo2 hi2 : K,
      kcmp lo1 hi2 <= 0 -> kcmp lo2 hi1 <= 0 ->
      kcmp (rnd lo1) (rnd hi2) <= 0 /\ kcmp (rnd lo2) (rnd hi1) <= 0.
Proof. intros K kcmp rnd Hm lo1 hi1 lo2 hi2 H1 H2. split; apply Hm; assumption. Qed.
Print Assumptions C14_sap_unrounded.

(* mj_broadphase on bodies (flex not modelled): a body pair that passes filterBodyPair and the body
   masks is in the output when (1) one member is always-colliding (world body with geoms, or dof-less
   body with a plane), or (2) both are collidable non-world bodies whose AAMMs overlap on the
   sweep axis (rounded, non-strictly) and on the other two. *)
Theorem C14_broadphase_complete :
  forall (K : Type) (kcmp : K -> K -> Z) (rnd : K -> K),
    (forall a b, kcmp a b < 0 <-> 0 < kcmp b a) ->
    (forall a b c, kcmp a b <= 0 -> kcmp b c <= 0 -> kcmp a c <= 0) ->
    (forall a b, kcmp a b <= 0 -> kcmp (rnd a) (rnd b) <= 0) ->
    forall (bodies : list bodyrec) (dsbl : Z) (boxes : list (box K)) (d : box K),
    let body := fun b => nth (Z.to_nat b) bodies dbody in
    let masks_ok := fun r1 r2 =>
      filterBitmask (or_types (b_geoms r1)) (or_affs (b_geoms r1)) (or_types (b_geoms r2)) (or_affs (b_geoms r2)) = false in
    (forall b1 b2,
       0 <= b1 < Z.of_nat (length bodies) -> 0 <= b2 < Z.of_nat (length bodies) ->
       canCollide (b_ct (body b1)) (b_ca (body b1)) = true ->
       canCollide (b_ct (body b2)) (b_ca (body b2)) = true ->
       ((b1 = 0 /\ b_geoms (body b1) <> []) \/ (b_dof (body b1) = 0 /\ b_plane (body b1) = true)) ->
       filterBodyPair (b_weld (body b1)) (b_pweld (body b1)) 0 (b_dof (body b1))
                      (b_weld (body b2)) (b_pweld (body b2)) (b_asleep (body b2)) (b_dof (body b2)) dsbl = false ->
       masks_ok (body b1) (body b2) ->
       In (signature b1 b2) (broadphase K kcmp rnd bodies dsbl boxes d)) /\
    (forall i1 i2 b1 b2 x1 x2,
       length boxes = length (collidable bodies) ->
       (forall b, In b boxes -> kcmp (bmin K 0 b) (bmax K 0 b) <= 0) ->
       nth_error (collidable bodies) i1 = Some b1 -> nth_error (collidable bodies) i2 = Some b2 -> b1 <> b2 ->
       nth_error boxes i1 = Some x1 -> nth_error boxes i2 = Some x2 ->
       kcmp (rnd (bmin K 0 x1)) (rnd (bmax K 0 x2)) <= 0 ->
       kcmp (rnd (bmin K 0 x2)) (rnd (bmax K 0 x1)) <= 0 ->
       (kcmp (bmin K 1 x1) (bmax K 1 x2) <= 0 /\ kcmp (bmin K 1 x2) (bmax K 1 x1) <= 0 /\
        kcmp (bmin K 2 x1) (bmax K 2 x2) <= 0 /\ kcmp (bmin K 2 x2) (bmax K 2 x1) <= 0) ->
       filterBodyPair (b_weld (body b1)) (b_pweld (body b1)) (b_asleep (body b1)) (b_dof (body b1))
                      (b_weld (body b2)) (b_pweld (body b2)) (b_asleep (body b2)) (b_dof (body b2)) dsbl = false ->
       masks_ok (body b1) (body b2) ->
       In (signature b1 b2) (broadphase K kcmp rnd bodies dsbl boxes d)).
Proof.
  intros K kcmp rnd Ha Ht Hm bodies dsbl boxes d body masks_ok. split.
  - exact (broadphase_always K kcmp rnd bodies dsbl boxes d).
  - exact (broadphase_sap K kcmp rnd Ha Ht Hm bodies dsbl boxes d).
Qed.
Print Assumptions C14_broadphase_complete.

(* non-vacuity: the comparison and rounding used by the correspondence runs meet the hypotheses
   (keys are pairs (code of the double, code of its float cast); compared by the first component) *)
Theorem C14_zcmp3_preorder :
  (forall a b, zcmp3 a b < 0 <-> 0 < zcmp3 b a) /\
  (forall a b c, zcmp3 a b <= 0 -> zcmp3 b c <= 0 -> zcmp3 a c <= 0).
Proof. split; [exact zcmp3_anti | exact zcmp3_trans]. Qed.
Print Assumptions C14_zcmp3_preorder.

Example C14_sap_example :
  sap Z zcmp3 (fun x => x) 0
      [((0, 0, 0), (4, 4, 4)); ((3, 1, 1), (8, 2, 2)); ((4, 0, 0), (5, 1, 1)); ((9, 0, 0), (10, 9, 9)); ((2, 7, 0), (6, 8, 1))] zbox0
  = [(0%nat, 1%nat); (0%nat, 2%nat); (1%nat, 2%nat)].
Proof. vm_compute. reflexivity. Qed.

(* the former float-tie witness of DESIGN.md section 7 item 2 (rnd8 x = 8 * (x / 8), rnd8 9 = rnd8 8): with the
   tie-break the pair is reported in both declaration orders *)
Example C14_sap_tie_example :
  sap Z zcmp3 rnd8 0 tie_boxes zbox0 = [(0%nat, 1%nat)] /\
  sap Z zcmp3 rnd8 0 (rev tie_boxes) zbox0 = [(1%nat, 0%nat)].
Proof. exact sap_tie_example. Qed.

Example C14_filters_example :
  filterBodyPair 1 0 0 6 2 1 0 1 0 = true /\ filterBodyPair 1 0 0 6 2 1 0 1 1 = false /\
  filterBitmask 1 2 4 4 = true /\ filterBitmask 1 2 2 1 = false.
Proof. vm_compute. repeat split; reflexivity. Qed.
