(* C45 — MJX dynamics have correct gradients: the mujoco-owned derivative code.
   JAX differentiates the traced program, so a gradient can disagree with finite differences only where MJX DEFINES a
   derivative (the jax.custom_jvp of collision_sdf._cylinder) or guards a point where the traced derivative would be NaN
   (math.safe_div, math.norm, math.normalize_with_norm).  Statements only, over the reals (Coquelicot); the models are
   Model/MjxGrad.v, proofs Proof/MjxGradProof.v.  For a mask / where-guarded expression the derivative JAX computes is the
   derivative of the selected branch with the mask held constant (safe_div_sel, safe_norm3_grad model exactly that).
   Not expressed: jax's own differentiation rules; whole-pipeline gradients (oracle only); floating-point rounding. *)
From Coq Require Import ZArith List Bool Reals Lra.
From Coquelicot Require Import Coquelicot.
From MJV Require Import Lib.Num Lib.NumR Model.MjxGrad Proof.MjxGradProof.
Import ListNotations.
Open Scope R_scope.

(* --- cylinder_jvp: wherever the primal _cylinder is classically differentiable AND none of the rule's allclose guards fires
       (c = |(x0,x1)|, e = |x2| and the corner distance all above 1e-8), the custom tangent dot(_cylinder_grad(x, size), x_dot) is the
       derivative of the primal along x + t x_dot.  The five regions: inside nearer to the side wall, inside nearer to a cap, outside
       beside the wall, outside above a cap, outside the rim (corner) --- *)
Theorem C45_cylinder_jvp :
  forall (x0 x1 x2 r h v0 v1 v2 : R),
    let c := sqrt (x0 * x0 + x1 * x1) in
    let e := Rabs x2 in
    ((e - h < c - r /\ c - r < 0 /\ Rdec 1 (-8) < c) \/
     (c - r < e - h /\ e - h < 0 /\ Rdec 1 (-8) < e) \/
     (0 < c - r /\ e - h < 0 /\ Rdec 1 (-8) < c /\ Rdec 1 (-8) < c - r) \/
     (c - r < 0 /\ 0 < e - h /\ Rdec 1 (-8) < e /\ Rdec 1 (-8) < e - h) \/
     (0 < c - r /\ 0 < e - h /\ Rdec 1 (-8) < c /\ Rdec 1 (-8) < e /\
      Rdec 1 (-8) < sqrt ((c - r) * (c - r) + (e - h) * (e - h)))) ->
    is_derive (fun t : R => cyl (x0 + t * v0) (x1 + t * v1) (x2 + t * v2) r h) 0 (cyl_jvp x0 x1 x2 r h v0 v1 v2 0 0).
Proof. exact cyl_jvp_all. Qed.
Print Assumptions C45_cylinder_jvp.

(* --- the same rule is WRONG for the other argument: it discards the tangent of `size`, so the tangent it returns along the
       radius is 0 while the primal has derivative -1 (a real-valued model parameter, geom_size).  KNOWN finding C45-F1;
       the witness is replayed on the implementation by the check --- *)
Theorem C45_cylinder_size_tangent_refuted :
  exists (x0 x1 x2 r h : R),
    is_derive (fun s : R => cyl x0 x1 x2 s h) r (- 1) /\
    (forall sr sh : R, cyl_jvp x0 x1 x2 r h 0 0 0 sr sh = 0).
Proof.
  exists 1, 0, 0, (/ 2), 1. split; [exact cyl_radius_derivative | exact (cyl_jvp_ignores_size 1 0 0 (/ 2) 1)].
Qed.
Print Assumptions C45_cylinder_size_tangent_refuted.

(* --- math.safe_div: for den <> 0 it is num / den with the usual derivatives in both arguments; at den = 0 the selected branch
       num / (den + mjMINVAL) has a finite value and finite derivatives (no inf / NaN), and safe_div is that branch --- *)
Theorem C45_safe_div :
  (forall num den : R, den <> 0 ->
     safe_div num den = num / den /\
     is_derive (fun d : R => safe_div num d) den (- num / (den * den)) /\
     is_derive (fun n : R => safe_div n den) num (/ den)) /\
  (forall num : R,
     safe_div num 0 = num / Rdec 1 (-15) /\
     is_derive (fun d : R => safe_div_sel true num d) 0 (- num / (Rdec 1 (-15) * Rdec 1 (-15))) /\
     is_derive (fun n : R => safe_div_sel true n 0) num (/ Rdec 1 (-15))) /\
  (forall num den : R, safe_div num den = safe_div_sel (Reqb den 0) num den).
Proof. exact (conj safe_div_nonzero (conj safe_div_zero safe_div_sel_eq)). Qed.
Print Assumptions C45_safe_div.

(* --- math.norm, x not (close to) zero: with one coordinate beyond the allclose threshold the guarded norm is the euclidean norm
       around x and its derivative along any direction is the dot product with the gradient reverse-mode JAX returns, x / |x| --- *)
Theorem C45_safe_norm :
  forall (x0 x1 x2 v0 v1 v2 : R),
    (Rdec 1 (-8) < Rabs x0 \/ Rdec 1 (-8) < Rabs x1 \/ Rdec 1 (-8) < Rabs x2) ->
    safe_norm3_grad x0 x1 x2 = (x0 / enorm3 x0 x1 x2, x1 / enorm3 x0 x1 x2, x2 / enorm3 x0 x1 x2) /\
    is_derive (fun t : R => safe_norm3 (x0 + t * v0) (x1 + t * v1) (x2 + t * v2)) 0
              (let '(g0, g1, g2) := safe_norm3_grad x0 x1 x2 in g0 * v0 + g1 * v1 + g2 * v2).
Proof.
  intros x0 x1 x2 v0 v1 v2 H. split; [|exact (safe_norm3_derive x0 x1 x2 v0 v1 v2 H)].
  apply safe_norm3_nonzero.
  unfold is_zero3, allclose0. num_R.
  destruct H as [K|[K|K]]; rewrite (leb_f _ _ K); simpl; rewrite ?andb_false_r; reflexivity.
Qed.
Print Assumptions C45_safe_norm.

(* --- math.norm at (and near) zero, the double-where pattern: value 0; the gradient JAX returns is exactly (0, 0, 0); the inner
       where has moved linalg.norm to the point (1,1,1) where it is differentiable; strictly inside the threshold box the function
       is locally constant, so 0 is its derivative in every direction --- *)
Theorem C45_safe_norm_zero :
  (forall x0 x1 x2 : R, is_zero3 x0 x1 x2 = true ->
     safe_norm3 x0 x1 x2 = 0 /\ safe_norm3_grad x0 x1 x2 = (0, 0, 0) /\ ex_derive (fun t : R => enorm3 t 1 1) 1) /\
  (forall x0 x1 x2 v0 v1 v2 : R,
     Rabs x0 < Rdec 1 (-8) -> Rabs x1 < Rdec 1 (-8) -> Rabs x2 < Rdec 1 (-8) ->
     is_derive (fun t : R => safe_norm3 (x0 + t * v0) (x1 + t * v1) (x2 + t * v2)) 0 0).
Proof. exact (conj safe_norm3_zero safe_norm3_zero_derive). Qed.
Print Assumptions C45_safe_norm_zero.

(* --- why the inner where is needed: the unguarded norm sqrt(t t) has no derivative at 0 (JAX would produce NaN there) --- *)
Theorem C45_naive_norm_singular : ~ ex_derive (fun t : R => sqrt (t * t)) 0.
Proof. exact naive_norm_not_derivable. Qed.
Print Assumptions C45_naive_norm_singular.

(* non-vacuity: a point of each kind *)
Example C45_example :
  is_zero3 0 0 0 = true /\ (Rdec 1 (-8) < Rabs 1 \/ Rdec 1 (-8) < Rabs 0 \/ Rdec 1 (-8) < Rabs 0) /\
  (let c := sqrt (1 * 1 + 0 * 0) in let e := Rabs 0 in 0 < c - / 2 /\ e - 1 < 0 /\ Rdec 1 (-8) < c /\ Rdec 1 (-8) < c - / 2).
Proof.
  pose proof dec8_pos as P.
  assert (Q : Rdec 1 (-8) < / 2).
  { unfold Rdec. simpl. apply (Rmult_lt_reg_r 100000000); [lra|]. unfold Rdiv. rewrite Rmult_assoc, Rinv_l; lra. }
  split; [|split].
  - unfold is_zero3, allclose0. num_R. rewrite Rabs_R0. rewrite (leb_t 0 _ (Rlt_le _ _ P)). reflexivity.
  - left. rewrite Rabs_R1. lra.
  - replace (1 * 1 + 0 * 0) with 1 by ring. rewrite sqrt_1, Rabs_R0. simpl. lra.
Qed.
