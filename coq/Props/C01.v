(* C01 — Simulation is a deterministic function of the integration state.
   Programs: Gen/Pipeline.v (regenerated from engine_forward.c).  Stage frames: Gen/StageSets.v
   (generated from harness/c01_table.json, validated on the implementation on every run). *)
From Coq Require Import String List Bool.
From MJV Require Import Model.Pipeline Proof.PipelineProof Model.Frames Proof.FramesProof
                        Gen.Pipeline Gen.StageSets Proof.C04Proof Proof.C01Proof.
Import ListNotations.
Open Scope string_scope.

(* For every interpretation of the stage functions / assignments / condition atoms that respects the
   frame table, two data that agree on the integration state (and the sleep bookkeeping constants)
   produce, through the regenerated mj_forward / mj_step program, results that agree on every field
   of D' -- whatever the remaining fields held -- or both runs end in the error outcome. *)
Theorem C01_noninterference :
  forall (V : Type)
         (call : string -> list string -> (string -> V) -> (string -> V))
         (assign : string -> string -> (string -> V) -> (string -> V))
         (user : (string -> V) -> (string -> V))
         (atom : string -> (string -> V) -> bool) (integ : (string -> V) -> string),
    (forall (f : string) (a : list string) (fr : frame), lookup (call_key f a) stage_table = Some fr ->
       forall (d : string -> V) (x : string), ~ In x (f_must fr ++ f_may fr) -> call f a d x = d x) ->
    (forall (f : string) (a : list string) (fr : frame), lookup (call_key f a) stage_table = Some fr ->
       forall d1 d2 : string -> V, agree V (f_reads fr) d1 d2 -> agree V (f_must fr) (call f a d1) (call f a d2)) ->
    (forall (l r fld : string) (full : bool), field_of_assign l = Some (fld, full) ->
       forall (d : string -> V) (x : string), x <> fld -> assign l r d x = d x) ->
    (forall (l r fld : string), field_of_assign l = Some (fld, true) ->
       forall d1 d2 : string -> V, assign l r d1 fld = assign l r d2 fld) ->
    (forall (s : string) (rs : list string), lookup s atom_reads_table = Some rs ->
       forall d1 d2 : string -> V, agree V rs d1 d2 -> atom s d1 = atom s d2) ->
    (forall d : string -> V, atom "mjcb_control" d = false) ->
    (forall d : string -> V, atom "flex_has_passive_contact(m)" d = false) ->
    forall (p : prog) (v : string) (D' : list string),
      (forall d : string -> V, integ d = v) ->
      flow_of p v = Some D' ->
      forall d1 d2 : string -> V, agree V (state_fields ++ const_fields) d1 d2 ->
        related V D' (run (string -> V) call assign user atom integ p d1)
                     (run (string -> V) call assign user atom integ p d2).
Proof. exact noninterference. Qed.
Print Assumptions C01_noninterference.

(* the analysis succeeds on the regenerated mj_forward / mj_step for every integrator, and the
   listed outputs are among the fields on which agreement is guaranteed *)
Theorem C01_forward_covered :
  forallb (covered prog_forward output_fields_forward) ["mjINT_EULER"; "mjINT_RK4"; "mjINT_IMPLICIT"; "mjINT_IMPLICITFAST"] = true.
Proof. exact forward_covered. Qed.
Print Assumptions C01_forward_covered.

Theorem C01_step_covered :
  forallb (covered prog_step output_fields_step) ["mjINT_EULER"; "mjINT_RK4"; "mjINT_IMPLICIT"; "mjINT_IMPLICITFAST"] = true.
Proof. exact step_covered. Qed.
Print Assumptions C01_step_covered.

(* the generic soundness of the dataflow analysis, for every program and every table *)
Theorem C01_flow_sound :
  forall (V : Type)
         (call : string -> list string -> (string -> V) -> (string -> V))
         (assign : string -> string -> (string -> V) -> (string -> V))
         (user : (string -> V) -> (string -> V))
         (atom : string -> (string -> V) -> bool) (integ : (string -> V) -> string)
         (table : list (string * frame)) (atom_reads : list (string * list string)),
    (forall (f : string) (a : list string) (fr : frame), lookup (call_key f a) table = Some fr ->
       forall (d : string -> V) (x : string), ~ In x (f_must fr ++ f_may fr) -> call f a d x = d x) ->
    (forall (f : string) (a : list string) (fr : frame), lookup (call_key f a) table = Some fr ->
       forall d1 d2 : string -> V, agree V (f_reads fr) d1 d2 -> agree V (f_must fr) (call f a d1) (call f a d2)) ->
    (forall (l r fld : string) (full : bool), field_of_assign l = Some (fld, full) ->
       forall (d : string -> V) (x : string), x <> fld -> assign l r d x = d x) ->
    (forall (l r fld : string), field_of_assign l = Some (fld, true) ->
       forall d1 d2 : string -> V, assign l r d1 fld = assign l r d2 fld) ->
    (forall (s : string) (rs : list string), lookup s atom_reads = Some rs ->
       forall d1 d2 : string -> V, agree V rs d1 d2 -> atom s d1 = atom s d2) ->
    (forall d1 d2 : string -> V, integ d1 = integ d2) ->
    forall (l : list item) (D D' : list string),
      flow_list table atom_reads l D = Some D' ->
      forall d1 d2 : string -> V, agree V D d1 d2 ->
        related V D' (exec_list (string -> V) call assign user atom integ l d1)
                     (exec_list (string -> V) call assign user atom integ l d2).
Proof. exact flow_sound. Qed.
Print Assumptions C01_flow_sound.
