(* C46 — Bounded least squares respects bounds and never gets worse.
   Model: Model/LeastSquares.v (least_squares / jacobian_fd / increase_mu / decrease_mu / Armijo search
   of python/mujoco/minimize.py, Quadratic norm, finite-difference Jacobian), with the residual
   function and the box-QP solver as universally quantified parameters.
   The model has a switch clipcand: true = the candidate x + D*dx is clipped to the bounds before the residual
   is evaluated (what the source does since the repair of the rounding defect; the check reads this from the
   source and insists on it), false = the candidate is used as is (the former source).
   The premises and conclusions are the executable (boolean) definitions of the model file, so the same
   statement is read at R (theorems, both values of the switch) and at binary64, where it is refuted for
   the explicitly UNCLIPPED variant only (C46_float_unclipped_refuted).
   The clause "for linear residuals it reaches the bounded global minimum" is NOT proved. *)
From Coq Require Import ZArith List Bool PrimFloat Reals.
From MJV Require Import Lib.Num Lib.NumR Lib.NumF Model.LeastSquares Proof.LeastSquaresProof Proof.LeastSquaresFloat.
Import ListNotations.

(* over R: for every residual function, every box-QP solver honouring its contract (answer inside
   [dlower, dupper], not an ascent direction), every valid box wider than the finite-difference step,
   every positive scaling (fixed x_scale array, or 'jac'), every start point and all parameters:
   every point at which the residual is evaluated (clipped start, finite-difference points, all
   candidates) and the returned point lie in the box *)
Theorem C46_in_bounds :
  forall (res : list R -> list R) (qp : nat -> list (list R) -> list R -> list R -> list R -> option (list R))
         (box : list (Bnd (T:=R))) (Dfix : list R) (adaptive clipcand : bool)
         (eps mu_min mu_max mu_factor xtol gtol : R) (inner_fuel max_iter : nat) (x0 : list R),
    problem_ok box Dfix eps x0 -> qp_contract qp ->
    concl_in_bounds box (least_squares res qp box Dfix adaptive clipcand eps mu_min mu_max mu_factor xtol gtol inner_fuel max_iter x0).
Proof. exact in_bounds_R. Qed.
Print Assumptions C46_in_bounds.

(* the hard obligation for the source as it is (the check insists that the source clips the candidate): the
   instance clipcand = true of the statement above, spelled out *)
Theorem C46_in_bounds_clipped :
  forall (res : list R -> list R) (qp : nat -> list (list R) -> list R -> list R -> list R -> option (list R))
         (box : list (Bnd (T:=R))) (Dfix : list R) (adaptive : bool)
         (eps mu_min mu_max mu_factor xtol gtol : R) (inner_fuel max_iter : nat) (x0 : list R),
    problem_ok box Dfix eps x0 -> qp_contract qp ->
    concl_in_bounds box (least_squares res qp box Dfix adaptive true eps mu_min mu_max mu_factor xtol gtol inner_fuel max_iter x0).
Proof. exact in_bounds_clipped_R. Qed.
Print Assumptions C46_in_bounds_clipped.

(* over R, same hypotheses: the trace is not empty, its objectives are non-increasing, its first
   objective is the one of the clipped start, its last entry is the returned point with its objective,
   which is no larger than the objective at the clipped start *)
Theorem C46_monotone :
  forall (res : list R -> list R) (qp : nat -> list (list R) -> list R -> list R -> list R -> option (list R))
         (box : list (Bnd (T:=R))) (Dfix : list R) (adaptive clipcand : bool)
         (eps mu_min mu_max mu_factor xtol gtol : R) (inner_fuel max_iter : nat) (x0 : list R),
    problem_ok box Dfix eps x0 -> qp_contract qp ->
    concl_monotone res box x0 (least_squares res qp box Dfix adaptive clipcand eps mu_min mu_max mu_factor xtol gtol inner_fuel max_iter x0).
Proof. exact monotone_R. Qed.
Print Assumptions C46_monotone.

(* over R, for every residual and every solver (no contract needed): with 0 < mu_min, 1 < mu_factor,
   mu_max <= mu_min * mu_factor^K the Armijo search (both nested while loops) ends within K + 2 solver
   calls (the model's fuel is never exhausted), and the outer loop appends at most max_iter + 1 logs *)
Theorem C46_terminates :
  forall (res : list R -> list R) (qp : nat -> list (list R) -> list R -> list R -> list R -> option (list R))
         (box : list (Bnd (T:=R))) (Dfix : list R) (adaptive clipcand : bool)
         (eps mu_min mu_max mu_factor xtol gtol : R) (inner_fuel max_iter : nat) (x0 : list R) (K : nat),
    mu_ok mu_min mu_max mu_factor inner_fuel K ->
    concl_terminates max_iter (least_squares res qp box Dfix adaptive clipcand eps mu_min mu_max mu_factor xtol gtol inner_fuel max_iter x0).
Proof. exact terminates_R. Qed.
Print Assumptions C46_terminates.

(* at binary64 the statement of C46_in_bounds for the UNCLIPPED variant (clipcand = false, the former source)
   is FALSE: x + D * dx with dx = (lo - x) / D >= dlower can
   land one ulp outside the box (witness: box [-1.3, 0.9], x0 = 0.4, r(x) = x + 5) *)
Theorem C46_float_unclipped_refuted :
  exists (res : list float -> list float) (qp : nat -> list (list float) -> list float -> list float -> list float -> option (list float))
         (box : list (Bnd (T:=float))) (Dfix : list float) (adaptive : bool)
         (eps mu_min mu_max mu_factor xtol gtol : float) (inner_fuel max_iter : nat) (x0 : list float),
    problem_ok box Dfix eps x0 /\ qp_contract qp /\
    ~ concl_in_bounds box (least_squares res qp box Dfix adaptive false eps mu_min mu_max mu_factor xtol gtol inner_fuel max_iter x0).
Proof. exact float_refuted. Qed.
Print Assumptions C46_float_unclipped_refuted.

(* the witness: the candidate handed to the residual and the returned point are one ulp below -1.3 *)
Theorem C46_float_unclipped_witness_values :
  rs_x w_result = [(-0x1.4cccccccccccep+0)%float] /\
  In [(-0x1.4cccccccccccep+0)%float] (rs_evals w_result) /\
  PrimFloat.ltb (-0x1.4cccccccccccep+0)%float (-0x1.4cccccccccccdp+0)%float = true.
Proof. exact w_values. Qed.
Print Assumptions C46_float_unclipped_witness_values.

(* the same problem in the clipped model (clipcand = true, the source), 100 iterations, at binary64: every
   evaluation point and the returned point are inside the box *)
Theorem C46_float_clipped_witness_in_bounds :
  concl_in_bounds w_box
    (least_squares w_res qp_lower w_box [1%float] false true w_eps w_mu_min w_mu_max w_mu_factor w_tol w_tol 200 100 w_x0).
Proof. exact w_repaired. Qed.
Print Assumptions C46_float_clipped_witness_in_bounds.
