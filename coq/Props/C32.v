(* C32 — Saved MJCF recompiles to the same model.  Logical cores of the writer/reader pair:
   (a) default-class elision (Model/XmlDefaults.v), (c) number formatting decision (Model/XmlNumFormat.v).
   Only statements, each closed by a lemma of Proof/, followed by Print Assumptions. *)
From Coq Require Import List Bool ZArith QArith.
From MJV Require Import Model.XmlDefaults Proof.XmlDefaultsProof Model.XmlNumFormat Proof.XmlNumFormatProof.
Import ListNotations.

(* (a) For every number type with a decidable equality, every attribute policy list, every class tree
   and every parent record: if the writer's comparison is exact (close a b -> a = b), every value is
   defined (no NaN), records have the shape of their parent's, and the side conditions [attr_ok] of
   the two special policies hold, then reading the written default tree gives the tree back. *)
Theorem C32_defaults_roundtrip :
  forall (T : Type) (defined : T -> bool) (close eqb : T -> T -> bool) (zero : T),
    (forall a b : T, eqb a b = true <-> a = b) ->
    (forall a b : T, close a b = true -> a = b) ->
    forall (pol : list (@policy T)) (t : @ctree T) (par : list (list T)),
      tree_ok defined close eqb zero pol par t ->
      roundtrip_tree defined close eqb zero pol par t = t.
Proof. exact @tree_roundtrip. Qed.
Print Assumptions C32_defaults_roundtrip.

(* ... and every element of every class of that tree is reconstructed exactly from what is written
   for it against its class (the reader patching the re-read class). *)
Theorem C32_element_roundtrip :
  forall (T : Type) (defined : T -> bool) (close eqb : T -> T -> bool) (zero : T),
    (forall a b : T, eqb a b = true <-> a = b) ->
    (forall a b : T, close a b = true -> a = b) ->
    forall (pol : list (@policy T)) (t : @ctree T) (base : list (list T)) (c : nat) (cv x : list (list T)),
      tree_ok defined close eqb zero pol base t -> lookup c t = Some cv ->
      rec_ok defined close eqb zero false pol x cv ->
      roundtrip_elem defined close eqb zero pol base t c x = Some x.
Proof. exact @elem_roundtrip. Qed.
Print Assumptions C32_element_roundtrip.

(* With the comparison the code has (SameVector: within a tolerance) only this is true of ONE attribute:
   every component read back is equal or within the tolerance.  Partial: no bound is stated for trees
   (the error accumulates with the depth, see C32_defaults_drift_refuted). *)
Theorem C32_attr_roundtrip_tolerance_partial :
  forall (T : Type) (defined : T -> bool) (close eqb : T -> T -> bool) (zero : T),
    (forall a b : T, eqb a b = true <-> a = b) ->
    forall (trim : bool) (x d : list T), length x = length d -> all_defined defined x = true ->
      Forall2 (fun a b => a = b \/ close a b = true) x (read_attr d (write_attr defined close eqb trim x d)).
Proof. exact @attr_roundtrip_close. Qed.
Print Assumptions C32_attr_roundtrip_tolerance_partial.

(* The exact statement is false of the faithful model (comparison with a tolerance) ... *)
Theorem C32_defaults_tolerance_refuted :
  exists (t : @ctree Z) (base : list (list Z)),
    tree_ok zdef zclose1 Z.eqb 0%Z [PParent false] base t /\
    roundtrip_tree zdef zclose1 Z.eqb 0%Z [PParent false] base t <> t.
Proof. exact eps_refuted. Qed.
Print Assumptions C32_defaults_tolerance_refuted.

(* ... the error grows with the depth of the class tree ... *)
Theorem C32_defaults_drift_refuted :
  exists (t : @ctree Z) (base : list (list Z)),
    tree_ok zdef zclose1 Z.eqb 0%Z [PParent false] base t /\
    roundtrip_tree zdef zclose1 Z.eqb 0%Z [PParent false] base t =
      CNode 0%nat [[0%Z]] [CNode 1%nat [[0%Z]] []] /\
    t = CNode 0%nat [[1%Z]] [CNode 1%nat [[2%Z]] []].
Proof. exact drift_refuted. Qed.
Print Assumptions C32_defaults_drift_refuted.

(* ... userdata of a default class is compared with zero instead of the parent class (side condition of
   PZeroDef is necessary) ... *)
Theorem C32_defaults_userdata_refuted :
  exists (t : @ctree Z) (base : list (list Z)),
    roundtrip_tree zdef Z.eqb Z.eqb 0%Z [PZeroDef] base t <> t.
Proof. exact user_refuted. Qed.
Print Assumptions C32_defaults_userdata_refuted.

(* ... and an element attribute compared with a constant instead of its class (actdim) is lost when
   the class sets it (side condition of PConst is necessary). *)
Theorem C32_element_const_refuted :
  exists (t : @ctree Z) (base : list (list Z)) (x : list (list Z)),
    roundtrip_elem zdef Z.eqb Z.eqb 0%Z [PConst [0%Z]] base t 0%nat x <> Some x.
Proof. exact const_refuted. Qed.
Print Assumptions C32_element_const_refuted.

Example C32_hypotheses_satisfiable :
  tree_ok zdef Z.eqb Z.eqb 0%Z [PParent true; PParent false; PZeroDef] [[0; 0; 0]; [1]; [0; 0]]%Z
    (CNode 0%nat [[3; 0; 0]; [1]; [4; 0]]%Z
       [CNode 1%nat [[3; 5; 0]; [2]; [4; 1]]%Z []; CNode 2%nat [[0; 0; 0]; [1]; [0; 9]]%Z []]).
Proof. exact example_tree_ok. Qed.

(* (c) integers of the int range are printed exactly at every precision ... *)
Theorem C32_integers_printed_exactly :
  forall n : Z, (- int_max < n < int_max)%Z -> fmt_decision (inject_Z n) = Some n.
Proof. exact integers_exact. Qed.
Print Assumptions C32_integers_printed_exactly.

(* ... but a number within 1e-12 of an integer is printed as that integer. *)
Theorem C32_near_integer_refuted :
  exists x : Q, fmt_decision x = Some 1%Z /\ ~ (x == inject_Z 1)%Q.
Proof. exact near_integer_refuted. Qed.
Print Assumptions C32_near_integer_refuted.
