(* C20 — Exhausted arena memory is handled gracefully.  PARTIAL by design: the theorems are about
   the four allocation sites named by the property, modelled as clients of mj_arenaAllocByte
   (Model/ArenaClients.v on top of Model/Memory.v); the other call sites of mj_arenaAllocByte and
   the stack-overflow exits are covered only by the memory sweep of the check (observation).
   Only statements, each closed by a lemma of Proof/ArenaClientsProof.v.

   Vocabulary: [CInv csz c g]: the allocator invariant of C19 holds of the mjData (live stack
   regions g), 0 <= ncon and the contact array ncon*csz fits below parena;  [req_ok ga na r]: the
   request r = (bytes, alignment) has 0 <= bytes < 2^64, power-of-two alignment and
   alignment + narena <= 2^64 (ga = true: mj_arenaAllocByte as it is now);  [chain lo ps reqs hi]:
   the pointers ps are non-NULL and the arrays lie one after the other inside [lo, hi);
   [all_null l]: every pointer of l is NULL.  Outcomes: [Done ret c'] the function returned ret,
   [ErrExit c] it raised mju_error, [NullWrite] it wrote through the NULL result. *)
From Coq Require Import List ZArith Bool.
From MJV Require Import Model.Memory Model.ArenaClients Proof.MemoryProof Proof.ArenaClientsProof.
Import ListNotations.
Open Scope Z_scope.

(* mj_addContact: never writes through NULL; on failure returns 1 with the contact count and the
   stack unchanged, parena at the end of the contact array, every efc/island pointer NULL,
   nefc = nisland = 0 and mjWARN_CONTACTFULL raised; the invariant holds afterwards in both cases *)
Theorem C20_add_contact :
  forall ga csz cal c g,
    CInv csz c g -> 0 < csz -> req_ok ga (narena (ms c)) (csz, cal) ->
    exists ret c', add_contact ga csz cal c = Done ret c' /\ CInv csz c' g /\
      pstack (ms c') = pstack (ms c) /\ pbase (ms c') = pbase (ms c) /\
      all_null (efcp c') /\ all_null (islp c') /\ nefc c' = 0 /\ nisland c' = 0 /\
      ((ret = 0 /\ ncon c' = ncon c + 1 /\ warns c' = warns c)
       \/ (ret = 1 /\ ncon c' = ncon c /\ parena (ms c') = ncon c * csz /\
           warns c' = (WARN_CONTACTFULL, ncon c) :: warns c /\ mem (ms c') = mem (ms c))).
Proof. exact add_contact_thm. Qed.
Print Assumptions C20_add_contact.

(* arenaAllocEfc, for every request list (the X-macro MJDATA_ARENA_POINTERS_SOLVER): either all
   arrays are allocated, non-NULL, consecutive, inside [arena + ncon*csz, arena + parena) and below
   the stack; or 0 is returned with parena rolled back to the end of the contact array, every
   efc/island pointer NULL, nefc = nisland = 0 and mjWARN_CNSTRFULL(narena) raised.  Nothing is
   written; ncon, the stack and memory are unchanged. *)
Theorem C20_alloc_efc :
  forall ga csz reqs c g,
    CInv csz c g -> 0 < csz -> Forall (req_ok ga (narena (ms c))) reqs ->
    exists ret c', alloc_efc ga csz reqs c = Done ret c' /\ CInv csz c' g /\
      ncon c' = ncon c /\ pstack (ms c') = pstack (ms c) /\ pbase (ms c') = pbase (ms c) /\
      mem (ms c') = mem (ms c) /\
      ((ret = 1 /\ chain (base (ms c) + ncon c * csz) (efcp c') reqs (Lim (ms c')) /\ Lim (ms c') <= Top (ms c') /\
        nefc c' = nefc c /\ islp c' = islp c /\ warns c' = warns c)
       \/ (ret = 0 /\ parena (ms c') = ncon c * csz /\ all_null (efcp c') /\ all_null (islp c') /\
           nefc c' = 0 /\ nisland c' = 0 /\ warns c' = (WARN_CNSTRFULL, narena (ms c)) :: warns c)).
Proof. exact alloc_efc_thm. Qed.
Print Assumptions C20_alloc_efc.

(* arenaAllocIsland.  ic = true is the code as it is now (failure branch: mj_clearEfc and rollback to
   the end of the contact array, as at the other sites): on failure every efc and island pointer is
   NULL, nefc = nisland = 0, parena = ncon*csz and mjWARN_CNSTRFULL is raised.  ic = false is the
   code before /repo's repair 62d89235a (clearIsland: efc arrays kept, parena restored to its value
   at entry); the theorem covers it too so that the check can tie whichever variant the working tree
   implements.  The model does not contain mjContact.efc_address: that the old branch left those
   fields pointing at rows of the dropped constraint set (nefc = 0) is what the oracle of the check
   detects on the implementation (class stale_efc_address; corpus: 12-body cluster scene,
   memory = 251616). *)
Theorem C20_alloc_island :
  forall ga ic csz reqs c g,
    CInv csz c g -> 0 < csz -> Forall (req_ok ga (narena (ms c))) reqs ->
    exists ret c', alloc_island ga ic csz reqs c = Done ret c' /\ CInv csz c' g /\
      ncon c' = ncon c /\ pstack (ms c') = pstack (ms c) /\ pbase (ms c') = pbase (ms c) /\
      mem (ms c') = mem (ms c) /\
      ((ret = 1 /\ chain (Lim (ms c)) (islp c') reqs (Lim (ms c')) /\ Lim (ms c') <= Top (ms c') /\
        efcp c' = efcp c /\ nefc c' = nefc c /\ nisland c' = nisland c /\ warns c' = warns c)
       \/ (ret = 0 /\ all_null (islp c') /\ nefc c' = 0 /\ nisland c' = 0 /\
           warns c' = (WARN_CNSTRFULL, narena (ms c)) :: warns c /\
           ((ic = false /\ parena (ms c') = parena (ms c) /\ efcp c' = efcp c)
            \/ (ic = true /\ parena (ms c') = ncon c * csz /\ all_null (efcp c'))))).
Proof. exact alloc_island_thm. Qed.
Print Assumptions C20_alloc_island.

(* pushPairArena as it is now (NULL test on the result): the pair is stored in a block inside the
   arena, or mju_error is raised with the state unchanged; never a write through NULL *)
Theorem C20_push_pair :
  forall ga csz psz pal c g,
    CInv csz c g -> req_ok ga (narena (ms c)) (psz, pal) ->
    (exists c', push_pair ga true psz pal c = Done 0 c' /\ CInv csz c' g /\ ncon c' = ncon c /\
                pstack (ms c') = pstack (ms c) /\ parena (ms c) + psz <= parena (ms c') /\
                Lim (ms c') <= Top (ms c'))
    \/ (push_pair ga true psz pal c = ErrExit c /\ Avail (ms c) < psz + pal - 1).
Proof. exact push_pair_fixed_thm. Qed.
Print Assumptions C20_push_pair.

(* the code before /repo's repair (NULL test on the argument instead of the result; model variant
   fixed = false): in a consistent state with fewer than sizeof(mjcPair) free bytes it writes
   through NULL.  The check keeps replaying this witness on the implementation (site level and
   through mj_step on the 80-body scene with memory = 50000). *)
Theorem C20_unfixed_push_pair_refuted :
  exists c g, CInv 584 c g /\ push_pair true false 24 4 c = NullWrite /\ Avail (ms c) < 24.
Proof. exact push_pair_refuted. Qed.
Print Assumptions C20_unfixed_push_pair_refuted.

(* non-vacuity: the witness state on the code as it is gives the error exit *)
Example C20_example :
  push_pair true true 24 4 wit_c = ErrExit wit_c /\
  (exists c', alloc_efc true 584 [(8, 4); (16, 8)] wit_c = Done 0 c' /\ warns c' = [(WARN_CNSTRFULL, 256)]) /\
  (exists c', alloc_efc true 584 [(4, 4); (8, 8)] wit_c = Done 1 c' /\ efcp c' = [4096; 4104]).
Proof. vm_compute. repeat split; try reflexivity; eexists; split; reflexivity. Qed.

(* mj_makeY (sparse and dense branch) and the dense branch of mj_makeAR, for every list of phases
   (mjSTACKALLOCs, then a group of arena allocations tested together; [phase_ok]: sizes in range,
   power-of-two alignments, and the NULL test looks at EVERY pointer of the group): the function
   never writes through NULL; it raises mju_error (stack overflow), or returns with pstack and pbase
   restored and either all arrays allocated (non-NULL, constraint set unchanged) or the failure
   state of the other sites (every efc/island/dual pointer NULL, nefc = nisland = 0, parena rolled
   back to the contact array, mjWARN_CNSTRFULL). *)
Theorem C20_alloc_dual :
  forall gs gt ga csz phs c g,
    CInv csz c g -> 0 < csz -> Forall (phase_ok gs ga (narena (ms c))) phs ->
    alloc_dual gs gt ga csz phs c = ErrExit c \/
    exists ret c', alloc_dual gs gt ga csz phs c = Done ret c' /\ CInv csz c' g /\
      ncon c' = ncon c /\ pstack (ms c') = pstack (ms c) /\ pbase (ms c') = pbase (ms c) /\
      ((ret = 1 /\ has_null (dualp c') = false /\ nefc c' = nefc c /\ efcp c' = efcp c /\ islp c' = islp c /\
        warns c' = warns c)
       \/ (ret = 0 /\ parena (ms c') = ncon c * csz /\ all_null (efcp c') /\ all_null (islp c') /\
           all_null (dualp c') /\ nefc c' = 0 /\ nisland c' = 0 /\
           warns c' = (WARN_CNSTRFULL, narena (ms c)) :: warns c)).
Proof. exact alloc_dual_thm. Qed.
Print Assumptions C20_alloc_dual.

(* the hypothesis on the NULL test is needed: a test that leaves out one pointer of a group (the
   second of two) writes through NULL when only the first array fits; with the complete test the
   same state gives the failure branch *)
Theorem C20_untested_pointer_refuted :
  exists c g, CInv 584 c g /\
    alloc_dual true true true 584 [([], [(64, 8); (32, 4)], [0%nat])] c = NullWrite /\
    alloc_dual true true true 584 [([], [(64, 8); (32, 4)], [0%nat; 1%nat])] c <> NullWrite.
Proof. exact alloc_dual_refuted. Qed.
Print Assumptions C20_untested_pointer_refuted.
