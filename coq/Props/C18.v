(* C18 — Sleeping islands are frozen and wake on the documented events.
   Statements about Model/Sleep.v (model of src/engine/engine_sleep.c), each closed by a lemma of
   Proof/SleepProof.v.  tree_asleep is a list of Z: < 0 awake (countdown), >= 0 next tree of the
   sleep cycle.  The wake *conditions* (which event triggers mj_wakeIsland) and the frozen
   qpos/qvel are not modelled: they are observed on the implementation by harness/props/c18.py. *)
From Coq Require Import ZArith List Bool Sorted.
From MJV Require Import Model.Sleep Proof.SleepProof.
Import ListNotations.
Open Scope Z_scope.

(* ---- the cycle invariant: holds at reset ... *)
Theorem C18_reset_inv : forall n, Inv (repeat kAwake n).
Proof. exact reset_inv. Qed.
Print Assumptions C18_reset_inv.

(* ... and really means closed cycles: every sleeping tree returns to itself within ntree steps
   and everything on the way is an in-range sleeping tree *)
Theorem C18_inv_cycles : forall ta i, Inv ta -> 0 <= i < lenZ ta -> 0 <= getZ ta i ->
  exists p, (0 < p <= length ta)%nat /\ iter ta p i = i /\
            (forall k, 0 <= iter ta k i < lenZ ta /\ 0 <= getZ ta (iter ta k i)).
Proof. exact inv_cycles. Qed.
Print Assumptions C18_inv_cycles.

(* ---- mj_sleepTrees on distinct trees that are ready (-1): no error, invariant preserved, the
   trees form one new cycle which is exactly the given set, nothing else changes *)
Theorem C18_sleepTrees_inv : forall ta l, Inv ta -> NoDup l ->
  (forall t, In t l -> 0 <= t < lenZ ta /\ getZ ta t = -1) ->
  exists ta', sleepTrees ta l = (ta', 0) /\ Inv ta' /\ lenZ ta' = lenZ ta /\
    (forall t, In t l -> 0 <= getZ ta' t /\ forall u, OnCycle ta' t u <-> In u l) /\
    (forall j, 0 <= j -> ~ In j l -> getZ ta' j = getZ ta j).
Proof. exact sleepTrees_inv. Qed.
Print Assumptions C18_sleepTrees_inv.

(* ---- mj_wakeIsland on a sleeping tree i: no error exit, exactly the trees of the cycle of i are
   set to wakeval, everything else is unchanged, the return value is the length p of the cycle *)
Theorem C18_wake_whole : forall ta i w, Inv ta -> 0 <= i < lenZ ta -> 0 <= getZ ta i ->
  exists ta' p, wakeIsland ta (lenZ ta) i w = (ta', Z.of_nat p, 0) /\
    (0 < p <= length ta)%nat /\ iter ta p i = i /\ (forall m, (0 < m < p)%nat -> iter ta m i <> i) /\
    lenZ ta' = lenZ ta /\
    (forall j, OnCycle ta i j -> getZ ta' j = w) /\
    (forall j, 0 <= j -> ~ OnCycle ta i j -> getZ ta' j = getZ ta j).
Proof. exact wakeIsland_asleep. Qed.
Print Assumptions C18_wake_whole.

(* on an awake tree only that tree's counter is lowered to min(wakeval, counter) *)
Theorem C18_wake_awake : forall ta i w, 0 <= i < lenZ ta -> getZ ta i < 0 ->
  wakeIsland ta (lenZ ta) i w = (setZ ta i (Z.min w (getZ ta i)), 0, 0).
Proof. exact wakeIsland_awake. Qed.
Print Assumptions C18_wake_awake.

(* mj_wakeIsland with a negative wake value preserves the invariant, never puts a tree to sleep,
   never rewrites a tree that stays asleep *)
Theorem C18_wake_inv : forall ta i w, Inv ta -> 0 <= i < lenZ ta -> w < 0 ->
  exists ta' n, wakeIsland ta (lenZ ta) i w = (ta', n, 0) /\ Inv ta' /\ lenZ ta' = lenZ ta /\
    (forall j, 0 <= j -> getZ ta j < 0 -> getZ ta' j <= getZ ta j) /\
    (forall j, 0 <= j < lenZ ta -> 0 <= getZ ta' j -> getZ ta' j = getZ ta j).
Proof. exact wakeIsland_inv. Qed.
Print Assumptions C18_wake_inv.

(* ---- mj_wake sweep (sleep enabled): no error, invariant preserved, every tree that is flagged
   (pose mismatch) or cannot sleep at tolerance 0 ends awake, nothing is put to sleep *)
Theorem C18_mj_wake : forall ta flags can0, Inv ta ->
  exists ta' n, mj_wake ta flags can0 = (ta', n, 0) /\ Inv ta' /\ lenZ ta' = lenZ ta /\
    (forall j, 0 <= j < lenZ ta -> getZ ta j < 0 -> getZ ta' j < 0) /\
    (forall j, 0 <= j < lenZ ta -> 0 <= getZ ta' j -> getZ ta' j = getZ ta j) /\
    (forall i, 0 <= i < lenZ ta ->
       negb (getZ flags i =? 0) || negb (nth (Z.to_nat i) can0 false) = true -> getZ ta' i < 0).
Proof. exact mj_wake_spec. Qed.
Print Assumptions C18_mj_wake.

(* ---- mj_sleep over an island partition given as a function tree -> island id (tree_island),
   with no sleeping tree inside an island: no error exit, invariant preserved; sleeping trees are
   untouched; awake trees that stay awake count down (or nothing changes on the early exit);
   a tree falls asleep only if every tree of its block (its island, or itself when unconstrained)
   is awake and reaches -1 in this call, the whole block falls asleep, and the new cycle of the
   tree is exactly that block *)
Theorem C18_sleep_island_atomic : forall ta can nefc nisland ti,
  Inv ta -> length can = length ta -> lenZ ti = lenZ ta ->
  (forall t, 0 <= t < lenZ ta -> 0 <= getZ ti t -> getZ ta t < 0) ->
  exists ta' n, mj_sleep_part ta can nefc nisland ti = (ta', n, 0) /\
    Inv ta' /\ lenZ ta' = lenZ ta /\
    (forall t, 0 <= t < lenZ ta -> 0 <= getZ ta t -> getZ ta' t = getZ ta t) /\
    (negb (nefc =? 0) && (lenZ (islands_of ti nisland) =? 0) = true -> ta' = ta) /\
    (negb (nefc =? 0) && (lenZ (islands_of ti nisland) =? 0) = false ->
       forall t, 0 <= t < lenZ ta -> getZ ta t < 0 -> getZ ta' t < 0 ->
                 getZ ta' t = countdown (getZ ta t) (canZ can t)) /\
    (forall t, 0 <= t < lenZ ta -> getZ ta t < 0 -> 0 <= getZ ta' t ->
       (forall u, 0 <= u < lenZ ta -> same_block ti nisland t u ->
                  getZ ta u < 0 /\ countdown (getZ ta u) (canZ can u) = -1 /\ 0 <= getZ ta' u) /\
       (forall u, OnCycle ta' t u <-> (0 <= u < lenZ ta /\ same_block ti nisland t u))).
Proof. exact mj_sleep_part_spec. Qed.
Print Assumptions C18_sleep_island_atomic.

(* converse: outside the early exit, a block of the partition whose trees are all awake and reach
   -1 in this call does fall asleep (so an island sleeps iff all its trees are ready) *)
Theorem C18_sleep_island_live : forall ta can nefc nisland ti,
  Inv ta -> length can = length ta -> lenZ ti = lenZ ta ->
  (forall t, 0 <= t < lenZ ta -> 0 <= getZ ti t -> getZ ta t < 0) ->
  negb (nefc =? 0) && (lenZ (islands_of ti nisland) =? 0) = false ->
  forall t, 0 <= t < lenZ ta -> (getZ ti t < nisland \/ nisland <= 0) ->
    (forall u, 0 <= u < lenZ ta -> same_block ti nisland t u ->
               getZ ta u < 0 /\ countdown (getZ ta u) (canZ can u) = -1) ->
    0 <= getZ (fst (fst (mj_sleep_part ta can nefc nisland ti))) t.
Proof. exact mj_sleep_part_live. Qed.
Print Assumptions C18_sleep_island_live.

(* ---- every history of mj_sleep / mj_wakeIsland calls whose arguments are well formed keeps the
   invariant *)
Theorem C18_history_inv : forall ops ta, Inv ta -> ops_ok ops ta ->
  Inv (run ops ta) /\ lenZ (run ops ta) = lenZ ta.
Proof. exact history_inv. Qed.
Print Assumptions C18_history_inv.

(* ---- countdown: starting with tree i fully awake and awake after each call of `ops`, if the next
   call `o` leaves i asleep then `o` is an mj_sleep call in which i could sleep and it is at least
   the mjMINAWAKE-th consecutive such mj_sleep call (wake calls and early-exit mj_sleep calls in
   between neither count nor reset) *)
Theorem C18_countdown : forall ops o ta0 i, Inv ta0 -> ops_ok (ops ++ [o]) ta0 -> 0 <= i < lenZ ta0 ->
  getZ ta0 i = kAwake -> awake_through ops ta0 i -> 0 <= getZ (run (ops ++ [o]) ta0) i ->
  can_bit o i = Some true /\ mjMINAWAKE <= trailing_can (rev (ops ++ [o])) i.
Proof. exact countdown_thm. Qed.
Print Assumptions C18_countdown.

(* ---- mj_updateSleepInit: tree_awake, ntree_awake, body_awake and the index arrays.
   st b is the sleep state of body b (1 awake, 0 asleep, -1 static); the index arrays are strictly
   increasing and hold exactly: bodies not asleep; dofs of awake moving bodies; non-world bodies
   whose parent is not asleep (parents precede children, as in every compiled model) *)
Theorem C18_indices : forall ta treeid parentid rootid mocapid dofbody ba0 flg,
  length ba0 = length treeid ->
  (forall d, 0 <= d < lenZ dofbody -> 0 <= getZ dofbody d < lenZ treeid) ->
  let st := body_state (tree_awake_of ta) treeid rootid mocapid flg in
  exists ba bind pind dind,
    updateSleepInit ta treeid parentid rootid mocapid dofbody ba0 flg =
      (tree_awake_of ta, lenZ (filter (fun v => v <? 0) ta), ba, bind, pind, dind) /\
    length ba = length treeid /\
    (forall b, 0 <= b < lenZ treeid -> getZ ba b = st b) /\
    StronglySorted Z.lt bind /\
    (forall b, In b bind <-> 0 <= b < lenZ treeid /\ st b <> 0) /\
    StronglySorted Z.lt dind /\
    (forall d, In d dind <-> 0 <= d < lenZ dofbody /\ 0 <= getZ treeid (getZ dofbody d) /\ st (getZ dofbody d) = 1) /\
    ((forall b, 0 < b < lenZ treeid -> 0 <= getZ parentid b < b) ->
       StronglySorted Z.lt pind /\
       (forall b, In b pind <-> 0 < b < lenZ treeid /\ st (getZ parentid b) <> 0)).
Proof. exact updateSleepInit_spec. Qed.
Print Assumptions C18_indices.

Theorem C18_tree_awake : forall ta t, 0 <= t < lenZ ta ->
  getZ (tree_awake_of ta) t = if getZ ta t <? 0 then 1 else 0.
Proof. exact tree_awake_of_get. Qed.
Print Assumptions C18_tree_awake.

(* ---- non-vacuity: a state with a 2-cycle, a 3-cycle and awake trees satisfies Inv; waking tree 4
   wakes exactly {3,4,5}; a ready two-tree island {2,6} is put to sleep as one cycle *)
Example C18_example_wake :
  wakeIsland [1; 0; -1; 4; 5; 3; -1] 7 4 kAwake = ([1; 0; -1; -11; -11; -11; -1], 3, 0).
Proof. vm_compute. reflexivity. Qed.

Example C18_example_sleep :
  mj_sleep_part [1; 0; -2; 4; 5; 3; -1] [true; true; true; true; true; true; true] 4 1 [-1; -1; 0; -1; -1; -1; 0]
  = ([1; 0; 6; 4; 5; 3; 2], 2, 0).
Proof. vm_compute. reflexivity. Qed.

Example C18_example_not_ready :
  mj_sleep_part [1; 0; -3; 4; 5; 3; -1] [true; true; true; true; true; true; true] 4 1 [-1; -1; 0; -1; -1; -1; 0]
  = ([1; 0; -2; 4; 5; 3; -1], 0, 0).
Proof. vm_compute. reflexivity. Qed.

Example C18_example_inv : Inv [1; 0; -1; 4; 5; 3; -1].
Proof. exact example_inv. Qed.
