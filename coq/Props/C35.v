(* C35 — compiled mass properties match the geometry.
   Model: Model/Inertia.v (mjCGeom::GetVolume / SetInertia, the mass arm of mjCGeom::Compile, mjCBody::InertiaFromGeom,
   mjuu_globalinertia, mjuu_offcenter); proofs: Proof/InertiaProof.v, Proof/InertiaIntegrals.v.
   All statements are over the reals (IEEE rounding is outside every theorem). *)
From Coq Require Import ZArith List PrimFloat Reals Lra Bool Permutation.
From Coquelicot Require Import Coquelicot.
From MJV Require Import Lib.Num Lib.NumR Model.Spatial Proof.SpatialProof Model.Inertia Proof.InertiaProof Proof.InertiaIntegrals Model.Orient Proof.OrientProof.
Import ListNotations.
Open Scope R_scope.

(* ---- analytic values: box (full statements: the formulas ARE the integrals) *)
(* solid box of density rho: volume = triple integral of 1, principal moments = rho * triple integrals of y^2+z^2, x^2+z^2, x^2+y^2
   over [-a,a] x [-b,b] x [-c,c]  (I3 f a b c = RInt (fun x => RInt (fun y => RInt (fun z => f x y z) (-c) c) (-b) b) (-a) a) *)
Theorem C35_box_integral (rho a b c : R) :
  geomVolume GBox false (a, b, c) = I3 (fun _ _ _ : R => 1) a b c /\
  inertiaBox false (rho * I3 (fun _ _ _ : R => 1) a b c) (a, b, c) =
    (rho * I3 (fun x y z : R => y * y + z * z) a b c,
     rho * I3 (fun x y z : R => x * x + z * z) a b c,
     rho * I3 (fun x y z : R => x * x + y * y) a b c).
Proof. exact (box_solid_integral rho a b c). Qed.
Print Assumptions C35_box_integral.

(* box shell of surface density sigma: area and moments are the double integrals over the six faces *)
Theorem C35_box_shell_integral (sigma a b c : R) : 0 < a -> 0 < b -> 0 < c ->
  geomVolume GBox true (a, b, c) = boxShellArea a b c /\
  inertiaBox true (sigma * boxShellArea a b c) (a, b, c) =
    (sigma * boxShellIxx a b c, sigma * boxShellIyy a b c, sigma * boxShellIzz a b c).
Proof. exact (box_shell_integral sigma a b c). Qed.
Print Assumptions C35_box_shell_integral.

(* ---- analytic values: round solids, PARTIAL.  Proved: the volume and moment formulas equal the one-dimensional
   integrals along the axis of the slice area A(z) and of  Sy + z^2 A,  Sx + z^2 A,  Sx + Sy  (Sx, Sy planar second
   moments of the slice).  Missing: the planar closed forms of a disk / ellipse (diskA, diskS, ellA, ellSx, ellSy) are
   definitions, not derived from double integrals (they need integrals with sqrt bounds). *)
Theorem C35_solid_slices_partial (rho r h a b c s1 s2 : R) : 0 < r -> 0 < h -> c <> 0 ->
  (* sphere of radius r *)
  (let V := RInt (fun u : R => diskA (r * r - u * u)) (- r) r in
   let Ixx := RInt (fun u : R => diskS (r * r - u * u) + u * u * diskA (r * r - u * u)) (- r) r in
   let Izz := RInt (fun u : R => diskS (r * r - u * u) + diskS (r * r - u * u)) (- r) r in
   geomVolume GSphere false (r, s1, s2) = V /\
   inertiaSphere false (rho * V) (r, s1, s2) = (rho * Ixx, rho * Ixx, rho * Izz)) /\
  (* cylinder of radius r, half-height h *)
  (let V := RInt (fun u : R => diskA (r * r)) (- h) h in
   let Ixx := RInt (fun u : R => diskS (r * r) + u * u * diskA (r * r)) (- h) h in
   let Izz := RInt (fun u : R => diskS (r * r) + diskS (r * r)) (- h) h in
   geomVolume GCylinder false (r, h, s2) = V /\
   inertiaCylinderSolid (rho * V) (r, h, s2) = (rho * Ixx, rho * Ixx, rho * Izz)) /\
  (* ellipsoid with semi-axes a b c *)
  (let V := RInt (fun u : R => ellA a b (1 - u * u / (c * c))) (- c) c in
   let Ixx := RInt (fun u : R => ellSy a b (1 - u * u / (c * c)) + u * u * ellA a b (1 - u * u / (c * c))) (- c) c in
   let Iyy := RInt (fun u : R => ellSx a b (1 - u * u / (c * c)) + u * u * ellA a b (1 - u * u / (c * c))) (- c) c in
   let Izz := RInt (fun u : R => ellSx a b (1 - u * u / (c * c)) + ellSy a b (1 - u * u / (c * c))) (- c) c in
   geomVolume GEllipsoid false (a, b, c) = V /\
   inertiaEllipsoidSolid (rho * V) (a, b, c) = (rho * Ixx, rho * Iyy, rho * Izz)) /\
  (* capsule: cylinder [-h,h] + upper hemisphere (local height u in [0,r], plane at h+u) + lower hemisphere *)
  (let V := RInt (fun u : R => diskA (r * r)) (- h) h + RInt (fun u : R => diskA (r * r - u * u)) 0 r
            + RInt (fun u : R => diskA (r * r - u * u)) (- r) 0 in
   let Ixx := RInt (fun u : R => diskS (r * r) + u * u * diskA (r * r)) (- h) h
              + RInt (fun u : R => diskS (r * r - u * u) + (h + u) * (h + u) * diskA (r * r - u * u)) 0 r
              + RInt (fun u : R => diskS (r * r - u * u) + (u - h) * (u - h) * diskA (r * r - u * u)) (- r) 0 in
   let Izz := RInt (fun u : R => diskS (r * r) + diskS (r * r)) (- h) h
              + RInt (fun u : R => diskS (r * r - u * u) + diskS (r * r - u * u)) 0 r
              + RInt (fun u : R => diskS (r * r - u * u) + diskS (r * r - u * u)) (- r) 0 in
   geomVolume GCapsule false (r, h, s2) = V /\
   inertiaCapsuleSolid (rho * V) (r, h, s2) = (rho * Ixx, rho * Ixx, rho * Izz)).
Proof.
  intros Hr Hh Hc. split; [exact (sphere_solid_slices rho r s1 s2)|].
  split; [exact (cylinder_solid_slices rho r h s2)|].
  split; [exact (ellipsoid_solid_slices rho a b c Hc) | exact (capsule_solid_slices rho r h s2 Hr Hh)].
Qed.
Print Assumptions C35_solid_slices_partial.

(* ---- analytic values: round shells, PARTIAL.  Proved: area and moments equal the integrals along the axis of bands
   (area per unit height 2 pi r: Archimedes' hat-box for the sphere, exact for the cylinder) plus the two end disks of the
   cylinder.  Missing: the band closed forms bandA/bandS and the disk forms are definitions.  The ELLIPSOID shell is not an
   analytic shell in the code (Thomsen's area approximation, offset layer of thickness 1e-6): it has no theorem of this kind. *)
Theorem C35_shell_bands_partial (sigma r h s1 s2 : R) : 0 < r -> 0 < h ->
  (let A := RInt (fun u : R => bandA r) (- r) r in
   let Ixx := RInt (fun u : R => bandS r (r * r - u * u) + u * u * bandA r) (- r) r in
   let Izz := RInt (fun u : R => bandS r (r * r - u * u) + bandS r (r * r - u * u)) (- r) r in
   geomVolume GSphere true (r, s1, s2) = A /\
   inertiaSphere true (sigma * A) (r, s1, s2) = (sigma * Ixx, sigma * Ixx, sigma * Izz)) /\
  (let A := RInt (fun u : R => bandA r) (- h) h + 2 * diskA (r * r) in
   let Ixx := RInt (fun u : R => bandS r (r * r) + u * u * bandA r) (- h) h + 2 * (diskS (r * r) + h * h * diskA (r * r)) in
   let Izz := RInt (fun u : R => bandS r (r * r) + bandS r (r * r)) (- h) h + 2 * (diskS (r * r) + diskS (r * r)) in
   geomVolume GCylinder true (r, h, s2) = A /\
   inertiaCylinderShell PI (sigma * A) (r, h, s2) = (sigma * Ixx, sigma * Ixx, sigma * Izz)) /\
  (let A := RInt (fun u : R => bandA r) (- h) h + RInt (fun u : R => bandA r) 0 r + RInt (fun u : R => bandA r) (- r) 0 in
   let Ixx := RInt (fun u : R => bandS r (r * r) + u * u * bandA r) (- h) h
              + RInt (fun u : R => bandS r (r * r - u * u) + (h + u) * (h + u) * bandA r) 0 r
              + RInt (fun u : R => bandS r (r * r - u * u) + (u - h) * (u - h) * bandA r) (- r) 0 in
   let Izz := RInt (fun u : R => bandS r (r * r) + bandS r (r * r)) (- h) h
              + RInt (fun u : R => bandS r (r * r - u * u) + bandS r (r * r - u * u)) 0 r
              + RInt (fun u : R => bandS r (r * r - u * u) + bandS r (r * r - u * u)) (- r) 0 in
   geomVolume GCapsule true (r, h, s2) = A /\
   inertiaCapsuleShell PI (sigma * A) (r, h, s2) = (sigma * Ixx, sigma * Ixx, sigma * Izz)).
Proof.
  intros Hr Hh. split; [exact (sphere_shell_bands sigma r s1 s2)|].
  split; [exact (cylinder_shell_bands sigma r h s2 Hr Hh) | exact (capsule_shell_bands sigma r h s2 Hr Hh)].
Qed.
Print Assumptions C35_shell_bands_partial.

(* ---- triangle inequalities: every primitive formula (all five types, solid and shell, the ellipsoid shell included),
   for every non-negative mass and every valid size, gives non-negative principal moments with A + B >= C *)
Theorem C35_triangle (ty : gtype) (shell : bool) (m : R) (size : vec3 R) :
  0 <= m -> sizeOK ty size -> triangle (geomInertia ty shell m size).
Proof. exact (geomInertia_triangle ty shell m size). Qed.
Print Assumptions C35_triangle.

(* ---- the two tensor helpers are the matrices they should be *)
Theorem C35_globalinertia_matrix (l : vec3 R) (q : quat R) :
  mat6 (globalinertia l q) = mulMatMat3 (mulMatMat3 (quat2Mat q) (diag3 l)) (transpose3 (quat2Mat q)).
Proof. exact (globalinertia_matrix l q). Qed.
Print Assumptions C35_globalinertia_matrix.

Theorem C35_offcenter (m : R) (d v : vec3 R) :
  offcenter m d = (let '(x, y, z) := d in
    (m * (y * y + z * z), m * (x * x + z * z), m * (x * x + y * y), - (m * x * y), - (m * x * z), - (m * y * z))) /\
  qf (offcenter m d) v = m * (dot3 d d * dot3 v v - dot3 d v * dot3 d v).
Proof. split; [exact (offcenter_R m d) | exact (offcenter_qf m d v)]. Qed.
Print Assumptions C35_offcenter.

(* ---- parallel-axis accumulation (InertiaFromGeom, multi-geom arm) over any list of compiled geoms with non-zero total mass:
   the loops compute the explicit sums; about c = (sum m p)/M the first moment vanishes (c is the centre of mass) and the
   accumulated tensor is [sum over geoms of (R D R^T + point-mass term about the body origin)] minus the point-mass term of
   the total mass at c (Steiner); applied to a single geom the formula returns that geom (consistency with the copy arm) *)
Theorem C35_parallel_axis (l : list (cgeom R)) : sumM l <> 0 ->
  let M := sumM l in
  let c := scl3 (sumMP l) (/ M) in
  accMass l = M /\ accCom l = sumMP l /\
  accInertia c l = sum6 (map (tensorAbout c) l) /\
  sub3 (sumMP l) (scl3 c M) = (0, 0, 0) /\
  accInertia c l = sub6 (sum6 (map (tensorAbout (0, 0, 0)) l)) (offcenter M c).
Proof.
  intros NZ M c. split; [apply accMass_sum|]. split; [apply accCom_sum|]. split; [apply accInertia_sum|].
  split; [exact (first_moment_zero l NZ)|]. rewrite accInertia_sum. exact (steiner l NZ).
Qed.
Print Assumptions C35_parallel_axis.

Theorem C35_single_consistent (m : R) (p : vec3 R) (q : quat R) (i : vec3 R) : m <> 0 ->
  let l := [(m, p, q, i)] in
  accMass l = m /\ scl3 (accCom l) (/ accMass l) = p /\ accInertia p l = globalinertia i q.
Proof. exact (single_consistent m p q i). Qed.
Print Assumptions C35_single_consistent.

(* ---- order independence: the inferred mass properties do not depend on the order of the geoms of the body *)
Theorem C35_order (glo ghi : Z) (geoms geoms' : list (geom R)) :
  Permutation geoms geoms' -> bodyInertial glo ghi geoms = bodyInertial glo ghi geoms'.
Proof. exact (bodyInertial_perm glo ghi geoms geoms'). Qed.
Print Assumptions C35_order.

(* ---- stored principal axes.  mjuu_eig3 is abstract; its contract (unit quaternion q and diagonal lam with
   R(q) diag(lam) R(q)^T = J EXACTLY) is a premise.  The real routine meets it only up to its stopping tolerance
   (angle < ~1.4e-6 rad; absolute off-diagonal threshold 1e-12): see META of harness/props/c35.py. *)
Theorem C35_reconstruct (eig3 : sym6 R -> quat R * vec3 R) (i : inertial R) :
  eig3_contract eig3 ->
  let '(q, d) := stored eig3 i in
  globalinertia d q = inertialFull i /\
  mulMatMat3 (mulMatMat3 (quat2Mat q) (diag3 d)) (transpose3 (quat2Mat q)) = mat6 (inertialFull i).
Proof.
  intros HC. pose proof (stored_reconstructs eig3 HC i) as HA. pose proof (stored_reconstructs_matrix eig3 HC i) as HB.
  destruct (stored eig3 i) as [q d]. split; assumption.
Qed.
Print Assumptions C35_reconstruct.

(* compiled inertias satisfy the triangle inequality: for every body whose geoms have valid sizes, the stored diagonal inertia
   is non-negative with A + B >= C (under the eig3 contract), and so is ANY diagonal that reconstructs the tensor with a unit
   quaternion (pointwise form, no global eig3) *)
Theorem C35_triangle_body (eig3 : sym6 R -> quat R * vec3 R) (glo ghi : Z) (geoms : list (geom R)) (i : inertial R) :
  eig3_contract eig3 ->
  List.Forall (fun g => sizeOK (g_type g) (g_size g)) geoms ->
  bodyInertial glo ghi geoms = Some (Some i) -> triangle (snd (stored eig3 i)).
Proof. intros HC. exact (body_triangle eig3 HC glo ghi geoms i). Qed.
Print Assumptions C35_triangle_body.

Theorem C35_triangle_body_pointwise (glo ghi : Z) (geoms : list (geom R)) (i : inertial R) (q : quat R) (lam : vec3 R) :
  List.Forall (fun g => sizeOK (g_type g) (g_size g)) geoms ->
  bodyInertial glo ghi geoms = Some (Some i) ->
  unitq q -> globalinertia lam q = inertialFull i -> triangle lam.
Proof. exact (body_triangle_pt glo ghi geoms i q lam). Qed.
Print Assumptions C35_triangle_body_pointwise.

(* ---- fusing a static child body into its parent (mjCBody::AccumulateInertia: fusestatic, mjs_bodyToFrame).  For a child whose
   frame in the parent is (pos, quat) with unit quaternions, the routine returns the two-entry parallel-axis accumulation (the one of
   C35_parallel_axis) of the parent's inertial and of the child's inertial TRANSPORTED into the parent frame: position
   pos + R(quat) ipos and orientation quat * iquat; and that composed orientation is exactly what rotates the child's tensor by the
   child's body rotation:  R(quat*iquat) D R(quat*iquat)^T = R(quat) (R(iquat) D R(iquat)^T) R(quat)^T *)
Theorem C35_fuse (res : cgeom R) (opose : pose R) (m2 : R) (ip2 : vec3 R) (iq2 : quat R) (in2 : vec3 R) :
  unitp opose -> unitq iq2 ->
  let child := (m2, add3 (fst opose) (mulMatVec3 (quat2Mat (snd opose)) ip2), mulQuat (snd opose) iq2, in2) in
  let l := [res; child] in
  mjMINVAL <= accMass l ->
  accumulateInertia res opose (m2, ip2, iq2, in2) =
    IFull (accMass l) (scl3 (accCom l) (/ accMass l)) (accInertia (scl3 (accCom l) (/ accMass l)) l) /\
  mat6 (globalinertia in2 (mulQuat (snd opose) iq2)) =
    mulMatMat3 (mulMatMat3 (quat2Mat (snd opose)) (mat6 (globalinertia in2 iq2))) (transpose3 (quat2Mat (snd opose))).
Proof.
  intros Uo Ui child l B. split; [exact (accumulateInertia_spec res opose m2 ip2 iq2 in2 Uo Ui B) | apply globalinertia_compose].
Qed.
Print Assumptions C35_fuse.

(* the premises are satisfiable: two unit point-like spheres on the x axis; the identity quaternion diagonalises the tensor *)
Example C35_example :
  let l : list (cgeom R) := [(1, (1, 0, 0), (1, 0, 0, 0), (1, 1, 1)); (1, (-1, 0, 0), (1, 0, 0, 0), (1, 1, 1))] in
  sumM l = 2 /\ scl3 (sumMP l) (/ sumM l) = (0, 0, 0) /\
  unitq (1, 0, 0, 0) /\ globalinertia (2, 4, 4) (1, 0, 0, 0) = accInertia (0, 0, 0) l.
Proof.
  cbv zeta. split; [simpl; lra|]. split; [simpl; unfold add3, scl3; num_R; apply vec_ext; field|].
  split; [unfold unitq, qnorm2; lra|].
  rewrite accInertia_sum. simpl. unfold tensorAbout, cg_inertia, cg_quat, cg_mass, cg_pos, globalinertia.
  rewrite quat2Mat_is_reg. unfold quat2Mat_reg, offcenter, sub3, add6, zero6. iR. apply sym_ext; ring.
Qed.
