(* C08 — Conservative systems conserve energy and momentum.
   Only statements, each closed by a lemma of Proof/EnergyProof.v (or by a theorem of Props/C05.v), followed by
   Print Assumptions.  All statements are about Model/Energy.v instantiated at the real numbers; IEEE rounding
   is outside.  What is NOT a theorem (oracle on the implementation only): that the engine's total energy drifts
   as h^4 under RK4 on conservative models, and momentum conservation of free-floating systems. *)
From Coq Require Import ZArith List Bool Reals QArith Lra.
From Coquelicot Require Import Coquelicot.
From MJV Require Import Lib.Num Lib.NumR Model.Spatial Proof.SpatialProof Model.Kinematics Model.Energy Proof.EnergyProof.
From MJV Require Model.Integrate Gen.RK4Tableau Props.C05.
Open Scope R_scope.

(* ---- the reported kinetic energy.  mj_energyVel computes 0.5 * dot(mj_mulM(qvel), qvel) with mj_mulM =
   mju_mulSymVecSparse on the representation the engine uses for M: per dof i one CSR row holding the strictly
   lower entries (column j < i, value) and the diagonal.  For every size, every such lower-triangular structure
   (wfRows: stored columns of row i are < i; any number, order and repetition of entries) and every velocity:
   energy[1] = 1/2 * sum_i sum_j v_i M_ij v_j  (vMv) where M (Mdense) is the symmetric dense matrix whose diagonal
   and lower triangle are the stored entries (repeated column indices summed) and whose upper triangle is the
   mirror image; equivalently 1/2 * sum_i ( M_ii v_i^2 + 2 * sum_{(j, val) in row i} val v_j v_i ) (qform).
   Proved through the in-place update loop of mju_mulSymVecSparse (res[i] assigned, then res[i] and res[j]
   incremented), which is only correct because every stored column is smaller than its row. *)
Theorem C08_kinetic :
  forall (rows : list (mrow R)) (v : list R),
    length v = length rows -> wfRows 0 rows ->
    energyVel rows v = / 2 * vMv rows v /\
    energyVel rows v = / 2 * qform v 0 rows /\
    (forall i j : nat, Mdense rows i j = Mdense rows j i).
Proof. exact kinetic_full. Qed.
Print Assumptions C08_kinetic.

(* ---- slide / hinge joint springs with polynomial stiffness of ANY number of terms (mjNPOLY = 2 in the source):
   the entry written into qfrc_spring is minus the derivative of the reported spring potential with respect to
   qpos (Coquelicot is_derive) *)
Theorem C08_spring_gradient :
  forall (k : R) (poly : list R) (qs q : R),
    is_derive (fun t : R => springPot1 k poly t qs) q (- springForce1 k poly q qs).
Proof. exact spring1_gradient. Qed.
Print Assumptions C08_spring_gradient.

(* ---- tendon springs with dead band [lower, upper]: outside the band the spring force is minus the derivative of
   the reported potential with respect to the tendon length (inside the band both vanish) *)
Theorem C08_tendon_spring_gradient :
  forall (k : R) (poly : list R) (lo up len : R),
    lo <= up -> len < lo \/ up < len ->
    is_derive (fun t : R => tendonPot k poly t lo up) len (- tendonForce k poly len lo up).
Proof. exact tendon_gradient. Qed.
Print Assumptions C08_tendon_spring_gradient.

(* ---- ball joints (and the rotational part of free joints).  Partial: radial direction only.
   For qpos = qpos_spring * rot(a, t) with unit qpos_spring, unit axis a, 0 < t <= pi and no mjMINVAL guard firing:
   the reported potential equals polyPotential(t), the spring torque equals -(t polyForce(t)) a (in the body
   frame, the coordinates of qvel), and t polyForce(t) is the derivative of polyPotential at t.
   Missing: the derivative is taken of the closed form polyPotential(t), which is shown equal to the reported
   potential pointwise on this domain, not as a function on a neighbourhood; perturbations that change the
   rotation axis (tangential directions) are not covered; they are covered by the finite-difference oracle. *)
Theorem C08_spring_gradient_ball_partial :
  forall (k : R) (poly : list R) (qs : quat R) (a : vec3 R) (t : R),
    unitq qs -> unitv a -> 0 < t <= PI -> mjMINVAL <= sin (t * / 2) ->
    springPotBall k poly (mulQuat qs (axisAngle2Quat a t)) qs = polyPotential k poly t false /\
    springForceBall k poly (mulQuat qs (axisAngle2Quat a t)) qs = scl3 a (- (t * polyForce k poly t false)) /\
    is_derive (fun s : R => polyPotential k poly s false) t (t * polyForce k poly t false).
Proof. exact ball_radial. Qed.
Print Assumptions C08_spring_gradient_ball_partial.

(* ---- gravity: the reported potential is - sum_i m_i (gravity . xipos_i); translating the inertial frame origin
   of one body along u changes it at the rate - m (gravity . u): the force on the body is m * gravity *)
Theorem C08_gravity_gradient :
  forall (g u : vec3 R) (pre post : list (R * vec3 R)) (m : R) (x : vec3 R) (t0 : R),
    is_derive (fun t : R => energyPos true g (pre ++ (m, add3 x (scl3 u t)) :: post) false nil nil) t0
              (- (m * dot3 g u)).
Proof. exact gravity_gradient. Qed.
Print Assumptions C08_gravity_gradient.

(* ---- RK4: the SCHEME is of order 4.  Inherited from C05 (not re-proved): the tableau regenerated from RK4_A /
   RK4_B of engine_forward.c satisfies the eight order conditions and is the classical one.  That the engine's
   energy drift scales as h^4 on every conservative model is NOT a theorem: it is checked by the oracle. *)
Theorem C08_rk4_scheme_order :
  Integrate.rk4_order_ok RK4Tableau.RK4_A RK4Tableau.RK4_B = true /\
  Integrate.qlist_eqb (Integrate.rk4_lower RK4Tableau.RK4_A) Integrate.classical_lower = true /\
  Integrate.qlist_eqb RK4Tableau.RK4_B Integrate.classical_B = true /\
  length RK4Tableau.RK4_A = 9%nat /\ length RK4Tableau.RK4_B = 4%nat.
Proof. exact C05.C05_rk4_tableau. Qed.
Print Assumptions C08_rk4_scheme_order.

(* ---- the hypotheses are satisfiable *)
Example C08_kinetic_example :
  let rows : list (mrow R) := ((nil, 2) :: (((0%nat, 1) :: nil), 3) :: (((0%nat, -1) :: (1%nat, / 2) :: nil), 4) :: nil) in
  wfRows 0 rows /\ energyVel rows (1 :: 2 :: 3 :: nil) = 27.
Proof. exact kinetic_example. Qed.

Example C08_ball_radial_example : 0 < PI <= PI /\ mjMINVAL <= sin (PI * / 2) /\ unitq (0, 1, 0, 0) /\ unitv (0, 0, 1).
Proof. exact ball_radial_example. Qed.
