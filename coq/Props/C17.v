(* C17 — Constraint islands are the connected components of coupling.
   Only statements, each closed by a lemma of Proof/Island*Proof.v, followed by Print Assumptions.
   Vocabulary (wf, Root, nroots, admissible, active, conn, least, the count_ functions) is in Model/IslandSpec.v
   and Proof/IslandProof.v (least); the modelled code is in Model/Island.v. *)
From Coq Require Import List ZArith Bool Lia.
From MJV Require Import Model.Island Model.IslandSpec Proof.IslandProof Proof.IslandMapsProof Proof.IslandFloodProof.
Import ListNotations.
Open Scope Z_scope.

(* mj_dsuRoot on a well-formed parent array (parent[t] = -1 or 0 <= parent[t] <= t with an active
   parent) and an active tree: terminates within the fuel (no None), returns the canonical root,
   which is <= the tree and a fixed point of parent[], and path compression changes neither
   well-formedness, nor which trees are active, nor the root of any tree. *)
Theorem C17_dsu_root :
  forall p t, wf p -> 0 <= t < len p -> get p t <> -1 ->
    exists p' r, dsuRoot p t = Some (p', r) /\ Root p t r /\ 0 <= r <= t /\ get p r = r /\
      wf p' /\ len p' = len p /\
      (forall x s, Root p x s <-> Root p' x s) /\ (forall x, get p' x = -1 <-> get p x = -1).
Proof. exact dsu_root_full. Qed.
Print Assumptions C17_dsu_root.

(* the union phase, for every number of trees and every sequence of admissible mj_dsuMerge calls
   (endpoints in [-1, ntree), not both static) starting from parent = {-1}: no call fails, the
   parent array stays well-formed, a tree is active iff it was an endpoint of some merge, two active
   trees have the same root iff they are connected through the merges, and the root of a tree is
   the least tree of its connectivity class. *)
Theorem C17_components :
  forall (n : nat) (ms : list (Z * Z)), Forall (admissible (Z.of_nat n)) ms ->
    exists p, merges (dsu_init n) ms = Some p /\ wf p /\ len p = Z.of_nat n /\
      (forall t, 0 <= t < Z.of_nat n -> (get p t <> -1 <-> active ms t)) /\
      (forall t, active ms t -> exists r, Root p t r) /\
      (forall a b ra rb, Root p a ra -> Root p b rb -> (ra = rb <-> conn ms a b)) /\
      (forall a r, Root p a r -> conn ms a r /\ forall b, conn ms a b -> r <= b).
Proof. exact merges_components. Qed.
Print Assumptions C17_components.

(* mj_dsuAssign on any well-formed parent array: never reads an unwritten island entry (no None),
   inactive trees get -1, an active tree with root r gets the number of roots below r (so ids are
   0, 1, 2, ... in ascending order of the roots), every active tree ends fully compressed,
   nisland = number of roots, nidof = sum of tree_dofnum over active trees. *)
Theorem C17_assign :
  forall p0 dofnum, wf p0 ->
    exists isl p',
      dsuAssign p0 dofnum = Some (isl, p', nroots p0 (length p0), active_dofs p0 dofnum (length p0)) /\
      len isl = len p0 /\ len p' = len p0 /\
      (forall x, 0 <= x < len p0 -> get p0 x = -1 -> get p' x = -1 /\ get isl x = -1) /\
      (forall x r, Root p0 x r -> get p' x = r /\ get isl x = nroots p0 (Z.to_nat r)).
Proof. exact dsuAssign_spec. Qed.
Print Assumptions C17_assign.

(* union phase followed by mj_dsuAssign: tree_island is -1 exactly on trees that no merge touched;
   otherwise it lies in [0, nisland), two active trees get the same id iff they are connected, ids
   increase with the least tree of the class, every id below nisland is used, and nidof sums the
   dofs of the active trees. *)
Theorem C17_islands :
  forall (n : nat) (ms : list (Z * Z)) (dofnum : list Z), Forall (admissible (Z.of_nat n)) ms ->
    exists p isl p' nisland nidof,
      merges (dsu_init n) ms = Some p /\ dsuAssign p dofnum = Some (isl, p', nisland, nidof) /\
      len isl = Z.of_nat n /\
      (forall t, 0 <= t < Z.of_nat n -> (get p t <> -1 <-> active ms t)) /\
      (forall t, 0 <= t < Z.of_nat n -> ~ active ms t -> get isl t = -1) /\
      (forall t, active ms t -> 0 <= get isl t < nisland) /\
      (forall a b, active ms a -> active ms b -> (get isl a = get isl b <-> conn ms a b)) /\
      (forall a b ma mb, least ms a ma -> least ms b mb -> ma < mb -> get isl a < get isl b) /\
      (forall j, 0 <= j < nisland -> exists t, active ms t /\ get isl t = j) /\
      nidof = active_dofs p dofnum n.
Proof. exact islands_spec. Qed.
Print Assumptions C17_islands.

(* unionConstraintTrees over per-row tree lists (one dynamic tree; two trees one of which may be the
   static -1; or any number of dynamic trees), followed by mj_dsuAssign: no step fails, efc_tree of
   every row is a dynamic tree whose island id is >= 0, and every dynamic tree of the row is in that
   same island -- each constraint row belongs to the island of its trees. *)
Theorem C17_rows :
  forall (n : nat) (rows : list (list Z)) (dofnum : list Z), Forall (row_ok (Z.of_nat n)) rows ->
    exists p isl p' nisland nidof,
      merges (dsu_init n) (concat (map row_merges rows)) = Some p /\
      dsuAssign p dofnum = Some (isl, p', nisland, nidof) /\
      forall ts, In ts rows ->
        0 <= row_tree ts < Z.of_nat n /\ 0 <= get isl (row_tree ts) < nisland /\
        forall t, In t ts -> 0 <= t -> get isl t = get isl (row_tree ts).
Proof. exact rows_islands. Qed.
Print Assumptions C17_rows.

(* the construction used three times by mj_island (trees, dofs, constraint rows): per-island counts,
   address array, and the pair of index maps.  For keys in [-1, nisland) and base = number of items
   in some island (or no item outside an island): counts are the class sizes, addresses are their
   prefix sums, the second counting pass reproduces the counts (the SHOULD-NOT-OCCUR checks cannot
   fire), the two maps are mutually inverse permutations, items of island k fill
   adr[k] .. adr[k]+cnt[k]-1 in their original order and items of no island come last. *)
Theorem C17_maps :
  forall (nisland : nat) (key : list Z) (base : Z),
    Forall (fun x => -1 <= x < Z.of_nat nisland) key ->
    base = count_nonneg key \/ Forall (fun x => 0 <= x) key ->
    let cnt := counts nisland key in
    let adr := scan 0 cnt in
    let '(cnt2, fwd, inv) := csort nisland base adr key in
    len cnt = Z.of_nat nisland /\ len adr = Z.of_nat nisland /\
    (forall k, 0 <= k < Z.of_nat nisland ->
       get cnt k = count_eq key k (length key) /\ get adr k = count_below key k /\ get cnt2 k = get cnt k) /\
    ((0 < nisland)%nat -> lastsum adr cnt = count_nonneg key) /\
    len fwd = len key /\ len inv = len key /\
    (forall i, 0 <= i < len key -> 0 <= get fwd i < len key /\ get inv (get fwd i) = i) /\
    (forall j, 0 <= j < len key -> 0 <= get inv j < len key /\ get fwd (get inv j) = j) /\
    (forall i, 0 <= i < len key ->
       get fwd i = (if 0 <=? get key i then get adr (get key i) else count_nonneg key) +
                   count_eq key (get key i) (Z.to_nat i)) /\
    (forall i, 0 <= i < len key -> 0 <= get key i ->
       get adr (get key i) <= get fwd i < get adr (get key i) + get cnt (get key i)) /\
    (forall i, 0 <= i < len key -> (0 <= get key i <-> get fwd i < count_nonneg key)).
Proof. exact pipeline_spec. Qed.
Print Assumptions C17_maps.

(* mj_floodFill on any compressed-row graph with nr vertices whose columns are vertices and whose
   adjacency is symmetric (duplicates, self loops, any column order allowed): the traversal finishes
   within the model's fuel (no None), a vertex gets -1 iff its row is empty, labels lie in
   [0, nisland), two labelled vertices share a label iff one is reachable from the other, every
   label below nisland is used, and labels are numbered by first vertex (a vertex with label c is
   preceded by vertices of every smaller label). *)
Theorem C17_floodfill :
  forall (k : nat) (rownnz rowadr colind : list Z),
    graph_ok (Z.of_nat k) rownnz rowadr colind ->
    exists isl n,
      floodFill k rownnz rowadr colind = Some (isl, n) /\
      len isl = Z.of_nat k /\
      (forall v, 0 <= v < Z.of_nat k -> (get isl v = -1 <-> get rownnz v = 0)) /\
      (forall v, 0 <= v < Z.of_nat k -> get isl v <> -1 -> 0 <= get isl v < n) /\
      (forall u v, 0 <= u < Z.of_nat k -> 0 <= v < Z.of_nat k -> get isl u <> -1 -> get isl v <> -1 ->
         (get isl u = get isl v <-> reach rownnz rowadr colind u v)) /\
      (forall c, 0 <= c < n -> exists u, 0 <= u < Z.of_nat k /\ get isl u = c) /\
      (forall v c, 0 <= v < Z.of_nat k -> get isl v = c -> 0 <= c ->
         forall c', 0 <= c' < c -> exists u, 0 <= u < v /\ get isl u = c').
Proof. exact (fun k rn ra ci G => floodFill_total (Z.of_nat k) rn ra ci G k eq_refl). Qed.
Print Assumptions C17_floodfill.

(* non-vacuity: a 7-tree forest; trees 1,3,5,6 end in one island, 2 and 4 alone, 0 untouched *)
Example C17_example_merge :
  merges (dsu_init 7) [(5, 6); (2, -1); (6, 1); (-1, 3); (4, 4); (3, 1)] = Some [-1; 1; 2; 1; 4; 1; 5].
Proof. vm_compute. reflexivity. Qed.

Example C17_example_assign :
  dsuAssign [-1; 1; 2; 1; 4; 1; 5] [6; 1; 2; 3; 1; 6; 6] = Some ([-1; 0; 1; 0; 2; 0; 0], [-1; 1; 2; 1; 4; 1; 1], 3, 19).
Proof. vm_compute. reflexivity. Qed.

Example C17_example_wf : wf [-1; 1; 2; 1; 4; 1; 5].
Proof.
  intros t Ht. unfold len in Ht. simpl in Ht.
  assert (t = 0 \/ t = 1 \/ t = 2 \/ t = 3 \/ t = 4 \/ t = 5 \/ t = 6) as [->|[->|[->|[->|[->|[->| ->]]]]]] by (clear -Ht; lia);
    vm_compute; intuition congruence.
Qed.

Example C17_example_maps :
  csort 2 3 [0; 1] [1; -1; 0; 1; -1] = ([1; 2; 2], [1; 3; 0; 2; 4], [2; 0; 3; 1; 4])
  /\ counts 2 [1; -1; 0; 1; -1] = [1; 2] /\ scan 0 [1; 2] = [0; 1].
Proof. vm_compute. repeat split; reflexivity. Qed.

Example C17_example_flood :
  floodFill 5 [1; 2; 0; 2; 1] [0; 1; 3; 3; 5] [3; 4; 3; 0; 1; 1] = Some ([0; 0; -1; 0; 0], 1)
  /\ floodFill 4 [1; 0; 1; 1] [0; 1; 1; 2] [0; 3; 2] = Some ([0; -1; 1; 1], 2).
Proof. vm_compute. split; reflexivity. Qed.
