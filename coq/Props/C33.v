(* C33 -- Compilation is deterministic and copy-invariant.
   Only statements, each closed by a lemma of Proof/UserPoolProof.v (or of C31's Proof/MJBProof.v),
   followed by Print Assumptions.

   Model (Model/UserPool.v): the mutex/condition-variable work queue of src/user/user_threadpool.cc,
   sequentially consistent, every critical section under m_ is one step, a condition-variable wait is
   a guard.  Task ids are the indices of the Schedule calls.  [reachable n] = states reachable from
   the freshly constructed pool with n workers by any sequence of events (any interleaving of the main
   thread's Schedule / WaitCount / destructor with the workers' take / begin / end / count steps, any
   number of workers, any number of batches).

   NOT covered: lost wake-ups of notify_one (wait is a guard in the model; searched by the
   deadlock watchdog of the controlled-scheduler run), weak memory, exceptions thrown by tasks,
   determinism of the sequential compiler code itself. *)
From Coq Require Import List ZArith Bool Arith Permutation.
From MJV Require Import Model.Island Model.ParMap Proof.ParMapProof Model.UserPool Proof.UserPoolProof.
From MJV Require Model.MJB Proof.MJBProof.
Import ListNotations.
Open Scope Z_scope.

(* every scheduled task is entered at most once, only scheduled ids are entered, what has been left
   has been entered, nothing is left twice -- at every moment of every interleaving *)
Theorem C33_pool_once :
  forall (n : nat) (s : st), reachable n s ->
    NoDup (started s) /\ (forall t : Z, In t (started s) -> 0 <= t < nsched s) /\ incl (finished s) (started s) /\
    NoDup (finished s).
Proof. exact pool_once. Qed.
Print Assumptions C33_pool_once.

(* WaitCount(v) can return only when at least v tasks have been left; when v is the number of tasks
   scheduled so far (how user_model.cc calls it) the tasks left are exactly 0..v-1, each once, the
   queue holds no task and no worker holds or runs one *)
Theorem C33_wait_after_all :
  forall (n : nat) (s s' : st) (v : Z), reachable n s -> step s (EWaitRet v) = Some s' ->
    v <= Z.of_nat (length (finished s)) /\
    (v = nsched s ->
       Permutation (finished s) (zseq (Z.to_nat (nsched s))) /\ qtasks (queue s) = [] /\
       flat_map took1 (ws s) = [] /\ flat_map run1 (ws s) = [] /\ Permutation (started s) (finished s)).
Proof. exact wait_after_all. Qed.
Print Assumptions C33_wait_after_all.

(* no deadlock before the destructor: with at least one worker, while fewer completions have been
   counted than tasks scheduled some worker step is enabled (so WaitCount(nsched) eventually returns
   under any scheduler that lets enabled workers run) *)
Theorem C33_worker_progress :
  forall (n : nat) (s : st), reachable n s -> (1 <= n)%nat -> destroyed s = false -> ctr s < nsched s ->
    exists (e : ev) (s' : st), step s e = Some s' /\
      (exists k : nat, e = ETake k \/ (exists t : Z, e = EBegin k t \/ e = EEnd k t) \/ e = ECount k).
Proof. exact worker_progress. Qed.
Print Assumptions C33_worker_progress.

(* link to trace validation: an implementation log accepted by [run] is a path of the model *)
Theorem C33_accepted_logs_are_paths :
  forall (n : nat) (l : list ev) (s s' : st), reachable n s -> run s l = Some s' -> reachable n s'.
Proof. exact run_reachable. Qed.
Print Assumptions C33_accepted_logs_are_paths.

(* the compiled assets do not depend on the schedule of the pool, nor on the pool being enabled:
   instance of C02_schedule_independent for tasks that write only their own asset (location (a, f) =
   field f of asset a) and read only their own asset and data no task writes; the result equals the
   serial loop of CompileMeshesAndTextures at every location *)
Theorem C33_schedule_independent :
  forall (V : Type) (nasset : nat) (tasks : nat -> nat -> prog V) (m0 : mem V),
    (forall i t : nat, (i < nasset)%nat -> respects (asset_own nasset) i t (tasks i t)) ->
    scratch_clean (asset_own nasset) nasset tasks ->
    forall c : cfg V, steps tasks (init_cfg nasset m0) c -> final_cfg c ->
      forall l : loc, cmem c l = seq_run tasks nasset m0 l.
Proof. exact assets_schedule_independent. Qed.
Print Assumptions C33_schedule_independent.

(* mj_copyModel seen as load(save(m)) (C31's codec model, for every well-formed layout table): the
   copy is the source model -- every size, struct block and array entry -- and saves to the same bytes.
   mj_copyModel itself (struct assignment + one memcpy per MJMODEL_POINTERS entry) is tied to this by
   the oracle: save(copy) = save(src) = save(load(save(src))) on every case. *)
Theorem C33_copyModel :
  forall (L : MJB.layout) (m : MJB.model), MJB.wf_layout L = true -> MJB.wf_modelb L m = true ->
    exists m' : MJB.model, MJB.decode L (MJB.encode L m) = MJB.Ok m' /\ m' = m /\ MJB.encode L m' = MJB.encode L m.
Proof. intros L m HL Hm. exists m. split; [apply MJBProof.decode_encode; assumption | split; reflexivity]. Qed.
Print Assumptions C33_copyModel.

(* non-vacuity: an implementation log (2 workers, 3 tasks, WaitCount(3), destructor; scheduler seed 7)
   is accepted; in its prefix two workers are inside tasks at once; WaitCount returns with all three left *)
Definition C33_example_log : list ev :=
  [ESchedule; ETake 0; ESchedule; ETake 1; EBegin 0 0; EEnd 0 0; ESchedule; EBegin 1 1; EEnd 1 1; ECount 1; ETake 1;
   EBegin 1 2; EEnd 1 2; ECount 0; ECount 1; EWaitRet 3; EDestroy; ETake 0; ETake 1; ECount 1; ECount 0; EJoin 0; EJoin 1].

Example C33_example_accepted : accepts 2 C33_example_log = true.
Proof. vm_compute. reflexivity. Qed.

Example C33_example_wait_state :
  exists s s' : st, run (init 2) (firstn 15 C33_example_log) = Some s /\ step s (EWaitRet 3) = Some s' /\
                    finished s = [2; 1; 0] /\ ctr s = 3 /\ nsched s = 3.
Proof. eexists. eexists. vm_compute. repeat split. Qed.

Example C33_example_two_running :
  exists s : st, run (init 3) [ESchedule; ESchedule; ETake 2; ETake 0; EBegin 0 1; EBegin 2 0] = Some s /\
                 ws s = [WRun 1; WWait; WRun 0] /\ started s = [0; 1].
Proof. eexists. vm_compute. repeat split. Qed.

(* hidden per-thread state: an asset task that reads a thread-local generator state before writing it (a
   `static thread_local` pseudo-random generator seeded once per thread and carried from one texture to the next)
   does NOT satisfy the hypothesis [scratch_clean] of C33_schedule_independent: its output depends on the content of
   the thread's scratch ... *)
Theorem C33_thread_local_state_refuted : ~ scratch_clean (site_owner tl_site) 2 tl_task.
Proof. exact tl_task_not_clean. Qed.
Print Assumptions C33_thread_local_state_refuted.

(* ... and indeed the compiled assets then depend on the schedule: with every generator seeded 42, one worker taking
   both textures produces (295, 302), two workers taking one each produce (295, 295) *)
Example C33_thread_local_state_schedules_differ :
  exists c1 c2 : cfg Z,
    acts tl_task (init_cfg 2 (fun _ : loc => 42%Z)) [(0, Some 0); (0, None); (0, None); (0, None); (0, None);
                                                      (0, Some 1); (0, None); (0, None); (0, None); (0, None)]%nat = Some c1 /\
    acts tl_task (init_cfg 2 (fun _ : loc => 42%Z)) [(0, Some 0); (1, Some 1); (0, None); (1, None); (0, None); (1, None);
                                                      (0, None); (1, None); (0, None); (1, None)]%nat = Some c2 /\
    running c1 = [] /\ running c2 = [] /\ pending c1 = [] /\ pending c2 = [] /\
    map (fun e : Z => cmem c1 (1, e)%Z) [0; 1]%Z = [295; 302]%Z /\ map (fun e : Z => cmem c2 (1, e)%Z) [0; 1]%Z = [295; 295]%Z.
Proof. eexists. eexists. vm_compute. repeat split. Qed.

(* mj_recompile's SaveState / RestoreState on one per-object array: when every object k is saved from and restored to
   the [stride] entries at stride*k -- the same multiplier for the offset as for the length -- the array comes back
   unchanged, for every element type, stride (3 for mocap_pos, 4 for mocap_quat, ...) and number of objects ... *)
Theorem C33_save_restore_identity :
  forall (A : Type) (stride n : nat) (l : list A), length l = (stride * n)%nat -> save_restore stride stride n l = l.
Proof. exact save_restore_id. Qed.
Print Assumptions C33_save_restore_identity.

(* ... while one shared offset 3*k used for a stride-4 array returns a different array as soon as there are two
   objects (it is invisible with a single object, and for the stride-3 array) *)
Theorem C33_save_restore_shared_offset_refuted :
  save_restore 3 4 2 [10; 11; 12; 13; 20; 21; 22; 23]%Z <> [10; 11; 12; 13; 20; 21; 22; 23]%Z /\
  save_restore 3 3 2 [10; 11; 12; 20; 21; 22]%Z = [10; 11; 12; 20; 21; 22]%Z /\
  save_restore 3 4 1 [10; 11; 12; 13]%Z = [10; 11; 12; 13]%Z.
Proof. exact save_restore_shared_offset_wrong. Qed.
Print Assumptions C33_save_restore_shared_offset_refuted.

(* mj_copySpec's CopyList skips an element whose references do not resolve in the copy: the copy is complete exactly
   when every element of the source resolves -- so a source element left in a state that only Compile repairs (a wrap
   whose type was switched by a previous compile) makes the copy silently smaller *)
Theorem C33_copy_list_complete :
  forall (A : Type) (resolves : A -> bool) (l : list A),
    (forall x : A, In x l -> resolves x = true) <-> copy_list resolves l = l.
Proof. exact (fun A => @copy_list_complete A). Qed.
Print Assumptions C33_copy_list_complete.

(* mjCFrame::Compile (positions only): with the `compiled` guard tested first, compiling a nested frame twice leaves the
   accumulated pose parent + local, for every parent and local pose ... *)
Theorem C33_frame_compile_idempotent :
  forall parent local pos0 : Z,
    frame_compile false parent local (frame_compile false parent local (false, pos0)) = (true, (parent + local)%Z).
Proof. exact frame_compile_idem. Qed.
Print Assumptions C33_frame_compile_idempotent.

(* ... while copying the local spec value back before the guard drops the parent transform on the second compile
   whenever the parent frame is not the identity *)
Theorem C33_frame_compile_reset_refuted :
  forall parent local pos0 : Z, parent <> 0%Z ->
    snd (frame_compile true parent local (frame_compile true parent local (false, pos0))) <> (parent + local)%Z.
Proof. exact frame_compile_reset_loses_parent. Qed.
Print Assumptions C33_frame_compile_reset_refuted.
