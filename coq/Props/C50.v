(* C50 — Visualization scene construction is bounded and faithful.
   Statements about Model/Scene.v: the acquireGeom/releaseGeom discipline of
   src/engine/engine_vis_visualize.c as a counter machine, and the model-geom pass addGeomGeoms. *)
From Coq Require Import ZArith List Bool Sorted.
From MJV Require Import Model.Scene Proof.SceneProof.
Import ListNotations.
Open Scope Z_scope.

(* For every element type, every sequence of attempts (payload, released or not), every capacity
   maxg >= 0 and every previous status st, starting from mjv_updateScene's ngeom = 0:
   ngeom stays within the capacity; every slot written by an accepted acquire is inside the buffer;
   the released geoms sit in slots 0..ngeom-1 in order; their payloads are the released attempts in
   order truncated to the capacity; the status is bumped (0 -> 1, nonzero kept) exactly when some
   attempt came after the buffer was full; returning at the first refusal (as the passes of
   mjv_addGeoms do) gives the same scene as attempting everything *)
Theorem C50_machine : forall (A : Type) (l : list (A * bool)) maxg st, 0 <= maxg ->
  let s := run_attempts l (fresh maxg st) in
  0 <= ngeom s <= maxg /\ maxgeom s = maxg /\
  (forall i, In i (touched s) -> 0 <= i < maxg) /\
  map fst (geoms s) = zseq (ngeom s) /\
  map snd (geoms s) = firstn (Z.to_nat maxg) (map fst (filter (fun a => snd a) l)) /\
  status s = (if is_nil (after_full (Z.to_nat maxg) l) then st else bump st) /\
  run_pass l (fresh maxg st) = s.
Proof. intro A. exact (@machine_spec A). Qed.
Print Assumptions C50_machine.

(* when every accepted geom is released: overflow is reported iff there were more attempts than room *)
Theorem C50_status_iff_overflow : forall (A : Type) (l : list (A * bool)) maxg st, 0 <= maxg ->
  (forall a, In a l -> snd a = true) ->
  status (run_attempts l (fresh maxg st)) = if (length l <=? Z.to_nat maxg)%nat then st else bump st.
Proof. exact machine_status_all_commit. Qed.
Print Assumptions C50_status_iff_overflow.

(* a bumped status is nonzero, and a nonzero status is never changed again *)
Theorem C50_status_sticky : forall st,
  bump st <> 0 /\ (st <> 0 -> bump st = st) /\ bump (bump st) = bump st /\ (st = 0 -> bump st = 1).
Proof. exact status_facts. Qed.
Print Assumptions C50_status_sticky.

(* addGeomGeoms with only model geoms drawn: the scene holds exactly the shown model geoms
   (category admitted by the effective catmask, clamped group enabled, alpha != 0) as (objid,
   category), in increasing id order, truncated to the capacity, in slots 0..ngeom-1; with no
   alpha-0 geom the status is bumped iff more geoms are visible than the capacity *)
Theorem C50_geom_pass : forall maxg st vs catmask gg gs, 0 <= maxg ->
  let cm := eff_catmask vs catmask in
  let s := geom_pass maxg st vs catmask gg gs in
  0 <= ngeom s <= maxg /\
  (forall i, In i (touched s) -> 0 <= i < maxg) /\
  map fst (geoms s) = zseq (ngeom s) /\
  map snd (geoms s) = firstn (Z.to_nat maxg) (shown_ids gg cm gs) /\
  StronglySorted Z.lt (map fst (shown_ids gg cm gs)) /\
  (forall i c, In (i, c) (shown_ids gg cm gs) <->
     exists g, 0 <= i /\ nth_error gs (Z.to_nat i) = Some g /\ shown gg cm g = true /\ c = fst (fst g)) /\
  (st <> 0 -> status s = st) /\
  ((forall g, In g gs -> snd g = true) ->
     shown_ids gg cm gs = visible_ids gg cm gs /\
     status s = if (length (visible_ids gg cm gs) <=? Z.to_nat maxg)%nat then st else bump st).
Proof. exact geom_pass_spec. Qed.
Print Assumptions C50_geom_pass.

(* non-vacuity: 5 geoms (static plane in group 0, dynamic geoms in groups 1,3,1,2), groups 0,1,2
   enabled, capacity 2: the plane and geom 1 are drawn, overflow is reported; with capacity 4
   everything visible fits and the status stays 0 *)
Example C50_example_overflow :
  let s := geom_pass 2 0 true 7 [true; true; true; false; false; false]
                     [(1, 0, true); (2, 1, true); (2, 3, true); (2, 1, true); (2, 2, true)] in
  (geoms s, ngeom s, status s) = ([(0, (0, 1)); (1, (1, 2))], 2, 1).
Proof. vm_compute. reflexivity. Qed.

Example C50_example_fits :
  let s := geom_pass 4 0 true 7 [true; true; true; false; false; false]
                     [(1, 0, true); (2, 1, true); (2, 3, true); (2, 1, true); (2, 2, true)] in
  (geoms s, ngeom s, status s) = ([(0, (0, 1)); (1, (1, 2)); (2, (3, 2)); (3, (4, 2))], 4, 0).
Proof. vm_compute. reflexivity. Qed.

(* an alpha-0 geom attempted when the buffer is exactly full raises the status although nothing
   that would be drawn was dropped (acquireGeom is called before the alpha test) *)
Example C50_example_alpha0 :
  let s := geom_pass 1 0 true 7 [true; true; true; false; false; false]
                     [(1, 0, true); (2, 1, false)] in
  (geoms s, ngeom s, status s) = ([(0, (0, 1))], 1, 1).
Proof. vm_compute. reflexivity. Qed.
