(* C40 -- Extension registries stay consistent under concurrent use.
   Only statements, each closed by a lemma of Proof/GlobalTableProof.v, followed by Print Assumptions.

   Model (Model/GlobalTable.v).  Interleaving part: a state holds count_ ([cnt]), all allocated slots
   in slot order ([slots]), the mutex ([lk]), any number of threads ([ths]) and the ghost list [reg]
   of the objects whose registration completed.  One [step] is ONE mutex / count_ operation or ONE
   plain read or write of ONE field of one slot; CopyObject is two writes (key, then value), so
   states with a torn slot are part of the state space.  [reachable] = reachable from [init n] for
   any n by any interleaving of any operations of any threads (arguments are carried by the call
   events, so every history is a path).  Sequentially consistent: weak-memory behaviours are
   outside the model.  Sequential part: [append] / [get_at_slot] / [get_by_key] on a table value. *)
From Coq Require Import List ZArith Bool.
From MJV Require Import Lib.Eqb Model.GlobalTable Proof.GlobalTableProof.
Import ListNotations.
Open Scope Z_scope.

(* Concurrent registration and lookup never expose a partially registered object: whenever any
   thread (a reader that loaded count_, or a writer scanning under the lock) is about to read a
   field of slot i, that slot is below the published count and holds exactly the completely copied
   object that was registered there. *)
Theorem C40_no_partial_object :
  forall s t i, reachable s -> In t (ths s) -> deref (pc t) = Some i ->
    0 <= i < cnt s /\
    exists o, nth_error (reg s) (Z.to_nat i) = Some o /\ nth_error (slots s) (Z.to_nat i) = Some o.
Proof. exact no_partial_object. Qed.
Print Assumptions C40_no_partial_object.

(* ... and such a slot is never written again: no step of any thread changes a slot below the
   published count; the count never decreases; the registry only grows at its end (slots are dense
   and stable). *)
Theorem C40_published_slots_stable :
  forall s s', reachable s -> Step s s' ->
    cnt s <= cnt s' /\ (exists ext, reg s' = reg s ++ ext) /\
    (forall i, 0 <= i < cnt s -> nth_error (slots s') (Z.to_nat i) = nth_error (slots s) (Z.to_nat i)).
Proof. exact published_slots_stable. Qed.
Print Assumptions C40_published_slots_stable.

(* At every moment the registered keys are pairwise distinct case-insensitively (each key occupies
   exactly one slot), the published count is the number of registered objects, and the first count
   slots are exactly the registered objects. *)
Theorem C40_registry_consistent :
  forall s, reachable s ->
    ci_nodup (reg s) /\ cnt s = Z.of_nat (length (reg s)) /\ firstn (length (reg s)) (slots s) = reg s.
Proof. exact registry_consistent. Qed.
Print Assumptions C40_registry_consistent.

(* Return values under any interleaving: AppendIfUnique(o) is about to return r only if
   r >= 0 and slot r holds a registered object equal to o, or r = -1 and some registered object has
   o's key (case-insensitively) but differs from o; a lookup is about to return (i, o') only if slot
   i holds exactly the registered object o'. *)
Theorem C40_results_consistent :
  forall s t, reachable s -> In t (ths s) ->
    (forall o r, pc t = ARet o r -> res_ok (reg s) o r) /\
    (forall i o', pc t = RRet (Some (i, o')) -> 0 <= i /\ nth_error (reg s) (Z.to_nat i) = Some o').
Proof. exact results_consistent. Qed.
Print Assumptions C40_results_consistent.

(* The critical section (including a thread that holds the table through an outer
   LockExclusively, i.e. the re-entrant case) is exclusive. *)
Theorem C40_mutual_exclusion :
  forall s l1 t l2, reachable s -> ths s = l1 ++ t :: l2 -> crit t = 1 ->
    lk s = true /\ Forall (fun u => crit u = 0) l1 /\ Forall (fun u => crit u = 0) l2.
Proof. exact mutual_exclusion. Qed.
Print Assumptions C40_mutual_exclusion.

(* Link to trace validation: every event log accepted by the executable replay function is a path
   of [Step]. *)
Theorem C40_accepted_logs_are_paths :
  forall l s s', reachable s -> run s l = Some s' -> reachable s'.
Proof. exact run_reachable. Qed.
Print Assumptions C40_accepted_logs_are_paths.

(* ---- sequential laws, for every registration history (any count, so the block boundaries at
   15/16, 30/31, ... objects are included) and both ObjectEqual flavours [ci] ---- *)

(* the table invariant [sinv] (count within the allocated chain, chain a positive multiple of 15
   slots, registered keys non-empty and pairwise distinct case-insensitively) holds after every
   history of registrations of objects with non-empty keys *)
Theorem C40_seq_histories :
  forall ci os, Forall (fun o => key_empty (okey o) = false) os -> sinv (register_all ci tinit os).
Proof. intros ci os H. apply histories_sinv; [apply sinv_init|exact H]. Qed.
Print Assumptions C40_seq_histories.

(* one registration: either the key is already in the unique slot m -- then nothing changes and the
   result is m if the objects are identical, -1 (failure) if they conflict -- or the key is new --
   then the object takes the next dense slot count, count grows by one and no earlier slot moves *)
Theorem C40_seq_register :
  forall ci t o, sinv t -> key_empty (okey o) = false ->
    exists t' r, append ci t o = (t', r) /\ sinv t' /\
     ((exists m e, (m < Z.to_nat (tcnt t))%nat /\ nth_error (tslots t) m = Some e /\
                   ci_eq (okey o) (okey e) = true /\ t' = t /\
                   r = (if obj_eq ci o e then Z.of_nat m else -1)) \/
      ((forall m e, (m < Z.to_nat (tcnt t))%nat -> nth_error (tslots t) m = Some e ->
                    ci_eq (okey o) (okey e) = false) /\
       r = tcnt t /\ tcnt t' = tcnt t + 1 /\ nth_error (tslots t') (Z.to_nat (tcnt t)) = Some o /\
       (forall m, (m < Z.to_nat (tcnt t))%nat -> nth_error (tslots t') m = nth_error (tslots t) m))).
Proof. exact append_spec. Qed.
Print Assumptions C40_seq_register.

(* lookups by name and by slot agree *)
Theorem C40_seq_lookups_agree :
  forall t k i o, sinv t -> key_empty k = false ->
    (get_by_key t k (tcnt t) = Some (i, o) <->
     (get_at_slot t i (tcnt t) = Some o /\ ci_eq (okey o) k = true)).
Proof. exact lookup_agree. Qed.
Print Assumptions C40_seq_lookups_agree.

(* slots are dense: exactly the slots 0..count-1 resolve *)
Theorem C40_seq_slots_dense :
  forall t i, sinv t ->
    (0 <= i < tcnt t -> exists o, get_at_slot t i (tcnt t) = Some o /\ nth_error (tslots t) (Z.to_nat i) = Some o) /\
    (~ (0 <= i < tcnt t) -> get_at_slot t i (tcnt t) = None).
Proof. exact slots_dense. Qed.
Print Assumptions C40_seq_slots_dense.

(* non-vacuity: a log with a torn slot in the middle (key written, value not yet) while a reader
   runs is accepted, and the sequential model crosses the block boundary *)
Definition C40_example_log : list (Z * ev) :=
  [(0, ECallAppend (mkObj [102; 111; 111] 7)); (0, ELock); (0, ELoadCnt 0);
   (1, ECallKey [70; 79; 79]); (0, EWriteKey 0 [102; 111; 111]); (1, ELoadCnt 0); (1, ERetNone);
   (0, EWriteVal 0 7); (0, EStoreCnt 1); (1, ECallKey [70; 79; 79]); (1, ELoadCnt 1);
   (0, EUnlock); (1, EReadKey 0 [102; 111; 111]); (1, EReadVal 0 7); (0, ERetAppend 0);
   (1, ERetSome 0 (mkObj [102; 111; 111] 7))].

Example C40_example_accepted : accepts 2 C40_example_log = true.
Proof. vm_compute. reflexivity. Qed.

Example C40_example_torn_state :
  exists s, run (init 2) (firstn 6 C40_example_log) = Some s /\
            nth_error (slots s) 0 = Some (mkObj [102; 111; 111] 0) /\ cnt s = 0 /\ reg s = [].
Proof. eexists. vm_compute. repeat split. Qed.

Example C40_example_block_boundary :
  let os := map (fun i => mkObj [97 + i] i) [0;1;2;3;4;5;6;7;8;9;10;11;12;13;14;15;16] in
  let t := register_all false tinit os in
  tcnt t = 17 /\ length (tslots t) = 30%nat /\ get_by_key t [65 + 16] 17 = Some (16, mkObj [97 + 16] 16).
Proof. vm_compute. repeat split. Qed.
