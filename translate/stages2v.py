#!/usr/bin/env python3
"""Fail-closed translator: the pipeline driver functions of src/engine/engine_forward.c
(mj_forwardSkip, mj_forward, mj_step, mj_step1, mj_step2) -> coq/Gen/Pipeline.v (a deep-embedded
program per function).  Anything outside the small statement language below aborts with
TranslatorError naming file:line.  Timer bookkeeping (TM_START, TM_END(..), the
`d->timer[mjTIMER_STEP].number--` line) is erased; everything else is kept.

statement language:
  call       NAME(m, d [, arg]*);                 -> PCall "NAME" [args]
  error      mjERROR("...");                      -> PErr
  assign     lv = [lv =]* rv;                     -> PAssign lv rv (one per lvalue)
  if/else    if (cond) { .. } [else { .. } | else if ..]
  switch     switch ((mjtIntegrator) m->opt.integrator) { case X: .. break; default: .. }
conditions:  ! && || ( ) over atoms:  skipstage < mjSTAGE_X -> CStageLt ; skipsensor -> CParamNZ ;
             m->opt.integrator == mjINT_X -> CInteg ; anything else (call, field, global) -> CAtom "text"
"""
import os, re, sys


class TranslatorError(Exception):
    pass


TOK = re.compile(r"""\s*(?:(?P<str>"(?:[^"\\]|\\.)*")|(?P<id>[A-Za-z_][A-Za-z_0-9]*)|(?P<num>\d+)|(?P<op>->|\+\+|--|&&|\|\||==|!=|<=|>=|[-+*/%<>=!(){}\[\];,.:?&|]))""")

FUNCS = ["mj_forwardSkip", "mj_forward", "mj_step", "mj_step1", "mj_step2"]
# functions of src/engine/engine_inverse.c; in these, statements outside the driver language
# (declarations, loops, calls with general arguments, general assignments) are kept as OPAQUE
# calls named by their normalised token text: an uninterpreted function of the whole state
INV_FUNCS = ["mj_inverseSkip", "mj_inverse"]
TYPEWORDS = ("int", "mjtNum", "const", "double", "float", "size_t", "mjtByte", "unsigned", "char")


def strip_comments(text):
    # keep line structure
    text = re.sub(r"/\*.*?\*/", lambda m: re.sub(r"[^\n]", " ", m.group(0)), text, flags=re.S)
    text = re.sub(r"//[^\n]*", "", text)
    return text


class P:
    def __init__(self, text, fname, line0, opaque_ok=False):
        self.opaque_ok = opaque_ok
        self.fname, self.toks = fname, []
        pos, line = 0, line0
        while pos < len(text):
            m = TOK.match(text, pos)
            if not m:
                if text[pos:].strip() == "":
                    break
                line += text[:pos].count("\n") - text[:0].count("\n")
                raise TranslatorError("cannot tokenize %s near line %d: %r" % (fname, line0 + text[:pos].count("\n"), text[pos:pos + 30]))
            tok = m.group("str") or m.group("id") or m.group("num") or m.group("op")
            self.toks.append((tok, line0 + text[:m.start(m.lastgroup)].count("\n")))
            pos = m.end()
        self.i = 0

    def peek(self, k=0):
        return self.toks[self.i + k][0] if self.i + k < len(self.toks) else None

    def line(self):
        return self.toks[min(self.i, len(self.toks) - 1)][1]

    def fail(self, what):
        raise TranslatorError("translator cannot read %s:%d: %s (at token %r)" % (self.fname, self.line(), what, self.peek()))

    def next(self):
        t = self.peek()
        if t is None:
            self.fail("unexpected end")
        self.i += 1
        return t

    def expect(self, t):
        if self.peek() != t:
            self.fail("expected %r" % t)
        self.i += 1

    # ---- expressions kept as normalised token text
    def until(self, stops, depth_aware=True):
        out, depth = [], 0
        while True:
            t = self.peek()
            if t is None:
                self.fail("unterminated expression")
            if depth == 0 and t in stops:
                return out
            if t in "([":
                depth += 1
            if t in ")]":
                depth -= 1
                if depth < 0:
                    return out
            out.append(self.next())

    # ---- conditions
    def cond_or(self):
        a = self.cond_and()
        while self.peek() == "||":
            self.next()
            a = ("or", a, self.cond_and())
        return a

    def cond_and(self):
        a = self.cond_not()
        while self.peek() == "&&":
            self.next()
            a = ("and", a, self.cond_not())
        return a

    def cond_not(self):
        if self.peek() == "!":
            self.next()
            return ("not", self.cond_not())
        if self.peek() == "(":
            self.next()
            c = self.cond_or()
            self.expect(")")
            return c
        # atom: tokens up to && || ) at depth 0
        toks = self.until(("&&", "||", ")"))
        if not toks:
            self.fail("empty condition atom")
        txt = "".join(toks)
        m = re.fullmatch(r"skipstage<(mjSTAGE_[A-Z]+)", txt)
        if m:
            return ("stagelt", m.group(1))
        if txt == "skipsensor":
            return ("paramnz", "skipsensor")
        m = re.fullmatch(r"m->opt\.integrator==(mjINT_[A-Z0-9]+)", txt)
        if m:
            return ("integ", m.group(1))
        if re.search(r"skipstage|skipsensor|[<>=]|\+|-|\*|/", txt.replace("->", "@")):
            self.fail("unsupported condition atom %r" % txt)
        if not re.fullmatch(r"[A-Za-z_][\w]*(\((m|d|m,d)?(,mj[A-Z_a-z0-9]+)*\))?|d->[A-Za-z_]\w*|m->[A-Za-z_][\w.]*|mj(ENABLED|DISABLED)\(mj[A-Z_]+\)", txt):
            self.fail("unsupported condition atom %r" % txt)
        return ("atom", txt)

    # ---- statements
    def block(self):
        self.expect("{")
        out = []
        while self.peek() != "}":
            out += self.stmt()
        self.expect("}")
        return out

    def stmt(self):
        t = self.peek()
        if t in ("TM_START", "TM_START1", "TM_RESTART"):
            self.next(); self.expect(";")
            return []
        if t in ("TM_END", "TM_END1", "TM_ADD"):
            self.next(); self.expect("("); self.until((")",)); self.expect(")"); self.expect(";")
            return []
        if t == "if":
            self.next(); self.expect("(")
            c = self.cond_or()
            self.expect(")")
            a = self.block()
            b = []
            if self.peek() == "else":
                self.next()
                b = self.stmt() if self.peek() == "if" else self.block()
            return [("if", c, a, b)]
        if t == "switch":
            return self.switch()
        if t == "mjERROR":
            self.next(); self.expect("("); self.until((")",)); self.expect(")"); self.expect(";")
            return [("err",)]
        if t == "d" and "".join(x[0] for x in self.toks[self.i:self.i + 10]) == "d->timer[mjTIMER_STEP].number--;":
            self.i += 10
            return []
        if self.opaque_ok and t == "for":
            return [("call", self.opaque_for(), [])]
        if self.opaque_ok and t in TYPEWORDS:
            toks = self.until((";",), depth_aware=True)
            self.expect(";")
            return [("call", "@" + " ".join(toks), [])]
        if t in ("for", "while", "do", "return", "goto", "break", "continue") + TYPEWORDS:
            self.fail("statement kind %r is outside the driver language" % t)
        # call or assignment
        start = self.i
        toks = self.until((";", "="))
        if self.peek() == ";":
            self.next()
            txt = "".join(toks)
            m = re.fullmatch(r"([A-Za-z_]\w*)\(m,d((?:,[A-Za-z_0-9]+)*)\)", txt)
            if not m and self.opaque_ok and re.fullmatch(r"[A-Za-z_]\w*\(.*\)", txt):
                return [("call", "@" + txt, [])]
            if not m:
                self.fail("unsupported expression statement %r" % txt)
            args = [a for a in m.group(2).split(",") if a]
            return [("call", m.group(1), args)]
        # assignment chain
        lvs = ["".join(toks)]
        self.expect("=")
        while True:
            toks = self.until((";", "="))
            if self.peek() == "=":
                self.next()
                lvs.append("".join(toks))
            else:
                self.expect(";")
                rv = "".join(toks)
                break
        simple = all(re.fullmatch(r"d->[A-Za-z_]\w*(\[\d+\])?", lv) for lv in lvs) and re.fullmatch(r"-?\d+", rv)
        if not simple and self.opaque_ok:
            return [("call", "@" + "=".join(lvs + [rv]), [])]
        for lv in lvs:
            if not re.fullmatch(r"d->[A-Za-z_]\w*(\[\d+\])?", lv):
                self.fail("unsupported assignment target %r" % lv)
        if not re.fullmatch(r"-?\d+", rv):
            self.fail("unsupported assigned value %r" % rv)
        return [("assign", lv, rv) for lv in reversed(lvs)]

    def opaque_for(self):
        """for (...) { ... } or for (...) stmt;  kept as one opaque call named by its token text"""
        out = [self.next()]
        self.expect("(")
        depth = 1
        out.append("(")
        while depth:
            t = self.next()
            depth += (t == "(") - (t == ")")
            out.append(t)
        if self.peek() == "{":
            depth = 0
            while True:
                t = self.next()
                depth += (t == "{") - (t == "}")
                out.append(t)
                if depth == 0:
                    break
        else:
            out += self.until((";",))
            self.expect(";")
            out.append(";")
        txt = " ".join(out)
        if re.search(r"\b(return|goto|mjERROR|mj_forward\w*|mj_inverse\w*|mj_step\w*)\b", txt):
            self.fail("loop with control transfer or pipeline calls cannot be opaque")
        return "@" + txt

    def switch(self):
        self.expect("switch"); self.expect("(")
        txt = "".join(self.until((")",)))
        self.expect(")")
        if txt not in ("(mjtIntegrator)m->opt.integrator", "m->opt.integrator"):
            self.fail("switch on %r is outside the driver language" % txt)
        self.expect("{")
        arms, default = [], None
        while self.peek() != "}":
            labels = []
            isdef = False
            while self.peek() in ("case", "default"):
                if self.next() == "case":
                    labels.append(self.next())
                else:
                    isdef = True
                self.expect(":")
            if not labels and not isdef:
                self.fail("expected case label")
            body = []
            while self.peek() not in ("break", "case", "default", "}"):
                body += self.stmt()
            if self.peek() == "break":
                self.next(); self.expect(";")
            elif not (body and body[-1][0] == "err") and self.peek() != "}":
                self.fail("fall-through between switch arms")
            if isdef:
                if labels:
                    self.fail("default mixed with case labels")
                default = body
            else:
                arms.append((labels, body))
        self.expect("}")
        # desugar into nested ifs
        res = default if default is not None else []
        for labels, body in reversed(arms):
            c = ("integ", labels[0])
            for l in labels[1:]:
                c = ("or", c, ("integ", l))
            res = [("if", c, body, res)]
        return res


def find_function(text, name, fname):
    m = re.search(r"^void\s+%s\s*\(([^)]*)\)\s*\{" % re.escape(name), text, flags=re.M)
    if not m:
        raise TranslatorError("translator cannot find function %s in %s" % (name, fname))
    params = [p.strip().split()[-1].lstrip("*") for p in m.group(1).split(",")]
    if params[:2] != ["m", "d"]:
        raise TranslatorError("unexpected parameters of %s: %s" % (name, params))
    start = m.end() - 1
    depth, i = 0, start
    while True:
        if text[i] == "{":
            depth += 1
        elif text[i] == "}":
            depth -= 1
            if depth == 0:
                break
        i += 1
    return params[2:], text[start:i + 1], text[:start].count("\n") + 1


def q(s):
    return '"' + s.replace('"', '""') + '"'


def cond2v(c):
    k = c[0]
    if k == "atom":
        return "(CAtom %s)" % q(c[1])
    if k == "stagelt":
        return "(CStageLt %s)" % q(c[1])
    if k == "paramnz":
        return "(CParamNZ %s)" % q(c[1])
    if k == "integ":
        return "(CInteg %s)" % q(c[1])
    if k == "not":
        return "(CNot %s)" % cond2v(c[1])
    if k == "and":
        return "(CAnd %s %s)" % (cond2v(c[1]), cond2v(c[2]))
    if k == "or":
        return "(COr %s %s)" % (cond2v(c[1]), cond2v(c[2]))
    raise TranslatorError("internal: cond " + repr(c))


def stmts2v(ss, ind):
    if not ss:
        return "PSkip"
    parts = []
    for s in ss:
        if s[0] == "call":
            parts.append("PCall %s [%s]" % (q(s[1]), "; ".join(q(a) for a in s[2])))
        elif s[0] == "err":
            parts.append("PErr")
        elif s[0] == "assign":
            parts.append("PAssign %s %s" % (q(s[1]), q(s[2])))
        elif s[0] == "if":
            parts.append("PIf %s\n%s(%s)\n%s(%s)" % (cond2v(s[1]), " " * (ind + 2), stmts2v(s[2], ind + 2), " " * (ind + 2), stmts2v(s[3], ind + 2)))
        else:
            raise TranslatorError("internal: stmt " + repr(s))
    out = parts[-1]
    for p in reversed(parts[:-1]):
        out = "PSeq (%s)\n%s(%s)" % (p, " " * ind, out)
    return out


def enum_names(text, enum, fname):
    m = re.search(r"typedef\s+enum\s+%s_?\s*\{(.*?)\}\s*%s\s*;" % (enum, enum), text, flags=re.S)
    if not m:
        raise TranslatorError("translator cannot find enum %s in %s" % (enum, fname))
    body = strip_comments(m.group(1))
    names, val = [], 0
    for item in body.split(","):
        item = item.strip()
        if not item:
            continue
        mm = re.fullmatch(r"([A-Za-z_]\w*)(?:\s*=\s*(\d+))?", item)
        if not mm:
            raise TranslatorError("translator cannot read enumerator %r of %s" % (item, enum))
        if mm.group(2) is not None:
            val = int(mm.group(2))
        if val != len(names):
            raise TranslatorError("enum %s is not 0..n-1 in order" % enum)
        names.append(mm.group(1))
        val += 1
    return names


def translate(repo):
    fname = os.path.join(repo, "src/engine/engine_forward.c")
    text = strip_comments(open(fname).read())
    tyname = os.path.join(repo, "include/mujoco/mjtype.h")
    tytext = open(tyname).read() if os.path.exists(tyname) else ""
    mdname = os.path.join(repo, "include/mujoco/mjmodel.h")
    alltypes = tytext + "\n" + open(mdname).read()
    stages = enum_names(alltypes, "mjtStage", "include/mujoco/mjtype.h")
    integs = enum_names(alltypes, "mjtIntegrator", "include/mujoco/mjtype.h")
    out = ["(* GENERATED by translate/stages2v.py from src/engine/engine_forward.c -- do not edit *)",
           "From Coq Require Import String List.", "From MJV Require Import Model.Pipeline.",
           "Import ListNotations.", "Open Scope string_scope.", ""]
    out.append("Definition stage_order : list string := [%s]." % "; ".join(q(s) for s in stages))
    out.append("Definition integrators : list string := [%s]." % "; ".join(q(s) for s in integs))
    out.append("")
    defs = []
    for fn in FUNCS:
        params, body, line0 = find_function(text, fn, "src/engine/engine_forward.c")
        p = P(body, "src/engine/engine_forward.c", line0)
        ss = p.block()
        if p.peek() is not None:
            p.fail("trailing tokens")
        out.append("Definition %s_params : list string := [%s]." % (fn, "; ".join(q(x) for x in params)))
        out.append("Definition %s_body : prog :=\n  %s." % (fn, stmts2v(ss, 2)))
        out.append("")
        defs.append(fn)
    iname = os.path.join(repo, "src/engine/engine_inverse.c")
    itext = strip_comments(open(iname).read())
    for fn in INV_FUNCS:
        params, body, line0 = find_function(itext, fn, "src/engine/engine_inverse.c")
        p = P(body, "src/engine/engine_inverse.c", line0, opaque_ok=True)
        ss = p.block()
        if p.peek() is not None:
            p.fail("trailing tokens")
        out.append("Definition %s_params : list string := [%s]." % (fn, "; ".join(q(x) for x in params)))
        out.append("Definition %s_body : prog :=\n  %s." % (fn, stmts2v(ss, 2)))
        out.append("")
        defs.append(fn)
    out.append("Definition funs : list (string * (list string * prog)) :=\n  [%s]." %
               ";\n   ".join("(%s, (%s_params, %s_body))" % (q(f), f, f) for f in defs))
    return "\n".join(out) + "\n"


if __name__ == "__main__":
    try:
        sys.stdout.write(translate(sys.argv[1] if len(sys.argv) > 1 else "/repo"))
    except TranslatorError as e:
        print("TranslatorError:", e)
        sys.exit(1)
