#!/usr/bin/env python3
"""Development-time generator (needs sympy; run with python3-vt) of the one-dimensional integral lemmas of
coq/Proof/InertiaIntegrals.v.  It is NOT part of ./check: the generated lemmas are checked by Coq like every other
proof (sympy only proposes the polynomial coefficients and the closed form; `field` and Coquelicot verify them).
usage: python3-vt translate/c35_gen_integrals.py > /tmp/lemmas.v   (then pasted between the markers of the .v file)"""
import sympy as sp

u, r, h, a, b, c, PI = sp.symbols("u r h a b c PI")


def coq_poly(e, syms):
    """Coq text of a polynomial (rational coefficients) in the given symbols"""
    e = sp.expand(e)
    if e == 0:
        return "0"
    p = sp.Poly(e, *syms)
    terms = []
    for mon, co in p.terms():
        co = sp.Rational(co)
        fac = []
        for s, k in zip(syms, mon):
            fac += [str(s)] * k
        num, den = abs(co.p), co.q
        t = " * ".join(([str(num)] if (num != 1 or not fac) else []) + fac)
        if den != 1:
            t = "%s / %d" % (t, den)
        terms.append(("- " if co < 0 else "+ ") + t)
    s = " ".join(terms)
    return s[2:] if s.startswith("+ ") else "- " + s[2:]


def coq_rat(e, syms):
    e = sp.together(sp.simplify(e))
    n, d = sp.fraction(e)
    if d == 1:
        return coq_poly(n, syms)
    return "(%s) / (%s)" % (coq_poly(n, syms), coq_poly(d, syms))


def lemma(name, params, hyps, integrand_coq, integrand, lo_coq, lo, hi_coq, hi, unfolds):
    others = [s for s in (r, h, a, b, c, PI) if s != u]
    e = sp.expand(sp.together(integrand))
    P = sp.Poly(sp.together(integrand).as_numer_denom()[0], u)
    den = sp.together(integrand).as_numer_denom()[1]
    co = [sp.Integer(0)] * 5
    for (k,), v in P.terms():
        assert k <= 4
        co[k] = v / den
    cs = ["(%s)" % coq_rat(x, others) for x in co]
    val = sp.integrate(integrand, (u, lo, hi))
    hy = "".join(" (H%d : %s)" % (k, x) for k, x in enumerate(hyps))
    nz = "; ".join("try lra" for _ in [0]) if not hyps else "auto"
    out = []
    out.append("Lemma %s (%s : R)%s :" % (name, " ".join(params), hy))
    out.append("  RInt (fun u : R => %s) (%s) (%s) = %s." % (integrand_coq, lo_coq, hi_coq, coq_rat(val, others)))
    out.append("Proof.")
    out.append("  rewrite (RInt_ext _ (fun u : R => %s + %s * u + %s * (u * u) + %s * (u * u * u) + %s * (u * u * u * u)))" % tuple(cs))
    out.append("    by (intros; eqR; unfold %s; field%s)." % (", ".join(unfolds), "; auto" if hyps else ""))
    out.append("  rewrite RInt_poly4. unfold prim4. eqR. field%s." % ("; auto" if hyps else ""))
    out.append("Qed.")
    return "\n".join(out)


def main():
    L = []
    dA = lambda s: PI * s
    dS = lambda s: PI * s * s / 4
    bA = lambda rr: 2 * PI * rr
    bS = lambda rr, s: PI * rr * s
    U = ["diskA", "diskS", "bandA", "bandS", "ellA", "ellSx", "ellSy"]
    s_ = r * r - u * u
    # sphere, solid
    L.append(lemma("int_sphere_V", ["r"], [], "diskA (r * r - u * u)", dA(s_), "- r", -r, "r", r, U))
    L.append(lemma("int_sphere_xx", ["r"], [], "diskS (r * r - u * u) + u * u * diskA (r * r - u * u)", dS(s_) + u * u * dA(s_), "- r", -r, "r", r, U))
    L.append(lemma("int_sphere_zz", ["r"], [], "diskS (r * r - u * u) + diskS (r * r - u * u)", 2 * dS(s_), "- r", -r, "r", r, U))
    # cylinder, solid
    L.append(lemma("int_cyl_V", ["r", "h"], [], "diskA (r * r)", dA(r * r), "- h", -h, "h", h, U))
    L.append(lemma("int_cyl_xx", ["r", "h"], [], "diskS (r * r) + u * u * diskA (r * r)", dS(r * r) + u * u * dA(r * r), "- h", -h, "h", h, U))
    L.append(lemma("int_cyl_zz", ["r", "h"], [], "diskS (r * r) + diskS (r * r)", 2 * dS(r * r), "- h", -h, "h", h, U))
    # hemispheres of the capsule, solid: local coordinate u, plane at height h + u (upper) / u - h (lower)
    L.append(lemma("int_hemi_up_V", ["r"], [], "diskA (r * r - u * u)", dA(s_), "0", 0, "r", r, U))
    L.append(lemma("int_hemi_lo_V", ["r"], [], "diskA (r * r - u * u)", dA(s_), "- r", -r, "0", 0, U))
    L.append(lemma("int_hemi_up_xx", ["r", "h"], [], "diskS (r * r - u * u) + (h + u) * (h + u) * diskA (r * r - u * u)", dS(s_) + (h + u) ** 2 * dA(s_), "0", 0, "r", r, U))
    L.append(lemma("int_hemi_lo_xx", ["r", "h"], [], "diskS (r * r - u * u) + (u - h) * (u - h) * diskA (r * r - u * u)", dS(s_) + (u - h) ** 2 * dA(s_), "- r", -r, "0", 0, U))
    L.append(lemma("int_hemi_up_zz", ["r"], [], "diskS (r * r - u * u) + diskS (r * r - u * u)", 2 * dS(s_), "0", 0, "r", r, U))
    L.append(lemma("int_hemi_lo_zz", ["r"], [], "diskS (r * r - u * u) + diskS (r * r - u * u)", 2 * dS(s_), "- r", -r, "0", 0, U))
    # ellipsoid, solid
    se = 1 - u * u / (c * c)
    eA = PI * a * b * se
    eSx = PI * a * a * a * b * se * se / 4
    eSy = PI * a * b * b * b * se * se / 4
    sc = "(1 - u * u / (c * c))"
    L.append(lemma("int_ell_V", ["a", "b", "c"], ["c <> 0"], "ellA a b %s" % sc, eA, "- c", -c, "c", c, U))
    L.append(lemma("int_ell_xx", ["a", "b", "c"], ["c <> 0"], "ellSy a b %s + u * u * ellA a b %s" % (sc, sc), eSy + u * u * eA, "- c", -c, "c", c, U))
    L.append(lemma("int_ell_yy", ["a", "b", "c"], ["c <> 0"], "ellSx a b %s + u * u * ellA a b %s" % (sc, sc), eSx + u * u * eA, "- c", -c, "c", c, U))
    L.append(lemma("int_ell_zz", ["a", "b", "c"], ["c <> 0"], "ellSx a b %s + ellSy a b %s" % (sc, sc), eSx + eSy, "- c", -c, "c", c, U))
    # sphere shell (bands)
    L.append(lemma("int_sshell_A", ["r"], [], "bandA r", bA(r), "- r", -r, "r", r, U))
    L.append(lemma("int_sshell_xx", ["r"], [], "bandS r (r * r - u * u) + u * u * bandA r", bS(r, s_) + u * u * bA(r), "- r", -r, "r", r, U))
    L.append(lemma("int_sshell_zz", ["r"], [], "bandS r (r * r - u * u) + bandS r (r * r - u * u)", 2 * bS(r, s_), "- r", -r, "r", r, U))
    # cylinder lateral surface (bands)
    L.append(lemma("int_cshell_A", ["r", "h"], [], "bandA r", bA(r), "- h", -h, "h", h, U))
    L.append(lemma("int_cshell_xx", ["r", "h"], [], "bandS r (r * r) + u * u * bandA r", bS(r, r * r) + u * u * bA(r), "- h", -h, "h", h, U))
    L.append(lemma("int_cshell_zz", ["r", "h"], [], "bandS r (r * r) + bandS r (r * r)", 2 * bS(r, r * r), "- h", -h, "h", h, U))
    # hemispherical shells of the capsule
    L.append(lemma("int_hshell_up_A", ["r"], [], "bandA r", bA(r), "0", 0, "r", r, U))
    L.append(lemma("int_hshell_lo_A", ["r"], [], "bandA r", bA(r), "- r", -r, "0", 0, U))
    L.append(lemma("int_hshell_up_xx", ["r", "h"], [], "bandS r (r * r - u * u) + (h + u) * (h + u) * bandA r", bS(r, s_) + (h + u) ** 2 * bA(r), "0", 0, "r", r, U))
    L.append(lemma("int_hshell_lo_xx", ["r", "h"], [], "bandS r (r * r - u * u) + (u - h) * (u - h) * bandA r", bS(r, s_) + (u - h) ** 2 * bA(r), "- r", -r, "0", 0, U))
    L.append(lemma("int_hshell_up_zz", ["r"], [], "bandS r (r * r - u * u) + bandS r (r * r - u * u)", 2 * bS(r, s_), "0", 0, "r", r, U))
    L.append(lemma("int_hshell_lo_zz", ["r"], [], "bandS r (r * r - u * u) + bandS r (r * r - u * u)", 2 * bS(r, s_), "- r", -r, "0", 0, U))
    print("\n\n".join(L))


if __name__ == "__main__":
    main()
