"""C31 translator: regenerates coq/Gen/ModelLayout.v (the layout table of the MJB binary model file)
from the X-macro tables of include/mujoco/mjxmacro.h and the table-like parts of
src/engine/engine_io.c.  Python stdlib only.  Fail-closed: anything not understood raises
TranslatorError("cannot read file:line ...").

What is read from the text:
  mjxmacro.h   MJMODEL_SIZES (size fields, order), MJMODEL_POINTERS (+ the MJMODEL_POINTERS_* groups):
               (type, name, row-count size name, column count as a term  c | K | MJ_M(size) | MJ_M(size)*c)
  engine_io.c  ID, NHEADER, the header initialisers of mj_saveModel / mj_loadModelBuffer, the
               parameter list of mj_makeModel and the `m->x = x` assignments, the sizes[i] argument
               list of the call in mj_loadModelBuffer, the nnames_map formula and its bound, the
               names exempt from the INT_MAX bound, the struct blocks written/read/sized, the alignment
               of SKIP, the MJMODEL_REFERENCES table of mj_validateReferences.
What is taken from the compiler (a generated C program compiled against the same headers, see
info_source / check_info): sizeof of every element type and struct, the value of every named
constant used as a column count, mjVERSION_HEADER; and — as a cross-check of this parser against the
preprocessor — the full expansion of both X-macro tables (names, order, stringified arguments,
column counts evaluated under an assignment of distinct primes to the size fields).
"""
import os
import re


class TranslatorError(Exception):
    pass


def _err(path, line, msg):
    raise TranslatorError("cannot read %s:%s %s" % (path, line, msg))


def _strip_comments(text):
    """remove // and /* */ comments, keeping line structure"""
    out = []
    i, n = 0, len(text)
    while i < n:
        if text.startswith("//", i):
            j = text.find("\n", i)
            j = n if j < 0 else j
            # a line comment ending in backslash would continue: not supported
            i = j
        elif text.startswith("/*", i):
            j = text.find("*/", i + 2)
            if j < 0:
                raise TranslatorError("unterminated comment")
            out.append("\n" * text.count("\n", i, j))
            i = j + 2
        elif text[i] == '"':
            j = i + 1
            while j < n and text[j] != '"':
                j += 2 if text[j] == "\\" else 1
            out.append(text[i:j + 1])
            i = j + 1
        else:
            out.append(text[i])
            i += 1
    return "".join(out)


def parse_macros(path):
    """object-like and function-like #define's of a header: name -> (line, params or None, body)"""
    with open(path) as f:
        text = _strip_comments(f.read())
    lines = text.split("\n")
    macros = {}
    i = 0
    while i < len(lines):
        m = re.match(r"\s*#\s*define\s+([A-Za-z_]\w*)(\([^)]*\))?(.*)$", lines[i])
        if m:
            name, params, body = m.group(1), m.group(2), m.group(3)
            start = i + 1
            while body.rstrip().endswith("\\"):
                body = body.rstrip()[:-1] + " "
                i += 1
                if i >= len(lines):
                    _err(path, start, "macro %s runs to end of file" % name)
                body += lines[i]
            macros[name] = (start, params, body.strip())
        i += 1
    return macros


def _split_args(s, path, line):
    """split a macro argument string at top-level commas"""
    args, depth, cur = [], 0, ""
    for ch in s:
        if ch == "(":
            depth += 1
        elif ch == ")":
            depth -= 1
            if depth < 0:
                _err(path, line, "unbalanced parentheses in '%s'" % s)
        if ch == "," and depth == 0:
            args.append(cur.strip())
            cur = ""
        else:
            cur += ch
    if depth != 0:
        _err(path, line, "unbalanced parentheses in '%s'" % s)
    args.append(cur.strip())
    return args


def expand_x(macros, name, path, heads=("X", "XNV"), depth=0):
    """expand an X-macro table into a list of argument lists; nested table names are expanded"""
    if depth > 8:
        _err(path, "?", "macro nesting too deep at %s" % name)
    if name not in macros:
        _err(path, "?", "macro %s not found" % name)
    line, params, body = macros[name]
    if params is not None:
        _err(path, line, "table macro %s must be object-like" % name)
    out = []
    i, n = 0, len(body)
    while i < n:
        if body[i].isspace():
            i += 1
            continue
        m = re.match(r"[A-Za-z_]\w*", body[i:])
        if not m:
            _err(path, line, "unexpected text in %s: '%s'" % (name, body[i:i + 30]))
        ident = m.group(0)
        i += len(ident)
        j = i
        while j < n and body[j].isspace():
            j += 1
        if ident in heads:
            if j >= n or body[j] != "(":
                _err(path, line, "%s without argument list in %s" % (ident, name))
            d, k = 0, j
            while k < n:
                if body[k] == "(":
                    d += 1
                elif body[k] == ")":
                    d -= 1
                    if d == 0:
                        break
                k += 1
            if k >= n:
                _err(path, line, "unterminated %s( in %s" % (ident, name))
            out.append(_split_args(body[j + 1:k], path, line))
            i = k + 1
        elif ident in macros and macros[ident][1] is None:
            out += expand_x(macros, ident, path, heads, depth + 1)
        else:
            _err(path, line, "unknown token '%s' in table %s" % (ident, name))
    return out


IDENT = r"[A-Za-z_]\w*"


def parse_nc(txt, size_index, path, where):
    """column-count term: ('c', int) | ('k', NAME) | ('s', size index, multiplier)"""
    t = txt.replace(" ", "")
    if re.fullmatch(r"\d+", t):
        return ("c", int(t))
    m = re.fullmatch(r"MJ_M\((%s)\)(?:\*(\d+))?" % IDENT, t)
    if m:
        if m.group(1) not in size_index:
            _err(path, where, "column count '%s' names no size field" % txt)
        return ("s", size_index[m.group(1)], int(m.group(2) or 1))
    if re.fullmatch(IDENT, t):
        if t in size_index:
            return ("s", size_index[t], 1)
        return ("k", t)
    _err(path, where, "column count '%s' not understood" % txt)


def parse_xmacro(repo):
    path = os.path.join(repo, "include", "mujoco", "mjxmacro.h")
    macros = parse_macros(path)
    sizes_raw = expand_x(macros, "MJMODEL_SIZES", path, heads=("X",))
    sizes = []
    for a in sizes_raw:
        if len(a) != 1 or not re.fullmatch(IDENT, a[0]):
            _err(path, macros["MJMODEL_SIZES"][0], "size entry %s" % (a,))
        sizes.append(a[0])
    if len(set(sizes)) != len(sizes):
        _err(path, macros["MJMODEL_SIZES"][0], "duplicate size field")
    if not sizes or sizes[-1] != "nbuffer":
        _err(path, macros["MJMODEL_SIZES"][0], "nbuffer must be the final size field")
    size_index = {s: i for i, s in enumerate(sizes)}
    # MJ_M must be the identity annotation
    if "MJ_M" not in macros or macros["MJ_M"][1].replace(" ", "") != "(n)" or macros["MJ_M"][2].strip() != "n":
        _err(path, macros.get("MJ_M", ("?",))[0], "MJ_M(n) is expected to expand to n")
    # the preamble must define exactly the column-count symbols as m->same name
    if "MJMODEL_POINTERS_PREAMBLE" not in macros:
        _err(path, "?", "MJMODEL_POINTERS_PREAMBLE not found")
    pl, pp, pb = macros["MJMODEL_POINTERS_PREAMBLE"]
    pre = {}
    for stmt in [s.strip() for s in pb.split(";") if s.strip()]:
        m = re.fullmatch(r"int\s+(%s)\s*=\s*m->(%s)" % (IDENT, IDENT), stmt)
        if not m or m.group(1) != m.group(2) or m.group(1) not in size_index:
            _err(path, pl, "preamble statement '%s'" % stmt)
        pre[m.group(1)] = True
    arrays = []
    for a in expand_x(macros, "MJMODEL_POINTERS", path):
        if len(a) != 4:
            _err(path, macros["MJMODEL_POINTERS"][0], "array entry with %d arguments: %s" % (len(a), a))
        typ, name, nr, nc = a
        if not re.fullmatch(r"[A-Za-z_][\w ]*", typ) or not re.fullmatch(IDENT, name):
            _err(path, "?", "array entry %s" % (a,))
        if nr not in size_index:
            _err(path, "?", "row count '%s' of %s is not a size field" % (nr, name))
        term = parse_nc(nc, size_index, path, name)
        if term[0] == "s" and sizes[term[1]] not in pre:
            _err(path, pl, "column count of %s uses %s which the preamble does not define" % (name, sizes[term[1]]))
        arrays.append({"type": typ.strip(), "name": name, "nr": nr, "nr_idx": size_index[nr], "nc_txt": nc, "nc": term})
    if len({a["name"] for a in arrays}) != len(arrays):
        _err(path, "?", "duplicate array name in MJMODEL_POINTERS")
    return {"sizes": sizes, "arrays": arrays, "path": path}


# ------------------------------------------------------------------------------------------------
def _func_body(text, sig_re, path):
    m = re.search(sig_re, text)
    if not m:
        _err(path, "?", "function matching /%s/ not found" % sig_re)
    i = text.find("{", m.end() - 1)
    d, k = 0, i
    while k < len(text):
        if text[k] == "{":
            d += 1
        elif text[k] == "}":
            d -= 1
            if d == 0:
                return text[i:k + 1], text.count("\n", 0, m.start()) + 1
        k += 1
    _err(path, "?", "unterminated function body")


def parse_engine_io(repo, xm):
    path = os.path.join(repo, "src", "engine", "engine_io.c")
    with open(path) as f:
        text = _strip_comments(f.read())
    sizes = xm["sizes"]
    sidx = {s: i for i, s in enumerate(sizes)}
    r = {}
    m = re.search(r"static\s+const\s+int\s+ID\s*=\s*(\d+)\s*;", text)
    if not m:
        _err(path, "?", "static const int ID")
    r["ID"] = int(m.group(1))
    m = re.search(r"#\s*define\s+NHEADER\s+(\d+)", text)
    if not m:
        _err(path, "?", "#define NHEADER")
    r["NHEADER"] = int(m.group(1))
    m = re.search(r"static\s+const\s+int\s+MAX_ARRAY_SIZE\s*=\s*INT_MAX\s*;", text)
    if not m:
        _err(path, "?", "MAX_ARRAY_SIZE = INT_MAX")
    # SKIP alignment
    body, ln = _func_body(text, r"static\s+inline\s+unsigned\s+int\s+SKIP\s*\(\s*intptr_t\s+offset\s*\)\s*\{", path)
    m = re.search(r"const\s+unsigned\s+int\s+align\s*=\s*(\d+)\s*;\s*return\s*\(\s*align\s*-\s*\(\s*offset\s*%\s*align\s*\)\s*\)\s*%\s*align\s*;", body)
    if not m:
        _err(path, ln, "SKIP body")
    r["align"] = int(m.group(1))
    # getnsize counts the mjtSize members of MJMODEL_SIZES, getnptr counts MJMODEL_POINTERS
    body, ln = _func_body(text, r"static\s+int\s+getnsize\s*\(\s*void\s*\)\s*\{", path)
    if not re.search(r"#define X\(name\)\s*cnt\s*\+=\s*_Generic\(MJMODEL_MEMBER\(name\),\s*mjtSize:\s*1,\s*default:\s*0\);\s*MJMODEL_SIZES", body):
        _err(path, ln, "getnsize body")
    body, ln = _func_body(text, r"static\s+int\s+getnptr\s*\(\s*void\s*\)\s*\{", path)
    if not re.search(r"#define X\(type,\s*name,\s*nr,\s*nc\)\s*cnt\+\+;\s*MJMODEL_POINTERS", body):
        _err(path, ln, "getnptr body")

    # ---- header initialisers
    hdr_atoms = None
    for fn, var in (("mj_saveModel", "header"), ("mj_loadModelBuffer", "expected_header")):
        body, ln = _func_body(text, r"\b%s\s*\([^;{]*\)\s*\{" % fn, path)
        m = re.search(r"int\s+%s\s*\[\s*NHEADER\s*\]\s*=\s*\{([^}]*)\}\s*;" % var, body)
        if not m:
            _err(path, ln, "%s: initialiser of %s[NHEADER]" % (fn, var))
        atoms = [a.strip().replace(" ", "") for a in m.group(1).split(",")]
        if hdr_atoms is None:
            hdr_atoms = atoms
        elif atoms != hdr_atoms:
            _err(path, ln, "header written %s but expected %s" % (hdr_atoms, atoms))
    known = {"ID", "sizeof(mjtNum)", "getnsize()", "mj_version()", "getnptr()"}
    for a in hdr_atoms:
        if a not in known:
            _err(path, "?", "header field '%s'" % a)
    if len(hdr_atoms) != r["NHEADER"]:
        _err(path, "?", "header has %d fields, NHEADER=%d" % (len(hdr_atoms), r["NHEADER"]))
    r["hdr_atoms"] = hdr_atoms

    # ---- mj_makeModel: parameters, assignments, checks
    msig = re.search(r"void\s+mj_makeModel\s*\(\s*mjModel\s*\*\*\s*dest\s*,([^)]*)\)\s*\{", text)
    if not msig:
        _err(path, "?", "signature of mj_makeModel")
    params = []
    for p in msig.group(1).split(","):
        mm = re.fullmatch(r"\s*mjtSize\s+(%s)\s*" % IDENT, p)
        if not mm:
            _err(path, "?", "mj_makeModel parameter '%s'" % p.strip())
        params.append(mm.group(1))
    nmake = len(params)
    if params != sizes[:nmake]:
        bad = [i for i in range(min(nmake, len(sizes))) if params[i] != sizes[i]]
        _err(path, "?", "mj_makeModel parameters are not the leading MJMODEL_SIZES in order (first difference at %s)" % (bad[:1],))
    r["nmake"] = nmake
    body, ln = _func_body(text, r"void\s+mj_makeModel\s*\(\s*mjModel\s*\*\*\s*dest\s*,[^)]*\)\s*\{", path)
    for p in params:
        if not re.search(r"\bm->%s\s*=\s*%s\s*;" % (p, p), body):
            _err(path, ln, "mj_makeModel does not store parameter %s" % p)
    # dummies for the remaining sizes, all zero
    dm = re.findall(r"\bint\s+((?:%s\s*=\s*0\s*,?\s*)+);" % IDENT, body)
    dummies = []
    for grp in dm:
        dummies += re.findall(r"(%s)\s*=\s*0" % IDENT, grp)
    rest = sizes[nmake:]
    if sorted(dummies) != sorted(rest):
        _err(path, ln, "dummy size variables %s differ from the sizes not passed to mj_makeModel %s" % (sorted(dummies), sorted(rest)))
    # per-size checks
    chk = re.search(r"#define X\(name\)\s*if \(name < 0\) \{\s*mju_warning\([^;]*\);\s*return;\s*\}\s*"
                    r"if \(name >= MAX_ARRAY_SIZE &&\s*((?:strcmp\(#name, \"%s\"\) != 0\s*(?:&&)?\s*)*)\) \{\s*mju_warning\([^;]*\);\s*return;\s*\}\s*MJMODEL_SIZES" % IDENT,
                    re.sub(r"\\\n", " ", body))
    if not chk:
        _err(path, ln, "size checks of mj_makeModel (negative / >= MAX_ARRAY_SIZE with exemptions)")
    exempt = re.findall(r'strcmp\(#name, "(%s)"\)' % IDENT, chk.group(1))
    for e in exempt:
        if e not in sidx:
            _err(path, ln, "exempt name %s is no size field" % e)
    r["exempt"] = [sidx[e] for e in exempt]
    mm = re.search(r"if \((%s) == 0\) \{\s*mju_warning\(\"Invalid model: nbody == 0\"\);\s*return;" % IDENT, body)
    if not mm or mm.group(1) not in params:
        _err(path, ln, "nbody == 0 check")
    r["nonzero"] = sidx[mm.group(1)]
    # nnames_map
    mm = re.search(r"long\s+(%s)\s*=\s*\(long\)\s*([^;]*);\s*if \(\1 >= INT_MAX / (%s)\) \{[^}]*return;\s*\}\s*m->\1\s*=\s*\3\s*\*\s*\1\s*;" % (IDENT, IDENT), body)
    if not mm:
        _err(path, ln, "nnames_map formula of mj_makeModel")
    mapname, mult = mm.group(1), mm.group(3)
    terms = [t.strip() for t in mm.group(2).split("+")]
    for t in terms:
        if t not in params:
            _err(path, ln, "term '%s' of %s is not a mj_makeModel parameter" % (t, mapname))
        if sidx[t] in r["exempt"]:
            _err(path, ln, "term '%s' of %s has no INT_MAX bound" % (t, mapname))
    if mapname not in rest:
        _err(path, ln, "%s must be a size not passed to mj_makeModel" % mapname)
    r["map_idx"], r["map_terms"], r["map_mult_name"] = sidx[mapname], [sidx[t] for t in terms], mult
    hpath = os.path.join(repo, "src", "engine", "engine_io.h")
    with open(hpath) as f:
        ht = _strip_comments(f.read())
    mm = re.search(r"#\s*define\s+%s\s+(\d+)" % re.escape(mult), ht)
    if not mm:
        _err(hpath, "?", "#define %s" % mult)
    r["map_mult"] = int(mm.group(1))
    # buffer-size loop and allocation
    if not re.search(r"m->nbuffer = 0;\s*#define X\(type, name, nr, nc\)\s*\\?\s*if \(!safeAddToBufferSize\(&offset, &m->nbuffer, sizeof\(type\), m->nr, nc\)\) \{", re.sub(r"\\\n", " ", body)):
        _err(path, ln, "buffer size loop of mj_makeModel")

    # ---- mj_loadModelBuffer: call arguments
    body, ln = _func_body(text, r"mjModel\s*\*\s*mj_loadModelBuffer\s*\([^;{]*\)\s*\{", path)
    mm = re.search(r"mj_makeModel\s*\(\s*&m\s*,([^;]*)\)\s*;", body)
    if not mm:
        _err(path, ln, "call of mj_makeModel in mj_loadModelBuffer")
    args = [a.strip() for a in mm.group(1).split(",")]
    want = ["sizes[%d]" % i for i in range(nmake)]
    if args != want:
        _err(path, ln, "mj_loadModelBuffer passes %d arguments to mj_makeModel, not sizes[0..%d] in order" % (len(args), nmake - 1))
    mm = re.search(r"mjtSize\s+sizes\s*\[\s*(\d+)\s*\]\s*;", body)
    if not mm or int(mm.group(1)) < len(sizes):
        _err(path, ln, "local array sizes[] too small for %d size fields" % len(sizes))

    # ---- optional check of the derived size field after "set integer fields"
    bl0 = re.sub(r"\\\n", " ", body)
    setf = re.search(r"int int_idx = 0;\s*(?:mjtSize\s+(%s)\s*=\s*m->(%s)\s*;)?\s*#define X\(name\)\s*m->name = sizes\[int_idx\+\+\];\s*MJMODEL_SIZES\s*#undef X\s*"
                     r"(?:if \(m->(%s) != (%s)\) \{\s*mju_warning\(\"Corrupted model, wrong (%s) field\"\);\s*mj_deleteModel\(m\);\s*return NULL;\s*\})?\s*\}" % ((IDENT,) * 5), bl0)
    if not setf:
        _err(path, ln, "the 'set integer fields' block of mj_loadModelBuffer")
    g = setf.groups()
    if any(g):
        if not all(x == mapname for x in g):
            _err(path, ln, "check of a derived size field after 'set integer fields': %s (derived field is %s)" % (g, mapname))
        r["mapchk"] = True
    else:
        r["mapchk"] = False
    # order of the tests: makeModel, !m, nbuffer, set integer fields, struct truncation
    order = [bl0.find(x) for x in ("mj_makeModel(&m", "if (!m)", "if (m->nbuffer != sizes[nsize-1])", "int int_idx = 0;",
                                   "ran out of data while reading structs")]
    if -1 in order or order != sorted(order):
        _err(path, ln, "order of the tests in mj_loadModelBuffer")

    # ---- struct blocks: written, read, sized
    def blocks(fn, kind):
        b, l = _func_body(text, r"\b%s\s*\([^;{]*\)\s*\{" % fn, path)
        if kind == "size":
            mm2 = re.search(r"mjtSize\s+size\s*=\s*\(([^;]*)\)\s*;", b)
            if not mm2:
                _err(path, l, "fixed part of mj_sizeModel")
            terms2 = [t.strip().replace(" ", "") for t in mm2.group(1).split("+")]
            return terms2, l
        fnname = "bufwrite" if kind == "w" else "bufread"
        calls = re.findall(r"%s\(\s*((?:\(void\*\))?\s*&?\s*[\w>\-\.]+)\s*,\s*([^,]*),\s*buffer_sz\s*,\s*buffer\s*,\s*&ptrbuf\s*\)" % fnname, b)
        return [(a.replace(" ", ""), s.strip().replace(" ", "")) for a, s in calls], l
    w, lw = blocks("mj_saveModel", "w")
    rd, lr = blocks("mj_loadModelBuffer", "r")
    sz, ls = blocks("mj_sizeModel", "size")
    # expected shape of the written sequence
    if len(w) < 3 or w[0] != ("header", "sizeof(header)") or w[1] != ("&m->name", "sizeof(m->name)") or \
       w[-1][0] != "(void*)m->name" or w[-1][1] != "sizeof(type)*(m->nr)*(nc)":
        _err(path, lw, "bufwrite sequence of mj_saveModel: %s" % (w,))
    wstructs = w[2:-1]
    if len(rd) < 3 or rd[0] != ("header", "NHEADER*sizeof(int)") or rd[1] != ("sizes", "sizeof(mjtSize)*nsize") or \
       rd[-1] != ("m->name", "sizeof(type)*(m->nr)*(nc)"):
        _err(path, lr, "bufread sequence of mj_loadModelBuffer: %s" % (rd,))
    rstructs = rd[2:-1]
    structs = []
    for (a, s), (a2, s2) in zip(wstructs, rstructs):
        a = a.replace("(void*)", "")
        a2 = a2.replace("(void*)", "")
        mm2 = re.fullmatch(r"sizeof\((\w+)\)", s)
        if a != a2 or s != s2 or not mm2 or not re.fullmatch(r"&m->\w+", a):
            _err(path, lw, "struct block written (%s,%s) but read (%s,%s)" % (a, s, a2, s2))
        structs.append((a[4:], mm2.group(1)))
    if len(wstructs) != len(rstructs) or not structs:
        _err(path, lw, "struct blocks written %d, read %d" % (len(wstructs), len(rstructs)))
    r["structs"] = structs
    # mj_sizeModel fixed part = header + sizes + the same structs
    from collections import Counter
    want_sz = Counter(["sizeof(int)*NHEADER", "sizeof(mjtSize)*getnsize()"])
    for _, t in structs:
        want_sz["sizeof(%s)" % t] += 1
    got = Counter()
    for t in sz:
        mm2 = re.fullmatch(r"sizeof\((\w+)\)\*(\d+)", t)
        if mm2:
            got["sizeof(%s)" % mm2.group(1)] += int(mm2.group(2))
        else:
            got[t] += 1
    if got != want_sz:
        _err(path, ls, "fixed part of mj_sizeModel %s does not match the blocks written %s" % (dict(got), dict(want_sz)))
    # the truncation test before the struct reads covers the same blocks
    bl = re.sub(r"\s+", "", body)
    need = "if(ptrbuf+" + "+".join("sizeof(%s)" % t for _, t in structs[:3])
    mm2 = re.search(r"if\(ptrbuf\+((?:sizeof\(\w+\)(?:\*\d+)?\+?)+)>buffer_sz\)\{mju_warning\(\"Truncatedmodelfile-ranoutofdatawhilereadingstructs\"\)", bl)
    if not mm2:
        _err(path, lr, "truncation test before the struct blocks")
    got = Counter()
    for t in mm2.group(1).split("+"):
        mm3 = re.fullmatch(r"sizeof\((\w+)\)(?:\*(\d+))?", t)
        got["sizeof(%s)" % mm3.group(1)] += int(mm3.group(2) or 1)
    want2 = Counter()
    for _, t in structs:
        want2["sizeof(%s)" % t] += 1
    if got != want2:
        _err(path, lr, "truncation test before the struct blocks covers %s, blocks read are %s" % (dict(got), dict(want2)))

    # ---- MJMODEL_REFERENCES
    body, ln = _func_body(text, r"const\s+char\s*\*\s*mj_validateReferences\s*\([^;{]*\)\s*\{", path)
    mm = re.search(r"#define MJMODEL_REFERENCES((?:[^\n]*\\\n)*[^\n]*)\n", body)
    if not mm:
        _err(path, ln, "MJMODEL_REFERENCES")
    tbl = mm.group(1).replace("\\\n", " ")
    arr_index = {a["name"]: i for i, a in enumerate(xm["arrays"])}
    refs = []
    pos = 0
    tbl = tbl.strip()
    while pos < len(tbl):
        if tbl[pos].isspace():
            pos += 1
            continue
        mm2 = re.match(r"X\s*\(([^()]*)\)", tbl[pos:])
        if not mm2:
            _err(path, ln, "MJMODEL_REFERENCES entry near '%s'" % tbl[pos:pos + 40])
        a = [x.strip() for x in mm2.group(1).split(",")]
        pos += mm2.end()
        if len(a) != 4:
            _err(path, ln, "reference entry %s" % (a,))
        adr, nadr, tgt, num = a
        if adr not in arr_index:
            _err(path, ln, "reference array %s is not in MJMODEL_POINTERS" % adr)
        mm3 = re.fullmatch(r"(%s)(?:\s*\*\s*(\d+|%s))?" % (IDENT, IDENT), nadr)
        if not mm3 or mm3.group(1) not in sidx:
            _err(path, ln, "count '%s' of reference %s" % (nadr, adr))
        cnt_idx = sidx[mm3.group(1)]
        cnt_mul = mm3.group(2) or "1"
        cnt_mul = int(cnt_mul) if cnt_mul.isdigit() else cnt_mul      # named constant: resolved by the info program
        if tgt not in sidx:
            _err(path, ln, "target '%s' of reference %s" % (tgt, adr))
        if num == "0":
            numidx = None
        else:
            mm4 = re.fullmatch(r"m->(%s)" % IDENT, num)
            if not mm4 or mm4.group(1) not in arr_index:
                _err(path, ln, "num array '%s' of reference %s" % (num, adr))
            numidx = arr_index[mm4.group(1)]
        # the validator indexes adrarray[i], numarray[i] for i < count: both must be int arrays of >= count elements
        for ai in [arr_index[adr]] + ([numidx] if numidx is not None else []):
            A = xm["arrays"][ai]
            if A["type"] != "int":
                _err(path, ln, "reference %s: array %s is %s, the validator reads int" % (adr, A["name"], A["type"]))
            cols = A["nc"]
            if not (A["nr_idx"] == cnt_idx and cols[0] in ("c", "k")):
                _err(path, ln, "reference %s: validator reads %s entries of %s which has (%s x %s)" % (adr, nadr, A["name"], A["nr"], A["nc_txt"]))
        refs.append({"arr": arr_index[adr], "name": adr, "cnt": cnt_idx, "mul": cnt_mul, "tgt": sidx[tgt], "tgt_name": tgt,
                     "num": numidx, "num_name": (xm["arrays"][numidx]["name"] if numidx is not None else None),
                     "num_txt": num})
    if not refs:
        _err(path, ln, "empty MJMODEL_REFERENCES")
    xmac = re.search(r"#define X\(adrarray, nadrs, ntarget, numarray\) \{(.*?)\n\s*\}\s*\n", body, flags=re.S)
    if not xmac:
        _err(path, ln, "X macro of MJMODEL_REFERENCES")
    xb = re.sub(r"[\s\\]+", "", xmac.group(1))
    want_x = ('int*nums=(numarray);for(inti=0;i<m->nadrs;i++){intadrsmin=m->adrarray[i];intnum=(nums?nums[i]:1);'
              'if(num<0){return"Invalidmodel:"#numarray"isnegative.";}if(num>MAX_ARRAY_SIZE){return"Invalidmodel:"#numarray"istoolarge.";}'
              'intadrsmax=m->adrarray[i]+num;if(adrsmax>m->ntarget||adrsmin<-1){return"Invalidmodel:"#adrarray"outofbounds.";}}')
    want_x64 = want_x.replace("intadrsmax=m->adrarray[i]+num;", "mjtSizeadrsmax=(mjtSize)m->adrarray[i]+num;")
    if xb == want_x:
        r["ref64"] = False
    elif xb == want_x64:
        r["ref64"] = True
    else:
        _err(path, ln, "the per-entry check of MJMODEL_REFERENCES changed: %s" % xb[:200])
    r["refs"] = refs
    # ---- optional second list: references that must not be negative
    reqs = []
    mm = re.search(r"#define MJMODEL_REFERENCES_REQUIRED((?:[^\n]*\\\n)*[^\n]*)\n", body)
    if mm:
        tbl = mm.group(1).replace("\\\n", " ").strip()
        pos = 0
        while pos < len(tbl):
            if tbl[pos].isspace():
                pos += 1
                continue
            mm2 = re.match(r"X\s*\(([^()]*)\)", tbl[pos:])
            if not mm2:
                _err(path, ln, "MJMODEL_REFERENCES_REQUIRED entry near '%s'" % tbl[pos:pos + 40])
            a = [x.strip() for x in mm2.group(1).split(",")]
            pos += mm2.end()
            if len(a) != 2 or a[0] not in arr_index or a[1] not in sidx:
                _err(path, ln, "required-reference entry %s" % (a,))
            A = xm["arrays"][arr_index[a[0]]]
            if A["type"] != "int" or A["nr_idx"] != sidx[a[1]] or A["nc"][0] not in ("c", "k"):
                _err(path, ln, "required reference %s: validator reads %s ints of an array (%s x %s) of %s" % (a[0], a[1], A["nr"], A["nc_txt"], A["type"]))
            reqs.append({"arr": arr_index[a[0]], "name": a[0], "cnt": sidx[a[1]]})
        xmac2 = re.search(r"#define X\(adrarray, nadrs\)(.*?)\n\s*MJMODEL_REFERENCES_REQUIRED;", body, flags=re.S)
        if not xmac2:
            _err(path, ln, "X macro of MJMODEL_REFERENCES_REQUIRED")
        xb2 = re.sub(r"[\s\\]+", "", xmac2.group(1))
        if xb2 != 'for(inti=0;i<m->nadrs;i++){if(m->adrarray[i]<0){return"Invalidmodel:"#adrarray"isnegative.";}}':
            _err(path, ln, "the per-entry check of MJMODEL_REFERENCES_REQUIRED changed: %s" % xb2[:200])
        if body.find("MJMODEL_REFERENCES_REQUIRED;") < body.find("MJMODEL_REFERENCES;"):
            _err(path, ln, "MJMODEL_REFERENCES_REQUIRED must be checked after MJMODEL_REFERENCES")
        if not reqs:
            _err(path, ln, "empty MJMODEL_REFERENCES_REQUIRED")
    elif "MJMODEL_REFERENCES_REQUIRED" in body:
        _err(path, ln, "MJMODEL_REFERENCES_REQUIRED present but not understood")
    r["reqs"] = reqs
    r["path"] = path
    return r


def model_members(repo):
    """non-pointer members of struct mjModel_ in mjmodel.h: [(type, name)]"""
    path = os.path.join(repo, "include", "mujoco", "mjmodel.h")
    with open(path) as f:
        text = _strip_comments(f.read())
    m = re.search(r"struct\s+mjModel_\s*\{(.*?)\n\}\s*mjModel\s*;", text, flags=re.S)
    if not m:
        _err(path, "?", "struct mjModel_")
    out = []
    for stmt in m.group(1).split(";"):
        st = " ".join(stmt.split())
        if not st:
            continue
        mm = re.fullmatch(r"([A-Za-z_][\w ]*?)\s*(\**)\s*(%s)" % IDENT, st)
        if not mm:
            _err(path, "?", "member declaration '%s' of mjModel" % st[:60])
        if not mm.group(2):
            out.append((mm.group(1), mm.group(3)))
    return out


# members of mjModel that are deliberately not part of a file
NOT_SERIALIZED_OK = {"signature"}   # compilation signature shared with the mjSpec; a loaded model has none


# ------------------------------------------------------------------------------------------------
PRIMES = [101, 103, 107, 109, 113, 127, 131, 137, 139, 149, 151, 157, 163, 167, 173, 179, 181, 191, 193, 197,
          199, 211, 223, 227, 229, 233, 239, 241, 251, 257]


def size_assignment(nsizes):
    """distinct values for the size fields used when the compiler evaluates the column counts"""
    return [1000 + 7 * i + (i * i) % 5 for i in range(nsizes)]


def info_source(xm, eio):
    """C program (compiled against the tree's headers) that prints what the compiler knows"""
    consts = sorted({a["nc"][1] for a in xm["arrays"] if a["nc"][0] == "k"} |
                    {rf["mul"] for rf in eio["refs"] if isinstance(rf["mul"], str)})
    types = sorted({a["type"] for a in xm["arrays"]})
    vals = size_assignment(len(xm["sizes"]))
    L = ['#include <stdio.h>', '#include <stddef.h>', '#include <mujoco/mujoco.h>', '#include <mujoco/mjxmacro.h>',
         'int main(void) {', '  static mjModel mm; mjModel* m = &mm;']
    L.append('  printf("V %d\\n", (int)mjVERSION_HEADER);')
    for t in ["int", "mjtSize", "mjtNum"] + types + [t for _, t in eio["structs"]]:
        L.append('  printf("T %s %%lu\\n", (unsigned long)sizeof(%s));' % (t.replace(" ", "_"), t))
    for k in consts:
        L.append('  printf("K %s %%lld\\n", (long long)(%s));' % (k, k))
    for i, s in enumerate(xm["sizes"]):
        L.append('  m->%s = %d;' % (s, vals[i]))
    L.append('#define X(name) printf("S %s %lu %d\\n", #name, (unsigned long)sizeof(m->name), _Generic(m->name, mjtSize: 1, default: 0));')
    L.append('  MJMODEL_SIZES')
    L.append('#undef X')
    L.append('  { MJMODEL_POINTERS_PREAMBLE(m)')
    L.append('#define X(type, name, nr, nc) printf("A %s|%s|%s|%s|%lu|%lld|%lld\\n", #type, #name, #nr, #nc, (unsigned long)sizeof(type), (long long)(m->nr), (long long)(nc));')
    L.append('  MJMODEL_POINTERS')
    L.append('#undef X')
    L.append('  }')
    for f, t in eio["structs"]:
        L.append('  printf("F %s %s %%lu\\n", (unsigned long)sizeof(m->%s));' % (f, t, f))
    L.append('  return 0;\n}')
    return "\n".join(L) + "\n"


def check_info(xm, eio, out):
    """compare the preprocessor/compiler view with the parse; returns dict of measured values"""
    path = xm["path"]
    info = {"T": {}, "K": {}, "S": [], "A": [], "F": []}
    for line in out.split("\n"):
        if not line.strip():
            continue
        tag, rest = line.split(" ", 1)
        if tag == "V":
            info["version"] = int(rest)
        elif tag == "T":
            n, v = rest.rsplit(" ", 1)
            info["T"][n] = int(v)
        elif tag == "K":
            n, v = rest.split()
            info["K"][n] = int(v)
        elif tag == "S":
            n, sz, issize = rest.split()
            info["S"].append((n, int(sz), int(issize)))
        elif tag == "A":
            info["A"].append(rest.split("|"))
        elif tag == "F":
            f, t, sz = rest.split()
            info["F"].append((f, t, int(sz)))
        else:
            _err(path, "?", "unexpected output of the info program: %s" % line[:80])
    if [s for s, _, _ in info["S"]] != xm["sizes"]:
        _err(path, "?", "MJMODEL_SIZES as expanded by the preprocessor differs from the parse")
    for n, sz, issize in info["S"]:
        if sz != 8 or issize != 1:
            _err(path, "?", "size field %s is not an 8-byte mjtSize (the model assumes uniform 8-byte size fields counted by getnsize)" % n)
    if len(info["A"]) != len(xm["arrays"]):
        _err(path, "?", "MJMODEL_POINTERS: preprocessor sees %d arrays, parse %d" % (len(info["A"]), len(xm["arrays"])))
    vals = size_assignment(len(xm["sizes"]))
    for a, row in zip(xm["arrays"], info["A"]):
        typ, name, nr, nc_txt, esz, nrv, ncv = row
        if typ.strip() != a["type"] or name.strip() != a["name"] or nr.strip() != a["nr"] or \
           nc_txt.replace(" ", "") != a["nc_txt"].replace(" ", ""):
            _err(path, "?", "array %s: preprocessor sees (%s,%s,%s,%s)" % (a["name"], typ, name, nr, nc_txt))
        t = a["nc"]
        if t[0] == "c":
            v = t[1]
        elif t[0] == "k":
            if t[1] not in info["K"]:
                _err(path, "?", "constant %s not evaluated" % t[1])
            v = info["K"][t[1]]
        else:
            v = vals[t[1]] * t[2]
        if v != int(ncv) or vals[a["nr_idx"]] != int(nrv):
            _err(path, "?", "array %s: compiler evaluates (%s x %s) to (%s x %s), the parsed term gives (%s x %s)" %
                 (a["name"], a["nr"], a["nc_txt"], nrv, ncv, vals[a["nr_idx"]], v))
        a["esz"] = int(esz)
        a["nc_const"] = v if t[0] != "s" else None
        if int(esz) != info["T"].get(a["type"].replace(" ", "_")):
            _err(path, "?", "sizeof(%s) inconsistent" % a["type"])
    # reference table: the validator reads count*mul ints of arrays that must hold at least as many
    for rf in eio["refs"]:
        if isinstance(rf["mul"], str):
            if rf["mul"] not in info["K"]:
                _err(eio["path"], "?", "constant %s of reference %s not evaluated" % (rf["mul"], rf["name"]))
            rf["mul"] = info["K"][rf["mul"]]
        for ai in [rf["arr"]] + ([rf["num"]] if rf["num"] is not None else []):
            A = xm["arrays"][ai]
            if A["nc_const"] is None or A["nc_const"] < rf["mul"]:
                _err(eio["path"], "?", "reference %s: validator reads %s*%d entries of %s which has (%s x %s)" %
                     (rf["name"], xm["sizes"][rf["cnt"]], rf["mul"], A["name"], A["nr"], A["nc_txt"]))
    if [(f, t) for f, t, _ in info["F"]] != list(eio["structs"]):
        _err(eio["path"], "?", "struct blocks")
    for f, t, sz in info["F"]:
        if info["T"].get(t) != sz:
            _err(eio["path"], "?", "block m->%s is written with sizeof(%s)=%s but the member has %s bytes" % (f, t, info["T"].get(t), sz))
    if info["T"].get("int") != 4 or info["T"].get("mjtSize") != 8:
        _err(path, "?", "sizeof(int)=%s sizeof(mjtSize)=%s: the model assumes 4 and 8" % (info["T"].get("int"), info["T"].get("mjtSize")))
    return info


def coq_text(xm, eio, info):
    sizes, arrays = xm["sizes"], xm["arrays"]
    atom_val = {"ID": eio["ID"], "sizeof(mjtNum)": info["T"]["mjtNum"], "getnsize()": len(sizes),
                "mj_version()": info["version"], "getnptr()": len(arrays)}
    hdr = [atom_val[a] for a in eio["hdr_atoms"]]

    def nc(a):
        t = a["nc"]
        if t[0] == "s":
            return "NcS %d %d" % (t[1], t[2])
        return "NcC %d" % a["nc_const"]
    L = ["(* GENERATED by translate/xmacro2v.py from include/mujoco/mjxmacro.h and src/engine/engine_io.c",
         "   of the tree under test - regenerated on every run, do not edit. *)",
         "From Coq Require Import ZArith List.", "From MJV Require Import Model.MJB.", "Import ListNotations.",
         "Open Scope Z_scope.", "",
         "(* size fields (MJMODEL_SIZES), index : name",
         "   " + " ".join("%d:%s" % (i, s) for i, s in enumerate(sizes)) + " *)", "",
         "Definition real_arrays : list arrdesc := ["]
    rows = []
    for k, a in enumerate(arrays):
        rows.append("  mkArr %d %d (%s) (* %d %s : %s, %s x %s *)" % (a["esz"], a["nr_idx"], nc(a), k, a["name"], a["type"], a["nr"], a["nc_txt"].replace(" ", "")))
    L.append(";\n".join(rows))
    L.append("].\n")
    L.append("Definition real_refs : list refdesc := [")
    rows = []
    for j, rf in enumerate(eio["refs"]):
        rows.append("  mkRef %d %d %d %d (%s) (* %d %s[%s*%d] -> %s, num %s *)" % (
            rf["arr"], rf["cnt"], rf["mul"], rf["tgt"], ("Some %d%%nat" % rf["num"]) if rf["num"] is not None else "None",
            j, rf["name"], sizes[rf["cnt"]], rf["mul"], rf["tgt_name"], rf["num_name"]))
    L.append(";\n".join(rows))
    L.append("].\n")
    L.append("Definition real_reqs : list reqdesc := [")
    L.append(";\n".join("  mkReq %d %d (* %d %s[%s] *)" % (q["arr"], q["cnt"], j, q["name"], sizes[q["cnt"]]) for j, q in enumerate(eio["reqs"])))
    L.append("].\n")
    L.append("Definition real_layout : layout :=")
    L.append("  mkLayout %s %d %d %s %d %d %d %s %d %s real_arrays real_refs real_reqs %s %s." % (
        "[" + "; ".join(map(str, hdr)) + "]", len(sizes), eio["nmake"],
        "[" + "; ".join("%d%%nat" % e for e in eio["exempt"]) + "]", eio["nonzero"], eio["map_idx"], eio["map_mult"],
        "[" + "; ".join("%d%%nat" % t for t in eio["map_terms"]) + "]", eio["align"],
        "[" + "; ".join(str(sz) for _, _, sz in info["F"]) + "]",
        "true" if eio["mapchk"] else "false", "true" if eio["ref64"] else "false"))
    L.append("")
    return "\n".join(L) + "\n", hdr


def translate(repo, run_info):
    """run_info(c_source_text) -> stdout of the compiled info program (raises TranslatorError itself).
    returns ({relpath: text}, meta)"""
    xm = parse_xmacro(repo)
    eio = parse_engine_io(repo, xm)
    out = run_info(info_source(xm, eio))
    info = check_info(xm, eio, out)
    txt, hdr = coq_text(xm, eio, info)
    written = set(xm["sizes"]) | {f for f, _ in eio["structs"]}
    unser = [n for _, n in model_members(repo) if n not in written and n not in NOT_SERIALIZED_OK]
    meta = {"sizes": xm["sizes"], "arrays": xm["arrays"], "refs": eio["refs"], "reqs": eio["reqs"], "unserialized": unser, "hdr": hdr, "nmake": eio["nmake"],
            "structs": [(f, t, sz) for f, t, sz in info["F"]], "map_idx": eio["map_idx"], "map_mult": eio["map_mult"],
            "map_terms": eio["map_terms"], "exempt": eio["exempt"], "nonzero": eio["nonzero"], "align": eio["align"],
            "mapchk": eio["mapchk"], "ref64": eio["ref64"],
            "version": info["version"]}
    return {"Gen/ModelLayout.v": txt}, meta


if __name__ == "__main__":
    import subprocess
    import sys
    import tempfile
    repo = sys.argv[1] if len(sys.argv) > 1 else "/repo"

    def run_info(src):
        d = tempfile.mkdtemp(dir="/var/tmp")
        with open(os.path.join(d, "info.c"), "w") as f:
            f.write(src)
        subprocess.run(["gcc", "-I", os.path.join(repo, "include"), os.path.join(d, "info.c"), "-o", os.path.join(d, "info")], check=True)
        return subprocess.run([os.path.join(d, "info")], capture_output=True, text=True, check=True).stdout
    files, meta = translate(repo, run_info)
    sys.stdout.write(files["Gen/ModelLayout.v"][:3000])
    print("...", len(meta["sizes"]), "sizes", len(meta["arrays"]), "arrays", len(meta["refs"]), "refs", meta["hdr"], meta["structs"])
