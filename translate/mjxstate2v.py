"""mjxstate2v.py — regenerate coq/Gen/MjxStateTable.v from <repo>/mjx/mujoco/mjx/_src/io.py.

Python-`ast` based and fail-closed: raises TranslatorError naming file:line on anything that is not
recognised.  What is read:
  * the module-level dictionary `_STATE_MAP` : mjtState enumerator -> mjx.Data field;
  * `_state_elem_size` : evaluated symbolically for every field of `_STATE_MAP` (restricted statement forms:
    membership guard, `name = _STATE_MAP[state_enum]`, `if name == 'x': return E`,
    `if name in (...): val = getattr(m, {...}[name]); [if name == 'y': val *= K]*; return val`,
    final `raise NotImplementedError`);
  * `state_size`, `get_state`, `set_state` : matched structurally against the templates below (docstrings and
    annotations ignored).  The holes of the templates (loop bound enumerator, upper-bound check enumerator,
    components that are cast and the cast types, the scalar field) are emitted as data; everything else has to
    be literally the template, otherwise the hand-written loop model Model/MjxState.v is not the code.

The output contains only data (strings and Z); its interpretation is Model/MjxState.v.
"""
import ast, os, sys

REL = "mjx/mujoco/mjx/_src/io.py"


class TranslatorError(Exception):
    pass


def _err(line, msg):
    raise TranslatorError("cannot read %s:%d: %s" % (REL, line, msg))


# ------------------------------------------------------------------------------------------ templates
T_STATE_SIZE = '''
def state_size(m, spec):
  size = 0
  spec_int = int(spec)
  for i in range(mujoco.mjtState.HOLEATTR_bound.value):
    element = mujoco.mjtState(1 << i)
    if element & spec_int:
      size += _state_elem_size(m, element)
  return size
'''

T_GET_STATE = '''
def get_state(m, d, spec):
  spec_int = int(spec)
  if spec_int >= (1 << mujoco.mjtState.HOLEATTR_check.value):
    raise ValueError(HOLE_msg1)
  state = []
  for i in range(mujoco.mjtState.HOLEATTR_bound.value):
    element = mujoco.mjtState(1 << i)
    if element & spec_int:
      if element not in _STATE_MAP:
        raise ValueError(HOLE_msg2)
      name = _STATE_MAP[element]
      value = getattr(d, name)
      HOLESTMTS_casts
      state.append(value.flatten())
  return jp.concatenate(state) if state else jp.array([])
'''

T_SET_STATE = '''
def set_state(m, d, state, spec):
  spec_int = int(spec)
  if spec_int >= (1 << mujoco.mjtState.HOLEATTR_check.value):
    raise ValueError(HOLE_msg1)
  expected_size = state_size(m, spec)
  if state.size != expected_size:
    raise ValueError(HOLE_msg2)
  updates = {}
  offset = 0
  for i in range(mujoco.mjtState.HOLEATTR_bound.value):
    element = mujoco.mjtState(1 << i)
    if element & spec_int:
      if element not in _STATE_MAP:
        raise ValueError(HOLE_msg3)
      name = _STATE_MAP[element]
      size = _state_elem_size(m, element)
      value = state[offset : offset + size]
      if name == 'HOLESTR_scalar':
        value = value[0]
      else:
        orig_shape = getattr(d, name).shape
        value = value.reshape(orig_shape)
      HOLESTMTS_casts
      updates[name] = value
      offset += size
  return d.replace(**updates)
'''

# one cast statement: the component and the target type (jp.float32 / bool / ...)
T_CAST = '''
if element == mujoco.mjtState.HOLEATTR_comp:
  value = value.astype(HOLE_type)
'''


def _strip(fn):
    """drop docstring, annotations, decorators are not allowed."""
    if fn.decorator_list:
        _err(fn.lineno, "%s: unexpected decorator" % fn.name)
    fn.returns = None
    a = fn.args
    if a.vararg or a.kwarg or a.kwonlyargs or a.defaults or a.kw_defaults or a.posonlyargs:
        _err(fn.lineno, "%s: unexpected argument form" % fn.name)
    for x in a.args:
        x.annotation = None
        x.type_comment = None
    if fn.body and isinstance(fn.body[0], ast.Expr) and isinstance(fn.body[0].value, ast.Constant) \
            and isinstance(fn.body[0].value.value, str):
        fn.body = fn.body[1:]
    return fn


def _line(node, default):
    return getattr(node, "lineno", default)


class _Matcher:
    def __init__(self, what):
        self.what = what
        self.binds = {}

    def fail(self, s, line, msg):
        _err(_line(s, line), "%s: %s" % (self.what, msg))

    def bind(self, key, val, s, line):
        if key in self.binds and self.binds[key] != val:
            self.fail(s, line, "hole %s bound to both %r and %r" % (key, self.binds[key], val))
        self.binds[key] = val

    def stmts(self, ts, ss, line):
        """match a statement list; a template statement `HOLESTMTS_x` absorbs zero or more cast statements."""
        k = 0
        for idx, t in enumerate(ts):
            if isinstance(t, ast.Expr) and isinstance(t.value, ast.Name) and t.value.id.startswith("HOLESTMTS_"):
                rest = len(ts) - idx - 1
                take = len(ss) - k - rest
                if take < 0:
                    self.fail(ss[k] if k < len(ss) else None, line, "statements missing")
                casts = []
                for s in ss[k:k + take]:
                    m = _Matcher(self.what + " (cast statement)")
                    m.node(ast.parse(T_CAST).body[0], s, _line(s, line))
                    ty = m.binds["type"]
                    casts.append((m.binds["comp"], ty, _line(s, line)))
                self.binds[t.value.id[len("HOLESTMTS_"):]] = casts
                k += take
                continue
            if k >= len(ss):
                self.fail(None, line, "statement missing where the template has `%s`" % ast.unparse(t).split("\n")[0])
            self.node(t, ss[k], _line(ss[k], line))
            k += 1
        if k != len(ss):
            self.fail(ss[k], line, "unrecognised extra statement `%s`" % ast.unparse(ss[k]).split("\n")[0])

    def node(self, t, s, line):
        line = _line(s, line)
        if isinstance(t, ast.Name) and t.id.startswith("HOLE_"):
            if not isinstance(s, ast.expr):
                self.fail(s, line, "expression expected")
            self.bind(t.id[5:], ast.unparse(s), s, line)
            return
        if isinstance(t, ast.Constant) and isinstance(t.value, str) and t.value.startswith("HOLESTR_"):
            if not (isinstance(s, ast.Constant) and isinstance(s.value, str)):
                self.fail(s, line, "string constant expected")
            self.bind(t.value[8:], s.value, s, line)
            return
        if type(t) is not type(s):
            self.fail(s, line, "expected `%s`, found `%s`" % (ast.unparse(t).split("\n")[0], ast.unparse(s).split("\n")[0]))
        if isinstance(t, ast.Attribute) and t.attr.startswith("HOLEATTR_"):
            self.bind(t.attr[9:], s.attr, s, line)
            self.node(t.value, s.value, line)
            return
        for name, tv in ast.iter_fields(t):
            if name in ("ctx", "type_comment", "kind"):
                continue
            sv = getattr(s, name)
            if isinstance(tv, list):
                if tv and all(isinstance(x, ast.stmt) for x in tv) or (not tv and name in ("body", "orelse")):
                    self.stmts(tv, sv, line)
                else:
                    if len(tv) != len(sv):
                        self.fail(s, line, "expected `%s`, found `%s`" % (ast.unparse(t).split("\n")[0], ast.unparse(s).split("\n")[0]))
                    for a, b in zip(tv, sv):
                        self.node(a, b, line) if isinstance(a, ast.AST) else self.leaf(a, b, s, line)
            elif isinstance(tv, ast.AST):
                if not isinstance(sv, ast.AST):
                    self.fail(s, line, "missing part `%s`" % name)
                self.node(tv, sv, line)
            else:
                self.leaf(tv, sv, s, line)

    def leaf(self, tv, sv, s, line):
        if tv != sv or type(tv) is not type(sv):
            self.fail(s, line, "expected %r, found %r in `%s`" % (tv, sv, ast.unparse(s).split("\n")[0]))


def _match_function(fn, template):
    t = _strip(ast.parse(template).body[0])
    m = _Matcher(fn.name)
    m.node(t, _strip(fn), fn.lineno)
    return m.binds


# ------------------------------------------------------------------------------------------ _STATE_MAP
def _enum_name(node):
    """mujoco.mjtState.X -> 'X'"""
    if isinstance(node, ast.Attribute) and isinstance(node.value, ast.Attribute) and node.value.attr == "mjtState" \
            and isinstance(node.value.value, ast.Name) and node.value.value.id == "mujoco":
        return node.attr
    _err(node.lineno, "expected `mujoco.mjtState.<NAME>`, found `%s`" % ast.unparse(node))


def read_state_map(mod):
    found = []
    for st in ast.walk(mod):
        tgt = None
        if isinstance(st, ast.Assign):
            tgt = st.targets
        elif isinstance(st, (ast.AugAssign, ast.AnnAssign)):
            tgt = [st.target]
        elif isinstance(st, ast.Delete):
            tgt = st.targets
        if tgt:
            for t in tgt:
                for n in ast.walk(t):
                    if isinstance(n, ast.Name) and n.id == "_STATE_MAP":
                        found.append(st)
        if isinstance(st, ast.Call) and isinstance(st.func, ast.Attribute) and isinstance(st.func.value, ast.Name) \
                and st.func.value.id == "_STATE_MAP":
            _err(st.lineno, "_STATE_MAP is modified or queried through a method call (%s)" % st.func.attr)
    if len(found) != 1:
        raise TranslatorError("cannot read %s: expected exactly one binding of _STATE_MAP, found %d" % (REL, len(found)))
    st = found[0]
    if not (isinstance(st, ast.Assign) and st in mod.body and len(st.targets) == 1 and isinstance(st.targets[0], ast.Name)
            and isinstance(st.value, ast.Dict)):
        _err(st.lineno, "_STATE_MAP is not a module-level dictionary literal")
    out = []
    for k, v in zip(st.value.keys, st.value.values):
        if k is None:
            _err(st.lineno, "_STATE_MAP: dictionary unpacking")
        comp = _enum_name(k)
        if not (isinstance(v, ast.Constant) and isinstance(v.value, str)):
            _err(v.lineno, "_STATE_MAP: value of %s is not a string" % comp)
        if comp in [c for c, _, _ in out]:
            _err(k.lineno, "_STATE_MAP: duplicate key %s" % comp)
        out.append((comp, v.value, k.lineno))
    return out


# ------------------------------------------------------------------------------------------ _state_elem_size
def _is_name(n, ident):
    return isinstance(n, ast.Name) and n.id == ident


def _str(n):
    if isinstance(n, ast.Constant) and isinstance(n.value, str):
        return n.value
    _err(n.lineno, "string constant expected, found `%s`" % ast.unparse(n))


def _cmp_name_eq(test):
    """`name == 'x'` -> 'x'"""
    if isinstance(test, ast.Compare) and _is_name(test.left, "name") and len(test.ops) == 1 and isinstance(test.ops[0], ast.Eq):
        return _str(test.comparators[0])
    return None


def _size_expr(e):
    """INT | m.dim | INT*m.dim | m.dim*INT -> (coef, dim)"""
    def dim(x):
        if isinstance(x, ast.Attribute) and _is_name(x.value, "m"):
            return x.attr
        return None

    def num(x):
        if isinstance(x, ast.Constant) and type(x.value) is int and x.value >= 0:
            return x.value
        return None
    if num(e) is not None:
        return (num(e), "")
    if dim(e):
        return (1, dim(e))
    if isinstance(e, ast.BinOp) and isinstance(e.op, ast.Mult):
        if num(e.left) is not None and dim(e.right):
            return (num(e.left), dim(e.right))
        if num(e.right) is not None and dim(e.left):
            return (num(e.right), dim(e.left))
    _err(e.lineno, "_state_elem_size: unrecognised size expression `%s`" % ast.unparse(e))


def read_elem_size(fn, fields):
    """symbolic evaluation of _state_elem_size for each field name; returns {field: (coef, dim)} (fields that reach
    the final raise are left out: the Coq table then has no entry and the table theorem fails visibly)."""
    fn = _strip(fn)
    if [a.arg for a in fn.args.args] != ["m", "state_enum"]:
        _err(fn.lineno, "_state_elem_size: unexpected parameters")
    body = fn.body
    if len(body) < 3:
        _err(fn.lineno, "_state_elem_size: body too short")
    g = _Matcher("_state_elem_size")
    g.stmts(ast.parse("if state_enum not in _STATE_MAP:\n  raise ValueError(HOLE_msg)\nname = _STATE_MAP[state_enum]").body,
            body[:2], fn.lineno)
    last = body[-1]
    if not (isinstance(last, ast.Raise) and isinstance(last.exc, ast.Call) and _is_name(last.exc.func, "NotImplementedError")):
        _err(last.lineno, "_state_elem_size: does not end with `raise NotImplementedError(...)`")
    rules = []     # (kind, payload, line)
    for st in body[2:-1]:
        if not isinstance(st, ast.If) or st.orelse:
            _err(st.lineno, "_state_elem_size: unrecognised statement `%s`" % ast.unparse(st).split("\n")[0])
        nm = _cmp_name_eq(st.test)
        if nm is not None:
            if len(st.body) != 1 or not isinstance(st.body[0], ast.Return) or st.body[0].value is None:
                _err(st.lineno, "_state_elem_size: branch `name == %r` is not a single return" % nm)
            rules.append(("eq", (nm, _size_expr(st.body[0].value)), st.lineno))
            continue
        t = st.test
        if isinstance(t, ast.Compare) and _is_name(t.left, "name") and len(t.ops) == 1 and isinstance(t.ops[0], ast.In) \
                and isinstance(t.comparators[0], (ast.Tuple, ast.List)):
            names = [_str(x) for x in t.comparators[0].elts]
            b = st.body
            if len(b) < 2 or not isinstance(b[-1], ast.Return) or not _is_name(b[-1].value, "val"):
                _err(st.lineno, "_state_elem_size: `name in (...)` branch does not end with `return val`")
            a0 = b[0]
            ok = (isinstance(a0, ast.Assign) and len(a0.targets) == 1 and _is_name(a0.targets[0], "val")
                  and isinstance(a0.value, ast.Call) and _is_name(a0.value.func, "getattr") and len(a0.value.args) == 2
                  and not a0.value.keywords and _is_name(a0.value.args[0], "m")
                  and isinstance(a0.value.args[1], ast.Subscript) and isinstance(a0.value.args[1].value, ast.Dict)
                  and _is_name(a0.value.args[1].slice, "name"))
            if not ok:
                _err(a0.lineno, "_state_elem_size: expected `val = getattr(m, {...}[name])`")
            dct = a0.value.args[1].value
            dims = {}
            for k, v in zip(dct.keys, dct.values):
                if k is None:
                    _err(a0.lineno, "_state_elem_size: dictionary unpacking")
                ks = _str(k)
                if ks in dims:
                    _err(k.lineno, "_state_elem_size: duplicate key %r in the dimension dictionary" % ks)
                dims[ks] = _str(v)
            mults = []
            for s2 in b[1:-1]:
                nm2 = _cmp_name_eq(s2.test) if isinstance(s2, ast.If) and not s2.orelse else None
                ok2 = (nm2 is not None and len(s2.body) == 1 and isinstance(s2.body[0], ast.AugAssign)
                       and _is_name(s2.body[0].target, "val") and isinstance(s2.body[0].op, ast.Mult)
                       and isinstance(s2.body[0].value, ast.Constant) and type(s2.body[0].value.value) is int
                       and s2.body[0].value.value >= 0)
                if not ok2:
                    _err(s2.lineno, "_state_elem_size: expected `if name == '...': val *= K`, found `%s`" % ast.unparse(s2).split("\n")[0])
                mults.append((nm2, s2.body[0].value.value))
            rules.append(("in", (names, dims, mults), st.lineno))
            continue
        _err(st.lineno, "_state_elem_size: unrecognised condition `%s`" % ast.unparse(st.test))
    sizes = {}
    for f in fields:
        for kind, pl, ln in rules:
            if kind == "eq":
                if pl[0] == f:
                    sizes[f] = (pl[1], ln)
                    break
            else:
                names, dims, mults = pl
                if f in names:
                    if f not in dims:
                        _err(ln, "_state_elem_size: %r is in the tuple but not in the dimension dictionary (KeyError at run time)" % f)
                    coef = 1
                    for nm2, k in mults:
                        if nm2 == f:
                            coef *= k
                    sizes[f] = ((coef, dims[f]), ln)
                    break
    return sizes


# ------------------------------------------------------------------------------------------ output
def _s(x):
    if '"' in x or "\\" in x or "\n" in x:
        raise TranslatorError("cannot read %s: unexpected character in identifier %r" % (REL, x))
    return '"%s"' % x


def read(repo):
    path = os.path.join(repo, REL)
    try:
        with open(path) as f:
            src = f.read()
    except OSError:
        raise TranslatorError("cannot read %s: file missing" % REL)
    try:
        mod = ast.parse(src)
    except SyntaxError as e:
        raise TranslatorError("cannot read %s:%s: syntax error" % (REL, e.lineno))
    fns = {}
    for st in ast.walk(mod):
        if isinstance(st, (ast.FunctionDef, ast.AsyncFunctionDef, ast.Lambda)) and getattr(st, "name", None) in \
                ("_state_elem_size", "state_size", "get_state", "set_state"):
            if st.name in fns or st not in mod.body or not isinstance(st, ast.FunctionDef):
                _err(st.lineno, "%s is defined twice or not at module level" % st.name)
            fns[st.name] = st
    # later rebinding of the public names (e.g. get_state = other) would bypass the functions read here
    for st in ast.walk(mod):
        if isinstance(st, (ast.Assign, ast.AugAssign, ast.AnnAssign)):
            tg = st.targets if isinstance(st, ast.Assign) else [st.target]
            for t in tg:
                for n in ast.walk(t):
                    if isinstance(n, ast.Name) and n.id in ("_state_elem_size", "state_size", "get_state", "set_state"):
                        _err(st.lineno, "%s is rebound by an assignment" % n.id)
    for name in ("_state_elem_size", "state_size", "get_state", "set_state"):
        if name not in fns:
            raise TranslatorError("cannot read %s: function %s not found" % (REL, name))
    smap = read_state_map(mod)
    sizes = read_elem_size(fns["_state_elem_size"], [f for _, f, _ in smap])
    b_size = _match_function(fns["state_size"], T_STATE_SIZE)
    b_get = _match_function(fns["get_state"], T_GET_STATE)
    b_set = _match_function(fns["set_state"], T_SET_STATE)
    return smap, sizes, b_size, b_get, b_set


def _cast_type(ty, line):
    """normalise the cast target: jp.float32 / jp.float64 / float -> "float", bool / jp.bool_ -> "bool"."""
    if ty in ("jp.float32", "jp.float64", "float", "jp.float_"):
        return "float"
    if ty in ("bool", "jp.bool_"):
        return "bool"
    _err(line, "unrecognised cast target `%s`" % ty)


def generate(repo):
    smap, sizes, b_size, b_get, b_set = read(repo)
    o = []
    o.append("(* GENERATED by translate/mjxstate2v.py from %s -- do not edit. *)" % REL)
    o.append("From Coq Require Import String ZArith List.")
    o.append("Import ListNotations.")
    o.append("Open Scope string_scope. Open Scope Z_scope.")
    o.append("")
    o.append("(* _STATE_MAP, in source order: (mjtState enumerator, mjx.Data field) *)")
    o.append("Definition mjx_state_map : list (string * string) := [")
    o.append(";\n".join("  (%s, %s)  (* %s:%d *)" % (_s(c), _s(f), REL, ln) for c, f, ln in smap))
    o.append("].")
    o.append("(* _state_elem_size evaluated symbolically for each field of _STATE_MAP: (field, (coefficient, model dimension)) *)")
    o.append("Definition mjx_size_cases : list (string * (Z * string)) := [")
    rows, seen = [], set()
    for c, f, ln in smap:
        if f in sizes and f not in seen:
            seen.add(f)
            (coef, dim), l2 = sizes[f]
            rows.append("  (%s, (%d, %s))  (* %s:%d *)" % (_s(f), coef, _s(dim), REL, l2))
    o.append(";\n".join(rows))
    o.append("].")
    o.append("(* enumerator bounding the loop over state elements: (function, enumerator) *)")
    o.append("Definition mjx_loop_bounds : list (string * string) := [")
    o.append(";\n".join("  (%s, %s)" % (_s(fn), _s(b["bound"])) for fn, b in (("state_size", b_size), ("get_state", b_get), ("set_state", b_set))))
    o.append("].")
    o.append("(* enumerator N of the check `spec_int >= (1 << N)` that raises ValueError: (function, enumerator) *)")
    o.append("Definition mjx_sig_checks : list (string * string) := [")
    o.append(";\n".join("  (%s, %s)" % (_s(fn), _s(b["check"])) for fn, b in (("get_state", b_get), ("set_state", b_set))))
    o.append("].")
    o.append("(* cast statements `if element == C: value = value.astype(T)`: (function, (component, \"float\" | \"bool\")) *)")
    o.append("Definition mjx_casts : list (string * (string * string)) := [")
    rows = []
    for fn, b in (("get_state", b_get), ("set_state", b_set)):
        for comp, ty, ln in b["casts"]:
            rows.append("  (%s, (%s, %s))  (* %s:%d *)" % (_s(fn), _s(comp), _s(_cast_type(ty, ln)), REL, ln))
    o.append(";\n".join(rows))
    o.append("].")
    o.append("(* the field set_state stores as a scalar (value[0]) instead of reshaping *)")
    o.append("Definition mjx_scalar_field : string := %s." % _s(b_set["scalar"]))
    o.append("")
    return "\n".join(o)


if __name__ == "__main__":
    repo = sys.argv[1] if len(sys.argv) > 1 else os.environ.get("VERIF_REPO", "/repo")
    try:
        sys.stdout.write(generate(repo))
    except TranslatorError as e:
        sys.stderr.write("TranslatorError: %s\n" % e)
        sys.exit(2)
