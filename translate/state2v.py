"""state2v.py — regenerate coq/Gen/StateTable.v from the working tree (python3 stdlib only).

Reads, fail-closed (raises TranslatorError naming file:line on anything it does not recognise):
  * `typedef enum mjtState { ... } mjtState;`          (whichever include/mujoco/*.h defines it)
  * `mj_stateElemSize` switch  (src/engine/engine_support.c): component -> size expression
  * `mj_stateElemPtr` switch   (same file):               component -> mjData field
  * the `if (element == X) {...}` special block of mj_getState / mj_setState / mj_copyState
  * `MJDATA_POINTERS` and `MJDATA_SCALAR` of include/mujoco/mjxmacro.h: field -> (type, nr, nc)

The output contains only data (strings and Z); its interpretation is Model/StateAPI.v.
"""
import glob, os, re, sys


class TranslatorError(Exception):
    pass


def _err(path, line, msg):
    raise TranslatorError("cannot read %s:%d: %s" % (path, line, msg))


def _strip_comments(text):
    """remove // and /* */ comments, keeping line structure."""
    out = []
    i, n = 0, len(text)
    while i < n:
        if text.startswith("//", i):
            j = text.find("\n", i)
            i = n if j < 0 else j
        elif text.startswith("/*", i):
            j = text.find("*/", i + 2)
            if j < 0:
                raise TranslatorError("unterminated comment")
            out.append("\n" * text.count("\n", i, j + 2))
            i = j + 2
        elif text[i] == '"':
            j = i + 1
            while j < n and text[j] != '"':
                j += 2 if text[j] == "\\" else 1
            out.append(text[i:j + 1])
            i = j + 1
        else:
            out.append(text[i])
            i += 1
    return "".join(out)


def _lineno(text, pos):
    return text.count("\n", 0, pos) + 1


def _match_brace(text, open_pos, path):
    depth = 0
    for i in range(open_pos, len(text)):
        c = text[i]
        if c == "{":
            depth += 1
        elif c == "}":
            depth -= 1
            if depth == 0:
                return i
    _err(path, _lineno(text, open_pos), "unbalanced braces")


# ---------------------------------------------------------------------------------- enum
def read_enum(repo):
    cands = []
    for h in sorted(glob.glob(os.path.join(repo, "include", "mujoco", "*.h"))):
        with open(h) as f:
            t = f.read()
        if re.search(r"typedef\s+enum\s+mjtState\b", t):
            cands.append((h, t))
    if len(cands) != 1:
        raise TranslatorError("cannot read include/mujoco/*.h: expected exactly one definition of enum mjtState, found %d" % len(cands))
    path, raw = cands[0]
    text = _strip_comments(raw)
    m = re.search(r"typedef\s+enum\s+mjtState\w*\s*\{", text)
    end = _match_brace(text, m.end() - 1, path)
    tail = re.match(r"\s*mjtState\s*;", text[end + 1:])
    if not tail:
        _err(path, _lineno(text, end), "enum mjtState is not closed by `} mjtState;`")
    body = text[m.end():end]
    base_line = _lineno(text, m.end())
    entries = []     # (name, value, kind, line)
    known = {}
    pos = 0
    for part in body.split(","):
        line = base_line + body.count("\n", 0, pos + (len(part) - len(part.lstrip())))
        pos += len(part) + 1
        p = " ".join(part.split())
        if not p:
            continue
        mm = re.match(r"^(mj\w+)\s*=\s*(.+)$", p)
        if not mm:
            _err(path, line, "enum entry without explicit value: %r" % p)
        name, expr = mm.group(1), mm.group(2)
        if name in known:
            _err(path, line, "duplicate enumerator %s" % name)
        sh = re.match(r"^1\s*<<\s*(\d+)$", expr)
        if sh:
            val, kind = 1 << int(sh.group(1)), "bit"
        elif re.match(r"^\d+$", expr):
            val, kind = int(expr), "int"
        else:
            val = 0
            for tok in expr.split("|"):
                tok = tok.strip()
                if tok not in known:
                    _err(path, line, "unrecognised term %r in value of %s" % (tok, name))
                val |= known[tok]
            kind = "combo"
        known[name] = val
        entries.append((name, val, kind, line))
    if "mjNSTATE" not in known:
        _err(path, base_line, "mjNSTATE not found in enum mjtState")
    for name, val, kind, line in entries:
        if kind == "int" and name != "mjNSTATE":
            _err(path, line, "unexpected integer-valued enumerator %s" % name)
    return os.path.relpath(path, repo), entries, known["mjNSTATE"]


# ---------------------------------------------------------------------------------- functions
def _function_body(text, header_re, path):
    ms = list(re.finditer(header_re, text))
    if len(ms) != 1:
        raise TranslatorError("cannot read %s: expected exactly one definition matching /%s/, found %d" % (path, header_re, len(ms)))
    m = ms[0]
    op = text.index("{", m.end() - 1)
    end = _match_brace(text, op, path)
    return text[op + 1:end], _lineno(text, op)


def _switch_cases(body, line0, path, what):
    """parse `switch (sig) { case A: return E; ... default: mjERROR(...); return R; }`;
    returns list of (name, expr_text, line).  Everything else in the function must be blank."""
    m = re.match(r"^\s*switch\s*\(\s*sig\s*\)\s*\{", body)
    if not m:
        _err(path, line0, "%s: body does not start with `switch (sig) {`" % what)
    end = _match_brace(body, m.end() - 1, path)
    if body[end + 1:].strip():
        _err(path, line0 + body.count("\n", 0, end), "%s: code after the switch" % what)
    inner = body[m.end():end]
    cases = []
    pending = []
    seen_default = False
    stmts = inner.split("\n")
    for k, raw in enumerate(stmts):
        ln = line0 + body.count("\n", 0, m.end()) + k
        s = raw.strip()
        while s:
            mm = re.match(r"^case\s+(mj\w+)\s*:\s*", s)
            if mm:
                if seen_default:
                    _err(path, ln, "%s: case after default" % what)
                pending.append(mm.group(1))
                s = s[mm.end():]
                continue
            mm = re.match(r"^default\s*:\s*", s)
            if mm:
                if pending:
                    _err(path, ln, "%s: labels %s fall through into default" % (what, pending))
                seen_default = True
                s = s[mm.end():]
                continue
            mm = re.match(r"^return\s+([^;]+);\s*", s)
            if mm:
                if seen_default:
                    if mm.group(1).strip() not in ("0", "NULL"):
                        _err(path, ln, "%s: default returns %r" % (what, mm.group(1)))
                elif not pending:
                    _err(path, ln, "%s: return without a case label" % what)
                else:
                    for nm in pending:
                        cases.append((nm, mm.group(1).strip(), ln))
                    pending = []
                s = s[mm.end():]
                continue
            mm = re.match(r'^mjERROR\s*\("[^"]*"(\s*,\s*\w+)*\)\s*;\s*', s)
            if mm and seen_default:
                s = s[mm.end():]
                continue
            _err(path, ln, "%s: unrecognised statement %r" % (what, s))
    if pending:
        _err(path, line0, "%s: labels %s without return" % (what, pending))
    if not seen_default:
        _err(path, line0, "%s: no default branch" % what)
    names = [c[0] for c in cases]
    if len(set(names)) != len(names):
        _err(path, line0, "%s: duplicate case label" % what)
    return cases


def _size_expr(expr, path, ln):
    """INT | m->dim | INT*m->dim | m->dim*INT  ->  (coef, dim)  with dim '' for a constant."""
    e = expr.replace(" ", "")
    mm = re.match(r"^(\d+)$", e)
    if mm:
        return int(mm.group(1)), ""
    mm = re.match(r"^m->(\w+)$", e)
    if mm:
        return 1, mm.group(1)
    mm = re.match(r"^(\d+)\*m->(\w+)$", e)
    if mm:
        return int(mm.group(1)), mm.group(2)
    mm = re.match(r"^m->(\w+)\*(\d+)$", e)
    if mm:
        return int(mm.group(2)), mm.group(1)
    _err(path, ln, "mj_stateElemSize: unrecognised size expression %r" % expr)


def _ptr_expr(expr, path, ln):
    e = expr.replace(" ", "")
    mm = re.match(r"^&d->(\w+)$", e)
    if mm:
        return mm.group(1), True
    mm = re.match(r"^d->(\w+)$", e)
    if mm:
        return mm.group(1), False
    _err(path, ln, "mj_stateElemPtr: unrecognised pointer expression %r" % expr)


SPECIAL_STMT = {
    "mj_getState": r"^state\[adr\+\+\]=d->(\w+)\[j\];$",
    "mj_setState": r"^d->(\w+)\[j\]=state\[adr\+\+\];$",
    "mj_copyState": r"^dst->(\w+)\[j\]=src->(\w+)\[j\];$",
}


def _special(fn, body, line0, path):
    """the `if (element == X) { int n = m->dim; for (int j=0; j < n; j++) { <stmt> } }` block of fn."""
    ms = list(re.finditer(r"if\s*\(\s*element\s*==\s*(mj\w+)\s*\)\s*\{", body))
    out = []
    for m in ms:
        ln = line0 + body.count("\n", 0, m.start())
        end = _match_brace(body, m.end() - 1, path)
        blk = "".join(body[m.end():end].split())
        mm = re.match(r"^int(\w+)=m->(\w+);for\(intj=0;j<(\w+);j\+\+\)\{(.*)\}$", blk)
        if not mm or mm.group(1) != mm.group(3):
            _err(path, ln, "%s: unrecognised special-case block for %s: %r" % (fn, m.group(1), blk[:120]))
        st = re.match(SPECIAL_STMT[fn], mm.group(4))
        if not st:
            _err(path, ln, "%s: unrecognised statement in special-case block: %r" % (fn, mm.group(4)))
        fields = set(st.groups())
        if len(fields) != 1:
            _err(path, ln, "%s: special-case block copies between different fields %s" % (fn, sorted(fields)))
        out.append((fn, m.group(1), mm.group(2), fields.pop(), ln))
    if re.search(r"element\s*(==|!=)", re.sub(r"if\s*\(\s*element\s*==\s*mj\w+\s*\)\s*\{", "", body)):
        _err(path, line0, "%s: comparison on `element` outside the recognised special-case form" % fn)
    return out


def read_support(repo):
    rel = "src/engine/engine_support.c"
    path = os.path.join(repo, rel)
    try:
        with open(path) as f:
            text = _strip_comments(f.read())
    except OSError:
        raise TranslatorError("cannot read %s: file missing" % rel)
    body, l0 = _function_body(text, r"\bint\s+mj_stateElemSize\s*\(\s*const\s+mjModel\s*\*\s*m\s*,\s*mjtState\s+sig\s*\)\s*\{", rel)
    sizes = [(n, _size_expr(e, rel, ln), ln) for n, e, ln in _switch_cases(body, l0, rel, "mj_stateElemSize")]
    body, l0 = _function_body(text, r"\bmjtNum\s*\*\s*mj_stateElemPtr\s*\(\s*const\s+mjModel\s*\*\s*m\s*,\s*mjData\s*\*\s*d\s*,\s*mjtState\s+sig\s*\)\s*\{", rel)
    ptrs = [(n, _ptr_expr(e, rel, ln), ln) for n, e, ln in _switch_cases(body, l0, rel, "mj_stateElemPtr")]
    # const accessor must forward to mj_stateElemPtr
    body, l0 = _function_body(text, r"\bmj_stateElemConstPtr\s*\([^)]*\)\s*\{", rel)
    if "".join(body.split()) != "returnmj_stateElemPtr(m,(mjData*)d,sig);":
        _err(rel, l0, "mj_stateElemConstPtr does not simply forward to mj_stateElemPtr")
    specials = []
    loops = {}
    for fn, sig_re in (("mj_stateSize", r"\bint\s+mj_stateSize\s*\([^)]*\)\s*\{"),
                       ("mj_getState", r"\bvoid\s+mj_getState\s*\([^)]*\)\s*\{"),
                       ("mj_setState", r"\bvoid\s+mj_setState\s*\([^)]*\)\s*\{"),
                       ("mj_extractState", r"\bvoid\s+mj_extractState\s*\([^)]*\)\s*\{"),
                       ("mj_copyState", r"\bvoid\s+mj_copyState\s*\([^)]*\)\s*\{")):
        body, l0 = _function_body(text, sig_re, rel)
        flat = "".join(body.split())
        # the loop over state elements: bound and element computation
        lm = re.search(r"for\(inti=0;i<(\w+);i\+\+\)\{mjtStateelement=1<<i;", flat)
        if not lm:
            _err(rel, l0, "%s: loop `for (int i=0; i < N; i++) { mjtState element = 1<<i;` not found" % fn)
        loops[fn] = lm.group(1)
        if "mj_stateElemSize(m,element)" not in flat:
            _err(rel, l0, "%s: does not take element sizes from mj_stateElemSize(m, element)" % fn)
        if fn in SPECIAL_STMT:
            specials += _special(fn, body, l0, rel)
    return rel, sizes, ptrs, specials, loops


# ---------------------------------------------------------------------------------- xmacros
def read_xmacro(repo):
    rel = "include/mujoco/mjxmacro.h"
    path = os.path.join(repo, rel)
    try:
        with open(path) as f:
            lines = f.read().split("\n")
    except OSError:
        raise TranslatorError("cannot read %s: file missing" % rel)

    def macro(name):
        for i, l in enumerate(lines):
            if re.match(r"^#define\s+%s\s*\\\s*$" % name, l):
                out = []
                j = i + 1
                while True:
                    out.append((j + 1, lines[j]))
                    if not lines[j].rstrip().endswith("\\"):
                        break
                    j += 1
                return out
        raise TranslatorError("cannot read %s: macro %s not found" % (rel, name))

    fields = []
    for ln, l in macro("MJDATA_POINTERS"):
        s = l.rstrip().rstrip("\\").strip()
        if not s:
            continue
        mm = re.match(r"^(X|XNV)\s*\(\s*(\w+)\s*,\s*(\w+)\s*,\s*(\w+)\s*,\s*(\w+)\s*\)$", s)
        if not mm:
            _err(rel, ln, "MJDATA_POINTERS: unrecognised entry %r" % s)
        fields.append((mm.group(3), mm.group(2), mm.group(4), mm.group(5), ln))
    scalars = []
    for ln, l in macro("MJDATA_SCALAR"):
        s = l.rstrip().rstrip("\\").strip()
        if not s:
            continue
        mm = re.match(r"^X\s*\(\s*(\w+)\s*,\s*(\w+)\s*\)$", s)
        if not mm:
            _err(rel, ln, "MJDATA_SCALAR: unrecognised entry %r" % s)
        scalars.append((mm.group(2), mm.group(1), ln))
    return rel, fields, scalars


# ---------------------------------------------------------------------------------- output
def _s(x):
    return '"%s"' % x


def generate(repo):
    enum_path, entries, nstate = read_enum(repo)
    sup_path, sizes, ptrs, specials, loops = read_support(repo)
    xm_path, fields, scalars = read_xmacro(repo)
    for fn, bound in loops.items():
        if bound != "mjNSTATE":
            raise TranslatorError("cannot read %s: %s loops up to %s, not mjNSTATE" % (sup_path, fn, bound))
    used = {f for (_, (f, _), _) in ptrs} | {f for (_, _, _, f, _) in specials}
    fdims = []
    for name, typ, nr, nc, ln in fields:
        if not re.match(r"^\d+$", nc):
            if name in used:
                _err(xm_path, ln, "MJDATA_POINTERS: state field %s has a non-literal second dimension %s" % (name, nc))
            continue
        fdims.append((name, typ, int(nc), nr, ln))
    o = []
    o.append("(* GENERATED by translate/state2v.py from %s, %s, %s -- do not edit. *)" % (enum_path, sup_path, xm_path))
    o.append("From Coq Require Import String ZArith List.")
    o.append("Import ListNotations.")
    o.append("Open Scope string_scope. Open Scope Z_scope.")
    o.append("")
    o.append("(* enumerators of mjtState whose value is written 1<<k : (name, value) *)")
    o.append("Definition enum_bits : list (string * Z) := [")
    o.append(";\n".join("  (%s, %d)  (* %s:%d *)" % (_s(n), v, enum_path, ln) for n, v, k, ln in entries if k == "bit"))
    o.append("].")
    o.append("Definition nstate : Z := %d." % nstate)
    o.append("(* convenience combinations: (name, value) *)")
    o.append("Definition enum_combos : list (string * Z) := [")
    o.append(";\n".join("  (%s, %d)" % (_s(n), v) for n, v, k, ln in entries if k == "combo"))
    o.append("].")
    o.append("")
    o.append("(* mj_stateElemSize: (component, (coefficient, model dimension)); dimension \"\" = constant *)")
    o.append("Definition size_cases : list (string * (Z * string)) := [")
    o.append(";\n".join("  (%s, (%d, %s))  (* %s:%d *)" % (_s(n), c, _s(d), sup_path, ln) for n, (c, d), ln in sizes))
    o.append("].")
    o.append("(* mj_stateElemPtr: (component, mjData field) *)")
    o.append("Definition ptr_cases : list (string * string) := [")
    o.append(";\n".join("  (%s, %s)  (* %s:%d%s *)" % (_s(n), _s(f), sup_path, ln, " scalar" if sc else "") for n, (f, sc), ln in ptrs))
    o.append("].")
    o.append("(* special-case blocks `if (element == X)`: (function, component, loop-count dimension, field) *)")
    o.append("Definition specials : list (string * (string * (string * string))) := [")
    o.append(";\n".join("  (%s, (%s, (%s, %s)))  (* %s:%d *)" % (_s(fn), _s(c), _s(d), _s(f), sup_path, ln) for fn, c, d, f, ln in specials))
    o.append("].")
    o.append("")
    o.append("(* MJDATA_POINTERS (literal second dimension) and MJDATA_SCALAR: (field, (C type, (nc, nr))) ; nr \"\" = scalar *)")
    o.append("Definition field_dims : list (string * (string * (Z * string))) := [")
    rows = ["  (%s, (%s, (%d, %s)))" % (_s(n), _s(t), nc, _s(nr)) for n, t, nc, nr, ln in fdims]
    rows += ["  (%s, (%s, (1, \"\")))" % (_s(n), _s(t)) for n, t, ln in scalars]
    o.append(";\n".join(rows))
    o.append("].")
    o.append("")
    return "\n".join(o)


if __name__ == "__main__":
    repo = sys.argv[1] if len(sys.argv) > 1 else os.environ.get("VERIF_REPO", "/repo")
    try:
        sys.stdout.write(generate(repo))
    except TranslatorError as e:
        sys.stderr.write("TranslatorError: %s\n" % e)
        sys.exit(2)
