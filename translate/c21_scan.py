"""C21 source scan (translator-lite, fail closed).

For every function whose allocation protocol is transcribed in coq/Model/AllocProto.v, extract from
the working tree the ordered list of allocation-relevant tokens (allocator calls, frees, object
destructors, error/warning calls with their message, returns, the engine calls of the compiler) and
compare it with the list the model was written against (EXPECTED below).  Two kinds of difference
are understood and select a *variant* of the model instead of breaking the tie:
  * one of the three buffer allocations (mjModel buffer, mjData buffer, mjData arena) calls an
    allocator other than mju_malloc whose body in engine_util_errmem.c does not call mju_error
    (then the caller's cleanup runs before the error is raised): v_mbuf / v_dbuf / v_darena;
  * mj_loadModelBuffer calls mj_deleteModel before returning NULL on "ran out of data while reading
    structs": v_lstructs;
  * the arena-failure cleanup of mj_makeRawData clears d->buffer after freeing it: v_dnull;
  * d->nplugin is cleared by the in-place mj_makeRawData right after freeDataBuffers and raised instance by
    instance in mj_initPlugin (both, or neither): v_npl.
Anything else raises TranslatorError naming the function and the first differing token.
"""
import os, re, sys

sys.path.insert(0, os.path.join(os.path.dirname(os.path.dirname(os.path.abspath(__file__))), "harness"))
import framework as F  # noqa: E402

ALLOC_RE = r"mju_\w*[mM]alloc\w*"
TOKEN_RE = re.compile(
    r"\b(" + ALLOC_RE + r"|mju_free|mj_deleteModel|mj_deleteData|mj_deleteVFS|mju_error|mjERROR|mju_warning|return|"
    r"mj_makeModel|mj_makeRawData|mj_makeData|mj_initPlugin|mj_resetData|_resetData|freeModelBuffers|"
    r"freeDataBuffers|mj_copyDataVisual|mju_threadpool|mj_step|mj_setConst|longjmp|setjmp|throw|"
    r"TryCompile|mj_saveModel|mju_writeResource|mj_defaultVFS|MakeData|Compile|catch)\b(\s*\(\s*\"((?:[^\"\\]|\\.)*)\")?"
    r"|(d->buffer\s*=\s*NULL\s*;)|(d->nplugin\s*=\s*[^;=]+;)")

# (file, name used in messages, regex matching the start of the definition)
FUNCS = [
    ("src/engine/engine_util_errmem.c", "mju_malloc", r"^void\* mju_malloc\(size_t size\) \{"),
    ("src/engine/engine_util_errmem.c", "mju_free", r"^void mju_free\(void\* ptr\) \{"),
    ("src/engine/engine_io.c", "freeModelBuffers", r"^static void freeModelBuffers\(mjModel\* m\) \{"),
    ("src/engine/engine_io.c", "mj_makeModel", r"^void mj_makeModel\(mjModel\*\* dest,"),
    ("src/engine/engine_io.c", "mj_copyModel", r"^mjModel\* mj_copyModel\(mjModel\* dest, const mjModel\* src\) \{"),
    ("src/engine/engine_io.c", "mj_saveModel", r"^void mj_saveModel\(const mjModel\* m, const char\* filename, void\* buffer, int buffer_sz\) \{"),
    ("src/engine/engine_io.c", "mj_loadModelBuffer", r"^mjModel\* mj_loadModelBuffer\(const void\* buffer, int buffer_sz\) \{"),
    ("src/engine/engine_io.c", "mj_deleteModel", r"^void mj_deleteModel\(mjModel\* m\) \{"),
    ("src/engine/engine_io.c", "mj_initPlugin", r"^void mj_initPlugin\(const mjModel\* m, mjData\* d\) \{"),
    ("src/engine/engine_io.c", "freeDataBuffers", r"^static void freeDataBuffers\(mjData\* d\) \{"),
    ("src/engine/engine_io.c", "mj_makeRawData", r"^void mj_makeRawData\(mjData\*\* dest, const mjModel\* m\) \{"),
    ("src/engine/engine_io.c", "mj_makeData", r"^mjData\* mj_makeData\(const mjModel\* m\) \{"),
    ("src/engine/engine_io.c", "mj_copyDataVisual", r"^mjData\* mj_copyDataVisual\(mjData\* dest, const mjModel\* m, const mjData\* src, int flg_all\) \{"),
    ("src/engine/engine_io.c", "_resetData", r"^static void _resetData\(const mjModel\* m, mjData\* d, unsigned char debug_value\) \{"),
    ("src/engine/engine_io.c", "mj_deleteData", r"^void mj_deleteData\(mjData\* d\) \{"),
    ("src/user/user_resource.cc", "mju_writeResource", r"^mjtSize mju_writeResource\(const char\*\s+name,"),
    ("src/user/user_model.cc", "compilerLogHandler", r"^static void compilerLogHandler\(const mjLogMessage\* msg\) \{"),
    ("src/user/user_model.cc", "mjCModel::Compile", r"^mjModel\* mjCModel::Compile\(const mjVFS\* vfs, mjModel\*\* m\) \{"),
    ("src/user/user_model.cc", "mjCModel::MakeData", r"^void mjCModel::MakeData\(const mjModel\* m, mjData\*\* dest\) \{"),
    ("src/user/user_api.cc", "mj_recompile", r"^\[\[nodiscard\]\] int mj_recompile\(mjSpec\* s, const mjVFS\* vfs, mjModel\* m, mjData\* d\) \{"),
    ("src/user/user_model.cc", "mjCModel::TryCompile", r"^void mjCModel::TryCompile\(mjModel\*& m, mjData\*& d, const mjVFS\* vfs\) \{"),
]

STRUCTS_MSG = "Truncated model file - ran out of data while reading structs"

EXPECTED = {
    "mju_malloc": None,   # checked by check_mju_malloc
    "mju_free": ["return"],
    "freeModelBuffers": ["mju_free"],
    "mj_makeModel": [
        "mju_warning:Invalid model: %s is negative (%lld).", "return",
        "mju_warning:Invalid model: %s is too large. Expected < %d. Got %lld.", "return",
        "mju_warning:Invalid model: nbody == 0", "return",
        "freeModelBuffers", "ALLOC:mju_malloc", "mjERROR:could not allocate mjModel",
        "mju_free", "mju_warning:Invalid model: size of nnames_map is larger than INT_MAX", "return",
        "mju_free", "mju_warning:Invalid model: ", "return",
        "ALLOC@mbuf", "mju_free", "mjERROR:could not allocate mjModel buffer"],
    "mj_copyModel": ["mj_makeModel", "mjERROR:failed to make mjModel. Invalid sizes.", "mj_deleteModel",
                     "mjERROR:dest and src models have different buffer size", "return"],
    "mj_saveModel": ["ALLOC:mju_malloc", "mju_warning:Could not allocate buffer for saving model", "return",
                     "mj_saveModel", "mju_writeResource", "mju_warning:Could not save model to '%s'", "mju_free", "return"],
    "mj_loadModelBuffer": [
        "mju_warning:Model file has an incomplete header", "return",
        "mju_warning:Model missing header ID", "return",
        "mju_warning:Model and executable have different floating point precision", "return",
        "mju_warning:Model and executable have different number of sizes in mjModel", "return",
        "mju_warning:Model and executable use different MuJoCo version", "return",
        "mju_warning:Model and executable have different number of pointers in mjModel", "return",
        "mju_warning:Truncated model file - ran out of data while reading sizes", "return",
        "mj_makeModel",
        "mju_warning:Invalid sizes, unable to load model", "return",
        "mju_warning:Corrupted model, wrong nbuffer field", "mj_deleteModel", "return",
        "mju_warning:Corrupted model, wrong nnames_map field", "mj_deleteModel", "return",
        "mju_warning:" + STRUCTS_MSG, "DELETE@lstructs", "return",
        "mju_warning:?", "mj_deleteModel", "return",        # "... while reading " #name, inside the X macro
        "mju_warning:Model file is too large", "mj_deleteModel", "return",
        "mju_warning:%s", "mj_deleteModel", "return",
        "return"],
    "mj_deleteModel": ["freeModelBuffers", "mju_free"],
    "mj_initPlugin": ["mju_free", "mju_free", "mju_free", "mjERROR:plugin->init failed for plugin id %d"],
    "freeDataBuffers": ["mju_free", "mju_free"],
    "mj_makeRawData": [
        "freeDataBuffers", "ALLOC:mju_malloc", "mjERROR:could not allocate mjData",
        "mju_free", "mju_warning:Invalid data: ", "return",
        "ALLOC@dbuf", "mju_free", "mjERROR:could not allocate mjData buffer",
        "ALLOC@darena", "mju_free", "NULLIFY@dnull", "mju_free", "mjERROR:could not allocate mjData arena"],
    "mj_makeData": ["mj_makeRawData", "mj_initPlugin", "mj_resetData", "return"],
    "mj_copyDataVisual": [
        "mj_makeRawData", "mj_initPlugin",
        "mjERROR:dest and src data buffers have different size",
        "mjERROR:dest and src stacks have different size",
        "mjERROR:attempting to copy mjData while stack is in use",
        "ALLOC:mju_malloc", "mjERROR:failed to allocate temporary memory for plugin_data",
        "mju_free", "return"],
    "_resetData": [
        "mjERROR:history buffers require positive timestep, got %g",
        "ALLOC:mju_malloc", "ALLOC:mju_malloc",
        "mj_deleteData", "mjERROR:%d trees were marked as sleep='init' but only %d could be slept.\\n",
        "mju_free", "mju_free"],
    "mj_deleteData": ["mju_threadpool", "freeDataBuffers", "mju_free"],
    "mju_writeResource": ["return", "ALLOC:mju_malloc", "mj_defaultVFS", "mj_deleteVFS", "mju_free", "return"],
    "compilerLogHandler": ["longjmp"],
    "mjCModel::MakeData": ["mj_makeRawData", "mj_initPlugin", "mj_resetData"],
    "mj_recompile": ["Compile", "mj_deleteData", "return", "MakeData", "catch", "return", "return"],
    "mjCModel::Compile": [
        "throw", "setjmp", "throw", "TryCompile", "catch",
        "mj_deleteModel", "mj_deleteData", "return", "mju_warning:%s", "return"],
    "mjCModel::TryCompile": [
        "mj_makeModel", "throw", "mj_makeRawData", "throw", "mj_resetData", "mj_setConst", "throw",
        "mj_deleteData", "mj_makeData", "throw", "mj_step", "mj_deleteData", "throw"],
}
# TryCompile is long: only the tokens from its first engine call onwards are compared
TRYCOMPILE_FROM = "mj_makeModel"


def strip_comments(text):
    """remove // and /* */ comments, keep string literals."""
    out, i, n = [], 0, len(text)
    while i < n:
        c = text[i]
        if c == '"':
            j = i + 1
            while j < n and text[j] != '"':
                j += 2 if text[j] == "\\" else 1
            out.append(text[i:j + 1]); i = j + 1; continue
        if c == "'" :
            j = i + 1
            while j < n and text[j] != "'":
                j += 2 if text[j] == "\\" else 1
            out.append(text[i:j + 1]); i = j + 1; continue
        if text.startswith("//", i):
            j = text.find("\n", i)
            i = n if j < 0 else j; continue
        if text.startswith("/*", i):
            j = text.find("*/", i + 2)
            i = n if j < 0 else j + 2; continue
        out.append(c); i += 1
    return "".join(out)


def func_body(text, start_re, fname, relfile):
    m = re.search(start_re, text, flags=re.M)
    if not m:
        raise F.TranslatorError("cannot read %s: definition of %s not found (pattern %s)" % (relfile, fname, start_re))
    if re.search(start_re, text[m.end():], flags=re.M):
        raise F.TranslatorError("cannot read %s: two definitions of %s" % (relfile, fname))
    # opening brace of the body: first '{' at the end of a line after the match start
    ob = text.find("{\n", m.start())
    end = text.find("\n}\n", ob)
    if ob < 0 or end < 0:
        raise F.TranslatorError("cannot read %s: body of %s not delimited" % (relfile, fname))
    line = text.count("\n", 0, m.start()) + 1
    return text[ob:end + 2], line


def raw_tokens(body):
    toks = []
    for m in TOKEN_RE.finditer(body):
        name, msg = m.group(1), m.group(3)
        if m.group(4):
            toks.append("d->buffer=NULL")
            continue
        if m.group(5):
            toks.append(re.sub(r"\s+", "", m.group(5)).rstrip(";"))
            continue
        if name in ("mju_error", "mjERROR", "mju_warning"):
            toks.append("%s:%s" % (name, msg if msg is not None else "?"))
        else:
            toks.append(name)
    return toks


def nonraising_allocators(repo):
    """names of allocator functions defined in engine_util_errmem.c whose body does not raise."""
    rel = "src/engine/engine_util_errmem.c"
    text = strip_comments(open(os.path.join(repo, rel)).read())
    res = {}
    for m in re.finditer(r"^(?:static\s+)?(?:inline\s+)?void\*\s+(" + ALLOC_RE + r")\(size_t \w+\) \{", text, flags=re.M):
        end = text.find("\n}\n", m.end())
        body = text[m.end():end]
        res[m.group(1)] = not re.search(r"\b(mju_error|mjERROR|mju_malloc)\b", body)
    return res


def scan(repo):
    """returns (variant dict, info dict); raises TranslatorError when a function no longer has the shape
    the model was written against."""
    texts = {}
    variant = {"v_mbuf": False, "v_dbuf": False, "v_darena": False, "v_lstructs": False, "v_dnull": False, "v_npl": False}
    info = {"functions": {}, "allocators": {}}
    nonraising = nonraising_allocators(repo)
    info["allocators"] = nonraising
    errors = []
    for rel, fname, start_re in FUNCS:
        try:
            _scan_one(repo, rel, fname, start_re, texts, variant, info, nonraising)
        except F.TranslatorError as e:
            errors.append(str(e))
    npl = info.get("nplugin", {})
    if len(npl) == 2 and len(set(npl.values())) == 1:
        variant["v_npl"] = bool(list(npl.values())[0])
    elif len(npl) == 2:
        variant["v_npl"] = False
        errors.append("cannot read src/engine/engine_io.c: mj_initPlugin and in-place mj_makeRawData disagree on how d->nplugin "
                      "is maintained (%s): no model variant" % npl)
    if errors:
        err = F.TranslatorError("; ".join(errors))
        err.variant = variant
        raise err
    return variant, info


def _scan_one(repo, rel, fname, start_re, texts, variant, info, nonraising):
    if True:
        if rel not in texts:
            try:
                texts[rel] = strip_comments(open(os.path.join(repo, rel)).read())
            except OSError as e:
                raise F.TranslatorError("cannot read %s: %s" % (rel, e))
        body, line = func_body(texts[rel], start_re, fname, rel)
        toks = raw_tokens(body)
        if fname not in ("mj_recompile", "mjCModel::Compile"):
            toks = [t for t in toks if t not in ("Compile", "MakeData", "catch")]
        # assignments to d->nplugin are checked apart (they decide v_npl), the other tokens as before
        if fname in ("mj_initPlugin", "mj_makeRawData"):
            nps = [t for t in toks if t.startswith("d->nplugin=")]
            after_free = any(toks[k] == "freeDataBuffers" and toks[k + 1] == "d->nplugin=0" for k in range(len(toks) - 1))
            if fname == "mj_initPlugin":
                shape = {("d->nplugin=m->nplugin",): False, ("d->nplugin=0", "d->nplugin=i+1"): True}.get(tuple(nps))
            else:
                shape = {("d->nplugin=0",): False, ("d->nplugin=0", "d->nplugin=0"): True}.get(tuple(nps))
                if shape is True and not after_free:
                    shape = None
            if shape is None:
                raise F.TranslatorError("cannot read %s:%d: %s: assignments to d->nplugin %s are not one of the two modelled shapes"
                                        % (rel, line, fname, nps))
            info.setdefault("nplugin", {})[fname] = shape
        toks = [t for t in toks if not t.startswith("d->nplugin=")]
        if fname == "mjCModel::TryCompile":
            if TRYCOMPILE_FROM not in toks:
                raise F.TranslatorError("cannot read %s:%d: %s no longer calls %s" % (rel, line, fname, TRYCOMPILE_FROM))
            toks = toks[toks.index(TRYCOMPILE_FROM):]
        if fname == "mj_saveModel":
            # the recursive call and the returns; drop the macro-generated bufwrite part (no tokens there)
            pass
        exp = EXPECTED[fname]
        # lenient pre-pass: the variant flags are read off by position among the allocator calls, so that a function
        # that no longer has the modelled shape (reported below) still gets the right variant for the trace search
        allocs = [t for t in toks if re.fullmatch(ALLOC_RE, t) and t not in ("mju_user_malloc", "mju_alignedMalloc")]
        for key, pos, n in (("v_mbuf", 1, 2), ("v_dbuf", 1, 3), ("v_darena", 2, 3)):
            if fname == {"v_mbuf": "mj_makeModel", "v_dbuf": "mj_makeRawData", "v_darena": "mj_makeRawData"}[key] and len(allocs) == n:
                variant[key] = allocs[pos] != "mju_malloc" and bool(nonraising.get(allocs[pos], False))
        if fname == "mj_makeRawData":
            variant["v_dnull"] = "d->buffer=NULL" in toks
        if fname == "mj_loadModelBuffer" and ("mju_warning:" + STRUCTS_MSG) in toks:
            k = toks.index("mju_warning:" + STRUCTS_MSG)
            variant["v_lstructs"] = k + 1 < len(toks) and toks[k + 1] == "mj_deleteModel"
        if fname == "mju_malloc":
            # any allocator calls, then exactly one mju_error("Could not allocate memory"), then the return
            if (len(toks) < 3 or toks[-2:] != ["mju_error:Could not allocate memory", "return"]
                    or not all(re.fullmatch(ALLOC_RE, t) for t in toks[:-2])):
                raise F.TranslatorError("cannot read %s:%d: mju_malloc no longer has the shape allocate / "
                                        "mju_error(\"Could not allocate memory\") / return: %s" % (rel, line, toks))
            info["functions"][fname] = {"file": rel, "line": line, "tokens": len(toks)}
            return
        got = []
        i = 0
        for e in exp:
            if e == "NULLIFY@dnull":
                if i < len(toks) and toks[i] == "d->buffer=NULL":
                    variant["v_dnull"] = True; i += 1
                got.append(e)
                continue
            if e == "DELETE@lstructs":
                if i < len(toks) and toks[i] == "mj_deleteModel":
                    variant["v_lstructs"] = True; got.append(e); i += 1
                else:
                    got.append(e)      # absent: the variant without the delete
                continue
            if i >= len(toks):
                break
            t = toks[i]
            if e.startswith("ALLOC@"):
                key = "v_" + e[6:]
                if t == "mju_malloc":
                    variant[key] = False
                elif re.fullmatch(ALLOC_RE, t) and t in nonraising:
                    variant[key] = bool(nonraising[t])
                else:
                    raise F.TranslatorError("cannot read %s:%d: %s: expected an allocator call for %s, found %r (token %d)"
                                            % (rel, line, fname, e[6:], t, i))
                got.append(e); i += 1; continue
            if e.startswith("ALLOC:"):
                if t != e[6:]:
                    raise F.TranslatorError("cannot read %s:%d: %s: expected %s, found %r (token %d)" % (rel, line, fname, e[6:], t, i))
                got.append(e); i += 1; continue
            if t != e:
                raise F.TranslatorError("cannot read %s:%d: %s: expected token %r, found %r (token %d of %s)"
                                        % (rel, line, fname, e, t, i, toks))
            got.append(e); i += 1
        if len(got) != len(exp) or i != len(toks):
            raise F.TranslatorError("cannot read %s:%d: %s: token list has %d entries (%d consumed), model was written against %d: %s"
                                    % (rel, line, fname, len(toks), i, len(exp), toks))
        info["functions"][fname] = {"file": rel, "line": line, "tokens": len(toks)}


# ---------------------------------------------------------------- call-site inventory
MODELLED = {
    ("src/engine/engine_io.c", "mj_makeModel"), ("src/engine/engine_io.c", "mj_saveModel"),
    ("src/engine/engine_io.c", "mj_makeRawData"), ("src/engine/engine_io.c", "mj_copyDataVisual"),
    ("src/engine/engine_io.c", "_resetData"), ("src/user/user_resource.cc", "mju_writeResource"),
}
# inventory the report was written against: (file, enclosing function) -> number of allocator calls
INVENTORY = {
    "src/engine/engine_io.c": {"mj_makeModel": 2, "mj_saveModel": 1, "mj_makeRawData": 3, "mj_copyDataVisual": 1, "_resetData": 2},
    "src/engine/engine_print.c": {"mj_printFormattedData": 1},
    "src/engine/engine_util_solve.c": {"mju_cholFactorSymbolic": 4, "mju_boxQPmalloc": 7},
    "src/engine/engine_vis_init.c": {"mjv_makeScene": 19},
    "src/engine/engine_collision_continuous.c": None,
    "src/user/user_resource.cc": {"openResourceInternal": 1, "mju_writeResource": 1},
    "src/user/user_api.cc": None, "src/user/user_composite.cc": None, "src/user/user_mesh.cc": None,
    "src/user/user_flexcomp.cc": None,
}


def inventory(repo):
    """every call of an mju_*malloc* function in src/engine and src/user: {file: [(line, enclosing function)]}."""
    import glob
    res = {}
    for d in ("src/engine", "src/user"):
        for path in sorted(glob.glob(os.path.join(repo, d, "*.c")) + glob.glob(os.path.join(repo, d, "*.cc"))):
            rel = os.path.relpath(path, repo)
            if rel == "src/engine/engine_util_errmem.c":
                continue
            text = strip_comments(open(path).read())
            lines = text.split("\n")
            cur = "?"
            for i, l in enumerate(lines, 1):
                m = re.match(r"^[A-Za-z_].*?([A-Za-z_][\w:~]*)\s*\([^;]*$", l)
                if m and not l.startswith(("#", "typedef", "using", "namespace", "extern", "return")) and not l.rstrip().endswith(";"):
                    cur = m.group(1)
                for mm in re.finditer(r"\b(" + ALLOC_RE + r")\s*\(", l):
                    if mm.group(1) in ("mju_user_malloc", "mju_alignedMalloc"):
                        continue
                    res.setdefault(rel, []).append((i, cur))
    return res


if __name__ == "__main__":
    repo = sys.argv[1] if len(sys.argv) > 1 else "/repo"
    if len(sys.argv) > 2 and sys.argv[2] == "dump":
        for rel, fname, start_re in FUNCS:
            text = strip_comments(open(os.path.join(repo, rel)).read())
            body, line = func_body(text, start_re, fname, rel)
            print(fname, line, raw_tokens(body))
    else:
        print(scan(repo))
        inv = inventory(repo)
        for f, sites in inv.items():
            print(f, sites)
