#!/usr/bin/env python3
"""C37 translator: src/xml/generated/mjcf_table.inc (the MJCF[] rows + MJCF_constraints[] that
mjXReader hands to mjXSchema) -> coq/Gen/Schema.v, plus the typed rows of mjcf_read_table.inc and the
keyword maps of mjcf_map.h (used by the document generator and the lexer tie).

Fail-closed: anything that is not understood raises TranslatorError naming file:line.
The row -> tree step repeats the bracket matching of the mjXSchema constructor (xml_util.cc); the
result is compared with mjXSchema::Print of the real object on every run (c37.py)."""
import os, re, sys

try:
    import framework as F
    TranslatorError = F.TranslatorError
except Exception:  # standalone use
    class TranslatorError(Exception):
        pass


def _err(path, line, msg):
    raise TranslatorError("cannot read %s:%d %s" % (path, line, msg))


def strip_comments(text):
    """remove // comments (none of the tables contains '//' inside a string); keeps line structure."""
    out = []
    for ln in text.split("\n"):
        i = 0
        instr = False
        while i < len(ln):
            c = ln[i]
            if c == '"':
                instr = not instr
            elif c == "\\" and instr:
                i += 1
            elif not instr and ln.startswith("//", i):
                ln = ln[:i]
                break
            i += 1
        out.append(ln)
    return "\n".join(out)


def parse_table_inc(path):
    """returns (rows, constraints): rows = list of list of str (one per MJCF[] row, in order),
    constraints = list of (row, kind, spec)."""
    if not os.path.exists(path):
        _err(path, 0, "missing")
    text = strip_comments(open(path).read())
    m = re.search(r"std::vector<const char\*>\s+MJCF\[\]\s*=\s*\{", text)
    if not m:
        _err(path, 0, "no 'std::vector<const char*> MJCF[] = {'")
    pos = m.end()
    line = text.count("\n", 0, pos) + 1
    rows = []
    n = len(text)
    # sequence of { "str", ... } , ... terminated by };
    while True:
        while pos < n and text[pos] in " \t\r\n,":
            if text[pos] == "\n":
                line += 1
            pos += 1
        if pos >= n:
            _err(path, line, "unterminated MJCF[]")
        if text[pos] == "}":
            m2 = re.match(r"\}\s*;", text[pos:])
            if not m2:
                _err(path, line, "expected '};' at the end of MJCF[]")
            pos += m2.end()
            break
        if text[pos] != "{":
            _err(path, line, "expected '{' starting a row, found %r" % text[pos:pos + 20])
        pos += 1
        cells = []
        expect_value = True
        while True:
            while pos < n and text[pos] in " \t\r\n":
                if text[pos] == "\n":
                    line += 1
                pos += 1
            if pos >= n:
                _err(path, line, "unterminated row")
            c = text[pos]
            if c == "}":
                pos += 1
                break
            if c == ",":
                if expect_value:
                    _err(path, line, "unexpected ','")
                expect_value = True
                pos += 1
                continue
            if c == '"':
                if not expect_value:
                    _err(path, line, "missing ',' between cells")
                m3 = re.match(r'"([^"\\\n]*)"', text[pos:])
                if not m3:
                    _err(path, line, "cell is not a plain string literal")
                cells.append(m3.group(1))
                pos += m3.end()
                expect_value = False
                continue
            _err(path, line, "unexpected %r in a row" % text[pos:pos + 20])
        if not cells:
            _err(path, line, "empty row")
        rows.append(cells)
    rest = text[pos:]
    base_line = text.count("\n", 0, pos) + 1
    if not re.search(r"const\s+int\s+nMJCF\s*=\s*sizeof\(MJCF\)\s*/\s*sizeof\(MJCF\[0\]\)\s*;", rest):
        _err(path, base_line, "nMJCF is not sizeof(MJCF)/sizeof(MJCF[0])")
    m = re.search(r"const\s+mjXConstraintDef\s+MJCF_constraints\[\]\s*=\s*\{(.*?)\}\s*;", rest, re.S)
    if not m:
        _err(path, base_line, "no MJCF_constraints[]")
    cons = []
    body = m.group(1)
    cl = base_line + rest.count("\n", 0, m.start(1))
    for ln in body.split("\n"):
        s = ln.strip()
        if s:
            m4 = re.fullmatch(r"\{\s*(\d+)\s*,\s*'(.)'\s*,\s*\"([^\"\\]*)\"\s*\}\s*,?", s)
            if not m4:
                _err(path, cl, "constraint row not understood: %r" % s)
            cons.append((int(m4.group(1)), m4.group(2), m4.group(3)))
        cl += 1
    if not re.search(r"const\s+int\s+nMJCF_constraints\s*=\s*sizeof\(MJCF_constraints\)\s*/\s*sizeof\(MJCF_constraints\[0\]\)\s*;", rest):
        _err(path, base_line, "nMJCF_constraints is not the array size")
    return rows, cons


CARDS = {"!": "COne", "?": "COpt", "*": "CMany", "R": "CRec"}
KINDS = {"e": "KExcl", "t": "KTogether", "r": "KRequires", "o": "KOneof"}


def parse_spec(spec, where):
    """tokenisation of mjXSchema::CheckConstraints: ' ' separates names, '|' separates bundles."""
    if not re.fullmatch(r"[A-Za-z0-9_]+( [A-Za-z0-9_]+)*(\|[A-Za-z0-9_]+( [A-Za-z0-9_]+)*)*", spec):
        raise TranslatorError("cannot read %s constraint spec %r (empty bundle or unexpected character)" % (where, spec))
    return [b.split(" ") for b in spec.split("|")]


def build_tree(rows, cons, where="MJCF[]", strict=True):
    """the mjXSchema constructor: rows[first..] -> node dict {name, card, attrs, cons, subs, row}."""
    conrows = {}
    for (r, k, spec) in cons:
        conrows.setdefault(r, []).append((k, spec))
    used = set()

    def mk(lo, nrow):
        head = rows[lo]
        if len(head) < 2 or head[0] in ("<", ">") or len(head[1]) < 1:
            raise TranslatorError("cannot read %s row %d: not an element row: %r" % (where, lo, head))
        card = head[1][0]
        if strict and (head[1] not in CARDS):
            raise TranslatorError("cannot read %s row %d: cardinality %r" % (where, lo, head[1]))
        node = {"name": head[0], "card": card, "attrs": list(head[2:]), "row": lo, "subs": [], "cons": []}
        for (k, spec) in conrows.get(lo, []):
            if strict and k not in KINDS:
                raise TranslatorError("cannot read %s constraint kind %r at row %d" % (where, k, lo))
            bundles = parse_spec(spec, where)
            if k == "r" and len(bundles) < 2:
                raise TranslatorError("cannot read %s 'requires' constraint with fewer than two bundles at row %d" % (where, lo))
            node["cons"].append({"kind": k, "bundles": bundles})
        used.add(lo)
        if nrow > 1:
            if strict and (rows[lo + 1] != ["<"] or rows[lo + nrow - 1] != [">"]):
                raise TranslatorError("cannot read %s row %d: block is not bracketed by {\"<\"} ... {\">\"}" % (where, lo))
            start = 2
            while start < nrow - 1:
                end = start
                if rows[lo + start + 1][0][0] == "<":
                    cnt = 0
                    while end <= nrow - 1:
                        c0 = rows[lo + end][0][0]
                        if c0 == "<":
                            cnt += 1
                        elif c0 == ">":
                            cnt -= 1
                            if cnt == 0:
                                break
                        end += 1
                    if end > nrow - 1:
                        raise TranslatorError("cannot read %s row %d: unbalanced block" % (where, lo + start))
                node["subs"].append(mk(lo + start, end - start + 1))
                start = end + 1
        return node

    if not rows:
        raise TranslatorError("cannot read %s: no rows" % where)
    root = mk(0, len(rows))
    for r in conrows:
        if r not in used:
            raise TranslatorError("cannot read %s: constraint refers to row %d which is not an element row" % (where, r))
    return root


def cs(x):
    return '"' + str(x).replace('"', '""') + '"'


def clist(xs):
    return "[" + "; ".join(xs) + "]"


def coq_schema(node, indent=0):
    pad = " " * indent
    cons = clist("mkCon %s %s" % (KINDS.get(c["kind"], "KOther"), clist(clist(cs(a) for a in b) for b in c["bundles"]))
                 for c in node["cons"])
    subs = node["subs"]
    if subs:
        sub_txt = "[\n" + ";\n".join(coq_schema(s, indent + 2) for s in subs) + "]"
    else:
        sub_txt = "[]"
    return "%s(Sch %s %s %s %s %s)" % (pad, cs(node["name"]), CARDS.get(node["card"], "COther"),
                                      clist(cs(a) for a in node["attrs"]), cons, sub_txt)


REC_EXACT = re.compile(
    r"if\s*\(\s*type_\s*==\s*'R'\s*\)\s*\{\s*"
    r"sub\s*=\s*FirstChildElement\(\s*elem\s*,\s*name_\.c_str\(\)\s*\)\s*;\s*"
    r"for\s*\(\s*;\s*sub\s*!=\s*nullptr\s*;\s*sub\s*=\s*NextSiblingElement\(\s*sub\s*,\s*name_\.c_str\(\)\s*\)\s*\)\s*\{\s*"
    r"if\s*\(\s*\(\s*bad\s*=\s*Check\(\s*sub\s*,\s*level\s*\+\s*1\s*\)\s*\)\s*\)\s*\{\s*return\s+bad\s*;\s*\}\s*\}\s*\}")
REC_NAMEMATCH = re.compile(
    r"if\s*\(\s*type_\s*==\s*'R'\s*\)\s*\{\s*"
    r"sub\s*=\s*FirstChildElement\(\s*elem\s*\)\s*;\s*"
    r"for\s*\(\s*;\s*sub\s*!=\s*nullptr\s*;\s*sub\s*=\s*NextSiblingElement\(\s*sub\s*\)\s*\)\s*\{\s*"
    r"if\s*\(\s*NameMatch\(\s*sub\s*,\s*level\s*\+\s*1\s*\)\s*&&\s*\(\s*bad\s*=\s*Check\(\s*sub\s*,\s*level\s*\+\s*1\s*\)\s*\)\s*\)\s*\{\s*return\s+bad\s*;\s*\}\s*\}\s*\}")


def rec_variant(repo):
    """which children the 'R' recursion loop of mjXSchema::Check descends into: False = children named
    exactly like the row, True = children that NameMatch (also alias tags)."""
    path = os.path.join(repo, "src/xml/xml_util.cc")
    if not os.path.exists(path):
        _err(path, 0, "missing")
    text = open(path).read()
    m = re.search(r"XMLElement\*\s+mjXSchema::Check\(XMLElement\*\s+elem,\s*int\s+level\)\s*\{", text)
    if not m:
        _err(path, 0, "mjXSchema::Check not found")
    body = strip_comments(text[m.end():m.end() + 6000])
    line = text.count("\n", 0, m.end()) + 1
    i = body.find("type_ == 'R'")
    if i < 0:
        _err(path, line, "no recursion loop (type_ == 'R') in mjXSchema::Check")
    seg = body[max(0, i - 10):i + 600]
    if REC_EXACT.search(seg):
        return False
    if REC_NAMEMATCH.search(seg):
        return True
    _err(path, line + body.count("\n", 0, i), "recursion loop of mjXSchema::Check has neither of the two known forms")


def check_reader_uses_table(repo):
    path = os.path.join(repo, "src/xml/xml_native_reader.cc")
    if not os.path.exists(path):
        _err(path, 0, "missing")
    text = strip_comments(open(path).read())
    if '#include "xml/generated/mjcf_table.inc"' not in text:
        _err(path, 0, "does not include xml/generated/mjcf_table.inc")
    if not re.search(r"mjXReader::mjXReader\(\)\s*:\s*schema\(\s*MJCF\s*,\s*nMJCF\s*,\s*MJCF_constraints\s*,\s*nMJCF_constraints\s*\)", text):
        _err(path, 0, "mjXReader does not construct schema(MJCF, nMJCF, MJCF_constraints, nMJCF_constraints)")
    if not re.search(r"schema\.Check\(\s*root\s*,\s*0\s*\)", text):
        _err(path, 0, "mjXReader::Parse does not call schema.Check(root, 0)")


def load(repo):
    check_reader_uses_table(repo)
    tpath = os.path.join(repo, "src/xml/generated/mjcf_table.inc")
    rows, cons = parse_table_inc(tpath)
    tree = build_tree(rows, cons, where=tpath)
    return {"rows": rows, "cons": cons, "tree": tree, "rec_by_namematch": rec_variant(repo)}


def gen(repo):
    d = load(repo)
    txt = ("(* GENERATED by translate/schema2v.py from src/xml/generated/mjcf_table.inc and the recursion loop of\n"
           "   mjXSchema::Check in src/xml/xml_util.cc.  Do not edit. *)\n"
           "From Coq Require Import String List ZArith.\nFrom MJV Require Import Model.Schema.\nImport ListNotations.\nOpen Scope string_scope.\n\n"
           "Definition mjcf_nrows : Z := %d%%Z.\nDefinition mjcf_nconstraints : Z := %d%%Z.\n"
           "Definition rec_by_namematch : bool := %s.\n\n"
           "Definition mjcf_schema : schema :=\n%s.\n" %
           (len(d["rows"]), len(d["cons"]), "true" if d["rec_by_namematch"] else "false", coq_schema(d["tree"], 2)))
    return {"Gen/Schema.v": txt}, d


# ------------------------------------------------------------------ read table / keyword maps (support)
def parse_maps(repo):
    path = os.path.join(repo, "src/xml/generated/mjcf_map.h")
    if not os.path.exists(path):
        _err(path, 0, "missing")
    text = strip_comments(open(path).read())
    maps = {}
    for m in re.finditer(r"inline\s+constexpr\s+mjMap\s+(\w+)\[\]\s*=\s*\{(.*?)\}\s*;", text, re.S):
        keys = re.findall(r'\{\s*"([^"]*)"\s*,', m.group(2))
        if not keys:
            _err(path, text.count("\n", 0, m.start()) + 1, "map %s has no keys" % m.group(1))
        maps[m.group(1)] = keys
    if "bool_map" not in maps:
        _err(path, 0, "bool_map not found")
    return maps


def parse_read_table(repo):
    """returns {element comment name: [ {attr, kind, len, exact, required, map} ]}"""
    path = os.path.join(repo, "src/xml/generated/mjcf_read_table.inc")
    if not os.path.exists(path):
        _err(path, 0, "missing")
    lines = open(path).read().split("\n")
    out = {}
    cur = None
    pending = None
    for i, ln in enumerate(lines):
        m = re.match(r"^// (group )?(\w+) \((\w+)\)\s*$", ln)
        if m:
            pending = m.group(2)
            continue
        if re.match(r"^inline constexpr mjXAttr k\w+\[\] = \{", ln):
            if pending is None:
                _err(path, i + 1, "array without a '// element (struct)' comment")
            cur = out.setdefault(pending, [])
            pending = None
            continue
        if ln.startswith("};"):
            cur = None
            continue
        if cur is not None and ln.strip().startswith("{"):
            if re.match(r'^\s*\{nullptr,\s*mjXAttr::kConst,', ln):
                continue
            m = re.match(r'^\s*\{"(\w+)",\s*mjXAttr::(k\w+),\s*([\w+*]+),\s*(true|false),\s*(true|false),\s*(true|false),\s*(true|false),\s*(.*)\},\s*$', ln)
            if not m:
                _err(path, i + 1, "read-table row not understood")
            rest = m.group(8)
            mm = re.search(r",\s*(\w+_map)\s*,", rest)
            cur.append({"attr": m.group(1), "kind": m.group(2), "len": m.group(3), "exact": m.group(4) == "true",
                        "required": m.group(5) == "true", "map": mm.group(1) if mm else None})
    if not out:
        _err(path, 0, "no typed rows found")
    return out


if __name__ == "__main__":
    files, d = gen(sys.argv[1] if len(sys.argv) > 1 else "/repo")
    sys.stdout.write(files["Gen/Schema.v"][:3000])
    print("\n... rows=%d cons=%d rec_by_namematch=%s" % (len(d["rows"]), len(d["cons"]), d["rec_by_namematch"]))
