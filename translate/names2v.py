"""names2v.py — regenerate coq/Gen/ObjOrder.v from the working tree (python3 stdlib only, fail-closed).

Reads
  * src/engine/engine_name.c : the fall-through switch of _getnumadr  ->  switch_order
      [(case labels, count field, name-address array)] in textual order, default branch checked;
  * src/user/user_model.cc   : the namelist(...) call sequence of mjCModel::CopyNames -> copy_order
      [(object list, name-address array)], the `nX = (int)list_.size();` assignments -> list_count
      (the insertion loop of namelist itself is modelled by hand and tied by correspondence on m->names_map);
  * src/engine/engine_io.c   : the sum defining nnames_map in mj_makeModel -> map_sum, and its multiplier;
  * every `#define mjLOAD_MULTIPLE k` under src/ -> load_multiple [(file, k)].
Anything not recognised raises TranslatorError naming file:line.
"""
import glob, os, re, sys


class TranslatorError(Exception):
    pass


def _err(path, line, msg):
    raise TranslatorError("cannot read %s:%d: %s" % (path, line, msg))


def _strip_comments(text):
    out = []
    i, n = 0, len(text)
    while i < n:
        if text.startswith("//", i):
            j = text.find("\n", i)
            i = n if j < 0 else j
        elif text.startswith("/*", i):
            j = text.find("*/", i + 2)
            if j < 0:
                raise TranslatorError("unterminated comment")
            out.append("\n" * text.count("\n", i, j + 2))
            i = j + 2
        elif text[i] == '"':
            j = i + 1
            while j < n and text[j] != '"':
                j += 2 if text[j] == "\\" else 1
            out.append(text[i:j + 1])
            i = j + 1
        else:
            out.append(text[i])
            i += 1
    return "".join(out)


def _lineno(text, pos):
    return text.count("\n", 0, pos) + 1


def _match_brace(text, open_pos, path):
    depth = 0
    for i in range(open_pos, len(text)):
        if text[i] == "{":
            depth += 1
        elif text[i] == "}":
            depth -= 1
            if depth == 0:
                return i
    _err(path, _lineno(text, open_pos), "unbalanced braces")


def _read(repo, rel):
    try:
        with open(os.path.join(repo, rel)) as f:
            return _strip_comments(f.read())
    except OSError:
        raise TranslatorError("cannot read %s: file missing" % rel)


def _function(text, header_re, path):
    ms = list(re.finditer(header_re, text))
    if len(ms) != 1:
        raise TranslatorError("cannot read %s: expected exactly one definition matching /%s/, found %d" % (path, header_re, len(ms)))
    op = text.index("{", ms[0].end() - 1)
    end = _match_brace(text, op, path)
    return text[op + 1:end], _lineno(text, op)


# ---------------------------------------------------------------------------------- engine_name.c
def read_switch(repo):
    rel = "src/engine/engine_name.c"
    text = _read(repo, rel)
    body, l0 = _function(text, r"static\s+int\s+_getnumadr\s*\(\s*const\s+mjModel\s*\*\s*m\s*,\s*mjtObj\s+type\s*,\s*int\s*\*\*\s*padr\s*,\s*int\s*\*\s*mapadr\s*\)\s*\{", rel)
    flat = "".join(body.split())
    m = re.match(r"^intnum=-1;\*mapadr=m->nnames_map;switch\(type\)\{(.*)\}returnnum;$", flat)
    if not m:
        _err(rel, l0, "_getnumadr: expected `int num = -1; *mapadr = m->nnames_map; switch (type) {...} return num;`")
    inner = m.group(1)
    # split into groups at 'case' sequences; the last group is default
    dm = re.search(r"default:(.*)$", inner)
    if not dm or dm.group(1) != "if(num<0){*padr=0;num=0;}":
        _err(rel, l0, "_getnumadr: unrecognised default branch %r" % (dm.group(1)[:80] if dm else None))
    rest = inner[:dm.start()]
    groups = []
    pos = 0
    grp = re.compile(r"((?:casemjOBJ_\w+:)+)\*mapadr-=mjLOAD_MULTIPLE\*m->(\w+);(.*?)mjFALLTHROUGH;")
    first = True
    while pos < len(rest):
        g = grp.match(rest, pos)
        if not g:
            _err(rel, l0, "_getnumadr: unrecognised switch group near %r" % rest[pos:pos + 100])
        labels = re.findall(r"casemjOBJ_(\w+):", g.group(1))
        cnt = g.group(2)
        asg = g.group(3)
        am = re.match(r"^\*padr=m->(\w+);num=m->(\w+);$", asg) if first else \
            re.match(r"^if\(num<0\)\{\*padr=m->(\w+);num=m->(\w+);\}$", asg)
        if not am:
            _err(rel, l0, "_getnumadr: unrecognised assignment for %s: %r" % (labels, asg[:100]))
        if am.group(2) != cnt:
            _err(rel, l0, "_getnumadr: group %s subtracts %s but returns %s" % (labels, cnt, am.group(2)))
        groups.append((labels, cnt, am.group(1)))
        first = False
        pos = g.end()
    # the functions that use it
    n2i, l1 = _function(text, r"\bint\s+mj_name2id\s*\([^)]*\)\s*\{", rel)
    f2 = "".join(n2i.split())
    if "intnum=mjLOAD_MULTIPLE*_getnumadr(m,type,&adr,&mapadr);" not in f2:
        _err(rel, l1, "mj_name2id: table size is not mjLOAD_MULTIPLE*_getnumadr(...)")
    return rel, groups


# ---------------------------------------------------------------------------------- user_model.cc
def read_copynames(repo):
    rel = "src/user/user_model.cc"
    text = _read(repo, rel)
    body, l0 = _function(text, r"\bvoid\s+mjCModel::CopyNames\s*\(\s*mjModel\s*\*\s*m\s*\)\s*\{", rel)
    flat = "".join(body.split())
    head = re.match(r"^intadr=\(int\)modelname_\.size\(\)\+1;int\*map_adr=m->names_map;mju_strncpy\(m->names,modelname_\.c_str\(\),m->nnames\);"
                    r"memset\(m->names_map,-1,sizeof\(int\)\*m->nnames_map\);", flat)
    if not head:
        _err(rel, l0, "CopyNames: unrecognised prologue")
    rest = flat[head.end():]
    calls = []
    call = re.compile(r"adr=namelist\((\w+),adr,m->(\w+),m->names,map_adr\);")
    adv = re.compile(r"map_adr\+=mjLOAD_MULTIPLE\*(\w+)\.size\(\);")
    pos = 0
    while True:
        c = call.match(rest, pos)
        if not c:
            break
        pos = c.end()
        a = adv.match(rest, pos)
        if a:
            if a.group(1) != c.group(1):
                _err(rel, l0, "CopyNames: map_adr advanced by %s after namelist(%s)" % (a.group(1), c.group(1)))
            pos = a.end()
            calls.append((c.group(1), c.group(2), True))
        else:
            calls.append((c.group(1), c.group(2), False))
    tail = rest[pos:]
    if not re.match(r'^if\(adr!=nnames\)\{throwmjCError\(0,"[^"]*","names",nnames,adr\);\}$', tail):
        _err(rel, l0, "CopyNames: unrecognised code after the namelist calls: %r" % tail[:120])
    if not calls or any(not adv_ for (_, _, adv_) in calls[:-1]):
        _err(rel, l0, "CopyNames: a namelist call other than the last is not followed by the map_adr advance")
    # list -> count
    counts = {}
    for mm in re.finditer(r"\b(n\w+)\s*=\s*\(int\)\s*(\w+_)\.size\(\)\s*;", text):
        if re.search(r"\bint\s+$", text[max(0, mm.start() - 16):mm.start()]):
            continue    # declaration of a local variable, not an assignment to a member
        counts.setdefault(mm.group(2), set()).add(mm.group(1))
    lc = []
    for lst, adrarr, _ in calls:
        names = counts.get(lst, set())
        if len(names) != 1:
            _err(rel, l0, "cannot determine the mjModel count of object list %s (candidates: %s)" % (lst, sorted(names)))
        lc.append((lst, sorted(names)[0]))
    return rel, [(l, a) for (l, a, _) in calls], lc, calls[-1][2]


# ---------------------------------------------------------------------------------- engine_io.c
def read_mapsum(repo):
    rel = "src/engine/engine_io.c"
    text = _read(repo, rel)
    ms = list(re.finditer(r"long\s+nnames_map\s*=\s*\(long\)\s*([^;]+);", text))
    if len(ms) != 1:
        raise TranslatorError("cannot read %s: expected one `long nnames_map = (long)...;`, found %d" % (rel, len(ms)))
    ln = _lineno(text, ms[0].start())
    terms = ["".join(t.split()) for t in ms[0].group(1).split("+")]
    for t in terms:
        if not re.match(r"^n\w+$", t):
            _err(rel, ln, "nnames_map: unrecognised term %r" % t)
    asg = re.findall(r"m->nnames_map\s*=\s*([^;]+);", text)
    if ["".join(a.split()) for a in asg] != ["mjLOAD_MULTIPLE*nnames_map"]:
        _err(rel, ln, "m->nnames_map is not assigned exactly once as mjLOAD_MULTIPLE * nnames_map: %r" % asg)
    return rel, terms


def read_multiple(repo):
    out = []
    for f in sorted(glob.glob(os.path.join(repo, "src", "*", "*.h")) + glob.glob(os.path.join(repo, "src", "*", "*.c")) +
                    glob.glob(os.path.join(repo, "src", "*", "*.cc")) + glob.glob(os.path.join(repo, "include", "mujoco", "*.h"))):
        with open(f, errors="replace") as fh:
            for i, l in enumerate(fh, 1):
                m = re.match(r"^\s*#\s*define\s+mjLOAD_MULTIPLE\b(.*)$", l)
                if m:
                    v = m.group(1).split("//")[0].strip()
                    if not re.match(r"^\d+$", v):
                        _err(os.path.relpath(f, repo), i, "mjLOAD_MULTIPLE is not an integer literal: %r" % v)
                    out.append((os.path.relpath(f, repo), int(v)))
    if not out:
        raise TranslatorError("cannot read src/: no definition of mjLOAD_MULTIPLE")
    return out


def read_objenum(repo):
    """values of the mjOBJ_ enumerators (needed to call mj_name2id with the right integer)"""
    for h in sorted(glob.glob(os.path.join(repo, "include", "mujoco", "*.h"))):
        with open(h) as f:
            text = _strip_comments(f.read())
        m = re.search(r"typedef\s+enum\s+mjtObj\w*\s*\{", text)
        if not m:
            continue
        end = _match_brace(text, m.end() - 1, h)
        vals, cur = [], -1
        for part in text[m.end():end].split(","):
            p = "".join(part.split())
            if not p:
                continue
            mm = re.match(r"^(mj\w+)(?:=(\d+))?$", p)
            if not mm:
                _err(os.path.relpath(h, repo), _lineno(text, m.end()), "mjtObj: unrecognised enumerator %r" % p)
            cur = int(mm.group(2)) if mm.group(2) is not None else cur + 1
            vals.append((mm.group(1), cur))
        return os.path.relpath(h, repo), vals
    raise TranslatorError("cannot read include/mujoco/*.h: enum mjtObj not found")


def _s(x):
    return '"%s"' % x


def tables(repo):
    sw_path, groups = read_switch(repo)
    cp_path, calls, lc, last_adv = read_copynames(repo)
    io_path, terms = read_mapsum(repo)
    mult = read_multiple(repo)
    en_path, objvals = read_objenum(repo)
    return dict(sw_path=sw_path, groups=groups, cp_path=cp_path, calls=calls, list_count=lc, io_path=io_path, terms=terms,
                mult=mult, en_path=en_path, objvals=objvals)


def generate(repo):
    t = tables(repo)
    o = []
    o.append("(* GENERATED by translate/names2v.py from %s, %s, %s -- do not edit. *)" % (t["sw_path"], t["cp_path"], t["io_path"]))
    o.append("From Coq Require Import String ZArith List.")
    o.append("Import ListNotations.")
    o.append("Open Scope string_scope. Open Scope Z_scope.")
    o.append("")
    o.append("(* _getnumadr: groups of the fall-through switch in textual order: (case labels, (count field, name address array)) *)")
    o.append("Definition switch_order : list (list string * (string * string)) := [")
    o.append(";\n".join("  ([%s], (%s, %s))" % ("; ".join(_s(l) for l in labels), _s(c), _s(a)) for labels, c, a in t["groups"]))
    o.append("].")
    o.append("(* CopyNames: namelist calls in textual order: (object list, name address array) *)")
    o.append("Definition copy_order : list (string * string) := [")
    o.append(";\n".join("  (%s, %s)" % (_s(l), _s(a)) for l, a in t["calls"]))
    o.append("].")
    o.append("(* nX = (int)list_.size(): (object list, count field) *)")
    o.append("Definition list_count : list (string * string) := [")
    o.append(";\n".join("  (%s, %s)" % (_s(l), _s(c)) for l, c in t["list_count"]))
    o.append("].")
    o.append("(* mj_makeModel: nnames_map = mjLOAD_MULTIPLE * (sum of these count fields) *)")
    o.append("Definition map_sum : list string := [%s]." % "; ".join(_s(x) for x in t["terms"]))
    o.append("(* every #define mjLOAD_MULTIPLE: (file, value) *)")
    o.append("Definition load_multiple : list (string * Z) := [%s]." % "; ".join("(%s, %d)" % (_s(f), v) for f, v in t["mult"]))
    o.append("(* enum mjtObj: (enumerator, value) *)")
    o.append("Definition obj_enum : list (string * Z) := [")
    o.append(";\n".join("  (%s, %d)" % (_s(n), v) for n, v in t["objvals"]))
    o.append("].")
    o.append("")
    return "\n".join(o)


if __name__ == "__main__":
    repo = sys.argv[1] if len(sys.argv) > 1 else os.environ.get("VERIF_REPO", "/repo")
    try:
        sys.stdout.write(generate(repo))
    except TranslatorError as e:
        sys.stderr.write("TranslatorError: %s\n" % e)
        sys.exit(2)
