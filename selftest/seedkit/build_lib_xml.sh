#!/bin/bash
# Builds engine + model compiler + XML reader/writer of THIS worktree into _seedkit/libmujoco_xml.a.
# tinyxml2 is not installed here: src/xml is compiled against a small tinyxml2-compatible DOM shim
# (_seedkit/stubs/tinyxml2.h, tinyxml2_shim.cc); src/xml/mjz is left out.  mj_loadXML (through a VFS
# buffer, see mj_addBufferVFS), mj_parseXMLString, mj_saveXMLString, mj_saveLastXML are available.
# usage: _seedkit/build_lib_xml.sh       then compile a demo with:
#   g++ -std=c++20 -O1 -I include -I src -I _seedkit/stubs demo.cc _seedkit/libmujoco_xml.a -lm -lpthread -ldl -o demo
# Do NOT link libmujoco_nox.a together with it.
set -e
cd "$(dirname "$0")/.."
K=_seedkit; mkdir -p $K/objx
CF="-O1 -g0 -ffp-contract=off -fPIC -D_GNU_SOURCE -DCCD_STATIC_DEFINE -DMC_IMPLEM_ENABLE -DMJ_STATIC -w -I include -I src -I $K/stubs -I ."
build_one() {
  src=$1; o=$K/objx/$(echo $src | tr '/.' '__').o
  if [ ! -f $o ] || [ $src -nt $o ] || [ -n "$(find include src/engine src/user src/xml -name '*.h' -newer $o | head -1)" ]; then
    case $src in *.c) gcc -std=gnu11 $CF -c $src -o $o ;; *) g++ -std=c++20 $CF -c $src -o $o ;; esac
  fi
}
export -f build_one; export K CF
ls src/engine/*.c src/engine/*.cc src/user/*.c src/user/*.cc src/xml/*.cc $K/stubs/tinyxml2_shim.cc | xargs -P 8 -I{} bash -c 'build_one {}'
rm -f $K/libmujoco_xml.a; ar rcs $K/libmujoco_xml.a $K/objx/*.o
echo built $K/libmujoco_xml.a
