#!/bin/bash
# Builds the MuJoCo engine + model compiler of THIS worktree into _seedkit/libmujoco_nox.a
# (no XML parser, no libccd/qhull/lodepng: stubbed). Incremental: only changed sources recompile.
# usage: _seedkit/build_lib.sh           then compile a demo with:
#   gcc -O1 -I include -I src -I _seedkit/stubs demo.c _seedkit/libmujoco_nox.a -lstdc++ -lm -lpthread -ldl -o demo
# (use g++ for C++ demos).  Models are created through the mjSpec C API (mj_makeSpec, mjs_addBody,
# mjs_addJoint, mjs_addGeom, ..., mj_compile); mj_loadXML is NOT available.
set -e
cd "$(dirname "$0")/.."
K=_seedkit; mkdir -p $K/obj
CF="-O1 -g0 -ffp-contract=off -fPIC -D_GNU_SOURCE -DCCD_STATIC_DEFINE -DMC_IMPLEM_ENABLE -DMJ_STATIC -w -I include -I src -I $K/stubs -I ."
build_one() {
  src=$1; o=$K/obj/$(echo $src | tr '/.' '__').o
  if [ ! -f $o ] || [ $src -nt $o ] || [ -n "$(find include src/engine src/user -name '*.h' -newer $o | head -1)" ]; then
    case $src in *.c) gcc -std=gnu11 $CF -c $src -o $o ;; *) g++ -std=c++20 $CF -c $src -o $o ;; esac
  fi
}
export -f build_one; export K CF
ls src/engine/*.c src/engine/*.cc src/user/*.c src/user/*.cc $K/stubs/xml_stub.c | xargs -P 8 -I{} bash -c 'build_one {}'
rm -f $K/libmujoco_nox.a; ar rcs $K/libmujoco_nox.a $K/obj/*.o
echo built $K/libmujoco_nox.a
