#!/bin/bash
# usage: selftest/eval_pairs_seq.sh PROP:NAME ...   (sequential; NAME is the seeded dir / /tmp/seed-NAME worktree)
for pn in "$@"; do /verif/selftest/eval_seed.sh ${pn%%:*} ${pn##*:} >> /verif/build/seed_eval.out 2>&1; done
