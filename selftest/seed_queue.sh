#!/bin/bash
# waits until no other seed evaluation is running, then evaluates the given seeds sequentially
while pgrep -f "[e]val_seed.sh" >/dev/null; do sleep 20; done
for s in "$@"; do /verif/selftest/eval_seed.sh $s >> /verif/build/seed_eval.out 2>&1; done
