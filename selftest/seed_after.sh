#!/bin/bash
# usage: selftest/seed_after.sh <pid> ID...   waits for <pid> to exit, then evaluates the seeds sequentially
pid=$1; shift
tail --pid=$pid -f /dev/null
exec /verif/selftest/eval_seeds_seq.sh "$@"
