#!/bin/bash
# evaluates fifth-round seeds (/tmp/seed-Cxxe/_seed complete) one after the other as they appear;
# stops when /verif/build/round5.stop exists and nothing is left to do
cd /verif
while true; do
  did=0
  for d in /tmp/seed-C??e; do
    [ -d $d ] || continue
    n=$(basename $d | sed 's/seed-//'); p=${n%e}
    [ -s $d/_seed/meta.json ] && [ -s $d/_seed/patch.diff ] || continue
    grep -q coordinator_eval seeded/$n/meta.json 2>/dev/null && continue
    [ -n "$(find $d/_seed -mmin -2 -type f | head -1)" ] && continue
    # do not collide with a running pass on the same property
    while pgrep -f "check $p --tier" >/dev/null; do sleep 10; done
    selftest/eval_seed.sh $p $n >> build/seed_eval.out 2>&1
    did=1
  done
  [ $did = 0 ] && [ -e build/round5.stop ] && break
  [ $did = 0 ] && sleep 60
done
