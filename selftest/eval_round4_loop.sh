#!/bin/bash
# evaluates second-round seeds (/tmp/seed-CxxB/_seed complete = meta.json present) one after the other as they appear;
# stops when /verif/build/round4.stop exists and nothing is left to do
cd /verif
while true; do
  did=0
  for d in /tmp/seed-C??d; do
    n=$(basename $d | sed 's/seed-//'); p=${n%d}
    [ -s $d/_seed/meta.json ] && [ -s $d/_seed/patch.diff ] || continue
    grep -q coordinator_eval seeded/$n/meta.json 2>/dev/null && continue
    # wait until the seeding agent has been quiet for 2 minutes (files not modified)
    [ -n "$(find $d/_seed -mmin -2 -type f | head -1)" ] && continue
    selftest/eval_seed.sh $p $n >> build/seed_eval.out 2>&1
    did=1
  done
  [ $did = 0 ] && [ -e build/round4.stop ] && break
  [ $did = 0 ] && sleep 60
done
