#!/usr/bin/env python3
import json, sys
pid = sys.argv[1]
for l in open('/verif/properties.jsonl'):
    p = json.loads(l)
    if p['id'] == pid:
        break
files = ", ".join(p.get('anchors', {}).get('files', []))
print(f"""You are a software engineer asked to produce a SUBTLE BUG for a robustness study of the MuJoCo physics engine repository. You work ONLY inside your own scratch git worktree /tmp/seed-{pid} (a checkout of the repository; never touch /repo, never look at or use anything under /verif, never commit).

The property that your change must break:

  {p['id']} — {p['title']}
  {p['statement']}
  (quantified over: {p['quantifier']['text']})
  Files where the mechanism lives (hint): {files}

Your task: make a small, realistic source change in /tmp/seed-{pid} (a plausible refactoring slip, off-by-one, wrong condition, missing update, reordered statements, mishandled special case — the kind of mistake a code review could miss) such that:
 1. the repository still builds (see below) and its existing test-suite still passes: `cd /tmp/seed-{pid} && /venv/bin/python -m pytest -q -p no:cacheprovider --timeout=900 --continue-on-collection-errors test/doc doc` must report 86 passed;
 2. the property above is violated, but ONLY under something specific — a particular input shape or size, a boundary value, a multi-step sequence of operations, a particular interleaving or failure point, an unusual configuration, or two cooperating sites that each look fine alone — NOT something ordinary use would expose at once (a change that breaks every call is useless);
 3. you provide a DEMONSTRATION: a small self-contained program (C/C++ against the library built from the worktree, or Python for Python code) that exits 0 / prints PASS on the unmodified code and exits non-zero / prints FAIL with your change applied, by checking the property statement directly on a concrete input.

Build kit (already in the worktree, untracked): `_seedkit/build_lib.sh` builds the engine + model compiler of the worktree into `_seedkit/libmujoco_nox.a` (no XML parser: models must be created through the mjSpec C API — mj_makeSpec, mjs_findBody(s,"world"), mjs_addBody, mjs_addJoint/mjs_addFreeJoint, mjs_addGeom, mjs_addSite, mjs_addActuator, mjs_addSensor, mjs_addTendon..., mj_compile(spec, NULL), mj_makeData; see include/mujoco/mujoco.h and mjspec.h). Compile a demo with: `gcc -O1 -I include -I src -I _seedkit/stubs demo.c _seedkit/libmujoco_nox.a -lstdc++ -lm -lpthread -ldl -o demo` (g++ -std=c++20 for C++; static/internal functions can be reached by `#include "engine/engine_xxx.c"` in the demo instead of linking that object). Python code of the repo (doc/generate, python/mujoco/...) must be run with /venv/bin/python importing the modules BY PATH from the worktree (the installed `mujoco` package is a different version; do not use it as the code under test). The machine is heavily loaded; builds take a few minutes; wrap long commands in `timeout`.

Procedure: (a) read the relevant source; (b) write the demo first and confirm it PASSES on the unmodified worktree (build the library first); (c) make the change, rebuild (`_seedkit/build_lib.sh`), confirm the demo FAILS, confirm the 86 tests pass; (d) save in /tmp/seed-{pid}/_seed/: `patch.diff` (output of `git diff` for tracked files only — must apply to a clean checkout with `git apply`), the demo source (`demo.c` / `demo.cc` / `demo.py`) with a comment on top saying how to build/run it, and `meta.json` with keys: property, summary (what the change does), needs (what specific condition is needed for the violation to manifest), files_changed, demo_build_cmd, demo_run_cmd, demo_pass_output, demo_fail_output. Keep the change minimal (a few lines). Do not add comments that reveal the bug. Do NOT use `git stash` (the stash is shared between worktrees of other people); to test on clean code use `git diff > /tmp/mychange.diff; git checkout -- <files>; ...; git apply /tmp/mychange.diff`.

Final answer: a short description of the change, the manifest condition, and confirmation of (b) and (c) with the observed outputs.""")
