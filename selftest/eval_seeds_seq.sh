#!/bin/bash
# usage: selftest/eval_seeds_seq.sh C38 C50 ...  (sequential, because checks share scratch dirs and Gen files)
for s in "$@"; do /verif/selftest/eval_seed.sh $s >> /verif/build/seed_eval.out 2>&1; done
