#!/bin/bash
# usage: selftest/make_seed_worktree.sh <name>  -> creates /tmp/seed-<name>, a detached worktree of /repo HEAD
# with a build kit (_seedkit/: stubs + build_lib.sh; untracked, nothing from the checks).
set -e
W=/tmp/seed-$1
git -C /repo worktree remove --force $W 2>/dev/null || true
rm -rf $W
git -C /repo worktree add --detach -f $W HEAD >/dev/null 2>&1
mkdir -p $W/_seedkit
cp -r /verif/harness/stubs $W/_seedkit/stubs
cp /verif/selftest/seedkit/build_lib.sh /verif/selftest/seedkit/build_lib_xml.sh $W/_seedkit/
echo $W
