#!/bin/bash
# usage: selftest/thorough_pass.sh <lanes>   thorough checks of all claimed properties on /repo HEAD, <lanes> at a time
# (evidence and replays go to build/thoroughpass_out; the committed evidence is not touched)
cd /verif
L=${1:-2}
grep -v '^#' harness/claimed.txt | xargs -P $L -I{} bash -c 's=$(date +%s); out=$(VERIF_OUT=/verif/build/thoroughpass_out timeout 3600 nice -n 5 ./check {} --tier thorough 2>&1 | grep -E "^(VIOLATION|OK)" | head -3 | cut -c1-200 | tr "\n" " "); e=$(date +%s); echo "thorough {} wall=$((e-s))s :: $out"'
