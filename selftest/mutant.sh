#!/bin/bash
# usage: selftest/mutant.sh <patch file> <property id>...   (never touches /repo: works on a scratch worktree)
# Applies the patch to a scratch worktree of /repo, runs ./check for each property with VERIF_REPO
# pointing at it, prints the outcome, removes the worktree.  Output goes to build/selftest_out.
set -u
PATCH=$(readlink -f "$1"); shift
W=/var/tmp/verif-scratch-$$
git -C /repo worktree add --detach -f "$W" HEAD >/dev/null 2>&1 || { echo "cannot create worktree"; exit 2; }
trap 'git -C /repo worktree remove --force "$W" >/dev/null 2>&1; rm -rf "$W"' EXIT
case "$PATCH" in
  *.sh) (cd "$W" && bash "$PATCH") || { echo "mutation script failed"; exit 2; }
        [ -n "$(git -C "$W" status --porcelain)" ] || { echo "mutation script changed nothing"; exit 2; } ;;
  *) if [ -s "$PATCH" ]; then git -C "$W" apply "$PATCH" || { echo "patch does not apply"; exit 2; }; fi ;;
esac
cd /verif
rc_all=0
for P in "$@"; do
  VERIF_OUT=/verif/build/selftest_out VERIF_REPO="$W" ./check "$P" ${TIER:+--tier $TIER}
  echo "exit=$? property=$P patch=$(basename $PATCH)"
done
