#!/bin/bash
# usage: VERIF_SEED=<s> selftest/thorough_ids.sh <lanes> ids...   thorough checks of the given properties on /repo HEAD
# (evidence and replays go to build/thoroughpass_out; the committed evidence is not touched)
cd /verif
L=$1; shift
printf "%s\n" "$@" | xargs -P $L -I{} bash -c 's=$(date +%s); out=$(VERIF_OUT=/verif/build/thoroughpass_out timeout 3600 nice -n 5 ./check {} --tier thorough 2>&1 | grep -E "^(VIOLATION|OK)" | head -3 | cut -c1-200 | tr "\n" " "); e=$(date +%s); echo "thorough {} wall=$((e-s))s :: $out"'
