#!/bin/bash
# usage: selftest/eval_seed.sh <PROP> [<name>] [extra props to run]
# Takes the seeded change produced in /tmp/seed-<name>/_seed (patch.diff, demo.*, meta.json), stores it as
# /verif/seeded/<name>/, confirms it independently in a FRESH worktree (demo passes on clean code, fails with
# the patch, repo tests still pass) and runs ./check <PROP> against the patched tree.
set -u
P=$1; N=${2:-$1}; shift; shift || true
SRC=/tmp/seed-$N/_seed
DST=/verif/seeded/$N
mkdir -p $DST
# first evaluation: take the seeding agent's files; later evaluations keep the stored copy (and its coordinator_eval)
if [ ! -s $DST/meta.json ]; then cp $SRC/patch.diff $SRC/meta.json $DST/ 2>/dev/null; cp $SRC/demo.* $DST/ 2>/dev/null; fi
W=/var/tmp/verif-seedeval-$N
git -C /repo worktree remove --force $W >/dev/null 2>&1; rm -rf $W
git -C /repo worktree add --detach -f $W HEAD >/dev/null 2>&1 || { echo "worktree failed"; exit 2; }
trap 'git -C /repo worktree remove --force "$W" >/dev/null 2>&1; rm -rf "$W"' EXIT
mkdir -p $W/_seedkit && cp -r /verif/harness/stubs $W/_seedkit/stubs && cp /verif/selftest/seedkit/build_lib.sh /verif/selftest/seedkit/build_lib_xml.sh $W/_seedkit/
cp $DST/demo.* $W/ 2>/dev/null; mkdir -p $W/_seed && cp $DST/demo.* $W/_seed/ 2>/dev/null
# demos may mention the seeding agent's worktree (e.g. to assert which copy of a Python package is imported)
sed -i "s#/tmp/seed-$N#$W#g" $W/demo.* $W/_seed/demo.* 2>/dev/null
BUILD=$(python3 -c "import json;print(json.load(open('$DST/meta.json')).get('demo_build_cmd',''))")
RUN=$(python3 -c "import json;print(json.load(open('$DST/meta.json')).get('demo_run_cmd',''))")
BUILD=${BUILD//\/tmp\/seed-$N/$W}; RUN=${RUN//\/tmp\/seed-$N/$W}
needlib=0; echo "$BUILD" | grep -q libmujoco_nox && needlib=1
needxml=0; echo "$BUILD" | grep -q libmujoco_xml && needxml=1
cd $W
run_demo() { ( [ -n "$BUILD" ] && timeout 900 bash -c "$BUILD" >/dev/null 2>&1; timeout 900 bash -c "$RUN" > _demo.out 2>&1; echo $? ); }
[ $needlib = 1 ] && timeout 1500 _seedkit/build_lib.sh >/dev/null 2>&1
[ $needxml = 1 ] && timeout 2400 _seedkit/build_lib_xml.sh >/dev/null 2>&1
rc_clean=$(run_demo); tail -1 _demo.out > _clean.out
git apply $DST/patch.diff || { echo "patch does not apply to HEAD"; exit 2; }
[ $needlib = 1 ] && timeout 1500 _seedkit/build_lib.sh >/dev/null 2>&1
[ $needxml = 1 ] && timeout 2400 _seedkit/build_lib_xml.sh >/dev/null 2>&1
rc_patched=$(run_demo); tail -1 _demo.out > _patched.out
tests=$(timeout 900 /venv/bin/python -m pytest -q -p no:cacheprovider --timeout=900 --continue-on-collection-errors test/doc doc 2>&1 | tail -1)
echo "SEED $N: demo clean rc=$rc_clean ($(cat _clean.out | cut -c1-80)) patched rc=$rc_patched ($(cat _patched.out | cut -c1-80)) tests: $tests"
cd /verif
for Q in $P "$@"; do
  out=$(VERIF_OUT=/verif/build/selftest_out VERIF_REPO=$W timeout 2400 ./check $Q 2>&1 | grep -E "^(VIOLATION|OK)" | head -2 | tr '\n' ' ')
  echo "SEED $N: check $Q -> $out"
  python3 - "$DST/meta.json" "$Q" "$out" "$rc_clean" "$rc_patched" "$tests" <<'PY'
import json,sys
p,q,out,rc,rp,tests=sys.argv[1:7]
m=json.load(open(p)); m.setdefault("coordinator_eval",{})
m["coordinator_eval"].update({"demo_rc_clean":rc,"demo_rc_patched":rp,"repo_tests":tests})
m["coordinator_eval"].setdefault("checks",{})[q]=out
json.dump(m,open(p,"w"),indent=1)
PY
done
# restore generated Coq files from /repo
