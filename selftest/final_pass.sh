#!/bin/bash
# usage: selftest/final_pass.sh   quick checks of all claimed properties on /repo HEAD, VERIF_SEED=1, evidence written in place
cd /verif
for P in $(grep -v '^#' harness/claimed.txt); do
  s=$(date +%s)
  out=$(VERIF_SEED=1 VERIF_TIER=quick timeout 2400 ./check "$P" --tier quick 2>&1 | grep -E "^(VIOLATION|OK)" | head -3 | cut -c1-200 | tr '\n' ' ')
  e=$(date +%s)
  echo "final $P wall=$((e-s))s :: $out"
done
