#!/bin/bash
# independent re-check of every compiled Props file (and everything it depends on) with coqchk; prints the axioms
cd /verif/coq
mods=$(ls Props/C*.vo | sed 's|Props/\(C[0-9]*\)\.vo|MJV.Props.\1|')
timeout 7200 coqchk -silent -o -Q . MJV $mods 2>&1 | tail -200
