#!/bin/bash
# like seed_queue.sh but each argument is "NAME:PROP1,PROP2" (extra properties to check the seed against)
while pgrep -f "[e]val_seed.sh" >/dev/null; do sleep 20; done
for a in "$@"; do n=${a%%:*}; ps=${a#*:}; /verif/selftest/eval_seed.sh ${ps%%,*} $n $(echo ${ps#*,} | tr ',' ' ') >> /verif/build/seed_eval.out 2>&1; done
