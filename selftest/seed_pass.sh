#!/bin/bash
# usage: selftest/seed_pass.sh <VERIF_SEED> [ids...]  quick checks of all claimed properties on /repo HEAD with another seed
# (evidence and replays go to build/seedpass_out so that the committed evidence is not touched)
cd /verif
S=$1; shift
IDS="$@"; [ -z "$IDS" ] && IDS=$(grep -v '^#' harness/claimed.txt)
for P in $IDS; do
  s=$(date +%s)
  out=$(VERIF_SEED=$S VERIF_OUT=/verif/build/seedpass_out timeout 2400 nice -n 5 ./check "$P" --tier quick 2>&1 | grep -E "^(VIOLATION|OK)" | head -3 | cut -c1-200 | tr '\n' ' ')
  e=$(date +%s)
  echo "seed=$S $P wall=$((e-s))s :: $out"
done
