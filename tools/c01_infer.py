#!/usr/bin/env python3
"""Tooling (not a check): infer read/write frames of the pipeline stages by perturbation runs of the
real code over many models, and write coq/Model/StageSets.v.  The result is a hand-curated artefact:
it is validated on every run of ./check C01 by garbage injection (harness/props/c01.py)."""
import sys, subprocess, random, collections
sys.path.insert(0, '/verif/harness')
import build as B
lib, _ = B.build_lib()
exe = B.build_driver("c01_frames", ["c01_frames.c"], lib=lib)
ALL = 0x7FFFF
SEQ = {0: ["mj_checkPos", "mj_checkVel", "mj_fwdPosition", "mj_sensorPos", "mj_energyPos", "mj_fwdVelocity", "mj_sensorVel", "mj_energyVel",
           "mj_fwdActuation", "mj_fwdAcceleration", "mj_fwdConstraint", "mj_sensorAcc", "mj_checkAcc", "mj_compareFwdInv", "mj_Euler"],
       2: None, 3: None, 1: None}
SEQ[2] = SEQ[0][:-1] + ["mj_implicit"]; SEQ[3] = SEQ[2]; SEQ[1] = SEQ[0][:-1] + ["mj_RungeKutta,4"]
rng = random.Random(12345)
N = int(sys.argv[1]) if len(sys.argv) > 1 else 60
inp = []
for i in range(N):
    seed = rng.randrange(1, 10**6); feat = ALL if i % 3 == 0 else rng.randrange(0, ALL + 1); nb = 1 + rng.randrange(6)
    integ = rng.choice([0, 1, 2, 3]); en = rng.choice([0, 2, 4, 6])
    inp.append("P %d %d %d %d %d %d %s" % (seed, feat, nb, integ, en, len(SEQ[integ]), " ".join(SEQ[integ])))
r = subprocess.run([exe], input="\n".join(inp) + "\n", capture_output=True, text=True, timeout=7200)
W = collections.defaultdict(collections.Counter); R = collections.defaultdict(collections.Counter); runs = collections.Counter()
for line in r.stdout.split("\n"):
    if "|" not in line:
        if line.strip(): print("??", line[:200])
        continue
    for part in line.split(";;"):
        part = part.strip()
        if not part: continue
        st, w, rd = [x.strip() for x in part.split("|")]
        runs[st] += 1
        for x in w[2:].split(): W[st][x] += 1
        for x in rd[2:].split(): R[st][x] += 1
import json
json.dump({"runs": runs, "W": {k: dict(v) for k, v in W.items()}, "R": {k: dict(v) for k, v in R.items()}}, open('/verif/build/c01_infer.json', 'w'), indent=1)
for st in runs:
    print(st, runs[st]); print("  W", dict(W[st])); print("  R", dict(R[st]))
