#!/usr/bin/env python3
"""Tooling: start from harness/c01_table.json, promote every maybe-written field (except partial-write
fields) back to always-written and re-validate; fields that fail validation are demoted again."""
import sys, json, collections
ARGS = sys.argv[1:]
sys.argv = [sys.argv[0]]
import importlib.util
spec = importlib.util.spec_from_file_location("c01_table", "/verif/tools/c01_table.py")
T = importlib.util.module_from_spec(spec); spec.loader.exec_module(T)
t = json.load(open('/verif/harness/c01_table.json'))
KEEP_MAY = {"sensordata", "energy"}
NOPROMOTE = "--no-promote" in ARGS
for st, fr in t["frames"].items():
    if NOPROMOTE:
        T.frames[st] = {"reads": set(fr["reads"]), "must": set(fr["must"]), "may": set(fr["may"])}
    else:
        T.frames[st] = {"reads": set(fr["reads"]), "must": set(fr["must"]) | (set(fr["may"]) - KEEP_MAY), "may": set(fr["may"]) & KEEP_MAY}
demoted = collections.defaultdict(set)
import re
for rnd in range(6):
    for st in T.frames: T.frames[st]["reads"] = set()
    T.add_int_reads()   # NOTE: conditional-stage handling is re-applied by tools/c01_reads.py afterwards
    probs, no, nl = T.validate(8, 500 + rnd)
    print("round", rnd, no, nl, {k: {a[:50]: b for a, b in list(v.items())[:8]} for k, v in probs.items()}, flush=True)
    T.dump()
    if not probs: break
    for st, c in probs.items():
        for key in c:
            x = key.split(":", 1)[1] if ":" in key else ""
            if key.startswith("reads-outside-R:"):
                T.frames[st]["must"].discard(x); T.frames[st]["may"].add(x); demoted[st].add(x)
            elif key.startswith("writes-outside-W(garbage run)"):
                (T.frames[st]["may"] if x in demoted[st] else T.frames[st]["must"]).add(x)
            elif key.startswith("writes-outside-W"):
                T.frames[st]["may"].add(x)
T.dump()
for st in T.frames: print(st, len(T.frames[st]["reads"]), len(T.frames[st]["must"]), sorted(T.frames[st]["may"]))
