#!/usr/bin/env python3
"""Tooling: build harness/c01_table.json (stage frames) from build/c01_infer.json and refine it by
garbage-injection validation runs until it validates.  Hand-curated result is committed."""
import sys, subprocess, random, json, collections, re
sys.path.insert(0, '/verif/harness')
import build as B
lib, _ = B.build_lib()
exe = B.build_driver("c01_frames", ["c01_frames.c"], lib=lib)
ALL = 0x7FFFF
inf = json.load(open('/verif/build/c01_infer.json'))
STATE = ["time", "qpos", "qvel", "act", "history", "qacc_warmstart", "plugin_state", "ctrl", "qfrc_applied", "xfrc_applied",
         "eq_active", "mocap_pos", "mocap_quat", "userdata"]
FLOATS = set()
for st in inf["R"]:
    FLOATS |= set(inf["R"][st])
CONST = ["tree_asleep", "tree_awake", "body_awake", "body_awake_ind", "parent_awake_ind", "dof_awake_ind",
         "ntree_awake", "nbody_awake", "nparent_awake", "nv_awake"]     # constant while sleeping is disabled
ATOMS = {"d->flg_energypos": ["flg_energypos"], "d->flg_energyvel": ["flg_energyvel"], "mjENABLED(mjENBL_ENERGY)": [],
         "mjENABLED(mjENBL_FWDINV)": [], "mjcb_control": [], "mjDISABLED(mjDSBL_ACTUATION)": [],
         "flex_has_passive_contact(m)": [], "mj_flexCG(m)": []}
OUT_FWD = ["xpos", "xquat", "xmat", "geom_xpos", "geom_xmat", "cvel", "qfrc_bias", "qfrc_passive", "actuator_force", "qfrc_actuator",
           "qfrc_smooth", "qacc_smooth", "qacc", "efc_force", "qfrc_constraint", "contact", "ncon", "nefc", "efc_J", "efc_aref"]
OUT_STEP = ["time", "qpos", "qvel", "act", "qacc_warmstart"] + OUT_FWD
MAY0 = {"sensordata", "energy"}
ORDER = ["mj_checkPos", "mj_checkVel", "mj_fwdPosition", "mj_sensorPos", "mj_energyPos", "mj_fwdVelocity", "mj_sensorVel", "mj_energyVel",
         "mj_fwdActuation", "mj_fwdAcceleration", "mj_fwdConstraint", "mj_sensorAcc", "mj_checkAcc", "mj_compareFwdInv"]
INTEG = ["mj_Euler", "mj_implicit", "mj_RungeKutta,4"]
frames = {}
for st in ORDER + INTEG:
    W = set(inf["W"].get(st, {}))
    frames[st] = {"reads": set(inf["R"].get(st, {})), "must": W - MAY0, "may": W & MAY0}
# manual knowledge
frames["mj_sensorPos"]["may"] |= {"sensordata"}; frames["mj_sensorVel"]["may"] |= {"sensordata"}; frames["mj_sensorAcc"]["may"] |= {"sensordata"}
frames["mj_energyPos"]["may"] |= {"energy"}; frames["mj_energyVel"]["may"] |= {"energy"}

def nonfloat(x):
    return x not in FLOATS

def add_int_reads():
    """every non-float field known to agree at the stage's position is assumed read"""
    for integ in INTEG:
        D = set(STATE) | set(CONST)
        for st in ORDER + [integ]:
            fr = frames[st]
            ints = set(D)   # every field known to agree at this point may be read (floats and ints)
            fr.setdefault("ireads", None)
            fr["ireads"] = ints if fr["ireads"] is None else (fr["ireads"] & ints)
            D = (D - fr["may"]) | fr["must"]
    for st in frames:
        frames[st]["reads"] |= (frames[st].pop("ireads") or set())

def validate(n, seed0):
    rng = random.Random(seed0)
    lines = []; meta = []
    for i in range(n):
        seed = rng.randrange(1, 10**6); feat = ALL if i % 2 == 0 else rng.randrange(0, ALL + 1); nb = 1 + rng.randrange(6); en = rng.choice([0, 2, 4, 6]) | (rng.choice([0, 1, 2, 3]) << 8) | (rng.choice([0, 1, 2]) << 10)
        for st in frames:
            fr = frames[st]
            R = sorted(fr["reads"]); W = sorted(fr["must"])
            WA = sorted(fr["must"] | fr["may"])
            # V line: R list, then must list (agreement), frame uses must+may: pass as third list
            lines.append("V %d %d %d %d %s %d %s %d %s %d %s" % (seed, feat, nb, en, st, len(R), " ".join(R), len(W), " ".join(W), len(WA), " ".join(WA)))
            meta.append(st)
    r = subprocess.run([exe], input="\n".join(lines) + "\n", capture_output=True, text=True, timeout=7200)
    out = r.stdout.strip().split("\n")
    probs = collections.defaultdict(collections.Counter)
    for st, l, inp in zip(meta, out, lines):
        if l.startswith("OK") or l.startswith("ERR compile"): continue
        if l.startswith("CRASH") or l.startswith("ERR"):
            probs[st]["CRASH:" + l[:80] + " :: " + inp[:60]] += 1; continue
        for kind, fld in re.findall(r"(reads-outside-R|writes-outside-W(?:\(garbage run\))?):(\S+)", l):
            probs[st][kind + ":" + fld] += 1
            if kind == "reads-outside-R": failing.setdefault(st, inp.split()[1:5])
    return probs, len(out), len(lines)

failing = {}
ALLFLOATS = None

def run_v(case, st, R, W, WA):
    line = "V %s %s %s %s %s %d %s %d %s %d %s" % (case[0], case[1], case[2], case[3], st, len(R), " ".join(R), len(W), " ".join(W), len(WA), " ".join(WA))
    r = subprocess.run([exe], input=line + "\n", capture_output=True, text=True, timeout=600)
    return r.stdout.strip()

def attribute(st, case):
    """which float fields outside R does the stage read?  greedy minimisation"""
    fr = frames[st]
    W = sorted(fr["must"]); WA = sorted(fr["must"] | fr["may"])
    cands = sorted(FLOATS - fr["reads"])
    extra = list(cands)
    out = run_v(case, st, sorted(fr["reads"] | set(extra)), W, WA)
    if "reads-outside-R" in out or out.startswith("CRASH"):
        return None       # not explained by float reads
    for g in cands:
        trial = [x for x in extra if x != g]
        out = run_v(case, st, sorted(fr["reads"] | set(trial)), W, WA)
        if "reads-outside-R" not in out and not out.startswith("CRASH"):
            extra = trial
    return extra

def dump():
    fr2 = {k: {a: sorted(set(b) - (set(CONST) if a != "reads" else set())) for a, b in v.items()} for k, v in frames.items()}
    json.dump({"const": CONST, "atoms": ATOMS, "outputs_forward": OUT_FWD, "outputs_step": OUT_STEP, "state": STATE, "frames": fr2},
              open('/verif/harness/c01_table.json', 'w'), indent=1)


if __name__ == "__main__" and len(sys.argv) > 0 and sys.argv[0].endswith("c01_table.py"):
    demoted = collections.defaultdict(set)
    for rnd in range(int(sys.argv[2]) if len(sys.argv) > 2 else 10):
        for st in frames: frames[st]["reads"] = set(inf["R"].get(st, {}))
        add_int_reads()
        probs, no, nl = validate(int(sys.argv[1]) if len(sys.argv) > 1 else 12, 100 + rnd)
        print("round", rnd, "outputs", no, "/", nl, {k: {a[:60]: b for a, b in list(v.items())[:6]} for k, v in probs.items()})
        dump()
        if not probs: break
        attributed = {}
        for st in []:
            cul = attribute(st, failing[st])
            print("  attribute", st, failing[st], "->", cul)
            if cul:
                frames[st]["reads"] |= set(cul); inf["R"].setdefault(st, {}).update({c: 1 for c in cul}); attributed[st] = True
        failing.clear()
        for st, c in probs.items():
            for key in c:
                if key.startswith("reads-outside-R:") and attributed.get(st):
                    continue
                if key.startswith("reads-outside-R:"):
                    x = key.split(":", 1)[1]
                    frames[st]["must"].discard(x); frames[st]["may"].add(x); demoted[st].add(x)
                elif key.startswith("writes-outside-W(garbage run)"):
                    x = key.split(":", 1)[1]
                    if x in demoted[st]: frames[st]["may"].add(x)
                    else: frames[st]["must"].add(x)
                elif key.startswith("writes-outside-W"):
                    x = key.split(":", 1)[1]
                    frames[st]["may"].add(x)
    dump()
    for st in frames:
        print(st, "reads", len(frames[st]["reads"]), "must", len(frames[st]["must"]), "may", sorted(frames[st]["may"]))
