#!/usr/bin/env python3
"""Tooling: recompute the read sets of harness/c01_table.json as 'every field known to agree at the
stage's position in the reference pipeline' (conditional stages do not contribute definitions)."""
import json
t = json.load(open('/verif/harness/c01_table.json'))
ORDER = ["mj_checkPos", "mj_checkVel", "mj_fwdPosition", "mj_sensorPos", "mj_energyPos", "mj_fwdVelocity", "mj_sensorVel", "mj_energyVel",
         "mj_fwdActuation", "mj_fwdAcceleration", "mj_fwdConstraint", "mj_sensorAcc", "mj_checkAcc", "mj_compareFwdInv"]
COND = {"mj_compareFwdInv", "mj_energyPos", "mj_energyVel"}
reads = {}
for integ in ["mj_Euler", "mj_implicit", "mj_RungeKutta,4"]:
    D = set(t["state"]) | set(t["const"])
    for st in ORDER + [integ]:
        fr = t["frames"][st]
        reads[st] = set(D) if st not in reads else (reads[st] & set(D))
        if st in COND:
            D = D - set(fr["may"]) - set(fr["must"])
        else:
            D = (D - set(fr["may"])) | set(fr["must"])
for st in reads:
    t["frames"][st]["reads"] = sorted(reads[st])
json.dump(t, open('/verif/harness/c01_table.json', 'w'), indent=1)
print({st: len(v) for st, v in reads.items()})
