#!/bin/bash
# Build the framework offline from files on disk: Coq development (full .vo build), libmj_nox from /repo.
set -e
cd "$(dirname "$0")"
export PYTHONHASHSEED=0
python3 - <<'PY'
import sys
sys.path.insert(0, "harness")
import framework as F
F.coq_project()
bad = F.forbidden_scan()
if bad:
    print("forbidden declarations:", bad); sys.exit(1)
PY
(cd coq && timeout 5000 make -j16 -k 2>&1 | tail -5)
python3 harness/build.py
echo "setup done"
