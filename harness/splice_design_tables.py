#!/usr/bin/env python3
"""Put build/design_tables.md (harness/gen_design_tables.py) between the GENERATED TABLES markers of DESIGN.md."""
import re
d = open('/verif/DESIGN.md').read()
t = open('/verif/build/design_tables.md').read().rstrip('\n')
a = d.index('<!-- BEGIN GENERATED TABLES -->') + len('<!-- BEGIN GENERATED TABLES -->')
b = d.index('<!-- END GENERATED TABLES -->')
open('/verif/DESIGN.md', 'w').write(d[:a] + '\n' + t + '\n' + d[b:])
print('spliced', len(t.split('\n')), 'lines')
