#!/usr/bin/env python3
"""Regenerate /verif/MANIFEST.json from the META of every harness/props/cXX.py and not_applicable.json."""
import glob, importlib, json, os, sys
VERIF = os.path.dirname(os.path.dirname(os.path.abspath(__file__)))
sys.path.insert(0, os.path.join(VERIF, "harness"))
sys.path.insert(0, os.path.join(VERIF, "harness", "props"))

props = [json.loads(l)["id"] for l in open(os.path.join(VERIF, "properties.jsonl"))]
na = json.load(open(os.path.join(VERIF, "harness", "not_applicable.json")))
checks = []
claimed = set()
claimed_list = [l.strip() for l in open(os.path.join(VERIF, "harness", "claimed.txt")) if l.strip() and not l.startswith("#")]
for f in sorted(glob.glob(os.path.join(VERIF, "harness", "props", "c[0-9][0-9].py"))):
    if os.path.basename(f)[:-3].upper() not in claimed_list:
        continue
    m = importlib.import_module(os.path.basename(f)[:-3])
    M = m.META
    pid = M["id"]
    claimed.add(pid)
    checks.append({
        "property_id": pid,
        "quick_cmd": "./check %s --tier quick" % pid,
        "thorough_cmd": "./check %s --tier thorough" % pid,
        "evidence_file": "/verif/evidence/%s.json" % pid,
        "replay_cmd_template": "./check %s --replay {path}" % pid,
        "engine": "coq-model+correspondence",
        "level_claimed": {"category": M.get("category", "proof"), "text": M["text"], "design_ref": M.get("design_ref", "DESIGN.md section 4")},
        "level_note": M["note"],
        "technique": M["technique"],
    })
not_app = []
for pid in props:
    if pid in claimed:
        continue
    reason = na.get(pid, "designed in DESIGN.md section 4 but the Coq model/tie is not built yet; not claimed rather than claimed with a weaker technique")
    not_app.append({"property_id": pid, "reason": reason})
man = {
    "version": 1,
    "setup_cmd": "./setup.sh",
    "hooks": {"guard": "MUJOCO_VERIF", "enable": "no source hooks are needed: static functions and macros are reached by #include-ing repo sources into harness drivers; harness builds pass -DMUJOCO_VERIF=1 (unused by /repo)",
              "baseline_off_cmd": "cd /repo && /venv/bin/python -m pytest -ra -q -p no:cacheprovider --timeout=900 --continue-on-collection-errors",
              "source_commits": [], "add_only": True},
    "engines": [{"name": "coq-model+correspondence", "path": "/verif/check",
                 "serves_properties": sorted(claimed),
                 "kind_free_text": "Coq 8.16.1 theorems over Gallina models (coq/), tied to /repo by translators (translate/) and differential correspondence runs (harness/) against a library built from the working tree"}],
    "checks": checks,
    "notes": "See DESIGN.md. KNOWN_FINDINGS.json lists recorded/fixed defects. selftest/ holds mutation self-tests (never registered checks).",
    "not_applicable": not_app,
}
with open(os.path.join(VERIF, "MANIFEST.json"), "w") as f:
    json.dump(man, f, indent=1)
print("claimed:", len(claimed), "not_applicable:", len(not_app))
