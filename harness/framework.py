"""Common machinery of ./check: Coq obligations, model evaluation inside Coq, implementation
drivers, violation/known-finding reporting and evidence writing.  See DESIGN.md section 2."""
import fcntl, glob, hashlib, json, os, random, re, subprocess, sys, time

VERIF = os.path.dirname(os.path.dirname(os.path.abspath(__file__)))
sys.path.insert(0, os.path.join(VERIF, "harness"))
import build as B  # noqa: E402

COQ = os.path.join(VERIF, "coq")
SCRATCH = os.path.join(VERIF, "build", "scratch")
FORBIDDEN = re.compile(r"\b(Admitted|admit|Axiom|Axioms|Parameter|Parameters|Conjecture|Conjectures|Hypothesis|Hypotheses|Variable|Variables|Unset\s+Guard|bypass_check|Admit\s+Obligations|type-in-type|impredicative-set|Unset\s+Positivity|Unset\s+Universe)\b")

# axioms declared by the Coq standard library / installed libraries that theorems over R may use
STD_AXIOMS = {
    "ClassicalDedekindReals.sig_forall_dec", "ClassicalDedekindReals.sig_not_dec",
    "FunctionalExtensionality.functional_extensionality_dep",
    "Classical_Prop.classic", "ClassicalEpsilon.constructive_indefinite_description",
    "ProofIrrelevance.proof_irrelevance", "PropExtensionality.propositional_extensionality",
    "Eqdep.Eq_rect_eq.eq_rect_eq", "JMeq.JMeq_eq",
    "ClassicalUniqueChoice.dependent_unique_choice", "ClassicalFacts.prop_degen",
    "IndefiniteDescription.constructive_indefinite_description",
}
FLOAT_AXIOMS_PREFIX = ("FloatAxioms.",)


class Lock:
    def __init__(self, name):
        os.makedirs(os.path.join(VERIF, "build"), exist_ok=True)
        self.path = os.path.join(VERIF, "build", name + ".lock")

    def __enter__(self):
        self.f = open(self.path, "w")
        fcntl.flock(self.f, fcntl.LOCK_EX)
        return self

    def __exit__(self, *a):
        fcntl.flock(self.f, fcntl.LOCK_UN)
        self.f.close()


def write_if_changed(path, text):
    try:
        with open(path) as f:
            if f.read() == text:
                return False
    except OSError:
        pass
    os.makedirs(os.path.dirname(path), exist_ok=True)
    tmp = path + ".tmp%d" % os.getpid()
    with open(tmp, "w") as f:
        f.write(text)
    os.replace(tmp, path)
    return True


def coq_project():
    """(re)generate _CoqProject and Makefile from the .v files present."""
    vs = []
    for d in ("Lib", "Model", "Gen", "Proof", "Props"):
        vs += sorted(glob.glob(os.path.join(COQ, d, "*.v")))
    rel = [os.path.relpath(v, COQ) for v in vs]
    txt = "-Q . MJV\n-arg -w -arg -all\n" + "\n".join(rel) + "\n"
    changed = write_if_changed(os.path.join(COQ, "_CoqProject"), txt)
    if changed or not os.path.exists(os.path.join(COQ, "Makefile")):
        subprocess.run(["coq_makefile", "-f", "_CoqProject", "-o", "Makefile"], cwd=COQ, check=True,
                       capture_output=True)


def strip_coq_comments(text):
    """remove (* ... *) comments (nested), keeping newlines so that line numbers survive."""
    out, depth, i, n = [], 0, 0, len(text)
    instr = False
    while i < n:
        c = text[i]
        if depth == 0 and c == '"':
            instr = not instr
            out.append(c); i += 1; continue
        if not instr and text.startswith("(*", i):
            depth += 1; i += 2; continue
        if not instr and depth > 0 and text.startswith("*)", i):
            depth -= 1; i += 2; continue
        if depth > 0:
            out.append("\n" if c == "\n" else " ")
        else:
            out.append(c)
        i += 1
    return "".join(out)


def forbidden_scan(files=None):
    """grep (outside comments) for declarations that would add axioms; returns list of 'file:line: text'."""
    bad = []
    files = files or glob.glob(os.path.join(COQ, "*", "*.v"))
    for v in files:
        sect = 0
        try:
            text = strip_coq_comments(open(v).read())
        except OSError:
            continue
        for i, s in enumerate(text.split("\n"), 1):
            if re.match(r"\s*Section\b", s):
                sect += 1
            if re.match(r"\s*End\b", s) and sect > 0:
                sect -= 1
            m = FORBIDDEN.search(s)
            if m:
                w = m.group(1)
                if w.startswith(("Variable", "Hypothes")) and sect > 0:
                    continue  # section-local: becomes a universally quantified premise
                if w.startswith(("Variable", "Hypothes")) and re.search(r"Context|Section", s):
                    continue
                bad.append("%s:%d: %s" % (os.path.relpath(v, VERIF), i, s.strip()))
    return bad


def coq_make(targets, timeout=3000):
    """make the given .vo targets (relative to coq/) under the coq lock. returns (ok, output)"""
    with Lock("coq"):
        coq_project()
        r = subprocess.run(["timeout", str(timeout), "make", "-j16", "-k"] + targets, cwd=COQ,
                           capture_output=True, text=True)
    return r.returncode == 0, (r.stdout + r.stderr)[-6000:]


def parse_assumptions(out, names):
    """parse the stdout of a file consisting of `Print Assumptions t.` for each t in names (in order):
    returns list of (theorem, [axioms])."""
    parts = re.split(r"^(Closed under the global context|Axioms:)\s*$", out, flags=re.M)
    blocks = []
    for i in range(1, len(parts), 2):
        if parts[i].startswith("Closed"):
            blocks.append([])
        else:
            ax = []
            for line in parts[i + 1].split("\n"):
                m = re.match(r"^([A-Za-z_][\w.']*)", line)
                if m:
                    ax.append(m.group(1))
            blocks.append(ax)
    return list(zip(names, blocks))


class Ctx:
    def __init__(self, prop, tier, seed, meta):
        self.prop, self.tier, self.seed, self.meta = prop, tier, seed, meta
        self.repo = B.REPO
        self.t0 = time.time()
        self.rng = random.Random(seed)
        self.viol = []        # list of dicts
        self.known = []       # KNOWN-FINDING lines
        self.cov = {"obligations": 0, "discharged": 0, "checker_cmd": "", "trusted_base": [],
                    "evaluations": 0, "distinct_nontrivial": 0, "rule": "", "samples": [],
                    "support": {}, "explanation": ""}
        self.assumptions = []
        self.broken = []      # broken obligations / ties: (kind, what, detail)
        self._lib = None
        self.scratch = os.path.join(SCRATCH, prop)
        os.makedirs(self.scratch, exist_ok=True)
        with open(os.path.join(VERIF, "KNOWN_FINDINGS.json")) as f:
            self.kf = json.load(f)

    # ------------------------------------------------------------------ Coq obligations
    def coq_props(self, allowed_axioms=(), gen=None, extra_targets=()):
        """Compile Props/<prop>.v (after regenerating Gen files through gen()) and record obligations.
        gen: optional callable returning dict {relpath under coq/: text}; may raise TranslatorError."""
        bad = forbidden_scan()
        if bad:
            self.broken.append(("proof", "forbidden-declaration", "; ".join(bad[:5])))
        if gen is not None:
            try:
                files = gen()
                for rel, txt in files.items():
                    write_if_changed(os.path.join(COQ, rel), txt)
            except TranslatorError as e:
                self.broken.append(("translator", str(e), ""))
                return False
        pv = os.path.join(COQ, "Props", self.prop + ".v")
        src = open(pv).read()
        theorems = re.findall(r"^\s*(?:Theorem|Corollary)\s+(\S+)", src, flags=re.M)
        self.cov["obligations"] += len(theorems)
        deps_ok, out = coq_make(["Props/%s.vo" % self.prop] + list(extra_targets))
        cmd = "cd coq && make Props/%s.vo && coqc -Q . MJV Props/%s.v   (Coq 8.16.1; Print Assumptions after each theorem)" % (self.prop, self.prop)
        self.cov["checker_cmd"] = cmd
        if not deps_ok:
            m = re.search(r'File "([^"]+)", line (\d+)[^\n]*\n(?:.*\n)*?Error:?\s*((?:.*\n){1,6})', out)
            detail = ("%s:%s %s" % (m.group(1), m.group(2), m.group(3).strip())) if m else out[-1500:]
            # count theorems of the Props file that precede the error, if the error is in that file
            ndis = 0
            failing = "?"
            if m and m.group(1).endswith("Props/%s.v" % self.prop):
                ln = int(m.group(2))
                lines = src.split("\n")
                seen = [t for t in theorems if any(re.match(r"\s*(Theorem|Corollary)\s+" + re.escape(t) + r"\b", l) for l in lines[:ln])]
                ndis = max(0, len(seen) - 1)
                failing = seen[-1] if seen else "?"
            else:
                failing = (m.group(1) if m else "dependency")
            self.cov["discharged"] += ndis
            self.broken.append(("proof", failing, detail[:1500]))
            return False
        # Print Assumptions for every theorem of the Props file, from a file written by the check itself
        ok_pa, out_pa = self.coq_run("pa_" + self.prop, "Require Import MJV.Props.%s.\n" % self.prop +
                                     "".join("Print Assumptions %s.\n" % t for t in theorems))
        if not ok_pa:
            self.broken.append(("proof", "Print Assumptions on Props/%s.v" % self.prop, out_pa[-1500:]))
            return False
        pa = parse_assumptions(out_pa, theorems)
        names = [n for n, _ in pa]
        missing = [t for t in theorems if t not in names]
        if missing:
            self.broken.append(("proof", "no Print Assumptions for " + ",".join(missing), ""))
        allowed = set(allowed_axioms)
        tb = set()
        ok = True
        for n, axs in pa:
            badax = [a for a in axs if a not in allowed and not a.startswith(FLOAT_AXIOMS_PREFIX + ("PrimFloat.", "Uint63.", "PrimInt63."))
                     or (a.startswith(FLOAT_AXIOMS_PREFIX) and "FloatAxioms" not in allowed)]
            for a in axs:
                tb.add(a)
            if badax:
                ok = False
                self.broken.append(("proof", n, "depends on axioms outside the allow-list: " + ", ".join(badax)))
            elif n in theorems:
                self.cov["discharged"] += 1
        self.cov["trusted_base"] = sorted(set(self.cov["trusted_base"]) | {("axiom " + a) for a in tb})
        if not tb:
            self.cov["trusted_base"].append("all theorems: Closed under the global context (no axioms)")
        self.cov["theorems"] = [n for n, _ in pa]
        return ok and not missing

    def coq_eval(self, name, imports, cases, checker, shard=400, timeout=600, pre=""):
        """Evaluate `checker case` (a bool) for every case literal (Coq source text) inside Coq with
        vm_compute; returns the list of indices whose result is not true.  `imports` are Require lines.
        Model .vo files must already be built (coq_props / coq_make)."""
        d = os.path.join(self.scratch, "eval_" + name)
        os.makedirs(d, exist_ok=True)
        for f in glob.glob(os.path.join(d, "*")):
            os.remove(f)
        shards = [cases[i:i + shard] for i in range(0, len(cases), shard)]
        files = []
        for k, sh in enumerate(shards):
            fn = os.path.join(d, "cases_%d.v" % k)
            with open(fn, "w") as f:
                f.write(imports + "\nFrom Coq Require Import List. Import ListNotations.\n" + pre + "\n")
                f.write("Definition cases := [\n" + ";\n".join(sh) + "\n].\n")
                f.write("Fixpoint failing {A} (chk : A -> bool) (i : nat) (l : list A) : list nat :=\n"
                        "  match l with nil => nil | x :: r => if chk x then failing chk (S i) r else i :: failing chk (S i) r end.\n")
                f.write("Definition result := Eval vm_compute in failing (%s) 0 cases.\n" % checker)
                f.write("Print result.\n")
            files.append(fn)
        procs = []
        fails = []
        errs = []

        def run(fn):
            r = subprocess.run("ulimit -s unlimited; timeout %d coqc -w -all -Q %s MJV -Q %s Cases_%s %s" %
                               (timeout, COQ, d, name, fn), shell=True, capture_output=True, text=True)
            return r
        from concurrent.futures import ThreadPoolExecutor
        with ThreadPoolExecutor(max_workers=8) as ex:
            rs = list(ex.map(run, files))
        for k, r in enumerate(rs):
            if r.returncode != 0 and "Cannot infer" in (r.stdout + r.stderr):
                # a shard whose polymorphic literals (None, []) are all empty cannot be elaborated as a stand-alone
                # definition: let the checker's argument type decide the type of the case literals instead
                with open(files[k]) as f:
                    txt = f.read()
                i0, i1 = txt.index("Definition cases := ["), txt.index("Fixpoint failing")
                lit = txt[i0 + len("Definition cases := "):i1].rstrip().rstrip(".")
                txt = txt[:i0] + txt[i1:].replace(" 0 cases.\n", " 0 (\n%s\n).\n" % lit)
                with open(files[k], "w") as f:
                    f.write(txt)
                r = run(files[k])
            if r.returncode != 0:
                errs.append((k, (r.stdout + r.stderr)[-1500:]))
                continue
            m = re.search(r"result\s*=\s*(.*?)\s*:\s*list nat", r.stdout, flags=re.S)
            if not m:
                errs.append((k, "unparsable: " + r.stdout[-500:]))
                continue
            body = m.group(1).strip()
            if body in ("[]", "nil"):
                continue
            for x in re.findall(r"\d+", body):
                fails.append(k * shard + int(x))
        if errs:
            self.broken.append(("correspondence", "model evaluation failed in Coq (%s)" % name, errs[0][1]))
        return fails

    def coq_run(self, name, text, timeout=600):
        """compile an ad-hoc .v text (e.g. Print of computed values); returns (ok, stdout)."""
        d = os.path.join(self.scratch, "run_" + name)
        os.makedirs(d, exist_ok=True)
        fn = os.path.join(d, name + ".v")
        with open(fn, "w") as f:
            f.write(text)
        r = subprocess.run("ulimit -s unlimited; timeout %d coqc -w -all -Q %s MJV -Q %s Run_%s %s" %
                           (timeout, COQ, d, name, fn), shell=True, capture_output=True, text=True)
        return r.returncode == 0, r.stdout + r.stderr

    # ------------------------------------------------------------------ implementation
    def lib(self, extra=()):
        if self._lib is None or extra:
            with Lock("lib"):
                try:
                    lib, info = B.build_lib(self.repo, extra=extra)
                except RuntimeError as e:
                    self.broken.append(("build", "libmj_nox does not build from the working tree", str(e)[-1500:]))
                    return None
            if extra:
                return lib
            self._lib = lib
            self.cov["support"]["lib_build"] = info
        return self._lib

    def driver(self, name, srcs, with_lib=True, extra=(), link_extra=()):
        lib = self.lib() if with_lib else None
        if with_lib and lib is None:
            return None
        with Lock("drv_" + name):
            try:
                return B.build_driver(name, srcs, self.repo, lib, extra=extra, link_extra=link_extra)
            except RuntimeError as e:
                self.broken.append(("build", "driver %s does not build against the working tree" % name, str(e)[-1500:]))
                return None

    def run(self, exe, inp, timeout=600, args=(), env=None):
        """run a driver with stdin text; returns (returncode, stdout, stderr)."""
        try:
            r = subprocess.run([exe] + list(args), input=inp, capture_output=True, text=True, timeout=timeout, env=env)
            return r.returncode, r.stdout, r.stderr
        except subprocess.TimeoutExpired as e:
            return -999, (e.stdout or b"").decode() if isinstance(e.stdout, bytes) else (e.stdout or ""), "timeout"

    # ------------------------------------------------------------------ reporting
    def violation(self, kind, case, expected=None, observed=None, theorem=None, signature=None, found_input=True, note=""):
        """kind: impl_violation | correspondence | proof | translator | build."""
        v = {"property": self.prop, "kind": kind, "theorem": theorem, "case": case, "expected": expected,
             "observed": observed, "seed": self.seed, "tier": self.tier, "signature": signature or {},
             "found_input": found_input, "note": note,
             "how_to_rerun": "cd /verif && ./check %s --replay <this file>" % self.prop}
        # known finding?
        for kfe in self.kf.get("findings", []):
            if kfe.get("property") == self.prop and kind == "impl_violation" and signature is not None and \
               all(signature.get(k) == val for k, val in kfe.get("match", {}).items()):
                line = "KNOWN-FINDING: property=%s %s" % (self.prop, kfe.get("description", kfe.get("id", "")))
                if line not in self.known:
                    self.known.append(line)
                return False
        self.viol.append(v)
        return True

    def finish(self):
        # turn broken obligations/ties that were not explained by a concrete failing input into violations
        concrete = [v for v in self.viol if v["found_input"]]
        for (kind, what, detail) in self.broken:
            self.viol.append({"property": self.prop, "kind": kind, "theorem": what, "case": None,
                              "expected": None, "observed": detail, "seed": self.seed, "tier": self.tier,
                              "signature": {}, "found_input": False,
                              "note": "obligation or tie no longer checks; no failing input found by the search" if not concrete else
                                      "obligation or tie no longer checks (a concrete failing input is reported separately)",
                              "how_to_rerun": "cd /verif && ./check %s" % self.prop})
        wall = time.time() - self.t0
        ev = {"property_id": self.prop, "tier": self.tier, "seed": self.seed, "level": self.meta.get("category", "proof"),
              "coverage": self.cov, "assumptions": self.assumptions + self.meta.get("assumptions", []),
              "wall_s": round(wall, 2), "violations": len(self.viol)}
        if self.known:
            ev["known_findings_reported"] = self.known
        outroot = os.environ.get("VERIF_OUT", VERIF)   # self-tests on mutated scratch copies redirect output
        os.makedirs(os.path.join(outroot, "evidence"), exist_ok=True)
        with open(os.path.join(outroot, "evidence", self.prop + ".json"), "w") as f:
            json.dump(ev, f, indent=1, default=str)
        for l in self.known:
            print(l)
        if not self.viol:
            print("OK property=%s tier=%s obligations=%d/%d evaluations=%d wall=%.1fs" % (
                self.prop, self.tier, self.cov["discharged"], self.cov["obligations"], self.cov["evaluations"], wall))
            return 0
        os.makedirs(os.path.join(outroot, "replays"), exist_ok=True)
        # one VIOLATION line per distinct replay; concrete first
        self.viol.sort(key=lambda v: not v["found_input"])
        printed = 0
        any_concrete = any(v["found_input"] for v in self.viol)
        seen_sig = set()
        for v in self.viol:
            h = hashlib.sha256(json.dumps(v, sort_keys=True, default=str).encode()).hexdigest()[:12]
            path = os.path.join(outroot, "replays", "%s-%s.json" % (self.prop, h))
            sig = (v["kind"], json.dumps(v.get("signature"), sort_keys=True), v.get("theorem") if not v["found_input"] else "")
            if sig in seen_sig:
                continue          # one line per distinct kind of failure; the first (smallest) case is the replay
            seen_sig.add(sig)
            with open(path, "w") as f:
                json.dump(v, f, indent=1, default=str)
            if any_concrete and not v["found_input"]:
                continue          # written as a replay, folded into the concrete report
            tail = "" if v["found_input"] else " no-failing-input-found"
            print("VIOLATION property=%s replay=%s%s" % (self.prop, path, tail))
            printed += 1
            if printed >= 5:
                break
        return 1


class TranslatorError(Exception):
    pass


def zlist(xs):
    return "[" + "; ".join(("(%d)" % x) if x < 0 else str(x) for x in xs) + "]%Z"


def fhex(x):
    """Coq literal of a python float (exact)."""
    import math
    if x != x:
        return "nan"
    if x == math.inf:
        return "infinity"
    if x == -math.inf:
        return "neg_infinity"
    s = float(x).hex()
    if s.startswith("-"):
        return "(-%s)" % s[1:]
    return s


def flist(xs):
    return "[" + "; ".join(fhex(x) for x in xs) + "]%float"
