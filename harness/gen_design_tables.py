#!/usr/bin/env python3
"""Regenerate the data-driven tables of DESIGN.md section 8 (as built) into build/design_tables.md"""
import json, glob, os, importlib, sys, re
V = '/verif'
sys.path.insert(0, V + '/harness'); sys.path.insert(0, V + '/harness/props')
out = []
kf = json.load(open(V + '/KNOWN_FINDINGS.json'))
known = {}
for f in kf['findings']:
    known.setdefault(f['property'], []).append(f['id'])
fixed = {}
for l in kf['fixed']:
    m = re.match(r"fixed: property=(C\d+) (\w+) (.*)", l)
    fixed.setdefault(m.group(1), []).append((m.group(2), m.group(3)))
out.append("| id | theorems (discharged) | axioms reported by Print Assumptions | cases in the last quick run | mutants kept (selftest/mutants) | fixed defects | known findings |")
out.append("|---|---|---|---|---|---|---|")
for f in sorted(glob.glob(V + '/evidence/C*.json')):
    e = json.load(open(f)); c = e['coverage']; pid = e['property_id']
    ax = sorted({t[6:] for t in c.get('trusted_base', []) if t.startswith('axiom ')})
    if not ax:
        axs = "none (closed)"
    else:
        fa = [a for a in ax if a.startswith('FloatAxioms')]
        rest = [a.split('.')[-1] for a in ax if not a.startswith('FloatAxioms')]
        axs = ", ".join(rest) + ((" + %d FloatAxioms.* (std-lib float spec)" % len(fa)) if fa else "")
    nm = len(glob.glob(V + '/selftest/mutants/%s_*' % pid.lower()))
    out.append("| %s | %s/%s | %s | %s | %d | %s | %s |" % (pid, c.get('discharged'), c.get('obligations'), axs, c.get('evaluations'), nm,
               ", ".join(h for h, _ in fixed.get(pid, [])) or "—", ", ".join(known.get(pid, [])) or "—"))
out.append("")
out.append("### Seeded changes (written by independent sub-agents from the property text only)")
out.append("")
out.append("| seed | property | what the change does / what it needs to manifest | demo on clean / patched | caught by |")
out.append("|---|---|---|---|---|")
for d in sorted(glob.glob(V + '/seeded/*/meta.json')):
    m = json.load(open(d)); name = os.path.basename(os.path.dirname(d))
    ce = m.get('coordinator_eval', {})
    chk = "; ".join("%s: %s" % (k, ("VIOLATION (concrete replay)" if 'VIOLATION' in v and 'no-failing' not in v else "VIOLATION no-failing-input-found" if 'VIOLATION' in v else "not caught at first" if v.startswith('OK') else v[:40])) for k, v in ce.get('checks', {}).items())
    out.append("| %s | %s | %s — needs: %s | rc %s / %s | %s |" % (name, m.get('property', name), str(m.get('summary', ''))[:160].replace('|', '/').replace('\n', ' '),
               str(m.get('needs', ''))[:160].replace('|', '/').replace('\n', ' '), ce.get('demo_rc_clean', '?'), ce.get('demo_rc_patched', '?'), chk or "(evaluation pending)"))
open(V + '/build/design_tables.md', 'w').write("\n".join(out) + "\n")
print(len(out), "lines")
