// tinyxml2-compatible DOM shim (see tinyxml2.h in this directory).  NOT tinyxml2.
#include "tinyxml2.h"

#include <cerrno>
#include <climits>
#include <cstdarg>
#include <cstdlib>
#include <cstring>

namespace tinyxml2 {

namespace {

bool IsSpace(unsigned char c) { return c == ' ' || c == '\t' || c == '\n' || c == '\r' || c == '\v' || c == '\f'; }
bool IsNameStart(unsigned char c) {
  return c >= 128 || (c >= 'a' && c <= 'z') || (c >= 'A' && c <= 'Z') || c == ':' || c == '_';
}
bool IsNameChar(unsigned char c) { return IsNameStart(c) || (c >= '0' && c <= '9') || c == '.' || c == '-'; }

void AppendUTF8(std::string& out, unsigned long cp) {
  if (cp < 0x80) {
    out += static_cast<char>(cp);
  } else if (cp < 0x800) {
    out += static_cast<char>(0xC0 | (cp >> 6));
    out += static_cast<char>(0x80 | (cp & 0x3F));
  } else if (cp < 0x10000) {
    out += static_cast<char>(0xE0 | (cp >> 12));
    out += static_cast<char>(0x80 | ((cp >> 6) & 0x3F));
    out += static_cast<char>(0x80 | (cp & 0x3F));
  } else {
    out += static_cast<char>(0xF0 | (cp >> 18));
    out += static_cast<char>(0x80 | ((cp >> 12) & 0x3F));
    out += static_cast<char>(0x80 | ((cp >> 6) & 0x3F));
    out += static_cast<char>(0x80 | (cp & 0x3F));
  }
}

// decode entities and normalise CR LF / CR to LF in [b, e)
std::string Decode(const char* b, const char* e, bool entities) {
  std::string out;
  out.reserve(static_cast<size_t>(e - b));
  const char* p = b;
  while (p < e) {
    char c = *p;
    if (c == '\r') {
      out += '\n';
      ++p;
      if (p < e && *p == '\n') ++p;
      continue;
    }
    if (c == '&' && entities) {
      static const struct { const char* pat; size_t len; char val; } kEnt[] = {
          {"quot;", 5, '"'}, {"amp;", 4, '&'}, {"apos;", 5, '\''}, {"lt;", 3, '<'}, {"gt;", 3, '>'}};
      bool done = false;
      if (p + 1 < e && p[1] == '#') {
        const char* q = p + 2;
        int base = 10;
        if (q < e && *q == 'x') {
          base = 16;
          ++q;
        }
        unsigned long cp = 0;
        int ndig = 0;
        bool ok = true;
        while (q < e && *q != ';') {
          int d;
          if (*q >= '0' && *q <= '9') d = *q - '0';
          else if (base == 16 && *q >= 'a' && *q <= 'f') d = *q - 'a' + 10;
          else if (base == 16 && *q >= 'A' && *q <= 'F') d = *q - 'A' + 10;
          else { ok = false; break; }
          cp = cp * base + d;
          if (cp > 0x10FFFF) { ok = false; break; }
          ++ndig;
          ++q;
        }
        if (ok && ndig > 0 && q < e && *q == ';' && cp != 0) {
          AppendUTF8(out, cp);
          p = q + 1;
          done = true;
        }
      } else {
        for (const auto& en : kEnt) {
          if (static_cast<size_t>(e - (p + 1)) >= en.len && !std::strncmp(p + 1, en.pat, en.len)) {
            out += en.val;
            p += 1 + en.len;
            done = true;
            break;
          }
        }
      }
      if (done) continue;
    }
    out += c;
    ++p;
  }
  return out;
}

struct Parser {
  XMLDocument* doc;
  const char* p;
  int line;
  int depth;
  XMLError err;
  int errLine;
  std::string errArg;
  const char* errFmt;

  void Fail(XMLError e, int ln, const char* fmt = nullptr, const std::string& arg = std::string()) {
    if (err == XML_SUCCESS) {
      err = e;
      errLine = ln;
      errFmt = fmt;
      errArg = arg;
    }
  }
  void SkipWS() {
    while (*p && IsSpace(static_cast<unsigned char>(*p))) {
      if (*p == '\n') ++line;
      ++p;
    }
  }
  // advance p past `endTag`, counting lines; returns start of the tag or null when absent
  const char* FindEnd(const char* endTag) {
    const char* q = std::strstr(p, endTag);
    if (!q) return nullptr;
    for (const char* r = p; r < q; ++r) {
      if (*r == '\n') ++line;
    }
    p = q + std::strlen(endTag);
    return q;
  }
};

}  // namespace

// ------------------------------------------------------------------------------------ attribute --

static std::string FmtInt(long long v) { char b[40]; std::snprintf(b, sizeof b, "%lld", v); return b; }
static std::string FmtUInt(unsigned long long v) { char b[40]; std::snprintf(b, sizeof b, "%llu", v); return b; }

void XMLAttribute::SetAttribute(int v) { _value = FmtInt(v); }
void XMLAttribute::SetAttribute(unsigned v) { _value = FmtUInt(v); }
void XMLAttribute::SetAttribute(int64_t v) { _value = FmtInt(v); }
void XMLAttribute::SetAttribute(uint64_t v) { _value = FmtUInt(v); }
void XMLAttribute::SetAttribute(bool v) { _value = v ? "true" : "false"; }
void XMLAttribute::SetAttribute(double v) { char b[64]; std::snprintf(b, sizeof b, "%.17g", v); _value = b; }
void XMLAttribute::SetAttribute(float v) { char b[64]; std::snprintf(b, sizeof b, "%.8g", static_cast<double>(v)); _value = b; }

XMLError XMLAttribute::QueryInt64Value(int64_t* value) const {
  const char* s = _value.c_str();
  char* end = nullptr;
  errno = 0;
  long long v = std::strtoll(s, &end, 0);
  if (end == s || errno) return XML_WRONG_ATTRIBUTE_TYPE;
  *value = v;
  return XML_SUCCESS;
}
XMLError XMLAttribute::QueryIntValue(int* value) const {
  int64_t v;
  if (QueryInt64Value(&v) != XML_SUCCESS || v < INT_MIN || v > INT_MAX) return XML_WRONG_ATTRIBUTE_TYPE;
  *value = static_cast<int>(v);
  return XML_SUCCESS;
}
XMLError XMLAttribute::QueryUnsignedValue(unsigned* value) const {
  int64_t v;
  if (QueryInt64Value(&v) != XML_SUCCESS || v < 0 || v > static_cast<int64_t>(UINT_MAX)) return XML_WRONG_ATTRIBUTE_TYPE;
  *value = static_cast<unsigned>(v);
  return XML_SUCCESS;
}
XMLError XMLAttribute::QueryBoolValue(bool* value) const {
  if (_value == "true" || _value == "True" || _value == "TRUE" || _value == "1") { *value = true; return XML_SUCCESS; }
  if (_value == "false" || _value == "False" || _value == "FALSE" || _value == "0") { *value = false; return XML_SUCCESS; }
  return XML_WRONG_ATTRIBUTE_TYPE;
}
XMLError XMLAttribute::QueryDoubleValue(double* value) const {
  const char* s = _value.c_str();
  char* end = nullptr;
  double v = std::strtod(s, &end);
  if (end == s) return XML_WRONG_ATTRIBUTE_TYPE;
  *value = v;
  return XML_SUCCESS;
}
XMLError XMLAttribute::QueryFloatValue(float* value) const {
  double d;
  if (QueryDoubleValue(&d) != XML_SUCCESS) return XML_WRONG_ATTRIBUTE_TYPE;
  *value = static_cast<float>(d);
  return XML_SUCCESS;
}

// ----------------------------------------------------------------------------------------- node --

XMLNode::XMLNode(XMLDocument* doc)
    : _document(doc), _parent(nullptr), _line(0), _firstChild(nullptr), _lastChild(nullptr),
      _prev(nullptr), _next(nullptr), _userData(nullptr) {}

XMLNode::~XMLNode() {
  DeleteChildren();
  if (_parent) _parent->Unlink(this);
}

void XMLNode::Destroy(XMLNode* node) {
  if (!node) return;
  if (!node->ToDocument() && node->_document) node->_document->_unlinked.erase(node);
  delete node;
}

void XMLNode::Unlink(XMLNode* child) {
  if (child == _firstChild) _firstChild = _firstChild->_next;
  if (child == _lastChild) _lastChild = _lastChild->_prev;
  if (child->_prev) child->_prev->_next = child->_next;
  if (child->_next) child->_next->_prev = child->_prev;
  child->_next = nullptr;
  child->_prev = nullptr;
  child->_parent = nullptr;
}

void XMLNode::DeleteChildren() {
  while (_firstChild) {
    XMLNode* node = _firstChild;
    Unlink(node);
    Destroy(node);
  }
  _firstChild = _lastChild = nullptr;
}

void XMLNode::DeleteChild(XMLNode* node) {
  if (!node || node->_parent != this) return;
  Unlink(node);
  Destroy(node);
}

void XMLNode::InsertChildPreamble(XMLNode* insertThis) const {
  if (insertThis->_parent) {
    insertThis->_parent->Unlink(insertThis);
  } else {
    insertThis->_document->_unlinked.erase(insertThis);
  }
}

XMLNode* XMLNode::InsertEndChild(XMLNode* addThis) {
  if (!addThis || addThis->_document != _document || addThis == this || addThis->ToDocument()) return nullptr;
  InsertChildPreamble(addThis);
  if (_lastChild) {
    _lastChild->_next = addThis;
    addThis->_prev = _lastChild;
    _lastChild = addThis;
    addThis->_next = nullptr;
  } else {
    _firstChild = _lastChild = addThis;
    addThis->_prev = nullptr;
    addThis->_next = nullptr;
  }
  addThis->_parent = this;
  return addThis;
}

XMLNode* XMLNode::InsertFirstChild(XMLNode* addThis) {
  if (!addThis || addThis->_document != _document || addThis == this || addThis->ToDocument()) return nullptr;
  InsertChildPreamble(addThis);
  if (_firstChild) {
    _firstChild->_prev = addThis;
    addThis->_next = _firstChild;
    _firstChild = addThis;
    addThis->_prev = nullptr;
  } else {
    _firstChild = _lastChild = addThis;
    addThis->_prev = nullptr;
    addThis->_next = nullptr;
  }
  addThis->_parent = this;
  return addThis;
}

XMLNode* XMLNode::InsertAfterChild(XMLNode* afterThis, XMLNode* addThis) {
  if (!addThis || !afterThis || addThis->_document != _document || addThis->ToDocument()) return nullptr;
  if (afterThis->_parent != this) return nullptr;
  if (afterThis == addThis) return addThis;
  if (afterThis->_next == nullptr) return InsertEndChild(addThis);
  InsertChildPreamble(addThis);
  addThis->_prev = afterThis;
  addThis->_next = afterThis->_next;
  afterThis->_next->_prev = addThis;
  afterThis->_next = addThis;
  addThis->_parent = this;
  return addThis;
}

static bool NameIs(const XMLElement* e, const char* name) { return !name || !std::strcmp(e->Name(), name); }

const XMLElement* XMLNode::FirstChildElement(const char* name) const {
  for (const XMLNode* n = _firstChild; n; n = n->_next) {
    const XMLElement* e = n->ToElement();
    if (e && NameIs(e, name)) return e;
  }
  return nullptr;
}
const XMLElement* XMLNode::LastChildElement(const char* name) const {
  for (const XMLNode* n = _lastChild; n; n = n->_prev) {
    const XMLElement* e = n->ToElement();
    if (e && NameIs(e, name)) return e;
  }
  return nullptr;
}
const XMLElement* XMLNode::NextSiblingElement(const char* name) const {
  for (const XMLNode* n = _next; n; n = n->_next) {
    const XMLElement* e = n->ToElement();
    if (e && NameIs(e, name)) return e;
  }
  return nullptr;
}
const XMLElement* XMLNode::PreviousSiblingElement(const char* name) const {
  for (const XMLNode* n = _prev; n; n = n->_prev) {
    const XMLElement* e = n->ToElement();
    if (e && NameIs(e, name)) return e;
  }
  return nullptr;
}

XMLNode* XMLNode::DeepClone(XMLDocument* target) const {
  XMLNode* clone = ShallowClone(target);
  if (!clone) return nullptr;
  for (const XMLNode* child = _firstChild; child; child = child->_next) {
    XMLNode* cc = child->DeepClone(target);
    if (cc) clone->InsertEndChild(cc);
  }
  return clone;
}

XMLNode* XMLText::ShallowClone(XMLDocument* doc) const {
  if (!doc) doc = _document;
  XMLText* t = doc->NewText(Value());
  t->SetCData(CData());
  return t;
}
XMLNode* XMLComment::ShallowClone(XMLDocument* doc) const {
  if (!doc) doc = _document;
  return doc->NewComment(Value());
}
XMLNode* XMLDeclaration::ShallowClone(XMLDocument* doc) const {
  if (!doc) doc = _document;
  return doc->NewDeclaration(Value());
}
XMLNode* XMLUnknown::ShallowClone(XMLDocument* doc) const {
  if (!doc) doc = _document;
  return doc->NewUnknown(Value());
}
XMLNode* XMLElement::ShallowClone(XMLDocument* doc) const {
  if (!doc) doc = _document;
  XMLElement* e = doc->NewElement(Value());
  for (const XMLAttribute* a = _rootAttribute; a; a = a->_next) {
    e->AppendAttribute(a->_name, a->_value, a->_line);
  }
  e->_line = _line;
  return e;
}

// -------------------------------------------------------------------------------------- element --

XMLElement::~XMLElement() {
  while (_rootAttribute) {
    XMLAttribute* next = _rootAttribute->_next;
    delete _rootAttribute;
    _rootAttribute = next;
  }
}

const XMLAttribute* XMLElement::FindAttribute(const char* name) const {
  if (!name) return nullptr;
  for (const XMLAttribute* a = _rootAttribute; a; a = a->_next) {
    if (a->_name == name) return a;
  }
  return nullptr;
}

const char* XMLElement::Attribute(const char* name, const char* value) const {
  const XMLAttribute* a = FindAttribute(name);
  if (!a) return nullptr;
  if (!value || a->_value == value) return a->Value();
  return nullptr;
}

XMLAttribute* XMLElement::AppendAttribute(const std::string& name, const std::string& value, int line) {
  XMLAttribute* a = new XMLAttribute();
  a->_name = name;
  a->_value = value;
  a->_line = line;
  if (!_rootAttribute) {
    _rootAttribute = a;
  } else {
    XMLAttribute* last = _rootAttribute;
    while (last->_next) last = last->_next;
    last->_next = a;
  }
  return a;
}

XMLAttribute* XMLElement::FindOrCreateAttribute(const char* name) {
  if (!name) name = "";
  for (XMLAttribute* a = _rootAttribute; a; a = a->_next) {
    if (a->_name == name) return a;
  }
  return AppendAttribute(name, "", 0);
}

void XMLElement::DeleteAttribute(const char* name) {
  if (!name) return;
  XMLAttribute* prev = nullptr;
  for (XMLAttribute* a = _rootAttribute; a; a = a->_next) {
    if (a->_name == name) {
      if (prev) prev->_next = a->_next; else _rootAttribute = a->_next;
      delete a;
      return;
    }
    prev = a;
  }
}

#define SHIM_QUERY(FN, T, AQ)                                              \
  XMLError XMLElement::FN(const char* name, T* value) const {             \
    const XMLAttribute* a = FindAttribute(name);                           \
    if (!a) return XML_NO_ATTRIBUTE;                                       \
    return a->AQ(value);                                                   \
  }
SHIM_QUERY(QueryIntAttribute, int, QueryIntValue)
SHIM_QUERY(QueryUnsignedAttribute, unsigned, QueryUnsignedValue)
SHIM_QUERY(QueryInt64Attribute, int64_t, QueryInt64Value)
SHIM_QUERY(QueryBoolAttribute, bool, QueryBoolValue)
SHIM_QUERY(QueryDoubleAttribute, double, QueryDoubleValue)
SHIM_QUERY(QueryFloatAttribute, float, QueryFloatValue)
#undef SHIM_QUERY

XMLError XMLElement::QueryStringAttribute(const char* name, const char** value) const {
  const XMLAttribute* a = FindAttribute(name);
  if (!a) return XML_NO_ATTRIBUTE;
  *value = a->Value();
  return XML_SUCCESS;
}
int XMLElement::IntAttribute(const char* name, int d) const { QueryIntAttribute(name, &d); return d; }
unsigned XMLElement::UnsignedAttribute(const char* name, unsigned d) const { QueryUnsignedAttribute(name, &d); return d; }
bool XMLElement::BoolAttribute(const char* name, bool d) const { QueryBoolAttribute(name, &d); return d; }
double XMLElement::DoubleAttribute(const char* name, double d) const { QueryDoubleAttribute(name, &d); return d; }
float XMLElement::FloatAttribute(const char* name, float d) const { QueryFloatAttribute(name, &d); return d; }

const char* XMLElement::GetText() const {
  const XMLNode* n = FirstChild();
  while (n && n->ToComment()) n = n->NextSibling();
  if (n && n->ToText()) return n->Value();
  return nullptr;
}

void XMLElement::SetText(const char* inText) {
  if (FirstChild() && FirstChild()->ToText()) {
    FirstChild()->SetValue(inText);
  } else {
    InsertFirstChild(GetDocument()->NewText(inText));
  }
}

XMLElement* XMLElement::InsertNewChildElement(const char* name) {
  XMLElement* e = _document->NewElement(name);
  return InsertEndChild(e) ? e : nullptr;
}
XMLComment* XMLElement::InsertNewComment(const char* comment) {
  XMLComment* c = _document->NewComment(comment);
  return InsertEndChild(c) ? c : nullptr;
}
XMLText* XMLElement::InsertNewText(const char* text) {
  XMLText* t = _document->NewText(text);
  return InsertEndChild(t) ? t : nullptr;
}

// ------------------------------------------------------------------------------------- document --

XMLDocument::XMLDocument(bool processEntities, Whitespace whitespaceMode)
    : XMLNode(nullptr), _writeBOM(false), _processEntities(processEntities), _errorID(XML_SUCCESS),
      _whitespaceMode(whitespaceMode), _errorLineNum(0) {
  _document = this;
}

XMLDocument::~XMLDocument() { Clear(); }

void XMLDocument::Clear() {
  DeleteChildren();
  while (!_unlinked.empty()) {
    XMLNode* n = *_unlinked.begin();
    Destroy(n);  // erases n from _unlinked
  }
  ClearError();
}

void XMLDocument::ClearError() {
  _errorID = XML_SUCCESS;
  _errorLineNum = 0;
  _errorStr.clear();
}

void XMLDocument::DeleteNode(XMLNode* node) {
  if (!node || node->_document != this || node == this) return;
  if (node->_parent) {
    node->_parent->DeleteChild(node);
  } else {
    Destroy(node);
  }
}

XMLElement* XMLDocument::NewElement(const char* name) {
  XMLElement* e = new XMLElement(this);
  e->SetValue(name);
  _unlinked.insert(e);
  return e;
}
XMLComment* XMLDocument::NewComment(const char* str) {
  XMLComment* c = new XMLComment(this);
  c->SetValue(str);
  _unlinked.insert(c);
  return c;
}
XMLText* XMLDocument::NewText(const char* str) {
  XMLText* t = new XMLText(this);
  t->SetValue(str);
  _unlinked.insert(t);
  return t;
}
XMLDeclaration* XMLDocument::NewDeclaration(const char* str) {
  XMLDeclaration* d = new XMLDeclaration(this);
  d->SetValue(str ? str : "xml version=\"1.0\" encoding=\"UTF-8\"");
  _unlinked.insert(d);
  return d;
}
XMLUnknown* XMLDocument::NewUnknown(const char* str) {
  XMLUnknown* u = new XMLUnknown(this);
  u->SetValue(str);
  _unlinked.insert(u);
  return u;
}

static const char* kErrorNames[XML_ERROR_COUNT] = {
    "XML_SUCCESS",
    "XML_NO_ATTRIBUTE",
    "XML_WRONG_ATTRIBUTE_TYPE",
    "XML_ERROR_FILE_NOT_FOUND",
    "XML_ERROR_FILE_COULD_NOT_BE_OPENED",
    "XML_ERROR_FILE_READ_ERROR",
    "XML_ERROR_PARSING_ELEMENT",
    "XML_ERROR_PARSING_ATTRIBUTE",
    "XML_ERROR_PARSING_TEXT",
    "XML_ERROR_PARSING_CDATA",
    "XML_ERROR_PARSING_COMMENT",
    "XML_ERROR_PARSING_DECLARATION",
    "XML_ERROR_PARSING_UNKNOWN",
    "XML_ERROR_EMPTY_DOCUMENT",
    "XML_ERROR_MISMATCHED_ELEMENT",
    "XML_ERROR_PARSING",
    "XML_CAN_NOT_CONVERT_TEXT",
    "XML_NO_TEXT_NODE",
    "XML_ELEMENT_DEPTH_EXCEEDED"};

const char* XMLDocument::ErrorIDToName(XMLError errorID) {
  if (errorID < 0 || errorID >= XML_ERROR_COUNT) return "XML_ERROR_UNKNOWN";
  return kErrorNames[errorID];
}

void XMLDocument::SetError(XMLError error, int lineNum, const char* fmt, const char* arg) {
  _errorID = error;
  _errorLineNum = lineNum;
  char buf[600];
  std::snprintf(buf, sizeof buf, "Error=%s ErrorID=%d (0x%x) Line number=%d", ErrorIDToName(error),
                static_cast<int>(error), static_cast<unsigned>(error), lineNum);
  _errorStr = buf;
  if (fmt) {
    char buf2[400];
    std::snprintf(buf2, sizeof buf2, fmt, arg ? arg : "");
    _errorStr += ": ";
    _errorStr += buf2;
  }
}

void XMLDocument::PrintError() const { std::fprintf(stdout, "%s\n", ErrorStr()); }

// ---- parser ----

// The parser is written as free functions that are friends through XMLDocument's static helper.
struct XMLDocumentParserAccess {
  static void SetLine(XMLNode* n, int line) { n->_line = line; }
  static XMLAttribute* Append(XMLElement* e, const std::string& n, const std::string& v, int line) {
    return e->AppendAttribute(n, v, line);
  }
};

namespace {

bool ParseChildren(Parser& ps, XMLNode* parent, bool processEntities);

// parse the attributes and the end of the start tag; returns 1 = open tag, 2 = self-closed, 0 = error
int ParseAttributes(Parser& ps, XMLElement* elem, bool processEntities) {
  for (;;) {
    ps.SkipWS();
    unsigned char c = static_cast<unsigned char>(*ps.p);
    if (!c) {
      ps.Fail(XML_ERROR_PARSING_ELEMENT, elem->GetLineNum(), "XMLElement name=%s", elem->Name());
      return 0;
    }
    if (IsNameStart(c)) {
      int attrLine = ps.line;
      const char* nb = ps.p;
      while (IsNameChar(static_cast<unsigned char>(*ps.p))) ++ps.p;
      std::string name(nb, ps.p);
      ps.SkipWS();
      if (*ps.p != '=') {
        ps.Fail(XML_ERROR_PARSING_ATTRIBUTE, attrLine, "XMLElement name=%s", elem->Name());
        return 0;
      }
      ++ps.p;
      ps.SkipWS();
      char quote = *ps.p;
      if (quote != '"' && quote != '\'') {
        ps.Fail(XML_ERROR_PARSING_ATTRIBUTE, attrLine, "XMLElement name=%s", elem->Name());
        return 0;
      }
      ++ps.p;
      const char* vb = ps.p;
      while (*ps.p && *ps.p != quote) {
        if (*ps.p == '\n') ++ps.line;
        ++ps.p;
      }
      if (!*ps.p) {
        ps.Fail(XML_ERROR_PARSING_ATTRIBUTE, attrLine, "XMLElement name=%s", elem->Name());
        return 0;
      }
      XMLDocumentParserAccess::Append(elem, name, Decode(vb, ps.p, processEntities), attrLine);
      ++ps.p;
    } else if (c == '>') {
      ++ps.p;
      return 1;
    } else if (c == '/' && ps.p[1] == '>') {
      ps.p += 2;
      return 2;
    } else {
      ps.Fail(XML_ERROR_PARSING_ELEMENT, ps.line, "XMLElement name=%s", elem->Name());
      return 0;
    }
  }
}

// parses the children of `parent` up to (and including) its closing tag; for the document up to the
// end of input.  Returns false on error (ps.err set).
bool ParseChildren(Parser& ps, XMLNode* parent, bool processEntities) {
  XMLDocument* doc = ps.doc;
  const bool top = parent->ToDocument() != nullptr;
  for (;;) {
    const char* start = ps.p;
    const int startLine = ps.line;
    ps.SkipWS();
    if (!*ps.p) {
      if (top) return true;
      ps.Fail(XML_ERROR_PARSING, parent->GetLineNum(), nullptr);
      return false;
    }
    if (ps.p[0] == '<' && ps.p[1] == '/') {
      // closing tag
      if (top) {
        ps.Fail(XML_ERROR_MISMATCHED_ELEMENT, ps.line, nullptr);
        return false;
      }
      int line = ps.line;
      ps.p += 2;
      const char* nb = ps.p;
      if (IsNameStart(static_cast<unsigned char>(*ps.p))) {
        while (IsNameChar(static_cast<unsigned char>(*ps.p))) ++ps.p;
      }
      std::string name(nb, ps.p);
      ps.SkipWS();
      if (*ps.p != '>') {
        ps.Fail(XML_ERROR_PARSING_ELEMENT, line, "XMLElement name=%s", parent->Value());
        return false;
      }
      ++ps.p;
      if (name != parent->Value()) {
        ps.Fail(XML_ERROR_MISMATCHED_ELEMENT, parent->GetLineNum(), "XMLElement name=%s", parent->Value());
        return false;
      }
      return true;
    }
    if (!std::strncmp(ps.p, "<?", 2)) {
      int line = ps.line;
      ps.p += 2;
      const char* b = ps.p;
      const char* e = ps.FindEnd("?>");
      if (!e) {
        ps.Fail(XML_ERROR_PARSING_DECLARATION, line, nullptr);
        return false;
      }
      // declarations are only allowed at document level, before any other kind of node
      bool wellLocated = top;
      if (wellLocated) {
        for (const XMLNode* n = parent->FirstChild(); n; n = n->NextSibling()) {
          if (!n->ToDeclaration()) { wellLocated = false; break; }
        }
      }
      if (!wellLocated) {
        ps.Fail(XML_ERROR_PARSING_DECLARATION, line, "XMLDeclaration value=%s", std::string(b, e));
        return false;
      }
      XMLDeclaration* d = doc->NewDeclaration(std::string(b, e).c_str());
      XMLDocumentParserAccess::SetLine(d, line);
      parent->InsertEndChild(d);
      continue;
    }
    if (!std::strncmp(ps.p, "<!--", 4)) {
      int line = ps.line;
      ps.p += 4;
      const char* b = ps.p;
      const char* e = ps.FindEnd("-->");
      if (!e) {
        ps.Fail(XML_ERROR_PARSING_COMMENT, line, nullptr);
        return false;
      }
      XMLComment* c = doc->NewComment(Decode(b, e, false).c_str());
      XMLDocumentParserAccess::SetLine(c, line);
      parent->InsertEndChild(c);
      continue;
    }
    if (!std::strncmp(ps.p, "<![CDATA[", 9)) {
      int line = ps.line;
      ps.p += 9;
      const char* b = ps.p;
      const char* e = ps.FindEnd("]]>");
      if (!e) {
        ps.Fail(XML_ERROR_PARSING_CDATA, line, nullptr);
        return false;
      }
      XMLText* t = doc->NewText(Decode(b, e, false).c_str());
      t->SetCData(true);
      XMLDocumentParserAccess::SetLine(t, line);
      parent->InsertEndChild(t);
      continue;
    }
    if (!std::strncmp(ps.p, "<!", 2)) {
      int line = ps.line;
      ps.p += 2;
      const char* b = ps.p;
      const char* e = ps.FindEnd(">");
      if (!e) {
        ps.Fail(XML_ERROR_PARSING_UNKNOWN, line, nullptr);
        return false;
      }
      XMLUnknown* u = doc->NewUnknown(Decode(b, e, false).c_str());
      XMLDocumentParserAccess::SetLine(u, line);
      parent->InsertEndChild(u);
      continue;
    }
    if (ps.p[0] == '<') {
      // element
      int line = ps.line;
      ++ps.p;
      if (!IsNameStart(static_cast<unsigned char>(*ps.p))) {
        ps.Fail(XML_ERROR_PARSING_ELEMENT, line, nullptr);
        return false;
      }
      const char* nb = ps.p;
      while (IsNameChar(static_cast<unsigned char>(*ps.p))) ++ps.p;
      XMLElement* elem = doc->NewElement(std::string(nb, ps.p).c_str());
      XMLDocumentParserAccess::SetLine(elem, line);
      int kind = ParseAttributes(ps, elem, processEntities);
      if (!kind) {
        doc->DeleteNode(elem);
        return false;
      }
      parent->InsertEndChild(elem);
      if (kind == 1) {
        if (ps.depth >= TINYXML2_MAX_ELEMENT_DEPTH) {
          ps.Fail(XML_ELEMENT_DEPTH_EXCEEDED, line, "Element nesting is too deep.");
          return false;
        }
        ++ps.depth;
        bool ok = ParseChildren(ps, elem, processEntities);
        --ps.depth;
        if (!ok) return false;
      }
      continue;
    }
    // text: everything (including the leading whitespace) up to the next '<'
    {
      int line = ps.line;
      ps.p = start;
      ps.line = startLine;
      const char* b = ps.p;
      while (*ps.p && *ps.p != '<') {
        if (*ps.p == '\n') ++ps.line;
        ++ps.p;
      }
      if (!*ps.p) {
        ps.Fail(XML_ERROR_PARSING_TEXT, line, nullptr);
        return false;
      }
      XMLText* t = doc->NewText(Decode(b, ps.p, processEntities).c_str());
      XMLDocumentParserAccess::SetLine(t, line);
      parent->InsertEndChild(t);
    }
  }
}

}  // namespace

XMLError XMLDocument::Parse(const char* xml, size_t nBytes) {
  Clear();
  if (nBytes == 0 || !xml || !*xml) {
    SetError(XML_ERROR_EMPTY_DOCUMENT, 0, nullptr);
    return _errorID;
  }
  if (nBytes == static_cast<size_t>(-1)) nBytes = std::strlen(xml);
  // private NUL-terminated copy; as in tinyxml2 an embedded NUL ends the document
  std::string buf(xml, nBytes);
  buf.push_back('\0');

  Parser ps;
  ps.doc = this;
  ps.p = buf.c_str();
  ps.line = 1;
  ps.depth = 0;
  ps.err = XML_SUCCESS;
  ps.errLine = 0;
  ps.errFmt = nullptr;

  // byte order mark
  _writeBOM = false;
  if (static_cast<unsigned char>(ps.p[0]) == 0xEF && static_cast<unsigned char>(ps.p[1]) == 0xBB &&
      static_cast<unsigned char>(ps.p[2]) == 0xBF) {
    ps.p += 3;
    _writeBOM = true;
  }
  ps.SkipWS();
  if (!*ps.p) {
    SetError(XML_ERROR_EMPTY_DOCUMENT, 0, nullptr);
    return _errorID;
  }
  if (!ParseChildren(ps, this, _processEntities) || ps.err != XML_SUCCESS) {
    XMLError e = ps.err == XML_SUCCESS ? XML_ERROR_PARSING : ps.err;
    int line = ps.errLine;
    std::string arg = ps.errArg;
    const char* fmt = ps.errFmt;
    // a failed parse leaves an empty document
    DeleteChildren();
    while (!_unlinked.empty()) Destroy(*_unlinked.begin());
    SetError(e, line, fmt, arg.c_str());
  }
  return _errorID;
}

XMLError XMLDocument::LoadFile(const char* filename) {
  Clear();
  if (!filename) {
    SetError(XML_ERROR_FILE_COULD_NOT_BE_OPENED, 0, "filename=<null>");
    return _errorID;
  }
  FILE* fp = std::fopen(filename, "rb");
  if (!fp) {
    SetError(XML_ERROR_FILE_NOT_FOUND, 0, "filename=%s", filename);
    return _errorID;
  }
  LoadFile(fp);
  std::fclose(fp);
  return _errorID;
}

XMLError XMLDocument::LoadFile(FILE* fp) {
  Clear();
  std::string data;
  char chunk[65536];
  size_t n;
  while ((n = std::fread(chunk, 1, sizeof chunk, fp)) > 0) data.append(chunk, n);
  if (std::ferror(fp)) {
    SetError(XML_ERROR_FILE_READ_ERROR, 0, nullptr);
    return _errorID;
  }
  if (data.empty()) {
    SetError(XML_ERROR_EMPTY_DOCUMENT, 0, nullptr);
    return _errorID;
  }
  return Parse(data.data(), data.size());
}

XMLError XMLDocument::SaveFile(const char* filename, bool compact) {
  if (!filename) {
    SetError(XML_ERROR_FILE_COULD_NOT_BE_OPENED, 0, "filename=<null>");
    return _errorID;
  }
  FILE* fp = std::fopen(filename, "w");
  if (!fp) {
    SetError(XML_ERROR_FILE_COULD_NOT_BE_OPENED, 0, "filename=%s", filename);
    return _errorID;
  }
  SaveFile(fp, compact);
  std::fclose(fp);
  return _errorID;
}

XMLError XMLDocument::SaveFile(FILE* fp, bool compact) {
  ClearError();
  XMLPrinter stream(fp, compact);
  Print(&stream);
  return _errorID;
}

void XMLDocument::Print(XMLPrinter* streamer) const {
  if (streamer) {
    streamer->VisitNode(this);
  } else {
    XMLPrinter stdoutStreamer(stdout);
    stdoutStreamer.VisitNode(this);
  }
}

void XMLDocument::DeepCopy(XMLDocument* target) const {
  if (!target || target == this) return;
  target->Clear();
  for (const XMLNode* n = FirstChild(); n; n = n->NextSibling()) {
    target->InsertEndChild(n->DeepClone(target));
  }
}

// -------------------------------------------------------------------------------------- printer --

XMLPrinter::XMLPrinter(FILE* file, bool compact, int depth)
    : _elementJustOpened(false), _firstElement(true), _fp(file), _depth(depth), _textDepth(-1),
      _processEntities(true), _compactMode(compact) {}

void XMLPrinter::Write(const char* data, size_t size) {
  if (_fp) {
    std::fwrite(data, 1, size, _fp);
  } else {
    _buffer.append(data, size);
  }
}
void XMLPrinter::Write(const char* data) { Write(data, std::strlen(data)); }
void XMLPrinter::Putc(char ch) { Write(&ch, 1); }

void XMLPrinter::Print(const char* format, ...) {
  char buf[1024];
  va_list va;
  va_start(va, format);
  int n = std::vsnprintf(buf, sizeof buf, format, va);
  va_end(va);
  if (n < 0) return;
  if (static_cast<size_t>(n) < sizeof buf) {
    Write(buf, static_cast<size_t>(n));
  } else {
    std::string big(static_cast<size_t>(n) + 1, '\0');
    va_start(va, format);
    std::vsnprintf(&big[0], big.size(), format, va);
    va_end(va);
    Write(big.data(), static_cast<size_t>(n));
  }
}

void XMLPrinter::PrintSpace(int depth) {
  for (int i = 0; i < depth; ++i) Write("    ");
}

void XMLPrinter::PrintString(const char* p, bool restricted) {
  if (!p) return;
  if (!_processEntities) {
    Write(p);
    return;
  }
  const char* q = p;
  for (; *q; ++q) {
    const char* rep = nullptr;
    switch (*q) {
      case '&': rep = "&amp;"; break;
      case '<': rep = "&lt;"; break;
      case '>': rep = "&gt;"; break;
      case '"': if (!restricted) rep = "&quot;"; break;
      case '\'': if (!restricted) rep = "&apos;"; break;
      case '\r': rep = "&#xD;"; break;  // (tinyxml2 writes it raw; escaped here so it survives re-parsing)
      default: break;
    }
    if (rep) {
      if (q > p) Write(p, static_cast<size_t>(q - p));
      Write(rep);
      p = q + 1;
    }
  }
  if (q > p) Write(p, static_cast<size_t>(q - p));
}

void XMLPrinter::PushHeader(bool writeBOM, bool writeDec) {
  if (writeBOM) {
    static const unsigned char bom[] = {0xEF, 0xBB, 0xBF, 0};
    Write(reinterpret_cast<const char*>(bom));
  }
  if (writeDec) PushDeclaration("xml version=\"1.0\"");
}

void XMLPrinter::PrepareForNewNode(bool compactMode) {
  SealElementIfJustOpened();
  if (compactMode) return;
  if (_firstElement) {
    PrintSpace(_depth);
  } else if (_textDepth < 0) {
    Putc('\n');
    PrintSpace(_depth);
  }
  _firstElement = false;
}

void XMLPrinter::OpenElement(const char* name, bool compactMode) {
  PrepareForNewNode(compactMode);
  _stack.push_back(name ? name : "");
  Write("<");
  Write(_stack.back().c_str());
  _elementJustOpened = true;
  ++_depth;
}

void XMLPrinter::PushAttribute(const char* name, const char* value) {
  Putc(' ');
  Write(name ? name : "");
  Write("=\"");
  PrintString(value, false);
  Putc('"');
}
void XMLPrinter::PushAttribute(const char* name, int v) { PushAttribute(name, FmtInt(v).c_str()); }
void XMLPrinter::PushAttribute(const char* name, unsigned v) { PushAttribute(name, FmtUInt(v).c_str()); }
void XMLPrinter::PushAttribute(const char* name, int64_t v) { PushAttribute(name, FmtInt(v).c_str()); }
void XMLPrinter::PushAttribute(const char* name, uint64_t v) { PushAttribute(name, FmtUInt(v).c_str()); }
void XMLPrinter::PushAttribute(const char* name, bool v) { PushAttribute(name, v ? "true" : "false"); }
void XMLPrinter::PushAttribute(const char* name, double v) {
  char b[64];
  std::snprintf(b, sizeof b, "%.17g", v);
  PushAttribute(name, b);
}

void XMLPrinter::CloseElement(bool compactMode) {
  if (_stack.empty()) return;
  --_depth;
  std::string name = _stack.back();
  _stack.pop_back();
  if (_elementJustOpened) {
    Write("/>");
  } else {
    if (_textDepth < 0 && !compactMode) {
      Putc('\n');
      PrintSpace(_depth);
    }
    Write("</");
    Write(name.c_str());
    Write(">");
  }
  if (_textDepth == _depth) _textDepth = -1;
  if (_depth == 0 && !compactMode) Putc('\n');
  _elementJustOpened = false;
}

void XMLPrinter::SealElementIfJustOpened() {
  if (!_elementJustOpened) return;
  _elementJustOpened = false;
  Putc('>');
}

void XMLPrinter::PushText(const char* text, bool cdata) {
  _textDepth = _depth - 1;
  SealElementIfJustOpened();
  if (cdata) {
    Write("<![CDATA[");
    Write(text ? text : "");
    Write("]]>");
  } else {
    PrintString(text, true);
  }
}

void XMLPrinter::PushComment(const char* comment) {
  PrepareForNewNode(_compactMode);
  Write("<!--");
  Write(comment ? comment : "");
  Write("-->");
}

void XMLPrinter::PushDeclaration(const char* value) {
  PrepareForNewNode(_compactMode);
  Write("<?");
  Write(value ? value : "");
  Write("?>");
}

void XMLPrinter::PushUnknown(const char* value) {
  PrepareForNewNode(_compactMode);
  Write("<!");
  Write(value ? value : "");
  Putc('>');
}

void XMLPrinter::VisitNode(const XMLNode* node) {
  if (!node) return;
  if (const XMLDocument* d = node->ToDocument()) {
    _processEntities = d->ProcessEntities();
    if (d->HasBOM()) PushHeader(true, false);
    for (const XMLNode* c = node->FirstChild(); c; c = c->NextSibling()) VisitNode(c);
  } else if (const XMLElement* e = node->ToElement()) {
    const XMLElement* parentElem = e->Parent() ? e->Parent()->ToElement() : nullptr;
    const bool compactMode = parentElem ? CompactMode(*parentElem) : _compactMode;
    OpenElement(e->Name(), compactMode);
    for (const XMLAttribute* a = e->FirstAttribute(); a; a = a->Next()) PushAttribute(a->Name(), a->Value());
    for (const XMLNode* c = node->FirstChild(); c; c = c->NextSibling()) VisitNode(c);
    CloseElement(CompactMode(*e));
  } else if (const XMLText* t = node->ToText()) {
    PushText(t->Value(), t->CData());
  } else if (node->ToComment()) {
    PushComment(node->Value());
  } else if (node->ToDeclaration()) {
    PushDeclaration(node->Value());
  } else if (node->ToUnknown()) {
    PushUnknown(node->Value());
  }
}

}  // namespace tinyxml2
