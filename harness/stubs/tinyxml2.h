// tinyxml2-compatible DOM shim for the /verif harness (NOT tinyxml2).
//
// tinyxml2 cannot be fetched offline, so src/xml of the working tree is compiled against this
// header instead.  It implements the subset of the tinyxml2 10.x API that /repo/src/xml/*.cc uses
// (plus a few obviously related members); anything else is simply absent, so a use of an
// unimplemented member fails the build loudly instead of being guessed.
//
// Behaviour follows tinyxml2 where it matters to the reader: document order, attribute order,
// duplicate attributes are kept (first one wins in Attribute()), whitespace-only text is dropped,
// entities (&lt; &gt; &amp; &quot; &apos; &#N; &#xH;) are decoded, line numbers are 1-based and name
// the line of the '<' of an element, nesting deeper than 500 elements is a parse error, a parse
// error leaves an empty document.  The tokenizer under test in C37 is this shim, not tinyxml2.
#ifndef VERIF_TINYXML2_SHIM_H_
#define VERIF_TINYXML2_SHIM_H_

#include <cstddef>
#include <cstdint>
#include <cstdio>
#include <string>
#include <unordered_set>
#include <vector>

#define TINYXML2_SHIM 1
#define TINYXML2_MAJOR_VERSION 10
#define TINYXML2_MINOR_VERSION 0
#define TINYXML2_PATCH_VERSION 0

namespace tinyxml2 {

class XMLDocument;
class XMLElement;
class XMLAttribute;
class XMLComment;
class XMLText;
class XMLDeclaration;
class XMLUnknown;
class XMLPrinter;
struct XMLDocumentParserAccess;

static const int TINYXML2_MAX_ELEMENT_DEPTH = 500;

enum XMLError {
  XML_SUCCESS = 0,
  XML_NO_ATTRIBUTE,
  XML_WRONG_ATTRIBUTE_TYPE,
  XML_ERROR_FILE_NOT_FOUND,
  XML_ERROR_FILE_COULD_NOT_BE_OPENED,
  XML_ERROR_FILE_READ_ERROR,
  XML_ERROR_PARSING_ELEMENT,
  XML_ERROR_PARSING_ATTRIBUTE,
  XML_ERROR_PARSING_TEXT,
  XML_ERROR_PARSING_CDATA,
  XML_ERROR_PARSING_COMMENT,
  XML_ERROR_PARSING_DECLARATION,
  XML_ERROR_PARSING_UNKNOWN,
  XML_ERROR_EMPTY_DOCUMENT,
  XML_ERROR_MISMATCHED_ELEMENT,
  XML_ERROR_PARSING,
  XML_CAN_NOT_CONVERT_TEXT,
  XML_NO_TEXT_NODE,
  XML_ELEMENT_DEPTH_EXCEEDED,
  XML_ERROR_COUNT
};

enum Whitespace { PRESERVE_WHITESPACE, COLLAPSE_WHITESPACE, PEDANTIC_WHITESPACE };

class XMLAttribute {
  friend class XMLElement;
  friend class XMLDocument;

 public:
  const char* Name() const { return _name.c_str(); }
  const char* Value() const { return _value.c_str(); }
  int GetLineNum() const { return _line; }
  const XMLAttribute* Next() const { return _next; }

  XMLError QueryIntValue(int* value) const;
  XMLError QueryUnsignedValue(unsigned* value) const;
  XMLError QueryInt64Value(int64_t* value) const;
  XMLError QueryBoolValue(bool* value) const;
  XMLError QueryDoubleValue(double* value) const;
  XMLError QueryFloatValue(float* value) const;
  int IntValue() const { int i = 0; QueryIntValue(&i); return i; }
  unsigned UnsignedValue() const { unsigned i = 0; QueryUnsignedValue(&i); return i; }
  bool BoolValue() const { bool b = false; QueryBoolValue(&b); return b; }
  double DoubleValue() const { double d = 0; QueryDoubleValue(&d); return d; }
  float FloatValue() const { float f = 0; QueryFloatValue(&f); return f; }

  void SetAttribute(const char* value) { _value = value ? value : ""; }
  void SetAttribute(int value);
  void SetAttribute(unsigned value);
  void SetAttribute(int64_t value);
  void SetAttribute(uint64_t value);
  void SetAttribute(bool value);
  void SetAttribute(double value);
  void SetAttribute(float value);

 private:
  XMLAttribute() : _line(0), _next(nullptr) {}
  XMLAttribute(const XMLAttribute&) = delete;
  void operator=(const XMLAttribute&) = delete;
  std::string _name, _value;
  int _line;
  XMLAttribute* _next;
};

class XMLNode {
  friend class XMLDocument;
  friend class XMLElement;
  friend struct XMLDocumentParserAccess;

 public:
  const XMLDocument* GetDocument() const { return _document; }
  XMLDocument* GetDocument() { return _document; }

  virtual XMLElement* ToElement() { return nullptr; }
  virtual XMLText* ToText() { return nullptr; }
  virtual XMLComment* ToComment() { return nullptr; }
  virtual XMLDocument* ToDocument() { return nullptr; }
  virtual XMLDeclaration* ToDeclaration() { return nullptr; }
  virtual XMLUnknown* ToUnknown() { return nullptr; }
  virtual const XMLElement* ToElement() const { return nullptr; }
  virtual const XMLText* ToText() const { return nullptr; }
  virtual const XMLComment* ToComment() const { return nullptr; }
  virtual const XMLDocument* ToDocument() const { return nullptr; }
  virtual const XMLDeclaration* ToDeclaration() const { return nullptr; }
  virtual const XMLUnknown* ToUnknown() const { return nullptr; }

  const char* Value() const { return _value.c_str(); }
  void SetValue(const char* val, bool /*staticMem*/ = false) { _value = val ? val : ""; }
  int GetLineNum() const { return _line; }

  const XMLNode* Parent() const { return _parent; }
  XMLNode* Parent() { return _parent; }
  bool NoChildren() const { return !_firstChild; }

  const XMLNode* FirstChild() const { return _firstChild; }
  XMLNode* FirstChild() { return _firstChild; }
  const XMLNode* LastChild() const { return _lastChild; }
  XMLNode* LastChild() { return _lastChild; }
  const XMLNode* PreviousSibling() const { return _prev; }
  XMLNode* PreviousSibling() { return _prev; }
  const XMLNode* NextSibling() const { return _next; }
  XMLNode* NextSibling() { return _next; }

  const XMLElement* FirstChildElement(const char* name = nullptr) const;
  XMLElement* FirstChildElement(const char* name = nullptr) {
    return const_cast<XMLElement*>(const_cast<const XMLNode*>(this)->FirstChildElement(name));
  }
  const XMLElement* LastChildElement(const char* name = nullptr) const;
  XMLElement* LastChildElement(const char* name = nullptr) {
    return const_cast<XMLElement*>(const_cast<const XMLNode*>(this)->LastChildElement(name));
  }
  const XMLElement* PreviousSiblingElement(const char* name = nullptr) const;
  XMLElement* PreviousSiblingElement(const char* name = nullptr) {
    return const_cast<XMLElement*>(const_cast<const XMLNode*>(this)->PreviousSiblingElement(name));
  }
  const XMLElement* NextSiblingElement(const char* name = nullptr) const;
  XMLElement* NextSiblingElement(const char* name = nullptr) {
    return const_cast<XMLElement*>(const_cast<const XMLNode*>(this)->NextSiblingElement(name));
  }

  XMLNode* InsertEndChild(XMLNode* addThis);
  XMLNode* LinkEndChild(XMLNode* addThis) { return InsertEndChild(addThis); }
  XMLNode* InsertFirstChild(XMLNode* addThis);
  XMLNode* InsertAfterChild(XMLNode* afterThis, XMLNode* addThis);
  void DeleteChildren();
  void DeleteChild(XMLNode* node);

  virtual XMLNode* ShallowClone(XMLDocument* document) const = 0;
  XMLNode* DeepClone(XMLDocument* target) const;

  void SetUserData(void* userData) { _userData = userData; }
  void* GetUserData() const { return _userData; }

 protected:
  explicit XMLNode(XMLDocument* doc);
  virtual ~XMLNode();
  void Unlink(XMLNode* child);
  void InsertChildPreamble(XMLNode* insertThis) const;
  static void Destroy(XMLNode* node);

  XMLDocument* _document;
  XMLNode* _parent;
  std::string _value;
  int _line;
  XMLNode* _firstChild;
  XMLNode* _lastChild;
  XMLNode* _prev;
  XMLNode* _next;
  void* _userData;

 private:
  XMLNode(const XMLNode&) = delete;
  XMLNode& operator=(const XMLNode&) = delete;
};

class XMLText : public XMLNode {
  friend class XMLDocument;

 public:
  XMLText* ToText() override { return this; }
  const XMLText* ToText() const override { return this; }
  void SetCData(bool isCData) { _isCData = isCData; }
  bool CData() const { return _isCData; }
  XMLNode* ShallowClone(XMLDocument* document) const override;

 protected:
  explicit XMLText(XMLDocument* doc) : XMLNode(doc), _isCData(false) {}
  ~XMLText() override {}

 private:
  bool _isCData;
};

class XMLComment : public XMLNode {
  friend class XMLDocument;

 public:
  XMLComment* ToComment() override { return this; }
  const XMLComment* ToComment() const override { return this; }
  XMLNode* ShallowClone(XMLDocument* document) const override;

 protected:
  explicit XMLComment(XMLDocument* doc) : XMLNode(doc) {}
  ~XMLComment() override {}
};

class XMLDeclaration : public XMLNode {
  friend class XMLDocument;

 public:
  XMLDeclaration* ToDeclaration() override { return this; }
  const XMLDeclaration* ToDeclaration() const override { return this; }
  XMLNode* ShallowClone(XMLDocument* document) const override;

 protected:
  explicit XMLDeclaration(XMLDocument* doc) : XMLNode(doc) {}
  ~XMLDeclaration() override {}
};

class XMLUnknown : public XMLNode {
  friend class XMLDocument;

 public:
  XMLUnknown* ToUnknown() override { return this; }
  const XMLUnknown* ToUnknown() const override { return this; }
  XMLNode* ShallowClone(XMLDocument* document) const override;

 protected:
  explicit XMLUnknown(XMLDocument* doc) : XMLNode(doc) {}
  ~XMLUnknown() override {}
};

class XMLElement : public XMLNode {
  friend class XMLDocument;
  friend struct XMLDocumentParserAccess;

 public:
  const char* Name() const { return Value(); }
  void SetName(const char* str, bool staticMem = false) { SetValue(str, staticMem); }

  XMLElement* ToElement() override { return this; }
  const XMLElement* ToElement() const override { return this; }

  // value of the (first) attribute with this name, or null; if `value` is given, only when equal
  const char* Attribute(const char* name, const char* value = nullptr) const;
  const XMLAttribute* FirstAttribute() const { return _rootAttribute; }
  const XMLAttribute* FindAttribute(const char* name) const;

  XMLError QueryIntAttribute(const char* name, int* value) const;
  XMLError QueryUnsignedAttribute(const char* name, unsigned* value) const;
  XMLError QueryInt64Attribute(const char* name, int64_t* value) const;
  XMLError QueryBoolAttribute(const char* name, bool* value) const;
  XMLError QueryDoubleAttribute(const char* name, double* value) const;
  XMLError QueryFloatAttribute(const char* name, float* value) const;
  XMLError QueryStringAttribute(const char* name, const char** value) const;
  int IntAttribute(const char* name, int defaultValue = 0) const;
  unsigned UnsignedAttribute(const char* name, unsigned defaultValue = 0) const;
  bool BoolAttribute(const char* name, bool defaultValue = false) const;
  double DoubleAttribute(const char* name, double defaultValue = 0) const;
  float FloatAttribute(const char* name, float defaultValue = 0) const;

  void SetAttribute(const char* name, const char* value) { FindOrCreateAttribute(name)->SetAttribute(value); }
  void SetAttribute(const char* name, int value) { FindOrCreateAttribute(name)->SetAttribute(value); }
  void SetAttribute(const char* name, unsigned value) { FindOrCreateAttribute(name)->SetAttribute(value); }
  void SetAttribute(const char* name, int64_t value) { FindOrCreateAttribute(name)->SetAttribute(value); }
  void SetAttribute(const char* name, uint64_t value) { FindOrCreateAttribute(name)->SetAttribute(value); }
  void SetAttribute(const char* name, bool value) { FindOrCreateAttribute(name)->SetAttribute(value); }
  void SetAttribute(const char* name, double value) { FindOrCreateAttribute(name)->SetAttribute(value); }
  void SetAttribute(const char* name, float value) { FindOrCreateAttribute(name)->SetAttribute(value); }
  void DeleteAttribute(const char* name);

  // text of the first child if it is a text node, else null
  const char* GetText() const;
  void SetText(const char* inText);

  XMLElement* InsertNewChildElement(const char* name);
  XMLComment* InsertNewComment(const char* comment);
  XMLText* InsertNewText(const char* text);

  XMLNode* ShallowClone(XMLDocument* document) const override;

 protected:
  explicit XMLElement(XMLDocument* doc) : XMLNode(doc), _rootAttribute(nullptr) {}
  ~XMLElement() override;

 private:
  XMLAttribute* FindOrCreateAttribute(const char* name);
  XMLAttribute* AppendAttribute(const std::string& name, const std::string& value, int line);
  XMLAttribute* _rootAttribute;
};

class XMLDocument : public XMLNode {
  friend class XMLNode;
  friend class XMLElement;

 public:
  explicit XMLDocument(bool processEntities = true, Whitespace whitespaceMode = PRESERVE_WHITESPACE);
  ~XMLDocument() override;

  XMLDocument* ToDocument() override { return this; }
  const XMLDocument* ToDocument() const override { return this; }

  XMLError Parse(const char* xml, size_t nBytes = static_cast<size_t>(-1));
  XMLError LoadFile(const char* filename);
  XMLError LoadFile(FILE* fp);
  XMLError SaveFile(const char* filename, bool compact = false);
  XMLError SaveFile(FILE* fp, bool compact = false);

  bool ProcessEntities() const { return _processEntities; }
  Whitespace WhitespaceMode() const { return _whitespaceMode; }
  bool HasBOM() const { return _writeBOM; }
  void SetBOM(bool useBOM) { _writeBOM = useBOM; }

  XMLElement* RootElement() { return FirstChildElement(); }
  const XMLElement* RootElement() const { return FirstChildElement(); }

  void Print(XMLPrinter* streamer = nullptr) const;

  XMLElement* NewElement(const char* name);
  XMLComment* NewComment(const char* comment);
  XMLText* NewText(const char* text);
  XMLDeclaration* NewDeclaration(const char* text = nullptr);
  XMLUnknown* NewUnknown(const char* text);
  void DeleteNode(XMLNode* node);

  void ClearError();
  bool Error() const { return _errorID != XML_SUCCESS; }
  XMLError ErrorID() const { return _errorID; }
  const char* ErrorName() const { return ErrorIDToName(_errorID); }
  static const char* ErrorIDToName(XMLError errorID);
  const char* ErrorStr() const { return _errorStr.c_str(); }
  void PrintError() const;
  int ErrorLineNum() const { return _errorLineNum; }
  void Clear();
  void DeepCopy(XMLDocument* target) const;

  XMLNode* ShallowClone(XMLDocument* /*document*/) const override { return nullptr; }

 private:
  void SetError(XMLError error, int lineNum, const char* fmt, const char* arg = nullptr);
  bool _writeBOM;
  bool _processEntities;
  XMLError _errorID;
  Whitespace _whitespaceMode;
  std::string _errorStr;
  int _errorLineNum;
  std::unordered_set<XMLNode*> _unlinked;
};

class XMLPrinter {
 public:
  explicit XMLPrinter(FILE* file = nullptr, bool compact = false, int depth = 0);
  virtual ~XMLPrinter() {}

  void PushHeader(bool writeBOM, bool writeDeclaration);
  void OpenElement(const char* name, bool compactMode = false);
  void PushAttribute(const char* name, const char* value);
  void PushAttribute(const char* name, int value);
  void PushAttribute(const char* name, unsigned value);
  void PushAttribute(const char* name, int64_t value);
  void PushAttribute(const char* name, uint64_t value);
  void PushAttribute(const char* name, bool value);
  void PushAttribute(const char* name, double value);
  virtual void CloseElement(bool compactMode = false);
  void PushText(const char* text, bool cdata = false);
  void PushComment(const char* comment);
  void PushDeclaration(const char* value);
  void PushUnknown(const char* value);

  // walks a node (document order); used by XMLDocument::Print
  void VisitNode(const XMLNode* node);

  const char* CStr() const { return _buffer.c_str(); }
  // size of the buffer including the terminating NUL (as in tinyxml2)
  size_t CStrSize() const { return _buffer.size() + 1; }
  void ClearBuffer(bool resetToFirstElement = true) {
    _buffer.clear();
    _firstElement = resetToFirstElement;
  }

 protected:
  virtual bool CompactMode(const XMLElement&) { return _compactMode; }
  virtual void PrintSpace(int depth);
  virtual void Print(const char* format, ...);
  virtual void Write(const char* data, size_t size);
  virtual void Putc(char ch);
  void Write(const char* data);
  void SealElementIfJustOpened();
  bool _elementJustOpened;

 private:
  void PrepareForNewNode(bool compactMode);
  void PrintString(const char* p, bool restrictedEntitySet);
  bool _firstElement;
  FILE* _fp;
  int _depth;
  int _textDepth;
  bool _processEntities;
  bool _compactMode;
  std::string _buffer;
  std::vector<std::string> _stack;  // names of the open elements
  XMLPrinter(const XMLPrinter&) = delete;
  XMLPrinter& operator=(const XMLPrinter&) = delete;
};

}  // namespace tinyxml2

#endif  // VERIF_TINYXML2_SHIM_H_
