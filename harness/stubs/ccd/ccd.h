// Stub of libccd <ccd/ccd.h>: MPR always reports "no penetration" (-1).
#ifndef VERIF_STUB_CCD_H
#define VERIF_STUB_CCD_H
#include <ccd/vec3.h>
#ifdef __cplusplus
extern "C" {
#endif
typedef void (*ccd_support_fn)(const void* obj, const ccd_vec3_t* dir, ccd_vec3_t* vec);
typedef void (*ccd_first_dir_fn)(const void* obj1, const void* obj2, ccd_vec3_t* dir);
typedef void (*ccd_center_fn)(const void* obj1, ccd_vec3_t* center);
typedef struct _ccd_t {
  ccd_first_dir_fn first_dir;
  ccd_support_fn support1;
  ccd_support_fn support2;
  ccd_center_fn center1;
  ccd_center_fn center2;
  unsigned long max_iterations;
  ccd_real_t epa_tolerance;
  ccd_real_t mpr_tolerance;
  ccd_real_t dist_tolerance;
} ccd_t;
static inline void ccdFirstDirDefault(const void* o1, const void* o2, ccd_vec3_t* dir) {
  (void)o1; (void)o2; ccdVec3Set(dir, 1, 0, 0);
}
#define CCD_INIT(ccd) do { \
  (ccd)->first_dir = ccdFirstDirDefault; (ccd)->support1 = 0; (ccd)->support2 = 0; \
  (ccd)->center1 = 0; (ccd)->center2 = 0; (ccd)->max_iterations = (unsigned long)-1; \
  (ccd)->epa_tolerance = 0.0001; (ccd)->mpr_tolerance = 0.0001; (ccd)->dist_tolerance = 1e-6; } while (0)
static inline int ccdMPRPenetration(const void* obj1, const void* obj2, const ccd_t* ccd,
                                    ccd_real_t* depth, ccd_vec3_t* dir, ccd_vec3_t* pos) {
  (void)obj1; (void)obj2; (void)ccd; (void)depth; (void)dir; (void)pos; return -1;
}
#ifdef __cplusplus
}
#endif
#endif
