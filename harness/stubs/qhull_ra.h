// Stub of reentrant qhull: qh_qhull always fails through the errexit longjmp.
#ifndef VERIF_STUB_QHULL_RA_H
#define VERIF_STUB_QHULL_RA_H
#include <csetjmp>
#include <cstdio>
typedef struct setT { int maxsize; void* e[1]; } setT;
typedef struct facetT facetT;
typedef struct vertexT vertexT;
struct vertexT { vertexT* next; double* point; setT* neighbors; };
struct facetT { facetT* next; setT* vertices; unsigned toporient; };
typedef struct qhT {
  jmp_buf errexit; int NOerrexit; int num_vertices; int num_facets;
  vertexT* vertex_list; facetT* facet_list;
} qhT;
#define qh_False 0
#define qh_ALL 1
inline void qh_zero(qhT* qh, FILE*) { qh->num_vertices = 0; qh->num_facets = 0; qh->vertex_list = 0; qh->facet_list = 0; }
inline void qh_init_A(qhT*, FILE*, FILE*, FILE*, int, char**) {}
inline void qh_initflags(qhT*, char*) {}
inline void qh_init_B(qhT*, double*, int, int, int) {}
inline void qh_qhull(qhT* qh) { longjmp(qh->errexit, 1); }
inline void qh_triangulate(qhT*) {}
inline void qh_vertexneighbors(qhT*) {}
inline int qh_pointid(qhT*, double*) { return -1; }
inline void qh_freeqhull(qhT*, int) {}
inline void qh_memfreeshort(qhT*, int* a, int* b) { *a = 0; *b = 0; }
#define FORALLvertices for (vertex = qh->vertex_list; vertex && vertex->next; vertex = vertex->next)
#define FORALLfacets for (facet = qh->facet_list; facet && facet->next; facet = facet->next)
#define FOREACHsetelement_(type, set, variable) \
  if (((variable = NULL), set)) for (variable##p = (type**)&((set)->e[0]); (variable = *variable##p++);)
#endif
