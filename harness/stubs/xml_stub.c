// Stub of the three src/xml entry points referenced from src/user (tinyxml2 is absent offline).
#include <stddef.h>
#include <stdio.h>
struct mjSpec_; struct mjVFS_;
struct mjSpec_* mj_parseXML(const char* f, const struct mjVFS_* v, char* e, int n) {
  (void)f; (void)v; if (e && n > 0) snprintf(e, n, "XML parser stubbed out"); return NULL; }
int mj_saveXML(const struct mjSpec_* s, const char* f, char* e, int n) {
  (void)s; (void)f; if (e && n > 0) snprintf(e, n, "XML writer stubbed out"); return -1; }
int mj_saveLastXML(const char* f, const void* m, char* e, int n) {
  (void)f; (void)m; if (e && n > 0) snprintf(e, n, "XML writer stubbed out"); return 0; }
