// Stub of MarchingCubeCpp: produces an empty mesh.
#ifndef VERIF_STUB_MC_H
#define VERIF_STUB_MC_H
#include <vector>
namespace MC {
typedef double MC_FLOAT;
struct mcVec3f { MC_FLOAT x, y, z; };
struct mcMesh { std::vector<mcVec3f> vertices; std::vector<mcVec3f> normals; std::vector<unsigned int> indices; };
inline void marching_cube(MC_FLOAT*, int, int, int, mcMesh&) {}
}
#endif
