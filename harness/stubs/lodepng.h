// Stub of lodepng: every decode fails with error 1.
#ifndef VERIF_STUB_LODEPNG_H
#define VERIF_STUB_LODEPNG_H
#include <cstddef>
enum LodePNGColorType { LCT_GREY = 0, LCT_RGB = 2, LCT_PALETTE = 3, LCT_GREY_ALPHA = 4, LCT_RGBA = 6 };
struct LodePNGColorMode { LodePNGColorType colortype; unsigned bitdepth; };
struct LodePNGInfo { LodePNGColorMode color; unsigned srgb_defined; };
namespace lodepng {
struct State { LodePNGColorMode info_raw; LodePNGInfo info_png; };
}
inline unsigned lodepng_decode(unsigned char** out, unsigned* w, unsigned* h, lodepng::State*,
                               const unsigned char*, size_t) { *out = 0; *w = 0; *h = 0; return 1; }
inline const char* lodepng_error_text(unsigned) { return "lodepng stubbed out"; }
inline size_t lodepng_get_raw_size(unsigned w, unsigned h, const LodePNGColorMode*) { return (size_t)w * h; }
#endif
