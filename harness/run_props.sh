#!/bin/bash
# usage: harness/run_props.sh C05 C24 ...   runs quick checks sequentially, prints a summary line each
cd /verif
for P in "$@"; do
  s=$(date +%s)
  out=$(timeout 1800 ./check "$P" --tier quick 2>&1 | tail -3 | tr '\n' ' ')
  rc=$?
  e=$(date +%s)
  echo "$P wall=$((e-s))s :: $out"
done
