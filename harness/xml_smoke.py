#!/usr/bin/env python3
"""Build the XML-enabled library (src/xml on the tinyxml2 shim) from VERIF_REPO and run the smoke driver.
usage: python3 harness/xml_smoke.py            (exit code 0 = all smoke tests passed)"""
import os, subprocess, sys
sys.path.insert(0, os.path.dirname(os.path.abspath(__file__)))
import build as B

if __name__ == "__main__":
    try:
        lib, info = B.build_lib_xml(B.REPO)
        exe = B.build_driver("xml_smoke", ["xml_smoke.cc"], B.REPO, lib)
    except RuntimeError as e:
        print(str(e))
        sys.exit(2)
    print(info)
    r = subprocess.run(["timeout", "120", exe])
    sys.exit(r.returncode)
