#!/usr/bin/env python3
"""Content-hash incremental build of libmj_nox (src/engine + src/user + stubs) and of drivers.

The implementation under test is always compiled from the repository working tree named by
VERIF_REPO (default /repo).  Objects are cached under /verif/build/obj keyed by the sha256 of
(source text, digest of every header under include/ src/ plugin/ and the stubs, flags), so a
run re-hashes everything and recompiles exactly what changed.
"""
import hashlib, os, subprocess, sys, glob, json, time
from concurrent.futures import ThreadPoolExecutor

VERIF = os.path.dirname(os.path.dirname(os.path.abspath(__file__)))
REPO = os.environ.get("VERIF_REPO", "/repo")
BUILD = os.path.join(VERIF, "build")
OBJ = os.path.join(BUILD, "obj")
STUBS = os.path.join(VERIF, "harness", "stubs")
GUARD_DEF = "-DMUJOCO_VERIF=1"

CFLAGS_COMMON = ["-O1", "-g0", "-ffp-contract=off", "-fPIC", "-D_GNU_SOURCE", "-DCCD_STATIC_DEFINE",
                 "-DMC_IMPLEM_ENABLE", "-DMJ_STATIC", GUARD_DEF, "-w"]
CSTD = ["-std=gnu11"]
CXXSTD = ["-std=c++20"]


def incs(repo):
    return ["-I" + os.path.join(repo, "include"), "-I" + os.path.join(repo, "src"),
            "-I" + STUBS, "-I" + repo]


def sha(b):
    return hashlib.sha256(b).hexdigest()


def header_digest(repo):
    h = hashlib.sha256()
    pats = ["include/mujoco/*.h", "src/engine/*.h", "src/user/*.h", "src/xml/*.h", "src/render/*.h",
            "src/thread/*.h", "src/cc/*.h", "plugin/*/*.h"]
    files = []
    for p in pats:
        files += glob.glob(os.path.join(repo, p))
    files += glob.glob(os.path.join(STUBS, "*.h")) + glob.glob(os.path.join(STUBS, "*/*.h"))
    for f in sorted(files):
        h.update(os.path.relpath(f, repo).encode())
        with open(f, "rb") as fh:
            h.update(fh.read())
    return h.hexdigest()


def compile_one(src, repo, hdig, extra=()):
    cxx = src.endswith((".cc", ".cpp"))
    cmd = (["g++"] + CXXSTD if cxx else ["gcc"] + CSTD) + CFLAGS_COMMON + list(extra) + incs(repo)
    with open(src, "rb") as fh:
        key = sha(fh.read() + hdig.encode() + " ".join(cmd).replace(repo, "<R>").encode())
    out = os.path.join(OBJ, key + ".o")
    if not os.path.exists(out):
        tmp = out + ".%d.tmp" % os.getpid()
        r = subprocess.run(cmd + ["-c", src, "-o", tmp], capture_output=True, text=True)
        if r.returncode != 0:
            return None, "compile failed: %s\n%s" % (src, r.stderr[-4000:])
        os.replace(tmp, out)
    return out, None


def lib_sources(repo):
    srcs = sorted(glob.glob(os.path.join(repo, "src/engine/*.c")) + glob.glob(os.path.join(repo, "src/engine/*.cc"))
                  + glob.glob(os.path.join(repo, "src/user/*.c")) + glob.glob(os.path.join(repo, "src/user/*.cc")))
    srcs.append(os.path.join(STUBS, "xml_stub.c"))
    return srcs


def build_lib(repo=None, extra=(), tag=""):
    """returns (path to libmj_nox.a, info dict) or raises RuntimeError."""
    repo = repo or REPO
    os.makedirs(OBJ, exist_ok=True)
    t0 = time.time()
    hdig = header_digest(repo)
    srcs = lib_sources(repo)
    with ThreadPoolExecutor(max_workers=16) as ex:
        res = list(ex.map(lambda s: compile_one(s, repo, hdig, extra), srcs))
    errs = [e for (_, e) in res if e]
    if errs:
        raise RuntimeError("\n".join(errs))
    objs = [o for (o, _) in res]
    lkey = sha(("\n".join(objs)).encode())[:24]
    lib = os.path.join(BUILD, "lib", "libmj_nox_%s.a" % lkey)
    if not os.path.exists(lib):
        os.makedirs(os.path.dirname(lib), exist_ok=True)
        tmp = lib + ".%d.tmp" % os.getpid()
        if os.path.exists(tmp):
            os.remove(tmp)
        subprocess.run(["ar", "rcs", tmp] + objs, check=True)
        os.replace(tmp, lib)
        # prune old libs (keep 4 newest)
        libs = sorted(glob.glob(os.path.join(BUILD, "lib", "libmj_nox_*.a")), key=os.path.getmtime)
        for old in libs[:-10]:
            try:
                os.remove(old)
            except OSError:
                pass
    return lib, {"lib": lib, "n_sources": len(srcs), "header_digest": hdig[:16], "wall_s": round(time.time() - t0, 2)}


def build_driver(name, srcs, repo=None, lib=None, extra=(), link_extra=(), cxx=None):
    """Compile driver sources (paths relative to harness/drivers or absolute) and link against lib.
    Returns path of executable.  The executable is keyed on objects+lib so it relinks when needed."""
    repo = repo or REPO
    os.makedirs(OBJ, exist_ok=True)
    hdig = header_digest(repo)
    # drivers may #include repo .c/.cc files: add digest of all engine/user sources to the key
    h = hashlib.sha256(hdig.encode())
    for f in lib_sources(repo) + sorted(glob.glob(os.path.join(repo, "plugin/*/*.cc"))):
        with open(f, "rb") as fh:
            h.update(fh.read())
    for f in sorted(glob.glob(os.path.join(VERIF, "harness", "drivers", "*.h"))):
        with open(f, "rb") as fh:
            h.update(fh.read())
    sdig = h.hexdigest()
    objs = []
    anycxx = False
    for s in srcs:
        p = s if os.path.isabs(s) else os.path.join(VERIF, "harness", "drivers", s)
        anycxx = anycxx or p.endswith((".cc", ".cpp"))
        o, e = compile_one(p, repo, sdig, tuple(extra) + ("-I" + os.path.join(VERIF, "harness", "drivers"),))
        if e:
            raise RuntimeError(e)
        objs.append(o)
    if cxx is None:
        cxx = True  # the library contains C++ objects: always link with g++
    libs = [lib] if lib else []
    ekey = sha(("\n".join(objs + libs + list(link_extra))).encode())[:24]
    exe = os.path.join(BUILD, "bin", "%s_%s" % (name, ekey))
    if not os.path.exists(exe):
        os.makedirs(os.path.dirname(exe), exist_ok=True)
        tmp = exe + ".%d.tmp" % os.getpid()
        r = subprocess.run(["g++", "-o", tmp] + objs + libs + list(link_extra) + ["-lm", "-lpthread", "-ldl"],
                           capture_output=True, text=True)
        if r.returncode != 0:
            raise RuntimeError("link failed: %s\n%s" % (name, r.stderr[-4000:]))
        os.replace(tmp, exe)
        for old in sorted(glob.glob(os.path.join(BUILD, "bin", name + "_*")), key=os.path.getmtime)[:-8]:
            try:
                os.remove(old)
            except OSError:
                pass
    return exe


def prune_objs(max_bytes=1_200_000_000):
    files = sorted(glob.glob(os.path.join(OBJ, "*.o")), key=os.path.getmtime)
    tot = sum(os.path.getsize(f) for f in files)
    while files and tot > max_bytes:
        f = files.pop(0)
        tot -= os.path.getsize(f)
        os.remove(f)


# ---------------------------------------------------------------------------------------------------
# XML-enabled library (appended for C37/C32): src/engine + src/user + src/xml of the working tree,
# with harness/stubs/tinyxml2.h + tinyxml2_shim.cc standing in for tinyxml2 (which cannot be fetched
# offline) and WITHOUT xml_stub.c.  src/xml/mjz/* is left out (needs miniz, absent).
# Usage:   lib, info = build_lib_xml(repo)
#          exe = build_driver("name", ["drv.cc"], repo, lib)          # link line: g++ objs lib -lm -lpthread -ldl
def xml_sources(repo):
    return sorted(glob.glob(os.path.join(repo, "src/xml/*.cc")))


def xml_digest(repo, hdig):
    """header digest extended by everything the src/xml translation units #include besides *.h:
    the generated tables under src/xml/generated."""
    h = hashlib.sha256(hdig.encode())
    for f in sorted(glob.glob(os.path.join(repo, "src/xml/generated/*.inc")) +
                    glob.glob(os.path.join(repo, "src/xml/generated/*.h"))):
        h.update(os.path.relpath(f, repo).encode())
        with open(f, "rb") as fh:
            h.update(fh.read())
    return h.hexdigest()


def build_lib_xml(repo=None, extra=(), tag=""):
    """returns (path to libmj_xml_<key>.a, info dict) or raises RuntimeError.  Same content-hash
    object cache as build_lib: engine/user objects are shared with libmj_nox."""
    repo = repo or REPO
    os.makedirs(OBJ, exist_ok=True)
    t0 = time.time()
    hdig = header_digest(repo)
    xdig = xml_digest(repo, hdig)
    base = [s for s in lib_sources(repo) if os.path.basename(s) != "xml_stub.c"]
    xml = xml_sources(repo) + [os.path.join(STUBS, "tinyxml2_shim.cc")]
    if len(xml) < 5:
        raise RuntimeError("src/xml/*.cc not found under %s" % repo)
    jobs = [(s, hdig) for s in base] + [(s, xdig) for s in xml]
    with ThreadPoolExecutor(max_workers=16) as ex:
        res = list(ex.map(lambda j: compile_one(j[0], repo, j[1], extra), jobs))
    errs = [e for (_, e) in res if e]
    if errs:
        raise RuntimeError("\n".join(errs))
    objs = [o for (o, _) in res]
    lkey = sha(("\n".join(objs)).encode())[:24]
    lib = os.path.join(BUILD, "lib", "libmj_xml_%s.a" % lkey)
    if not os.path.exists(lib):
        os.makedirs(os.path.dirname(lib), exist_ok=True)
        tmp = lib + ".%d.tmp" % os.getpid()
        if os.path.exists(tmp):
            os.remove(tmp)
        subprocess.run(["ar", "rcs", tmp] + objs, check=True)
        os.replace(tmp, lib)
        libs = sorted(glob.glob(os.path.join(BUILD, "lib", "libmj_xml_*.a")), key=os.path.getmtime)
        for old in libs[:-6]:
            try:
                os.remove(old)
            except OSError:
                pass
    return lib, {"lib": lib, "n_sources": len(jobs), "n_xml_sources": len(xml), "xml_left_out": ["src/xml/mjz/*"],
                 "header_digest": hdig[:16], "xml_digest": xdig[:16], "wall_s": round(time.time() - t0, 2)}


if __name__ == "__main__":
    try:
        lib, info = build_lib()
    except RuntimeError as e:
        print(str(e))
        sys.exit(2)
    prune_objs()
    print(json.dumps(info))
