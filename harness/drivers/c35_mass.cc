// C35 driver: compiled mass properties.  All numbers are exchanged as C hex floats.
// stdin, one request per line:
//   B <hinge:0|1> <grouplo> <grouphi> <n>  then n times:
//        <type> <shell:0|1> <group> <massdefined:0|1> <mass> <density> s0 s1 s2 p0 p1 p2 q0 q1 q2 q3
//     -> one body (child of the world, at a fixed non-trivial pose) with these geoms, compiled by mj_compile
//     "ok mass ipos[3] iquat[4] inertia[3] full[6] n (mass_ inertia[3])*n" | "err <message>"
//     full = the private mjCBody::fullinertia after compilation (the tensor handed to mjuu_fullInertia by the
//     multi-geom arm of InertiaFromGeom; nan when that arm did not run); mass_/inertia = private mjCGeom values.
//     The private members are read with -fno-access-control (no change of /repo).
//   M <mode:1 exact|2 legacy|3 shell> <density> p0 p1 p2 q0 q1 q2 q3 <nvert> <nface> v... f...
//     -> body with one mesh geom (mesh given by float vertices and faces), same output as B
//   K <builtin> <mode> <density> <nparams> params...   -> body with one builtin mesh (mjs_makeMesh)
//   S <mode 0 separate|1 fusestatic|2 mjs_bodyToFrame of the first static child> <L>  then for level 0 (a hinged body): <n> geoms...
//        and for every level k = 1..L-1 (a JOINTLESS body, child of level k-1): px py pz q0 q1 q2 q3 <n> geoms...  (geom format of B)
//     -> "ok <nbody> (mass ipos[3] iquat[4] inertia[3] body_pos[3] body_quat[4])*nbody F full[6]" : every compiled body in id order and
//        the private mjCBody::fullinertia of the level-0 body (the tensor AccumulateInertia handed to mjuu_fullInertia)
//   G l0 l1 l2 q0 q1 q2 q3      -> mjuu_globalinertia : 6 numbers
//   O mass v0 v1 v2             -> mjuu_offcenter     : 6 numbers
//   F f0 f1 f2 f3 f4 f5         -> mjuu_fullInertia   : "ok quat[4] inertia[3]" | "err <message>"
#include <string>
#include <vector>
#include "mjgen.h"
#include "user/user_objects.h"
#include "user/user_util.h"

static std::vector<std::string> split(char* line) {
  std::vector<std::string> t;
  for (char* p = strtok(line, " \t\r\n"); p; p = strtok(NULL, " \t\r\n")) t.push_back(p);
  return t;
}
static double num(const std::string& s) { return strtod(s.c_str(), NULL); }

static void compile_and_print(mjSpec* s, mjsBody* b = NULL, std::vector<mjsGeom*>* geoms = NULL) {
  mjModel* m = NULL;
  if (MJG_TRY) { m = mj_compile(s, NULL); MJG_END; }
  if (!m) {
    const char* e = mjs_getError(s);
    char msg[1024]; snprintf(msg, sizeof msg, "%s", e && e[0] ? e : mjg_last_error);
    for (char* q = msg; *q; q++) if (*q == '\n' || *q == '\r') *q = ' ';
    printf("err %s\n", msg);
  } else {
    printf("ok %a %a %a %a %a %a %a %a %a %a %a", m->body_mass[1],
           m->body_ipos[3], m->body_ipos[4], m->body_ipos[5],
           m->body_iquat[4], m->body_iquat[5], m->body_iquat[6], m->body_iquat[7],
           m->body_inertia[3], m->body_inertia[4], m->body_inertia[5]);
    if (b) {
      mjCBody* cb = static_cast<mjCBody*>(b->element);
      for (int k = 0; k < 6; k++) printf(" %a", cb->fullinertia[k]);
    }
    if (geoms) {
      printf(" %d", (int)geoms->size());
      for (mjsGeom* g : *geoms) {
        mjCGeom* cg = static_cast<mjCGeom*>(g->element);
        printf(" %a %a %a %a", cg->mass_, cg->inertia[0], cg->inertia[1], cg->inertia[2]);
      }
    }
    printf("\n");
    mj_deleteModel(m);
  }
}

static mjsBody* make_body(mjSpec* s, int hinge) {
  mjsBody* world = mjs_findBody(s, "world");
  mjsBody* b = mjs_addBody(world, NULL);
  mjs_setName(b->element, "b");
  b->pos[0] = 0.3; b->pos[1] = -0.2; b->pos[2] = 0.7;
  b->quat[0] = 0.5; b->quat[1] = -0.5; b->quat[2] = 0.5; b->quat[3] = 0.5;
  if (hinge) { mjsJoint* j = mjs_addJoint(b, NULL); j->type = mjJNT_HINGE; j->axis[0] = 0; j->axis[1] = 1; j->axis[2] = 0; }
  return b;
}

int main(void) {
  mjg_install_handlers();
  static char line[1 << 22];
  while (fgets(line, sizeof line, stdin)) {
    std::vector<std::string> t = split(line);
    if (t.empty()) { printf("err empty\n"); continue; }
    const std::string& op = t[0];
    if (op == "B") {
      if (t.size() < 5) { printf("err parse\n"); continue; }
      int hinge = atoi(t[1].c_str()), glo = atoi(t[2].c_str()), ghi = atoi(t[3].c_str()), n = atoi(t[4].c_str());
      if ((int)t.size() != 5 + 16 * n) { printf("err parse\n"); continue; }
      mjSpec* s = mj_makeSpec();
      s->compiler.inertiagrouprange[0] = glo; s->compiler.inertiagrouprange[1] = ghi;
      mjsBody* b = make_body(s, hinge);
      std::vector<mjsGeom*> geoms;
      for (int i = 0; i < n; i++) {
        const std::string* a = &t[5 + 16 * i];
        mjsGeom* g = mjs_addGeom(b, NULL);
        g->type = (mjtGeom)atoi(a[0].c_str());
        g->typeinertia = atoi(a[1].c_str()) ? mjINERTIA_SHELL : mjINERTIA_VOLUME;
        g->group = atoi(a[2].c_str());
        if (atoi(a[3].c_str())) g->mass = num(a[4]);
        g->density = num(a[5]);
        for (int k = 0; k < 3; k++) g->size[k] = num(a[6 + k]);
        for (int k = 0; k < 3; k++) g->pos[k] = num(a[9 + k]);
        for (int k = 0; k < 4; k++) g->quat[k] = num(a[12 + k]);
        g->contype = 0; g->conaffinity = 0;
        geoms.push_back(g);
      }
      compile_and_print(s, b, &geoms);
      mj_deleteSpec(s);
    } else if (op == "S") {
      size_t i = 3;
      bool bad = t.size() < 4;
      int mode = bad ? 0 : atoi(t[1].c_str()), L = bad ? 0 : atoi(t[2].c_str());
      mjSpec* s = mj_makeSpec();
      s->compiler.fusestatic = (mode == 1);
      mjsBody* cur = NULL;
      mjsBody* level0 = NULL;
      mjsBody* level1 = NULL;
      for (int k = 0; k < L && !bad; k++) {
        mjsBody* b;
        if (k == 0) { b = make_body(s, 1); level0 = b; }
        else {
          if (i + 7 > t.size()) { bad = true; break; }
          b = mjs_addBody(cur, NULL);
          char nm[16]; snprintf(nm, sizeof nm, "c%d", k); mjs_setName(b->element, nm);
          for (int j = 0; j < 3; j++) b->pos[j] = num(t[i + j]);
          for (int j = 0; j < 4; j++) b->quat[j] = num(t[i + 3 + j]);
          i += 7;
          if (k == 1) level1 = b;
        }
        if (i >= t.size()) { bad = true; break; }
        int n = atoi(t[i].c_str()); i += 1;
        if (i + 16 * (size_t)n > t.size()) { bad = true; break; }
        for (int gi = 0; gi < n; gi++, i += 16) {
          const std::string* a = &t[i];
          mjsGeom* g = mjs_addGeom(b, NULL);
          g->type = (mjtGeom)atoi(a[0].c_str());
          g->typeinertia = atoi(a[1].c_str()) ? mjINERTIA_SHELL : mjINERTIA_VOLUME;
          g->group = atoi(a[2].c_str());
          if (atoi(a[3].c_str())) g->mass = num(a[4]);
          g->density = num(a[5]);
          for (int j = 0; j < 3; j++) g->size[j] = num(a[6 + j]);
          for (int j = 0; j < 3; j++) g->pos[j] = num(a[9 + j]);
          for (int j = 0; j < 4; j++) g->quat[j] = num(a[12 + j]);
          g->contype = 0; g->conaffinity = 0;
        }
        cur = b;
      }
      if (bad || i != t.size()) { printf("err parse\n"); mj_deleteSpec(s); continue; }
      if (mode == 2 && level1) {
        mjsFrame* f = NULL;
        if (MJG_TRY) { f = mjs_bodyToFrame(&level1); MJG_END; }
        if (!f) { printf("err bodyToFrame %s\n", mjs_getError(s)); mj_deleteSpec(s); continue; }
      }
      mjModel* m = NULL;
      if (MJG_TRY) { m = mj_compile(s, NULL); MJG_END; }
      if (!m) {
        const char* e = mjs_getError(s);
        char msg[1024]; snprintf(msg, sizeof msg, "%s", e && e[0] ? e : mjg_last_error);
        for (char* q = msg; *q; q++) if (*q == '\n' || *q == '\r') *q = ' ';
        printf("err %s\n", msg);
      } else {
        printf("ok %d", (int)m->nbody - 1);
        for (int b = 1; b < m->nbody; b++) {
          printf(" %a", m->body_mass[b]);
          for (int j = 0; j < 3; j++) printf(" %a", m->body_ipos[3 * b + j]);
          for (int j = 0; j < 4; j++) printf(" %a", m->body_iquat[4 * b + j]);
          for (int j = 0; j < 3; j++) printf(" %a", m->body_inertia[3 * b + j]);
          for (int j = 0; j < 3; j++) printf(" %a", m->body_pos[3 * b + j]);
          for (int j = 0; j < 4; j++) printf(" %a", m->body_quat[4 * b + j]);
        }
        mjCBody* cb = static_cast<mjCBody*>(level0->element);
        printf(" F");
        for (int j = 0; j < 6; j++) printf(" %a", cb->fullinertia[j]);
        printf("\n");
        mj_deleteModel(m);
      }
      mj_deleteSpec(s);
    } else if (op == "M" || op == "K") {
      mjSpec* s = mj_makeSpec();
      mjsBody* b = make_body(s, 0);
      mjsMesh* me = mjs_addMesh(s, NULL);
      mjs_setName(me->element, "me");
      int mode; double density; double pos[3] = {0, 0, 0}, quat[4] = {1, 0, 0, 0};
      bool ok = true;
      if (op == "M") {
        if (t.size() < 12) { printf("err parse\n"); mj_deleteSpec(s); continue; }
        mode = atoi(t[1].c_str()); density = num(t[2]);
        for (int k = 0; k < 3; k++) pos[k] = num(t[3 + k]);
        for (int k = 0; k < 4; k++) quat[k] = num(t[6 + k]);
        int nv = atoi(t[10].c_str()), nf = atoi(t[11].c_str());
        if ((int)t.size() != 12 + 3 * nv + 3 * nf) { printf("err parse\n"); mj_deleteSpec(s); continue; }
        std::vector<float> v(3 * nv); std::vector<int> f(3 * nf);
        for (int k = 0; k < 3 * nv; k++) v[k] = (float)num(t[12 + k]);
        for (int k = 0; k < 3 * nf; k++) f[k] = atoi(t[12 + 3 * nv + k].c_str());
        mjs_setFloat(me->uservert, v.data(), 3 * nv);
        mjs_setInt(me->userface, f.data(), 3 * nf);
      } else {
        if (t.size() < 5) { printf("err parse\n"); mj_deleteSpec(s); continue; }
        int builtin = atoi(t[1].c_str()); mode = atoi(t[2].c_str()); density = num(t[3]);
        int np = atoi(t[4].c_str());
        std::vector<double> p(np > 0 ? np : 1);
        for (int k = 0; k < np; k++) p[k] = num(t[5 + k]);
        int rc = -1;
        if (MJG_TRY) { rc = mjs_makeMesh(me, (mjtMeshBuiltin)builtin, p.data(), np); MJG_END; }
        if (rc != 0) { const char* e = mjs_getError(s); printf("err makeMesh %s\n", e ? e : ""); ok = false; }
      }
      if (ok) {
        me->inertia = (mjtMeshInertia)mode;
        mjsGeom* g = mjs_addGeom(b, NULL);
        g->type = mjGEOM_MESH;
        mjs_setString(g->meshname, "me");
        g->density = density;
        for (int k = 0; k < 3; k++) g->pos[k] = pos[k];
        for (int k = 0; k < 4; k++) g->quat[k] = quat[k];
        g->contype = 0; g->conaffinity = 0;
        compile_and_print(s);
      }
      mj_deleteSpec(s);
    } else if (op == "G" && t.size() == 8) {
      double l[3], q[4], g[6];
      for (int k = 0; k < 3; k++) l[k] = num(t[1 + k]);
      for (int k = 0; k < 4; k++) q[k] = num(t[4 + k]);
      mjuu_globalinertia(g, l, q);
      printf("%a %a %a %a %a %a\n", g[0], g[1], g[2], g[3], g[4], g[5]);
    } else if (op == "O" && t.size() == 5) {
      double v[3], g[6];
      for (int k = 0; k < 3; k++) v[k] = num(t[2 + k]);
      mjuu_offcenter(g, num(t[1]), v);
      printf("%a %a %a %a %a %a\n", g[0], g[1], g[2], g[3], g[4], g[5]);
    } else if (op == "F" && t.size() == 7) {
      double f[6], q[4] = {0, 0, 0, 0}, in[3] = {0, 0, 0};
      for (int k = 0; k < 6; k++) f[k] = num(t[1 + k]);
      const char* e = mjuu_fullInertia(q, in, f);
      if (e) printf("err %s\n", e);
      else printf("ok %a %a %a %a %a %a %a\n", q[0], q[1], q[2], q[3], in[0], in[1], in[2]);
    } else {
      printf("err parse\n");
    }
    fflush(stdout);
  }
  return 0;
}
