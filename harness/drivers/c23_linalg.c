// C23 driver: calls the linear-algebra utilities of the working tree on the arguments read from
// stdin and prints every result (ints in decimal, doubles as hex).  The three translation units
// engine_util_blas.c, engine_util_sparse.c and engine_util_solve.c of the working tree are
// #included, so that the very same driver source can be compiled twice: once as is (scalar
// paths) and once with  -mavx -DmjUSEPLATFORMSIMD  (AVX paths of *_avx.h, mjUSEAVX).
// stdin : one call per line:  <op> <args...>        stdout: one line per call (or ERR)
#include <setjmp.h>
#include <stdio.h>
#include <stdlib.h>
#include <string.h>
#include <mujoco/mujoco.h>
#include "engine/engine_util_blas.c"
#include "engine/engine_util_sparse.c"
#include "engine/engine_util_solve.c"
#include "engine/engine_util_misc.h"

static jmp_buf env;
static void on_error(const char* msg) { (void)msg; longjmp(env, 1); }

#define MAXI 20000
#define MAXD 40000
static int ibuf[16][MAXI];
static mjtNum dbuf[16][MAXD];

static int rdi(int* x, int n) {
  if (n < 0 || n > MAXI) return 0;
  for (int i = 0; i < n; i++) if (scanf("%d", x+i) != 1) return 0;
  return 1;
}
static int rdd(mjtNum* x, int n) {
  if (n < 0 || n > MAXD) return 0;
  for (int i = 0; i < n; i++) {
    char tok[128];
    if (scanf("%127s", tok) != 1) return 0;
    x[i] = strtod(tok, NULL);
  }
  return 1;
}
static void pri(const int* x, int n) { for (int i = 0; i < n; i++) printf("%d ", x[i]); printf("| "); }
static void prd(const mjtNum* x, int n) { for (int i = 0; i < n; i++) printf("%a ", x[i]); printf("| "); }

// CSR matrix read into buffer slot k:  nr nc N rownnz[nr] rowadr[nr] colind[N] val[N]
typedef struct { int nr, nc, N; int *rownnz, *rowadr, *colind; mjtNum* val; } CSR;
static int rdcsr(CSR* s, int k) {
  if (scanf("%d %d %d", &s->nr, &s->nc, &s->N) != 3) return 0;
  s->rownnz = ibuf[3*k]; s->rowadr = ibuf[3*k+1]; s->colind = ibuf[3*k+2]; s->val = dbuf[k];
  return rdi(s->rownnz, s->nr) && rdi(s->rowadr, s->nr) && rdi(s->colind, s->N) && rdd(s->val, s->N);
}

static mjData* flag_d(mjData* d) { static int t = 0; t ^= 1; return t ? d : NULL; }   // alternate stack / heap scratch
static mjModel* gm = NULL;
static mjData* gd = NULL;
static mjData* get_data(void) {
  if (!gd) {
    mjSpec* sp = mj_makeSpec();
    sp->memory = 64*1024*1024;
    mjsBody* w = mjs_findBody(sp, "world");
    mjsBody* b = mjs_addBody(w, NULL);
    mjsGeom* g = mjs_addGeom(b, NULL);
    g->type = mjGEOM_SPHERE; g->size[0] = 0.1;
    mjs_addJoint(b, NULL)->type = mjJNT_SLIDE;
    gm = mj_compile(sp, NULL);
    if (!gm) return NULL;
    gd = mj_makeData(gm);
  }
  return gd;
}

int main(void) {
  char op[64];
  mju_user_error = on_error;
  while (scanf("%63s", op) == 1) {
    CSR A, B;
    int n, m, k, flag;
    if (setjmp(env)) { printf("ERR\n"); continue; }
    // ------------------------------------------------------------------ blas
    if (!strcmp(op, "dot")) {            // n a[n] b[n]
      if (scanf("%d", &n) != 1 || !rdd(dbuf[0], n) || !rdd(dbuf[1], n)) return 2;
      mjtNum r = mju_dot(dbuf[0], dbuf[1], n); prd(&r, 1);
    } else if (!strcmp(op, "vecop")) {   // n scl a[n] b[n]: scl add sub addTo subFrom addToScl addScl
      mjtNum scl;
      if (scanf("%d", &n) != 1 || !rdd(&scl, 1) || !rdd(dbuf[0], n) || !rdd(dbuf[1], n)) return 2;
      mju_scl(dbuf[2], dbuf[0], scl, n); prd(dbuf[2], n);
      mju_add(dbuf[2], dbuf[0], dbuf[1], n); prd(dbuf[2], n);
      mju_sub(dbuf[2], dbuf[0], dbuf[1], n); prd(dbuf[2], n);
      mju_copy(dbuf[2], dbuf[0], n); mju_addTo(dbuf[2], dbuf[1], n); prd(dbuf[2], n);
      mju_copy(dbuf[2], dbuf[0], n); mju_subFrom(dbuf[2], dbuf[1], n); prd(dbuf[2], n);
      mju_copy(dbuf[2], dbuf[0], n); mju_addToScl(dbuf[2], dbuf[1], scl, n); prd(dbuf[2], n);
      mju_addScl(dbuf[2], dbuf[0], dbuf[1], scl, n); prd(dbuf[2], n);
      mju_copy(dbuf[2], dbuf[0], n); mju_addToSclScl(dbuf[2], dbuf[1], scl, 0.5, n); prd(dbuf[2], n);
    } else if (!strcmp(op, "matop")) {   // nr nc c2 A[nr*nc] B[nc*c2] C[nr*c2] v[nc] w[nr] diag[nr]
      int nr, nc, c2;
      if (scanf("%d %d %d", &nr, &nc, &c2) != 3) return 2;
      mjtNum *MA = dbuf[0], *MB = dbuf[1], *MC = dbuf[2], *v = dbuf[3], *w = dbuf[4], *dg = dbuf[5], *r = dbuf[6];
      if (!rdd(MA, nr*nc) || !rdd(MB, nc*c2) || !rdd(MC, nr*c2) || !rdd(v, nc) || !rdd(w, nr) || !rdd(dg, nr)) return 2;
      mju_mulMatVec(r, MA, v, nr, nc); prd(r, nr);
      mju_mulMatTVec(r, MA, w, nr, nc); prd(r, nc);
      mju_mulMatMat(r, MA, MB, nr, nc, c2); prd(r, nr*c2);           // A*B
      mju_mulMatTMat(r, MA, MC, nr, nc, c2); prd(r, nc*c2);          // A'*C
      mju_transpose(dbuf[7], MB, nc, c2);                            // B' is c2 x nc
      mju_mulMatMatT(r, MA, dbuf[7], nr, nc, c2); prd(r, nr*c2);     // A*(B')' = A*B
      mju_transpose(r, MA, nr, nc); prd(r, nr*nc);
      mju_sqrMatTD(r, MA, dg, nr, nc); prd(r, nc*nc);
      mju_sqrMatTD(r, MA, NULL, nr, nc); prd(r, nc*nc);
      mjtNum q = nr == nc ? mju_mulVecMatVec(w, MA, v, nr) : 0; prd(&q, 1);
    }
    // ------------------------------------------------------------------ sparse
    else if (!strcmp(op, "d2s")) {       // nr nc cap mat[nr*nc]
      int nr, nc, cap;
      if (scanf("%d %d %d", &nr, &nc, &cap) != 3 || !rdd(dbuf[0], nr*nc)) return 2;
      for (int i = 0; i < nr; i++) { ibuf[0][i] = -7; ibuf[1][i] = -7; }
      int ret = mju_dense2sparse(dbuf[1], dbuf[0], nr, nc, ibuf[0], ibuf[1], ibuf[2], cap);
      pri(&ret, 1);
      if (!ret) {
        int tot = nr ? ibuf[1][nr-1] + ibuf[0][nr-1] : 0;
        pri(ibuf[0], nr); pri(ibuf[1], nr); pri(ibuf[2], tot); prd(dbuf[1], tot);
      }
    } else if (!strcmp(op, "s2d")) {     // CSR
      if (!rdcsr(&A, 0)) return 2;
      mju_sparse2dense(dbuf[8], A.val, A.nr, A.nc, A.rownnz, A.rowadr, A.colind); prd(dbuf[8], A.nr*A.nc);
    } else if (!strcmp(op, "mulMatVec")) {   // CSR vec[nc] super
      if (!rdcsr(&A, 0) || !rdd(dbuf[8], A.nc) || scanf("%d", &flag) != 1) return 2;
      int* super = NULL;
      if (flag) { super = ibuf[9]; mju_superSparse(A.nr, super, A.rownnz, A.rowadr, A.colind); }
      mju_mulMatVecSparse(dbuf[9], A.val, dbuf[8], A.nr, A.rownnz, A.rowadr, A.colind, super); prd(dbuf[9], A.nr);
    } else if (!strcmp(op, "mulMatTVec")) {  // CSR vec[nr]
      if (!rdcsr(&A, 0) || !rdd(dbuf[8], A.nr)) return 2;
      mju_mulMatTVecSparse(dbuf[9], A.val, dbuf[8], A.nr, A.nc, A.rownnz, A.rowadr, A.colind); prd(dbuf[9], A.nc);
    } else if (!strcmp(op, "dotSparse")) {   // nnz n val[nnz] ind[nnz] vec[n]
      if (scanf("%d %d", &k, &n) != 2 || !rdd(dbuf[0], k) || !rdi(ibuf[0], k) || !rdd(dbuf[1], n)) return 2;
      mjtNum r = mju_dotSparse(dbuf[0], dbuf[1], k, ibuf[0]); prd(&r, 1);
    } else if (!strcmp(op, "dotSparseX3")) { // nnz n v0[nnz] v1[nnz] v2[nnz] ind[nnz] vec[n]
      if (scanf("%d %d", &k, &n) != 2 || !rdd(dbuf[0], k) || !rdd(dbuf[1], k) || !rdd(dbuf[2], k) || !rdi(ibuf[0], k) || !rdd(dbuf[3], n)) return 2;
      mjtNum r[3]; mju_dotSparseX3(r, r+1, r+2, dbuf[0], dbuf[1], dbuf[2], dbuf[3], k, ibuf[0]); prd(r, 3);
    } else if (!strcmp(op, "dotSparse2")) {  // n1 n2 v1[n1] i1[n1] v2[n2] i2[n2]
      int n1, n2;
      if (scanf("%d %d", &n1, &n2) != 2 || !rdd(dbuf[0], n1) || !rdi(ibuf[0], n1) || !rdd(dbuf[1], n2) || !rdi(ibuf[1], n2)) return 2;
      mjtNum r = mju_dotSparse2(dbuf[0], ibuf[0], n1, dbuf[1], ibuf[1], n2); prd(&r, 1);
    } else if (!strcmp(op, "combine")) {     // a b n1 n2 dind[n1] dval[n1] sind[n2] sval[n2]
      mjtNum ab[2]; int n1, n2;
      if (!rdd(ab, 2) || scanf("%d %d", &n1, &n2) != 2 || !rdi(ibuf[0], n1) || !rdd(dbuf[0], n1) || !rdi(ibuf[1], n2) || !rdd(dbuf[1], n2)) return 2;
      int cnt = mju_combineSparseCount(n1, n2, ibuf[0], ibuf[1]);
      int nnz = mju_combineSparse(dbuf[0], dbuf[1], ab[0], ab[1], n1, n2, ibuf[0], ibuf[1]);
      pri(&cnt, 1); pri(&nnz, 1); pri(ibuf[0], nnz); prd(dbuf[0], nnz);
    } else if (!strcmp(op, "addToMat")) {    // CSR dst (uncompressed with room), CSR M
      if (!rdcsr(&A, 0) || !rdcsr(&B, 1)) return 2;
      mju_addToMatSparse(A.val, A.rownnz, A.rowadr, A.colind, A.nr, B.val, B.rownnz, B.rowadr, B.colind);
      pri(A.rownnz, A.nr); pri(A.rowadr, A.nr); pri(A.colind, A.N); prd(A.val, A.N);
    } else if (!strcmp(op, "compress")) {    // CSR minval
      mjtNum minval;
      if (!rdcsr(&A, 0) || !rdd(&minval, 1)) return 2;
      int ret = mju_compressSparse(A.val, A.nr, A.nc, A.rownnz, A.rowadr, A.colind, minval);
      pri(&ret, 1); pri(A.rownnz, A.nr); pri(A.rowadr, A.nr); pri(A.colind, A.N); prd(A.val, A.N);
    } else if (!strcmp(op, "transpose")) {   // CSR off   (off: mat/colind pointers are pre-offset by rowadr[0])
      if (!rdcsr(&A, 0)) return 2;
      int tot = 0; for (int r = 0; r < A.nr; r++) tot += A.rownnz[r];
      int off = A.nr ? A.rowadr[0] : 0;
      for (int i = 0; i < A.nc; i++) { ibuf[6][i] = -7; ibuf[7][i] = -7; ibuf[9][i] = -7; }
      mju_transposeSparse(dbuf[8], A.val + off, A.nr, A.nc, ibuf[6], ibuf[7], ibuf[8], ibuf[9], A.rownnz, A.rowadr, A.colind + off);
      if (A.nr && A.nc) { pri(ibuf[6], A.nc); pri(ibuf[7], A.nc); pri(ibuf[8], tot); prd(dbuf[8], tot); pri(ibuf[9], A.nc); }
      else printf("noop");
    } else if (!strcmp(op, "super")) {       // CSR
      if (!rdcsr(&A, 0)) return 2;
      mju_superSparse(A.nr, ibuf[9], A.rownnz, A.rowadr, A.colind); pri(ibuf[9], A.nr);
    } else if (!strcmp(op, "symops")) {      // CSR (lower triangular, diagonal last) vec[n] dense0[n*n]
      if (!rdcsr(&A, 0) || !rdd(dbuf[8], A.nr) || !rdd(dbuf[10], A.nr*A.nr)) return 2;
      n = A.nr;
      mju_mulSymVecSparse(dbuf[9], A.val, dbuf[8], n, A.rownnz, A.rowadr, A.colind); prd(dbuf[9], n);
      mju_sym2dense(dbuf[9], A.val, n, A.rownnz, A.rowadr, A.colind); prd(dbuf[9], n*n);
      mju_copy(dbuf[9], dbuf[10], n*n);
      mju_addToSymSparse(dbuf[9], A.val, n, A.rownnz, A.rowadr, A.colind, 1); prd(dbuf[9], n*n);
      mju_copy(dbuf[9], dbuf[10], n*n);
      mju_addToSymSparse(dbuf[9], A.val, n, A.rownnz, A.rowadr, A.colind, 0); prd(dbuf[9], n*n);
    } else if (!strcmp(op, "gather")) {      // n m ind[n] vec[m] res0[m]:  gather, gatherMasked, scatter into res0
      if (scanf("%d %d", &n, &m) != 2 || !rdi(ibuf[0], n) || !rdd(dbuf[0], m) || !rdd(dbuf[1], m)) return 2;
      int neg = 0; for (int i = 0; i < n; i++) if (ibuf[0][i] < 0) neg = 1;
      mju_gatherMasked(dbuf[2], dbuf[0], ibuf[0], n); prd(dbuf[2], n);
      if (!neg) {
        mju_gather(dbuf[2], dbuf[0], ibuf[0], n); prd(dbuf[2], n);
        mju_scatter(dbuf[1], dbuf[0], ibuf[0], n); prd(dbuf[1], m);
      }
    } else if (!strcmp(op, "sqrSparse")) {   // CSR diag[nr] usediag : sparse M'*diag*M (new and legacy row-based)
      if (!rdcsr(&A, 0) || !rdd(dbuf[8], A.nr) || scanf("%d", &flag) != 1) return 2;
      mjData* d = get_data(); if (!d) return 3;
      int nr = A.nr, nc = A.nc;
      // transpose with supernodes
      int *Tnnz = ibuf[6], *Tadr = ibuf[7], *Tind = ibuf[8], *Tsup = ibuf[9], *sup = ibuf[10];
      mju_superSparse(nr, sup, A.rownnz, A.rowadr, A.colind);
      mju_transposeSparse(dbuf[9], A.val, nr, nc, Tnnz, Tadr, Tind, Tsup, A.rownnz, A.rowadr, A.colind);
      int *Rnnz = ibuf[11], *Radr = ibuf[12], *Rind = ibuf[13], *diagind = ibuf[14];
      mju_sqrMatTDUncompressedInit(Radr, nc);
      mju_sqrMatTDSparse(dbuf[10], A.val, dbuf[9], flag ? dbuf[8] : NULL, nr, nc, Rnnz, Radr, Rind,
                         A.rownnz, A.rowadr, A.colind, sup, Tnnz, Tadr, Tind, Tsup, d, diagind);
      mju_sparse2dense(dbuf[11], dbuf[10], nc, nc, Rnnz, Radr, Rind); prd(dbuf[11], nc*nc);
      mju_sqrMatTDUncompressedInit(Radr, nc);
      mju_sqrMatTDSparse_row(dbuf[10], A.val, dbuf[9], flag ? dbuf[8] : NULL, nr, nc, Rnnz, Radr, Rind,
                             A.rownnz, A.rowadr, A.colind, sup, Tnnz, Tadr, Tind, Tsup, d, NULL);
      mju_sparse2dense(dbuf[11], dbuf[10], nc, nc, Rnnz, Radr, Rind); prd(dbuf[11], nc*nc);
      // count (lower / with upper)
      int tot0 = mju_sqrMatTDSparseCount(Rnnz, Radr, nc, A.rownnz, A.rowadr, A.colind, Tnnz, Tadr, Tind, Tsup, d, 0);
      pri(&tot0, 1); pri(Rnnz, nc);
      int tot1 = mju_sqrMatTDSparseCount(Rnnz, Radr, nc, A.rownnz, A.rowadr, A.colind, Tnnz, Tadr, Tind, Tsup, d, 1);
      pri(&tot1, 1); pri(Rnnz, nc);
    }
    else if (!strcmp(op, "addToSparseMat")) {   // n nrow scl dnnz snnz dind[] sind[] dst[nrow*dnnz] src[nrow*snnz]
      int nrow, dn, sn; mjtNum scl;
      if (scanf("%d %d", &n, &nrow) != 2 || !rdd(&scl, 1) || scanf("%d %d", &dn, &sn) != 2 || !rdi(ibuf[0], dn) || !rdi(ibuf[1], sn) ||
          !rdd(dbuf[0], nrow*dn) || !rdd(dbuf[1], nrow*sn)) return 2;
      int nnz = mju_addToSparseMat(dbuf[0], dbuf[1], n, nrow, scl, dn, sn, ibuf[0], ibuf[1], dbuf[2], ibuf[2]);
      pri(&nnz, 1); pri(ibuf[0], nnz); prd(dbuf[0], nrow*nnz);
    } else if (!strcmp(op, "addChains")) {      // n n1 n2 c1[] c2[]
      int n1, n2;
      if (scanf("%d %d %d", &n, &n1, &n2) != 3 || !rdi(ibuf[0], n1) || !rdi(ibuf[1], n2)) return 2;
      int NV = mju_addChains(ibuf[2], n, n1, n2, ibuf[0], ibuf[1]); pri(&NV, 1); pri(ibuf[2], NV);
      int NM = mj_mergeSorted(ibuf[3], ibuf[0], n1, ibuf[1], n2); pri(&NM, 1); pri(ibuf[3], NM);
    } else if (!strcmp(op, "inc")) {            // a b n dnnz snnz dind[] dval[] sind[] sval[]
      mjtNum ab[2]; int dn, sn;
      if (!rdd(ab, 2) || scanf("%d %d %d", &n, &dn, &sn) != 3 || !rdi(ibuf[0], dn) || !rdd(dbuf[0], dn) || !rdi(ibuf[1], sn) || !rdd(dbuf[1], sn)) return 2;
      mju_copy(dbuf[2], dbuf[0], dn);
      mju_combineSparseInc(dbuf[2], dbuf[1], n, ab[0], ab[1], dn, sn, ibuf[0], ibuf[1]); prd(dbuf[2], dn);
      mju_copy(dbuf[2], dbuf[0], dn);
      mju_addToSclSparseInc(dbuf[2], dbuf[1], dn, ibuf[0], sn, ibuf[1], ab[1]); prd(dbuf[2], dn);
    } else if (!strcmp(op, "copyzero")) {       // CSR init[N] nsel sel[nsel]
      int nsel;
      if (!rdcsr(&A, 0) || !rdd(dbuf[8], A.N) || scanf("%d", &nsel) != 1 || !rdi(ibuf[9], nsel)) return 2;
      mju_copy(dbuf[9], dbuf[8], A.N);
      mju_copySparse(dbuf[9], A.val, A.rownnz, A.rowadr, ibuf[9], nsel); prd(dbuf[9], A.N);
      mju_copy(dbuf[9], dbuf[8], A.N);
      mju_zeroSparse(dbuf[9], A.rownnz, A.rowadr, ibuf[9], nsel); prd(dbuf[9], A.N);
    } else if (!strcmp(op, "blockdiag")) {      // nr nc nb ncres perm_r[nr] perm_c[nc] bnr[nb] bnc[nb] br[nb] bc[nb] mat[nr*nc]
      int nr, nc, nb, ncres;
      if (scanf("%d %d %d %d", &nr, &nc, &nb, &ncres) != 4 || !rdi(ibuf[0], nr) || !rdi(ibuf[1], nc) || !rdi(ibuf[2], nb) || !rdi(ibuf[3], nb) ||
          !rdi(ibuf[4], nb) || !rdi(ibuf[5], nb) || !rdd(dbuf[0], nr*nc)) return 2;
      for (int i = 0; i < ncres*nr; i++) dbuf[1][i] = -77;
      mju_blockDiag(dbuf[1], dbuf[0], nc, ncres, nb, ibuf[0], ibuf[1], ibuf[2], ibuf[3], ibuf[4], ibuf[5]); prd(dbuf[1], ncres*nr);
    } else if (!strcmp(op, "blockdiagsp")) {    // CSR nb perm_r[nr] permc_fwd[nc] br[nb] bc[nb]  (second value array = 2*val)
      int nb;
      if (!rdcsr(&A, 0) || scanf("%d", &nb) != 1 || !rdi(ibuf[9], A.nr) || !rdi(ibuf[10], A.nc) || !rdi(ibuf[11], nb) || !rdi(ibuf[12], nb)) return 2;
      for (int i = 0; i < A.N; i++) dbuf[8][i] = 2*A.val[i];
      mju_blockDiagSparse(dbuf[9], ibuf[6], ibuf[7], ibuf[8], A.val, A.rownnz, A.rowadr, A.colind, A.nr, nb,
                          ibuf[9], ibuf[10], ibuf[11], ibuf[12], dbuf[10], dbuf[8]);
      int tot = A.nr ? ibuf[7][A.nr-1] + ibuf[6][A.nr-1] : 0;
      pri(ibuf[6], A.nr); pri(ibuf[7], A.nr); pri(ibuf[8], tot); prd(dbuf[9], tot); prd(dbuf[10], tot);
    } else if (!strcmp(op, "maps")) {           // CSR res, CSR src : mju_sparseMap (pattern(res) subset of pattern(src), sorted)
      if (!rdcsr(&A, 0) || !rdcsr(&B, 1)) return 2;
      for (int i = 0; i < A.N; i++) ibuf[9][i] = -5;
      mju_sparseMap(ibuf[9], A.nr, A.rowadr, A.rownnz, A.colind, B.rowadr, B.rownnz, B.colind); pri(ibuf[9], A.N);
    } else if (!strcmp(op, "symmap")) {         // CSR res (symmetric pattern, compact), CSR src (lower, sorted): mju_lower2SymMap
      if (!rdcsr(&A, 0) || !rdcsr(&B, 1)) return 2;
      mju_lower2SymMap(ibuf[9], A.nr, A.rowadr, A.rownnz, A.colind, B.rowadr, B.rownnz, B.colind, ibuf[10]); pri(ibuf[9], A.N);
    } else if (!strcmp(op, "cholsym")) {        // CSR H (full symmetric SPD, sorted, compact) mindiag
      mjtNum mind;
      if (!rdcsr(&A, 0) || !rdd(&mind, 1)) return 2;
      mjData* d = get_data(); if (!d) return 3;
      n = A.nr;
      int *Lnnz = ibuf[6], *Ladr = ibuf[7], *Lind = ibuf[8], *Tnnz = ibuf[9], *Tadr = ibuf[10], *Tind = ibuf[11], *Tmap = ibuf[12];
      int nnz = mju_cholFactorSymbolic(NULL, Lnnz, Ladr, NULL, Tnnz, Tadr, NULL, A.rownnz, A.rowadr, A.colind, n, flag_d(d));
      if (nnz > MAXI) return 2;
      int nnz2 = mju_cholFactorSymbolic(Lind, Lnnz, Ladr, Tind, Tnnz, Tadr, Tmap, A.rownnz, A.rowadr, A.colind, n, NULL);
      (void)nnz2;
      for (int i = 0; i < nnz; i++) dbuf[9][i] = 0;
      int rank = mju_cholFactorNumeric(dbuf[9], n, mind, Lnnz, Ladr, Lind, Tnnz, Tadr, Tind, Tmap, A.val, A.rownnz, A.rowadr, A.colind, d);
      pri(&rank, 1); pri(&nnz, 1); pri(Lnnz, n); pri(Ladr, n); pri(Lind, nnz);
      mju_sparse2dense(dbuf[10], dbuf[9], n, n, Lnnz, Ladr, Lind); prd(dbuf[10], n*n);
      // LT structure must be the transpose of L and LT_map must point at the matching L entries
      int okT = 1;
      for (int r = 0; r < n; r++) for (int k = 0; k < Tnnz[r]; k++) {
        int c = Tind[Tadr[r]+k], li = Tmap[Tadr[r]+k];
        if (c < 0 || c >= n || li < Ladr[c] || li >= Ladr[c] + Lnnz[c] || Lind[li] != r) okT = 0;
      }
      pri(&okT, 1); pri(Tnnz, n);
    }
    // ------------------------------------------------------------------ band
    else if (!strcmp(op, "band2dense")) {    // ntotal nband ndense sym band[nB]
      int nt, nb, nd, sym;
      if (scanf("%d %d %d %d", &nt, &nb, &nd, &sym) != 4) return 2;
      int nB = (nt-nd)*nb + nd*nt;
      if (!rdd(dbuf[0], nB)) return 2;
      mju_band2Dense(dbuf[1], dbuf[0], nt, nb, nd, (mjtBool)sym); prd(dbuf[1], nt*nt);
      for (int i = 0; i < nt; i++) ibuf[0][i] = mju_bandDiag(i, nt, nb, nd);
      pri(ibuf[0], nt);
    } else if (!strcmp(op, "dense2band")) {  // ntotal nband ndense dense[nt*nt] init[nB]
      int nt, nb, nd;
      if (scanf("%d %d %d", &nt, &nb, &nd) != 3) return 2;
      int nB = (nt-nd)*nb + nd*nt;
      if (!rdd(dbuf[0], nt*nt) || !rdd(dbuf[1], nB)) return 2;
      mju_dense2Band(dbuf[1], dbuf[0], nt, nb, nd); prd(dbuf[1], nB);
    } else if (!strcmp(op, "bandchol")) {    // ntotal nband ndense nvec diagadd diagmul band[nB] vec[nt*nvec]
      int nt, nb, nd, nv; mjtNum dd[2];
      if (scanf("%d %d %d %d", &nt, &nb, &nd, &nv) != 4 || !rdd(dd, 2)) return 2;
      int nB = (nt-nd)*nb + nd*nt;
      if (!rdd(dbuf[0], nB) || !rdd(dbuf[1], nt*nv)) return 2;
      mju_bandMulMatVec(dbuf[2], dbuf[0], dbuf[1], nt, nb, nd, nv, 1); prd(dbuf[2], nt*nv);
      mju_bandMulMatVec(dbuf[2], dbuf[0], dbuf[1], nt, nb, nd, nv, 0); prd(dbuf[2], nt*nv);
      mjtNum mind = mju_cholFactorBand(dbuf[0], nt, nb, nd, dd[0], dd[1]); prd(&mind, 1); prd(dbuf[0], nB);
      if (mind > 0) { mju_cholSolveBand(dbuf[2], dbuf[0], dbuf[1], nt, nb, nd); prd(dbuf[2], nt); }
    }
    // ------------------------------------------------------------------ dense factorizations
    else if (!strcmp(op, "cholFactor")) {    // n mindiag mat[n*n]
      mjtNum mind;
      if (scanf("%d", &n) != 1 || !rdd(&mind, 1) || !rdd(dbuf[0], n*n)) return 2;
      int rank = mju_cholFactor(dbuf[0], n, mind); pri(&rank, 1); prd(dbuf[0], n*n);
    } else if (!strcmp(op, "cholSolve")) {   // n alias mat[n*n] vec[n]
      if (scanf("%d %d", &n, &flag) != 2 || !rdd(dbuf[0], n*n) || !rdd(dbuf[1], n)) return 2;
      if (flag) { mju_cholSolve(dbuf[1], dbuf[0], dbuf[1], n); prd(dbuf[1], n); }
      else { mju_cholSolve(dbuf[2], dbuf[0], dbuf[1], n); prd(dbuf[2], n); }
    } else if (!strcmp(op, "cholUpdate")) {  // n plus mat[n*n] x[n]
      if (scanf("%d %d", &n, &flag) != 2 || !rdd(dbuf[0], n*n) || !rdd(dbuf[1], n)) return 2;
      int rank = mju_cholUpdate(dbuf[0], dbuf[1], n, flag); pri(&rank, 1); prd(dbuf[0], n*n); prd(dbuf[1], n);
    } else if (!strcmp(op, "LU")) {          // n A[n*n] b[n]
      if (scanf("%d", &n) != 1 || !rdd(dbuf[0], n*n) || !rdd(dbuf[1], n)) return 2;
      int ok = mju_factorLU(dbuf[0], n, ibuf[0]); pri(&ok, 1);
      if (ok) { pri(ibuf[0], n); prd(dbuf[0], n*n); mju_solveLU(dbuf[2], dbuf[0], dbuf[1], ibuf[0], n); prd(dbuf[2], n); }
    } else if (!strcmp(op, "LU6")) {         // A[36] b[6]
      if (!rdd(dbuf[0], 36) || !rdd(dbuf[1], 6)) return 2;
      mju_copy(dbuf[3], dbuf[0], 36);
      int ok = mju_factorLU6(dbuf[0], ibuf[0]); pri(&ok, 1);
      int ok2 = mju_factorLU(dbuf[3], 6, ibuf[1]); pri(&ok2, 1);
      if (ok) { pri(ibuf[0], 6); prd(dbuf[0], 36); mju_solveLU6(dbuf[2], dbuf[0], dbuf[1], ibuf[0]); prd(dbuf[2], 6); }
      if (ok2) { pri(ibuf[1], 6); prd(dbuf[3], 36); }
    } else if (!strcmp(op, "solve3")) {      // A[9] b[3]
      if (!rdd(dbuf[0], 9) || !rdd(dbuf[1], 3)) return 2;
      mju_solve3(dbuf[2], dbuf[0], dbuf[1]); prd(dbuf[2], 3);
    } else if (!strcmp(op, "cholSparse")) {  // CSR (lower-triangular, uncompressed with room) mindiag vec[n]
      mjtNum mind;
      if (!rdcsr(&A, 0) || !rdd(&mind, 1) || !rdd(dbuf[8], A.nr)) return 2;
      n = A.nr;
      int rank = mju_cholFactorSparse(A.val, n, mind, A.rownnz, A.rowadr, A.colind, NULL); pri(&rank, 1);
      mju_sparse2dense(dbuf[9], A.val, n, n, A.rownnz, A.rowadr, A.colind); prd(dbuf[9], n*n);
      mju_cholSolveSparse(dbuf[10], A.val, dbuf[8], n, A.rownnz, A.rowadr, A.colind); prd(dbuf[10], n);
    } else if (!strcmp(op, "cholUpdateSparse")) {  // CSR (factor L, lower-triangular) plus xnnz xind[] xval[]
      int xnnz;
      if (!rdcsr(&A, 0) || scanf("%d %d", &flag, &xnnz) != 2 || !rdi(ibuf[9], xnnz) || !rdd(dbuf[8], xnnz)) return 2;
      mjData* d = get_data(); if (!d) return 3;
      n = A.nr;
      int rank = mju_cholUpdateSparse(A.val, dbuf[8], n, flag, A.rownnz, A.rowadr, A.colind, xnnz, ibuf[9], d); pri(&rank, 1);
      mju_sparse2dense(dbuf[9], A.val, n, n, A.rownnz, A.rowadr, A.colind); prd(dbuf[9], n*n);
    } else if (!strcmp(op, "LUSparse")) {    // CSR (square, tree pattern) useindex index[n] vec[n]
      if (!rdcsr(&A, 0) || scanf("%d", &flag) != 1 || !rdi(ibuf[9], A.nr) || !rdd(dbuf[8], A.nr)) return 2;
      n = A.nr;
      int* diag = ibuf[10];
      for (int i = 0; i < n; i++) { diag[i] = -1; for (int j = 0; j < A.rownnz[i]; j++) if (A.colind[A.rowadr[i]+j] == i) diag[i] = j; }
      mju_factorLUSparse(A.val, n, ibuf[11], A.rownnz, A.rowadr, A.colind, flag ? ibuf[9] : NULL);
      prd(A.val, A.N);
      mju_solveLUSparse(dbuf[9], A.val, dbuf[8], n, A.rownnz, A.rowadr, diag, A.colind, flag ? ibuf[9] : NULL); prd(dbuf[9], n);
    }
    // ------------------------------------------------------------------ eigen / QP (oracle only)
    else if (!strcmp(op, "eig3")) {          // mat[9]
      if (!rdd(dbuf[0], 9)) return 2;
      int it = mju_eig3(dbuf[1], dbuf[2], dbuf[3], dbuf[0]); pri(&it, 1); prd(dbuf[1], 3); prd(dbuf[2], 9); prd(dbuf[3], 4);
    } else if (!strcmp(op, "QCQP")) {        // n r A[n*n] b[n] d[n]
      mjtNum r;
      if (scanf("%d", &n) != 1 || !rdd(&r, 1) || !rdd(dbuf[0], n*n) || !rdd(dbuf[1], n) || !rdd(dbuf[2], n)) return 2;
      int act = mju_QCQP(dbuf[3], dbuf[0], dbuf[1], dbuf[2], r, n); pri(&act, 1); prd(dbuf[3], n);
      if (n == 2) { act = mju_QCQP2(dbuf[3], dbuf[0], dbuf[1], dbuf[2], r); pri(&act, 1); prd(dbuf[3], n); }
      if (n == 3) { act = mju_QCQP3(dbuf[3], dbuf[0], dbuf[1], dbuf[2], r); pri(&act, 1); prd(dbuf[3], n); }
    } else if (!strcmp(op, "boxQP")) {       // n bounds(0 none,1 lower,2 upper,3 both) H[n*n] g[n] lower[n] upper[n] res0[n]
      int bnd;
      if (scanf("%d %d", &n, &bnd) != 2 || !rdd(dbuf[0], n*n) || !rdd(dbuf[1], n) || !rdd(dbuf[2], n) || !rdd(dbuf[3], n) || !rdd(dbuf[4], n)) return 2;
      if (n*(n+7) > MAXD) return 2;
      int nfree = mju_boxQP(dbuf[4], dbuf[5], ibuf[0], dbuf[0], dbuf[1], n, (bnd & 1) ? dbuf[2] : NULL, (bnd & 2) ? dbuf[3] : NULL);
      pri(&nfree, 1); prd(dbuf[4], n);
      if (nfree > 0) { pri(ibuf[0], nfree); prd(dbuf[5], nfree*nfree); }
    } else {
      fprintf(stderr, "unknown op %s\n", op);
      return 2;
    }
    printf("\n");
  }
  return 0;
}
