// C39 driver: runs operation sequences on the VFS of the working tree through the public C API only
// (mj_defaultVFS / mj_addBufferVFS / mj_addFileVFS / mj_deleteFileVFS / mj_containsBufferVFS /
//  mj_containsFileVFS / mj_deleteVFS and mju_openResource / mju_readResource / mju_closeResource).
//
// argv[1] = directory to chdir into (contains the on-disk files used by mj_addFileVFS and reached
//           by the default file provider).
// stdin:
//   U k name*k                 probe universe (hex-encoded names), once, first line
//   n op*n                     one case per line; every string is hex encoded, "-" = empty string,
//                              "~" = NULL pointer (directory arguments only)
//     B name bytes             mj_addBufferVFS
//     F dir filename           mj_addFileVFS
//     D name                   mj_deleteFileVFS
//     C name                   mj_containsBufferVFS
//     E dir filename           mj_containsFileVFS
//     O dir name               mju_openResource + mju_readResource + mju_closeResource
//     Z                        mj_deleteVFS + mj_defaultVFS
// stdout, one line per case; for every op:
//     R code                                 (B F D C E Z(code 0))
//     R opened [nbytes hexbytes hexname]     (O)
//   followed by the probe dump:  P { c o [n hexbytes] }*k ;   c = containsBuffer(name),
//   o = open("", name) succeeded, then the bytes read
#include <stdio.h>
#include <stdlib.h>
#include <string.h>
#include <unistd.h>
#include <mujoco/mujoco.h>

#define MAXU 64
static char* uni[MAXU]; static int nuni = 0;

static char* unhex(const char* h, int* n) {
  if (!strcmp(h, "-")) { char* s = calloc(1, 1); if (n) *n = 0; return s; }
  if (!strcmp(h, "~")) { if (n) *n = -1; return NULL; }
  int len = (int)strlen(h) / 2; char* s = malloc(len + 1);
  for (int i = 0; i < len; i++) { unsigned v; sscanf(h + 2 * i, "%2x", &v); s[i] = (char)v; }
  s[len] = 0; if (n) *n = len; return s;
}
static void puthex(const unsigned char* b, int n) {
  if (n == 0) { printf("-"); return; }
  for (int i = 0; i < n; i++) printf("%02x", b[i]);
}

static void do_open(mjVFS* vfs, const char* dir, const char* name, int with_name) {
  char err[256];
  mjResource* r = mju_openResource(dir, name, vfs, err, sizeof(err));
  if (!r) { printf("0 "); return; }
  const void* buf = NULL;
  int n = mju_readResource(r, &buf);
  printf("1 %d ", n);
  puthex((const unsigned char*)buf, n > 0 ? n : 0);
  if (with_name) { printf(" "); puthex((const unsigned char*)r->name, (int)strlen(r->name)); }
  printf(" ");
  mju_closeResource(r);
}

int main(int argc, char** argv) {
  if (argc > 1 && chdir(argv[1]) != 0) { perror("chdir"); return 3; }
  static char line[1 << 16];
  while (fgets(line, sizeof(line), stdin)) {
    char* save = NULL; char* tok = strtok_r(line, " \n", &save);
    if (!tok) continue;
    if (!strcmp(tok, "U")) {
      int k = atoi(strtok_r(NULL, " \n", &save)); nuni = 0;
      for (int i = 0; i < k && i < MAXU; i++) uni[nuni++] = unhex(strtok_r(NULL, " \n", &save), NULL);
      continue;
    }
    int n = atoi(tok);
    mjVFS vfs; mj_defaultVFS(&vfs);
    for (int i = 0; i < n; i++) {
      char* op = strtok_r(NULL, " \n", &save); if (!op) return 2;
      printf("R ");
      switch (op[0]) {
        case 'B': { int nb; char* name = unhex(strtok_r(NULL, " \n", &save), NULL); char* b = unhex(strtok_r(NULL, " \n", &save), &nb);
                    printf("%d ", mj_addBufferVFS(&vfs, name, b, nb)); free(name); free(b); break; }
        case 'F': { char* d = unhex(strtok_r(NULL, " \n", &save), NULL); char* f = unhex(strtok_r(NULL, " \n", &save), NULL);
                    printf("%d ", mj_addFileVFS(&vfs, d, f)); free(d); free(f); break; }
        case 'D': { char* name = unhex(strtok_r(NULL, " \n", &save), NULL); printf("%d ", mj_deleteFileVFS(&vfs, name)); free(name); break; }
        case 'C': { char* name = unhex(strtok_r(NULL, " \n", &save), NULL); printf("%d ", mj_containsBufferVFS(&vfs, name)); free(name); break; }
        case 'E': { char* d = unhex(strtok_r(NULL, " \n", &save), NULL); char* f = unhex(strtok_r(NULL, " \n", &save), NULL);
                    printf("%d ", mj_containsFileVFS(&vfs, d, f)); free(d); free(f); break; }
        case 'O': { char* d = unhex(strtok_r(NULL, " \n", &save), NULL); char* f = unhex(strtok_r(NULL, " \n", &save), NULL);
                    do_open(&vfs, d, f, 1); free(d); free(f); break; }
        case 'Z': mj_deleteVFS(&vfs); mj_defaultVFS(&vfs); printf("0 "); break;
        default: return 2;
      }
      printf("P ");
      for (int u = 0; u < nuni; u++) { printf("%d ", mj_containsBufferVFS(&vfs, uni[u])); do_open(&vfs, "", uni[u], 0); }
      printf("; ");
    }
    mj_deleteVFS(&vfs);
    printf("\n"); fflush(stdout);
  }
  return 0;
}
