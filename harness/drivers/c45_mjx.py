"""C45 MJX driver: gradients of the working tree's MJX (float64, CPU).  argv: <repo>; stdin: JSON {"jobs": [...]}; stdout JSON.

jobs:
  {"op":"cyl", "cases":[[x0,x1,x2,r,h, v0,v1,v2]..]}
      -> for each case: primal collision_sdf._cylinder(x, size), the custom rule's gradient _cylinder_grad(x, size), the tangent
         jax.jvp gives along v (x tangent) and along the two size directions, and central finite differences of the primal along v
         and along the size directions (step 1e-6)
  {"op":"guards", "cases":[[a,b,c]..]}
      -> math.norm / normalize_with_norm / safe_div on the vector (a,b,c): values, jax.grad of norm, jax.jacfwd of
         normalize_with_norm's first output, grad of safe_div(a, b) wrt (a, b)
  {"op":"pipeline", "xml":.., "states":[{"qpos","qvel","ctrl"}], "fn":"forward"|"step", "nprobe":k, "seed":s}
      -> scalar probes L = w . out(qpos, qvel, ctrl) (out = qacc for forward, next qpos/qvel for step; w random): jax.grad wrt
         qpos, qvel, ctrl vs central finite differences (tangent-space perturbation for quaternions is NOT used: qpos is perturbed
         coordinate-wise and MJX normalises quaternions itself), with the finiteness of every gradient entry."""
import json, os, sys, traceback

sys.path.insert(0, os.path.dirname(os.path.abspath(__file__)))
import c44_mjxenv

repo = sys.argv[1]
jax, mujoco, mjx = c44_mjxenv.load(repo)
import numpy as np
import jax.numpy as jp
from mujoco.mjx._src import collision_sdf as sdf, math as xmath

F64 = np.float64


def job_cyl(j):
    a = np.array(j["cases"], F64).reshape(-1, 8)
    x, size, v = jp.asarray(a[:, 0:3]), jp.asarray(a[:, 3:5]), jp.asarray(a[:, 5:8])

    def one(x, s, v):
        s3 = jp.concatenate([s, jp.zeros(1)])
        p = sdf._cylinder(x, s3)
        g = sdf._cylinder_grad(x, s3)
        _, tx = jax.jvp(sdf._cylinder, (x, s3), (v, jp.zeros(3)))
        _, tr = jax.jvp(sdf._cylinder, (x, s3), (jp.zeros(3), jp.array([1.0, 0.0, 0.0])))
        _, th = jax.jvp(sdf._cylinder, (x, s3), (jp.zeros(3), jp.array([0.0, 1.0, 0.0])))
        gx = jax.grad(sdf._cylinder)(x, s3)
        eps = 1e-6
        fdv = (sdf._cylinder(x + eps * v, s3) - sdf._cylinder(x - eps * v, s3)) / (2 * eps)
        fdr = (sdf._cylinder(x, s3 + eps * jp.array([1.0, 0, 0])) - sdf._cylinder(x, s3 - eps * jp.array([1.0, 0, 0]))) / (2 * eps)
        fdh = (sdf._cylinder(x, s3 + eps * jp.array([0, 1.0, 0])) - sdf._cylinder(x, s3 - eps * jp.array([0, 1.0, 0]))) / (2 * eps)
        return jp.concatenate([p[None], g, tx[None], tr[None], th[None], gx, fdv[None], fdr[None], fdh[None]])

    out = jax.jit(jax.vmap(one))(x, size, v)
    return {"out": np.asarray(out, F64).tolist(),
            "layout": ["primal", "grad0", "grad1", "grad2", "jvp_x", "jvp_radius", "jvp_halflength", "jaxgrad0", "jaxgrad1", "jaxgrad2", "fd_x", "fd_radius", "fd_halflength"]}


def job_guards(j):
    a = jp.asarray(np.array(j["cases"], F64).reshape(-1, 3))

    def one(x):
        n = xmath.norm(x)
        gn = jax.grad(xmath.norm)(x)
        y, n2 = xmath.normalize_with_norm(x)
        jy = jax.jacfwd(lambda z: xmath.normalize_with_norm(z)[0])(x)
        sd = xmath.safe_div(x[0], x[1])
        gsd = jax.grad(lambda z: xmath.safe_div(z[0], z[1]))(x)
        return jp.concatenate([n[None], gn, y, n2[None], jy.reshape(-1), sd[None], gsd[:2]])

    out = jax.jit(jax.vmap(one))(a)
    return {"out": np.asarray(out, F64).tolist(),
            "layout": ["norm", "dnorm0..2", "normalized0..2", "norm2", "jac 9", "safe_div", "dsafe_div/da", "dsafe_div/db"]}


PARAM_FIELDS = ["body_mass", "body_inertia", "body_pos", "body_quat", "body_ipos", "body_iquat", "body_gravcomp", "jnt_pos", "jnt_axis", "jnt_stiffness",
                "qpos_spring", "dof_damping", "dof_armature", "actuator_gainprm", "actuator_biasprm", "actuator_gear", "tendon_stiffness", "tendon_damping",
                "tendon_lengthspring", "site_pos", "opt.gravity", "opt.density", "opt.viscosity", "opt.wind", "opt.timestep"]


def get_param(mx, name):
    return getattr(mx.opt, name[4:]) if name.startswith("opt.") else getattr(mx, name)


def with_params(mx, params):
    top = {k: v for k, v in params.items() if not k.startswith("opt.")}
    opt = {k[4:]: v for k, v in params.items() if k.startswith("opt.")}
    if opt:
        top["opt"] = mx.opt.replace(**opt)
    return mx.replace(**top)


def job_pipeline(j):
    m = mujoco.MjModel.from_xml_string(j["xml"])
    try:
        mx = mjx.put_model(m)
    except NotImplementedError as e:
        return {"notimpl": str(e)[:200]}
    dx0 = mjx.make_data(m)
    fn = j["fn"]
    rng = np.random.default_rng(j["seed"])
    nout = m.nv if fn == "forward" else m.nq + m.nv
    W = jp.asarray(rng.uniform(-1, 1, (j["nprobe"], nout)))
    # real-valued model parameters that are differentiated too
    pnames = []
    if j.get("params"):
        for name in PARAM_FIELDS:
            try:
                v = get_param(mx, name)
            except AttributeError:
                continue
            if isinstance(v, (jax.Array, np.ndarray)) and np.asarray(v).size and np.issubdtype(np.asarray(v).dtype, np.floating):
                pnames.append(name)
    p0 = {k: jp.asarray(np.asarray(get_param(mx, k), F64)) for k in pnames}

    def outputs(qpos, qvel, ctrl, params):
        mm = with_params(mx, params) if params else mx
        d = dx0.replace(qpos=qpos, qvel=qvel, ctrl=ctrl)
        if fn == "forward":
            return mjx.forward(mm, d).qacc
        r = mjx.step(mm, d)
        return jp.concatenate([r.qpos, r.qvel])

    def probes(qpos, qvel, ctrl, params):
        return W @ outputs(qpos, qvel, ctrl, params)

    jac = jax.jit(jax.jacrev(probes, argnums=(0, 1, 2, 3)))
    jfw = jax.jit(jax.jacfwd(probes, argnums=(0, 1, 2, 3)))
    pj = jax.jit(probes)
    res = []
    for s in j["states"]:
        q, v, u = (jp.asarray(np.array(s[k], F64)) for k in ("qpos", "qvel", "ctrl"))
        Jr4, Jf4 = jac(q, v, u, p0), jfw(q, v, u, p0)
        Jr = [np.asarray(x, F64) for x in Jr4[:3]]
        Jf = [np.asarray(x, F64) for x in Jf4[:3]]
        args = [np.array(s[k], F64) for k in ("qpos", "qvel", "ctrl")]
        eps = j.get("eps", 1e-6)
        FD = []
        for ai in range(3):
            cols = []
            for k in range(args[ai].size):
                ap = [x.copy() for x in args]; am = [x.copy() for x in args]
                ap[ai][k] += eps; am[ai][k] -= eps
                cols.append((np.asarray(pj(*[jp.asarray(x) for x in ap], p0)) - np.asarray(pj(*[jp.asarray(x) for x in am], p0))) / (2 * eps))
            FD.append(np.array(cols).T.reshape(j["nprobe"], args[ai].size) if cols else np.zeros((j["nprobe"], 0)))
        out = {"rev": [x.tolist() for x in Jr], "fwd": [x.tolist() for x in Jf], "fd": [x.tolist() for x in FD],
               "value": np.asarray(pj(q, v, u, p0), F64).tolist()}
        if pnames:
            pr = {}
            for name in pnames:
                base = np.asarray(p0[name], F64)
                flat = base.reshape(-1)
                cols = []
                for k in range(flat.size):
                    fp, fm = flat.copy(), flat.copy()
                    h = eps * max(1.0, abs(flat[k]))
                    fp[k] += h; fm[k] -= h
                    pp = dict(p0); pp[name] = jp.asarray(fp.reshape(base.shape))
                    pm = dict(p0); pm[name] = jp.asarray(fm.reshape(base.shape))
                    cols.append((np.asarray(pj(q, v, u, pp)) - np.asarray(pj(q, v, u, pm))) / (2 * h))
                pr[name] = {"value": flat.tolist(),
                            "rev": np.asarray(Jr4[3][name], F64).reshape(j["nprobe"], -1).tolist(),
                            "fwd": np.asarray(Jf4[3][name], F64).reshape(j["nprobe"], -1).tolist(),
                            "fd": np.array(cols).T.reshape(j["nprobe"], flat.size).tolist()}
            out["params"] = pr
        res.append(out)
    return {"states": res, "dims": {"nq": int(m.nq), "nv": int(m.nv), "nu": int(m.nu)}, "param_fields": pnames}


JOBS = {"cyl": job_cyl, "guards": job_guards, "pipeline": job_pipeline}
req = json.load(sys.stdin)
out = []
for j in req["jobs"]:
    try:
        out.append(JOBS[j["op"]](j))
    except NotImplementedError as e:
        out.append({"notimpl": str(e)[:200]})
    except Exception as e:
        out.append({"error": "%s: %s" % (type(e).__name__, str(e)[:300]), "trace": traceback.format_exc()[-1500:]})


def clean(o):
    if isinstance(o, float):
        return o if o == o and abs(o) != float("inf") else ("nan" if o != o else ("inf" if o > 0 else "-inf"))
    if isinstance(o, list):
        return [clean(x) for x in o]
    if isinstance(o, dict):
        return {k: clean(v) for k, v in o.items()}
    return o


json.dump({"jobs": clean(out)}, sys.stdout)
