// C03 driver: the unmodified engine_thread.cc of the working tree, compiled against the
// controlled-scheduler shim (shim_atomic.h), driven through the public API
// mju_threadpool / mju_dispatch.  No library is linked: engine_thread.cc only needs
// mj_markStack / mj_freeStack, which are counted stubs here.
//
// stdin : one case per line:  <seed> <mode> <victim> <nops> { P <n> | D <k> }*
// stdout: per case
//   CASE <index>
//   <thread> <kind> <a> <b> <c>          one line per logged event, in the total order
//   END <OK|DEADLOCK|LIVELOCK> <markStack calls> <freeStack calls> <numThread at end>
// kinds: in st ld fa wr nt (atomics: init/store/load/fetch_add/wait-return/notify), sp jn ex
// (thread spawn/join/exit), cp rp cd rd (call/return of mju_threadpool / mju_dispatch),
// tb te (task begin/end: a = thread_id argument, b = task_id argument).
#include "shim_atomic.h"

#include <mujoco/mjdata.h>
#include <mujoco/mjmodel.h>

static long g_mark = 0, g_free = 0;
extern "C" {
void mj_markStack(mjData* d) { (void)d; g_mark++; }
void mj_freeStack(mjData* d) { (void)d; g_free++; }
}

#include "engine/engine_thread.cc"

static int g_case = 0;

static void dump(const char* status, int nthr) {
  verif::Sched& s = verif::S();
  for (const verif::Event& e : s.log_) {
    std::printf("%d %s %ld %ld %ld\n", e.tid, e.kind, e.a, e.b, e.c);
  }
  std::printf("END %s %ld %ld %d\n", status, g_mark, g_free, nthr);
  std::fflush(stdout);
}

static void on_abort(const char* why) { dump(why, -1); }

static void task(const mjModel* m, mjData* d, void* arg, int thread_id, int task_id) {
  (void)m; (void)d; (void)arg;
  verif::point();
  verif::logev("tb", thread_id, task_id);
  verif::point();
  verif::logev("te", thread_id, task_id);
}

int main() {
  verif::S().on_abort = on_abort;
  mjData* d = static_cast<mjData*>(std::calloc(1, sizeof(mjData)));
  unsigned long long seed;
  int mode, victim, nops;
  while (std::scanf("%llu %d %d %d", &seed, &mode, &victim, &nops) == 4) {
    verif::S().reset(seed, mode, victim);
    g_mark = g_free = 0;
    std::printf("CASE %d\n", g_case++);
    for (int i = 0; i < nops; i++) {
      char op[4];
      int x;
      if (std::scanf("%3s %d", op, &x) != 2) return 2;
      if (op[0] == 'P') {
        verif::logev("cp", x);
        mju_threadpool(d, x);
        verif::logev("rp", d->threadpool != 0);
      } else {
        verif::logev("cd", x);
        mju_dispatch(nullptr, d, task, nullptr, x);
        verif::logev("rd");
      }
    }
    int nt = mju_numThread(d);
    if (d->threadpool) {
      // the generator always ends a history with P 0; a pool that is still there is reported
      dump("LEFTOVER", nt);
      return 4;
    }
    dump("OK", nt);
  }
  return 0;
}
