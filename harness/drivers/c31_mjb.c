// C31 driver: MJB binary model files (mj_sizeModel / mj_saveModel / mj_loadModelBuffer) of the tree
// under test, on models built through the mjSpec C API.
//
// stdin commands (one per line), stdout answers:
//   MODEL k            build model k, save it to the base buffer     -> "M k <ok> <mj_sizeModel> <nbuffer>"
//   GEN id seed feat nbody   same with a random model of mjgen.h (mjg_spec)
//   RAW id dump fwd hex      like LOAD, on the given bytes
//   ENUMS              values of the enumerators used by the typed cross-reference oracle -> "E name value"
//   DUMP               sizes, struct blocks, every array (in memory) -> "Z ...", "T f hex", "A i name bytes memoff hex", "F hex"
//   OFFS               actual file offset of every array, by perturbing the array in a copy of the
//                      model, saving, and diffing with the base file -> "O i first count" (count 0: empty)
//   RELOAD             load(base), compare with the model, re-save    -> "R accepted same_sizes same_structs narrdiff resave_identical"
//   LOAD id trunc dump fwd npatch (off val)* nappend seed
//                      load a corrupted copy of the base file in a forked worker (64 cases per worker, a crash is
//                      attributed to the case in progress) under a canary allocator, the input placed against an
//                      inaccessible page -> "L id <A|R|E|C> canary=<n> nwarn=<n> | first warning | last warning | error"
//                      (A accepted, R NULL returned, E mju_error raised, C crashed); with dump=1 an
//                      accepted model is dumped (Z/A lines) before the L line; with fwd=1 mj_makeData +
//                      mj_forward + mj_step are run on an accepted model -> "W id fwd=<ok|err|crash> canary=<n> | error"
#include <stdio.h>
#include <stdlib.h>
#include <string.h>
#include <setjmp.h>
#include <signal.h>
#include <unistd.h>
#include <sys/wait.h>
#include <mujoco/mujoco.h>
#include <mujoco/mjxmacro.h>
#include "mjgen.h"   // shared random-model generator (mjg_spec)

// ------------------------------------------------------------------ handlers
#define MAXW 64
static int nwarn = 0;
static char warns[MAXW][600];
static jmp_buf errjmp;
static int errarmed = 0;
static char errmsg[600];
static void onwarn(const char* s) {
  if (nwarn < MAXW) { strncpy(warns[nwarn], s, 599); warns[nwarn][599] = 0; }
  nwarn++;
}
static void onerr(const char* s) {
  strncpy(errmsg, s, 599); errmsg[599] = 0;
  if (errarmed) longjmp(errjmp, 1);
  printf("FATAL %s\n", s); fflush(stdout); _exit(3);
}

// ------------------------------------------------------------------ canary allocator
#define GUARD (1 << 16)
#define MAXALLOC 4096
static struct { unsigned char* base; size_t size; } allocs[MAXALLOC];
static int nalloc = 0, canary_on = 0, canary_bad = 0;
static size_t alloc_limit = (size_t)1 << 26;
static void* c_malloc(size_t size) {
  if (size > alloc_limit) return NULL;
  size_t rs = (size + 63) & ~(size_t)63;
  unsigned char* b = aligned_alloc(64, GUARD + rs + GUARD);
  if (!b) return NULL;
  memset(b, 0xA5, GUARD);
  memset(b + GUARD + size, 0xA5, rs - size + GUARD);
  if (nalloc < MAXALLOC) { allocs[nalloc].base = b; allocs[nalloc].size = size; nalloc++; }
  return b + GUARD;
}
static int check_one(int i) {
  unsigned char* b = allocs[i].base; size_t size = allocs[i].size, rs = (size + 63) & ~(size_t)63;
  for (size_t j = 0; j < GUARD; j++) if (b[j] != 0xA5) return 1;
  for (size_t j = GUARD + size; j < GUARD + rs + GUARD; j++) if (b[j] != 0xA5) return 1;
  return 0;
}
static void c_free(void* p) {
  if (!p) return;
  for (int i = 0; i < nalloc; i++) if (allocs[i].base && allocs[i].base + GUARD == (unsigned char*)p) {
    if (check_one(i)) canary_bad++;
    free(allocs[i].base); allocs[i].base = 0; return;
  }
  free(p);   // allocated before the canary allocator was installed
}
static int check_all(void) {
  int bad = canary_bad;
  for (int i = 0; i < nalloc; i++) if (allocs[i].base && check_one(i)) bad++;
  return bad;
}

// ------------------------------------------------------------------ models
static void setd(mjDoubleVec* v, const double* a, int n) { mjs_setDouble(v, a, n); }

static mjSpec* spec_minimal(void) { return mj_makeSpec(); }

static mjSpec* spec_pendulum(void) {
  mjSpec* s = mj_makeSpec();
  mjsBody* w = mjs_findBody(s, "world");
  mjsBody* b = mjs_addBody(w, NULL); mjs_setName(b->element, "b1"); b->pos[2] = 1;
  mjsJoint* j = mjs_addJoint(b, NULL); j->type = mjJNT_HINGE; j->axis[0] = 0; j->axis[1] = 1; j->axis[2] = 0;
  mjs_setName(j->element, "j1");
  mjsGeom* g = mjs_addGeom(b, NULL); g->type = mjGEOM_CAPSULE; g->size[0] = 0.05;
  g->fromto[0] = 0; g->fromto[1] = 0; g->fromto[2] = 0; g->fromto[3] = 0; g->fromto[4] = 0; g->fromto[5] = -0.5;
  return s;
}

// a model touching as many array families as the mjSpec API gives without files
static mjSpec* spec_rich(int longnames) {
  mjSpec* s = mj_makeSpec();
  static char nmbuf[64][256]; int nmi = 0;
  const char* pad = longnames ? "_a_rather_long_object_name_used_to_make_the_names_array_large_0123456789abcdefghijklmnopqrstuvwxyz" : "";
#define NM(x) (snprintf(nmbuf[nmi], 256, "%s%s", x, pad), nmbuf[nmi++])
  s->nuser_body = 2; s->nuser_jnt = 1; s->nuser_geom = 3; s->nuser_site = 1; s->nuser_cam = 2;
  s->nuser_tendon = 1; s->nuser_actuator = 2; s->nuser_sensor = 1; s->nuserdata = 5;
  mjsBody* w = mjs_findBody(s, "world");
  // texture + material
  mjsTexture* tx = mjs_addTexture(s); mjs_setName(tx->element, "tex1"); tx->type = mjTEXTURE_2D;
  tx->builtin = mjBUILTIN_CHECKER; tx->width = 4; tx->height = 4; tx->nchannel = 3;
  tx->rgb1[0] = 0.1; tx->rgb2[1] = 0.9;
  mjsMaterial* mt = mjs_addMaterial(s, NULL); mjs_setName(mt->element, "mat1");
  mjs_setInStringVec(mt->textures, mjTEXROLE_RGB, "tex1");
  mjsMaterial* mt2 = mjs_addMaterial(s, NULL); mjs_setName(mt2->element, "mat2"); mt2->rgba[0] = 0.5f;
  // height field from user data
  mjsHField* hf = mjs_addHField(s); mjs_setName(hf->element, "hf1"); hf->nrow = 3; hf->ncol = 4;
  hf->size[0] = 1; hf->size[1] = 1; hf->size[2] = 0.2; hf->size[3] = 0.1;
  float elev[12]; for (int i = 0; i < 12; i++) elev[i] = (float)(i % 5) * 0.1f;
  mjs_setFloat(hf->userdata, elev, 12);
  // floor + hfield geom on the world
  mjsGeom* fl = mjs_addGeom(w, NULL); fl->type = mjGEOM_PLANE; fl->size[0] = 5; fl->size[1] = 5; fl->size[2] = 0.1;
  mjs_setName(fl->element, NM("floor")); mjs_setString(fl->material, "mat1");
  mjsGeom* hg = mjs_addGeom(w, NULL); hg->type = mjGEOM_HFIELD; mjs_setString(hg->hfieldname, "hf1"); hg->pos[0] = 3;
  mjsLight* li = mjs_addLight(w, NULL); li->pos[2] = 3; mjs_setName(li->element, NM("light1"));
  // mocap body
  mjsBody* mc = mjs_addBody(w, NULL); mjs_setName(mc->element, "mocap1"); mc->mocap = 1; mc->pos[0] = -1;
  mjsSite* ms = mjs_addSite(mc, NULL); mjs_setName(ms->element, "msite");
  // free body
  mjsBody* fb = mjs_addBody(w, NULL); mjs_setName(fb->element, NM("free")); fb->pos[2] = 1;
  double ud2[2] = {1.5, -2.5}; setd(fb->userdata, ud2, 2); fb->gravcomp = 0.5;
  mjsJoint* fj = mjs_addFreeJoint(fb); mjs_setName(fj->element, NM("fj"));
  mjsGeom* fg = mjs_addGeom(fb, NULL); fg->type = mjGEOM_BOX; fg->size[0] = 0.1; fg->size[1] = 0.2; fg->size[2] = 0.3;
  mjs_setName(fg->element, "fbox"); fg->surfacevel[0] = 0.1; double ud3[3] = {1, 2, 3}; setd(fg->userdata, ud3, 3); mjs_setString(fg->material, "mat2");
  mjsSite* fs = mjs_addSite(fb, NULL); mjs_setName(fs->element, "fsite"); fs->pos[0] = 0.1;
  mjsCamera* cam = mjs_addCamera(fb, NULL); mjs_setName(cam->element, NM("cam1")); cam->pos[1] = -1;
  cam->mode = mjCAMLIGHT_TARGETBODY; mjs_setString(cam->targetbody, "mocap1");
  // a sphere resting in the floor with an adhesive contact (active at qpos0)
  mjsBody* ab = mjs_addBody(w, NULL); mjs_setName(ab->element, "adh"); ab->pos[0] = -2; ab->pos[2] = 0.05;
  mjs_addFreeJoint(ab);
  mjsGeom* ag = mjs_addGeom(ab, NULL); ag->type = mjGEOM_SPHERE; ag->size[0] = 0.06; ag->adhesion = 2.0; mjs_setName(ag->element, "gadh");
  // chain: hinge, slide, ball
  mjsBody* c1 = mjs_addBody(w, NULL); mjs_setName(c1->element, "c1"); c1->pos[0] = 1; c1->pos[2] = 1;
  mjsJoint* h1 = mjs_addJoint(c1, NULL); h1->type = mjJNT_HINGE; h1->axis[0] = 0; h1->axis[1] = 1; h1->axis[2] = 0;
  mjs_setName(h1->element, "h1"); h1->limited = mjLIMITED_TRUE; h1->range[0] = -1; h1->range[1] = 1; h1->damping[0] = 0.1;
  double ud1[1] = {7}; setd(h1->userdata, ud1, 1);
  mjsGeom* g1 = mjs_addGeom(c1, NULL); g1->type = mjGEOM_CAPSULE; g1->size[0] = 0.04; mjs_setName(g1->element, NM("g1"));
  g1->fromto[3] = 0.4; g1->fromto[5] = 0.0; g1->fromto[0] = 0; g1->fromto[1] = 0; g1->fromto[2] = 0; g1->fromto[4] = 0;
  mjsSite* s1 = mjs_addSite(c1, NULL); mjs_setName(s1->element, "s1"); s1->pos[0] = 0.1; s1->pos[2] = 0.1;
  mjsBody* c2 = mjs_addBody(c1, NULL); mjs_setName(c2->element, "c2"); c2->pos[0] = 0.4;
  mjsJoint* sl = mjs_addJoint(c2, NULL); sl->type = mjJNT_SLIDE; sl->axis[0] = 1; sl->axis[1] = 0; sl->axis[2] = 0; mjs_setName(sl->element, "sl");
  mjsJoint* h2 = mjs_addJoint(c2, NULL); h2->type = mjJNT_HINGE; h2->axis[0] = 0; h2->axis[1] = 1; h2->axis[2] = 0; mjs_setName(h2->element, "h2");
  h2->frictionloss = 0.01;
  mjsGeom* g2 = mjs_addGeom(c2, NULL); g2->type = mjGEOM_SPHERE; g2->size[0] = 0.06; mjs_setName(g2->element, "g2");
  mjsSite* s2 = mjs_addSite(c2, NULL); mjs_setName(s2->element, "s2"); s2->pos[0] = 0.2; s2->pos[2] = 0.1;
  mjsBody* c3 = mjs_addBody(c2, NULL); mjs_setName(c3->element, "c3"); c3->pos[0] = 0.3;
  mjsJoint* bj = mjs_addJoint(c3, NULL); bj->type = mjJNT_BALL; mjs_setName(bj->element, "bj");
  mjsGeom* g3 = mjs_addGeom(c3, NULL); g3->type = mjGEOM_ELLIPSOID; g3->size[0] = 0.05; g3->size[1] = 0.06; g3->size[2] = 0.07;
  mjs_setName(g3->element, "g3");
  mjsSite* s3 = mjs_addSite(c3, NULL); mjs_setName(s3->element, "s3"); s3->pos[2] = 0.1;
  mjsGeom* gc = mjs_addGeom(c2, NULL); gc->type = mjGEOM_CYLINDER; gc->size[0] = 0.03; gc->size[1] = 0.05; mjs_setName(gc->element, "gcyl");
  gc->pos[0] = 0.1; gc->contype = 0; gc->conaffinity = 0;
  // tendons: fixed and spatial
  mjsTendon* tf = mjs_addTendon(s, NULL); mjs_setName(tf->element, "tfix");
  mjs_wrapJoint(tf, "h1", 1.0); mjs_wrapJoint(tf, "h2", -0.5);
  mjsTendon* ts = mjs_addTendon(s, NULL); mjs_setName(ts->element, "tspat"); ts->width = 0.01;
  mjs_wrapSite(ts, "s1"); mjs_wrapGeom(ts, "gcyl", ""); mjs_wrapSite(ts, "s2"); mjs_wrapSite(ts, "s3");
  double tu[1] = {4}; setd(ts->userdata, tu, 1);
  // actuators
  mjsActuator* a1 = mjs_addActuator(s, NULL); mjs_setName(a1->element, NM("a1")); mjs_setToMotor(a1);
  a1->trntype = mjTRN_JOINT; mjs_setString(a1->target, "h1"); double au[2] = {1, 2}; setd(a1->userdata, au, 2);
  mjsActuator* a2 = mjs_addActuator(s, NULL); mjs_setName(a2->element, NM("a2")); a2->trntype = mjTRN_TENDON; mjs_setString(a2->target, "tspat");
  a2->dyntype = mjDYN_FILTER; a2->dynprm[0] = 0.1; a2->gainprm[0] = 2;
  mjsActuator* a3 = mjs_addActuator(s, NULL); mjs_setName(a3->element, NM("a3")); a3->trntype = mjTRN_SITE; mjs_setString(a3->target, "fsite");
  a3->gear[0] = 1; a3->gainprm[0] = 1;
  mjsActuator* a4 = mjs_addActuator(s, NULL); mjs_setName(a4->element, NM("a4")); a4->trntype = mjTRN_SLIDERCRANK;
  mjs_setString(a4->target, "s2"); mjs_setString(a4->slidersite, "s1"); a4->cranklength = 0.3; a4->gainprm[0] = 1;
  mjsActuator* a5 = mjs_addActuator(s, NULL); mjs_setName(a5->element, NM("a5")); a5->trntype = mjTRN_BODY;
  mjs_setString(a5->target, "c3"); mjs_setToAdhesion(a5, 1.5); a5->ctrllimited = mjLIMITED_TRUE; a5->ctrlrange[0] = 0; a5->ctrlrange[1] = 1;
  mjsActuator* a6 = mjs_addActuator(s, NULL); mjs_setName(a6->element, NM("a6")); a6->trntype = mjTRN_SITE;
  mjs_setString(a6->target, "s3"); mjs_setString(a6->refsite, "s1"); a6->gear[0] = 1; a6->gainprm[0] = 1;
  mjsActuator* a7 = mjs_addActuator(s, NULL); mjs_setName(a7->element, NM("a7")); a7->trntype = mjTRN_JOINTINPARENT;
  mjs_setString(a7->target, "bj"); a7->gear[0] = 1; a7->gainprm[0] = 1;
  // a second actuator on joint h1 and on tendon tspat, all with damping/armature: jnt_actuatorid / tendon_actuatorid take
  // the values id (bj), -2 "several actuators" (h1, tfix) and -1 (the rest)
  a1->damping[0] = 0.1; a7->damping[0] = 0.05;
  mjsActuator* a8 = mjs_addActuator(s, NULL); mjs_setName(a8->element, NM("a8")); a8->trntype = mjTRN_JOINT;
  mjs_setString(a8->target, "h1"); a8->gainprm[0] = 1; a8->armature = 0.01;
  mjsActuator* a9 = mjs_addActuator(s, NULL); mjs_setName(a9->element, NM("a9")); a9->trntype = mjTRN_TENDON;
  mjs_setString(a9->target, "tfix"); a9->gainprm[0] = 1; a9->damping[0] = 0.2;
  mjsActuator* a10 = mjs_addActuator(s, NULL); mjs_setName(a10->element, NM("a10")); a10->trntype = mjTRN_TENDON;
  mjs_setString(a10->target, "tfix"); a10->gainprm[0] = 1; a10->damping[0] = 0.3;
  // sensors
  mjsSensor* se1 = mjs_addSensor(s); mjs_setName(se1->element, NM("se1")); se1->type = mjSENS_JOINTPOS; se1->objtype = mjOBJ_JOINT;
  mjs_setString(se1->objname, "h1"); double su[1] = {3}; setd(se1->userdata, su, 1);
  mjsSensor* se2 = mjs_addSensor(s); mjs_setName(se2->element, NM("se2")); se2->type = mjSENS_FRAMEPOS; se2->objtype = mjOBJ_SITE;
  mjs_setString(se2->objname, "s3"); se2->reftype = mjOBJ_BODY; mjs_setString(se2->refname, "c1");
  mjsSensor* se3 = mjs_addSensor(s); mjs_setName(se3->element, NM("se3")); se3->type = mjSENS_ACCELEROMETER; se3->objtype = mjOBJ_SITE;
  mjs_setString(se3->objname, "fsite");
  mjsSensor* se4 = mjs_addSensor(s); mjs_setName(se4->element, NM("se4")); se4->type = mjSENS_TENDONPOS; se4->objtype = mjOBJ_TENDON;
  mjs_setString(se4->objname, "tspat");
  // equalities
  mjsEquality* e1 = mjs_addEquality(s, NULL); mjs_setName(e1->element, NM("e1")); e1->type = mjEQ_JOINT; e1->objtype = mjOBJ_JOINT;
  mjs_setString(e1->name1, "h1"); mjs_setString(e1->name2, "h2"); e1->data[1] = 1; e1->active = 0;
  mjsEquality* e2 = mjs_addEquality(s, NULL); mjs_setName(e2->element, NM("e2")); e2->type = mjEQ_CONNECT; e2->objtype = mjOBJ_BODY;
  mjs_setString(e2->name1, "c3"); mjs_setString(e2->name2, "mocap1"); e2->active = 0;
  // pair, exclude
  mjsPair* pr = mjs_addPair(s, NULL); mjs_setName(pr->element, NM("p1")); mjs_setString(pr->geomname1, "g3"); mjs_setString(pr->geomname2, "fbox");
  mjsExclude* ex = mjs_addExclude(s); mjs_setName(ex->element, NM("x1")); mjs_setString(ex->bodyname1, "c1"); mjs_setString(ex->bodyname2, "c2");
  // custom: numeric, text, tuple
  mjsNumeric* nu = mjs_addNumeric(s); mjs_setName(nu->element, NM("num1")); double nd[3] = {1, 2, 3}; setd(nu->data, nd, 3); nu->size = 5;
  mjsNumeric* nu2 = mjs_addNumeric(s); mjs_setName(nu2->element, NM("num2")); double nd2[1] = {9}; setd(nu2->data, nd2, 1); nu2->size = 1;
  mjsText* te = mjs_addText(s); mjs_setName(te->element, NM("text1")); mjs_setString(te->data, "hello mjb");
  mjsTuple* tu1 = mjs_addTuple(s); mjs_setName(tu1->element, NM("tup1"));
  int ot[2] = {mjOBJ_BODY, mjOBJ_GEOM}; mjs_setInt(tu1->objtype, ot, 2);
  mjs_setStringVec(tu1->objname, "c1 g2"); double op[2] = {0.5, 1.5}; setd(tu1->objprm, op, 2);
  // keyframe
  mjsKey* k = mjs_addKey(s); mjs_setName(k->element, NM("key1")); k->time = 0.5;
#undef NM
  return s;
}

static mjSpec* make_spec(int k) {
  switch (k) {
    case 0: return spec_minimal();
    case 1: return spec_pendulum();
    case 2: return spec_rich(0);
    case 3: return spec_rich(1);
    default: return NULL;
  }
}

// ------------------------------------------------------------------ state
static mjModel* M = NULL;
static unsigned char* base = NULL;
static long basesz = 0;

static void hex(const unsigned char* p, long n) {
  static const char* d = "0123456789abcdef";
  for (long i = 0; i < n; i++) { putchar(d[p[i] >> 4]); putchar(d[p[i] & 15]); }
}

static void dump_model(const mjModel* m, int with_structs) {
  printf("Z");
#define X(name) printf(" %lld", (long long)m->name);
  MJMODEL_SIZES
#undef X
  printf("\n");
  if (with_structs) {
    printf("T opt "); hex((const unsigned char*)&m->opt, sizeof(mjOption)); printf("\n");
    printf("T vis "); hex((const unsigned char*)&m->vis, sizeof(mjVisual)); printf("\n");
    printf("T stat "); hex((const unsigned char*)&m->stat, sizeof(mjStatistic)); printf("\n");
    printf("T flg_gravcomp "); hex((const unsigned char*)&m->flg_gravcomp, sizeof(mjtBool)); printf("\n");
    printf("T flg_surfacevel "); hex((const unsigned char*)&m->flg_surfacevel, sizeof(mjtBool)); printf("\n");
    printf("T flg_adhesion "); hex((const unsigned char*)&m->flg_adhesion, sizeof(mjtBool)); printf("\n");
  }
  int i = 0;
  MJMODEL_POINTERS_PREAMBLE(m)
#define X(type, name, nr, nc) { long nb = (long)(sizeof(type) * (m->nr) * (nc));                          \
    printf("A %d %s %ld %ld ", i++, #name, nb, (long)((const char*)m->name - (const char*)m->buffer));     \
    hex((const unsigned char*)m->name, nb); printf("\n"); }
  MJMODEL_POINTERS
#undef X
}

static int protected_load(const unsigned char* buf, long n, mjModel** out) {
  // returns 0 ok (out may be NULL = rejected), 1 = mju_error raised
  errarmed = 1;
  if (setjmp(errjmp)) { errarmed = 0; return 1; }
  *out = mj_loadModelBuffer(buf, (int)n);
  errarmed = 0;
  return 0;
}

static void cmd_model_spec(int k, mjSpec* s);
static void cmd_model(int k) { cmd_model_spec(k, make_spec(k)); }
// GEN id seed feat nbody: random model of harness/drivers/mjgen.h
static void cmd_gen(char* line) {
  int id, nbody; unsigned long long seed; unsigned feat;
  if (sscanf(line, "%d %llu %u %d", &id, &seed, &feat, &nbody) != 4) { printf("M -1 0 0 0 bad\n"); return; }
  cmd_model_spec(id, mjg_spec(seed, feat, nbody));
}
static void cmd_model_spec(int k, mjSpec* s) {
  if (M) { mj_deleteModel(M); M = NULL; }
  free(base); base = NULL; basesz = 0;
  if (!s) { printf("M %d 0 0 0\n", k); return; }
  errarmed = 1;
  if (setjmp(errjmp)) { errarmed = 0; printf("M %d 0 0 0 error %s\n", k, errmsg); return; }
  M = mj_compile(s, NULL);
  errarmed = 0;
  if (!M) { printf("M %d 0 0 0 compile: %s\n", k, mjs_getError(s)); mj_deleteSpec(s); return; }
  mj_deleteSpec(s);
  basesz = (long)mj_sizeModel(M);
  base = malloc(basesz + 64);
  memset(base, 0xEE, basesz + 64);
  errarmed = 1;
  if (setjmp(errjmp)) {   // e.g. bufwrite: attempting to write outside model buffer
    errarmed = 0; printf("M %d 0 0 0 mj_saveModel into mj_sizeModel bytes raised: %s\n", k, errmsg);
    mj_deleteModel(M); M = NULL; free(base); base = NULL; basesz = 0; return;
  }
  mj_saveModel(M, NULL, base, (int)basesz);
  errarmed = 0;
  // the save must not touch anything after mj_sizeModel bytes, and must write all of them
  int over = 0; for (int i = 0; i < 64; i++) if (base[basesz + i] != 0xEE) over = 1;
  { unsigned char* b2 = malloc(basesz + 64); memset(b2, 0x11, basesz + 64);
    mj_saveModel(M, NULL, b2, (int)basesz);
    if (memcmp(b2, base, basesz)) over |= 2;      // a byte not written keeps the two different fills
    free(b2); }
  printf("M %d 1 %ld %lld %d\n", k, basesz, (long long)M->nbuffer, over);
}

static void cmd_offs(void) {
  unsigned char* buf2 = malloc(basesz);
  int i = 0;
  MJMODEL_POINTERS_PREAMBLE(M)
#define X(type, name, nr, nc) { long nb = (long)(sizeof(type) * (M->nr) * (nc));                   \
    if (nb == 0) printf("O %d 0 0\n", i);                                                          \
    else { unsigned char* p = (unsigned char*)M->name;                                              \
      for (long j = 0; j < nb; j++) p[j] ^= 0xFF;                                                   \
      mj_saveModel(M, NULL, buf2, (int)basesz);                                                     \
      for (long j = 0; j < nb; j++) p[j] ^= 0xFF;                                                   \
      long first = -1, cnt = 0, last = -1;                                                          \
      for (long j = 0; j < basesz; j++) if (buf2[j] != base[j]) { if (first < 0) first = j; last = j; cnt++; } \
      printf("O %d %ld %ld %ld\n", i, first, cnt, last); }                                          \
    i++; }
  MJMODEL_POINTERS
#undef X
  free(buf2);
}

// every member of mjModel that is not a pointer into the buffer (sizes, options, flags, ...): compare the two structs
// byte by byte after blanking the pointers, the buffer address and the compilation signature (which is not part of a
// file: a loaded model has no mjSpec); names of the differing members are written to out
#include <stddef.h>
static int scalar_diff(const mjModel* a, const mjModel* b, char* out, size_t nout) {
  mjModel ca = *a, cb = *b;
#define X(type, name, nr, nc) ca.name = NULL; cb.name = NULL;
  MJMODEL_POINTERS
#undef X
  ca.buffer = cb.buffer = NULL; ca.signature = cb.signature = 0;
  struct { const char* fn; size_t off, sz; } fld[512]; int nf = 0;
#define X(mem) fld[nf].fn = #mem; fld[nf].off = offsetof(mjModel, mem); fld[nf].sz = sizeof(ca.mem); nf++;
  MJMODEL_SIZES
  X(opt) X(vis) X(stat) X(flg_gravcomp) X(flg_surfacevel) X(flg_adhesion)
#undef X
  const unsigned char* pa = (const unsigned char*)&ca; const unsigned char* pb = (const unsigned char*)&cb;
  int ndiff = 0; out[0] = 0; const char* last = NULL;
  for (size_t i = 0; i < sizeof(mjModel); i++) if (pa[i] != pb[i]) {
    const char* nm = NULL;
    for (int f = 0; f < nf; f++) if (i >= fld[f].off && i < fld[f].off + fld[f].sz) nm = fld[f].fn;
    char tmp[64]; if (!nm) { snprintf(tmp, sizeof tmp, "offset%zu", i); nm = tmp; }
    if (!last || strcmp(last, nm)) { ndiff++; if (strlen(out) + strlen(nm) + 2 < nout) { strcat(out, nm); strcat(out, ","); } }
    last = nm == tmp ? NULL : nm;
  }
  return ndiff;
}

// mj_forward on both models from their default state: largest difference in qacc / qfrc_passive / qfrc_constraint
static double forward_diff(const mjModel* a, const mjModel* b, char* msg, size_t nmsg) {
  msg[0] = 0;
  mjData* volatile da = NULL; mjData* volatile db = NULL; double worst = 0;
  errarmed = 1;
  if (setjmp(errjmp)) { errarmed = 0; snprintf(msg, nmsg, "error %s", errmsg); return -1; }
  da = mj_makeData(a); db = mj_makeData(b);
  if (!da || !db) { errarmed = 0; snprintf(msg, nmsg, "nodata"); return -1; }
  mj_forward(a, da); mj_forward(b, db);
  errarmed = 0;
  if (da->nefc != db->nefc || da->ncon != db->ncon) { snprintf(msg, nmsg, "nefc %d/%d ncon %d/%d", da->nefc, db->nefc, da->ncon, db->ncon); worst = 1e30; }
  for (int i = 0; i < a->nv; i++) {
    double d1 = fabs(da->qacc[i] - db->qacc[i]), d2 = fabs(da->qfrc_passive[i] - db->qfrc_passive[i]),
           d3 = fabs(da->qfrc_constraint[i] - db->qfrc_constraint[i]);
    if (!(d1 <= worst)) worst = d1; if (!(d2 <= worst)) worst = d2; if (!(d3 <= worst)) worst = d3;
  }
  mj_deleteData(da); mj_deleteData(db);
  return worst;
}

static void cmd_reload(void) {
  mjModel* m2 = NULL;
  nwarn = 0;
  int e = protected_load(base, basesz, &m2);
  if (e || !m2) { printf("R 0 0 0 -1 0 | %s\n", e ? errmsg : (nwarn ? warns[0] : "")); return; }
  int same_sizes = 1;
#define X(name) if (m2->name != M->name) same_sizes = 0;
  MJMODEL_SIZES
#undef X
  char names[600];
  int nscalar = scalar_diff(M, m2, names, sizeof names);
  int same_structs = nscalar == 0;
  int ndiff = 0;
  if (same_sizes) {
    MJMODEL_POINTERS_PREAMBLE(M)
#define X(type, name, nr, nc) if (memcmp(m2->name, M->name, sizeof(type) * (M->nr) * (nc))) ndiff++; \
    if (((const char*)m2->name - (const char*)m2->buffer) != ((const char*)M->name - (const char*)M->buffer)) ndiff++;
    MJMODEL_POINTERS
#undef X
  }
  long sz2 = (long)mj_sizeModel(m2);
  unsigned char* b2 = malloc(sz2 + 1);
  mj_saveModel(m2, NULL, b2, (int)sz2);
  int ident = (sz2 == basesz) && !memcmp(b2, base, basesz);
  free(b2);
  char fmsg[300]; double fd = same_sizes ? forward_diff(M, m2, fmsg, sizeof fmsg) : 0; if (!same_sizes) fmsg[0] = 0;
  mj_deleteModel(m2);
  printf("R 1 %d %d %d %d | scalars=%s | fwd=%.17g %s\n", same_sizes, same_structs, ndiff, ident, names, fd, fmsg);
}

static void crash_handler(int sig) { _exit(100 + sig); }

#include <sys/mman.h>
// input buffer whose last byte is followed by an inaccessible page: a read past the end faults
static unsigned char* guard_base = NULL; static long guard_span = 0;
static unsigned char* guarded_copy(const unsigned char* src, long n) {
  long pg = sysconf(_SC_PAGESIZE);
  long span = ((n + pg - 1) / pg) * pg; if (span == 0) span = pg;
  if (guard_base) munmap(guard_base, guard_span);
  guard_base = NULL;
  unsigned char* r = mmap(NULL, span + pg, PROT_READ | PROT_WRITE, MAP_PRIVATE | MAP_ANONYMOUS, -1, 0);
  if (r == MAP_FAILED) return NULL;
  guard_base = r; guard_span = span + pg;
  mprotect(r + span, pg, PROT_NONE);
  unsigned char* p = r + span - n;
  memcpy(p, src, n);
  return p;
}

static volatile int* stage = NULL;   // shared with the worker: [0] 0 loading, 1 loaded, 2 dumped, 3 done; [1] index of the case in progress

// load buf[0..n) under the canary allocator (called in a forked worker); report
static void run_case(long id, const unsigned char* buf, long n, int dump, int fwd) {
  alarm(60);
  unsigned char* exact = guarded_copy(buf, n);
  canary_bad = 0;
  mjModel* m2 = NULL; nwarn = 0;
  int e = protected_load(exact, n, &m2);
  int bad = check_all();
  stage[0] = 1;
  printf("L %ld %s canary=%d nwarn=%d | %s | %s | %s\n", id, e ? "E" : (m2 ? "A" : "R"), bad, nwarn,
         nwarn > 0 ? warns[0] : "", nwarn > 0 ? warns[(nwarn < MAXW ? nwarn : MAXW) - 1] : "", e ? errmsg : "");
  fflush(stdout);
  if (!e && m2 && dump) { dump_model(m2, 0); fflush(stdout); }
  stage[0] = 2;
  if (!e && m2 && fwd) {
    const char* fwdres = "ok";
    mjData* volatile d = NULL;
    nwarn = 0;
    errarmed = 1;
    if (setjmp(errjmp)) { errarmed = 0; fwdres = "err"; }
    else {
      d = mj_makeData(m2);
      if (d) { mj_forward(m2, d); for (int i = 0; i < 3; i++) mj_step(m2, d); }
      errarmed = 0; if (!d) fwdres = "nodata";
    }
    bad = check_all();
    printf("W %ld fwd=%s canary=%d | %s\n", id, fwdres, bad, !strcmp(fwdres, "err") ? errmsg : "");
    fflush(stdout);
    if (d && strcmp(fwdres, "err")) mj_deleteData(d);
  }
  if (!e && m2 && !bad) mj_deleteModel(m2);
  stage[0] = 3;
  // drop whatever is still allocated (leaks of error paths) so that the next case starts clean
  for (int i = 0; i < nalloc; i++) if (allocs[i].base) { free(allocs[i].base); allocs[i].base = 0; }
  nalloc = 0;
}

static int hexval(int c) { return c >= '0' && c <= '9' ? c - '0' : c >= 'a' && c <= 'f' ? c - 'a' + 10 : -1; }

// "LOAD id trunc dump fwd npatch (off val)* nappend seed"  |  "RAW id dump fwd hexbytes"
static void do_line(const char* line0) {
  if (!strncmp(line0, "RAW ", 4)) {
    const char* line = line0 + 4;
    long id; int dump, fwd, adv;
    if (sscanf(line, "%ld %d %d %n", &id, &dump, &fwd, &adv) != 3) { printf("L ? bad\n"); return; }
    const char* h = line + adv; long n = 0;
    unsigned char* buf = malloc(strlen(h) / 2 + 8);
    while (hexval(h[0]) >= 0 && hexval(h[1]) >= 0) { buf[n++] = (unsigned char)(hexval(h[0]) * 16 + hexval(h[1])); h += 2; }
    run_case(id, buf, n, dump, fwd);
    free(buf);
    return;
  }
  const char* line = line0 + 5;
  long id, trunc, npatch; int dump, fwd;
  int pos = 0, adv;
  if (sscanf(line, "%ld %ld %d %d %ld%n", &id, &trunc, &dump, &fwd, &npatch, &adv) != 5) { printf("L ? bad\n"); return; }
  pos += adv;
  long* offs = malloc(sizeof(long) * (npatch + 1)); int* vals = malloc(sizeof(int) * (npatch + 1));
  for (long i = 0; i < npatch; i++) { if (sscanf(line + pos, "%ld %d%n", &offs[i], &vals[i], &adv) != 2) { printf("L %ld bad\n", id); return; } pos += adv; }
  long nappend; unsigned seed;
  if (sscanf(line + pos, "%ld %u", &nappend, &seed) != 2) { printf("L %ld bad\n", id); return; }
  if (trunc > basesz) trunc = basesz;
  long n = trunc + nappend;
  unsigned char* buf = malloc(n + 8);
  memcpy(buf, base, trunc);
  unsigned x = seed * 2654435761u + 12345u;
  for (long i = 0; i < nappend; i++) { x = x * 1664525u + 1013904223u; buf[trunc + i] = (unsigned char)(x >> 24); }
  for (long i = 0; i < npatch; i++) if (offs[i] >= 0 && offs[i] < n) buf[offs[i]] = (unsigned char)vals[i];
  run_case(id, buf, n, dump, fwd);
  free(buf); free(offs); free(vals);
}

static long line_id(const char* l) { long id = -1; sscanf(l + (l[0] == 'R' ? 4 : 5), "%ld", &id); return id; }

// pending LOAD/RAW lines are run by forked workers (up to 64 cases each); a crash is attributed to the case in
// progress and a new worker continues after it
static char** pend = NULL; static int npend = 0, capend = 0;
static void run_pending(void) {
  if (!stage) stage = mmap(NULL, 4096, PROT_READ | PROT_WRITE, MAP_SHARED | MAP_ANONYMOUS, -1, 0);
  int j = 0;
  while (j < npend) {
    stage[0] = 0; stage[1] = j;
    fflush(stdout);
    pid_t pid = fork();
    if (pid == 0) {
      signal(SIGSEGV, crash_handler); signal(SIGBUS, crash_handler); signal(SIGFPE, crash_handler); signal(SIGABRT, crash_handler);
      mju_user_malloc = c_malloc; mju_user_free = c_free; canary_on = 1;
      int end = j + 64 < npend ? j + 64 : npend;
      for (int i = j; i < end; i++) { stage[0] = 0; stage[1] = i; do_line(pend[i]); }
      _exit(0);
    }
    int st = 0;
    waitpid(pid, &st, 0);
    int crashed = WIFSIGNALED(st) || WEXITSTATUS(st) != 0;
    int code = WIFSIGNALED(st) ? WTERMSIG(st) : WEXITSTATUS(st);
    if (crashed) {
      long id = line_id(pend[stage[1]]);
      if (stage[0] == 0) printf("L %ld C canary=-1 nwarn=0 | | | crash %d\n", id, code);
      else if (stage[0] == 1) printf("X %ld dumpcrash %d\n", id, code);
      else if (stage[0] == 2) printf("W %ld fwd=crash canary=-1 | crash %d\n", id, code);
      else printf("X %ld cleanupcrash %d\n", id, code);
    }
    j = stage[1] + 1;
  }
  for (int i = 0; i < npend; i++) free(pend[i]);
  npend = 0;
}

int main(void) {
  mju_user_warning = onwarn; mju_user_error = onerr;
  static char line[1 << 20];
  while (fgets(line, sizeof line, stdin)) {
    if (!strncmp(line, "LOAD ", 5) || !strncmp(line, "RAW ", 4)) {
      if (!M && line[0] == 'L') continue;
      if (npend == capend) { capend = capend ? 2 * capend : 1024; pend = realloc(pend, sizeof(char*) * capend); }
      pend[npend++] = strdup(line);
      continue;
    }
    run_pending();
    if (!strncmp(line, "MODEL ", 6)) cmd_model(atoi(line + 6));
    else if (!strncmp(line, "GEN ", 4)) cmd_gen(line + 4);
    else if (!strncmp(line, "ENUMS", 5)) {
#define E(x) printf("E %s %d\n", #x, (int)(x));
      E(mjTRN_JOINT) E(mjTRN_JOINTINPARENT) E(mjTRN_SLIDERCRANK) E(mjTRN_TENDON) E(mjTRN_SITE) E(mjTRN_BODY) E(mjTRN_SO3) E(mjTRN_UNDEFINED)
      E(mjWRAP_NONE) E(mjWRAP_JOINT) E(mjWRAP_PULLEY) E(mjWRAP_SITE) E(mjWRAP_SPHERE) E(mjWRAP_CYLINDER)
      E(mjEQ_CONNECT) E(mjEQ_WELD) E(mjEQ_JOINT) E(mjEQ_TENDON) E(mjEQ_FLEX) E(mjEQ_FLEXVERT) E(mjEQ_FLEXSTRAIN)
      E(mjGEOM_HFIELD) E(mjGEOM_MESH) E(mjGEOM_SDF) E(mjSENS_PLUGIN) E(mjSENS_USER) E(mjSENS_TACTILE)
      E(mjOBJ_UNKNOWN) E(mjOBJ_BODY) E(mjOBJ_XBODY) E(mjOBJ_JOINT) E(mjOBJ_DOF) E(mjOBJ_GEOM) E(mjOBJ_SITE) E(mjOBJ_CAMERA) E(mjOBJ_LIGHT)
      E(mjOBJ_FLEX) E(mjOBJ_MESH) E(mjOBJ_SKIN) E(mjOBJ_HFIELD) E(mjOBJ_TEXTURE) E(mjOBJ_MATERIAL) E(mjOBJ_PAIR) E(mjOBJ_EXCLUDE)
      E(mjOBJ_EQUALITY) E(mjOBJ_TENDON) E(mjOBJ_ACTUATOR) E(mjOBJ_SENSOR) E(mjOBJ_NUMERIC) E(mjOBJ_TEXT) E(mjOBJ_TUPLE) E(mjOBJ_KEY)
      E(mjOBJ_PLUGIN) E(mjOBJ_DEFAULT) E(mjOBJ_FRAME) E(mjOBJ_MODEL)
#undef E
    }
    else if (!strncmp(line, "DUMP", 4)) { if (M) { dump_model(M, 1); printf("F "); hex(base, basesz); printf("\n"); } }
    else if (!strncmp(line, "OFFS", 4)) { if (M) cmd_offs(); }
    else if (!strncmp(line, "RELOAD", 6)) { if (M) cmd_reload(); }
    else if (line[0] == '\n') continue;
    else { printf("? %s", line); }
    fflush(stdout);
  }
  run_pending();
  printf("END\n");
  return 0;
}
