// shim_atomic.h -- controlled-scheduler, logging replacements of std::atomic<T>, std::atomic_int,
// std::thread and std::mutex, used for trace validation of C03 (engine_thread.cc) and C40
// (engine_global_table.h).  The unmodified /repo source is compiled *after* this header:
//   1. every standard header the code under test uses is included here first (so the later
//      #include lines of the code under test are no-ops thanks to the include guards);
//   2. then `atomic`, `atomic_int`, `thread`, `mutex` are #defined to verif_* names, which are
//      declared in namespace std as aliases of the classes below.
// Semantics: all logical threads are real OS threads but exactly one of them (the holder of the
// "baton") runs at any time.  Every atomic / mutex / thread operation (and every verif::point())
// is a scheduling point: the seeded scheduler picks which runnable logical thread performs its
// next visible operation.  The operation itself and its log entry happen while holding the baton,
// so the event log is a total order and the execution is sequentially consistent at the
// granularity of one visible operation (plain code between two visible operations of a thread is
// attached to them).  Blocking operations (atomic::wait, join, mutex::lock) make the thread
// non-runnable until their condition holds; if no thread is runnable the run is a DEADLOCK; a
// thread that keeps repeating the same load with the same result while nobody else can run, or a
// run exceeding the event cap, is a LIVELOCK.  Both abort the process through verif::on_abort.
#ifndef VERIF_SHIM_ATOMIC_H_
#define VERIF_SHIM_ATOMIC_H_

#include <algorithm>
#include <atomic>
#include <cctype>
#include <condition_variable>
#include <cstddef>
#include <cstdint>
#include <cstdio>
#include <cstdlib>
#include <cstring>
#include <functional>
#include <memory>
#include <mutex>
#include <new>
#include <sstream>
#include <string>
#include <string_view>
#include <thread>
#include <tuple>
#include <type_traits>
#include <utility>
#include <vector>

namespace verif {

struct Event {
  int tid;
  const char* kind;
  long a, b, c;
};

class Sched {
 public:
  enum { RUNNABLE = 0, BLOCKED = 1, EXITED = 2 };
  struct Th {
    int state = RUNNABLE;
    std::function<bool()> pred;
    std::thread real;
    uint64_t prio = 0;
    int spin = 0;
    // last event of this thread (spin detection)
    const char* lkind = nullptr;
    long la = 0, lb = 0;
    long lseq = -1;
  };

  std::mutex mu;
  std::condition_variable cv;
  int cur = 0;
  std::vector<std::unique_ptr<Th>> th;
  std::vector<Event> log_;
  uint64_t rng = 88172645463325252ull;
  int mode = 0;
  int victim = -1;
  long nobj = 0;
  long npoints = 0;
  long cap = 200000;
  uint64_t lowprio = 1u << 20;
  void (*on_abort)(const char* why) = nullptr;

  static Sched& get() {
    static Sched s;
    return s;
  }
  static int& self_ref() {
    thread_local int id = 0;
    return id;
  }
  int self() { return self_ref(); }

  uint64_t rnd() {
    rng ^= rng << 13;
    rng ^= rng >> 7;
    rng ^= rng << 17;
    return rng;
  }

  // start a new case on the calling (main, logical 0) thread; all earlier threads must be joined
  void reset(uint64_t seed, int m, int vict) {
    std::unique_lock<std::mutex> lk(mu);
    th.clear();
    th.emplace_back(new Th);
    log_.clear();
    rng = seed * 2654435761ull + 88172645463325252ull;
    for (int i = 0; i < 8; i++) rnd();
    mode = m;
    victim = vict;
    cur = 0;
    self_ref() = 0;
    nobj = 0;
    npoints = 0;
    lowprio = 1u << 20;
    th[0]->prio = (1u << 21) + (rnd() & 0xfffff);
  }

  long new_obj() { return nobj++; }

  void log(const char* kind, long a = 0, long b = 0, long c = 0) {
    int me = self();
    log_.push_back(Event{me, kind, a, b, c});
    if (me < (int)th.size()) {
      Th& t = *th[me];
      if (t.lkind == kind && t.la == a && t.lb == b && !std::strcmp(kind, "ld")) {
        t.spin++;
      } else {
        t.spin = 0;
      }
      t.lkind = kind; t.la = a; t.lb = b;
    }
  }

  [[noreturn]] void abort_run(const char* why) {
    if (on_abort) on_abort(why);
    std::fflush(stdout);
    std::_Exit(3);
  }

  // candidates: runnable threads and blocked threads whose condition now holds (mu held)
  int choose(bool include_self, bool avoid_self) {
    int me = self();
    std::vector<int> c;
    for (int i = 0; i < (int)th.size(); i++) {
      Th& t = *th[i];
      if (i == me) {
        if (include_self) c.push_back(i);
        continue;
      }
      if (t.state == RUNNABLE) c.push_back(i);
      else if (t.state == BLOCKED && t.pred && t.pred()) c.push_back(i);
    }
    if (c.empty()) return -1;
    if (avoid_self && c.size() > 1) c.erase(std::find(c.begin(), c.end(), me));
    if (c.size() == 1) return c[0];
    switch (mode) {
      case 1: {  // sticky: long runs of the same thread
        if (include_self && !avoid_self && (rnd() % 10) < 8) return me;
        return c[rnd() % c.size()];
      }
      case 2: {  // priorities with random demotion of the running thread
        if (include_self && (rnd() % 16) == 0) th[me]->prio = lowprio--;
        int best = c[0];
        for (int i : c) if (th[i]->prio > th[best]->prio) best = i;
        return best;
      }
      case 3: {  // starve one thread: it runs only when it is the only candidate (or rarely)
        std::vector<int> d;
        for (int i : c) if (i != victim) d.push_back(i);
        if (d.empty() || (rnd() % 64) == 0) return c[rnd() % c.size()];
        return d[rnd() % d.size()];
      }
      default:
        return c[rnd() % c.size()];
    }
  }

  void handoff(std::unique_lock<std::mutex>& lk, int nx) {
    int me = self();
    if (nx == me) return;
    cur = nx;
    cv.notify_all();
    cv.wait(lk, [&] { return cur == me; });
  }

  // scheduling point before a visible operation of the calling thread
  void point() {
    std::unique_lock<std::mutex> lk(mu);
    int me = self();
    if (++npoints > cap) abort_run("LIVELOCK");
    bool spinning = th[me]->spin >= 1;
    int nx = choose(true, spinning);
    if (spinning && nx == me && th[me]->spin > 64) abort_run("LIVELOCK");
    handoff(lk, nx);
  }

  // block the calling thread until pred() holds (evaluated by whoever holds the baton)
  void block_until(std::function<bool()> pred) {
    std::unique_lock<std::mutex> lk(mu);
    if (pred()) return;
    int me = self();
    th[me]->state = BLOCKED;
    th[me]->pred = pred;
    int nx = choose(false, false);
    if (nx < 0) abort_run("DEADLOCK");
    handoff(lk, nx);
    th[me]->state = RUNNABLE;
    th[me]->pred = nullptr;
  }

  int spawn(std::function<void()> body) {
    point();
    std::unique_lock<std::mutex> lk(mu);
    int id = (int)th.size();
    th.emplace_back(new Th);
    th[id]->prio = (1u << 21) + (rnd() & 0xfffff);
    log("sp", id);
    th[id]->real = std::thread([this, id, body]() {
      self_ref() = id;
      {
        std::unique_lock<std::mutex> lk2(mu);
        cv.wait(lk2, [&] { return cur == id; });
      }
      body();
      point();
      std::unique_lock<std::mutex> lk2(mu);
      log("ex");
      th[id]->state = EXITED;
      int nx = choose(false, false);
      if (nx < 0) abort_run("DEADLOCK");
      cur = nx;
      cv.notify_all();
    });
    return id;
  }

  void join(int id) {
    point();
    block_until([this, id] { return th[id]->state == EXITED; });
    {
      std::unique_lock<std::mutex> lk(mu);
      log("jn", id);
    }
    th[id]->real.join();
  }
};

inline Sched& S() { return Sched::get(); }
inline void point() { S().point(); }
inline void logev(const char* k, long a = 0, long b = 0, long c = 0) {
  std::unique_lock<std::mutex> lk(S().mu);
  S().log(k, a, b, c);
}

template <class T>
class Atomic {
 public:
  Atomic() noexcept : v_(), id_(S().new_obj()) { S().log("in", id_, (long)v_); }
  Atomic(T x) noexcept : v_(x), id_(S().new_obj()) { S().log("in", id_, (long)v_); }
  Atomic(const Atomic&) = delete;
  Atomic& operator=(const Atomic&) = delete;

  void store(T x, std::memory_order = std::memory_order_seq_cst) noexcept {
    S().point();
    std::unique_lock<std::mutex> lk(S().mu);
    v_ = x;
    S().log("st", id_, (long)x);
  }
  T load(std::memory_order = std::memory_order_seq_cst) const noexcept {
    S().point();
    std::unique_lock<std::mutex> lk(S().mu);
    T x = v_;
    S().log("ld", id_, (long)x);
    return x;
  }
  T fetch_add(T d, std::memory_order = std::memory_order_seq_cst) noexcept {
    S().point();
    std::unique_lock<std::mutex> lk(S().mu);
    T o = v_;
    v_ = o + d;
    S().log("fa", id_, (long)o, (long)d);
    return o;
  }
  T fetch_sub(T d, std::memory_order mo = std::memory_order_seq_cst) noexcept {
    return fetch_add(-d, mo);
  }
  T exchange(T x, std::memory_order = std::memory_order_seq_cst) noexcept {
    S().point();
    std::unique_lock<std::mutex> lk(S().mu);
    T o = v_;
    v_ = x;
    S().log("xc", id_, (long)o, (long)x);
    return o;
  }
  void wait(T old, std::memory_order = std::memory_order_seq_cst) const noexcept {
    S().point();
    const T* p = &v_;
    S().block_until([p, old] { return *p != old; });
    std::unique_lock<std::mutex> lk(S().mu);
    S().log("wr", id_, (long)old, (long)v_);
  }
  void notify_all() noexcept {
    S().point();
    std::unique_lock<std::mutex> lk(S().mu);
    S().log("nt", id_);
  }
  void notify_one() noexcept { notify_all(); }
  operator T() const noexcept { return load(); }
  T operator=(T x) noexcept { store(x); return x; }
  T operator++() noexcept { return fetch_add(1) + 1; }
  T operator++(int) noexcept { return fetch_add(1); }
  long verif_id() const { return id_; }
  T verif_peek() const { return v_; }

 private:
  T v_;
  long id_;
};

class Thread {
 public:
  Thread() noexcept {}
  template <class F, class... A,
            class = std::enable_if_t<!std::is_same_v<std::decay_t<F>, Thread>>>
  explicit Thread(F&& f, A&&... a) {
    auto tup = std::make_shared<std::tuple<std::decay_t<F>, std::decay_t<A>...>>(
        std::forward<F>(f), std::forward<A>(a)...);
    id_ = S().spawn([tup]() { std::apply([](auto&&... xs) { std::invoke(xs...); }, *tup); });
  }
  Thread(const Thread&) = delete;
  Thread(Thread&& o) noexcept : id_(o.id_) { o.id_ = -1; }
  Thread& operator=(Thread&& o) noexcept {
    if (joinable()) std::terminate();
    id_ = o.id_;
    o.id_ = -1;
    return *this;
  }
  ~Thread() {
    if (joinable()) std::terminate();
  }
  bool joinable() const noexcept { return id_ >= 0; }
  void join() {
    S().join(id_);
    id_ = -1;
  }
  void detach() { std::terminate(); }
  static unsigned hardware_concurrency() noexcept { return 4; }

 private:
  int id_ = -1;
};

class Mutex {
 public:
  Mutex() noexcept : held_(false), id_(S().new_obj()) {}
  Mutex(const Mutex&) = delete;
  void lock() {
    S().point();
    bool* h = &held_;
    S().block_until([h] { return !*h; });
    std::unique_lock<std::mutex> lk(S().mu);
    held_ = true;
    S().log("lk", id_);
  }
  bool try_lock() {
    S().point();
    std::unique_lock<std::mutex> lk(S().mu);
    bool ok = !held_;
    if (ok) held_ = true;
    S().log("tl", id_, ok);
    return ok;
  }
  void unlock() {
    S().point();
    std::unique_lock<std::mutex> lk(S().mu);
    held_ = false;
    S().log("ul", id_);
  }
  long verif_id() const { return id_; }

 private:
  bool held_;
  long id_;
};

}  // namespace verif

namespace std {
template <class T>
using verif_atomic = ::verif::Atomic<T>;
using verif_atomic_int = ::verif::Atomic<int>;
using verif_thread = ::verif::Thread;
using verif_mutex = ::verif::Mutex;
}  // namespace std

#define atomic verif_atomic
#define atomic_int verif_atomic_int
#define thread verif_thread
#define mutex verif_mutex

#endif  // VERIF_SHIM_ATOMIC_H_
