"""C35 oracle side (run with /venv/bin/python: needs numpy).  stdin: JSON list of requests, stdout: JSON list of answers.
  {"op":"body","glo":..,"ghi":..,"geoms":[...]} -> {"M":..,"com":[3],"J":[[3x3]]} | "err" | null
  {"op":"thomsen","size":[a,b,c]}               -> Thomsen area / surface integral
  {"op":"mesh","name":..,"size":..,"n":..}      -> {"V":[[x,y,z]] (rounded to float32), "F":[[i,j,k]], "solid":{vol,com,J}, "shell":{vol,com,J}}
  {"op":"eigmin","full":[6]}                    -> smallest eigenvalue
Independent of the implementation and of the Coq model: bodies are integrated by quadrature points, meshes by
the textbook tetrahedron / triangle second-moment formula."""
import json, math, sys
import numpy as np

GT = {"sphere": 2, "capsule": 3, "ellipsoid": 4, "cylinder": 5, "box": 6}
GTN = {v: k for k, v in GT.items()}
EPS = 1e-14


def q2m(q):
    w, x, y, z = q
    return np.array([[w * w + x * x - y * y - z * z, 2 * (x * y - w * z), 2 * (x * z + w * y)],
                     [2 * (x * y + w * z), w * w - x * x + y * y - z * z, 2 * (y * z - w * x)],
                     [2 * (x * z - w * y), 2 * (y * z + w * x), w * w - x * x - y * y + z * z]])


# ------------------------------------------------------------------------------------- quadrature oracle
# Every geom is replaced by weighted points obtained from Gauss-Legendre / periodic-trapezoid rules that are
# exact for the polynomial integrands that occur (second moments); the body's mass, centre of mass and inertia
# tensor are then plain sums over points.  No closed-form inertia formula, no parallel-axis theorem, no
# rotation of tensors is used on this side.
def _gl(n, a, b):
    x, w = np.polynomial.legendre.leggauss(n)
    return 0.5 * (b - a) * x + 0.5 * (a + b), 0.5 * (b - a) * w


def _phi(n=8):
    return np.arange(n) * (2 * math.pi / n), np.full(n, 2 * math.pi / n)


def _grid(*axes):
    pts = np.meshgrid(*[a[0] for a in axes], indexing="ij")
    ws = np.meshgrid(*[a[1] for a in axes], indexing="ij")
    w = np.ones_like(ws[0])
    for x in ws:
        w = w * x
    return [p.ravel() for p in pts], w.ravel()


def q_ball(a, b, c, ulo=-1.0, uhi=1.0):
    (r, u, ph), w = _grid(_gl(4, 0, 1), _gl(5, ulo, uhi), _phi())
    s = np.sqrt(np.maximum(0.0, 1 - u * u))
    return np.stack([a * r * s * np.cos(ph), b * r * s * np.sin(ph), c * r * u], 1), w * a * b * c * r * r


def q_cyl(R, hh):
    (r, ph, z), w = _grid(_gl(4, 0, R), _phi(), _gl(4, -hh, hh))
    return np.stack([r * np.cos(ph), r * np.sin(ph), z], 1), w * r


def q_box(a, b, c):
    (x, y, z), w = _grid(_gl(3, -a, a), _gl(3, -b, b), _gl(3, -c, c))
    return np.stack([x, y, z], 1), w


def q_sphere_shell(R, ulo=-1.0, uhi=1.0):
    (u, ph), w = _grid(_gl(5, ulo, uhi), _phi())
    s = np.sqrt(np.maximum(0.0, 1 - u * u))
    return np.stack([R * s * np.cos(ph), R * s * np.sin(ph), R * u], 1), w * R * R


def q_ellipsoid_offset_shell(a, b, c):
    """the layer between the ellipsoid (a,b,c) and (a+e,b+e,c+e), e -> 0 (what the compiler's "expanded
    ellipsoid" construction integrates): thickness-weighted surface measure (bc x1^2 + ac x2^2 + ab x3^2) dOmega"""
    (u, ph), w = _grid(_gl(6, -1, 1), _phi())
    s = np.sqrt(np.maximum(0.0, 1 - u * u))
    x1, x2, x3 = s * np.cos(ph), s * np.sin(ph), u
    return np.stack([a * x1, b * x2, c * x3], 1), w * (b * c * x1 * x1 + a * c * x2 * x2 + a * b * x3 * x3)


def q_disk(R, z):
    (r, ph), w = _grid(_gl(4, 0, R), _phi())
    return np.stack([r * np.cos(ph), r * np.sin(ph), np.full_like(r, z)], 1), w * r


def q_cyl_lateral(R, hh):
    (ph, z), w = _grid(_phi(), _gl(4, -hh, hh))
    return np.stack([R * np.cos(ph), R * np.sin(ph), z], 1), w * R


def q_rect(axis, half, off):
    """rectangle face of a box: normal along `axis` at coordinate off"""
    o = [k for k in range(3) if k != axis]
    (s, t), w = _grid(_gl(3, -half[o[0]], half[o[0]]), _gl(3, -half[o[1]], half[o[1]]))
    p = np.zeros((len(s), 3))
    p[:, o[0]], p[:, o[1]], p[:, axis] = s, t, off
    return p, w


def _cat(parts):
    return np.concatenate([p for p, _ in parts]), np.concatenate([w for _, w in parts])


def _shift(pw, dz):
    p, w = pw
    return p + np.array([0, 0, dz]), w


def thomsen_area(a, b, c):
    p = 1.6075
    return 4 * math.pi * (((a * b) ** p + (b * c) ** p + (c * a) ** p) / 3) ** (1 / p)


def ellipsoid_area_quadrature(a, b, c, n=200):
    (u, ph), w = _grid(_gl(n, -1, 1), (np.arange(2 * n) * math.pi / n, np.full(2 * n, math.pi / n)))
    s = np.sqrt(np.maximum(0.0, 1 - u * u))
    x1, x2, x3 = s * np.cos(ph), s * np.sin(ph), u
    return float(np.sum(w * np.sqrt((b * c * x1) ** 2 + (a * c * x2) ** 2 + (a * b * x3) ** 2)))


def geom_points(ty, shell, size):
    """(points in the geom frame, weights, measure used for density->mass)"""
    a, b, c = size
    name = GTN[ty]
    if not shell:
        if name == "sphere":
            pw = q_ball(a, a, a)
        elif name == "ellipsoid":
            pw = q_ball(a, b, c)
        elif name == "cylinder":
            pw = q_cyl(a, b)
        elif name == "box":
            pw = q_box(a, b, c)
        else:
            pw = _cat([q_cyl(a, b), _shift(q_ball(a, a, a, 0.0, 1.0), b), _shift(q_ball(a, a, a, -1.0, 0.0), -b)])
        return pw[0], pw[1], float(pw[1].sum())
    if name == "sphere":
        pw = q_sphere_shell(a)
    elif name == "ellipsoid":
        pw = q_ellipsoid_offset_shell(a, b, c)
        return pw[0], pw[1], thomsen_area(a, b, c)      # the compiler's documented area approximation
    elif name == "cylinder":
        pw = _cat([q_cyl_lateral(a, b), q_disk(a, b), q_disk(a, -b)])
    elif name == "box":
        pw = _cat([q_rect(ax, size, sg * size[ax]) for ax in range(3) for sg in (1, -1)])
    else:
        pw = _cat([q_cyl_lateral(a, b), _shift(q_sphere_shell(a, 0.0, 1.0), b), _shift(q_sphere_shell(a, -1.0, 0.0), -b)])
    return pw[0], pw[1], float(pw[1].sum())


def oracle_body(glo, ghi, geoms):
    """(mass, com, J about com) by quadrature, None when no geom is selected, "err" when the compiler must reject"""
    P, W = [], []
    for g in geoms:
        if not (glo <= g["group"] <= ghi):
            continue
        pts, w, measure = geom_points(g["type"], g["shell"], g["size"])
        if g["mass"] is not None:
            m = g["mass"] if measure > EPS else 0.0
        else:
            m = g["density"] * measure
        if m < 0 or g["density"] < 0 and g["mass"] is None:
            return "err"
        if not m > EPS:
            continue
        q = np.array(g["quat"], float)
        n2 = float(q @ q)
        if n2 >= EPS:
            q = q / math.sqrt(n2)
        P.append(pts @ q2m(q).T + np.array(g["pos"]))
        W.append(w * (m / w.sum()))
    if not P:
        return None
    P, W = np.concatenate(P), np.concatenate(W)
    M = float(W.sum())
    com = (W[:, None] * P).sum(0) / M
    d = P - com
    J = (W * (d * d).sum(1)).sum() * np.eye(3) - (W[:, None, None] * d[:, :, None] * d[:, None, :]).sum(0)
    return M, com, J


# ------------------------------------------------------------------------------------- polyhedron oracle (meshes)
def poly_props(V, Fc, shell):
    """mass properties of the closed triangle mesh at unit density (solid: signed tetrahedra from the origin;
    shell: triangles with unit surface density) -- textbook formula int x x^T = det/120 A (1+I) A^T"""
    V = np.asarray(V, float)
    T = V[np.asarray(Fc, int)]                              # nf x 3 (vertex) x 3 (coordinate)
    A = np.transpose(T, (0, 2, 1))                          # columns D E F
    K = np.ones((3, 3)) + np.eye(3)
    AKAt = A @ K @ np.transpose(A, (0, 2, 1))
    if shell:
        w = 0.5 * np.linalg.norm(np.cross(T[:, 1] - T[:, 0], T[:, 2] - T[:, 0]), axis=1)
        vol = float(w.sum())
        first = (w[:, None] * T.sum(1) / 3).sum(0)
        second = (w[:, None, None] / 12 * AKAt).sum(0)
    else:
        d = np.linalg.det(A)
        vol = float(d.sum() / 6)
        first = (d[:, None] / 24 * T.sum(1)).sum(0)
        second = (d[:, None, None] / 120 * AKAt).sum(0)
    com = first / vol
    C = second - vol * np.outer(com, com)
    J = np.trace(C) * np.eye(3) - C
    return vol, com, J


def revolve(profile, nseg):
    """closed surface of revolution about z from a profile [(rho, z)] whose first and last points lie on the axis"""
    V, Fc = [], []
    idx = []
    for (rho, z) in profile:
        if rho == 0:
            idx.append([len(V)] * nseg)
            V.append((0.0, 0.0, z))
        else:
            idx.append(list(range(len(V), len(V) + nseg)))
            for k in range(nseg):
                V.append((rho * math.cos(2 * math.pi * k / nseg), rho * math.sin(2 * math.pi * k / nseg), z))
    for i in range(len(profile) - 1):
        lo, hi = idx[i], idx[i + 1]
        for k in range(nseg):
            k2 = (k + 1) % nseg
            a, b, c, d = lo[k], lo[k2], hi[k2], hi[k]
            if a != b:
                Fc.append((a, b, c))
            if c != d:
                Fc.append((a, c, d))
    return V, Fc


def tess(name, size, n):
    a, b, c = size
    if name == "box":
        V = [(sx * a, sy * b, sz * c) for sx in (-1, 1) for sy in (-1, 1) for sz in (-1, 1)]
        Fc = [(0, 1, 3), (0, 3, 2), (4, 6, 7), (4, 7, 5), (0, 4, 5), (0, 5, 1), (2, 3, 7), (2, 7, 6), (0, 2, 6), (0, 6, 4), (1, 5, 7), (1, 7, 3)]
        return V, Fc
    if name == "cylinder":
        return revolve([(0, -b), (a, -b), (a, b), (0, b)], 2 * n)
    th = [math.pi * k / n for k in range(n + 1)]
    if name in ("sphere", "ellipsoid"):
        V, Fc = revolve([(0.0 if k in (0, n) else math.sin(t), -math.cos(t)) for k, t in enumerate(th)], 2 * n)
        s = (a, a, a) if name == "sphere" else (a, b, c)
        return [(x * s[0], y * s[1], z * s[2]) for (x, y, z) in V], Fc
    half = n // 2
    prof = [(0.0 if k == 0 else a * math.sin(th[k]), -b - a * math.cos(th[k])) for k in range(half + 1)]
    prof += [(0.0 if k == n else a * math.sin(th[k]), b - a * math.cos(th[k])) for k in range(half, n + 1)]
    return revolve(prof, 2 * n)


def main():
    reqs = json.load(sys.stdin)
    out = []
    for r in reqs:
        op = r["op"]
        if op == "body":
            e = oracle_body(r["glo"], r["ghi"], r["geoms"])
            out.append(e if e in ("err", None) else {"M": e[0], "com": e[1].tolist(), "J": e[2].tolist()})
        elif op == "thomsen":
            out.append(thomsen_area(*r["size"]) / ellipsoid_area_quadrature(*r["size"]))
        elif op == "mesh":
            V, Fc = tess(r["name"], r["size"], r["n"])
            V32 = np.asarray(V, np.float32).astype(float)
            res = {"V": V32.tolist(), "F": [list(f) for f in Fc]}
            for key, shell in (("solid", False), ("shell", True)):
                vol, com, J = poly_props(V32, Fc, shell)
                res[key] = {"vol": vol, "com": com.tolist(), "J": J.tolist()}
            out.append(res)
        elif op == "eigmin":
            f = r["full"]
            out.append(float(np.linalg.eigvalsh(np.array([[f[0], f[3], f[4]], [f[3], f[1], f[5]], [f[4], f[5], f[2]]]))[0]))
        else:
            out.append(None)
    json.dump(out, sys.stdout)


if __name__ == "__main__":
    main()
