// C02 helper TU: reaches the static tactileTask / mjTactileTaskArgs of engine_sensor.c of the working
// tree (the whole file is compiled into this TU; the archive member is then not pulled).
#include "engine/engine_sensor.c"

#include "c02_sites.h"

int c02_tac_is(mjTaskFunc f) { return f == tactileTask; }

void c02_tac_info(const mjModel* m, const void* varg, int ntask, c02TacInfo* out) {
  const mjTactileTaskArgs* a = (const mjTactileTaskArgs*)varg;
  out->forcesT = (const char*)a[0].forcesT;
  out->ntaxel = m->mesh_vertnum[a[0].mesh_id];
  out->ntask = ntask;
  out->batch = a[0].end_taxel - a[0].start_taxel;
  out->last_end = a[ntask - 1].end_taxel;
}
