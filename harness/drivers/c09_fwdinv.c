// C09 driver: c09_fwdinv s0 s1 | c09_fwdinv damper
// Builds mjgen models for seeds s0..s1-1 (contacts of every condim, both cones, limits, friction loss, equalities, tendons,
// springs/dampers, actuators, gravity compensation, applied joint and Cartesian forces), advances them with the integrator
// under test and at a few sample states prints what is needed to judge "forward and inverse dynamics agree":
//   A  forward solve at tight tolerance (solver of the configuration)
//   B  mj_inverse at the forward qacc (continuous time)
//   C  the integrator (mj_Euler / mj_implicit) applied to the forward solution: discrete acceleration a_d = (qvel' - qvel)/h
//   D  mj_inverse with mjENBL_INVDISCRETE at a_d
//   E  mj_compareFwdInv statistics (continuous time)
// record (one line, doubles as C99 hex floats):
//   R seed step integrator cone solver eulerdamp_disabled damper_disabled nv nefc ne nf nell npyr nlim niter maxiter h
//     qfrc_applied[nv] qfrc_actuator[nv] xfrc_q[nv] qfrc_smooth[nv] qfrc_passive[nv] qfrc_bias[nv] qfrc_constraint[nv] Ma[nv] qacc[nv]
//     qfrc_inverse[nv] qfrc_constraint_inv[nv] efc_force[nefc] efc_force_inv[nefc]
//     disc nefc_d a_d[nv] qfrc_inverse_d[nv] efc_force_inv_d[nefc_d] fwdinv0 fwdinv1
//     D[nefc] R[nefc] floss[nefc] jar[nefc] type[nefc] id[nefc] ncon {dim mu fr[5] adr}[ncon]      (jar = J qacc - aref)
//     tbias                                                                                      (max |mj_tendonBias|)
//     nisland noninv enableflags disableflags sparse nfree lowfree   (follow ds..anyd; nfree: dofs outside every island, lowfree: one of them below an island dof; noninv: the efc<->island permutation is not an involution)
//     npt npf nsingle nother ptq nqa   (last: bodies with pure torque / pure force / single component / other wrench; max |J' pure torques|; non-zero qfrc_applied entries)
//     ds jnt_m2 jnt_single anyd         (damping-source stratum; joints with jnt_actuatorid == -2 / >= 0; any joint damping left)
//   xfrc_q is computed here from mj_jac at the body centre of mass (not by mj_xfrcAccumulate).
#include <stdio.h>
#include <stdlib.h>
#include <string.h>
#include "mjgen.h"
#include "engine/engine_core_smooth.h"   // mj_tendonBias (to report whether the tendon-armature bias is non-zero)

static void pv(const mjtNum* v, int n) { for (int i = 0; i < n; i++) printf(" %a", v[i]); }

static void tight(mjModel* m, int solver) {
  m->opt.solver = solver;
  m->opt.tolerance = 1e-14;
  m->opt.iterations = solver == mjSOL_NEWTON ? 200 : (solver == mjSOL_CG ? 2000 : 30000);
  m->opt.noslip_iterations = 0;
}

// fixed scene of finding C09-F1: one hinge with damping, Euler integrator, optional mjDSBL_DAMPER / mjDSBL_EULERDAMP
//   D damper_off eulerdamp_off qacc a_d qfrc_inverse(invdiscrete at a_d) qfrc_applied
static int run_damper(void) {
  mjg_install_handlers();
  mjSpec* s = mj_makeSpec();
  mjsBody* b = mjs_addBody(mjs_findBody(s, "world"), NULL);
  mjsJoint* j = mjs_addJoint(b, NULL); j->type = mjJNT_HINGE; j->axis[0] = 0; j->axis[1] = 1; j->axis[2] = 0; j->damping[0] = 2.0;
  mjsGeom* g = mjs_addGeom(b, NULL); g->type = mjGEOM_CAPSULE; g->size[0] = 0.05; g->fromto[0] = 0; g->fromto[1] = 0; g->fromto[2] = 0;
  g->fromto[3] = 0.4; g->fromto[4] = 0; g->fromto[5] = 0;
  mjModel* m = mj_compile(s, NULL);
  if (!m) { fprintf(stderr, "damper: compile failed: %s\n", mjs_getError(s)); return 3; }
  m->opt.integrator = mjINT_EULER;
  for (int k = 0; k < 4; k++) {
    int doff = k & 1, eoff = (k >> 1) & 1;
    m->opt.disableflags &= ~(mjDSBL_DAMPER | mjDSBL_EULERDAMP);
    if (doff) m->opt.disableflags |= mjDSBL_DAMPER;
    if (eoff) m->opt.disableflags |= mjDSBL_EULERDAMP;
    mjData* d = mj_makeData(m);
    d->qvel[0] = 1.5; d->qfrc_applied[0] = 0.3;
    mj_forward(m, d);
    mjtNum qacc = d->qacc[0], v0 = d->qvel[0];
    mjData* st = mj_makeData(m); mj_copyData(st, m, d); mj_Euler(m, st);
    mjtNum ad = (st->qvel[0] - v0) / m->opt.timestep;
    d->qacc[0] = ad;
    m->opt.enableflags |= mjENBL_INVDISCRETE; mj_inverse(m, d); m->opt.enableflags &= ~mjENBL_INVDISCRETE;
    printf("D %d %d %a %a %a %a\n", doff, eoff, qacc, ad, d->qfrc_inverse[0], d->qfrc_applied[0]);
    mj_deleteData(st); mj_deleteData(d);
  }
  mj_deleteModel(m); mj_deleteSpec(s);
  return 0;
}

int main(int argc, char** argv) {
  if (argc >= 2 && !strcmp(argv[1], "damper")) return run_damper();
  if (argc < 3) { fprintf(stderr, "usage: c09_fwdinv s0 s1\n"); return 2; }
  int s0 = atoi(argv[1]), s1 = atoi(argv[2]);
  mjg_install_handlers();
  for (int seed = s0; seed < s1; seed++) {
    unsigned feat = MJG_CONTACT | MJG_ELLIPTIC | MJG_FREE | MJG_SLIDE | MJG_BALL | MJG_LIMIT | MJG_FRICTIONLOSS | MJG_EQUALITY |
                    MJG_TENDON | MJG_MULTITREE | MJG_SPRING | MJG_ACTUATOR | MJG_GRAVCOMP;
    if (seed % 4 == 2) feat |= MJG_ACTDYN;
    int nb = 1 + seed % 5;
    // every second seed: a SPATIAL tendon with armature through sites of the moving bodies (configuration-dependent Jacobian, so the
    // tendon-armature bias ten_J' * armature * (ten_Jdot . qvel) is non-zero at non-zero velocity); every fourth also an actuator with
    // armature on that tendon
    int spatial = (seed % 2 == 0);
    if (spatial) feat |= MJG_SITE;
    mjSpec* spec = mjg_spec(seed, feat, nb);
    if (spatial) {
      mjg_rng rs = {(uint64_t)seed * 0x9E3779B97F4A7C15ULL + 77};
      mjsBody* world = mjs_findBody(spec, "world");
      mjsSite* sw = mjs_addSite(world, NULL); mjs_setName(sw->element, "c09_sw");
      sw->pos[0] = mjg_range(&rs, -0.5, 0.5); sw->pos[1] = mjg_range(&rs, -0.5, 0.5); sw->pos[2] = mjg_range(&rs, 0.8, 1.4);
      mjsTendon* t = mjs_addTendon(spec, NULL); mjs_setName(t->element, "c09_spatial");
      mjs_wrapSite(t, "c09_sw"); mjs_wrapSite(t, "s0");
      if (nb > 1) { char nm[16]; snprintf(nm, sizeof(nm), "s%d", nb - 1); mjs_wrapSite(t, nm); }
      t->armature = mjg_range(&rs, 0.05, 1.0);
      if (mjg_chance(&rs, 0.5)) { t->stiffness[0] = mjg_range(&rs, 0, 5); t->damping[0] = mjg_range(&rs, 0, 0.5); }
      if (seed % 4 == 0) {
        mjsActuator* a = mjs_addActuator(spec, NULL); mjs_setName(a->element, "c09_ta");
        mjs_setToMotor(a); a->trntype = mjTRN_TENDON; mjs_setString(a->target, "c09_spatial");
        a->gear[0] = mjg_range(&rs, 0.5, 2); a->armature = mjg_range(&rs, 0.05, 0.5);
        if (seed % 8 == 0) {   // a second one: tendon_actuatorid = -2 ("several actuators")
          mjsActuator* a2 = mjs_addActuator(spec, NULL); mjs_setName(a2->element, "c09_ta2");
          mjs_setToMotor(a2); a2->trntype = mjTRN_TENDON; mjs_setString(a2->target, "c09_spatial");
          a2->gear[0] = mjg_range(&rs, 0.5, 2); a2->armature = mjg_range(&rs, 0.05, 0.5); a2->damping[0] = mjg_range(&rs, 0.1, 1);
        }
      }
    }
    // extra kinematic trees (seed % 4 < 2): two more root bodies, each with a limited hinge that carries friction loss and a sphere that
    // touches the floor, so that several constraint islands exist whose rows (friction loss / limit / contact) interleave in efc order
    // (the efc <-> island permutation is then not its own inverse)
    // seed % 4 == 0: both constrained; 1: the FIRST extra tree is an unconstrained pendulum (no limit, no friction loss, no collision), so a tree
    // outside every island has lower dof indices than a tree inside one; 2: an unconstrained ball-joint pendulum first, then a constrained tree;
    // 3: none
    int xtrees = (seed % 4 < 3) ? 2 : 0;
    for (int k = 0; k < xtrees; k++) {
      if (k == 0 && (seed % 4 == 1 || seed % 4 == 2)) {
        mjg_rng rx = {(uint64_t)seed * 0xA0761D6478BD642FULL + 99};
        mjsBody* xb = mjs_addBody(mjs_findBody(spec, "world"), NULL); mjs_setName(xb->element, "c09_free_pendulum");
        xb->pos[0] = 2.0; xb->pos[1] = mjg_range(&rx, -0.3, 0.3); xb->pos[2] = 1.5;
        mjsJoint* xj = mjs_addJoint(xb, NULL); mjs_setName(xj->element, "c09_xjfree");
        if (seed % 4 == 1) { xj->type = mjJNT_HINGE; xj->axis[0] = 0; xj->axis[1] = 1; xj->axis[2] = 0; } else xj->type = mjJNT_BALL;
        mjsGeom* xg = mjs_addGeom(xb, NULL); mjs_setName(xg->element, "c09_xgfree");
        xg->type = mjGEOM_CAPSULE; xg->size[0] = 0.03; xg->fromto[0] = 0; xg->fromto[1] = 0; xg->fromto[2] = 0;
        xg->fromto[3] = 0.3; xg->fromto[4] = 0.05; xg->fromto[5] = -0.1; xg->contype = 0; xg->conaffinity = 0; xg->density = 900;
        continue;
      }
      mjg_rng rx = {(uint64_t)seed * 0xA0761D6478BD642FULL + 31 * k + 3};
      mjsBody* xb = mjs_addBody(mjs_findBody(spec, "world"), NULL);
      char nm[24]; snprintf(nm, sizeof(nm), "c09_xb%d", k); mjs_setName(xb->element, nm);
      xb->pos[0] = 2.0 + 0.6 * k; xb->pos[1] = mjg_range(&rx, -0.3, 0.3); xb->pos[2] = 0.3;
      mjsJoint* xj = mjs_addJoint(xb, NULL); snprintf(nm, sizeof(nm), "c09_xj%d", k); mjs_setName(xj->element, nm);
      xj->type = mjJNT_HINGE; xj->axis[0] = 0; xj->axis[1] = 1; xj->axis[2] = 0;
      xj->limited = mjLIMITED_TRUE; xj->range[0] = 0.2; xj->range[1] = 0.9;      // qpos = 0 initially: the lower limit is active
      xj->frictionloss = mjg_range(&rx, 0.05, 0.5);
      mjsGeom* xg = mjs_addGeom(xb, NULL); snprintf(nm, sizeof(nm), "c09_xg%d", k); mjs_setName(xg->element, nm);
      xg->type = mjGEOM_SPHERE; xg->size[0] = 0.1; xg->pos[0] = 0.25; xg->pos[2] = -0.21;       // bottom at z = -0.01: touches the floor
      xg->condim = (k == 0) ? 3 : 4; xg->friction[0] = mjg_range(&rx, 0.3, 1.0); xg->density = 800;
    }
    // "damping source" stratum: where the velocity-dependent terms that the Euler integrator treats implicitly come from.
    //   0 as generated (joint damping on many dofs)   1 none at all            2 joint damping on the LAST dof only
    //   3 polynomial joint damping only (one dof)     4 ONE damped actuator    5 TWO damped actuators on one joint (jnt_actuatorid = -2)
    //   6 two actuators with armature only on one joint (jnt_actuatorid = -2, zero damping)     7 damped + polynomial-damped actuators
    // strata 1..7 remove every joint damping coefficient after compilation, so that the stratum's source is the only one.
    int ds = (seed / 3) % 8;
    int nda = 0;
    if (ds >= 4) {
      // first hinge / slide joint of the spec
      const char* jn = NULL;
      for (mjsElement* e = mjs_firstElement(spec, mjOBJ_JOINT); e && !jn; e = mjs_nextElement(spec, e)) {
        mjsJoint* j = mjs_asJoint(e);
        if (j && (j->type == mjJNT_HINGE || j->type == mjJNT_SLIDE)) jn = mjs_getString(mjs_getName(e));
      }
      if (jn) {
        mjg_rng rd = {(uint64_t)seed * 0xD1B54A32D192ED03ULL + 5};
        nda = (ds == 4) ? 1 : 2;
        for (int k = 0; k < nda; k++) {
          mjsActuator* a = mjs_addActuator(spec, NULL);
          char nm[24]; snprintf(nm, sizeof(nm), "c09_da%d", k); mjs_setName(a->element, nm);
          mjs_setToMotor(a); a->trntype = mjTRN_JOINT; mjs_setString(a->target, jn);
          a->gear[0] = mjg_range(&rd, 0.5, 2);
          if (ds == 6) a->armature = mjg_range(&rd, 0.02, 0.3);
          else if (ds == 7 && k == 1) a->damping[1] = mjg_range(&rd, 0.05, 0.5);
          else a->damping[0] = mjg_range(&rd, 0.2, 2.0);
        }
      }
    }
    mjModel* m = mj_compile(spec, NULL);
    if (!m) { printf("X %d compile %s\n", seed, mjs_getError(spec)); mj_deleteSpec(spec); continue; }
    mj_deleteSpec(spec);
    if (ds >= 1) {
      mju_zero(m->dof_damping, m->nv);
      mju_zero(m->dof_dampingpoly, mjNPOLY * m->nv);
      if (ds == 2 && m->nv > 0) m->dof_damping[m->nv - 1] = 0.7;
      if (ds == 3 && m->nv > 0) m->dof_dampingpoly[mjNPOLY * (m->nv / 2)] = 0.4;
    }
    // option stratum: combinations of flags under which forward and inverse must still agree
    {
      mjg_rng ro = {(uint64_t)seed * 0xE7037ED1A0B428DBULL + 13};
      if (mjg_chance(&ro, 0.45)) m->opt.enableflags |= mjENBL_DIAGEXACT;
      if (mjg_chance(&ro, 0.15)) m->opt.disableflags |= mjDSBL_ISLAND;
      if (mjg_chance(&ro, 0.2)) m->opt.disableflags |= mjDSBL_WARMSTART;
      if (mjg_chance(&ro, 0.15)) m->opt.disableflags |= mjDSBL_REFSAFE;
      if (mjg_chance(&ro, 0.1)) m->opt.disableflags |= mjDSBL_GRAVITY;
      if (mjg_chance(&ro, 0.1)) m->opt.disableflags |= mjDSBL_SPRING;
      if (mjg_chance(&ro, 0.15)) {
        m->opt.enableflags |= mjENBL_OVERRIDE; m->opt.o_margin = 0.005;
        m->opt.o_solref[0] = 0.03; m->opt.o_solref[1] = 0.8;
        m->opt.o_friction[0] = 0.7; m->opt.o_friction[1] = 0.7; m->opt.o_friction[2] = 0.01; m->opt.o_friction[3] = 0.001; m->opt.o_friction[4] = 0.001;
      }
    }
    int jac_sparse = 0;
    { mjg_rng rj = {(uint64_t)seed * 0x8EBC6AF09C88C6E3ULL + 1}; jac_sparse = mjg_chance(&rj, 0.3); }
    int jnt_m2 = 0, jnt_single = 0;
    for (int j = 0; j < m->njnt; j++) { jnt_m2 += m->jnt_actuatorid[j] == -2; jnt_single += m->jnt_actuatorid[j] >= 0; }
    mjg_rng r = {(uint64_t)seed * 2654435761ULL + 909};
    static const int integ[3] = {mjINT_EULER, mjINT_IMPLICIT, mjINT_IMPLICITFAST};
    m->opt.integrator = integ[seed % 3];
    m->opt.cone = ((seed / 3) % 2) ? mjCONE_ELLIPTIC : mjCONE_PYRAMIDAL;
    int solver = (seed % 5 == 0) ? mjSOL_CG : (seed % 7 == 0) ? mjSOL_PGS : mjSOL_NEWTON;
    if (solver == mjSOL_PGS) m->opt.cone = mjCONE_PYRAMIDAL;   // PGS + elliptic cones can stop away from the optimum (finding C10-F1)
    { static const double ir[4] = {1, 1, 0.5, 3}; m->opt.impratio = ir[mjg_int(&r, 4)]; }
    int eulerdamp_off = (seed % 4 == 1), damper_off = (seed % 16 == 11);
    if (eulerdamp_off) m->opt.disableflags |= mjDSBL_EULERDAMP;
    if (damper_off) m->opt.disableflags |= mjDSBL_DAMPER;
    m->opt.enableflags &= ~(mjENBL_INVDISCRETE | mjENBL_FWDINV);
    int nv = m->nv;
    mjData* d = mj_makeData(m);
    mjData* w = mj_makeData(m);
    mjData* inv = mj_makeData(m);
    mjData* st = mj_makeData(m);
    mjtNum* Ma = malloc(sizeof(mjtNum) * (nv + 1));
    mjtNum* xq = malloc(sizeof(mjtNum) * (nv + 1));
    mjtNum* ad = malloc(sizeof(mjtNum) * (nv + 1));
    mjtNum* jacp = malloc(sizeof(mjtNum) * 3 * (nv + 1));
    mjtNum* jacr = malloc(sizeof(mjtNum) * 3 * (nv + 1));
    mjg_random_state(m, d, &r, 0.5);
    // applied-force stratum: the support of the Cartesian wrenches xfrc_applied and of qfrc_applied.
    //   ws = seed % 5: 0 as generated (at most one body, all six components)   1 pure torques   2 pure forces
    //                  3 a single non-zero component per body                 4 a random kind per body (none / force / torque / single / full)
    //   qs = (seed / 5) % 3: 0 as generated   1 qfrc_applied = 0   2 qfrc_applied on one dof only
    {
      mjg_rng rw = {(uint64_t)seed * 0xC2B2AE3D27D4EB4FULL + 17};
      int ws = seed % 5, qs = (seed / 5) % 3;
      if (ws > 0 && m->nbody > 1) {
        mju_zero(d->xfrc_applied, 6 * m->nbody);
        for (int b = 1; b < m->nbody; b++) {
          if (b != 1 && b != m->nbody - 1 && !mjg_chance(&rw, 0.5)) continue;
          int kind = ws == 4 ? mjg_int(&rw, 5) : ws;          // 0 none, 1 torque, 2 force, 3 single, 4 full
          mjtNum* x = d->xfrc_applied + 6 * b;
          if (kind == 1) for (int k = 3; k < 6; k++) x[k] = mjg_range(&rw, -1, 1);
          else if (kind == 2) for (int k = 0; k < 3; k++) x[k] = mjg_range(&rw, -1, 1);
          else if (kind == 3) x[mjg_int(&rw, 6)] = mjg_range(&rw, 0.2, 1) * (mjg_chance(&rw, 0.5) ? 1 : -1);
          else if (kind == 4) for (int k = 0; k < 6; k++) x[k] = mjg_range(&rw, -1, 1);
        }
      }
      if (qs == 1) mju_zero(d->qfrc_applied, m->nv);
      else if (qs == 2 && m->nv > 0) { mju_zero(d->qfrc_applied, m->nv); d->qfrc_applied[mjg_int(&rw, m->nv)] = mjg_range(&rw, -1, 1); }
    }
    if (MJG_TRY) {
      int done = 0;
      for (int step = 0; step <= 20 && done < 2; step++) {
        tight(m, mjSOL_NEWTON); m->opt.tolerance = 1e-8; m->opt.iterations = 100;
        if (step > 0) mj_step(m, d);
        if (!(step == 0 || step == 5 || step == 20)) continue;
        // A: forward at tight tolerance from the current state (d itself is not modified)
        tight(m, solver);
        m->opt.jacobian = jac_sparse ? mjJAC_SPARSE : mjJAC_DENSE;
        mj_copyData(w, m, d);
        mj_forward(m, w);
        int nefc = w->nefc;
        if (nefc > 150) continue;
        int niter = 0;
        for (int i = 0; i < mjMAX(1, w->nisland) && i < mjNISLAND; i++) niter = mjMAX(niter, w->solver_niter[i]);
        int nell = 0, npyr = 0, nlim = 0;
        for (int i = 0; i < nefc; i++) {
          nell += w->efc_type[i] == mjCNSTR_CONTACT_ELLIPTIC; npyr += w->efc_type[i] == mjCNSTR_CONTACT_PYRAMIDAL;
          nlim += (w->efc_type[i] == mjCNSTR_LIMIT_JOINT || w->efc_type[i] == mjCNSTR_LIMIT_TENDON);
        }
        mj_mulM(m, w, Ma, w->qacc);
        // Cartesian forces mapped to joint space with the Jacobian at the body centre of mass
        mju_zero(xq, nv);
        for (int b = 1; b < m->nbody; b++) {
          const mjtNum* x = w->xfrc_applied + 6 * b;
          if (x[0] == 0 && x[1] == 0 && x[2] == 0 && x[3] == 0 && x[4] == 0 && x[5] == 0) continue;
          mj_jac(m, w, jacp, jacr, w->xipos + 3 * b, b);
          for (int k = 0; k < nv; k++)
            for (int c = 0; c < 3; c++) xq[k] += jacp[c * nv + k] * x[c] + jacr[c * nv + k] * x[3 + c];
        }
        printf("R %d %d %d %d %d %d %d %d %d %d %d %d %d %d %d %d %a", seed, step, m->opt.integrator, m->opt.cone, solver, eulerdamp_off, damper_off,
               nv, nefc, w->ne, w->nf, nell, npyr, nlim, niter, m->opt.iterations, m->opt.timestep);
        pv(w->qfrc_applied, nv); pv(w->qfrc_actuator, nv); pv(xq, nv); pv(w->qfrc_smooth, nv); pv(w->qfrc_passive, nv); pv(w->qfrc_bias, nv);
        pv(w->qfrc_constraint, nv); pv(Ma, nv); pv(w->qacc, nv);
        // B: continuous-time inverse at the forward acceleration
        mj_copyData(inv, m, w);
        mju_zero(inv->qfrc_inverse, nv); mju_zero(inv->efc_force, nefc); mju_zero(inv->qfrc_constraint, nv);
        mj_inverse(m, inv);
        pv(inv->qfrc_inverse, nv); pv(inv->qfrc_constraint, nv); pv(w->efc_force, nefc);
        if (inv->nefc == nefc) pv(inv->efc_force, nefc); else { for (int i = 0; i < nefc; i++) printf(" nan"); }
        // C + D: discrete-time acceleration of the integrator applied to THIS forward solution, inverse with invdiscrete
        if (m->opt.integrator != mjINT_RK4) {
          mj_copyData(st, m, w);
          if (m->opt.integrator == mjINT_EULER) mj_Euler(m, st); else mj_implicit(m, st);
          for (int i = 0; i < nv; i++) ad[i] = (st->qvel[i] - w->qvel[i]) / m->opt.timestep;
          mj_copyData(inv, m, w);
          mju_copy(inv->qacc, ad, nv);
          mju_zero(inv->qfrc_inverse, nv); mju_zero(inv->efc_force, nefc);
          m->opt.enableflags |= mjENBL_INVDISCRETE;
          mj_inverse(m, inv);
          m->opt.enableflags &= ~mjENBL_INVDISCRETE;
          printf(" 1 %d", inv->nefc); pv(ad, nv); pv(inv->qfrc_inverse, nv); pv(inv->efc_force, inv->nefc);
        } else {
          printf(" 0 0");
        }
        // E: the engine's own comparison
        mj_copyData(inv, m, w);
        mj_compareFwdInv(m, inv);
        printf(" %a %a", inv->solver_fwdinv[0], inv->solver_fwdinv[1]);
        // F: the rows of the constraint problem and the residual J qacc - aref at the forward acceleration (for the C12 tie)
        {
          mjtNum* jar = malloc(sizeof(mjtNum) * (nefc + 1));
          if (nefc) { mj_mulJacVec(m, w, jar, w->qacc); for (int i = 0; i < nefc; i++) jar[i] -= w->efc_aref[i]; }
          pv(w->efc_D, nefc); pv(w->efc_R, nefc); pv(w->efc_frictionloss, nefc); pv(jar, nefc);
          for (int i = 0; i < nefc; i++) printf(" %d", w->efc_type[i]);
          for (int i = 0; i < nefc; i++) printf(" %d", w->efc_id[i]);
          printf(" %d", w->ncon);
          for (int c = 0; c < w->ncon; c++) {
            const mjContact* con = w->contact + c;
            printf(" %d %a", con->dim, con->mu); pv(con->friction, 5); printf(" %d", con->efc_address);
          }
          free(jar);
        }
        // G: size of the tendon-armature bias at this state (forward adds it to qfrc_bias, inverse to qfrc_inverse)
        {
          mjtNum* tb = calloc(nv + 1, sizeof(mjtNum));
          mj_tendonBias(m, w, tb);
          mjtNum mxb = 0; for (int i = 0; i < nv; i++) mxb = mjMAX(mxb, mju_abs(tb[i]));
          printf(" %a", mxb);
          free(tb);
        }
        // H: damping-source stratum, number of joints with several / one damped-or-armature actuator, any joint damping left
        {
          int anyd = 0;
          for (int i = 0; i < nv; i++) anyd |= (m->dof_damping[i] > 0) || !mju_isZero(m->dof_dampingpoly + mjNPOLY * i, mjNPOLY);
          printf(" %d %d %d %d", ds, jnt_m2, jnt_single, anyd);
        }
        // I: island structure of the forward solve and option flags
        {
          int noninv = 0;
          if (w->nisland > 0) for (int i = 0; i < nefc; i++) { int k = w->map_efc2iefc[i]; if (k < 0 || k >= nefc || w->map_efc2iefc[k] != i) { noninv = 1; break; } }
          printf(" %d %d %d %d %d", w->nisland, noninv, m->opt.enableflags, m->opt.disableflags, mj_isSparse(m));
          // number of dofs outside every island, and whether one of them has a lower index than a dof inside an island
          int nfree = 0, lowfree = 0;
          if (w->nisland > 0) {
            int maxisl = -1, minfree = nv;
            for (int i = 0; i < w->nidof; i++) maxisl = mjMAX(maxisl, w->map_idof2dof[i]);
            for (int i = w->nidof; i < nv; i++) minfree = mjMIN(minfree, w->map_idof2dof[i]);
            nfree = nv - w->nidof; lowfree = nfree > 0 && minfree < maxisl;
          }
          printf(" %d %d", nfree, lowfree);
        }
        // J: support of the applied wrenches: bodies with a pure torque / pure force / single component / other non-zero wrench, and the size of
        //    the joint-space image of the pure torques alone (computed with mj_jac)
        {
          int npt = 0, npf = 0, nsingle = 0, nother = 0; mjtNum ptq = 0;
          mjtNum* tq = calloc(nv + 1, sizeof(mjtNum));
          for (int b = 1; b < m->nbody; b++) {
            const mjtNum* x = w->xfrc_applied + 6 * b;
            int nzf = (x[0] != 0) + (x[1] != 0) + (x[2] != 0), nzt = (x[3] != 0) + (x[4] != 0) + (x[5] != 0);
            if (nzf + nzt == 0) continue;
            if (nzf + nzt == 1) nsingle++;
            if (nzf == 0) {
              npt++;
              mj_jac(m, w, jacp, jacr, w->xipos + 3 * b, b);
              for (int k = 0; k < nv; k++) for (int c = 0; c < 3; c++) tq[k] += jacr[c * nv + k] * x[3 + c];
            } else if (nzt == 0) npf++; else nother++;
          }
          for (int k = 0; k < nv; k++) ptq = mjMAX(ptq, mju_abs(tq[k]));
          int nqa = 0; for (int k = 0; k < nv; k++) nqa += w->qfrc_applied[k] != 0;
          printf(" %d %d %d %d %a %d", npt, npf, nsingle, nother, ptq, nqa);
          free(tq);
        }
        printf("\n");
        done++;
      }
      MJG_END;
    } else { printf("X %d error %s\n", seed, mjg_last_error); }
    free(Ma); free(xq); free(ad); free(jacp); free(jacr);
    mj_deleteData(st); mj_deleteData(inv); mj_deleteData(w); mj_deleteData(d); mj_deleteModel(m);
  }
  return 0;
}
