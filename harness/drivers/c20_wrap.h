// Link-time wrappers (-Wl,--wrap=...) around the allocator entry points with an oracle that is
// evaluated after EVERY arena / stack allocation made by the engine:
//   arena block  inside [arena + parena_before, arena + narena - pstack), aligned (relative to d->arena,
//                which is what mj_arenaAllocByte promises), 0 <= parena <= narena - pstack afterwards
//   stack block  inside [arena + parena, arena + narena - pstack_before), aligned (absolute),
//                parena + pstack <= narena afterwards
// Because both allocators only bump a pointer, these region conditions imply that the blocks handed
// out are pairwise disjoint and that arena blocks are disjoint from the stack region.
// The first violation is remembered; counters are reported by the drivers.
#ifndef VERIF_C20_WRAP_H_
#define VERIF_C20_WRAP_H_
#include <stdint.h>
#include <stddef.h>
#include <mujoco/mujoco.h>

void* __real_mj_arenaAllocByte(mjData* d, size_t bytes, size_t alignment);
void* __real_mj_stackAllocByte(mjData* d, size_t bytes, size_t alignment);
void* __real_mj_stackAllocInfo(mjData* d, size_t bytes, size_t alignment, const char* caller, int line);
mjtNum* __real_mj_stackAllocNum(mjData* d, size_t size);
int* __real_mj_stackAllocInt(mjData* d, size_t size);

static volatile long w_nalloc, w_nfailed, w_nstack, w_nviol;
static volatile size_t w_lastb, w_lasta;
// first violation: kind (1 arena, 2 stack), bytes, align, offset of the block, parena and pstack before
static volatile long long w_first[6];

static void w_violation(int kind, size_t bytes, size_t al, long long off, size_t pa0, size_t ps0) {
  if (!w_nviol) { w_first[0] = kind; w_first[1] = (long long)bytes; w_first[2] = (long long)al; w_first[3] = off;
                  w_first[4] = (long long)pa0; w_first[5] = (long long)ps0; }
  w_nviol++;
}

void* __wrap_mj_arenaAllocByte(mjData* d, size_t bytes, size_t alignment) {
  size_t pa0 = d->parena, ps0 = d->pstack;
  void* p = __real_mj_arenaAllocByte(d, bytes, alignment);
  w_nalloc++;
  if (!p) { w_nfailed++; w_lastb = bytes; w_lasta = alignment; return p; }
  long long off = (long long)((uintptr_t)p - (uintptr_t)d->arena);
  long long freeend = (long long)d->narena - (long long)d->pstack;
  int bad = off < (long long)pa0 || off + (long long)bytes > freeend || (long long)d->parena > freeend ||
            (long long)d->parena < off + (long long)bytes || d->pstack != ps0 ||
            (alignment && (alignment & (alignment - 1)) == 0 && ((size_t)off & (alignment - 1)));
  if (bad) w_violation(1, bytes, alignment, off, pa0, ps0);
  return p;
}

static void w_stack_check(mjData* d, void* p, size_t bytes, size_t alignment, size_t pa0, size_t ps0) {
  w_nstack++;
  if (!p) return;
  long long off = (long long)((uintptr_t)p - (uintptr_t)d->arena);
  long long top0 = (long long)d->narena - (long long)ps0;
  int bad = off < (long long)d->parena || (!d->threadlock && off + (long long)bytes > top0) ||
            off + (long long)bytes > (long long)d->narena ||
            (long long)d->parena + (long long)d->pstack > (long long)d->narena || d->parena != pa0 ||
            (alignment && (alignment & (alignment - 1)) == 0 && ((uintptr_t)p & (alignment - 1)));
  if (bad) w_violation(2, bytes, alignment, off, pa0, ps0);
}

void* __wrap_mj_stackAllocByte(mjData* d, size_t bytes, size_t alignment) {
  size_t pa0 = d->parena, ps0 = d->pstack;
  void* p = __real_mj_stackAllocByte(d, bytes, alignment);
  w_stack_check(d, p, bytes, alignment, pa0, ps0);
  return p;
}
void* __wrap_mj_stackAllocInfo(mjData* d, size_t bytes, size_t alignment, const char* caller, int line) {
  size_t pa0 = d->parena, ps0 = d->pstack;
  void* p = __real_mj_stackAllocInfo(d, bytes, alignment, caller, line);
  w_stack_check(d, p, bytes, alignment, pa0, ps0);
  return p;
}
mjtNum* __wrap_mj_stackAllocNum(mjData* d, size_t size) {
  size_t pa0 = d->parena, ps0 = d->pstack;
  mjtNum* p = __real_mj_stackAllocNum(d, size);
  w_stack_check(d, p, size * sizeof(mjtNum), _Alignof(mjtNum), pa0, ps0);
  return p;
}
int* __wrap_mj_stackAllocInt(mjData* d, size_t size) {
  size_t pa0 = d->parena, ps0 = d->pstack;
  int* p = __real_mj_stackAllocInt(d, size);
  w_stack_check(d, p, size * sizeof(int), _Alignof(int), pa0, ps0);
  return p;
}
#endif
