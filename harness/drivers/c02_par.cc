// C02 driver: multithreaded stepping vs single-threaded, on mjgen models.
//
// The unmodified engine_thread.cc of the working tree is compiled into this TU with mju_dispatch
// renamed to c02_real_dispatch; the mju_dispatch seen by the engine is defined here and, depending
// on the mode of the case, (O) forwards to the real dispatcher through a trampoline that observes
// thread ids and d->threadlock, (P) runs the tasks sequentially in a seeded random order with
// seeded random thread ids (task-granularity schedules), or (F) observes footprints: every task is
// run alone from a snapshot, its written bytes are classified into (array, element), and its
// independence from thread id, scratch content and the other tasks' outputs is tested.
// With -DC02_SHIM the same file is compiled against the controlled-scheduler shim of C03
// (shim_atomic.h): mode S runs the real dispatcher under seeded schedules of its atomic operations.
//
// stdin: one case per line
//   <mode> <seed> <feat> <nbody> <solver> <cone> <jac> <integ> <noslip> <nsteps> <spread> <nest>
//          <poolmask> <schedseed> <reps>
// stdout per case:  CASE <idx> ... lines ... END <status>
#include <math.h>
#include <stdint.h>
#include <stdio.h>
#include <stdlib.h>
#include <string.h>

#include <algorithm>
#include <map>
#include <set>
#include <string>
#include <type_traits>
#include <vector>

#include "mjgen.h"
#include "mjcmp.h"
#include "c02_sites.h"

#ifdef C02_SHIM
#include "shim_atomic.h"
#endif

#define mju_dispatch c02_real_dispatch
#include "engine/engine_thread.cc"
#undef mju_dispatch

#ifdef C02_SHIM
#undef atomic
#undef atomic_int
#undef thread
#undef mutex
#endif

extern "C" {
extern __thread int mj_nesterov_momentum;
}

// ------------------------------------------------------------------ globals
enum { MODE_REAL = 0, MODE_PERM = 1, MODE_FP = 2 };
static int g_mode = MODE_REAL;
static uint64_t g_sched = 1;
static long g_ndisp = 0, g_multi = 0, g_nolock = 0, g_ntask = 0;
static unsigned long long g_tidmask = 0;
static long g_site_count[4] = {0, 0, 0, 0};   // island, collision, tactile, other
static int g_fp_budget[4] = {0, 0, 0, 0};      // per site: number of dispatches still to observe in F mode
static long g_maxtask = 0;

static uint64_t srnd() {
  g_sched ^= g_sched << 13; g_sched ^= g_sched >> 7; g_sched ^= g_sched << 17;
  return g_sched;
}

static int site_of(mjTaskFunc f, void* arg) {
  if (c02_col_is(f)) return 1;
  if (c02_tac_is(f)) return 2;
  if (arg == NULL) return 0;   // solveIslandTask is the only dispatch with a NULL argument
  return 3;
}

// ------------------------------------------------------------------ (O) trampoline
struct Tramp { mjTaskFunc f; void* arg; int expect_lock; };
static void tramp(const mjModel* m, mjData* d, void* a, int tid, int task) {
  Tramp* t = (Tramp*)a;
  if (t->expect_lock && !d->threadlock) __atomic_fetch_add(&g_nolock, 1, __ATOMIC_RELAXED);
  if (tid >= 0 && tid < 64) __atomic_fetch_or(&g_tidmask, 1ull << tid, __ATOMIC_RELAXED);
  t->f(m, d, t->arg, tid, task);
}

// ------------------------------------------------------------------ (F) snapshots and classification
struct Snap {
  std::vector<char> st, buf, lo, hi;
  size_t parena, pstack;
};
static void take(Snap& s, const mjData* d) {
  s.parena = d->parena; s.pstack = d->pstack;
  s.st.assign((const char*)d, (const char*)d + sizeof(mjData));
  s.buf.assign((const char*)d->buffer, (const char*)d->buffer + d->nbuffer);
  s.lo.assign((const char*)d->arena, (const char*)d->arena + d->parena);
  s.hi.assign((const char*)d->arena + d->narena - d->pstack, (const char*)d->arena + d->narena);
}
static void restore(const Snap& s, mjData* d) {
  memcpy((void*)d, s.st.data(), sizeof(mjData));
  memcpy(d->buffer, s.buf.data(), s.buf.size());
  memcpy(d->arena, s.lo.data(), s.lo.size());
  memcpy((char*)d->arena + d->narena - s.pstack, s.hi.data(), s.hi.size());
}

struct Region { std::string name; int aid; const char* base; size_t esz; size_t n; int ignore; int isnum; };
static std::vector<Region> g_reg;
static std::map<std::string, int> g_aid;
static int aid_of(const std::string& nm) {
  static const char* fixed[] = {"", "iacc", "ifrc_constraint", "iefc_force", "iefc_state", "efc_force", "efc_state",
                                "contact_H", "solver", "solver_niter", "solver_nnz", "qacc", "qfrc_constraint"};
  for (int i = 1; i < 13; i++) if (nm == fixed[i]) return i;
  if (nm == "nconbuffer") return 20;
  if (nm == "conbuffer") return 21;
  if (nm == "epabuffer") return 22;
  if (nm == "forcesT") return 30;
  auto it = g_aid.find(nm);
  if (it != g_aid.end()) return it->second;
  int id = 1000 + (int)g_aid.size();
  g_aid[nm] = id;
  return id;
}
static void add_region(const std::string& nm, const void* base, size_t esz, size_t n, int ignore = 0, int isnum = 0) {
  if (!base || !n || !esz) return;
  g_reg.push_back(Region{nm, aid_of(nm), (const char*)base, esz, n, ignore, isnum});
}
#define C02_ISNUM(type) (std::is_same<type, mjtNum>::value ? 1 : 0)

static void build_regions(const mjModel* m, mjData* d, int site, mjTaskFunc func, void* arg, int ntask) {
  g_reg.clear();
  // struct fields
#define X(type, name) add_region(#name, &d->name, sizeof(type), 1, \
    (!strcmp(#name, "pstack") || !strcmp(#name, "pbase") || !strncmp(#name, "maxuse", 6)) ? 1 : 0);
  MJDATA_SCALAR
#undef X
#define X(type, name, nr, nc) add_region(#name, d->name, sizeof(type), (size_t)(nr) * (nc), !strcmp(#name, "timer") ? 1 : 0);
  MJDATA_VECTOR
#undef X
  add_region("threadlock", &d->threadlock, sizeof(d->threadlock), 1, 1);
  // buffer arrays
#define X(type, name, nr, nc) add_region(#name, d->name, sizeof(type), (size_t)(m->nr) * (nc), 0, C02_ISNUM(type));
  MJDATA_POINTERS
#undef X
  // arena arrays
#undef MJ_D
#define MJ_D(n) (d->n)
#undef MJ_M
#define MJ_M(n) (m->n)
#define X(type, name, nr, nc) if (strcmp(#name, "contact")) add_region(#name, d->name, sizeof(type), (size_t)(nr) * (nc), 0, C02_ISNUM(type));
  MJDATA_ARENA_POINTERS
#undef X
#undef MJ_D
#define MJ_D(n) n
#undef MJ_M
#define MJ_M(n) n
  add_region("contact", d->contact, sizeof(mjContact), (size_t)d->ncon);
  // shared stack buffers of the call site
  if (site == 1) {
    c02ColInfo ci; c02_col_info(arg, &ci);
    add_region("conbuffer", ci.conbuffer, ci.conelem, ci.maxcon);
    add_region("nconbuffer", ci.nconbuffer, sizeof(int), ci.npair);
    add_region("epabuffer", ci.epabuffer, 1, (size_t)ci.ccd_size * mju_numThread(d));
  } else if (site == 2) {
    c02TacInfo ti; c02_tac_info(m, arg, ntask, &ti);
    add_region("forcesT", ti.forcesT, sizeof(mjtNum), (size_t)3 * ti.ntaxel, 0, 1);
  }
}

struct Loc {
  int aid; long elem;
  bool operator<(const Loc& o) const { return aid < o.aid || (aid == o.aid && elem < o.elem); }
  bool operator==(const Loc& o) const { return aid == o.aid && elem == o.elem; }
};
struct TaskObs {
  std::vector<std::pair<char*, unsigned char>> bytes;   // changed bytes outside ignored fields and scratch gap
  std::set<Loc> locs;
};

static const Region* find_region(const char* p) {
  static size_t last = 0;
  if (last < g_reg.size()) {
    const Region& r = g_reg[last];
    if (p >= r.base && p < r.base + r.esz * r.n) return &r;
  }
  // shared-stack regions are appended last and may alias the generic ones: search from the end
  for (size_t k = g_reg.size(); k-- > 0;) {
    const Region& r = g_reg[k];
    if (p >= r.base && p < r.base + r.esz * r.n) { last = k; return &r; }
  }
  return NULL;
}

static void classify(char* p, unsigned char nv, const mjData* d, TaskObs& o) {
  const Region* r = find_region(p);
  if (r && r->ignore) return;
  o.bytes.push_back(std::make_pair(p, nv));
  if (!r) {
    // unlisted location: stack above the entry top (shared, allocated by the caller) or unknown struct bytes
    const char* bottom = (const char*)d->arena + d->narena;
    if (p >= (const char*)d->arena && p < bottom) o.locs.insert(Loc{aid_of("stack"), (long)(bottom - p) / 8});
    else o.locs.insert(Loc{aid_of("struct"), (long)(p - (const char*)d)});
    return;
  }
  long e = (long)((p - r->base) / r->esz);
  if (r->name == "contact") {
    size_t off = (size_t)(p - r->base) % r->esz;
    size_t h0 = offsetof(mjContact, H), h1 = h0 + sizeof(((mjContact*)0)->H);
    if (off >= h0 && off < h1) o.locs.insert(Loc{aid_of("contact_H"), e});
    else o.locs.insert(Loc{aid_of("contact_other"), e});
    return;
  }
  o.locs.insert(Loc{r->aid, e});
}

static void diff_block(const char* old, char* cur, size_t n, const mjData* d, TaskObs& o) {
  size_t i = 0;
  for (; i + 8 <= n; i += 8) {
    if (memcmp(old + i, cur + i, 8)) for (size_t k = i; k < i + 8; k++) if (old[k] != cur[k]) classify(cur + k, (unsigned char)cur[k], d, o);
  }
  for (; i < n; i++) if (old[i] != cur[i]) classify(cur + i, (unsigned char)cur[i], d, o);
}
static void diff(const Snap& s, mjData* d, TaskObs& o) {
  diff_block(s.st.data(), (char*)d, sizeof(mjData), d, o);
  diff_block(s.buf.data(), (char*)d->buffer, s.buf.size(), d, o);
  diff_block(s.lo.data(), (char*)d->arena, s.lo.size(), d, o);
  diff_block(s.hi.data(), (char*)d->arena + d->narena - s.pstack, s.hi.size(), d, o);
}
// compare current memory with a snapshot outside ignored fields and (optionally) outside the EPA scratch
static long differs(const Snap& s, mjData* d, std::string* where) {
  TaskObs o; diff(s, d, o);
  long n = 0;
  int epa = aid_of("epabuffer");
  for (const Loc& l : o.locs) if (l.aid != epa) {
    n++;
    if (where && where->size() < 200) {
      std::string nm = "?";
      for (const Region& r : g_reg) if (r.aid == l.aid) { nm = r.name; break; }
      if (l.aid == aid_of("contact_H")) nm = "contact_H";
      if (l.aid == aid_of("contact_other")) nm = "contact_other";
      *where += nm + "[" + std::to_string(l.elem) + "] ";
    }
  }
  return n;
}

static void print_ranges(int task, int tid, const std::set<Loc>& locs) {
  int aid = -1; long lo = 0, hi = -2;
  for (const Loc& l : locs) {
    if (l.aid == aid && l.elem == hi + 1) { hi = l.elem; continue; }
    if (aid >= 0) printf("W %d %d %d %ld %ld\n", task, tid, aid, lo, hi);
    aid = l.aid; lo = hi = l.elem;
  }
  if (aid >= 0) printf("W %d %d %d %ld %ld\n", task, tid, aid, lo, hi);
}

static void print_ints(const char* nm, const int* a, int n) {
  printf("L %s %d", nm, n);
  for (int i = 0; i < n; i++) printf(" %d", a[i]);
  printf("\n");
}

static void fp_dispatch(const mjModel* m, mjData* d, mjTaskFunc func, void* arg, int ntask) {
  int site = site_of(func, arg);
  int nthread = mju_numThread(d);
  build_regions(m, d, site, func, arg, ntask);
  static const char* sname[4] = {"island", "collision", "tactile", "other"};
  printf("DISP %s %d %d\n", sname[site], ntask, nthread);
  if (site == 0) {
    print_ints("island_nv", d->island_nv, d->nisland);
    print_ints("island_nefc", d->island_nefc, d->nisland);
    print_ints("island_idofadr", d->island_idofadr, d->nisland);
    print_ints("island_iefcadr", d->island_iefcadr, d->nisland);
    print_ints("efc_island", d->efc_island, d->nefc);
    print_ints("dof_island", d->dof_island, m->nv);
    std::vector<int> ci(d->ncon);
    for (int i = 0; i < d->ncon; i++) ci[i] = d->contact[i].efc_address >= 0 ? d->efc_island[d->contact[i].efc_address] : -1;
    print_ints("con_island", ci.data(), d->ncon);
    int k[2] = {mjNSOLVER, mjNISLAND};
    print_ints("consts", k, 2);
  } else if (site == 1) {
    c02ColInfo ci; c02_col_info(arg, &ci);
    std::vector<int> cp(ci.npair);
    for (int i = 0; i < ci.npair; i++) cp[i] = c02_col_conpos(arg, i);
    print_ints("conpos", cp.data(), ci.npair);
    int k[4] = {ci.chunksize, ci.npair, ci.maxcon, ci.ccd_size};
    print_ints("consts", k, 4);
  } else if (site == 2) {
    c02TacInfo ti; c02_tac_info(m, arg, ntask, &ti);
    int k[4] = {ti.ntaxel, ti.batch, ti.ntask, ti.last_end};
    print_ints("consts", k, 4);
  }

  Snap S0; take(S0, d);
  std::vector<TaskObs> obs(ntask);
  int epa = aid_of("epabuffer");
  size_t gap = d->narena - d->pstack - d->parena;
  size_t npoison = gap < (1u << 20) ? gap : (1u << 20);
  for (int i = 0; i < ntask; i++) {
    if (i) restore(S0, d);
    func(m, d, arg, 0, i);
    diff(S0, d, obs[i]);
    print_ranges(i, 0, obs[i].locs);
    if (d->parena != S0.parena || d->pstack != S0.pstack) printf("X bookkeeping task %d changed parena/pstack\n", i);
    // same task with another thread id on poisoned scratch
    restore(S0, d);
    memset((char*)d->arena + d->narena - d->pstack - npoison, 0xA5, npoison);
    if (site == 1) { c02ColInfo ci; c02_col_info(arg, &ci); memset((void*)ci.epabuffer, 0x5A, (size_t)ci.ccd_size * nthread); }
    int tid2 = nthread > 1 ? 1 + (i % (nthread - 1)) : 0;
    func(m, d, arg, tid2, i);
    TaskObs o2; diff(S0, d, o2);
    std::set<Loc> a, b, scr;
    for (const Loc& l : obs[i].locs) if (l.aid != epa) a.insert(l);
    for (const Loc& l : o2.locs) { if (l.aid != epa) b.insert(l); else scr.insert(l); }
    if (site == 1) {   // the poisoned EPA buffer itself shows up as changed bytes: keep only what the task rewrote
      std::set<Loc> scr2;
      c02ColInfo ci; c02_col_info(arg, &ci);
      for (const Loc& l : scr) if ((unsigned char)ci.epabuffer[l.elem] != 0x5A) scr2.insert(l);
      scr.swap(scr2);
    }
    print_ranges(i, tid2, scr);
    bool same = (a == b);
    if (same) {
      std::map<char*, unsigned char> ma;
      for (auto& pr : obs[i].bytes) ma[pr.first] = pr.second;
      for (auto& pr : o2.bytes) {
        const Region* r = find_region(pr.first);
        if (r && r->aid == epa) continue;
        auto it = ma.find(pr.first);
        if (it == ma.end() || it->second != pr.second) { same = false; break; }
      }
    }
    if (!same) printf("X tid-or-scratch task %d: outputs differ between thread id 0 and %d on poisoned scratch\n", i, tid2);
  }
  // write sets pairwise disjoint (outside per-thread scratch)
  {
    std::map<Loc, int> owner;
    for (int i = 0; i < ntask; i++) for (const Loc& l : obs[i].locs) {
      if (l.aid == epa) continue;
      auto it = owner.find(l);
      if (it != owner.end() && it->second != i) {
        std::string nm = "?";
        for (const Region& r : g_reg) if (r.aid == l.aid) { nm = r.name; break; }
        printf("X overlap tasks %d and %d both write %s[%ld]\n", it->second, i, nm.c_str(), l.elem);
      } else owner[l] = i;
    }
  }
  // sequential composition equals the union of the solo effects
  restore(S0, d);
  for (int i = 0; i < ntask; i++) func(m, d, arg, 0, i);
  Snap F; take(F, d);
  {
    restore(S0, d);
    for (int i = 0; i < ntask; i++) for (auto& pr : obs[i].bytes) {
      const Region* r = find_region(pr.first);
      if (r && r->aid == epa) continue;
      *pr.first = (char)pr.second;
    }
    std::string w; long nd = differs(F, d, &w);
    if (nd) printf("X composition sequential result differs from the union of solo effects at %ld locations: %s\n", nd, w.c_str());
  }
  // reverse order
  {
    restore(S0, d);
    for (int i = ntask - 1; i >= 0; i--) func(m, d, arg, (i % nthread), i);
    std::string w; long nd = differs(F, d, &w);
    if (nd) printf("X order reverse-order result differs at %ld locations: %s\n", nd, w.c_str());
  }
  // each task rerun on top of everybody else's outputs
  for (int k = 0; k < ntask; k++) {
    restore(F, d);
    for (auto& pr : obs[k].bytes) {
      const Region* r = find_region(pr.first);
      if (r && r->aid == epa) continue;
      // revert to the value before the batch
      const char* p = pr.first;
      char oldv;
      if (p >= (char*)d && p < (char*)d + sizeof(mjData)) oldv = S0.st[p - (char*)d];
      else if (p >= (char*)d->buffer && p < (char*)d->buffer + d->nbuffer) oldv = S0.buf[p - (char*)d->buffer];
      else if (p >= (char*)d->arena && p < (char*)d->arena + S0.parena) oldv = S0.lo[p - (char*)d->arena];
      else oldv = S0.hi[p - ((char*)d->arena + d->narena - S0.pstack)];
      *pr.first = oldv;
    }
    func(m, d, arg, 0, k);
    std::string w; long nd = differs(F, d, &w);
    if (nd) printf("X reads-other task %d rerun after all other tasks gives different outputs at %ld locations: %s\n", k, nd, w.c_str());
  }
  // NaN taint: every floating-point location another task writes is set to NaN before the task runs alone; a task that
  // reads such a location (even multiplied by an exact zero) produces different outputs
  for (int k = 0; k < ntask; k++) {
    restore(S0, d);
    long ntaint = 0;
    for (int j = 0; j < ntask; j++) if (j != k) for (const Loc& l : obs[j].locs) {
      if (l.aid == epa) continue;
      for (const Region& r : g_reg) if (r.aid == l.aid && r.isnum && (size_t)l.elem < r.n) {
        ((mjtNum*)r.base)[l.elem] = NAN; ntaint++; break;
      }
    }
    if (!ntaint) continue;
    func(m, d, arg, 0, k);
    long bad = 0; std::string w;
    for (auto& pr : obs[k].bytes) {
      const Region* r = find_region(pr.first);
      if (r && r->aid == epa) continue;
      if ((unsigned char)*pr.first != pr.second) {
        bad++;
        if (w.size() < 160 && r) { std::string e = r->name + "[" + std::to_string((pr.first - r->base) / r->esz) + "] "; if (w.find(e) == std::string::npos) w += e; }
      }
    }
    if (bad) printf("X reads-other-task-output task %d run alone with the floating-point outputs of the other tasks preset to NaN changes %ld output bytes: %s\n", k, bad, w.c_str());
  }
  restore(F, d);
  {
    std::set<int> used;
    for (int i = 0; i < ntask; i++) for (const Loc& l : obs[i].locs) used.insert(l.aid);
    for (auto& kv : g_aid) if (used.count(kv.second)) printf("N %d %s\n", kv.second, kv.first.c_str());
  }
}

// ------------------------------------------------------------------ the dispatcher seen by the engine
extern "C" void mju_dispatch(const mjModel* m, mjData* d, mjTaskFunc func, void* arg, int ntask) {
  int site = site_of(func, arg);
  if (ntask >= 2) { g_ndisp++; g_site_count[site]++; g_ntask += ntask; if (ntask > g_maxtask) g_maxtask = ntask; }
  if (g_mode == MODE_REAL || !d->threadpool || ntask < 2) {
    Tramp t{func, arg, (d->threadpool && ntask >= 2) ? 1 : 0};
    g_tidmask = 0;
    c02_real_dispatch(m, d, tramp, &t, ntask);
    if (__builtin_popcountll(g_tidmask) >= 2) g_multi++;
    return;
  }
  if (g_mode == MODE_FP) {
    if (g_fp_budget[site] > 0) { g_fp_budget[site]--; fp_dispatch(m, d, func, arg, ntask); }
    else for (int i = 0; i < ntask; i++) func(m, d, arg, 0, i);
    return;
  }
  // MODE_PERM: tasks one after the other in a random order, each with a random thread id, under the
  // same stack locking as the real dispatcher
  int nthread = mju_numThread(d);
  std::vector<int> perm(ntask);
  for (int i = 0; i < ntask; i++) perm[i] = i;
  for (int i = ntask - 1; i > 0; i--) std::swap(perm[i], perm[srnd() % (i + 1)]);
  if (!d->threadlock) { mj_markStack(d); d->threadlock = true; }
  for (int i = 0; i < ntask; i++) func(m, d, arg, (int)(srnd() % nthread), perm[i]);
  if (d->threadlock) {
    d->maxuse_stack = mjMAX(d->maxuse_stack, d->pstack);
    d->maxuse_arena = mjMAX(d->maxuse_arena, d->pstack + d->parena);
    d->threadlock = false;
    mj_freeStack(d);
  }
  g_multi++;
}

// ------------------------------------------------------------------ cases
struct Case {
  char mode; unsigned long long seed; unsigned feat; int nbody, solver, cone, jac, integ, noslip, nsteps, spread, nest;
  unsigned poolmask; unsigned long long schedseed; int reps;
};

// feature bit 30: tactile units.  Each unit is a hinged body with a sphere geom carrying a tactile
// sensor over a pad mesh of 1201 / 1301 / 1026 vertices (a latitude band of the sphere plus the pole as last vertex; it is
// not used by any geom, so no convex hull is needed) and a free sphere pressed into it.  With >= 1000
// taxels mj_computeSensor takes the mju_dispatch path (tactileTask).
#define C02_TACTILE (1u << 30)
static void add_tactile(mjSpec* s, uint64_t seed) {
  mjg_rng R = {seed * 31 + 7};
  mjsBody* world = mjs_findBody(s, "world");
  // taxel counts 1201 / 1301 (primes) / 1026: no total thread count 2..9 divides the first two, and the LAST vertex is
  // the pole right under the pressing sphere, so a batching that drops trailing taxels changes the sensor output
  static const int lons[3] = {48, 52, 41};
  int nlat = 24, nlon = lons[mjg_int(&R, 3)];
  double r = 0.1;
  int nv = (nlat + 1) * nlon + 1;
  std::vector<float> v(3 * nv);
  for (int i = 0; i <= nlat; i++) for (int j = 0; j < nlon; j++) {
    double th = (-80.0 + 160.0 * i / nlat) * M_PI / 180, ph = 2 * M_PI * j / nlon;
    int k = i * nlon + j;
    v[3 * k] = (float)(r * cos(th) * cos(ph)); v[3 * k + 1] = (float)(r * cos(th) * sin(ph)); v[3 * k + 2] = (float)(r * sin(th));
  }
  v[3 * (nv - 1)] = 0; v[3 * (nv - 1) + 1] = 0; v[3 * (nv - 1) + 2] = (float)r;
  std::vector<int> f;
  for (int i = 0; i < nlat; i++) for (int j = 0; j < nlon; j++) {
    int a = i * nlon + j, b = i * nlon + (j + 1) % nlon, c = (i + 1) * nlon + j, d = (i + 1) * nlon + (j + 1) % nlon;
    f.push_back(a); f.push_back(b); f.push_back(d); f.push_back(a); f.push_back(d); f.push_back(c);
  }
  for (int j = 0; j < nlon; j++) { f.push_back(nv - 1); f.push_back(nlat * nlon + j); f.push_back(nlat * nlon + (j + 1) % nlon); }
  mjsMesh* me = mjs_addMesh(s, NULL);
  mjs_setName(me->element, "tpad");
  mjs_setFloat(me->uservert, v.data(), (int)v.size());
  mjs_setInt(me->userface, f.data(), (int)f.size());
  int nunit = 1 + mjg_int(&R, 2);
  for (int u = 0; u < nunit; u++) {
    char nm[32];
    mjsBody* A = mjs_addBody(world, NULL);
    snprintf(nm, sizeof(nm), "tA%d", u); mjs_setName(A->element, nm);
    A->pos[0] = 6 + 0.8 * u; A->pos[2] = 0.5;
    mjsGeom* ga = mjs_addGeom(A, NULL); ga->type = mjGEOM_SPHERE; ga->size[0] = r;
    snprintf(nm, sizeof(nm), "tga%d", u); mjs_setName(ga->element, nm);
    mjsJoint* ja = mjs_addJoint(A, NULL); ja->type = mjJNT_HINGE; ja->axis[0] = 1; ja->axis[2] = 0;
    snprintf(nm, sizeof(nm), "tja%d", u); mjs_setName(ja->element, nm);
    int nb = 1 + mjg_int(&R, 2);
    for (int b = 0; b < nb; b++) {
      mjsBody* B = mjs_addBody(world, NULL);
      snprintf(nm, sizeof(nm), "tB%d_%d", u, b); mjs_setName(B->element, nm);
      B->pos[0] = A->pos[0] + mjg_range(&R, -0.03, 0.03); B->pos[1] = mjg_range(&R, -0.03, 0.03) + (b ? 0.12 : 0);   // b == 0 presses on the pole = last taxel
      B->pos[2] = 0.5 + (b ? -0.1 : 0.15);
      mjsGeom* gb = mjs_addGeom(B, NULL); gb->type = b ? mjGEOM_BOX : mjGEOM_SPHERE;
      gb->size[0] = 0.08; gb->size[1] = 0.05; gb->size[2] = 0.04;
      snprintf(nm, sizeof(nm), "tgb%d_%d", u, b); mjs_setName(gb->element, nm);
      mjsJoint* jb = mjs_addJoint(B, NULL); jb->type = mjJNT_SLIDE; jb->axis[2] = 1;
      snprintf(nm, sizeof(nm), "tjb%d_%d", u, b); mjs_setName(jb->element, nm);
    }
    mjsSensor* sn = mjs_addSensor(s);
    sn->type = mjSENS_TACTILE; sn->objtype = mjOBJ_MESH; mjs_setString(sn->objname, "tpad");
    sn->reftype = mjOBJ_GEOM;
    snprintf(nm, sizeof(nm), "tga%d", u); mjs_setString(sn->refname, nm);
    snprintf(nm, sizeof(nm), "tac%d", u); mjs_setName(sn->element, nm);
  }
}

static mjModel* build(const Case& c, mjSpec** sp) {
  mjSpec* s = mjg_spec(c.seed, c.feat & 0x7FFFF, c.nbody);
  if (c.feat & C02_TACTILE) add_tactile(s, c.seed);
  s->memory = 8 << 20;
  mjModel* m = mj_compile(s, NULL);
  if (!m) { printf("NOCOMPILE %s\n", mjs_getError(s)); mj_deleteSpec(s); return NULL; }
  if (c.feat & C02_TACTILE) {
    // second pass: the compiler re-centres and re-orients the pad mesh, so the taxel positions (mesh_vert, in the frame
    // of the sensor geom) are only known now.  Press the sphere of every unit on the LAST taxel and the box on the FIRST.
    int mid = mj_name2id(m, mjOBJ_MESH, "tpad");
    if (mid >= 0) {
      const float* vv = m->mesh_vert + 3 * m->mesh_vertadr[mid];
      int n = m->mesh_vertnum[mid];
      for (int u = 0; u < 8; u++) {
        char nm[32];
        snprintf(nm, sizeof(nm), "tA%d", u);
        mjsBody* A = mjs_findBody(s, nm);
        if (!A) break;
        for (int b = 0; b < 2; b++) {
          snprintf(nm, sizeof(nm), "tB%d_%d", u, b);
          mjsBody* B = mjs_findBody(s, nm);
          if (!B) continue;
          const float* p = b ? vv : vv + 3 * (n - 1);
          double len = sqrt((double)p[0] * p[0] + (double)p[1] * p[1] + (double)p[2] * p[2]);
          double k = 1 + (b ? 0.03 : 0.05) / (len > 1e-6 ? len : 1);
          for (int i = 0; i < 3; i++) B->pos[i] = A->pos[i] + k * p[i];
        }
      }
      mj_deleteModel(m);
      m = mj_compile(s, NULL);
      if (!m) { printf("NOCOMPILE %s\n", mjs_getError(s)); mj_deleteSpec(s); return NULL; }
    }
  }
  m->opt.solver = c.solver;
  m->opt.cone = c.cone;
  m->opt.jacobian = c.jac;
  m->opt.integrator = c.integ;
  m->opt.noslip_iterations = c.noslip;
  m->opt.iterations = 30;
  if (c.spread & 2) m->opt.disableflags |= mjDSBL_MIDPHASE;   // all-to-all geom pairs: large narrow-phase batches
  *sp = s;
  return m;
}

static void init_state(const Case& c, const mjModel* m, mjData* d) {
  mj_resetData(m, d);
  mjg_rng R = {c.seed * 77 + 5};
  mjg_random_state(m, d, &R, 0.5);
  for (int j = 0; j < m->njnt; j++) {   // tactile units stay in contact
    const char* nm = mj_id2name(m, mjOBJ_JOINT, j);
    if (nm && nm[0] == 't' && nm[1] == 'j') d->qpos[m->jnt_qposadr[j]] = m->qpos0[m->jnt_qposadr[j]] + mjg_range(&R, -0.01, 0.01);
  }
  if (c.spread & 1) {
    int k = 0;
    for (int j = 0; j < m->njnt; j++) if (m->jnt_type[j] == mjJNT_FREE) {
      int a = m->jnt_qposadr[j];
      d->qpos[a] = 1.1 * (k % 5) - 2.0; d->qpos[a + 1] = 1.1 * (k / 5) - 2.0; d->qpos[a + 2] = 0.06 + 0.01 * (k % 3);
      k++;
    }
  }
}

// With the PGS solver the island copies ifrc_smooth, iacc_smooth, iacc, ifrc_constraint, iefc_force,
// iefc_aref are allocated by mj_island but never written (mj_fwdConstraint gathers them for CG and
// Newton only): they hold whatever the shared arena/stack memory contained before, which differs
// between mjData instances.  They are not results of the computation; clear them before comparing.
static void neutralize_unset(const mjModel* m, mjData* d) {
  if (d->nisland <= 0) return;
  if (d->ifrc_smooth) memset(d->ifrc_smooth, 0, sizeof(mjtNum) * d->nidof);
  if (d->iacc_smooth) memset(d->iacc_smooth, 0, sizeof(mjtNum) * d->nidof);
  if (d->iacc) memset(d->iacc, 0, sizeof(mjtNum) * d->nidof);
  if (d->ifrc_constraint) memset(d->ifrc_constraint, 0, sizeof(mjtNum) * d->nidof);
  if (d->iefc_force) memset(d->iefc_force, 0, sizeof(mjtNum) * d->nefc);
  if (d->iefc_aref) memset(d->iefc_aref, 0, sizeof(mjtNum) * d->nefc);
  if (d->iefc_state) memset(d->iefc_state, 0, sizeof(int) * d->nefc);
}

static int nstage(const Case& c) { return 3 + c.nsteps; }
static const char* stage_name(const Case& c, int s) {
  if (s == 0) return "forward";
  if (s == 1) return "inverse";
  if (s == nstage(c) - 1) return "forward2";
  return "step";
}
static void run_stage(const Case& c, const mjModel* m, mjData* d, int s) {
  if (s == 0 || s == nstage(c) - 1) mj_forward(m, d);
  else if (s == 1) mj_inverse(m, d);
  else mj_step(m, d);
}

static int run_case(const Case& c) {
  g_ndisp = g_multi = g_nolock = g_ntask = g_maxtask = 0;
  for (int i = 0; i < 4; i++) g_site_count[i] = 0;
  mjSpec* sp = NULL;
  mjModel* m = build(c, &sp);
  if (!m) { printf("END NOCOMPILE\n"); return 0; }
  mj_nesterov_momentum = c.nest;
  char buf[512];
  int total_diff = 0;
  for (int rep = 0; rep < c.reps; rep++) {
    std::vector<int> sizes;
    sizes.push_back(0);
    for (int k = 1; k < 32; k++) if (c.poolmask & (1u << k)) sizes.push_back(k);
    std::vector<mjData*> D;
    for (size_t k = 0; k < sizes.size(); k++) {
      mjData* d = mj_makeData(m);
      init_state(c, m, d);
      if (sizes[k] > 0) mju_threadpool(d, sizes[k]);
      D.push_back(d);
    }
    g_sched = c.schedseed * 0x9E3779B97F4A7C15ull + 88172645463325252ull + rep;
    for (int s = 0; s < nstage(c); s++) {
      for (size_t k = 0; k < D.size(); k++) {
        g_mode = MODE_REAL;
        if (k > 0 && c.mode == 'P') g_mode = MODE_PERM;
        if (k > 0 && c.mode == 'F') { g_mode = MODE_FP; for (int q = 0; q < 4; q++) g_fp_budget[q] = (s == 0 || s == 2) ? 2 : 0; }
        run_stage(c, m, D[k], s);
        g_mode = MODE_REAL;
        if (k == 0) {
          if (rep == 0 && s == 0) {
            int big = 0, mx = 0;
            for (int i = 0; i < D[0]->nisland; i++) { if (D[0]->island_nefc[i] > mx) mx = D[0]->island_nefc[i]; }
            printf("STAT nv %d ncon %d nefc %d nisland %d maxislandnefc %d nidof %d narena %zu\n", (int)m->nv, D[0]->ncon, D[0]->nefc,
                   D[0]->nisland, mx, D[0]->nidof, (size_t)D[0]->narena);
            (void)big;
          }
          continue;
        }
        if (c.solver == mjSOL_PGS) { neutralize_unset(m, D[0]); neutralize_unset(m, D[k]); }
        int nd = mjcmp_data(m, D[0], D[k], buf, sizeof(buf), 0);
        if (nd) {
          total_diff += nd;
          printf("DIFF rep %d pool %d stage %d %s ndiff %d : %s\n", rep, sizes[k], s, stage_name(c, s), nd, buf);
        }
      }
    }
    for (size_t k = 0; k < D.size(); k++) mj_deleteData(D[k]);
  }
  printf("DISPATCH n %ld multi %ld nolock %ld ntask %ld maxtask %ld island %ld collision %ld tactile %ld other %ld\n", g_ndisp, g_multi, g_nolock,
         g_ntask, g_maxtask, g_site_count[0], g_site_count[1], g_site_count[2], g_site_count[3]);
  printf("END %s\n", total_diff ? "DIFF" : "OK");
  mj_deleteModel(m);
  mj_deleteSpec(sp);
  return 0;
}

#ifdef C02_SHIM
static void on_abort(const char* why) { printf("END %s\n", why); fflush(stdout); }
#endif

int main() {
  mjg_install_handlers();
  setvbuf(stdout, NULL, _IOFBF, 1 << 16);
  Case c;
  int idx = 0;
  char mode[4];
  while (scanf("%3s %llu %u %d %d %d %d %d %d %d %d %d %u %llu %d", mode, &c.seed, &c.feat, &c.nbody, &c.solver, &c.cone, &c.jac,
               &c.integ, &c.noslip, &c.nsteps, &c.spread, &c.nest, &c.poolmask, &c.schedseed, &c.reps) == 15) {
    c.mode = mode[0];
    printf("CASE %d\n", idx++);
    fflush(stdout);
#ifdef C02_SHIM
    verif::S().on_abort = on_abort;
    verif::S().reset(c.schedseed, (int)(c.schedseed % 4), (int)((c.schedseed / 4) % 3));
    verif::S().cap = 4000000;
#endif
    run_case(c);
    fflush(stdout);
  }
  return 0;
}
