"""C44 MJX driver.  argv: <repo> <mode>; stdin: one JSON document; stdout: one JSON document.

mode "state": runs mjx.state_size / get_state / set_state of the working tree's io.py on models given as MJCF strings
  (parsed by the installed wheel: MJX only needs an MjModel) for the requested signatures, evaluates the round-trip
  laws on the implementation outputs with its own list of state fields, and returns sizes, law bits, a checksum of
  all outputs (same function as StateAPI.hall, recomputed in Coq from the model) and, for "full" cases, the vectors.
mode "oracle": support oracles on implementation output: jit / vmap vs eager, put_data -> get_data, make_data vs
  put_data of a fresh MjData."""
import json, os, sys, time

sys.path.insert(0, os.path.dirname(os.path.abspath(__file__)))
import c44_mjxenv

repo, mode = sys.argv[1], sys.argv[2]
jax, mujoco, mjx = c44_mjxenv.load(repo)
import numpy as np
import jax.numpy as jp

jax.config.update("jax_disable_most_optimizations", mode == "state")   # state mode compiles thousands of tiny programs

# the driver's own list: order of the mjtState bits in this tree (checked against the wheel's enum by the harness)
FIELDS = ["time", "qpos", "qvel", "act", "history", "qacc_warmstart", "ctrl", "qfrc_applied", "xfrc_applied",
          "eq_active", "mocap_pos", "mocap_quat", "userdata", "plugin_state"]
BOOL = {"eq_active"}
DIMNAMES = ["nq", "nv", "na", "nhistory", "nu", "nbody", "neq", "nmocap", "nuserdata", "npluginstate"]
MASK63 = (1 << 63) - 1


def field_lens(dims):
    return [1, dims["nq"], dims["nv"], dims["na"], dims["nhistory"], dims["nv"], dims["nu"], dims["nv"], 6 * dims["nbody"],
            dims["neq"], 3 * dims["nmocap"], 4 * dims["nmocap"], dims["nuserdata"], dims["npluginstate"]]


def fillval(tag, k, j, isbool):
    if isbool:
        return (k + j) % 2 if tag == 0 else 1 - (k + j) % 2
    return (tag + 1) * 100000 + k * 1000 + j + 1


def vecval(seed, pos):
    return (seed + pos * (pos + 3)) % 7 - 3


def hstep(h, x):
    return (h * 1000003 + (x & MASK63) + 7) & MASK63


def hacc(h, l):
    h = hstep(h, len(l))
    for x in l:
        h = hstep(h, x)
    return h


def hall(size, ls):
    h = size & MASK63
    for l in ls:
        h = hacc(h, l)
    return h


def ints(a):
    a = np.asarray(a, dtype=np.float64).reshape(-1)
    r = np.rint(a)
    if a.size and not np.array_equal(r, a):
        raise ValueError("non-integer value in a state vector")
    return [int(x) for x in r]


def wheel_enum():
    out = []
    for name in dir(mujoco.mjtState):
        if name.startswith("mj"):
            out.append([name, int(getattr(mujoco.mjtState, name).value)])
    return sorted(out, key=lambda p: (p[1], p[0]))


class Model:
    def __init__(self, xml):
        self.m = mujoco.MjModel.from_xml_string(xml)
        self.mx = mjx.put_model(self.m)
        self.dx = mjx.put_data(self.m, mujoco.MjData(self.m))
        self.dims = {k: int(getattr(self.m, k)) for k in DIMNAMES}
        self.lens = field_lens(self.dims)
        self.shapes = {f: tuple(getattr(self.dx, f).shape) for f in FIELDS}
        self.fill = [self.filled(tag) for tag in range(3)]

    def filled(self, tag, numpy_backed=False):
        upd = {}
        for k, f in enumerate(FIELDS):
            vals = [fillval(tag, k, j, f in BOOL) for j in range(self.lens[k])]
            a = np.array(vals, dtype=bool if f in BOOL else np.float64).reshape(self.shapes[f])
            upd[f] = a if numpy_backed else jp.asarray(a)
        return self.dx.replace(**upd)

    def dump(self, d):
        out = []
        for f in FIELDS:
            out += ints(getattr(d, f))
        return out

    def comp(self, d, k):
        return ints(getattr(d, FIELDS[k]))


def outcome(fn):
    try:
        return fn(), None
    except (ValueError, NotImplementedError, IndexError, TypeError, KeyError) as e:
        return None, type(e).__name__


def run_case(M, sig, seed, full, jax_vectors):
    """the outputs of one (model, signature): size, v = get(d0), d1' = set(d1, w), g = get(d1'), d1'' = set(d1, v)"""
    mx, (d0, d1, _) = M.mx, M.fill
    n = len(FIELDS)
    size = mjx.state_size(mx, sig)
    v_j = mjx.get_state(mx, d0, sig)
    v = ints(v_j)
    w = [vecval(seed, pos) for pos in range(size)]
    w_arr = jp.asarray(np.array(w, dtype=np.float64)) if jax_vectors else np.array(w, dtype=np.float64)
    d1p = mjx.set_state(mx, d1, w_arr, sig)
    g = ints(mjx.get_state(mx, d1p, sig))
    d1pp = mjx.set_state(mx, d1, v_j if jax_vectors else np.asarray(v_j), sig)
    dump1, dump2 = M.dump(d1p), M.dump(d1pp)
    laws = 0
    if len(v) != size:
        laws |= 1
    exp_get = [fillval(0, k, j, FIELDS[k] in BOOL) for k in range(n) if (sig >> k) & 1 for j in range(M.lens[k])]
    if v != exp_get or size != len(exp_get):
        laws |= 64
    # set(get(d0)) on d1: components of sig equal d0's, the others d1's
    for k in range(n):
        src = d0 if (sig >> k) & 1 else d1
        if M.comp(d1pp, k) != M.comp(src, k):
            laws |= 2
    wv, pos = [], 0
    for k in range(n):
        if (sig >> k) & 1:
            for j in range(M.lens[k]):
                wv.append((1 if w[pos] != 0 else 0) if FIELDS[k] in BOOL else w[pos])
                pos += 1
    if g != wv:
        laws |= 4
    # set(d1, w) leaves the other components of d1
    for k in range(n):
        if not (sig >> k) & 1 and M.comp(d1p, k) != M.comp(d1, k):
            laws |= 2
    if M.dump(d0) != [fillval(0, k, j, FIELDS[k] in BOOL) for k in range(n) for j in range(M.lens[k])]:
        laws |= 32
    res = {"laws": laws, "size": size, "hash": hall(size, [v, dump1, g, dump2])}
    if full:
        res["vecs"] = [v, dump1, g, dump2]
    return res


def run_err(M, sig, extra):
    """outcomes on arbitrary python ints: [size None?, size, get None?, hash(get), set None?, hash(dump(set))];
    the vector given to set_state has length state_size + extra"""
    mx, (d0, d1, _) = M.mx, M.fill
    size, e1 = outcome(lambda: mjx.state_size(mx, sig))
    v, e2 = outcome(lambda: ints(mjx.get_state(mx, d0, sig)))
    ln = max(0, (size or 0) + extra)
    w = [vecval(5, pos) for pos in range(ln)]
    d, e3 = outcome(lambda: M.dump(mjx.set_state(mx, d1, np.array(w, dtype=np.float64), sig)))
    return {"r": [int(size is None), size or 0, int(v is None), hacc(0, v) if v is not None else 0,
                  int(d is None), hacc(0, d) if d is not None else 0], "exc": [e1, e2, e3]}


def mode_state(req):
    models = [Model(x) for x in req["models"]]
    out = {"wheel_version": mujoco.__version__, "wheel_enum": wheel_enum(), "mjx_file": mjx.__file__,
           "dims": [M.dims for M in models], "cases": [], "err": []}
    for c in req["cases"]:
        try:
            out["cases"].append(run_case(models[c["mid"]], c["sig"], c["seed"], c.get("full", False), c.get("jaxvec", False)))
        except Exception as e:       # a valid signature must not raise: reported as law 128
            r = {"laws": 128, "size": -1, "hash": 0, "exc": "%s: %s" % (type(e).__name__, str(e)[:200])}
            if c.get("full"):
                r["vecs"] = []
            out["cases"].append(r)
    for mid, sig, extra in req["err"]:
        out["err"].append(run_err(models[mid], sig, extra))
    return out


# --------------------------------------------------------------------------------------------- oracle mode
def leaves(tree):
    return [(jax.tree_util.keystr(p), np.asarray(x)) for p, x in jax.tree_util.tree_flatten_with_path(tree)[0]]


def maxdiff(a, b):
    """largest scaled difference between two pytrees with the same structure; None when structures differ"""
    la, lb = leaves(a), leaves(b)
    if [p for p, _ in la] != [p for p, _ in lb]:
        return None, "treedef"
    worst, where = 0.0, ""
    for (p, x), (_, y) in zip(la, lb):
        if x.shape != y.shape:
            return None, p + " shape"
        if not x.size:
            continue
        xf, yf = x.astype(np.float64), y.astype(np.float64)
        nn = np.isnan(xf) != np.isnan(yf)
        if nn.any():
            return float("inf"), p + " nan"
        with np.errstate(invalid="ignore"):
            dd = np.abs(xf - yf) / (1.0 + np.abs(yf))
        dd = np.where(np.isnan(dd), 0.0, dd)
        dd = np.where((xf == yf), 0.0, dd)
        m = float(dd.max())
        if m > worst:
            worst, where = m, p
    return worst, where


def rand_state(M, m, rng, contact):
    """random smooth state; with contact=True the configuration stays close to qpos0 (where the model is in contact)"""
    d = mujoco.MjData(m)
    amp = 0.004 if contact else 0.2
    d.qpos[:] = m.qpos0 + rng.uniform(-amp, amp, m.nq)
    for j in range(m.njnt):
        a = m.jnt_qposadr[j]
        if m.jnt_type[j] == 0:
            if not contact:
                d.qpos[a + 2] += 1.0
            q = d.qpos[a + 3:a + 7]
            d.qpos[a + 3:a + 7] = q / np.linalg.norm(q)
        if m.jnt_type[j] == 1:
            q = d.qpos[a:a + 4]
            d.qpos[a:a + 4] = q / np.linalg.norm(q)
    d.qvel[:] = rng.uniform(-0.5, 0.5, m.nv)
    d.ctrl[:] = rng.uniform(-0.5, 0.5, m.nu)
    if m.na:
        d.act[:] = rng.uniform(-0.2, 0.2, m.na)
    return d


RT_XML = """<mujoco><option cone="{cone}" jacobian="{jac}"/>
  <worldbody>
    <geom name="floor" type="plane" size="5 5 .1" condim="{condim}"/>
    <body pos="0 0 0.08"><freejoint/><geom name="ball" type="sphere" size=".1" condim="{condim}"/></body>
    <body pos="0.6 0 0.04"><freejoint/><geom name="cap" type="capsule" size=".05 .1" condim="{condim}" euler="0 90 0"/></body>
    <body pos="1 0 0.5"><joint name="hinge" type="hinge" axis="0 1 0" limited="true" range="-10 10" frictionloss="0.05"/>
      <geom type="capsule" size=".02" fromto="0 0 0 .2 0 0" contype="0" conaffinity="0"/>
      <body pos="0.2 0 0"><joint name="h2" type="hinge" axis="0 1 0"/><geom size="0.03" contype="0" conaffinity="0"/></body></body>
    <body name="anchor" pos="2 0 0.5"><joint name="s" type="slide" axis="0 0 1"/><geom size="0.05" contype="0" conaffinity="0"/></body>
  </worldbody>
  <equality>{eq}</equality>
</mujoco>"""
RT_EFC = ("efc_pos", "efc_margin", "efc_D", "efc_aref", "efc_force", "efc_frictionloss")
RT_CON = ("dist", "pos", "frame", "includemargin", "friction", "solref", "solimp", "dim", "geom", "efc_address")


SNAP_PUBLIC = ("qpos", "qvel", "act", "ctrl", "qacc", "xpos", "xquat", "xmat", "geom_xpos", "qfrc_bias", "qfrc_passive", "qacc_warmstart", "time",
               "mocap_pos", "sensordata", "subtree_com", "cvel")


def snapshot_checks(out):
    """put_data / get_data / put_model / make_data return SNAPSHOTS: changing the source object afterwards (stepping the MjData, writing its arrays,
    mj_resetData; writing MjModel arrays) must not change the mjx object, and changing what get_data returned must not change the mjx.Data"""
    xml = """<mujoco><option timestep="0.01"/><worldbody><geom type="plane" size="5 5 .1"/>
      <body name="mc" mocap="true" pos="1 2 3"><geom size="0.05" contype="0" conaffinity="0"/></body>
      <body pos="0 0 0.3"><freejoint/><geom size="0.1"/><body pos="0.3 0 0"><joint name="h" type="hinge" axis="0 1 0" damping="0.1"/><geom type="capsule" size="0.04 0.1"/></body></body>
      </worldbody><actuator><general joint="h" dyntype="integrator" gainprm="1"/></actuator>
      <sensor><jointpos joint="h"/><framepos objtype="body" objname="mc"/></sensor></mujoco>"""
    m = mujoco.MjModel.from_xml_string(xml)
    d = mujoco.MjData(m)
    d.qvel[:] = 0.1 * np.arange(1, m.nv + 1); d.ctrl[:] = 0.7; d.act[:] = 0.2
    mujoco.mj_step(m, d, 3)

    def grab(dx):
        return {f: np.array(getattr(dx, f), copy=True) for f in SNAP_PUBLIC if hasattr(dx, f)}

    def diff(a, b):
        return [f for f in a if a[f].shape != b[f].shape or not np.array_equal(a[f], b[f], equal_nan=True)]

    def add(name, what, bad):
        out["checks"].append({"kind": "snapshot", "model": name, "what": what, "diff": 0.0 if not bad else float("inf"), "where": ",".join(bad[:10]), "tol": 0.0,
                              "ok": not bad, "mjcf": xml, "state": {"qpos": d.qpos.tolist()}, "nontrivial": True})
    # 1. put_data, then the source MjData keeps running
    for mutate in ("mj_step x5", "write arrays", "mj_resetData"):
        d1 = mujoco.MjData(m)
        d1.qvel[:] = 0.1 * np.arange(1, m.nv + 1); d1.ctrl[:] = 0.7
        mujoco.mj_step(m, d1, 3)
        dx = mjx.put_data(m, d1)
        before = grab(dx)
        if mutate == "mj_step x5":
            mujoco.mj_step(m, d1, 5)
        elif mutate == "write arrays":
            d1.qpos[:] += 1.0; d1.qvel[:] = -3.0; d1.xpos[:] = 7.0; d1.ctrl[:] = 0.0; d1.mocap_pos[:] = 9.0; d1.time = 55.0
        else:
            mujoco.mj_resetData(m, d1)
        jax.block_until_ready(dx)
        add("snapshot_put_data", "mjx.Data returned by put_data, after the source MjData was changed by: " + mutate, diff(before, grab(dx)))
    # 2. get_data: changing the result must not change the mjx.Data, nor a second get_data
    dx = mjx.put_data(m, d)
    before = grab(dx)
    d2 = mjx.get_data(m, dx)
    d2.qpos[:] += 2.0; d2.xpos[:] = -1.0; d2.qvel[:] = 4.0
    mujoco.mj_step(m, d2, 2)
    add("snapshot_get_data", "mjx.Data after the MjData returned by get_data was written and stepped", diff(before, grab(dx)))
    # 3. put_model: changing the MjModel afterwards must not change the mjx.Model
    m2 = mujoco.MjModel.from_xml_string(xml)
    mx = mjx.put_model(m2)
    mf = ("body_mass", "body_pos", "dof_damping", "geom_size", "qpos0", "actuator_gainprm", "jnt_axis")
    mb = {f: np.array(getattr(mx, f), copy=True) for f in mf}
    m2.body_mass[:] *= 3.0; m2.body_pos[:] += 1.0; m2.dof_damping[:] = 5.0; m2.geom_size[:] *= 2.0; m2.qpos0[:] += 0.5; m2.actuator_gainprm[:] = 9.0; m2.jnt_axis[:] = 0.0
    jax.block_until_ready(mx)
    add("snapshot_put_model", "mjx.Model after the source MjModel arrays were written", [f for f in mf if not np.array_equal(mb[f], np.array(getattr(mx, f)))])
    # 4. make_data: does not alias the model's qpos0 / mocap arrays
    m3 = mujoco.MjModel.from_xml_string(xml)
    dm = mjx.make_data(m3)
    b3 = grab(dm)
    m3.qpos0[:] += 1.0; m3.body_pos[:] += 2.0
    jax.block_until_ready(dm)
    add("snapshot_make_data", "mjx.Data of make_data after the MjModel arrays were written", diff(b3, grab(dm)))


def known_counts(out):
    """fixed replay of KNOWN finding C44-F3: get_data writes MJX's STATIC row counts into ne / nf / nl while nefc and the efc arrays hold the
    ACTIVE rows.  exactly_this_class: nefc, ncon and every efc array come back unchanged, the returned counts are MJX's static counts and
    differ from the active ones."""
    xml = ('<mujoco><worldbody>' + "".join('<body pos="%d 0 1"><joint name="h%d" type="hinge" axis="0 1 0" limited="true" range="-10 10"/>'
           '<geom size="0.05" contype="0" conaffinity="0"/></body>' % (k, k) for k in range(3)) +
           '</worldbody><equality><joint joint1="h1" active="false"/></equality></mujoco>')
    m = mujoco.MjModel.from_xml_string(xml)
    d = mujoco.MjData(m); d.qpos[0] = 0.3; d.qvel[:] = 0.1
    mujoco.mj_forward(m, d)
    dx = mjx.put_data(m, d)
    d2 = mjx.get_data(m, dx)
    same_rows = (d2.nefc == d.nefc and d2.ncon == d.ncon and np.allclose(dense_J(m, d2), dense_J(m, d), rtol=0, atol=1e-12)
                 and all(np.allclose(np.array(getattr(d2, f)), np.array(getattr(d, f)), rtol=0, atol=1e-12) for f in RT_EFC))
    lost = (d2.ne, d2.nf, d2.nl) != (d.ne, d.nf, d.nl)
    static = (d2.ne, d2.nf, d2.nl) == (int(dx._impl.ne), int(dx._impl.nf), int(dx._impl.nl))
    out["findings"].append({"cls": "static-row-counts-written", "lost": bool(lost), "exactly_this_class": bool(lost and same_rows and static), "mjcf": xml,
                            "state": {"qpos": d.qpos.tolist()}, "what": "MjData ne=%d nf=%d nl=%d nefc=%d -> get_data(put_data) ne=%d nf=%d nl=%d nefc=%d"
                            % (d.ne, d.nf, d.nl, d.nefc, d2.ne, d2.nf, d2.nl, d2.nefc)})


def dense_J(m, d):
    J = np.zeros((d.nefc, m.nv))
    if d.nefc == 0:
        return J
    if mujoco.mj_isSparse(m):
        mujoco.mju_sparse2dense(J, d.efc_J, d.efc_J_rownnz, d.efc_J_rowadr, d.efc_J_colind)
    else:
        J[:] = np.array(d.efc_J).reshape(d.nefc, m.nv)
    return J


def roundtrip_corpus(out, quick):
    """put_data -> get_data on MjData holding ACTIVE constraints of every kind: contacts of condim 1/3/4/6 under both cones (sphere and
    two-contact capsule on a plane), a joint limit, a friction-loss dof, equality constraints; counts, every efc_* field and the contact
    fields must come back unchanged"""
    combos = [(cone, cd, jac, eq) for cone in ("pyramidal", "elliptic") for cd in (1, 3, 4, 6)
              for jac, eq in (("dense", '<joint joint1="h2" polycoef="0.1 0 0 0 0"/>'), ("sparse", '<joint joint1="h2" joint2="s" polycoef="0.05 0.5 0 0 0"/>'))]
    if quick:
        combos = [c for c in combos if c[2] == "dense" or c[1] == 1]
    for cone, cd, jac, eq in combos:
        name = "rt_%s_condim%d_%s" % (cone, cd, jac)
        m = mujoco.MjModel.from_xml_string(RT_XML.format(cone=cone, condim=cd, jac=jac, eq=eq))
        d = mujoco.MjData(m)
        d.qpos[14] = 0.2                      # hinge beyond its upper limit
        d.qvel[:] = 0.05 * np.arange(1, m.nv + 1)
        mujoco.mj_forward(m, d)
        try:
            dx = mjx.put_data(m, d)
            d2 = mjx.get_data(m, dx)
        except NotImplementedError as e:
            out["notes"].append("%s: NotImplementedError %s" % (name, str(e)[:80]))
            continue
        bad = []
        for k in ("ncon", "ne", "nf", "nl", "nefc"):
            if getattr(d, k) != getattr(d2, k):
                bad.append("%s %d->%d" % (k, getattr(d, k), getattr(d2, k)))
        if not bad:
            if not np.allclose(dense_J(m, d), dense_J(m, d2), rtol=0, atol=1e-12):
                bad.append("efc_J")
            for f in RT_EFC:
                a, b = np.array(getattr(d, f)), np.array(getattr(d2, f))
                if a.shape != b.shape or not np.allclose(a, b, rtol=0, atol=1e-12):
                    bad.append(f)
            for f in RT_CON:
                a, b = np.array(getattr(d.contact, f)), np.array(getattr(d2.contact, f))
                if a.shape != b.shape or not np.allclose(a, b, rtol=0, atol=1e-12):
                    bad.append("contact." + f)
        active = "ncon=%d ne=%d nf=%d nl=%d nefc=%d" % (d.ncon, d.ne, d.nf, d.nl, d.nefc)
        out["checks"].append({"kind": "put_get_roundtrip", "model": name, "what": "active constraints: " + active, "diff": 0.0 if not bad else float("inf"),
                              "where": ",".join(bad[:8]), "tol": 0.0, "ok": not bad, "mjcf": RT_XML.format(cone=cone, condim=cd, jac=jac, eq=eq),
                              "state": {"qpos": d.qpos.tolist(), "qvel": d.qvel.tolist()}, "nontrivial": bool(d.ncon >= 3 and d.nl >= 1 and d.nf >= 1 and d.ne >= 1)})


RT_PUBLIC = ("qpos", "qvel", "qacc", "xpos", "xquat", "qfrc_bias", "qfrc_constraint", "qfrc_smooth", "M")


def roundtrip_sizes(out, quick):
    """exact-fit sizes: the Jacobian / mass-matrix layout switches with nv under jacobian=auto (mj_isSparse: nv >= 60); chains of limited
    hinges with nv just below, at and above the threshold (all limits active, so that the static and the active row counts coincide),
    under auto / dense / sparse; besides the efc_* fields the sparse index arrays, nJ and M must come back unchanged"""
    combos = [(nv, "auto") for nv in (59, 60, 61)] + ([] if quick else [(60, "dense"), (60, "sparse"), (2, "auto"), (120, "auto")])
    for nv, jac in combos:
        name = "rt_chain_nv%d_%s" % (nv, jac)
        bodies = "".join('<body pos="%d 0 1"><joint name="h%d" type="hinge" axis="0 1 0" limited="true" range="-10 10" armature="0.01"/>'
                         '<geom size="0.05" contype="0" conaffinity="0"/></body>' % (k, k) for k in range(nv))
        xml = '<mujoco><option jacobian="%s"/><worldbody>%s</worldbody></mujoco>' % (jac, bodies)
        m = mujoco.MjModel.from_xml_string(xml)
        d = mujoco.MjData(m)
        d.qpos[:] = 0.3 + 0.001 * np.arange(m.nq)
        d.qvel[:] = 0.01 * np.arange(1, m.nv + 1)
        mujoco.mj_forward(m, d)
        d2 = mjx.get_data(m, mjx.put_data(m, d))
        bad = []
        for k in ("ncon", "ne", "nf", "nl", "nefc", "nJ"):
            if getattr(d, k) != getattr(d2, k):
                bad.append("%s %d->%d" % (k, getattr(d, k), getattr(d2, k)))
        if not bad:
            if not np.allclose(dense_J(m, d), dense_J(m, d2), rtol=0, atol=1e-12):
                bad.append("efc_J")
            if mujoco.mj_isSparse(m):
                for f in ("efc_J_rownnz", "efc_J_rowadr", "efc_J_colind"):
                    if not np.array_equal(np.array(getattr(d, f)), np.array(getattr(d2, f))):
                        bad.append(f)
            for f in RT_EFC + RT_PUBLIC:
                a, b = np.array(getattr(d, f)), np.array(getattr(d2, f))
                if a.shape != b.shape or not np.allclose(a, b, rtol=0, atol=1e-12):
                    bad.append(f)
        out["checks"].append({"kind": "put_get_roundtrip", "model": name, "what": "nv=%d jacobian=%s mj_isSparse=%d nl=%d nefc=%d nJ=%d" %
                              (m.nv, jac, int(mujoco.mj_isSparse(m)), d.nl, d.nefc, d.nJ), "diff": 0.0 if not bad else float("inf"), "where": ",".join(bad[:8]),
                              "tol": 0.0, "ok": not bad, "mjcf": xml if nv <= 3 else "chain of %d limited hinge bodies: %s" % (nv, xml[:400]),
                              "state": {"qpos": "0.3 + 0.001 k", "qvel": "0.01 (k+1)"}, "nontrivial": True})


def roundtrip_known(out):
    """fixed replays of KNOWN findings C44-F1 / C44-F2: get_data rebuilds the active sets from heuristics (rows with an all-zero Jacobian
    are taken for padding; contacts with dist > 0 are taken for inactive even inside the margin).  Each replay reports whether the loss is
    EXACTLY of that class; any other loss is reported as an ordinary round-trip failure."""
    out["findings"] = []
    # ---- C44-F1: weld of a body with a single slide dof: 5 of the 6 weld rows have an all-zero Jacobian
    xml = RT_XML.format(cone="pyramidal", condim=3, jac="dense", eq='<weld body1="anchor" relpose="0 0 0.1 1 0 0 0"/>')
    m = mujoco.MjModel.from_xml_string(xml)
    d = mujoco.MjData(m); d.qpos[14] = 0.2
    mujoco.mj_forward(m, d)
    d2 = mjx.get_data(m, mjx.put_data(m, d))
    J = dense_J(m, d)
    zero = ~(J != 0).any(axis=1)
    keep = ~zero
    exact = (d2.nefc == int(keep.sum()) and d2.ncon == d.ncon and np.allclose(dense_J(m, d2), J[keep], rtol=0, atol=1e-12)
             and all(np.allclose(np.array(getattr(d2, f)), np.array(getattr(d, f))[keep], rtol=0, atol=1e-12) for f in RT_EFC))
    lost = d2.nefc != d.nefc
    out["findings"].append({"cls": "zero-jacobian-row-dropped", "lost": bool(lost), "exactly_this_class": bool(lost and exact and zero.sum() > 0), "mjcf": xml,
                            "state": {"qpos": d.qpos.tolist()}, "what": "MjData ne=%d nefc=%d (%d rows with an all-zero Jacobian) -> get_data(put_data) ne=%d nefc=%d"
                            % (d.ne, d.nefc, int(zero.sum()), d2.ne, d2.nefc)})
    # ---- C44-F2: three active contacts inside the margin with dist > 0
    xml = RT_XML.format(cone="pyramidal", condim=3, jac="dense", eq="").replace('<geom name="floor"', '<geom name="floor" margin="0.05"')
    m = mujoco.MjModel.from_xml_string(xml)
    d = mujoco.MjData(m); d.qpos[2] = 0.12; d.qpos[9] = 0.07
    mujoco.mj_forward(m, d)
    d2 = mjx.get_data(m, mjx.put_data(m, d))
    dist = np.array(d.contact.dist)
    pen = dist <= 0
    exact = (d2.ncon == int(pen.sum()) and (pen.sum() == 0 or np.allclose(np.array(d2.contact.dist), dist[pen], rtol=0, atol=1e-12)))
    lost = d2.ncon != d.ncon
    out["findings"].append({"cls": "positive-dist-contact-dropped", "lost": bool(lost), "exactly_this_class": bool(lost and exact and (~pen).sum() > 0), "mjcf": xml,
                            "state": {"qpos": d.qpos.tolist()}, "what": "MjData ncon=%d nefc=%d (dist %s, margin 0.05) -> get_data(put_data) ncon=%d nefc=%d"
                            % (d.ncon, d.nefc, np.round(dist, 3).tolist(), d2.ncon, d2.nefc)})


def mode_oracle(req):
    rng = np.random.default_rng(req["seed"])
    out = {"wheel_version": mujoco.__version__, "checks": [], "notes": []}
    roundtrip_corpus(out, req.get("quick", False))
    roundtrip_sizes(out, req.get("quick", False))
    snapshot_checks(out)
    try:
        roundtrip_known(out)
        known_counts(out)
    except Exception as e:
        out["notes"].append("known-finding replays failed: %s" % str(e)[:160])

    def rec(kind, model, what, diff, where, tol, extra=None):
        ok = diff is not None and diff <= tol
        out["checks"].append({"kind": kind, "model": model, "what": what, "diff": diff, "where": where, "tol": tol, "ok": bool(ok),
                              **(extra or {})})

    for spec in req["models"]:
        name, xml = spec["name"], spec["xml"]
        m = mujoco.MjModel.from_xml_string(xml)
        try:
            mx = mjx.put_model(m)
        except NotImplementedError as e:
            out["notes"].append("%s: put_model NotImplementedError %s" % (name, str(e)[:100]))
            continue
        d = rand_state(None, m, rng, spec.get("contact", False))
        dx = mjx.put_data(m, d)
        for fname in spec["fns"]:
            fn = getattr(mjx, fname)
            t0 = time.time()
            r_jit = jax.jit(fn)(mx, dx)
            jax.block_until_ready(r_jit)
            t1 = time.time()
            if spec.get("eager") == "disable_jit":
                with jax.disable_jit():
                    r_eager = fn(mx, dx)
            else:
                r_eager = fn(mx, dx)          # python-level evaluation; inner jitted helpers stay compiled
            jax.block_until_ready(r_eager)
            t2 = time.time()
            diff, where = maxdiff(r_jit, r_eager)
            nanfree = all(not np.isnan(x.astype(np.float64)).any() for _, x in leaves(r_jit) if x.size)
            rec("jit_vs_eager", name, fname + " (" + spec.get("eager", "plain") + ")", diff, where, 1e-12,
                {"t_jit": round(t1 - t0, 1), "t_eager": round(t2 - t1, 1), "nan_free": nanfree})
            B = spec.get("batch", 0)
            if B:
                ds = [rand_state(None, m, rng, spec.get("contact", False)) for _ in range(B)]
                dxs = [mjx.put_data(m, di) for di in ds]
                batch = jax.tree_util.tree_map(lambda *xs: jp.stack(xs), *dxs)
                r_v = jax.jit(jax.vmap(fn, in_axes=(None, 0)))(mx, batch)
                jax.block_until_ready(r_v)
                jf = jax.jit(fn)
                worst, wh = 0.0, ""
                for i in range(B):
                    ri = jf(mx, dxs[i])
                    sl = jax.tree_util.tree_map(lambda x: x[i], r_v)
                    df, w1 = maxdiff(sl, ri)
                    if df is None:
                        worst, wh = None, w1
                        break
                    if df > worst:
                        worst, wh = df, w1
                rec("vmap_vs_per_sample", name, "%s batch=%d" % (fname, B), worst, wh, 1e-12)
        # ---- put_data -> get_data
        mujoco.mj_forward(m, d)
        dxf = mjx.put_data(m, d)
        d2 = mjx.get_data(m, dxf)
        names = [f.name for f in mjx.Data.fields() if f.name != "_impl"]
        impl_names = [f.name for f in type(dxf._impl).fields()]
        cmpd, bad = 0, []
        skip_shape = {"efc_J", "M", "qLD", "qLDiagInv", "actuator_moment", "ten_J", "contact", "efc_type", "solver_niter"}
        for f in names + [g for g in impl_names if g not in skip_shape]:
            if not hasattr(d, f):
                continue
            a, b = getattr(d, f), getattr(d2, f)
            if isinstance(a, np.ndarray):
                if a.shape != b.shape or not np.array_equal(a, b, equal_nan=True):
                    bad.append(f)
                cmpd += 1
            elif isinstance(a, (int, float)):
                if a != b:
                    bad.append(f)
                cmpd += 1
        # contacts and constraint rows: same multiset of contacts, efc arrays equal after the documented reordering
        nc = d.ncon
        if d2.ncon != nc or d2.nefc != d.nefc:
            bad.append("ncon/nefc %d/%d vs %d/%d" % (d2.ncon, d2.nefc, nc, d.nefc))
        else:
            key = lambda c: (c.geom[0], c.geom[1], round(float(c.dist), 12))
            c1 = sorted([key(c) for c in d.contact])
            c2 = sorted([key(c) for c in d2.contact])
            if c1 != c2:
                bad.append("contact list")
            cmpd += 1
        rec("put_get_roundtrip", name, "%d fields of mjx.Data compared with the source MjData (ncon=%d nefc=%d)" % (cmpd, nc, d.nefc),
            0.0 if not bad else float("inf"), ",".join(bad[:8]), 0.0, {"fields": cmpd})
        # ---- make_data vs put_data of a fresh MjData
        dm, dp = mjx.make_data(m), mjx.put_data(m, mujoco.MjData(m))
        la, lb = leaves(dm), leaves(dp)
        diffs, pad = [], []
        if [p for p, _ in la] != [p for p, _ in lb]:
            diffs.append("treedef")
        else:
            for (p, x), (_, y) in zip(la, lb):
                if x.shape != y.shape:
                    diffs.append(p + " shape")
                elif not np.array_equal(x.astype(np.float64), y.astype(np.float64), equal_nan=True):
                    if p.startswith("._impl.contact.") and p.split(".")[-1] in ("dist", "geom", "geom1", "geom2"):
                        pad.append("%s make=%s put=%s" % (p, x.reshape(-1)[:1].tolist(), y.reshape(-1)[:1].tolist()))
                    else:
                        diffs.append(p + " value")
                elif x.dtype != y.dtype and not (p.startswith("._impl.contact.geom") and x.dtype.kind == y.dtype.kind == "i"):
                    diffs.append("%s dtype %s/%s" % (p, x.dtype, y.dtype))
        # observable equivalence: forward of both gives the same Data
        fj = jax.jit(mjx.forward)
        df, wh = maxdiff(fj(mx, dm), fj(mx, dp))
        rec("make_vs_put_fresh", name, "%d leaves; forward(make_data) vs forward(put_data(fresh)) diff %.3g at %s" % (len(la), df if df is not None else -1, wh),
            0.0 if not diffs and df is not None and df <= 1e-12 else float("inf"), ",".join(diffs[:8]), 0.0,
            {"inactive_contact_padding_differs": pad})
    return out


req = json.load(sys.stdin)
res = mode_state(req) if mode == "state" else mode_oracle(req)
json.dump(res, sys.stdout)
