// C17 driver (raw arrays): calls the working tree's exported mj_dsuMerge / mj_dsuRoot / mj_dsuAssign
// and mj_floodFill on arrays read from stdin and prints every array they produce.
// stdin, one case per line:
//   D n L a1 b1 .. aL bL Q q1 .. qQ dof1 .. dofn
//       parent = {-1}*n; L merges (parent printed after each); Q root queries (skipped, printed as
//       -9, when parent[q] == -1: mj_dsuRoot requires an active tree); then mj_dsuAssign
//   E ...  same as D, but parent is printed once after the last merge (L >= 1)
//   F nr nnz rownnz*nr rowadr*nr colind*nnz
// stdout, one line per case, all integers:
//   D: L*n parents (E: n parents) | per query: root, n parents | nisland nidof, n island, n parents
//   F: nisland, nr island
#include <stdio.h>
#include <stdlib.h>
#include <string.h>
#include <mujoco/mujoco.h>
#include "engine/engine_island.h"

static void die(const char* msg) { fprintf(stderr, "c17_dsu: %s\n", msg); exit(2); }
static void on_error(const char* msg) { fprintf(stderr, "c17_dsu: mju_error: %s\n", msg); exit(4); }
static int rd(void) { int v; if (scanf("%d", &v) != 1) die("bad input"); return v; }
static void pr(const int* a, int n) { for (int i = 0; i < n; i++) printf("%d ", a[i]); }

int main(void) {
  mju_user_error = on_error;
  char op[8];
  while (scanf("%7s", op) == 1) {
    if (op[0] == 'D' || op[0] == 'E') {
      int n = rd(), L = rd();
      int cap = n > 0 ? n : 1;
      int* parent = malloc(sizeof(int) * cap);
      int* island = malloc(sizeof(int) * cap);
      int* dof = malloc(sizeof(int) * cap);
      for (int i = 0; i < n; i++) parent[i] = -1;
      for (int k = 0; k < L; k++) {
        int a = rd(), b = rd();
        if (a < -1 || a >= n || b < -1 || b >= n || (a == -1 && b == -1)) die("merge out of contract");
        mj_dsuMerge(parent, a, b);
        if (op[0] == 'D' || k == L - 1) pr(parent, n);
      }
      int Q = rd();
      for (int k = 0; k < Q; k++) {
        int q = rd();
        if (q < 0 || q >= n) die("query out of range");
        if (parent[q] == -1) { printf("-9 "); pr(parent, n); continue; }
        int r = mj_dsuRoot(parent, q);
        printf("%d ", r); pr(parent, n);
      }
      for (int i = 0; i < n; i++) { dof[i] = rd(); island[i] = -7; }
      int nidof = -7;
      int nisland = mj_dsuAssign(island, parent, dof, n, &nidof);
      printf("%d %d ", nisland, nidof); pr(island, n); pr(parent, n);
      printf("\n");
      free(parent); free(island); free(dof);
    } else if (op[0] == 'F') {
      int nr = rd(), nnz = rd();
      int* rownnz = malloc(sizeof(int) * (nr + 1));
      int* rowadr = malloc(sizeof(int) * (nr + 1));
      int* colind = malloc(sizeof(int) * (nnz + 1));
      int* stack = malloc(sizeof(int) * (nnz + 1));
      int* island = malloc(sizeof(int) * (nr + 1));
      for (int i = 0; i < nr; i++) rownnz[i] = rd();
      for (int i = 0; i < nr; i++) rowadr[i] = rd();
      for (int i = 0; i < nnz; i++) colind[i] = rd();
      for (int i = 0; i < nr; i++) {
        if (rownnz[i] < 0 || rowadr[i] < 0 || rowadr[i] + rownnz[i] > nnz) die("row out of range");
        island[i] = -7;
      }
      for (int i = 0; i < nnz; i++) if (colind[i] < 0 || colind[i] >= nr) die("column out of range");
      int nisland = mj_floodFill(island, nr, rownnz, rowadr, colind, stack);
      printf("%d ", nisland); pr(island, nr);
      printf("\n");
      free(rownnz); free(rowadr); free(colind); free(stack); free(island);
    } else {
      die("unknown op");
    }
  }
  return 0;
}
