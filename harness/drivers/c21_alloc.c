// C21 driver: allocation-fault injection through the public mju_user_malloc / mju_user_free
// callbacks, one forked child per (scenario, schedule) so that the default exit path of mju_error
// and any SIGSEGV/SIGABRT are observed as the child's wait status.  The child records an event
// trace in a shared mapping:
//   A<k>:<size>  attempt k succeeded (block k)      X<k>:<size>  attempt k failed (NULL returned)
//   F<k>         mju_free of block k                 FF<k>        second free of block k
//   G            free of a pointer the hooks never handed out
//   E<c>         error handler invoked (c: 0 "Could not allocate memory", 1 other "could not
//                allocate"/"failed to allocate", 2 "failed to make mjModel", 3 plugin init, 9 other)
//   W            warning handler invoked             C<c>         mj_compile returned NULL, c=1 when
//                                                                 mjs_getError names the allocation
//   R1 / R0      an API call returned non-NULL / NULL
//   J            the error left through the driver's longjmp handler     END  scenario completed
// Freed blocks are quarantined (never handed back to the system inside a run), so a double free is
// an event, not undefined behaviour of the harness, and block ids are unique per run.
//
// stdin commands:
//   MODEL <idx> gen <seed> <feat> <nbody>      build base model idx with mjgen (no hooks)
//   MODEL <idx> plug <np>                      base model with np instances of the harness plugin
//   SWEEP <scen> <mode> <idx> <rej> <nrand> <seed>   fault-free run, every single fault, nrand random sets
//   RUN <scen> <mode> <idx> <rej> <k1,k2,...|->      one schedule
// scen: CM copy model, LD load buffer, SV save to file, DT data life cycle, ST step, CP compile,
//       RC compile + data + in-place mj_recompile + the caller's cleanup, IP in-place remake of mjData
// mode: E default handler (process exits), J longjmp handler, R returning handler (out of contract)
#include "mjgen.h"
#include <mujoco/mjxmacro.h>
#include "engine/engine_io.h"   // mj_makeRawData, mj_initPlugin (what mjCModel::MakeData calls)
#include <signal.h>
#include <stdarg.h>
#include <sys/mman.h>
#include <sys/wait.h>
#include <unistd.h>

// -DC21_ASAN (thorough tier): the executable is LINKED with the AddressSanitizer runtime (the code is
// not instrumented: include/mujoco/mjsan.h does not compile with gcc under -fsanitize=address, and an
// instrumented engine_io.c needs the whole library built that way).  The runtime's interceptors still
// see every malloc/free/memcpy/memset of the process: the hooks then really free blocks (double free,
// invalid free, use of a freed block through memcpy/memset are reported by the runtime and end the
// child with exit code 77), pointers in the hook table are masked so that LeakSanitizer does not
// count the table as a reference, and a leak check runs when a scenario completes (lsan=0/1).
#ifdef C21_ASAN
#include <sanitizer/lsan_interface.h>
#define ENC(p) ((void*)((uintptr_t)(p) ^ 0x5A5A5A5A5A5A5A5AULL))
#else
#define ENC(p) (p)
#endif
#define MAXA 4096
#define TRCAP (1 << 18)
#define NMODEL 64
#define NREJ 10

// ---------------------------------------------------------------- shared trace
static char* TR;            // shared: trace text
static volatile int* TRN;   // shared: length
static void ev(const char* fmt, ...) {
  va_list ap; va_start(ap, fmt);
  int n = *TRN;
  if (n < TRCAP - 64) { n += vsnprintf(TR + n, 64, fmt, ap); *TRN = n; }
  va_end(ap);
}

// ---------------------------------------------------------------- allocator hooks
static void* blk[MAXA]; static size_t bsz[MAXA]; static int bfreed[MAXA];
static int nattempt = 0;
static unsigned char sched[MAXA];
static void* hook_malloc(size_t sz) {
  int k = nattempt++;
  if (k >= MAXA) { ev("OVERFLOW "); _exit(97); }
  if (sched[k]) { blk[k] = NULL; ev("X%d:%zu ", k, sz); return NULL; }
  size_t r = sz ? (sz + 63) / 64 * 64 : 64;
  void* p = aligned_alloc(64, r);
  if (!p) { ev("HOSTOOM "); _exit(98); }
  memset(p, 0xA5, r < 8192 ? r : 8192);   // junk at the start, where the headers and pointers live
  blk[k] = ENC(p); bsz[k] = sz; bfreed[k] = 0;
  ev("A%d:%zu ", k, sz);
  return p;
}
static void hook_free(void* p) {
  int dead = -1;
  for (int k = (nattempt < MAXA ? nattempt : MAXA) - 1; k >= 0; k--) {
    if (blk[k] && blk[k] == ENC(p)) {
      if (bfreed[k]) { if (dead < 0) dead = k; continue; }
      bfreed[k] = 1;
      ev("F%d ", k);
#ifdef C21_ASAN
      free(p);                                   // AddressSanitizer poisons and quarantines the block
#else
      memset(p, 0xDD, bsz[k] < 8192 ? bsz[k] : 8192);   // quarantine (never reused inside a run), poison
#endif
      return;
    }
  }
  if (dead >= 0) { ev("FF%d ", dead); return; }
  ev("G ");
  free(p);
}

// ---------------------------------------------------------------- log handler
static char g_mode = 'E';
static jmp_buf g_top;
static jmp_buf g_inner;          // the caller of mj_recompile in the RC scenario catches the error itself
static volatile int g_inner_armed = 0;
static mjfLogHandler g_prev = NULL;
static int errclass(const char* s) {
  if (strstr(s, "Could not allocate memory")) return 0;
  if (strstr(s, "could not allocate") || strstr(s, "failed to allocate")) return 1;
  if (strstr(s, "failed to make mjModel")) return 2;
  if (strstr(s, "plugin->init failed")) return 3;
  return 9;
}
static void log_handler(const mjLogMessage* msg) {
  if (msg->level == mjLOG_ERROR) {
    int c = errclass(msg->subject);
    ev("E%d ", c);
    if (c == 9) fprintf(stderr, "c21: error: %s\n", msg->subject);
    if (g_mode == 'E') { g_prev(msg); ev("HANDLER-RETURNED "); }   // default handler: exit(EXIT_FAILURE)
    else if (g_mode == 'J') longjmp(g_inner_armed ? g_inner : g_top, 1);
    return;                                                         // 'R'
  }
  if (msg->level == mjLOG_WARNING) ev("W ");
}

// ---------------------------------------------------------------- harness plugin
static int tp_nstate(const mjModel* m, int instance) { (void)m; (void)instance; return 3; }
static int tp_init(const mjModel* m, mjData* d, int instance) {
  (void)m;
  void* p = mju_malloc(40);
  if (!p) return -1;
  memset(p, 0, 40);
  d->plugin_data[instance] = (uintptr_t)p;
  return 0;
}
static void tp_destroy(mjData* d, int instance) {
  mju_free((void*)d->plugin_data[instance]);
  d->plugin_data[instance] = 0;
}
static void tp_compute(const mjModel* m, mjData* d, int instance, int cap) { (void)m; (void)d; (void)instance; (void)cap; }
static void register_plugin(void) {
  mjpPlugin pl; mjp_defaultPlugin(&pl);
  pl.name = "verif.c21"; pl.capabilityflags = mjPLUGIN_PASSIVE;
  pl.nstate = tp_nstate; pl.init = tp_init; pl.destroy = tp_destroy; pl.compute = tp_compute;
  mjp_registerPlugin(&pl);
}
static mjSpec* plug_spec(int np) {
  mjSpec* s = mj_makeSpec();
  mjs_activatePlugin(s, "verif.c21");
  mjsBody* world = mjs_findBody(s, "world");
  for (int i = 0; i < 2 || i < np; i++) {
    char nm[32];
    if (i < np) {
      mjsPlugin* p = mjs_addPlugin(s);
      mjs_setString(p->plugin_name, "verif.c21");
      snprintf(nm, sizeof(nm), "inst%d", i); mjs_setString(p->name, nm);
    }
    mjsBody* b = mjs_addBody(world, NULL);
    snprintf(nm, sizeof(nm), "b%d", i); mjs_setName(b->element, nm);
    b->pos[0] = 0.5 * i; b->pos[2] = 1;
    mjsJoint* j = mjs_addJoint(b, NULL); j->type = mjJNT_HINGE; j->axis[0] = 0; j->axis[1] = 1; j->axis[2] = 0;
    mjsGeom* g = mjs_addGeom(b, NULL); g->type = mjGEOM_CAPSULE; g->size[0] = 0.05; g->size[1] = 0.2;
    if (i < np) {
      b->plugin.active = 1;
      mjs_setString(b->plugin.plugin_name, "verif.c21");
      snprintf(nm, sizeof(nm), "inst%d", i); mjs_setString(b->plugin.name, nm);
    }
  }
  return s;
}

// ---------------------------------------------------------------- base models
typedef struct {
  int used, kind, np; unsigned long long seed; unsigned feat; int nbody;
  mjModel* m;
  void* buf[NREJ]; int bufsz[NREJ];
} Base;
static Base base[NMODEL];
static char g_savepath[1024] = "/dev/null";

static mjSpec* base_spec(const Base* b) {
  mjSpec* s = b->kind == 0 ? mjg_spec(b->seed, b->feat, b->nbody) : plug_spec(b->np);
  s->memory = 1 << 20;   // 1 MB arena instead of the default: _resetData clears the whole arena in every run
  return s;
}

static int size_index(const char* want) {
  int i = 0, idx = -1;
#define X(name) if (!strcmp(#name, want)) idx = i; i++;
  MJMODEL_SIZES
#undef X
  (void)i;
  return idx;
}
static int nsizes(void) {
  int i = 0;
#define X(name) i++;
  MJMODEL_SIZES
#undef X
  return i;
}

static void make_buffers(Base* b) {
  mjModel* m = b->m;
  int sz = (int)mj_sizeModel(m);
  const int off = 5 * (int)sizeof(int);          // header
  const int ns = nsizes();
  for (int r = 0; r < NREJ; r++) {
    int cap = sz + 64;
    char* p = (char*)calloc(cap, 1);
    mj_saveModel(m, NULL, p, sz);
    int n = sz;
    mjtSize* sizes = (mjtSize*)(p + off);
    switch (r) {
      case 0: break;
      case 1: p[0] ^= 0x5A; break;                                        // header id
      case 2: sizes[size_index("nq")] = -1; break;                        // mj_makeModel: negative size
      case 3: sizes[size_index("nbody")] = 2000000000; break;             // mj_makeModel: nnames_map too large
      case 4: sizes[ns - 1] += 64; break;                                 // nbuffer field
      case 5: sizes[size_index("nnames_map")] += 2; break;                // nnames_map field
      case 6: n = off + ns * (int)sizeof(mjtSize); break;                 // nothing after the sizes
      case 7: n = sz - 16; break;                                         // truncated inside the arrays
      case 8: n = sz + 16; break;                                         // trailing bytes
      case 9: {                                                           // invalid reference
        mjModel* c = mj_copyModel(NULL, m);
        if (c->nbody > 1) c->body_parentid[1] = 1; else c->body_parentid[0] = 1;
        mj_saveModel(c, NULL, p, sz);
        mj_deleteModel(c);
      } break;
    }
    b->buf[r] = p; b->bufsz[r] = n;
  }
}

// the edit of the RC scenario: one more body with a hinge joint and a geom
static void edit_spec(mjSpec* s) {
  mjsBody* nb = mjs_addBody(mjs_findBody(s, "world"), NULL);
  nb->pos[1] = 1; nb->pos[2] = 0.5;
  mjsJoint* j = mjs_addJoint(nb, NULL); j->type = mjJNT_HINGE;
  mjsGeom* g = mjs_addGeom(nb, NULL); g->type = mjGEOM_SPHERE; g->size[0] = 0.07;
}

static int build_base(int idx) {
  Base* b = &base[idx];
  mjSpec* s = base_spec(b);
  mjModel* m = mj_compile(s, NULL);
  if (!m) { printf("MODELFAIL %d %s\n", idx, mjs_getError(s)); mj_deleteSpec(s); return 0; }
  // sizes of the edited model (what mj_recompile allocates in the RC scenario)
  long long mbuf2 = 0, dbuf2 = 0;
  edit_spec(s);
  mjModel* m2 = mj_compile(s, NULL);
  if (m2) { mjData* d2 = mj_makeData(m2); mbuf2 = m2->nbuffer; dbuf2 = d2->nbuffer; mj_deleteData(d2); mj_deleteModel(m2); }
  mj_deleteSpec(s);
  b->m = m; b->used = 1;
  mjData* d = mj_makeData(m);
  printf("SIZES %d model=%zu mbuf=%lld data=%zu dbuf=%lld arena=%lld nplugin=%d npluginstate=%d save=%lld vfs=%zu plug=40 mbuf2=%lld dbuf2=%lld nq=%d nv=%d nbody=%d\n",
         idx, sizeof(mjModel), (long long)m->nbuffer, sizeof(mjData), (long long)d->nbuffer, (long long)m->narena,
         (int)m->nplugin, (int)m->npluginstate, (long long)mj_sizeModel(m), sizeof(mjVFS), mbuf2, dbuf2, (int)m->nq, (int)m->nv, (int)m->nbody);
  mj_deleteData(d);
  make_buffers(b);
  return 1;
}

// ---------------------------------------------------------------- scenarios (run in the child)
static void retp(const void* p) { ev(p ? "R1 " : "R0 "); }

static void scenario(const char* scen, Base* b, int rej) {
  mjModel* M = b->m;
  if (!strcmp(scen, "CM")) {
    mjModel* c = mj_copyModel(NULL, M); retp(c);
    mjModel* c2 = mj_copyModel(c, M); retp(c2);
    mj_deleteModel(c2);
  } else if (!strcmp(scen, "LD")) {
    mjModel* c = mj_loadModelBuffer(b->buf[rej], b->bufsz[rej]); retp(c);
    mj_deleteModel(c);
  } else if (!strcmp(scen, "SV")) {
    mj_saveModel(M, g_savepath, NULL, 0);
  } else if (!strcmp(scen, "DT")) {
    mjData* d = mj_makeData(M); retp(d);
    mjData* c = mj_copyData(NULL, M, d); retp(c);
    mjData* c2 = mj_copyData(c, M, d); retp(c2);
    mj_deleteData(c2);
    mj_deleteData(d);
  } else if (!strcmp(scen, "ST")) {
    mjData* d = mj_makeData(M); retp(d);
    for (int i = 0; i < 3; i++) mj_step(M, d);
    mj_forward(M, d);
    mj_inverse(M, d);
    mj_resetData(M, d);
    mj_step(M, d);
    mj_deleteData(d);
  } else {
    ev("BADSCEN ");
  }
}

static void compile_scenario(Base* b) {
  // the spec is built before the hooks are armed (mjs_* use C++ new, outside MuJoCo's allocator)
  mjSpec* s = base_spec(b);
  mju_user_malloc = hook_malloc; mju_user_free = hook_free;
  mjModel* m = mj_compile(s, NULL);
  for (int attempt = 0; attempt < 2; attempt++) {
    if (attempt == 1) { if (m) break; m = mj_compile(s, NULL); }
    if (!m) {
      const char* e = mjs_getError(s);
      int mem = e && (strstr(e, "Could not allocate memory") || strstr(e, "could not allocate"));
      ev("C%d ", mem ? 1 : (e && e[0] ? 2 : 0));
      if (!mem) fprintf(stderr, "c21: compile error: %s\n", e ? e : "(null)");
    }
    retp(m);
  }
  mj_deleteModel(m);
  mj_deleteSpec(s);
}

static void compile_note(mjSpec* s) {
  const char* e = mjs_getError(s);
  int mem = e && (strstr(e, "Could not allocate memory") || strstr(e, "could not allocate"));
  ev("C%d ", mem ? 1 : (e && e[0] ? 2 : 0));
  if (!mem) fprintf(stderr, "c21: compile error: %s\n", e ? e : "(null)");
}

// RC: compile, make data, step, edit the spec, recompile IN PLACE (mj_makeModel / mj_makeRawData on the
// caller's structs), then what the caller has to do: nothing after a -1 return (the library deleted
// m and d), mj_deleteData + mj_deleteModel after success or after an exit through the error channel
static void recompile_scenario(Base* b) {
  mjSpec* s = base_spec(b);
  mju_user_malloc = hook_malloc; mju_user_free = hook_free;
  mjModel* volatile m = mj_compile(s, NULL);
  if (!m) compile_note(s);
  retp(m);
  if (!m) { mj_deleteSpec(s); return; }
  mjData* volatile d = mj_makeData(m);
  retp(d);
  for (int i = 0; i < 3; i++) mj_step(m, d);
  edit_spec(s);
  volatile int ret = -2;
  g_inner_armed = 1;
  if (setjmp(g_inner) == 0) {
    ret = mj_recompile(s, NULL, m, d);
    g_inner_armed = 0;
    if (ret != 0) compile_note(s);
    ev(ret == 0 ? "R1 " : "R0 ");
  } else {
    g_inner_armed = 0;
    ev("J ");
  }
  if (ret != -1) {
    if (ret == 0) for (int i = 0; i < 2; i++) mj_step(m, d);
    mj_deleteData(d);
    mj_deleteModel(m);
  }
  mj_deleteSpec(s);
}

// IP: make data, then remake it IN PLACE exactly as mjCModel::MakeData does (mj_makeRawData on the
// existing struct, mj_initPlugin, mj_resetData), the caller catching the error, then mj_deleteData
static void inplace_scenario(Base* b) {
  mjModel* M = b->m;
  mjData* volatile d = mj_makeData(M);
  retp(d);
  g_inner_armed = 1;
  if (setjmp(g_inner) == 0) {
    mjData* dd = d;
    mj_makeRawData(&dd, M);
    mj_initPlugin(M, dd);
    mj_resetData(M, dd);
    g_inner_armed = 0;
    ev("R1 ");
  } else {
    g_inner_armed = 0;
    ev("J ");
  }
  mj_deleteData(d);
}

// run one schedule in a forked child; prints the RUN line
static int run_one(const char* scen, char mode, int idx, int rej, const int* fails, int nfail) {
  *TRN = 0; TR[0] = 0;
  fflush(stdout);
  pid_t pid = fork();
  if (pid < 0) { printf("FORKFAIL\n"); return -1; }
  if (pid == 0) {
    alarm(60);
    memset(sched, 0, sizeof(sched));
    for (int i = 0; i < nfail; i++) if (fails[i] >= 0 && fails[i] < MAXA) sched[fails[i]] = 1;
    g_mode = mode;
    mjLogConfig cfg = mju_getLogConfig(); cfg.logto_console = 0; cfg.logto_file = 0; mju_setLogConfig(cfg);
    g_prev = mju_setLogHandler(log_handler);
    Base* b = &base[idx];
    if (setjmp(g_top) == 0) {
      if (!strcmp(scen, "CP")) compile_scenario(b);
      else if (!strcmp(scen, "RC")) recompile_scenario(b);
      else if (!strcmp(scen, "IP")) { mju_user_malloc = hook_malloc; mju_user_free = hook_free; inplace_scenario(b); }
      else { mju_user_malloc = hook_malloc; mju_user_free = hook_free; scenario(scen, b, rej); }
      ev("END ");
    } else {
      ev("J ");
    }
    // live blocks at the end
    ev("| live:");
    for (int k = 0; k < nattempt && k < MAXA; k++) if (blk[k] && !bfreed[k]) ev("%d,", k);
    ev(" n=%d", nattempt);
#ifdef C21_ASAN
    ev(" lsan=%d", __lsan_do_recoverable_leak_check() ? 1 : 0);
#endif
    _exit(0);
  }
  int st = 0;
  waitpid(pid, &st, 0);
  printf("RUN %s %c %d %d | ", scen, mode, idx, rej);
  if (nfail == 0) printf("-");
  for (int i = 0; i < nfail; i++) printf("%s%d", i ? "," : "", fails[i]);
  TR[*TRN] = 0;
  printf(" | %s | ", TR);
  if (WIFEXITED(st)) printf("exit:%d\n", WEXITSTATUS(st));
  else if (WIFSIGNALED(st)) printf("sig:%d\n", WTERMSIG(st));
  else printf("status:%d\n", st);
  // number of attempts: parse " n=<k>" when the child reached the end, else count A/X tokens
  int n = 0;
  for (char* p = TR; *p; p++) if ((*p == 'A' || *p == 'X') && (p == TR || p[-1] == ' ') && p[1] >= '0' && p[1] <= '9') n++;
  return n;
}

int main(int argc, char** argv) {
  if (argc > 1) snprintf(g_savepath, sizeof(g_savepath), "%s", argv[1]);
  TR = (char*)mmap(NULL, TRCAP + 4096, PROT_READ | PROT_WRITE, MAP_SHARED | MAP_ANONYMOUS, -1, 0);
  if (TR == MAP_FAILED) { printf("MMAPFAIL\n"); return 2; }
  TRN = (volatile int*)(TR + TRCAP);
  register_plugin();
  char line[8192];
  while (fgets(line, sizeof(line), stdin)) {
    char cmd[16] = "", scen[8] = "", kind[8] = "", fl[4096] = "";
    char mode; int idx, rej, nrand; unsigned long long seed; unsigned feat; int nbody;
    if (sscanf(line, "%15s", cmd) != 1) continue;
    if (!strcmp(cmd, "MODEL")) {
      if (sscanf(line, "%*s %d %7s", &idx, kind) != 2 || idx < 0 || idx >= NMODEL) { printf("BADLINE\n"); continue; }
      Base* b = &base[idx]; memset(b, 0, sizeof(*b));
      if (!strcmp(kind, "gen")) {
        if (sscanf(line, "%*s %*d %*s %llu %u %d", &seed, &feat, &nbody) != 3) { printf("BADLINE\n"); continue; }
        b->kind = 0; b->seed = seed; b->feat = feat; b->nbody = nbody;
      } else {
        if (sscanf(line, "%*s %*d %*s %d", &nbody) != 1) { printf("BADLINE\n"); continue; }
        b->kind = 1; b->np = nbody;
      }
      build_base(idx);
    } else if (!strcmp(cmd, "SWEEP")) {
      if (sscanf(line, "%*s %7s %c %d %d %d %llu", scen, &mode, &idx, &rej, &nrand, &seed) != 6 ||
          idx < 0 || idx >= NMODEL || !base[idx].used || rej < 0 || rej >= NREJ) { printf("BADLINE\n"); continue; }
      int K = run_one(scen, mode, idx, rej, NULL, 0);
      for (int k = 0; k < K; k++) run_one(scen, mode, idx, rej, &k, 1);
      mjg_rng r = { seed * 0x9E3779B97F4A7C15ULL + 12345 };
      for (int t = 0; t < nrand; t++) {
        int f[MAXA], nf = 0;
        double p = 0.08 + 0.4 * mjg_u(&r);
        for (int k = 0; k < K + 3 && k < MAXA; k++) if (mjg_chance(&r, p)) f[nf++] = k;
        if (nf < 2) { f[0] = mjg_int(&r, K + 1); f[1] = f[0] + 1 + mjg_int(&r, K + 1); nf = 2; }
        run_one(scen, mode, idx, rej, f, nf);
      }
    } else if (!strcmp(cmd, "RUN")) {
      if (sscanf(line, "%*s %7s %c %d %d %4095s", scen, &mode, &idx, &rej, fl) != 5 ||
          idx < 0 || idx >= NMODEL || !base[idx].used || rej < 0 || rej >= NREJ) { printf("BADLINE\n"); continue; }
      int f[MAXA], nf = 0;
      if (strcmp(fl, "-")) { char* tok = strtok(fl, ","); while (tok && nf < MAXA) { f[nf++] = atoi(tok); tok = strtok(NULL, ","); } }
      run_one(scen, mode, idx, rej, f, nf);
    } else {
      printf("BADLINE\n");
    }
  }
  fflush(stdout);
  return 0;
}
