// C30 driver: mju_isBad on bit patterns, mj_checkPos/Vel/Acc called directly on real models with
// injected values, and mj_step with injections.  One request per stdin line, one reply line each.
//   M                                   -> mjMAXVAL as %a, mjNWARNING, the three warning enum values
//   B n bits...                         -> n characters 0/1 (mju_isBad of each bit pattern)
//   C seed feat nbody kind autoreset pre_n pre_l ninj (idx bits)*
//        kind 0 qpos 1 qvel 2 qacc; calls the check function once
//        -> n v0 .. vn-1 (bits, vector before the call) | number lastinfo | bystander number lastinfo | class
//           class U = data unchanged (bitwise) apart from warnings, R = equals freshly reset data
//           (plus mj_forward for qacc) with every other warning zero, X = neither
//   S seed feat nbody integrator autoreset where idx bits nsteps
//        where 0 qpos 1 qvel 2 qfrc_applied 3 xfrc_applied 4 ctrl 5 act 6 nothing
//        -> err allfinite time_bits h_bits n (number lastinfo)*7 nidx
//   Z ntree mask shape kind autoreset pre_n pre_l ninj (idx bits)*
//        as C but on a SLEEP model (mjENBL_SLEEP, ntree kinematic trees far apart, tree t initialised asleep iff
//        bit t of mask; shape bit t: 0 free body, 1 slide+hinge chain) after two warm-up steps
//        -> n v0..vn-1 ; nind i0.. (loop order of the check: dof_awake_ind, or 0..n-1) | number lastinfo | bystander | class
//   T ntree mask shape integrator autoreset where k bits nsteps
//        mj_step on the sleep model with a value injected at the k-th AWAKE dof (where 0 qpos of its joint, 1 qvel,
//        2 qfrc_applied, 3 xfrc_applied of its body) -> like S, followed by nv nv_awake dof
#include "mjgen.h"

// models whose control vector is longer than the actuator list (multi-input actuators: SO3 orientation servo,
// PID servo with 2-3 inputs) in random order with single-input ones: actuator index != control index
static mjModel* CM = NULL; static unsigned long long cm_seed = 0;
static mjModel* ctrl_model(unsigned long long seed) {
  if (CM && cm_seed == seed) return CM;
  if (CM) mj_deleteModel(CM);
  mjg_rng R = { seed * 0x9E3779B97F4A7C15ULL + 7 }; mjg_rng* r = &R;
  mjSpec* s = mj_makeSpec();
  mjsBody* world = mjs_findBody(s, "world");
  int nball = 1 + mjg_int(r, 2), nhinge = 1 + mjg_int(r, 3);
  char nm[16];
  for (int b = 0; b < nball + nhinge; b++) {
    mjsBody* body = mjs_addBody(world, NULL); body->pos[0] = 2.0 * b; body->pos[2] = 1;
    mjsJoint* j = mjs_addJoint(body, NULL); snprintf(nm, sizeof(nm), "j%d", b); mjs_setName(j->element, nm);
    j->type = b < nball ? mjJNT_BALL : (mjg_chance(r, 0.3) ? mjJNT_SLIDE : mjJNT_HINGE);
    if (b >= nball) { j->axis[0] = 0; j->axis[1] = 1; j->axis[2] = 0; }
    mjsGeom* g = mjs_addGeom(body, NULL); g->type = mjGEOM_BOX; g->size[0] = 0.1; g->size[1] = 0.2; g->size[2] = 0.3; g->pos[0] = 0.2; g->contype = 0; g->conaffinity = 0;
  }
  int na = 2 + mjg_int(r, 4), multi = 0;
  for (int k = 0; k < na; k++) {
    mjsActuator* a = mjs_addActuator(s, NULL);
    int kind = mjg_int(r, 5);
    if (k == na - 1 && !multi) kind = mjg_int(r, 2);        // at least one multi-input actuator
    double kv = mjg_range(r, 0.2, 2);
    a->trntype = mjTRN_JOINT;
    if (kind == 0) {             // SO3 orientation servo, 3 inputs, optionally with integrated setpoint
      snprintf(nm, sizeof(nm), "j%d", mjg_int(r, nball)); mjs_setString(a->target, nm);
      int quat = mjg_chance(r, 0.3);      // quat chart: 4 inputs, stateless only
      mjs_setToOrientation(a, mjg_range(r, 2, 20), &kv, NULL, quat ? mjCHART_QUAT : mjCHART_EXPMAP);
      if (!quat && mjg_chance(r, 0.6)) a->dyntype = mjDYN_INTEGRATOR;
      multi = 1;
    } else if (kind == 1) {      // PID with 2-3 inputs, optionally with integral state
      snprintf(nm, sizeof(nm), "j%d", nball + mjg_int(r, nhinge)); mjs_setString(a->target, nm);
      static const int specs[4] = {mjINPUT_POS | mjINPUT_VEL | mjINPUT_FF, mjINPUT_POS | mjINPUT_VEL, mjINPUT_VEL | mjINPUT_FF, mjINPUT_POS | mjINPUT_FF};
      double ki = mjg_range(r, 0.5, 3), imax = 2;
      int useki = mjg_chance(r, 0.5);     // controller states require the pos input
      mjs_setToPID(a, mjg_range(r, 1, 10), &kv, NULL, useki ? &ki : NULL, &imax, NULL, 0, specs[useki ? (mjg_int(r, 2) ? 3 : mjg_int(r, 2)) : mjg_int(r, 4)]);
      multi = 1;
    } else {
      snprintf(nm, sizeof(nm), "j%d", nball + mjg_int(r, nhinge)); mjs_setString(a->target, nm);
      if (kind == 2) mjs_setToMotor(a); else if (kind == 3) mjs_setToVelocity(a, kv); else { mjs_setToPosition(a, 5, &kv, NULL, NULL, 0); }
      if (kind == 4 && mjg_chance(r, 0.5)) { a->dyntype = mjDYN_FILTER; a->dynprm[0] = 0.05; }
      if (mjg_chance(r, 0.4)) { a->ctrllimited = mjLIMITED_TRUE; a->ctrlrange[0] = -mjg_range(r, 0.5, 2); a->ctrlrange[1] = mjg_range(r, 0.5, 2); }
    }
  }
  CM = mj_compile(s, NULL);
  if (!CM) fprintf(stderr, "ctrl_model seed=%llu: %s\n", seed, mjs_getError(s));
  mj_deleteSpec(s); cm_seed = seed;
  return CM;
}

static mjModel* SM = NULL; static int sm_n = -1, sm_mask = -1, sm_shape = -1;
static mjModel* sleep_model(int ntree, int mask, int shape) {
  if (SM && sm_n == ntree && sm_mask == mask && sm_shape == shape) return SM;
  if (SM) mj_deleteModel(SM);
  mjSpec* s = mj_makeSpec();
  s->option.enableflags |= mjENBL_SLEEP;
  mjsBody* world = mjs_findBody(s, "world");
  for (int t = 0; t < ntree; t++) {
    mjsBody* body = mjs_addBody(world, NULL);
    body->pos[0] = 10.0 * t; body->pos[2] = 5.0;
    if (mask & (1 << t)) body->sleep = mjSLEEP_INIT;
    if (shape & (1 << t)) {
      mjsJoint* j1 = mjs_addJoint(body, NULL); j1->type = mjJNT_SLIDE; j1->axis[0] = 1; j1->axis[1] = 0; j1->axis[2] = 0;
      mjsJoint* j2 = mjs_addJoint(body, NULL); j2->type = mjJNT_HINGE; j2->axis[0] = 0; j2->axis[1] = 1; j2->axis[2] = 0;
      mjsBody* child = mjs_addBody(body, NULL); child->pos[0] = 0.3;
      mjsJoint* j3 = mjs_addJoint(child, NULL); j3->type = mjJNT_BALL;
      mjsGeom* g2 = mjs_addGeom(child, NULL); g2->type = mjGEOM_CAPSULE; g2->size[0] = 0.05; g2->size[1] = 0.15;
    } else {
      mjs_addFreeJoint(body);
    }
    mjsGeom* g = mjs_addGeom(body, NULL); g->type = mjGEOM_SPHERE; g->size[0] = 0.1;
  }
  SM = mj_compile(s, NULL);
  if (!SM) fprintf(stderr, "sleep model: %s\n", mjs_getError(s));
  mj_deleteSpec(s);
  sm_n = ntree; sm_mask = mask; sm_shape = shape;
  return SM;
}

static mjModel* M = NULL; static unsigned long long cs = 0; static unsigned cf = 0; static int cn = -1;
static mjModel* get_model(unsigned long long seed, unsigned feat, int nbody) {
  if (M && cs == seed && cf == feat && cn == nbody) return M;
  if (M) mj_deleteModel(M);
  M = mjg_model(seed, feat, nbody, NULL); cs = seed; cf = feat; cn = nbody;
  return M;
}
static double from_bits(unsigned long long b) { double x; memcpy(&x, &b, 8); return x; }
static unsigned long long to_bits(double x) { unsigned long long b; memcpy(&b, &x, 8); return b; }

static int same(const mjtNum* a, const mjtNum* b, int n) { return n == 0 || memcmp(a, b, sizeof(mjtNum) * n) == 0; }
static int same_state(const mjModel* m, const mjData* a, const mjData* b, int with_acc) {
  return same(a->qpos, b->qpos, m->nq) && same(a->qvel, b->qvel, m->nv) && same(a->act, b->act, m->na) &&
         same(a->ctrl, b->ctrl, m->nu) && same(a->qfrc_applied, b->qfrc_applied, m->nv) &&
         same(a->xfrc_applied, b->xfrc_applied, 6 * m->nbody) && same(&a->time, &b->time, 1) &&
         same(a->qacc_warmstart, b->qacc_warmstart, m->nv) && same(a->mocap_pos, b->mocap_pos, 3 * m->nmocap) &&
         (!with_acc || same(a->qacc, b->qacc, m->nv));
}

int main(void) {
  mjg_install_handlers();
  char* line = NULL; size_t cap = 0;
  while (getline(&line, &cap, stdin) > 0) {
    char* p = line; char op = *p++;
    if (op == 'M') {
      printf("%a %d %d %d %d\n", (double)mjMAXVAL, (int)mjNWARNING, (int)mjWARN_BADQPOS, (int)mjWARN_BADQVEL, (int)mjWARN_BADQACC);
    } else if (op == 'B') {
      int n = (int)strtol(p, &p, 10);
      for (int i = 0; i < n; i++) { unsigned long long b = strtoull(p, &p, 16); putchar(mju_isBad(from_bits(b)) ? '1' : '0'); }
      putchar('\n');
    } else if (op == 'C') {
      unsigned long long seed = strtoull(p, &p, 10); unsigned feat = (unsigned)strtoul(p, &p, 10); int nbody = (int)strtol(p, &p, 10);
      int kind = (int)strtol(p, &p, 10), autoreset = (int)strtol(p, &p, 10);
      int pre_n = (int)strtol(p, &p, 10), pre_l = (int)strtol(p, &p, 10), ninj = (int)strtol(p, &p, 10);
      mjModel* m = get_model(seed, feat, nbody);
      if (!m) { printf("ERR compile\n"); continue; }
      mjData* d = mj_makeData(m); mjData* snap = mj_makeData(m); mjData* ref = mj_makeData(m);
      mjg_rng r = {seed * 77 + 1}; mjg_random_state(m, d, &r, 1.0); d->time = 1.0;
      m->opt.disableflags &= ~mjDSBL_AUTORESET;
      mj_forward(m, d);
      int w = kind == 0 ? mjWARN_BADQPOS : kind == 1 ? mjWARN_BADQVEL : mjWARN_BADQACC;
      for (int k = 0; k < mjNWARNING; k++) { d->warning[k].number = 0; d->warning[k].lastinfo = 0; }
      d->warning[w].number = pre_n; d->warning[w].lastinfo = pre_l;
      d->warning[mjWARN_INERTIA].number = 3; d->warning[mjWARN_INERTIA].lastinfo = 7;
      mjtNum* vec = kind == 0 ? d->qpos : kind == 1 ? d->qvel : d->qacc; int n = kind == 0 ? m->nq : m->nv;
      for (int k = 0; k < ninj; k++) { int idx = (int)strtol(p, &p, 10); unsigned long long b = strtoull(p, &p, 16); if (n) vec[((idx % n) + n) % n] = from_bits(b); }
      mj_copyData(snap, m, d);
      printf("%d", n); for (int i = 0; i < n; i++) printf(" %016llx", to_bits(vec[i]));
      if (!autoreset) m->opt.disableflags |= mjDSBL_AUTORESET;
      int err = 0;
      if (MJG_TRY) { if (kind == 0) mj_checkPos(m, d); else if (kind == 1) mj_checkVel(m, d); else mj_checkAcc(m, d); MJG_END; } else err = 1;
      m->opt.disableflags &= ~mjDSBL_AUTORESET;
      if (kind == 2) mj_forward(m, ref);
      int others_zero = 1, others_same = 1;
      for (int k = 0; k < mjNWARNING; k++) if (k != w) {
        if (d->warning[k].number || d->warning[k].lastinfo) others_zero = 0;
        if (d->warning[k].number != snap->warning[k].number || d->warning[k].lastinfo != snap->warning[k].lastinfo) others_same = 0;
      }
      char cls = 'X';
      if (same_state(m, d, snap, 1) && others_same) cls = 'U';
      else if (same_state(m, d, ref, kind == 2) && others_zero) cls = 'R';
      printf(" | %d %d | %d %d | %c%s\n", d->warning[w].number, d->warning[w].lastinfo,
             d->warning[mjWARN_INERTIA].number, d->warning[mjWARN_INERTIA].lastinfo, cls, err ? " ERR" : "");
      mj_deleteData(d); mj_deleteData(snap); mj_deleteData(ref);
    } else if (op == 'S') {
      unsigned long long seed = strtoull(p, &p, 10); unsigned feat = (unsigned)strtoul(p, &p, 10); int nbody = (int)strtol(p, &p, 10);
      int integ = (int)strtol(p, &p, 10), autoreset = (int)strtol(p, &p, 10), where = (int)strtol(p, &p, 10), idx = (int)strtol(p, &p, 10);
      unsigned long long b = strtoull(p, &p, 16); int nsteps = (int)strtol(p, &p, 10);
      mjModel* m = get_model(seed, feat, nbody);
      if (!m) { printf("ERR compile\n"); continue; }
      mjData* d = mj_makeData(m);
      mjg_rng r = {seed * 77 + 1}; mjg_random_state(m, d, &r, 1.0); d->time = 1.0;
      int saved_int = m->opt.integrator; m->opt.integrator = integ;
      if (!autoreset) m->opt.disableflags |= mjDSBL_AUTORESET; else m->opt.disableflags &= ~mjDSBL_AUTORESET;
      mjtNum* vec = NULL; int n = 0;
      switch (where) { case 0: vec = d->qpos; n = m->nq; break; case 1: vec = d->qvel; n = m->nv; break; case 2: vec = d->qfrc_applied; n = m->nv; break;
        case 3: vec = d->xfrc_applied + 6; n = 6 * (m->nbody - 1); break; case 4: vec = d->ctrl; n = m->nu; break; case 5: vec = d->act; n = m->na; break; default: break; }
      int nidx = -1;
      if (vec && n > 0) { nidx = ((idx % n) + n) % n; vec[nidx] = from_bits(b); }
      int err = 0;
      if (MJG_TRY) { for (int s = 0; s < nsteps; s++) mj_step(m, d); MJG_END; } else err = 1;
      m->opt.integrator = saved_int; m->opt.disableflags &= ~mjDSBL_AUTORESET;
      int fin = isfinite(d->time) ? 1 : 0;
      for (int i = 0; i < m->nq; i++) if (!isfinite(d->qpos[i])) fin = 0;
      for (int i = 0; i < m->nv; i++) if (!isfinite(d->qvel[i])) fin = 0;
      for (int i = 0; i < m->na; i++) if (!isfinite(d->act[i])) fin = 0;
      printf("%d %d %016llx %016llx %d", err, fin, to_bits(d->time), to_bits(m->opt.timestep), n);
      for (int k = 0; k < mjNWARNING; k++) printf(" %d %d", d->warning[k].number, d->warning[k].lastinfo);
      printf(" %d\n", nidx);
      mj_deleteData(d);
    } else if (op == 'Z') {
      int ntree = (int)strtol(p, &p, 10), mask = (int)strtol(p, &p, 10), shape = (int)strtol(p, &p, 10);
      int kind = (int)strtol(p, &p, 10), autoreset = (int)strtol(p, &p, 10);
      int pre_n = (int)strtol(p, &p, 10), pre_l = (int)strtol(p, &p, 10), ninj = (int)strtol(p, &p, 10);
      mjModel* m = sleep_model(ntree, mask, shape);
      if (!m) { printf("ERR compile\n"); fflush(stdout); continue; }
      mjData* d = mj_makeData(m); mjData* snap = mj_makeData(m); mjData* ref = mj_makeData(m);
      m->opt.disableflags &= ~mjDSBL_AUTORESET;
      mj_step(m, d); mj_step(m, d); d->time = 1.0;
      mj_forward(m, d);
      int w = kind == 0 ? mjWARN_BADQPOS : kind == 1 ? mjWARN_BADQVEL : mjWARN_BADQACC;
      for (int k = 0; k < mjNWARNING; k++) { d->warning[k].number = 0; d->warning[k].lastinfo = 0; }
      d->warning[w].number = pre_n; d->warning[w].lastinfo = pre_l;
      d->warning[mjWARN_INERTIA].number = 3; d->warning[mjWARN_INERTIA].lastinfo = 7;
      mjtNum* vec = kind == 0 ? d->qpos : kind == 1 ? d->qvel : d->qacc; int n = kind == 0 ? m->nq : m->nv;
      for (int k = 0; k < ninj; k++) { int idx = (int)strtol(p, &p, 10); unsigned long long b = strtoull(p, &p, 16); if (n) vec[((idx % n) + n) % n] = from_bits(b); }
      mj_copyData(snap, m, d);
      printf("%d", n); for (int i = 0; i < n; i++) printf(" %016llx", to_bits(vec[i]));
      int filt = kind != 0 && d->nv_awake < m->nv;
      int nind = filt ? d->nv_awake : n;
      printf(" ; %d", nind); for (int j = 0; j < nind; j++) printf(" %d", filt ? d->dof_awake_ind[j] : j);
      if (!autoreset) m->opt.disableflags |= mjDSBL_AUTORESET;
      int err = 0;
      if (MJG_TRY) { if (kind == 0) mj_checkPos(m, d); else if (kind == 1) mj_checkVel(m, d); else mj_checkAcc(m, d); MJG_END; } else err = 1;
      m->opt.disableflags &= ~mjDSBL_AUTORESET;
      if (kind == 2) mj_forward(m, ref);
      int others_zero = 1, others_same = 1;
      for (int k = 0; k < mjNWARNING; k++) if (k != w) {
        if (d->warning[k].number || d->warning[k].lastinfo) others_zero = 0;
        if (d->warning[k].number != snap->warning[k].number || d->warning[k].lastinfo != snap->warning[k].lastinfo) others_same = 0;
      }
      char cls = 'X';
      if (same_state(m, d, snap, 1) && others_same) cls = 'U';
      else if (same_state(m, d, ref, kind == 2) && others_zero) cls = 'R';
      printf(" | %d %d | %d %d | %c%s\n", d->warning[w].number, d->warning[w].lastinfo,
             d->warning[mjWARN_INERTIA].number, d->warning[mjWARN_INERTIA].lastinfo, cls, err ? " ERR" : "");
      mj_deleteData(d); mj_deleteData(snap); mj_deleteData(ref);
    } else if (op == 'T') {
      int ntree = (int)strtol(p, &p, 10), mask = (int)strtol(p, &p, 10), shape = (int)strtol(p, &p, 10);
      int integ = (int)strtol(p, &p, 10), autoreset = (int)strtol(p, &p, 10), where = (int)strtol(p, &p, 10), kk = (int)strtol(p, &p, 10);
      unsigned long long b = strtoull(p, &p, 16); int nsteps = (int)strtol(p, &p, 10);
      mjModel* m = sleep_model(ntree, mask, shape);
      if (!m) { printf("ERR compile\n"); fflush(stdout); continue; }
      mjData* d = mj_makeData(m);
      int saved_int = m->opt.integrator; m->opt.integrator = integ;
      m->opt.disableflags &= ~mjDSBL_AUTORESET;
      mj_step(m, d); mj_step(m, d); d->time = 1.0;
      if (!autoreset) m->opt.disableflags |= mjDSBL_AUTORESET;
      int nva = d->nv_awake, dof = -1, n = 0, nidx = -1;
      if (nva > 0 && where <= 3) {
        dof = nva < m->nv ? d->dof_awake_ind[((kk % nva) + nva) % nva] : ((kk % m->nv) + m->nv) % m->nv;
        n = 1;
        if (where == 0) { nidx = m->jnt_qposadr[m->dof_jntid[dof]]; d->qpos[nidx] = from_bits(b); }
        else if (where == 1) { nidx = dof; d->qvel[dof] = from_bits(b); }
        else if (where == 2) { nidx = dof; d->qfrc_applied[dof] = from_bits(b); }
        else { nidx = 6 * m->dof_bodyid[dof] + (((kk % 6) + 6) % 6); d->xfrc_applied[nidx] = from_bits(b); }
      }
      int err = 0;
      if (MJG_TRY) { for (int s2 = 0; s2 < nsteps; s2++) mj_step(m, d); MJG_END; } else err = 1;
      m->opt.integrator = saved_int; m->opt.disableflags &= ~mjDSBL_AUTORESET;
      int fin = isfinite(d->time) ? 1 : 0;
      for (int i = 0; i < m->nq; i++) if (!isfinite(d->qpos[i])) fin = 0;
      for (int i = 0; i < m->nv; i++) if (!isfinite(d->qvel[i])) fin = 0;
      printf("%d %d %016llx %016llx %d", err, fin, to_bits(d->time), to_bits(m->opt.timestep), n);
      for (int k = 0; k < mjNWARNING; k++) printf(" %d %d", d->warning[k].number, d->warning[k].lastinfo);
      printf(" %d %d %d %d\n", nidx, m->nv, nva, dof);
      mj_deleteData(d);
    } else if (op == 'K' || op == 'W') {
      // K cseed pre_n pre_l ninj (idx bits)*  : mj_forward on the multi-input model with controls 0.1*(i+1) and injected values
      //    -> nu nactuator | (limited lo hi)*nu | ctrl*nu | BADCTRL number lastinfo | zeroed (forces and act_dot equal to the all-zero-control reference)
      // W cseed integrator autoreset idx bits nsteps : mj_step with the injected control -> like S
      unsigned long long seed = strtoull(p, &p, 10);
      mjModel* m = ctrl_model(seed);
      if (!m) { printf("ERR compile\n"); fflush(stdout); continue; }
      mjData* d = mj_makeData(m);
      m->opt.disableflags &= ~mjDSBL_AUTORESET;
      for (int i = 0; i < m->nu; i++) d->ctrl[i] = 0.1 * (i + 1);
      if (op == 'K') {
        int pre_n = (int)strtol(p, &p, 10), pre_l = (int)strtol(p, &p, 10), ninj = (int)strtol(p, &p, 10);
        for (int t = 0; t < 3; t++) mj_step(m, d);
        mjData* ref = mj_makeData(m); mj_copyData(ref, m, d);
        for (int k = 0; k < ninj; k++) { int idx = (int)strtol(p, &p, 10); unsigned long long b = strtoull(p, &p, 16); if (m->nu) d->ctrl[((idx % m->nu) + m->nu) % m->nu] = from_bits(b); }
        d->warning[mjWARN_BADCTRL].number = pre_n; d->warning[mjWARN_BADCTRL].lastinfo = pre_l;
        mju_zero(ref->ctrl, m->nu);
        int err = 0;
        if (MJG_TRY) { mj_forward(m, d); mj_forward(m, ref); MJG_END; } else err = 1;
        printf("%d %d |", m->nu, m->nactuator);
        for (int i = 0; i < m->nu; i++) printf(" %d %016llx %016llx", (int)m->actuator_ctrllimited[i], to_bits(m->actuator_ctrlrange[2 * i]), to_bits(m->actuator_ctrlrange[2 * i + 1]));
        printf(" |"); for (int i = 0; i < m->nu; i++) printf(" %016llx", to_bits(d->ctrl[i]));
        int nout = 0; for (int i = 0; i < m->nactuator; i++) nout += m->actuator_outnum[i];
        int zeroed = same(d->actuator_force, ref->actuator_force, nout) && same(d->act_dot, ref->act_dot, m->na);
        printf(" | %d %d | %d%s\n", d->warning[mjWARN_BADCTRL].number, d->warning[mjWARN_BADCTRL].lastinfo, zeroed, err ? " ERR" : "");
        mj_deleteData(ref);
      } else {
        int integ = (int)strtol(p, &p, 10), autoreset = (int)strtol(p, &p, 10), idx = (int)strtol(p, &p, 10);
        unsigned long long b = strtoull(p, &p, 16); int nsteps = (int)strtol(p, &p, 10);
        int saved_int = m->opt.integrator; m->opt.integrator = integ;
        for (int t = 0; t < 3; t++) mj_step(m, d);
        d->time = 1.0;
        if (!autoreset) m->opt.disableflags |= mjDSBL_AUTORESET;
        int nidx = ((idx % m->nu) + m->nu) % m->nu;
        d->ctrl[nidx] = from_bits(b);
        int err = 0;
        if (MJG_TRY) { for (int s2 = 0; s2 < nsteps; s2++) mj_step(m, d); MJG_END; } else err = 1;
        m->opt.integrator = saved_int; m->opt.disableflags &= ~mjDSBL_AUTORESET;
        int fin = isfinite(d->time) ? 1 : 0;
        for (int i = 0; i < m->nq; i++) if (!isfinite(d->qpos[i])) fin = 0;
        for (int i = 0; i < m->nv; i++) if (!isfinite(d->qvel[i])) fin = 0;
        for (int i = 0; i < m->na; i++) if (!isfinite(d->act[i])) fin = 0;
        printf("%d %d %016llx %016llx %d", err, fin, to_bits(d->time), to_bits(m->opt.timestep), m->nu);
        for (int k = 0; k < mjNWARNING; k++) printf(" %d %d", d->warning[k].number, d->warning[k].lastinfo);
        printf(" %d %d %d %d %016llx %016llx\n", nidx, m->nu, m->nactuator, (int)m->actuator_ctrllimited[nidx],
               to_bits(m->actuator_ctrlrange[2 * nidx]), to_bits(m->actuator_ctrlrange[2 * nidx + 1]));
      }
      mj_deleteData(d);
    } else {
      printf("ERR op\n");
    }
    fflush(stdout);
  }
  return 0;
}
