"""C49 driver: runs the working tree's python/mujoco/introspect code (loaded BY PATH under a private
package name; the installed mujoco wheel is never imported).

usage: /venv/bin/python c49_introspect.py <repo> <request.json> <response.json>

request : {"asts": [ast...], "strings": [str...], "name": "x"}
response: {
  "meta_types": [{"where":..., "ast":..., "decl":..., "decl_named":..., "parse": ast|{"error":..}}],
  "asts":       [{"ok": bool, "decl":..., "decl_named":..., "parse":...} | {"ok": false, "error":..}],
  "strings":    [{"parse": ast | {"error": cls}, "decl": str|None}],
  "cfile": text of the generated C file, "cmap": {line: id}, "counts": {...},
  "meta": {"structs": {name: [field paths]}, "enums": {name: [[const, value]..]}, "functions": [names]}}
ast JSON: {"k":"V","name":s,"c":b,"v":b,"n":b} | {"k":"A","inner":ast,"ext":[ints]} |
          {"k":"P","inner":ast,"n":b,"c":b,"v":b,"r":b}
"""
import importlib.util
import json
import os
import sys
import types


def load(repo):
  d = os.path.join(repo, 'python/mujoco/introspect')
  pkg = types.ModuleType('_mjv_c49')
  pkg.__path__ = [d]
  sys.modules['_mjv_c49'] = pkg
  mods = {}
  for n in ('ast_nodes', 'type_parsing', 'structs', 'functions', 'enums'):
    spec = importlib.util.spec_from_file_location('_mjv_c49.' + n, os.path.join(d, n + '.py'))
    m = importlib.util.module_from_spec(spec)
    sys.modules[spec.name] = m
    spec.loader.exec_module(m)
    mods[n] = m
  return mods


def main():
  repo, req_path, resp_path = sys.argv[1:4]
  M = load(repo)
  an, tp = M['ast_nodes'], M['type_parsing']
  for m in M.values():
    assert os.path.realpath(m.__file__).startswith(os.path.realpath(repo)), m.__file__
  req = json.load(open(req_path))
  nm = req.get('name', 'x')

  def to_json(t):
    if isinstance(t, an.ValueType):
      return {'k': 'V', 'name': t.name, 'c': bool(t.is_const), 'v': bool(t.is_volatile), 'n': bool(t.nullable)}
    if isinstance(t, an.ArrayType):
      return {'k': 'A', 'inner': to_json(t.inner_type), 'ext': [int(e) for e in t.extents]}
    if isinstance(t, an.PointerType):
      return {'k': 'P', 'inner': to_json(t.inner_type), 'n': bool(t.nullable), 'c': bool(t.is_const),
              'v': bool(t.is_volatile), 'r': bool(t.is_restrict)}
    raise TypeError('not a type node: %r' % (t,))

  def of_json(j):
    if j['k'] == 'V':
      return an.ValueType(name=j['name'], is_const=j['c'], is_volatile=j['v'], nullable=j['n'])
    if j['k'] == 'A':
      return an.ArrayType(inner_type=of_json(j['inner']), extents=tuple(j['ext']))
    return an.PointerType(inner_type=of_json(j['inner']), nullable=j['n'], is_const=j['c'],
                          is_volatile=j['v'], is_restrict=j['r'])

  def parse(s):
    try:
      return to_json(tp.parse_type(s))
    except ValueError:
      return {'error': 'ValueError'}
    except RecursionError:
      return {'error': 'RecursionError'}
    except Exception as e:  # anything else escaping parse_type
      return {'error': type(e).__name__}

  # ------------------------------------------------------------ every type node of the metadata
  meta_types = []

  def add_type(where, t):
    d = t.decl()
    meta_types.append({'where': where, 'ast': to_json(t), 'decl': d, 'decl_named': t.decl(nm), 'parse': parse(d)})

  struct_paths = {}   # struct name -> list of (path, decltype or None)

  def walk_fields(sname, prefix, fields, out):
    for f in fields:
      if isinstance(f, an.AnonymousStructDecl):       # anonymous union/struct member without a name
        walk_fields(sname, prefix, f.fields, out)
      elif isinstance(f.type, an.AnonymousStructDecl):
        out.append((prefix + f.name, None))
        walk_fields(sname, prefix + f.name + '.', f.type.fields, out)
      else:
        out.append((prefix + f.name, f.type.decl()))
        add_type('structs.py:%s.%s%s' % (sname, prefix, f.name), f.type)

  for key, s in M['structs'].STRUCTS.items():
    out = []
    walk_fields(s.name, '', s.fields, out)
    struct_paths[key] = out
  for key, f in M['functions'].FUNCTIONS.items():
    add_type('functions.py:%s:return' % f.name, f.return_type)
    for p in f.parameters:
      add_type('functions.py:%s:%s' % (f.name, p.name), p.type)

  # ------------------------------------------------------------ requested ASTs and strings
  asts_out = []
  for j in req.get('asts', []):
    try:
      t = of_json(j)
    except ValueError:
      asts_out.append({'ok': False, 'error': 'ValueError'})
      continue
    d = t.decl()
    asts_out.append({'ok': True, 'decl': d, 'decl_named': t.decl(nm), 'parse': parse(d), 'eq': None})
    try:
      asts_out[-1]['eq'] = (tp.parse_type(d) == t)
    except Exception:
      asts_out[-1]['eq'] = False
  strs_out = []
  for s in req.get('strings', []):
    r = parse(s)
    d = None
    if 'error' not in r:
      d = of_json(r).decl()
    strs_out.append({'parse': r, 'decl': d})

  # ------------------------------------------------------------ the C file
  lines = []
  cmap = {}
  counts = {'struct_field_type': 0, 'struct_field_offset': 0, 'struct_size': 0, 'struct_tag': 0,
            'enum_const': 0, 'enum_tag': 0, 'function_type': 0, 'function_redecl': 0}

  def emit(text, ident=None):
    for l in text.split('\n'):
      lines.append(l)
      if ident is not None:
        cmap[len(lines)] = ident

  def sa(cond, ident, kind):
    counts[kind] += 1
    emit('_Static_assert(%s, "%s");' % (cond, ident), ident)

  emit('#include <stddef.h>')
  emit('#include <mujoco/mujoco.h>')
  for key, s in M['structs'].STRUCTS.items():
    sid = 'structs.py:%s' % s.name
    sa('__builtin_types_compatible_p(%s, %s)' % (s.name, s.declname), sid + ':declname', 'struct_tag')
    if not s.fields:
      continue
    # mirror struct printed by the implementation's own printers
    body = ' '.join(str(f) + ';' for f in s.fields)
    emit('struct mirror_%s { %s };' % (s.name, body), sid + ':mirror')
    sa('sizeof(struct mirror_%s) == sizeof(%s)' % (s.name, s.name), sid + ':sizeof', 'struct_size')
    for path, dt in struct_paths[key]:
      fid = '%s.%s' % (sid, path)
      sa('offsetof(struct mirror_%s, %s) == offsetof(%s, %s)' % (s.name, path, s.name, path), fid + ':offset',
         'struct_field_offset')
      if dt is not None:
        sa('__builtin_types_compatible_p(__typeof__(&((%s *)0)->%s), __typeof__(%s) *)' % (s.name, path, dt),
           fid + ':type', 'struct_field_type')
        sa('sizeof(((%s *)0)->%s) == sizeof(%s)' % (s.name, path, dt), fid + ':size', 'struct_size')
  for key, e in M['enums'].ENUMS.items():
    eid = 'enums.py:%s' % e.name
    sa('__builtin_types_compatible_p(%s, %s)' % (e.name, e.declname), eid + ':declname', 'enum_tag')
    for cname, val in e.values.items():
      sa('(long long)(%s) == (%dLL)' % (cname, val), '%s.%s' % (eid, cname), 'enum_const')
  for key, f in M['functions'].FUNCTIONS.items():
    fid = 'functions.py:%s' % f.name
    if f.parameters:
      dt = f.decltype
      proto = str(f)
    else:
      dt = '%s (void)' % f.return_type
      proto = '%s %s(void)' % (f.return_type, f.name)
    sa('__builtin_types_compatible_p(__typeof__(%s), %s)' % (f.name, dt), fid + ':type', 'function_type')
    counts['function_redecl'] += 1
    emit('extern %s;' % proto, fid + ':redeclaration')

  meta = {
      'structs': {k: [p for p, _ in v] for k, v in struct_paths.items()},
      'struct_names': {k: [s.name, s.declname] for k, s in M['structs'].STRUCTS.items()},
      'enums': {k: [[c, int(v)] for c, v in e.values.items()] for k, e in M['enums'].ENUMS.items()},
      'enum_names': {k: [e.name, e.declname] for k, e in M['enums'].ENUMS.items()},
      'functions': {k: [p.name for p in f.parameters] for k, f in M['functions'].FUNCTIONS.items()},
  }
  json.dump({'meta_types': meta_types, 'asts': asts_out, 'strings': strs_out, 'cfile': '\n'.join(lines) + '\n',
             'cmap': cmap, 'counts': counts, 'meta': meta}, open(resp_path, 'w'))


if __name__ == '__main__':
  main()
