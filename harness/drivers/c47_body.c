// C47 driver: "applying them to a body yields a spec that compiles with the same mass properties".
// stdin: one body per line  "ifg explicit hasgeom mass c0 c1 c2 f00 f11 f22 f01 f02 f12": the state in which
// apply_body_theta_inertia left the spec: compiler.inertiafromgeom, body.explicitinertial, whether the body
// carries a geom with mass, and the values it wrote (mass, ipos, fullinertia; inertia = 0, iquat = NaN).
// The spec is built through the mjSpec C API of the tree under test and compiled by its compiler.
// stdout per line:  "ok mass ipos[3] iquat[4] inertia[3]"  (hex floats)  or  "err <message>".
#include "mjgen.h"

int main(void) {
  mjg_install_handlers();
  char line[4096];
  while (fgets(line, sizeof line, stdin)) {
    double w[13]; double* v = w + 3;
    int n = 0; char* p = line;
    for (; n < 13; n++) { char* e; w[n] = strtod(p, &e); if (e == p) break; p = e; }
    if (n < 13) { printf("err parse\n"); continue; }
    mjSpec* s = mj_makeSpec();
    s->compiler.inertiafromgeom = (int)w[0];
    mjsBody* world = mjs_findBody(s, "world");
    mjsBody* b = mjs_addBody(world, NULL);
    mjs_setName(b->element, "b");
    b->pos[0] = 0.1; b->pos[1] = 0.2; b->pos[2] = 0.3;
    mjsJoint* j = mjs_addJoint(b, NULL); j->type = mjJNT_FREE;
    if (w[2] != 0) {
      mjsGeom* g = mjs_addGeom(b, NULL); g->type = mjGEOM_BOX; g->density = 500;
      g->size[0] = 0.1; g->size[1] = 0.2; g->size[2] = 0.3; g->pos[0] = 0.05; g->pos[2] = 0.1;
    }
    b->explicitinertial = (w[1] != 0);
    b->mass = v[0];
    for (int i = 0; i < 3; i++) { b->ipos[i] = v[1 + i]; b->inertia[i] = 0; }
    for (int i = 0; i < 4; i++) b->iquat[i] = NAN;
    for (int i = 0; i < 6; i++) b->fullinertia[i] = v[4 + i];
    mjModel* m = NULL;
    if (MJG_TRY) { m = mj_compile(s, NULL); MJG_END; }
    if (!m) {
      const char* e = mjs_getError(s);
      char msg[1024]; snprintf(msg, sizeof msg, "%s", e && e[0] ? e : mjg_last_error);
      for (char* q = msg; *q; q++) if (*q == '\n' || *q == '\r') *q = ' ';
      printf("err %s\n", msg);
    } else {
      printf("ok %a %a %a %a %a %a %a %a %a %a %a\n", m->body_mass[1],
             m->body_ipos[3], m->body_ipos[4], m->body_ipos[5],
             m->body_iquat[4], m->body_iquat[5], m->body_iquat[6], m->body_iquat[7],
             m->body_inertia[3], m->body_inertia[4], m->body_inertia[5]);
      mj_deleteModel(m);
    }
    mj_deleteSpec(s);
    fflush(stdout);
  }
  return 0;
}
