// C12 driver.
//   c12_update raw            : reads cases on stdin, calls mj_constraintUpdate_impl of the working tree on
//                               the raw arrays, prints cost / force / state / cone Hessians.
//   c12_update gen s0 s1 [k]  : builds mjgen models for seeds s0..s1-1, steps them, and prints the efc arrays and
//                               contact descriptors that the engine itself produced (mj_makeConstraint /
//                               mj_makeImpedance), so that the harness can rerun them through `raw` with other jar.
// raw case (one line, doubles as C99 hex floats):
//   ne nf nefc ncon flgH  D[nefc] R[nefc] floss[nefc] jar[nefc] type[nefc] id[nefc]  {dim mu fr0..fr4}[ncon]
// raw output (one line): cost force[nefc] state[nefc] nH {dim H[dim*dim]}[nH]   (H of CONE-state contacts, row order)
#include <stdio.h>
#include <stdlib.h>
#include <string.h>
#include "mjgen.h"
#include "engine/engine_core_constraint.h"

static int rd_int(int* v) { return scanf("%d", v) == 1; }
static int rd_num(mjtNum* v) { char buf[128]; if (scanf("%127s", buf) != 1) return 0; *v = strtod(buf, NULL); return 1; }

static int run_raw(void) {
  int ne, nf, nefc, ncon, flgH;
  while (rd_int(&ne)) {
    if (!rd_int(&nf) || !rd_int(&nefc) || !rd_int(&ncon) || !rd_int(&flgH)) return 2;
    int cap = nefc > 0 ? nefc : 1, ccap = ncon > 0 ? ncon : 1;
    mjtNum* D = calloc(cap, sizeof(mjtNum)); mjtNum* R = calloc(cap, sizeof(mjtNum));
    mjtNum* fl = calloc(cap, sizeof(mjtNum)); mjtNum* jar = calloc(cap, sizeof(mjtNum));
    mjtNum* force = calloc(cap, sizeof(mjtNum));
    int* type = calloc(cap, sizeof(int)); int* id = calloc(cap, sizeof(int)); int* state = calloc(cap, sizeof(int));
    mjContact* con = calloc(ccap, sizeof(mjContact));
    for (int i = 0; i < nefc; i++) if (!rd_num(D + i)) return 2;
    for (int i = 0; i < nefc; i++) if (!rd_num(R + i)) return 2;
    for (int i = 0; i < nefc; i++) if (!rd_num(fl + i)) return 2;
    for (int i = 0; i < nefc; i++) if (!rd_num(jar + i)) return 2;
    for (int i = 0; i < nefc; i++) if (!rd_int(type + i)) return 2;
    for (int i = 0; i < nefc; i++) if (!rd_int(id + i)) return 2;
    for (int c = 0; c < ncon; c++) {
      if (!rd_int(&con[c].dim) || !rd_num(&con[c].mu)) return 2;
      for (int k = 0; k < 5; k++) if (!rd_num(&con[c].friction[k])) return 2;
      for (int k = 0; k < 36; k++) con[c].H[k] = 555.0;
    }
    for (int i = 0; i < nefc; i++) { force[i] = 777.0; state[i] = -1; }
    mjtNum cost = 888.0;
    mj_constraintUpdate_impl(ne, nf, nefc, D, R, fl, jar, type, id, con, state, force, &cost, flgH);
    printf("%a", cost);
    for (int i = 0; i < nefc; i++) printf(" %a", force[i]);
    for (int i = 0; i < nefc; i++) printf(" %d", state[i]);
    int nH = 0;
    if (flgH) for (int i = ne + nf; i < nefc; i++) if (type[i] == mjCNSTR_CONTACT_ELLIPTIC) { if (state[i] == mjCNSTRSTATE_CONE) nH++; i += con[id[i]].dim - 1; }
    printf(" %d", nH);
    if (flgH) for (int i = ne + nf; i < nefc; i++) if (type[i] == mjCNSTR_CONTACT_ELLIPTIC) {
      int dim = con[id[i]].dim;
      if (state[i] == mjCNSTRSTATE_CONE) { printf(" %d", dim); for (int k = 0; k < dim * dim; k++) printf(" %a", con[id[i]].H[k]); }
      i += dim - 1;
    }
    printf("\n");
    free(D); free(R); free(fl); free(jar); free(force); free(type); free(id); free(state); free(con);
  }
  return 0;
}

// print one engine-produced configuration
static void dump(const mjModel* m, const mjData* d, unsigned long long seed, unsigned feat, int nb, int step) {
  int nefc = d->nefc;
  printf("M %llu %u %d %d %d %a %d %d %d %d %d", seed, feat, nb, step, m->opt.cone, m->opt.impratio, m->opt.solver,
         d->ne, d->nf, nefc, d->ncon);
  mjtNum* jar = malloc(sizeof(mjtNum) * (nefc > 0 ? nefc : 1));
  if (nefc) { mj_mulJacVec(m, d, jar, d->qacc); for (int i = 0; i < nefc; i++) jar[i] -= d->efc_aref[i]; }
  for (int i = 0; i < nefc; i++) printf(" %a", d->efc_D[i]);
  for (int i = 0; i < nefc; i++) printf(" %a", d->efc_R[i]);
  for (int i = 0; i < nefc; i++) printf(" %a", d->efc_frictionloss[i]);
  for (int i = 0; i < nefc; i++) printf(" %a", jar[i]);
  for (int i = 0; i < nefc; i++) printf(" %d", d->efc_type[i]);
  for (int i = 0; i < nefc; i++) printf(" %d", d->efc_id[i]);
  for (int c = 0; c < d->ncon; c++) {
    printf(" %d %a", d->contact[c].dim, d->contact[c].mu);
    for (int k = 0; k < 5; k++) printf(" %a", d->contact[c].friction[k]);
    printf(" %d", d->contact[c].efc_address);
  }
  printf("\n");
  free(jar);
}

static int run_gen(int s0, int s1) {
  mjg_install_handlers();
  printf("E %d %d %d %d %d %d %d\n", mjCNSTR_CONTACT_PYRAMIDAL, mjCNSTR_CONTACT_ELLIPTIC, mjCNSTRSTATE_SATISFIED,
         mjCNSTRSTATE_QUADRATIC, mjCNSTRSTATE_LINEARNEG, mjCNSTRSTATE_LINEARPOS, mjCNSTRSTATE_CONE);
  for (int seed = s0; seed < s1; seed++) {
    unsigned feat = MJG_CONTACT | MJG_ELLIPTIC | MJG_FREE | MJG_SLIDE | MJG_BALL | MJG_LIMIT | MJG_FRICTIONLOSS |
                    MJG_EQUALITY | MJG_TENDON | MJG_MULTITREE | MJG_SPRING;
    int nb = 2 + seed % 5;
    mjModel* m = mjg_model(seed, feat, nb, NULL);
    if (!m) { printf("X %d compile\n", seed); continue; }
    mjg_rng r = {(uint64_t)seed * 1315423911ULL + 7};
    m->opt.cone = (seed % 3 == 0) ? mjCONE_PYRAMIDAL : mjCONE_ELLIPTIC;
    { static const double ir[5] = {1, 1, 0.3, 4.5, 17}; m->opt.impratio = ir[mjg_int(&r, 5)]; }
    for (int g = 0; g < m->ngeom; g++) if (mjg_chance(&r, 0.5)) {
      m->geom_friction[3 * g + 1] = mjg_range(&r, 0.001, 0.3);
      m->geom_friction[3 * g + 2] = mjg_range(&r, 0.0001, 0.1);
    }
    mjData* d = mj_makeData(m);
    mjg_random_state(m, d, &r, 1.0);
    if (MJG_TRY) {
      int done = 0;
      for (int step = 0; step <= 60 && done < 3; step++) {
        if (step == 0) mj_forward(m, d); else mj_step(m, d);
        if (step == 0 || step == 7 || step == 25 || step == 60) { mj_forward(m, d); if (d->nefc > 0 && d->nefc <= 160) { dump(m, d, seed, feat, nb, step); done++; } }
      }
      MJG_END;
    } else { printf("X %d error %s\n", seed, mjg_last_error); }
    mj_deleteData(d); mj_deleteModel(m);
  }
  return 0;
}

int main(int argc, char** argv) {
  if (argc >= 2 && !strcmp(argv[1], "raw")) return run_raw();
  if (argc >= 4 && !strcmp(argv[1], "gen")) return run_gen(atoi(argv[2]), atoi(argv[3]));
  fprintf(stderr, "usage: c12_update raw | gen s0 s1\n");
  return 2;
}
