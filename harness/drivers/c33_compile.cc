// C33 driver: compilation is deterministic and copy-invariant (oracle on the implementation through mjSpec).
//
// A spec is generated from (seed, nmesh, ntex, flags): an mjgen body tree plus assets that go through
// the compiler's work queue (CompileMeshesAndTextures): meshes given as vertex/face arrays (the first one
// large, the others small, so completion order differs from index order), builtin meshes, procedural
// textures + materials, a height field; optionally actuator length ranges (second use of the pool).
// qhull is stubbed in this build: meshes are attached to non-colliding geoms (no hull needed).
//
// stdin : <seed> <feat> <nbody> <nmesh> <ntex> <flags> <reps>      flags: 1 = length ranges, 2 = hfield,
//         4 = builtin meshes, 8 = start with usethread off, 16 = delayed actuators (history), 32 = muscle rig (length ranges of
//         the muscles go through the pool under the default LRopt.mode), 64 = 2..4 extra mocap bodies, 256 = frames rig (nested frames, alternative orientations,
//         elements attached to inner frames), 128 = extras rig (spatial tendons with site / sphere /
//         cylinder / pulley wraps, tendon actuator and sensors, pair, exclude, numeric, text, tuple, camera, light)
// stdout: CASE i / lines "CMP <what> <0|1> <detail>" and "STATE <what> <0|1> <detail>" / END <OK|DIFF|REJECTED|REJDIFF>
//         (REJ <what> <0|1> <error>: the spec is rejected; the error text must be identical in every variant)
#include <math.h>
#include <stdint.h>
#include <stdio.h>
#include <stdlib.h>
#include <string.h>

#include <string>
#include <vector>

#include "mjgen.h"
#include <mujoco/mjxmacro.h>

static std::vector<unsigned char> save(const mjModel* m) {
  std::vector<unsigned char> b((size_t)mj_sizeModel(m));
  mj_saveModel(m, NULL, b.data(), (int)b.size());
  return b;
}

// name of the first mjModel array / size field that differs
static std::string first_diff(const mjModel* a, const mjModel* b) {
#define X(name) if (a->name != b->name) return std::string("size ") + #name;
  MJMODEL_SIZES
#undef X
  {
    MJMODEL_POINTERS_PREAMBLE(a)
#define X(type, name, nr, nc) \
    if (memcmp(a->name, b->name, sizeof(type) * (size_t)(a->nr) * (nc))) return std::string("array ") + #name;
    MJMODEL_POINTERS
#undef X
  }
  if (memcmp(&a->opt, &b->opt, sizeof(a->opt))) return "opt";
  if (memcmp(&a->vis, &b->vis, sizeof(a->vis))) return "vis";
  if (memcmp(&a->stat, &b->stat, sizeof(a->stat))) return "stat";
  return "struct/other";
}

static int g_ndiff = 0;
static void cmp(const char* what, const mjModel* ref, const std::vector<unsigned char>& rb, const mjModel* m) {
  if (!m) { printf("CMP %s 0 compile-failed\n", what); g_ndiff++; return; }
  std::vector<unsigned char> b = save(m);
  if (b.size() == rb.size() && !memcmp(b.data(), rb.data(), b.size())) { printf("CMP %s 1 %zu\n", what, b.size()); return; }
  size_t off = 0;
  while (off < b.size() && off < rb.size() && b[off] == rb[off]) off++;
  printf("CMP %s 0 sizes %zu/%zu first-byte %zu %s\n", what, rb.size(), b.size(), off, first_diff(ref, m).c_str());
  g_ndiff++;
}

// a deep copy has as many elements of every kind as its source (stated on the spec, before any compile)
static void count_cmp(const char* what, const mjSpec* a, const mjSpec* b) {
  static const int types[] = {mjOBJ_BODY, mjOBJ_JOINT, mjOBJ_GEOM, mjOBJ_SITE, mjOBJ_CAMERA, mjOBJ_LIGHT, mjOBJ_MESH, mjOBJ_HFIELD, mjOBJ_TEXTURE,
                              mjOBJ_MATERIAL, mjOBJ_PAIR, mjOBJ_EXCLUDE, mjOBJ_EQUALITY, mjOBJ_TENDON, mjOBJ_ACTUATOR, mjOBJ_SENSOR, mjOBJ_NUMERIC,
                              mjOBJ_TEXT, mjOBJ_TUPLE, mjOBJ_KEY};
  std::string bad; int tot = 0;
  for (int t : types) {
    int na = 0, nb = 0;
    for (mjsElement* e = mjs_firstElement(a, (mjtObj)t); e; e = mjs_nextElement(a, e)) na++;
    for (mjsElement* e = mjs_firstElement(b, (mjtObj)t); e; e = mjs_nextElement(b, e)) nb++;
    tot += na;
    if (na != nb) bad += std::string(mju_type2Str(t)) + ":" + std::to_string(na) + "->" + std::to_string(nb) + " ";
  }
  printf("CNT %s %d %d %s\n", what, bad.empty() ? 1 : 0, tot, bad.c_str());
  if (!bad.empty()) g_ndiff++;
}

// Independent placement oracle for the quaternion-only frame chain "fq0_*" of the frames rig: the pose of site fs0_lv and
// geom fg0_lv in their body is  T(fq0_0) o ... o T(fq0_lv) o T(element)  with the poses as written into the spec.  The
// composition is recomputed here from the spec values (own quaternion arithmetic) and compared with the compiled model.
static void qmul(const double a[4], const double b[4], double r[4]) {
  r[0] = a[0]*b[0] - a[1]*b[1] - a[2]*b[2] - a[3]*b[3]; r[1] = a[0]*b[1] + a[1]*b[0] + a[2]*b[3] - a[3]*b[2];
  r[2] = a[0]*b[2] - a[1]*b[3] + a[2]*b[0] + a[3]*b[1]; r[3] = a[0]*b[3] + a[1]*b[2] - a[2]*b[1] + a[3]*b[0];
}
static void qrot(const double q[4], const double v[3], double r[3]) {
  double p[4] = {0, v[0], v[1], v[2]}, c[4] = {q[0], -q[1], -q[2], -q[3]}, t[4], u[4];
  qmul(q, p, t); qmul(t, c, u); r[0] = u[1]; r[1] = u[2]; r[2] = u[3];
}
static void frame_oracle(const char* what, mjSpec* s, const mjModel* m) {
  double ap[3] = {0, 0, 0}, aq[4] = {1, 0, 0, 0};
  int nchk = 0; double worst = 0; std::string where;
  for (int lv = 0; lv < 4; lv++) {
    char nm[32]; snprintf(nm, sizeof(nm), "fq0_%d", lv);
    mjsElement* fe = mjs_findElement(s, mjOBJ_FRAME, nm);
    if (!fe) break;
    mjsFrame* fr = mjs_asFrame(fe);
    double rp[3], nq[4], qn[4]; double n = 0;
    for (int i = 0; i < 4; i++) n += fr->quat[i] * fr->quat[i];
    n = sqrt(n); for (int i = 0; i < 4; i++) qn[i] = fr->quat[i] / n;
    qrot(aq, fr->pos, rp); for (int i = 0; i < 3; i++) ap[i] += rp[i];
    qmul(aq, qn, nq); for (int i = 0; i < 4; i++) aq[i] = nq[i];
    for (int kind = 0; kind < 2; kind++) {
      snprintf(nm, sizeof(nm), kind ? "fg0_%d" : "fs0_%d", lv);
      int id = mj_name2id(m, kind ? mjOBJ_GEOM : mjOBJ_SITE, nm);
      mjsElement* ee = mjs_findElement(s, kind ? mjOBJ_GEOM : mjOBJ_SITE, nm);
      if (id < 0 || !ee) continue;
      const double* epos = kind ? mjs_asGeom(ee)->pos : mjs_asSite(ee)->pos;
      const double* equat = kind ? mjs_asGeom(ee)->quat : mjs_asSite(ee)->quat;
      double en[4], e2 = 0; for (int i = 0; i < 4; i++) e2 += equat[i] * equat[i];
      e2 = sqrt(e2); for (int i = 0; i < 4; i++) en[i] = equat[i] / e2;
      double xp[3], xq[4], r[3]; qrot(aq, epos, r); for (int i = 0; i < 3; i++) xp[i] = ap[i] + r[i];
      qmul(aq, en, xq);
      const mjtNum* mp = kind ? m->geom_pos + 3 * id : m->site_pos + 3 * id;
      const mjtNum* mq = kind ? m->geom_quat + 4 * id : m->site_quat + 4 * id;
      double dp = 0, scale = 1, dq1 = 0, dq2 = 0;
      for (int i = 0; i < 3; i++) { dp = fmax(dp, fabs(mp[i] - xp[i])); scale = fmax(scale, fabs(xp[i])); }
      for (int i = 0; i < 4; i++) { dq1 = fmax(dq1, fabs(mq[i] - xq[i])); dq2 = fmax(dq2, fabs(mq[i] + xq[i])); }
      double err = fmax(dp / scale, fmin(dq1, dq2));
      nchk++;
      if (err > worst) { worst = err; where = nm; }
    }
  }
  if (!nchk) return;
  int ok = worst < 1e-9;
  printf("FRM %s %d %d worst %.3g at %s\n", what, ok, nchk, worst, where.c_str());
  if (!ok) g_ndiff++;
}

static void sphere_band(std::vector<float>& v, std::vector<int>& f, int nlat, int nlon, double r, int closed) {
  int nv = (nlat + 1) * nlon + (closed ? 2 : 0);
  v.assign(3 * nv, 0.f);
  for (int i = 0; i <= nlat; i++) for (int j = 0; j < nlon; j++) {
    double th = (-80.0 + 160.0 * i / nlat) * M_PI / 180, ph = 2 * M_PI * j / nlon;
    int k = i * nlon + j;
    v[3 * k] = (float)(r * cos(th) * cos(ph)); v[3 * k + 1] = (float)(r * cos(th) * sin(ph)); v[3 * k + 2] = (float)(r * sin(th));
  }
  f.clear();
  for (int i = 0; i < nlat; i++) for (int j = 0; j < nlon; j++) {
    int a = i * nlon + j, b = i * nlon + (j + 1) % nlon, c = (i + 1) * nlon + j, d = (i + 1) * nlon + (j + 1) % nlon;
    f.push_back(a); f.push_back(b); f.push_back(d); f.push_back(a); f.push_back(d); f.push_back(c);
  }
  if (closed) {
    int sp = (nlat + 1) * nlon, np = sp + 1;
    v[3 * sp + 2] = (float)-r; v[3 * np + 2] = (float)r;
    for (int j = 0; j < nlon; j++) {
      f.push_back(sp); f.push_back((j + 1) % nlon); f.push_back(j);
      f.push_back(np); f.push_back(nlat * nlon + j); f.push_back(nlat * nlon + (j + 1) % nlon);
    }
  }
}

static mjSpec* make_spec(uint64_t seed, unsigned feat, int nbody, int nmesh, int ntex, int flags) {
  mjSpec* s = mjg_spec(seed, feat, nbody);
  mjg_rng R = {seed * 1315423911ull + 17};
  mjsBody* world = mjs_findBody(s, "world");
  char nm[64];
  // textures and materials
  for (int t = 0; t < ntex; t++) {
    mjsTexture* tx = mjs_addTexture(s);
    snprintf(nm, sizeof(nm), "tex%d", t); mjs_setName(tx->element, nm);
    // every texture type x builtin x mark value is reachable; random-dot marks (the only builtin that draws from a
    // pseudo-random generator) are frequent and often occur several times in one spec
    { int ty = mjg_int(&R, 4); tx->type = ty == 2 ? mjTEXTURE_CUBE : ty == 3 ? mjTEXTURE_SKYBOX : mjTEXTURE_2D; }
    { int bi = mjg_int(&R, 3); tx->builtin = bi == 0 ? mjBUILTIN_GRADIENT : bi == 1 ? mjBUILTIN_CHECKER : mjBUILTIN_FLAT; }
    { static const mjtMark marks[6] = {mjMARK_NONE, mjMARK_EDGE, mjMARK_CROSS, mjMARK_RANDOM, mjMARK_RANDOM, mjMARK_RANDOM};
      tx->mark = marks[mjg_int(&R, 6)]; }
    for (int k = 0; k < 3; k++) { tx->rgb1[k] = mjg_u(&R); tx->rgb2[k] = mjg_u(&R); tx->markrgb[k] = mjg_u(&R); }
    tx->random = tx->mark == mjMARK_RANDOM ? (mjg_chance(&R, 0.85) ? 0.002 + 0.05 * mjg_u(&R) : 0) : (mjg_chance(&R, 0.3) ? 0.01 : 0);
    if (mjg_chance(&R, 0.2)) tx->hflip = 1;
    if (mjg_chance(&R, 0.2)) tx->vflip = 1;
    // the first texture is large, the others small
    int sz = t == 0 ? 256 : 8 << mjg_int(&R, 3);
    tx->width = sz; tx->height = (tx->type != mjTEXTURE_2D) ? sz : sz * (1 + mjg_int(&R, 2));
    mjsMaterial* mt = mjs_addMaterial(s, NULL);
    snprintf(nm, sizeof(nm), "mat%d", t); mjs_setName(mt->element, nm);
    snprintf(nm, sizeof(nm), "tex%d", t);
    mjs_setInStringVec(mt->textures, mjTEXROLE_RGB, nm);
    mt->rgba[0] = (float)mjg_u(&R); mt->specular = (float)mjg_u(&R);
  }
  // meshes
  for (int k = 0; k < nmesh; k++) {
    mjsMesh* me = mjs_addMesh(s, NULL);
    snprintf(nm, sizeof(nm), "mesh%d", k); mjs_setName(me->element, nm);
    int closed = 1;
    if ((flags & 4) && k % 3 == 2) {
      double params[1] = {2.0 + mjg_int(&R, 2)};
      if (mjs_makeMesh(me, mjMESH_BUILTIN_SPHERE, params, 1)) { printf("NOTE makeMesh failed: %s\n", mjs_getError(s)); }
    } else {
      std::vector<float> v; std::vector<int> f;
      int nlat = k == 0 ? 60 : 3 + mjg_int(&R, 4), nlon = k == 0 ? 120 : 4 + mjg_int(&R, 5);
      closed = (k % 2 == 0);
      sphere_band(v, f, nlat, nlon, 0.03 + 0.02 * mjg_u(&R), closed);
      mjs_setFloat(me->uservert, v.data(), (int)v.size());
      mjs_setInt(me->userface, f.data(), (int)f.size());
      me->inertia = closed ? (k % 4 == 0 ? mjMESH_INERTIA_EXACT : mjMESH_INERTIA_LEGACY) : mjMESH_INERTIA_SHELL;
    }
    me->scale[0] = 1 + 0.2 * mjg_u(&R);
    if (mjg_chance(&R, 0.3)) { double q[4]; mjg_quat(&R, q); for (int i = 0; i < 4; i++) me->refquat[i] = q[i]; }
    // attach to a non-colliding geom of some body (no convex hull needed); every third mesh stays unreferenced
    if (k % 3 != 1) {
      snprintf(nm, sizeof(nm), "b%d", mjg_int(&R, nbody));
      mjsBody* b = mjs_findBody(s, nm);
      if (!b) b = world;
      mjsGeom* g = mjs_addGeom(b, NULL);
      snprintf(nm, sizeof(nm), "gm%d", k); mjs_setName(g->element, nm);
      g->type = mjGEOM_MESH; g->contype = 0; g->conaffinity = 0; g->density = 500;
      snprintf(nm, sizeof(nm), "mesh%d", k); mjs_setString(g->meshname, nm);
      if (ntex > 0) { snprintf(nm, sizeof(nm), "mat%d", k % ntex); mjs_setString(g->material, nm); }
    }
  }
  // height field
  if (flags & 2) {
    mjsHField* h = mjs_addHField(s); mjs_setName(h->element, "hf");
    h->nrow = 12; h->ncol = 9; h->size[0] = 1; h->size[1] = 1; h->size[2] = 0.2; h->size[3] = 0.1;
    std::vector<float> e(h->nrow * h->ncol);
    for (auto& x : e) x = (float)mjg_u(&R);
    mjs_setFloat(h->userdata, e.data(), (int)e.size());
    mjsGeom* g = mjs_addGeom(world, NULL); mjs_setName(g->element, "ghf");
    g->type = mjGEOM_HFIELD; mjs_setString(g->hfieldname, "hf"); g->pos[0] = 3;
  }
  if (flags & 256) {   // frames rig: chains of nested frames (2..3 levels) in the world and in a moving body, every frame with a
    // non-identity pose, orientations given as quaternion or through an alternative (euler, axisangle, xyaxes, zaxis), and
    // geoms, sites, bodies, cameras and lights attached to inner frames.  The first chain ("fq") uses quaternions only
    // and carries named sites/geoms whose compiled pose the driver recomputes independently (frame_oracle()).
    auto rand_alt = [&](mjsOrientation* alt) {
      int k = mjg_int(&R, 5);
      if (k == 1) { alt->type = mjORIENTATION_AXISANGLE; alt->axisangle[0] = mjg_range(&R, -1, 1); alt->axisangle[1] = mjg_range(&R, -1, 1);
                    alt->axisangle[2] = 1; alt->axisangle[3] = mjg_range(&R, -170, 170); }
      else if (k == 2) { alt->type = mjORIENTATION_EULER; for (int i = 0; i < 3; i++) alt->euler[i] = mjg_range(&R, -80, 80); }
      else if (k == 3) { alt->type = mjORIENTATION_XYAXES; alt->xyaxes[0] = 1; alt->xyaxes[1] = mjg_range(&R, -0.5, 0.5); alt->xyaxes[2] = mjg_range(&R, -0.5, 0.5);
                         alt->xyaxes[3] = mjg_range(&R, -0.5, 0.5); alt->xyaxes[4] = 1; alt->xyaxes[5] = mjg_range(&R, -0.5, 0.5); }
      else if (k == 4) { alt->type = mjORIENTATION_ZAXIS; alt->zaxis[0] = mjg_range(&R, -1, 1); alt->zaxis[1] = mjg_range(&R, -1, 1); alt->zaxis[2] = 0.5; }
      return k;
    };
    mjsBody* host[2] = {world, mjs_findBody(s, "b0")};
    int nchain = 2 + mjg_int(&R, 2);
    for (int ch = 0; ch < nchain; ch++) {
      mjsBody* hb = host[ch % 2] ? host[ch % 2] : world;
      int depth = 2 + mjg_int(&R, 2);
      mjsFrame* parent = NULL;
      for (int lv = 0; lv < depth; lv++) {
        mjsFrame* fr = mjs_addFrame(hb, parent);
        snprintf(nm, sizeof(nm), "%s%d_%d", ch == 0 ? "fq" : "fa", ch, lv); mjs_setName(fr->element, nm);
        for (int i = 0; i < 3; i++) fr->pos[i] = mjg_range(&R, -0.3, 0.3) + (i == 0 ? -12 - 2 * ch : 0);
        if (lv > 0) fr->pos[0] += 12 + 2 * ch;
        mjg_quat(&R, fr->quat);
        if (ch != 0) rand_alt(&fr->alt);
        // elements attached to this level
        mjsSite* si = mjs_addSite(hb, NULL); snprintf(nm, sizeof(nm), "fs%d_%d", ch, lv); mjs_setName(si->element, nm);
        for (int i = 0; i < 3; i++) si->pos[i] = mjg_range(&R, -0.2, 0.2);
        mjg_quat(&R, si->quat); if (ch != 0) rand_alt(&si->alt);
        mjs_setFrame(si->element, fr);
        mjsGeom* g = mjs_addGeom(hb, NULL); snprintf(nm, sizeof(nm), "fg%d_%d", ch, lv); mjs_setName(g->element, nm);
        g->type = mjGEOM_SPHERE; g->size[0] = 0.02 + 0.01 * lv; g->contype = 0; g->conaffinity = 0;
        for (int i = 0; i < 3; i++) g->pos[i] = mjg_range(&R, -0.2, 0.2);
        mjg_quat(&R, g->quat); if (ch != 0) rand_alt(&g->alt);
        mjs_setFrame(g->element, fr);
        if (lv == depth - 1) {
          mjsBody* fb = mjs_addBody(hb, NULL); snprintf(nm, sizeof(nm), "fbody%d", ch); mjs_setName(fb->element, nm);
          for (int i = 0; i < 3; i++) fb->pos[i] = mjg_range(&R, -0.2, 0.2);
          mjg_quat(&R, fb->quat); if (ch != 0) rand_alt(&fb->alt);
          mjsGeom* bg = mjs_addGeom(fb, NULL); bg->type = mjGEOM_BOX; bg->size[0] = 0.03; bg->size[1] = 0.02; bg->size[2] = 0.01; bg->contype = 0; bg->conaffinity = 0;
          if (mjg_chance(&R, 0.5)) { mjsJoint* fj = mjs_addJoint(fb, NULL); snprintf(nm, sizeof(nm), "fj%d", ch); mjs_setName(fj->element, nm); fj->type = mjJNT_HINGE; }
          mjs_setFrame(fb->element, fr);
          mjsCamera* cm = mjs_addCamera(hb, NULL); snprintf(nm, sizeof(nm), "fcam%d", ch); mjs_setName(cm->element, nm);
          cm->pos[0] = mjg_range(&R, -0.2, 0.2); mjg_quat(&R, cm->quat); mjs_setFrame(cm->element, fr);
          mjsLight* li = mjs_addLight(hb, NULL); snprintf(nm, sizeof(nm), "flight%d", ch); mjs_setName(li->element, nm);
          li->pos[1] = mjg_range(&R, -0.2, 0.2); li->dir[0] = mjg_range(&R, -1, 1); li->dir[2] = -1; mjs_setFrame(li->element, fr);
        }
        parent = fr;
      }
    }
  }
  if (flags & 128) {   // "extras" rig: the element kinds mjgen does not make -- spatial tendons wrapping sites, a SPHERE and a
    // CYLINDER geom (with a side site) and a pulley, an actuator and sensors on them, a contact pair, an exclude, custom
    // numeric / text / tuple fields, a camera and a light
    mjsBody* e0 = mjs_addBody(world, NULL); mjs_setName(e0->element, "xe0"); e0->pos[0] = -8; e0->pos[2] = 1;
    mjsJoint* j0 = mjs_addJoint(e0, NULL); mjs_setName(j0->element, "xej0"); j0->type = mjJNT_HINGE; j0->axis[0] = 0; j0->axis[1] = 1; j0->axis[2] = 0;
    mjsGeom* gc = mjs_addGeom(e0, NULL); mjs_setName(gc->element, "xgcyl"); gc->type = mjGEOM_CYLINDER; gc->size[0] = 0.05; gc->size[1] = 0.1;
    gc->quat[0] = 0.7071067811865476; gc->quat[1] = 0.7071067811865476; gc->quat[2] = 0; gc->quat[3] = 0; gc->contype = 0; gc->conaffinity = 0;
    mjsBody* e1 = mjs_addBody(e0, NULL); mjs_setName(e1->element, "xe1"); e1->pos[0] = 0.4;
    mjsJoint* j1 = mjs_addJoint(e1, NULL); mjs_setName(j1->element, "xej1"); j1->type = mjJNT_HINGE; j1->axis[0] = 0; j1->axis[1] = 1; j1->axis[2] = 0;
    mjsGeom* gs = mjs_addGeom(e1, NULL); mjs_setName(gs->element, "xgsph"); gs->type = mjGEOM_SPHERE; gs->size[0] = 0.05; gs->contype = 0; gs->conaffinity = 0;
    mjsGeom* gl = mjs_addGeom(e1, NULL); mjs_setName(gl->element, "xglink"); gl->type = mjGEOM_CAPSULE; gl->size[0] = 0.02;
    gl->fromto[0] = 0; gl->fromto[1] = 0; gl->fromto[2] = 0; gl->fromto[3] = 0.3; gl->fromto[4] = 0; gl->fromto[5] = 0; gl->contype = 0; gl->conaffinity = 0;
    struct { const char* n; mjsBody* b; double x, y, z; } st[5] = {{"xsa", world, -8.4, 0, 1.2}, {"xsb", e0, 0.2, 0, 0.15}, {"xsc", e1, 0.3, 0, 0.1},
                                                                     {"xside0", e0, 0, 0, 0.2}, {"xsd", e1, 0.15, 0, -0.12}};
    for (auto& q : st) { mjsSite* si = mjs_addSite(q.b, NULL); mjs_setName(si->element, q.n); si->pos[0] = q.x; si->pos[1] = q.y; si->pos[2] = q.z; }
    mjsTendon* t0 = mjs_addTendon(s, NULL); mjs_setName(t0->element, "xt0");
    mjs_wrapSite(t0, "xsa"); mjs_wrapGeom(t0, "xgcyl", mjg_chance(&R, 0.5) ? "xside0" : ""); mjs_wrapSite(t0, "xsb");
    mjsTendon* t1 = mjs_addTendon(s, NULL); mjs_setName(t1->element, "xt1");
    mjs_wrapSite(t1, "xsb"); mjs_wrapGeom(t1, "xgsph", ""); mjs_wrapSite(t1, "xsc");
    mjsTendon* t2 = mjs_addTendon(s, NULL); mjs_setName(t2->element, "xt2");
    mjs_wrapSite(t2, "xsa"); mjs_wrapSite(t2, "xsb"); mjs_wrapPulley(t2, 2); mjs_wrapSite(t2, "xsb"); mjs_wrapSite(t2, "xsd");
    if (mjg_chance(&R, 0.5)) { t1->limited = mjLIMITED_TRUE; t1->range[0] = 0; t1->range[1] = 2; }
    mjsActuator* a = mjs_addActuator(s, NULL); mjs_setName(a->element, "xat0"); a->trntype = mjTRN_TENDON; mjs_setString(a->target, "xt0");
    const char* tn[3] = {"xt0", "xt1", "xt2"};
    for (int k = 0; k < 3; k++) {
      mjsSensor* sn = mjs_addSensor(s); char nb[32]; snprintf(nb, sizeof(nb), "xsn%d", k); mjs_setName(sn->element, nb);
      sn->type = k == 2 ? mjSENS_TENDONVEL : mjSENS_TENDONPOS; sn->objtype = mjOBJ_TENDON; mjs_setString(sn->objname, tn[k]);
    }
    mjsPair* pr = mjs_addPair(s, NULL); mjs_setName(pr->element, "xpair"); mjs_setString(pr->geomname1, "xgcyl"); mjs_setString(pr->geomname2, "xgsph");
    mjsExclude* ex = mjs_addExclude(s); mjs_setName(ex->element, "xexcl"); mjs_setString(ex->bodyname1, "xe0"); mjs_setString(ex->bodyname2, "xe1");
    mjsNumeric* nu = mjs_addNumeric(s); mjs_setName(nu->element, "xnum"); double nd[3] = {1.5, -2, mjg_u(&R)}; mjs_setDouble(nu->data, nd, 3); nu->size = 5;
    mjsText* tx = mjs_addText(s); mjs_setName(tx->element, "xtext"); mjs_setString(tx->data, "verif extras");
    mjsTuple* tu = mjs_addTuple(s); mjs_setName(tu->element, "xtuple");
    { int ot[2] = {mjOBJ_BODY, mjOBJ_BODY}; double op[2] = {0.5, 1.5}; mjs_setInt(tu->objtype, ot, 2); mjs_setStringVec(tu->objname, "xe0 xe1"); mjs_setDouble(tu->objprm, op, 2); }
    mjsCamera* cm = mjs_addCamera(e0, NULL); mjs_setName(cm->element, "xcam"); cm->pos[2] = 0.5;
    mjsLight* li = mjs_addLight(e1, NULL); mjs_setName(li->element, "xlight"); li->pos[2] = 1;
  }
  if (flags & 64) {   // several mocap bodies (mocap_pos has stride 3, mocap_quat stride 4: the index spaces differ from the
    // second body on), with non-default poses, some welded to tree bodies
    int nm = 2 + mjg_int(&R, 3);
    for (int k = 0; k < nm; k++) {
      mjsBody* mb = mjs_addBody(world, NULL);
      char nb[32]; snprintf(nb, sizeof(nb), "xmocap%d", k); mjs_setName(mb->element, nb);
      mb->mocap = 1;
      mb->pos[0] = mjg_range(&R, -2, 2); mb->pos[1] = mjg_range(&R, -2, 2); mb->pos[2] = mjg_range(&R, 0.2, 2);
      mjg_quat(&R, mb->quat);
      mjsGeom* g = mjs_addGeom(mb, NULL); g->type = mjGEOM_SPHERE; g->size[0] = 0.02; g->contype = 0; g->conaffinity = 0;
    }
  }
  if (flags & 32) {   // muscle rig: limited, damped hinges away from the rest, motors on some, muscles on the others.
    // With the default LRopt.mode (muscles only) the length ranges of the muscles are computed through the pool while the
    // other actuators (those of the mjgen tree come first in the list) need none.
    int nlink = 3 + mjg_int(&R, 4);
    mjsBody* parent = world;
    for (int i = 0; i < nlink; i++) {
      mjsBody* b = mjs_addBody(parent, NULL);
      snprintf(nm, sizeof(nm), "mr%d", i); mjs_setName(b->element, nm);
      b->pos[0] = i ? 0.2 : -4; b->pos[2] = i ? 0 : 1.5;
      mjsJoint* j = mjs_addJoint(b, NULL);
      snprintf(nm, sizeof(nm), "mrj%d", i); mjs_setName(j->element, nm);
      j->type = mjJNT_HINGE; j->axis[0] = 0; j->axis[1] = 1; j->axis[2] = 0;
      j->limited = mjLIMITED_TRUE; j->range[0] = -0.3 - 0.05 * i; j->range[1] = 0.6 + 0.1 * i; j->damping[0] = 0.5;
      mjsGeom* g = mjs_addGeom(b, NULL); g->type = mjGEOM_CAPSULE; g->size[0] = 0.02;
      g->fromto[0] = 0; g->fromto[1] = 0; g->fromto[2] = 0; g->fromto[3] = 0.2; g->fromto[4] = 0; g->fromto[5] = 0;
      g->contype = 0; g->conaffinity = 0;
      parent = b;
    }
    int nmotor = mjg_int(&R, 3);
    for (int i = 0; i < nlink; i++) {
      mjsActuator* a = mjs_addActuator(s, NULL);
      snprintf(nm, sizeof(nm), "mra%d", i); mjs_setName(a->element, nm);
      a->trntype = mjTRN_JOINT;
      snprintf(nm, sizeof(nm), "mrj%d", i); mjs_setString(a->target, nm);
      if (i >= nmotor) {
        double timeconst[2] = {0.01, 0.04}, range[2] = {0.75, 1.05};
        const char* e = mjs_setToMuscle(a, timeconst, 0, range, 50, 200, 0.5, 1.6, 1.5, 1.3, 1.2);
        if (e && e[0]) printf("NOTE setToMuscle %s\n", e);
      }
    }
  }
  if (flags & 16) {   // history buffers: delayed actuators
    for (mjsElement* e = mjs_firstElement(s, mjOBJ_ACTUATOR); e; e = mjs_nextElement(s, e)) {
      mjsActuator* a = mjs_asActuator(e);
      a->nsample = 3 + mjg_int(&R, 3); a->delay = 0.004 * (1 + mjg_int(&R, 3)); a->interp = mjg_int(&R, 2);
    }
  }
  if (flags & 1) { s->compiler.LRopt.mode = mjLRMODE_ALL; s->compiler.LRopt.inttotal = 0.2; }
  if (flags & 8) s->compiler.usethread = 0;
  return s;
}

static void state_cmp(const char* what, const mjModel* m, const mjData* d, const std::vector<mjtNum>& before, int sig) {
  std::vector<mjtNum> after(mj_stateSize(m, sig));
  mj_getState(m, d, after.data(), sig);
  int eq = after.size() == before.size() && !memcmp(after.data(), before.data(), sizeof(mjtNum) * after.size());
  size_t off = 0;
  while (!eq && off < after.size() && off < before.size() && !memcmp(&after[off], &before[off], sizeof(mjtNum))) off++;
  printf("STATE %s %d %zu/%zu first %zu\n", what, eq, before.size(), after.size(), off);
}

struct Comp { const char* name; int sig; int required; };
static const Comp COMPS[] = {
  {"time", mjSTATE_TIME, 1}, {"qpos", mjSTATE_QPOS, 1}, {"qvel", mjSTATE_QVEL, 1}, {"act", mjSTATE_ACT, 1},
  {"ctrl", mjSTATE_CTRL, 1}, {"mocap_pos", mjSTATE_MOCAP_POS, 1}, {"mocap_quat", mjSTATE_MOCAP_QUAT, 1},
  {"history", mjSTATE_HISTORY, 0}, {"warmstart", mjSTATE_WARMSTART, 0}, {"qfrc_applied", mjSTATE_QFRC_APPLIED, 0},
  {"xfrc_applied", mjSTATE_XFRC_APPLIED, 0}, {"eq_active", mjSTATE_EQ_ACTIVE, 0}, {"userdata", mjSTATE_USERDATA, 0},
  {"plugin", mjSTATE_PLUGIN, 0}};

static void run_case(uint64_t seed, unsigned feat, int nbody, int nmesh, int ntex, int flags, int reps) {
  g_ndiff = 0;
  // reps < 0: "history" run -- first compile (-reps - 1) OTHER specs in this process (and thread), then only the first
  // compile of the case and its hash are reported; the check compares that hash with a fresh process
  if (reps < 0) {
    for (int k = 0; k < -reps - 1; k++) {
      mjSpec* w = make_spec(seed + 7919 * (k + 1), feat, nbody > 2 ? 2 : nbody, nmesh > 1 ? 1 : nmesh, ntex + 1, flags & ~(1 | 32));
      w->compiler.usethread = (mjtBool)(k & 1);
      mjModel* wm = mj_compile(w, NULL);
      if (wm) mj_deleteModel(wm);
      mj_deleteSpec(w);
    }
  }
  mjSpec* s = make_spec(seed, feat, nbody, nmesh, ntex, flags);
  mjModel* m1 = mj_compile(s, NULL);
  if (!m1) {
    // the compiler rejects the spec: the rejection must be just as deterministic and copy-invariant as a model --
    // same error text for a second compile, for a deep copy, and with the work queue on and off
    std::string e0 = mjs_getError(s) ? mjs_getError(s) : "";
    std::string one = e0.substr(0, e0.find('\n'));
    { std::string flat0 = e0; for (char& ch : flat0) if (ch == '\n') ch = '|'; printf("NOTE %s\n", flat0.c_str()); }
    int nbad = 0;
    auto rej = [&](const char* what, mjSpec* sp) {
      mjModel* mm = mj_compile(sp, NULL);
      std::string e = mm ? "(compiled)" : (mjs_getError(sp) ? mjs_getError(sp) : "");
      int ok = !mm && e == e0;
      // 2 = same primary error line, only the trailing (captured warning) lines differ
      int code = ok ? 1 : (!mm && e.substr(0, e.find('\n')) == one ? 2 : 0);
      if (!ok) nbad++;
      std::string flat = e; for (char& ch : flat) if (ch == '\n') ch = '|';
      printf("REJ %s %d %s\n", what, code, ok ? "" : flat.c_str());
      if (mm) mj_deleteModel(mm);
    };
    rej("twice", s);
    mjSpec* sc = mj_copySpec(s);
    if (sc) { rej("copyspec", sc); mj_deleteSpec(sc); } else { printf("REJ copyspec 0 mj_copySpec-failed\n"); nbad++; }
    for (int r = 0; r < reps; r++) for (int ut = 0; ut < 2; ut++) {
      mjSpec* st = mj_copySpec(s);
      if (!st) continue;
      st->compiler.usethread = (mjtBool)ut;
      rej(ut ? "usethread1" : "usethread0", st);
      mj_deleteSpec(st);
    }
    printf("END %s\n", nbad ? "REJDIFF" : "REJECTED");
    mj_deleteSpec(s);
    return;
  }
  std::vector<unsigned char> ref = save(m1);
  { unsigned long long h = 1469598103934665603ull; for (unsigned char ch : ref) { h ^= ch; h *= 1099511628211ull; }
    printf("HASH %016llx %zu\n", h, ref.size()); }
  printf("INFO nmesh %d ntex %d nhfield %d nmeshvert %d ntexdata %lld nu %d nq %d bytes %zu usethread %d\n", (int)m1->nmesh, (int)m1->ntex,
         (int)m1->nhfield, (int)m1->nmeshvert, (long long)m1->ntexdata, (int)m1->nu, (int)m1->nq, ref.size(), (int)s->compiler.usethread);
  if (reps < 0) { mj_deleteModel(m1); mj_deleteSpec(s); printf("END OK\n"); return; }
  frame_oracle("first", s, m1);
  // compile the same spec again
  mjModel* m2 = mj_compile(s, NULL);
  cmp("twice", m1, ref, m2);
  if (m2) frame_oracle("twice", s, m2);
  if (m2) mj_deleteModel(m2);
  // a deep copy made BEFORE the spec was ever compiled (a second, identically generated spec)
  {
    mjSpec* sf = make_spec(seed, feat, nbody, nmesh, ntex, flags);
    mjSpec* sfc = mj_copySpec(sf);
    if (!sfc) { printf("CMP copyfresh 0 mj_copySpec-failed\n"); g_ndiff++; }
    else { count_cmp("copyfresh", sf, sfc); mjModel* mf = mj_compile(sfc, NULL); cmp("copyfresh", m1, ref, mf); if (mf) mj_deleteModel(mf); mj_deleteSpec(sfc); }
    mj_deleteSpec(sf);
  }
  // compile a deep copy
  mjSpec* s2 = mj_copySpec(s);
  if (s2) count_cmp("copyspec", s, s2);
  if (!s2) { printf("CMP copyspec 0 mj_copySpec-failed\n"); g_ndiff++; }
  else {
    mjModel* m3 = mj_compile(s2, NULL);
    cmp("copyspec", m1, ref, m3);
    if (m3) frame_oracle("copyspec", s2, m3);
    if (m3) {
      // and a copy of the copy, compiled after the first copy was compiled
      mjSpec* s3 = mj_copySpec(s2);
      mjModel* m3b = s3 ? mj_compile(s3, NULL) : NULL;
      cmp("copyspec2", m1, ref, m3b);
      if (m3b) mj_deleteModel(m3b);
      if (s3) mj_deleteSpec(s3);
      mj_deleteModel(m3);
    }
  }
  // mj_copyModel
  mjModel* m4 = mj_copyModel(NULL, m1);
  cmp("copymodel", m1, ref, m4);
  // load(save) equals the copy (C31 roundtrip on the implementation)
  mjModel* m4b = mj_loadModelBuffer(ref.data(), (int)ref.size());
  cmp("saveload", m1, ref, m4b);
  if (m4b) mj_deleteModel(m4b);
  if (m4) mj_deleteModel(m4);
  // multithreaded asset compilation on / off, repeated (schedules of the work queue vary between runs)
  for (int r = 0; r < reps; r++) {
    for (int ut = 0; ut < 2; ut++) {
      mjSpec* st = mj_copySpec(s);
      st->compiler.usethread = (mjtBool)ut;
      mjModel* m5 = mj_compile(st, NULL);
      cmp(ut ? "usethread1" : "usethread0", m1, ref, m5);
      if (m5) mj_deleteModel(m5);
      mj_deleteSpec(st);
    }
  }
  // mj_recompile keeps the simulation state
  {
    mjData* d = mj_makeData(m1);
    mjg_rng R = {seed * 7 + 1};
    mjg_random_state(m1, d, &R, 0.3);
    for (int i = 0; i < m1->neq; i++) d->eq_active[i] = (mjtByte)mjg_chance(&R, 0.5);
    for (int i = 0; i < m1->nuserdata; i++) d->userdata[i] = mjg_u(&R);
    if (MJG_TRY) { for (int k = 0; k < 3; k++) mj_step(m1, d); MJG_END; } else { printf("NOTE step error %s\n", mjg_last_error); }
    mjg_random_state(m1, d, &R, 0.3);   // fresh random controls / applied forces after stepping; time, act, warmstart keep their stepped values
    // every saved component gets pairwise distinct, non-default values (unit quaternions for the mocap orientations), so
    // that any index shift or stride mix-up between bodies / actuators shows
    for (int i = 0; i < m1->nmocap; i++) {
      for (int k = 0; k < 3; k++) d->mocap_pos[3 * i + k] = mjg_range(&R, -3, 3);
      double q[4]; mjg_quat(&R, q); for (int k = 0; k < 4; k++) d->mocap_quat[4 * i + k] = q[k];
    }
    for (int i = 0; i < m1->na; i++) d->act[i] = mjg_range(&R, -0.7, 0.7);
    for (int i = 0; i < m1->nu; i++) d->ctrl[i] = mjg_range(&R, -1, 1);
    for (int i = 0; i < m1->nv; i++) d->qvel[i] = mjg_range(&R, -1, 1);
    std::vector<std::vector<mjtNum>> before;
    for (const Comp& c : COMPS) { std::vector<mjtNum> b(mj_stateSize(m1, c.sig)); mj_getState(m1, d, b.data(), c.sig); before.push_back(b); }
    int rc = mj_recompile(s, NULL, m1, d);
    if (rc != 0) { printf("CMP recompile 0 rc=%d %s\n", rc, mjs_getError(s)); g_ndiff++; }
    else {
      cmp("recompile", m1, ref, m1);
      frame_oracle("recompile", s, m1);
      std::vector<unsigned char> rb = save(m1);
      if (rb.size() != ref.size() || memcmp(rb.data(), ref.data(), rb.size())) { /* counted by cmp above */ }
      int k = 0;
      for (const Comp& c : COMPS) {
        char nm[64]; snprintf(nm, sizeof(nm), "%s%s", c.required ? "" : "opt:", c.name);
        state_cmp(nm, m1, d, before[k++], c.sig);
      }
    }
    // recompile after an edit that appends a body with a joint: the state of the old joints is kept
    {
      std::vector<mjtNum> qp(d->qpos, d->qpos + m1->nq), qv(d->qvel, d->qvel + m1->nv), ac(d->act, d->act + m1->na);
      std::vector<mjtNum> mp(d->mocap_pos, d->mocap_pos + 3 * m1->nmocap), mq(d->mocap_quat, d->mocap_quat + 4 * m1->nmocap), ct(d->ctrl, d->ctrl + m1->nu);
      int nmo0 = m1->nmocap, nu0 = m1->nu;
      mjtNum tm = d->time; int nq0 = m1->nq, nv0 = m1->nv, na0 = m1->na;
      mjsBody* nb = mjs_addBody(mjs_findBody(s, "world"), NULL); mjs_setName(nb->element, "c33_added");
      nb->pos[0] = -3;
      mjsGeom* g = mjs_addGeom(nb, NULL); g->type = mjGEOM_SPHERE; g->size[0] = 0.05;
      mjsJoint* j = mjs_addJoint(nb, NULL); j->type = mjJNT_SLIDE; mjs_setName(j->element, "c33_added_j");
      int rc2 = mj_recompile(s, NULL, m1, d);
      if (rc2 != 0) { printf("STATE edit-recompile 0 rc=%d %s\n", rc2, mjs_getError(s)); }
      else {
        int ok = m1->nq == nq0 + 1 && m1->nv == nv0 + 1 && m1->na == na0 && d->time == tm &&
                 !memcmp(d->qpos, qp.data(), sizeof(mjtNum) * nq0) && !memcmp(d->qvel, qv.data(), sizeof(mjtNum) * nv0) &&
                 !memcmp(d->act, ac.data(), sizeof(mjtNum) * na0) && d->qpos[nq0] == m1->qpos0[nq0] && d->qvel[nv0] == 0 &&
                 m1->nmocap == nmo0 && m1->nu == nu0 && !memcmp(d->mocap_pos, mp.data(), sizeof(mjtNum) * 3 * nmo0) &&
                 !memcmp(d->mocap_quat, mq.data(), sizeof(mjtNum) * 4 * nmo0) && !memcmp(d->ctrl, ct.data(), sizeof(mjtNum) * nu0);
        printf("STATE edit-recompile %d nq %d->%d\n", ok, nq0, (int)m1->nq);
      }
    }
    mj_deleteData(d);
  }
  if (s2) mj_deleteSpec(s2);
  mj_deleteModel(m1);
  mj_deleteSpec(s);
  printf("END %s\n", g_ndiff ? "DIFF" : "OK");
}

int main() {
  mjg_install_handlers();
  unsigned long long seed; unsigned feat; int nbody, nmesh, ntex, flags, reps;
  int idx = 0;
  while (scanf("%llu %u %d %d %d %d %d", &seed, &feat, &nbody, &nmesh, &ntex, &flags, &reps) == 7) {
    printf("CASE %d\n", idx++);
    fflush(stdout);
    run_case(seed, feat, nbody, nmesh, ntex, flags, reps);
    fflush(stdout);
  }
  return 0;
}
