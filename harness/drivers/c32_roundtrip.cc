// c32_roundtrip.cc — oracle of C32 on the real code: model -> save XML -> parse -> compile -> compare.
// stdin: a sequence of cases
//   G <id> <prec> <dump> <seed> <feat> <nbody>          spec from harness/drivers/mjgen.h
//   E <id> <prec> <dump> <seed> <feat> <nbody> <ext>    spec from mjgen.h + c32_gen.h extensions (bit mask ext)
//   X <id> <prec> <dump> <nbytes>\n<xml bytes>          spec from MJCF text
// prec: 17 = FullFloatPrecision (bit-exact comparison), 6 = default printing (comparison to rtol).
// dump: 0 = print saved XML only for failing cases, 1 = always, 2 = never.
// stdout per case:
//   CASE <id> <status>            status: ok | diff | skip:<why> | fail:<stage>
//   MSG <text>                    (error message, one line)
//   D <field> <first idx> <n> <count> <a %.17g> <b %.17g> <max scaled difference over the array>
//   DC <n>                        number of don't-care components that differed (see c32_cmp.h)
//   AB <n> <bound>                comparisons decided by the absolute length-scale bound (limited precision only)
//   FIX <0|1>                     second generation text identical to the first (save(parse(save x)) == save x)
//   D3 ...                        differences between 2nd and 3rd generation models (must be none, bit-exact)
//   XML <nbytes>\n<bytes>\n       saved text of the first generation
//   XML2 <nbytes>\n<bytes>\n      saved text of the second generation when it differs
//   J <joint> <field> <%a values>  (dump == 3 only) selected joint arrays of the re-compiled model
//   END
//   N <id> <prec> <n> <n doubles as %a>   numeric-format tie: prints "TXT <text of the data attribute>"
#include <mujoco/mujoco.h>

#include <cmath>
#include <cstdio>
#include <cstdlib>
#include <cstring>
#include <string>
#include <vector>

#include "xml/xml_numeric_format.h"
#include "mjgen.h"
#include "c32_cmp.h"
#include "c32_gen.h"

static std::string OneLine(const char* s) {
  std::string r(s ? s : "");
  for (char& c : r) if (c == '\n' || c == '\r') c = '|';
  return r;
}

static bool Save(mjSpec* s, std::string& out, std::string& err) {
  static std::vector<char> buf(1 << 20);
  char e[2000]; e[0] = 0;
  int rc = mj_saveXMLString(s, buf.data(), (int)buf.size(), e, sizeof e);
  if (rc > 0) {
    buf.resize((size_t)rc + 1024);
    e[0] = 0;
    rc = mj_saveXMLString(s, buf.data(), (int)buf.size(), e, sizeof e);
  }
  if (rc != 0) { err = OneLine(e); if (err.empty()) err = "mj_saveXMLString returned nonzero"; return false; }
  out = buf.data();
  return true;
}

static void PrintDiffs(const char* tag, const C32Cmp& c) {
  for (const C32Diff& d : c.diffs)
    std::printf("%s %s %ld %ld %ld %.17g %.17g %.3g\n", tag, d.field.c_str(), d.idx, d.n, d.count, d.a, d.b, d.maxs);
}

static void PrintXml(const char* tag, const std::string& x) {
  std::printf("%s %zu\n", tag, x.size());
  std::fwrite(x.data(), 1, x.size(), stdout);
  std::printf("\n");
}

// returns via printing
static void RunCase(const char* id, int prec, int dump, mjSpec* s1) {
  std::string err, x1, x2;
  mjModel *m1 = nullptr, *m2 = nullptr, *m3 = nullptr;
  mjSpec *s2 = nullptr, *s3 = nullptr;
  char e[2000];
  bool bad = false;
  mujoco::_mjPRIVATE__set_xml_precision(prec);
  do {
    m1 = mj_compile(s1, nullptr);
    if (!m1) { std::printf("CASE %s skip:compile\nMSG %s\n", id, OneLine(mjs_getError(s1)).c_str()); break; }
    if (!Save(s1, x1, err)) {
      bool unsupported = err.find("no support for buffer textures") != std::string::npos;
      std::printf("CASE %s %s\nMSG %s\n", id, unsupported ? "skip:save-unsupported" : "fail:save", err.c_str());
      bad = !unsupported; break;
    }
    e[0] = 0;
    s2 = mj_parseXMLString(x1.c_str(), nullptr, e, sizeof e);
    if (!s2) { std::printf("CASE %s fail:reparse\nMSG %s\n", id, OneLine(e).c_str()); bad = true; break; }
    m2 = mj_compile(s2, nullptr);
    if (!m2) { std::printf("CASE %s fail:recompile\nMSG %s\n", id, OneLine(mjs_getError(s2)).c_str()); bad = true; break; }
    C32Cmp c;
    if (prec < 17) {
      // printed precision: 20 units of the last printed digit, relative to the entry for directly written
      // values, relative to the model's length scale for position-like sums (see c32_cmp.h)
      c.mode = 1; c.rtol = 20 * std::pow(10.0, -prec); c.atol = 1e-9;
      c.atol_pos = c.rtol * c32_length_scale(m1);
      c32_free_translation_mask(m1, c.qmask);
    }
    long dontcare = 0;
    {
      mjModel* m1c = mj_copyModel(nullptr, m1);
      mjModel* m2c = mj_copyModel(nullptr, m2);
      dontcare = c32_normalize_dontcare(m1c, m2c);
      c32_compare(m1c, m2c, c);
      mj_deleteModel(m1c); mj_deleteModel(m2c);
    }
    // second generation
    bool fix = false; C32Cmp c3; std::string err2;
    c3.mode = c.mode; c3.rtol = c.rtol; c3.atol = c.atol; c3.atol_pos = c.atol_pos; c3.qmask = c.qmask;
    bool gen2 = Save(s2, x2, err2);
    if (gen2) {
      fix = (x1 == x2);
      e[0] = 0;
      s3 = mj_parseXMLString(x2.c_str(), nullptr, e, sizeof e);
      if (s3) m3 = mj_compile(s3, nullptr);
      if (m3) c32_compare(m2, m3, c3); else c3.diffs.push_back({std::string("gen3:") + (s3 ? "compile" : "parse"), 0, 0, 0, 0, 1, INFINITY});
    }
    bad = !c.diffs.empty() || !gen2 || !fix || !c3.diffs.empty();
    std::printf("CASE %s %s\n", id, c.diffs.empty() ? "ok" : "diff");
    PrintDiffs("D", c);
    std::printf("DC %ld\n", dontcare);
    std::printf("AB %ld %.3g\n", c.nabs, c.atol_pos);
    if (!gen2) std::printf("MSG save of second generation failed: %s\n", err2.c_str());
    std::printf("FIX %d\n", fix ? 1 : 0);
    PrintDiffs("D3", c3);
    if (c3.nabs) std::printf("AB %ld %.3g\n", c3.nabs, c3.atol_pos);
  } while (0);
  if (dump == 3 && m2) {
    for (int j = 0; j < m2->njnt; j++) {
      const char* jn = m2->names + m2->name_jntadr[j];
      int dof = m2->jnt_dofadr[j];
      auto pr = [&](const char* f, const mjtNum* v, int n) {
        std::printf("J %s %s", jn, f);
        for (int k = 0; k < n; k++) std::printf(" %a", v[k]);
        std::printf("\n");
      };
      pr("margin", m2->jnt_margin + j, 1);
      pr("armature", m2->dof_armature + dof, 1);
      pr("frictionloss", m2->dof_frictionloss + dof, 1);
      mjtNum st[3] = {m2->jnt_stiffness[j], m2->jnt_stiffnesspoly[mjNPOLY*j], m2->jnt_stiffnesspoly[mjNPOLY*j+1]};
      pr("stiffness", st, 3);
      mjtNum da[3] = {m2->dof_damping[dof], m2->dof_dampingpoly[mjNPOLY*dof], m2->dof_dampingpoly[mjNPOLY*dof+1]};
      pr("damping", da, 3);
      pr("solreflimit", m2->jnt_solref + mjNREF*j, mjNREF);
      pr("solimplimit", m2->jnt_solimp + mjNIMP*j, mjNIMP);
      pr("user", m2->jnt_user + m2->nuser_jnt*j, m2->nuser_jnt);
    }
  }
  if (!x1.empty() && (dump == 1 || dump == 3 || (dump == 0 && bad))) {
    PrintXml("XML", x1);
    if (!x2.empty() && x2 != x1) PrintXml("XML2", x2);
  }
  std::printf("END\n");
  std::fflush(stdout);
  if (m1) mj_deleteModel(m1);
  if (m2) mj_deleteModel(m2);
  if (m3) mj_deleteModel(m3);
  if (s2) mj_deleteSpec(s2);
  if (s3) mj_deleteSpec(s3);
  mujoco::_mjPRIVATE__set_xml_precision(6);
}

int main() {
  mjg_install_handlers();
  char op[8], id[64];
  int prec, dump;
  while (std::scanf("%7s %63s %d %d", op, id, &prec, &dump) == 4) {
    mjSpec* s = nullptr;
    if (op[0] == 'G' || op[0] == 'E') {
      unsigned long long seed; unsigned feat, ext = 0; int nbody;
      if (std::scanf("%llu %u %d", &seed, &feat, &nbody) != 3) return 2;
      if (op[0] == 'E' && std::scanf("%u", &ext) != 1) return 2;
      if (MJG_TRY) {
        s = mjg_spec(seed, feat, nbody);
        if (op[0] == 'E') c32_extend(s, seed, feat, nbody, ext);
        RunCase(id, prec, dump, s);
        MJG_END;
      } else {
        std::printf("CASE %s fail:mju_error\nMSG %s\nEND\n", id, OneLine(mjg_last_error).c_str());
        s = nullptr;   // state unknown after longjmp: leak
      }
    } else if (op[0] == 'X') {
      long n;
      if (std::scanf("%ld", &n) != 1) return 2;
      int ch = std::getchar();   // newline
      (void)ch;
      std::string xml((size_t)n, '\0');
      if (std::fread(&xml[0], 1, (size_t)n, stdin) != (size_t)n) return 2;
      char e[2000]; e[0] = 0;
      if (MJG_TRY) {
        s = mj_parseXMLString(xml.c_str(), nullptr, e, sizeof e);
        if (!s) std::printf("CASE %s skip:parse\nMSG %s\nEND\n", id, OneLine(e).c_str());
        else RunCase(id, prec, dump, s);
        MJG_END;
      } else {
        std::printf("CASE %s fail:mju_error\nMSG %s\nEND\n", id, OneLine(mjg_last_error).c_str());
        s = nullptr;
      }
    } else if (op[0] == 'N') {
      // prec holds the precision, dump the number of values
      std::vector<double> v((size_t)dump);
      for (int i = 0; i < dump; i++) if (std::scanf("%la", &v[(size_t)i]) != 1) return 2;
      s = mj_makeSpec();
      mjsNumeric* num = mjs_addNumeric(s);
      mjs_setName(num->element, "n");
      mjs_setDouble(num->data, v.data(), dump);
      num->size = dump;
      mjModel* m = mj_compile(s, nullptr);
      std::string x, err;
      mujoco::_mjPRIVATE__set_xml_precision(prec);
      bool ok = m && Save(s, x, err);
      mujoco::_mjPRIVATE__set_xml_precision(6);
      std::printf("CASE %s %s\n", id, ok ? "ok" : "fail:save");
      if (ok) {
        size_t a = x.find("data=\""), b = a == std::string::npos ? a : x.find('"', a + 6);
        std::printf("TXT %s\n", a == std::string::npos ? "" : x.substr(a + 6, b - a - 6).c_str());
      }
      std::printf("END\n");
      if (m) mj_deleteModel(m);
    } else {
      return 2;
    }
    if (s) mj_deleteSpec(s);
    std::fflush(stdout);
  }
  return 0;
}
