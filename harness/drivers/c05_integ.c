// C05 driver: integration kernels of the working tree on explicit inputs / generated models.
// One request per stdin line, one reply line each; all doubles as 16-digit hex bit patterns.
//   Q q0 q1 q2 q3 v0 v1 v2 scale          -> mju_quatIntegrate: 4 values
//   P seed feat nbody rep                 -> mj_integratePos + mj_differentiatePos on a generated model:
//        njnt t.. | nq qpos.. | nv qvel.. | dt | qpos_out.. | diffvel..      (diffvel = differentiatePos(dt, qpos, qpos_out))
//   A seed feat nbody rep                 -> mj_nextActivation for every activation of the model with randomised
//        dyntype/dynprm/actrange:  n (dyntype h act act_dot prm0 limited lo hi result)*
//   E seed feat nbody rep                 -> mj_Euler with mjDSBL_EULERDAMP:
//        njnt t.. | h | nq qpos.. | nv qvel.. | qacc.. | time | qpos'.. | qvel'.. | time'
//   S seed feat nbody integ nsteps nodamp -> mj_step oracle data, per step one block separated by '#':
//        njnt t.. | h | time time' | nq qpos.. | nv qvel.. | qpos'.. | qvel'.. | qacc'.. | na (limited lo hi act')*
//   R k b m h q v integ                   -> one mj_step of a single undamped-by-Euler slide joint with spring k,
//        damping b, mass m, no gravity (mjDSBL_EULERDAMP set): q' v' time' M
#include "mjgen.h"
#include "engine/engine_support.h"   // mj_nextActivation is not part of the public header

static mjModel* M = NULL; static unsigned long long cs = 0; static unsigned cf = 0; static int cn = -1;
static mjModel* get_model(unsigned long long seed, unsigned feat, int nbody) {
  if (M && cs == seed && cf == feat && cn == nbody) return M;
  if (M) mj_deleteModel(M);
  M = mjg_model(seed, feat, nbody, NULL); cs = seed; cf = feat; cn = nbody;
  return M;
}
static double from_bits(unsigned long long b) { double x; memcpy(&x, &b, 8); return x; }
static unsigned long long to_bits(double x) { unsigned long long b; memcpy(&b, &x, 8); return b; }
static void pv(const mjtNum* v, int n) { for (int i = 0; i < n; i++) printf(" %016llx", to_bits(v[i])); }
static void ptypes(const mjModel* m) { printf("%d", m->njnt); for (int j = 0; j < m->njnt; j++) printf(" %d", m->jnt_type[j]); }

int main(void) {
  mjg_install_handlers();
  char* line = NULL; size_t cap = 0;
  while (getline(&line, &cap, stdin) > 0) {
    char* p = line; char op = *p++;
    if (op == 'Q') {
      double a[8]; for (int i = 0; i < 8; i++) a[i] = from_bits(strtoull(p, &p, 16));
      mjtNum q[4] = {a[0], a[1], a[2], a[3]}, v[3] = {a[4], a[5], a[6]};
      mju_quatIntegrate(q, v, a[7]);
      pv(q, 4); printf("\n");
    } else if (op == 'P' || op == 'A' || op == 'E' || op == 'S') {
      unsigned long long seed = strtoull(p, &p, 10); unsigned feat = (unsigned)strtoul(p, &p, 10); int nbody = (int)strtol(p, &p, 10);
      mjModel* m = get_model(seed, feat, nbody);
      if (!m) { printf("ERR compile\n"); fflush(stdout); continue; }
      if (op == 'P') {
        int rep = (int)strtol(p, &p, 10);
        mjData* d = mj_makeData(m);
        mjg_rng r = {seed * 131 + rep * 7919 + 5}; mjg_random_state(m, d, &r, 3.0);
        // perturb quaternions: unnormalised, zero, nearly unit; zero angular velocities
        for (int j = 0; j < m->njnt; j++) {
          int t = m->jnt_type[j]; if (t != mjJNT_FREE && t != mjJNT_BALL) continue;
          int pa = m->jnt_qposadr[j] + (t == mjJNT_FREE ? 3 : 0), va = m->jnt_dofadr[j] + (t == mjJNT_FREE ? 3 : 0);
          int c = mjg_int(&r, 6);
          if (c == 0) for (int i = 0; i < 4; i++) d->qpos[pa + i] *= 2.5;
          else if (c == 1) for (int i = 0; i < 4; i++) d->qpos[pa + i] = 0;
          else if (c == 2) d->qpos[pa] *= 1 + 3e-16;
          else if (c == 3) for (int i = 0; i < 4; i++) d->qpos[pa + i] *= 1e-3;
          if (mjg_chance(&r, 0.2)) for (int i = 0; i < 3; i++) d->qvel[va + i] = 0;
          if (mjg_chance(&r, 0.1)) for (int i = 0; i < 3; i++) d->qvel[va + i] *= 1e-17;
        }
        mjtNum dt = mjg_chance(&r, 0.5) ? m->opt.timestep : mjg_range(&r, -0.05, 0.05);
        if (dt > -1e-3 && dt < 1e-3) dt = 0.01;
        mjtNum* out = (mjtNum*)malloc(sizeof(mjtNum) * (m->nq + 1)); mjtNum* dv = (mjtNum*)calloc(m->nv + 1, sizeof(mjtNum));
        memcpy(out, d->qpos, sizeof(mjtNum) * m->nq);
        mj_integratePos(m, out, d->qvel, dt);
        mj_differentiatePos(m, dv, dt, d->qpos, out);
        ptypes(m); printf(" | %d", m->nq); pv(d->qpos, m->nq); printf(" | %d", m->nv); pv(d->qvel, m->nv);
        printf(" |"); pv(&dt, 1); printf(" |"); pv(out, m->nq); printf(" |"); pv(dv, m->nv); printf("\n");
        free(out); free(dv); mj_deleteData(d);
      } else if (op == 'A') {
        int rep = (int)strtol(p, &p, 10);
        mjData* d = mj_makeData(m);
        mjg_rng r = {seed * 17 + rep * 104729 + 3};
        int cnt = 0; for (int i = 0; i < m->nu; i++) cnt += m->actuator_actnum[i];
        printf("%d", cnt);
        static const int dyns[5] = {mjDYN_INTEGRATOR, mjDYN_FILTER, mjDYN_FILTEREXACT, mjDYN_MUSCLE, mjDYN_USER};
        for (int i = 0; i < m->nu; i++) {
          int save_dyn = m->actuator_dyntype[i]; mjtNum save_prm = m->actuator_dynprm[i * mjNDYN];
          int save_lim = m->actuator_actlimited[i]; mjtNum save_lo = m->actuator_actrange[2 * i], save_hi = m->actuator_actrange[2 * i + 1];
          for (int j = m->actuator_actadr[i]; j < m->actuator_actadr[i] + m->actuator_actnum[i]; j++) {
            int dyn = dyns[mjg_int(&r, 5)];
            m->actuator_dyntype[i] = dyn;
            int c = mjg_int(&r, 5);
            m->actuator_dynprm[i * mjNDYN] = c == 0 ? 1e-20 : c == 1 ? 0 : c == 2 ? -0.3 : mjg_range(&r, 0.001, 0.5);
            m->actuator_actlimited[i] = mjg_chance(&r, 0.6);
            mjtNum lo = mjg_range(&r, -1, 0.2), hi = lo + mjg_range(&r, 0, 1.2);
            m->actuator_actrange[2 * i] = lo; m->actuator_actrange[2 * i + 1] = hi;
            d->act[j] = mjg_range(&r, -1.5, 1.5);
            mjtNum act_dot = mjg_chance(&r, 0.2) ? mjg_range(&r, -500, 500) : mjg_range(&r, -5, 5);
            mjtNum res = mj_nextActivation(m, d, i, j, act_dot);
            mjtNum h = m->opt.timestep, lim = m->actuator_actlimited[i];
            printf(" %d", dyn); pv(&h, 1); pv(&d->act[j], 1); pv(&act_dot, 1); pv(&m->actuator_dynprm[i * mjNDYN], 1);
            printf(" %d", (int)lim); pv(&lo, 1); pv(&hi, 1); pv(&res, 1);
          }
          m->actuator_dyntype[i] = save_dyn; m->actuator_dynprm[i * mjNDYN] = save_prm; m->actuator_actlimited[i] = save_lim;
          m->actuator_actrange[2 * i] = save_lo; m->actuator_actrange[2 * i + 1] = save_hi;
        }
        printf("\n");
        mj_deleteData(d);
      } else if (op == 'E') {
        int rep = (int)strtol(p, &p, 10);
        mjData* d = mj_makeData(m);
        mjg_rng r = {seed * 29 + rep * 1299709 + 11}; mjg_random_state(m, d, &r, 2.0);
        d->time = mjg_range(&r, 0, 10);
        int savef = m->opt.disableflags; m->opt.disableflags |= mjDSBL_EULERDAMP;
        int err = 0;
        if (MJG_TRY) {
          mj_forward(m, d);
          ptypes(m); printf(" |"); pv(&m->opt.timestep, 1); printf(" | %d", m->nq); pv(d->qpos, m->nq); printf(" | %d", m->nv); pv(d->qvel, m->nv);
          printf(" |"); pv(d->qacc, m->nv); printf(" |"); pv(&d->time, 1);
          mj_Euler(m, d);
          printf(" |"); pv(d->qpos, m->nq); printf(" |"); pv(d->qvel, m->nv); printf(" |"); pv(&d->time, 1);
          MJG_END;
        } else err = 1;
        printf("%s\n", err ? " ERR" : "");
        m->opt.disableflags = savef;
        mj_deleteData(d);
      } else {
        int integ = (int)strtol(p, &p, 10), nsteps = (int)strtol(p, &p, 10), nodamp = (int)strtol(p, &p, 10);
        mjData* d = mj_makeData(m);
        mjg_rng r = {seed * 37 + integ * 31 + 13}; mjg_random_state(m, d, &r, 1.0);
        d->time = mjg_range(&r, 0, 3);
        int savef = m->opt.disableflags, savei = m->opt.integrator;
        if (nodamp) m->opt.disableflags |= mjDSBL_EULERDAMP;
        m->opt.integrator = integ;
        mjtNum* q0 = (mjtNum*)malloc(sizeof(mjtNum) * (m->nq + 1)); mjtNum* v0 = (mjtNum*)malloc(sizeof(mjtNum) * (m->nv + 1));
        int err = 0;
        for (int s = 0; s < nsteps && !err; s++) {
          memcpy(q0, d->qpos, sizeof(mjtNum) * m->nq); memcpy(v0, d->qvel, sizeof(mjtNum) * m->nv);
          mjtNum t0 = d->time;
          // new controls every step so that activations move
          for (int i = 0; i < m->nu; i++) d->ctrl[i] = mjg_range(&r, -2, 2);
          if (MJG_TRY) { mj_step(m, d); MJG_END; } else { err = 1; break; }
          if (s) printf(" # ");
          ptypes(m); printf(" |"); pv(&m->opt.timestep, 1); printf(" |"); pv(&t0, 1); pv(&d->time, 1);
          printf(" | %d", m->nq); pv(q0, m->nq); printf(" | %d", m->nv); pv(v0, m->nv);
          printf(" |"); pv(d->qpos, m->nq); printf(" |"); pv(d->qvel, m->nv); printf(" |"); pv(d->qacc, m->nv);
          printf(" | %d", m->na);
          for (int i = 0; i < m->nu; i++) for (int j = m->actuator_actadr[i]; j < m->actuator_actadr[i] + m->actuator_actnum[i]; j++) {
            printf(" %d", (int)m->actuator_actlimited[i]); pv(m->actuator_actrange + 2 * i, 2); pv(d->act + j, 1);
          }
          printf(" | %d", d->warning[mjWARN_BADQPOS].number + d->warning[mjWARN_BADQVEL].number + d->warning[mjWARN_BADQACC].number);
        }
        printf("%s\n", err ? " ERR" : "");
        m->opt.disableflags = savef; m->opt.integrator = savei;
        free(q0); free(v0); mj_deleteData(d);
      }
    } else if (op == 'R') {
      double a[6]; for (int i = 0; i < 6; i++) a[i] = from_bits(strtoull(p, &p, 16));
      int integ = (int)strtol(p, &p, 10);
      mjSpec* s = mj_makeSpec();
      s->option.timestep = a[3]; s->option.gravity[0] = s->option.gravity[1] = s->option.gravity[2] = 0;
      s->option.integrator = integ; s->option.disableflags |= mjDSBL_EULERDAMP;
      mjsBody* b = mjs_addBody(mjs_findBody(s, "world"), NULL);
      mjsJoint* j = mjs_addJoint(b, NULL); j->type = mjJNT_SLIDE; j->axis[0] = 1; j->axis[1] = 0; j->axis[2] = 0;
      j->stiffness[0] = a[0]; j->damping[0] = a[1];
      mjsGeom* g = mjs_addGeom(b, NULL); g->type = mjGEOM_SPHERE; g->size[0] = 0.1; g->mass = a[2]; g->contype = 0; g->conaffinity = 0;
      mjModel* m = mj_compile(s, NULL);
      if (!m) { printf("ERR compile %s\n", mjs_getError(s)); mj_deleteSpec(s); fflush(stdout); continue; }
      mjData* d = mj_makeData(m);
      d->qpos[0] = a[4]; d->qvel[0] = a[5]; d->time = 0.25;
      mj_step(m, d);
      pv(d->qpos, 1); pv(d->qvel, 1); pv(&d->time, 1); pv(m->body_mass + 1, 1); printf("\n");
      mj_deleteData(d); mj_deleteModel(m); mj_deleteSpec(s);
    } else {
      printf("ERR op\n");
    }
    fflush(stdout);
  }
  return 0;
}
