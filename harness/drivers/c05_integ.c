// C05 driver: integration kernels of the working tree on explicit inputs / generated models.
// One request per stdin line, one reply line each; all doubles as 16-digit hex bit patterns.
//   Q q0 q1 q2 q3 v0 v1 v2 scale          -> mju_quatIntegrate: 4 values
//   P seed feat nbody rep                 -> mj_integratePos + mj_differentiatePos on a generated model:
//        njnt t.. | nq qpos.. | nv qvel.. | dt | qpos_out.. | diffvel..      (diffvel = differentiatePos(dt, qpos, qpos_out))
//   A seed feat nbody rep                 -> mj_nextActivation for every activation of the model with randomised
//        dyntype/dynprm/actrange:  n (dyntype h act act_dot prm0 limited lo hi result)*
//   E seed feat nbody rep                 -> mj_Euler with mjDSBL_EULERDAMP:
//        njnt t.. | h | nq qpos.. | nv qvel.. | qacc.. | time | qpos'.. | qvel'.. | time'
//   S seed feat nbody integ nsteps nodamp -> mj_step oracle data, per step one block separated by '#':
//        njnt t.. | h | time time' | nq qpos.. | nv qvel.. | qpos'.. | qvel'.. | qacc'.. | na (limited lo hi act')*
//   R k b m h q v integ                   -> one mj_step of a single undamped-by-Euler slide joint with spring k,
//        damping b, mass m, no gravity (mjDSBL_EULERDAMP set): q' v' time' M
#include "mjgen.h"
#include "engine/engine_support.h"   // mj_nextActivation is not part of the public header
//   I seed feat nbody rep integ         -> implicit / implicitfast (or Euler) step on a generated model whose derivative-relevant
//        parameters are re-randomised (asymmetric / one-sided forceranges and ctrlranges, kv and velocity gains, gear signs,
//        joint / tendon damping, disabled actuator groups), with the force-velocity derivative measured by finite differences:
//        nv | h | v | v1 | f | M (nv*nv) | fb (standalone-free-body id per dof or -1) | S0 | P0 | Sp (nv cols) | Sm | Pp | Pm | qDeriv (nv*nv) | nwarn
//        S = qfrc_smooth, P = qfrc_passive + qfrc_actuator, column i = forward dynamics at qvel[i] +- eps

#include "engine/engine_derivative.h"  // mjd_smooth_vel

// custom model for the derivative checks: index spaces that coincide on mjgen models are pulled apart
// (multi-input PID actuators in front of limited ones: actuator index != control index), tendons across sibling
// branches and along a chain, asymmetric / one-sided force and control ranges, a standalone free body
static mjModel* c05_custom(unsigned long long seed) {
  mjg_rng R = { seed * 0x9E3779B97F4A7C15ULL + 99 }; mjg_rng* r = &R;
  mjSpec* s = mj_makeSpec();
  s->option.timestep = 0.002 * (1 + mjg_int(r, 4));
  // fluid medium (own random stream): density / viscosity / wind, bodies with several geoms of mixed fluidshape in every order
  mjg_rng FR = { seed * 0xD1B54A32D192ED03ULL + 555 }; mjg_rng* fr = &FR;
  int fluid = mjg_chance(fr, 0.75);
  if (fluid) {
    static const double dens[4] = {1000, 1.2, 0, 50}, visc[4] = {0.5, 1.8e-5, 0.02, 0};
    // viscosity only: with density > 0 the ellipsoid-fluid derivative of capsule / cylinder geoms on non-free bodies is not the
    // derivative of the force on HEAD (see build/scratch/C05/fluid_probe.c, reported); density is exercised with the inertia-box model on mjgen models
    int c = mjg_int(fr, 4); (void)dens; (void)c; s->option.density = 0; s->option.viscosity = visc[mjg_int(fr, 3)];
    if (mjg_chance(fr, 0.5)) for (int k = 0; k < 3; k++) s->option.wind[k] = mjg_range(fr, -2, 2);
  }
  mjsBody* world = mjs_findBody(s, "world");
  mjsBody* bd[5]; const char* jn[5] = {"j0", "j1", "j2", "j3", "j4"};
  int parent[5] = {-1, 0, 0, 1, 2};
  for (int b = 0; b < 5; b++) {
    bd[b] = mjs_addBody(parent[b] < 0 ? world : bd[parent[b]], NULL);
    bd[b]->pos[0] = mjg_range(r, -0.3, 0.3); bd[b]->pos[1] = mjg_range(r, -0.3, 0.3); bd[b]->pos[2] = parent[b] < 0 ? 1.0 : mjg_range(r, -0.3, 0.3);
    mjsJoint* j = mjs_addJoint(bd[b], NULL); mjs_setName(j->element, jn[b]);
    j->type = mjg_chance(r, 0.3) ? mjJNT_SLIDE : mjJNT_HINGE;
    for (int k = 0; k < 3; k++) j->axis[k] = mjg_range(r, -1, 1);
    if (fabs(j->axis[0]) + fabs(j->axis[1]) + fabs(j->axis[2]) < 0.2) j->axis[1] = 1;
    if (mjg_chance(r, 0.5)) j->damping[0] = mjg_range(r, 0, 1.5);
    mjsGeom* g = mjs_addGeom(bd[b], NULL); g->type = mjGEOM_CAPSULE; g->size[0] = 0.04; g->size[1] = 0.1; g->pos[0] = 0.1; g->contype = 0; g->conaffinity = 0;
    if (fluid) {
      int extra = b == 0 ? 1 : mjg_int(fr, 3);
      g->fluid_ellipsoid = b == 0 ? 1 : mjg_int(fr, 2);          // body 0: [ellipsoid, none]
      for (int e = 0; e < extra; e++) {
        mjsGeom* g2 = mjs_addGeom(bd[b], NULL); int t = mjg_int(fr, 3);
        g2->type = t == 0 ? mjGEOM_BOX : t == 1 ? mjGEOM_ELLIPSOID : mjGEOM_CYLINDER;
        g2->size[0] = mjg_range(fr, 0.03, 0.08); g2->size[1] = mjg_range(fr, 0.03, 0.12); g2->size[2] = mjg_range(fr, 0.03, 0.1);
        g2->pos[1] = mjg_range(fr, -0.1, 0.1); g2->pos[2] = mjg_range(fr, -0.1, 0.1); g2->contype = 0; g2->conaffinity = 0;
        g2->fluid_ellipsoid = b == 0 ? 0 : mjg_int(fr, 2);
      }
    }
  }
  if (mjg_chance(r, 0.5)) {
    mjsBody* fbd = mjs_addBody(world, NULL); fbd->pos[0] = 3; fbd->pos[2] = 2; mjs_addFreeJoint(fbd);
    mjsGeom* g = mjs_addGeom(fbd, NULL); g->type = mjGEOM_BOX; g->size[0] = 0.05; g->size[1] = 0.1; g->size[2] = 0.2; g->contype = 0; g->conaffinity = 0;
    if (fluid) {
      g->fluid_ellipsoid = mjg_int(fr, 2);
      if (mjg_chance(fr, 0.7)) { mjsGeom* g2 = mjs_addGeom(fbd, NULL); g2->type = mjGEOM_SPHERE; g2->size[0] = 0.07; g2->pos[0] = 0.15; g2->contype = 0; g2->conaffinity = 0; g2->fluid_ellipsoid = mjg_int(fr, 2); }
    }
  }
  // tendon t0 couples the sibling branches (j1 | j2), t1 runs along one chain (j1, j3), t2 couples j3 and j4 (cousins)
  const char* tj[3][2] = {{"j1", "j2"}, {"j1", "j3"}, {"j3", "j4"}}; const char* tn[3] = {"t0", "t1", "t2"};
  for (int t = 0; t < 3; t++) {
    mjsTendon* tt = mjs_addTendon(s, NULL); mjs_setName(tt->element, tn[t]);
    mjs_wrapJoint(tt, tj[t][0], mjg_range(r, 0.3, 1.2)); mjs_wrapJoint(tt, tj[t][1], -mjg_range(r, 0.3, 1.2));
    if (mjg_chance(r, 0.4)) tt->damping[0] = mjg_range(r, 0.1, 1);
  }
  // actuators in random order
  int na = 3 + mjg_int(r, 4);
  int pidfirst = mjg_chance(r, 0.6);
  for (int k = 0; k < na; k++) {
    mjsActuator* a = mjs_addActuator(s, NULL);
    int kind = (k == 0 && pidfirst) ? 0 : (k == 1 ? 1 : mjg_int(r, 7));
    int ontendon = kind >= 4 && mjg_chance(r, 0.5);
    if (ontendon) { a->trntype = mjTRN_TENDON; mjs_setString(a->target, tn[mjg_int(r, 3)]); }
    else { a->trntype = mjTRN_JOINT; mjs_setString(a->target, jn[mjg_int(r, 5)]); }
    a->gear[0] = mjg_range(r, 0.5, 2) * (mjg_chance(r, 0.3) ? -1 : 1);
    double kv = mjg_range(r, 0.2, 4);
    if (kind == 0) {            // multi-input PID: 2 or 3 controls
      static const int specs[4] = {mjINPUT_POS | mjINPUT_VEL | mjINPUT_FF, mjINPUT_POS | mjINPUT_VEL, mjINPUT_VEL | mjINPUT_FF, mjINPUT_POS | mjINPUT_FF};
      mjs_setToPID(a, mjg_range(r, 1, 10), &kv, NULL, NULL, NULL, NULL, 0, specs[mjg_int(r, 4)]);
    } else if (kind == 1 || kind == 4) {   // affine velocity gain, limited control with an asymmetric range
      a->gaintype = mjGAIN_AFFINE; a->gainprm[0] = mjg_range(r, 0.5, 2); a->gainprm[1] = mjg_range(r, -0.5, 0.5); a->gainprm[2] = mjg_range(r, 0.3, 1.5) * (mjg_chance(r, 0.5) ? -1 : 1);
      a->biastype = mjg_chance(r, 0.5) ? mjBIAS_AFFINE : mjBIAS_NONE; a->biasprm[0] = mjg_range(r, -1, 1); a->biasprm[1] = mjg_range(r, -2, 0); a->biasprm[2] = -mjg_range(r, 0, 2);
      a->ctrllimited = mjLIMITED_TRUE; a->ctrlrange[0] = -mjg_range(r, 0.1, 0.6); a->ctrlrange[1] = mjg_range(r, 0.7, 1.4);
    } else if (kind == 2) { mjs_setToDamper(a, kv); a->ctrlrange[0] = 0; a->ctrlrange[1] = mjg_range(r, 0.3, 1.5); }
    else if (kind == 3 || kind == 5) { mjs_setToVelocity(a, kv); }
    else { mjs_setToPosition(a, mjg_range(r, 1, 20), &kv, NULL, NULL, 0); }
    if (kind != 0 && mjg_chance(r, 0.7)) {
      a->forcelimited = mjLIMITED_TRUE; int c = mjg_int(r, 4); double x = mjg_range(r, 0.05, 2), y = mjg_range(r, 0.05, 2);
      if (c == 0) { a->forcerange[0] = -x; a->forcerange[1] = y; } else if (c == 1) { a->forcerange[0] = -x; a->forcerange[1] = 0; }
      else if (c == 2) { a->forcerange[0] = 0; a->forcerange[1] = y; } else { a->forcerange[0] = -x; a->forcerange[1] = x; }
    }
    a->group = mjg_int(r, 3);
  }
  mjModel* m = mj_compile(s, NULL);
  if (!m) fprintf(stderr, "c05_custom: compile failed seed=%llu: %s\n", seed, mjs_getError(s));
  mj_deleteSpec(s);
  return m;
}

static mjModel* M = NULL; static unsigned long long cs = 0; static unsigned cf = 0; static int cn = -1;
static mjModel* get_model(unsigned long long seed, unsigned feat, int nbody) {
  if (M && cs == seed && cf == feat && cn == nbody) return M;
  if (M) mj_deleteModel(M);
  M = mjg_model(seed, feat, nbody, NULL); cs = seed; cf = feat; cn = nbody;
  return M;
}
static double from_bits(unsigned long long b) { double x; memcpy(&x, &b, 8); return x; }
static unsigned long long to_bits(double x) { unsigned long long b; memcpy(&b, &x, 8); return b; }
static void pv(const mjtNum* v, int n) { for (int i = 0; i < n; i++) printf(" %016llx", to_bits(v[i])); }
static void ptypes(const mjModel* m) { printf("%d", m->njnt); for (int j = 0; j < m->njnt; j++) printf(" %d", m->jnt_type[j]); }

// time-dependent control callback for the RK4 stage-time check: ctrl[0] = c0 + c1 t + c2 t^2
static double cb_c[3] = {0, 0, 0};
static void time_ctrl_cb(const mjModel* m, mjData* d) { if (m->nu > 0) d->ctrl[0] = cb_c[0] + cb_c[1] * d->time + cb_c[2] * d->time * d->time; }

int main(void) {
  mjg_install_handlers();
  char* line = NULL; size_t cap = 0;
  while (getline(&line, &cap, stdin) > 0) {
    char* p = line; char op = *p++;
    if (op == 'Q') {
      double a[8]; for (int i = 0; i < 8; i++) a[i] = from_bits(strtoull(p, &p, 16));
      mjtNum q[4] = {a[0], a[1], a[2], a[3]}, v[3] = {a[4], a[5], a[6]};
      mju_quatIntegrate(q, v, a[7]);
      pv(q, 4); printf("\n");
    } else if (op == 'P' || op == 'A' || op == 'E' || op == 'S') {
      unsigned long long seed = strtoull(p, &p, 10); unsigned feat = (unsigned)strtoul(p, &p, 10); int nbody = (int)strtol(p, &p, 10);
      mjModel* m = get_model(seed, feat, nbody);
      if (!m) { printf("ERR compile\n"); fflush(stdout); continue; }
      if (op == 'P') {
        int rep = (int)strtol(p, &p, 10);
        mjData* d = mj_makeData(m);
        mjg_rng r = {seed * 131 + rep * 7919 + 5}; mjg_random_state(m, d, &r, 3.0);
        // perturb quaternions: unnormalised, zero, nearly unit; zero angular velocities
        for (int j = 0; j < m->njnt; j++) {
          int t = m->jnt_type[j]; if (t != mjJNT_FREE && t != mjJNT_BALL) continue;
          int pa = m->jnt_qposadr[j] + (t == mjJNT_FREE ? 3 : 0), va = m->jnt_dofadr[j] + (t == mjJNT_FREE ? 3 : 0);
          int c = mjg_int(&r, 6);
          if (c == 0) for (int i = 0; i < 4; i++) d->qpos[pa + i] *= 2.5;
          else if (c == 1) for (int i = 0; i < 4; i++) d->qpos[pa + i] = 0;
          else if (c == 2) d->qpos[pa] *= 1 + 3e-16;
          else if (c == 3) for (int i = 0; i < 4; i++) d->qpos[pa + i] *= 1e-3;
          if (mjg_chance(&r, 0.2)) for (int i = 0; i < 3; i++) d->qvel[va + i] = 0;
          if (mjg_chance(&r, 0.1)) for (int i = 0; i < 3; i++) d->qvel[va + i] *= 1e-17;
        }
        mjtNum dt = mjg_chance(&r, 0.5) ? m->opt.timestep : mjg_range(&r, -0.05, 0.05);
        if (dt > -1e-3 && dt < 1e-3) dt = 0.01;
        mjtNum* out = (mjtNum*)malloc(sizeof(mjtNum) * (m->nq + 1)); mjtNum* dv = (mjtNum*)calloc(m->nv + 1, sizeof(mjtNum));
        memcpy(out, d->qpos, sizeof(mjtNum) * m->nq);
        mj_integratePos(m, out, d->qvel, dt);
        mj_differentiatePos(m, dv, dt, d->qpos, out);
        ptypes(m); printf(" | %d", m->nq); pv(d->qpos, m->nq); printf(" | %d", m->nv); pv(d->qvel, m->nv);
        printf(" |"); pv(&dt, 1); printf(" |"); pv(out, m->nq); printf(" |"); pv(dv, m->nv); printf("\n");
        free(out); free(dv); mj_deleteData(d);
      } else if (op == 'A') {
        int rep = (int)strtol(p, &p, 10);
        mjData* d = mj_makeData(m);
        mjg_rng r = {seed * 17 + rep * 104729 + 3};
        int cnt = 0; for (int i = 0; i < m->nactuator; i++) cnt += m->actuator_actnum[i];
        printf("%d", cnt);
        static const int dyns[5] = {mjDYN_INTEGRATOR, mjDYN_FILTER, mjDYN_FILTEREXACT, mjDYN_MUSCLE, mjDYN_USER};
        for (int i = 0; i < m->nactuator; i++) {
          int save_dyn = m->actuator_dyntype[i]; mjtNum save_prm = m->actuator_dynprm[i * mjNDYN];
          int save_lim = m->actuator_actlimited[i]; mjtNum save_lo = m->actuator_actrange[2 * i], save_hi = m->actuator_actrange[2 * i + 1];
          for (int j = m->actuator_actadr[i]; j < m->actuator_actadr[i] + m->actuator_actnum[i]; j++) {
            int dyn = dyns[mjg_int(&r, 5)];
            m->actuator_dyntype[i] = dyn;
            int c = mjg_int(&r, 5);
            m->actuator_dynprm[i * mjNDYN] = c == 0 ? 1e-20 : c == 1 ? 0 : c == 2 ? -0.3 : mjg_range(&r, 0.001, 0.5);
            m->actuator_actlimited[i] = mjg_chance(&r, 0.6);
            mjtNum lo = mjg_range(&r, -1, 0.2), hi = lo + mjg_range(&r, 0, 1.2);
            m->actuator_actrange[2 * i] = lo; m->actuator_actrange[2 * i + 1] = hi;
            d->act[j] = mjg_range(&r, -1.5, 1.5);
            mjtNum act_dot = mjg_chance(&r, 0.2) ? mjg_range(&r, -500, 500) : mjg_range(&r, -5, 5);
            mjtNum res = mj_nextActivation(m, d, i, j, act_dot);
            mjtNum h = m->opt.timestep, lim = m->actuator_actlimited[i];
            printf(" %d", dyn); pv(&h, 1); pv(&d->act[j], 1); pv(&act_dot, 1); pv(&m->actuator_dynprm[i * mjNDYN], 1);
            printf(" %d", (int)lim); pv(&lo, 1); pv(&hi, 1); pv(&res, 1);
          }
          m->actuator_dyntype[i] = save_dyn; m->actuator_dynprm[i * mjNDYN] = save_prm; m->actuator_actlimited[i] = save_lim;
          m->actuator_actrange[2 * i] = save_lo; m->actuator_actrange[2 * i + 1] = save_hi;
        }
        printf("\n");
        mj_deleteData(d);
      } else if (op == 'E') {
        int rep = (int)strtol(p, &p, 10);
        mjData* d = mj_makeData(m);
        mjg_rng r = {seed * 29 + rep * 1299709 + 11}; mjg_random_state(m, d, &r, 2.0);
        d->time = mjg_range(&r, 0, 10);
        int savef = m->opt.disableflags; m->opt.disableflags |= mjDSBL_EULERDAMP;
        int err = 0;
        if (MJG_TRY) {
          mj_forward(m, d);
          ptypes(m); printf(" |"); pv(&m->opt.timestep, 1); printf(" | %d", m->nq); pv(d->qpos, m->nq); printf(" | %d", m->nv); pv(d->qvel, m->nv);
          printf(" |"); pv(d->qacc, m->nv); printf(" |"); pv(&d->time, 1);
          mj_Euler(m, d);
          printf(" |"); pv(d->qpos, m->nq); printf(" |"); pv(d->qvel, m->nv); printf(" |"); pv(&d->time, 1);
          MJG_END;
        } else err = 1;
        printf("%s\n", err ? " ERR" : "");
        m->opt.disableflags = savef;
        mj_deleteData(d);
      } else {
        int integ = (int)strtol(p, &p, 10), nsteps = (int)strtol(p, &p, 10), nodamp = (int)strtol(p, &p, 10);
        mjData* d = mj_makeData(m);
        mjg_rng r = {seed * 37 + integ * 31 + 13}; mjg_random_state(m, d, &r, 1.0);
        d->time = mjg_range(&r, 0, 3);
        int savef = m->opt.disableflags, savei = m->opt.integrator;
        if (nodamp) m->opt.disableflags |= mjDSBL_EULERDAMP;
        m->opt.integrator = integ;
        mjtNum* q0 = (mjtNum*)malloc(sizeof(mjtNum) * (m->nq + 1)); mjtNum* v0 = (mjtNum*)malloc(sizeof(mjtNum) * (m->nv + 1));
        int err = 0;
        for (int s = 0; s < nsteps && !err; s++) {
          memcpy(q0, d->qpos, sizeof(mjtNum) * m->nq); memcpy(v0, d->qvel, sizeof(mjtNum) * m->nv);
          mjtNum t0 = d->time;
          // new controls every step so that activations move
          for (int i = 0; i < m->nu; i++) d->ctrl[i] = mjg_range(&r, -2, 2);
          if (MJG_TRY) { mj_step(m, d); MJG_END; } else { err = 1; break; }
          if (s) printf(" # ");
          ptypes(m); printf(" |"); pv(&m->opt.timestep, 1); printf(" |"); pv(&t0, 1); pv(&d->time, 1);
          printf(" | %d", m->nq); pv(q0, m->nq); printf(" | %d", m->nv); pv(v0, m->nv);
          printf(" |"); pv(d->qpos, m->nq); printf(" |"); pv(d->qvel, m->nv); printf(" |"); pv(d->qacc, m->nv);
          printf(" | %d", m->na);
          for (int i = 0; i < m->nactuator; i++) for (int j = m->actuator_actadr[i]; j < m->actuator_actadr[i] + m->actuator_actnum[i]; j++) {
            printf(" %d", (int)m->actuator_actlimited[i]); pv(m->actuator_actrange + 2 * i, 2); pv(d->act + j, 1);
          }
          printf(" | %d", d->warning[mjWARN_BADQPOS].number + d->warning[mjWARN_BADQVEL].number + d->warning[mjWARN_BADQACC].number);
        }
        printf("%s\n", err ? " ERR" : "");
        m->opt.disableflags = savef; m->opt.integrator = savei;
        free(q0); free(v0); mj_deleteData(d);
      }
    } else if (op == 'I') {
      unsigned long long seed = strtoull(p, &p, 10); unsigned feat = (unsigned)strtoul(p, &p, 10); int nbody = (int)strtol(p, &p, 10);
      int rep = (int)strtol(p, &p, 10), integ = (int)strtol(p, &p, 10);
      int dflags = (int)strtol(p, &p, 10);      // extra disableflags (option combinations)
      int custom = feat == 0xFFFFFFFFu;
      mjModel* m = custom ? c05_custom(seed) : mjg_model(seed, feat, nbody, NULL);
      if (!m) { printf("ERR compile\n"); fflush(stdout); continue; }
      mjg_rng r = {seed * 41 + rep * 15485863ULL + 17};
      m->opt.integrator = integ;
      // index spaces: actuator i (nactuator), control c (nu), output o (actuator_outadr)
      for (int i = 0; i < m->nactuator && !custom; i++) {
        int c = mjg_int(&r, 6);
        m->actuator_forcelimited[i] = c != 0;
        mjtNum a = mjg_range(&r, 0.02, 3), b = mjg_range(&r, 0.02, 3);
        mjtNum* fr = m->actuator_forcerange + 2 * i;
        if (c == 1) { fr[0] = -a; fr[1] = a; } else if (c == 2) { fr[0] = -a; fr[1] = 0; } else if (c == 3) { fr[0] = 0; fr[1] = b; }
        else if (c == 4) { fr[0] = a; fr[1] = a + b; } else { fr[0] = -a; fr[1] = b; }
        if (m->actuator_ctrlnum[i] == 1) {
          int u = m->actuator_ctrladr[i], c2 = mjg_int(&r, 4);
          m->actuator_ctrllimited[u] = c2 != 0;
          mjtNum* cr = m->actuator_ctrlrange + 2 * u;
          if (c2 == 1) { cr[0] = -1; cr[1] = 1; } else if (c2 == 2) { cr[0] = -0.2; cr[1] = 1.5; } else { cr[0] = 0; cr[1] = 0.7; }
        }
        if (m->actuator_biastype[i] == mjBIAS_AFFINE && mjg_chance(&r, 0.7)) m->actuator_biasprm[i * mjNBIAS + 2] = -mjg_range(&r, 0, 4);
        if (m->actuator_gaintype[i] == mjGAIN_AFFINE && mjg_chance(&r, 0.7)) m->actuator_gainprm[i * mjNGAIN + 2] = mjg_range(&r, -1, 1);
        if (mjg_chance(&r, 0.3)) m->actuator_gear[6 * m->actuator_outadr[i]] = -m->actuator_gear[6 * m->actuator_outadr[i]];
        m->actuator_group[i] = mjg_int(&r, 3);
      }
      if (mjg_chance(&r, 0.2)) m->opt.disableactuator = 1 << mjg_int(&r, 3);
      if (!custom && (rep % 3) == 1) { mjg_rng f2 = {seed * 977 + rep}; m->opt.density = mjg_chance(&f2, 0.5) ? 1000 : 1.2; m->opt.viscosity = mjg_chance(&f2, 0.5) ? 0.3 : 0; if (mjg_chance(&f2, 0.5)) m->opt.wind[0] = mjg_range(&f2, -2, 2); }
      for (int i = 0; i < m->nv && !custom; i++) if (m->jnt_type[m->dof_jntid[i]] != mjJNT_FREE && mjg_chance(&r, 0.5)) m->dof_damping[i] = mjg_range(&r, 0, 2);
      for (int i = 0; i < m->ntendon && !custom; i++) if (mjg_chance(&r, 0.5)) m->tendon_damping[i] = mjg_range(&r, 0, 1);
      m->opt.disableflags |= dflags;
      // Euler treats only JOINT damping implicitly: keep tendon damping out of the Euler cases
      if (integ == mjINT_EULER) for (int i = 0; i < m->ntendon; i++) m->tendon_damping[i] = 0;
      if (integ == mjINT_EULER && custom) for (int i = 0; i < m->nv; i++) if (m->jnt_type[m->dof_jntid[i]] != mjJNT_FREE && mjg_chance(&r, 0.7)) m->dof_damping[i] = mjg_range(&r, 0.1, 3);
      mjData* d = mj_makeData(m); mjData* w = mj_makeData(m);
      mjg_random_state(m, d, &r, 2.0);
      for (int i = 0; i < m->nu; i++) d->ctrl[i] = mjg_range(&r, -2.5, 2.5);
      int nv = m->nv; mjtNum eps = 1e-6;
      int err = 0;
      mjtNum* buf = (mjtNum*)calloc((size_t)(4 * nv * nv + 8 * nv + 8), sizeof(mjtNum));
      mjtNum *Sp = buf, *Sm = buf + nv * nv, *Pp = buf + 2 * nv * nv, *Pm = buf + 3 * nv * nv, *S0 = buf + 4 * nv * nv, *P0 = S0 + nv, *B0 = P0 + nv, *Bp = B0 + nv, *Bm = Bp + nv;
      if (MJG_TRY) {
        mj_forward(m, d);
        for (int k = 0; k < nv; k++) { S0[k] = d->qfrc_smooth[k]; P0[k] = d->qfrc_passive[k] + d->qfrc_actuator[k]; B0[k] = d->qfrc_damper[k]; }
        for (int i = 0; i < nv; i++) for (int sgn = 0; sgn < 2; sgn++) {
          mj_copyData(w, m, d);
          w->qvel[i] += sgn ? -eps : eps;
          mj_forward(m, w);
          (sgn ? Bm : Bp)[i] = w->qfrc_damper[i];
          for (int k = 0; k < nv; k++) {
            (sgn ? Sm : Sp)[k * nv + i] = w->qfrc_smooth[k];
            (sgn ? Pm : Pp)[k * nv + i] = w->qfrc_passive[k] + w->qfrc_actuator[k];
          }
        }
        mjtNum* v0 = (mjtNum*)malloc(sizeof(mjtNum) * (nv + 1)); memcpy(v0, d->qvel, sizeof(mjtNum) * nv);
        mj_step(m, d);
        printf("%d |", nv); pv(&m->opt.timestep, 1); printf(" |"); pv(v0, nv); printf(" |"); pv(d->qvel, nv); printf(" |");
        for (int k = 0; k < nv; k++) { mjtNum f = d->qfrc_smooth[k] + d->qfrc_constraint[k]; pv(&f, 1); }
        mjtNum* Md = (mjtNum*)calloc((size_t)nv * nv + 1, sizeof(mjtNum)); mj_fullM(m, d, Md);
        printf(" |"); pv(Md, nv * nv); printf(" |");
        for (int k = 0; k < nv; k++) {
          int b = m->dof_bodyid[k], fb = -1;
          if (m->body_parentid[b] == 0 && m->body_jntnum[b] == 1 && m->jnt_type[m->body_jntadr[b]] == mjJNT_FREE) {
            fb = b; for (int c = 1; c < m->nbody; c++) if (m->body_parentid[c] == b) fb = -1;
          }
          printf(" %d", fb);
        }
        printf(" |"); pv(S0, nv); printf(" |"); pv(P0, nv); printf(" |"); pv(Sp, nv * nv); printf(" |"); pv(Sm, nv * nv);
        printf(" |"); pv(Pp, nv * nv); printf(" |"); pv(Pm, nv * nv);
        memset(Md, 0, sizeof(mjtNum) * nv * nv);
        if (integ == mjINT_IMPLICIT || integ == mjINT_IMPLICITFAST)
          for (int k = 0; k < nv; k++) for (int e = m->D_rowadr[k]; e < m->D_rowadr[k] + m->D_rownnz[k]; e++) Md[k * nv + m->D_colind[e]] = d->qDeriv[e];
        printf(" |"); pv(Md, nv * nv);
        printf(" | %d", d->warning[mjWARN_BADQPOS].number + d->warning[mjWARN_BADQVEL].number + d->warning[mjWARN_BADQACC].number);
        // input facts used to classify the recorded finding C05-F1 (not outputs of the code under test)
        printf(" |"); for (int k = 0; k < nv; k++) printf(" 0");
        // sparsity pattern of qDeriv
        printf(" |");
        for (int k = 0; k < nv; k++) { printf(" "); for (int i = 0; i < nv; i++) { int in = 0; for (int e = m->D_rowadr[k]; e < m->D_rowadr[k] + m->D_rownnz[k]; e++) if (m->D_colind[e] == i) in = 1; putchar(in ? '1' : '0'); } }
        // B: dof sets of fixed tendons that carry a velocity-dependent force (damping, or an actuator on the tendon)
        printf(" |");
        for (int t = 0; t < m->ntendon; t++) {
          int vd = m->tendon_damping[t] != 0;
          for (int i = 0; i < m->nactuator; i++) if (m->actuator_trntype[i] == mjTRN_TENDON && m->actuator_trnid[2 * i] == t) vd = 1;
          if (!vd) continue;
          printf(" ;");
          for (int wv = m->tendon_adr[t]; wv < m->tendon_adr[t] + m->tendon_num[t]; wv++) if (m->wrap_type[wv] == mjWRAP_JOINT) printf(" %d", m->jnt_dofadr[m->wrap_objid[wv]]);
        }
        // damper force of each dof at qvel[i] +- eps (Euler: implicit joint damping), and the flags
        printf(" |"); pv(B0, nv); printf(" |"); pv(Bp, nv); printf(" |"); pv(Bm, nv); printf(" | %d", m->opt.disableflags);
        free(Md); free(v0);
        MJG_END;
      } else err = 1;
      printf("%s\n", err ? " ERR" : "");
      free(buf); mj_deleteData(d); mj_deleteData(w); mj_deleteModel(m);
    } else if (op == 'V') {
      // V pre cl clo chi fl flo fhi g0 g1 g2 b0 b1 b2 q v ctrl : one hinge, optional 3-input PID actuator (zero gains, zero inputs)
      // in front of an affine-gain / affine-bias actuator -> actuator_force, qDeriv (mjd_smooth_vel, no bias), length, nu
      int pre = (int)strtol(p, &p, 10), cl = (int)strtol(p, &p, 10);
      double clo = from_bits(strtoull(p, &p, 16)), chi = from_bits(strtoull(p, &p, 16));
      int fl = (int)strtol(p, &p, 10);
      double a[12]; for (int i = 0; i < 11; i++) a[i] = from_bits(strtoull(p, &p, 16));
      mjSpec* s = mj_makeSpec();
      s->option.gravity[0] = s->option.gravity[1] = s->option.gravity[2] = 0; s->option.integrator = mjINT_IMPLICITFAST;
      mjsBody* b = mjs_addBody(mjs_findBody(s, "world"), NULL);
      mjsJoint* j = mjs_addJoint(b, NULL); j->type = mjJNT_HINGE; j->axis[0] = 0; j->axis[1] = 1; j->axis[2] = 0; mjs_setName(j->element, "h");
      mjsGeom* g = mjs_addGeom(b, NULL); g->type = mjGEOM_SPHERE; g->size[0] = 0.05; g->pos[0] = 0.3;
      if (pre) { mjsActuator* pa = mjs_addActuator(s, NULL); pa->trntype = mjTRN_JOINT; mjs_setString(pa->target, "h"); double z = 0;
                 mjs_setToPID(pa, 0, &z, NULL, NULL, NULL, NULL, 0, mjINPUT_POS | mjINPUT_VEL | mjINPUT_FF); }
      mjsActuator* ac = mjs_addActuator(s, NULL); ac->trntype = mjTRN_JOINT; mjs_setString(ac->target, "h");
      ac->gaintype = mjGAIN_AFFINE; ac->gainprm[0] = a[2]; ac->gainprm[1] = a[3]; ac->gainprm[2] = a[4];
      ac->biastype = mjBIAS_AFFINE; ac->biasprm[0] = a[5]; ac->biasprm[1] = a[6]; ac->biasprm[2] = a[7];
      ac->ctrllimited = cl ? mjLIMITED_TRUE : mjLIMITED_FALSE; ac->ctrlrange[0] = clo; ac->ctrlrange[1] = chi;
      ac->forcelimited = fl ? mjLIMITED_TRUE : mjLIMITED_FALSE; ac->forcerange[0] = a[0]; ac->forcerange[1] = a[1];
      mjModel* m = mj_compile(s, NULL);
      if (!m) { printf("ERR compile %s\n", mjs_getError(s)); mj_deleteSpec(s); fflush(stdout); continue; }
      mjData* d = mj_makeData(m);
      int ai = m->nactuator - 1;
      d->qpos[0] = a[8]; d->qvel[0] = a[9]; d->ctrl[m->actuator_ctrladr[ai]] = a[10];
      mj_forward(m, d);
      mjd_smooth_vel(m, d, 0);
      mjtNum len = d->actuator_length[m->actuator_outadr[ai]];
      pv(d->actuator_force + m->actuator_outadr[ai], 1); pv(d->qDeriv, 1); pv(&len, 1); printf(" %d %d\n", m->nu, m->nactuator);
      mj_deleteData(d); mj_deleteModel(m); mj_deleteSpec(s);
    } else if (op == 'R') {
      double a[6]; for (int i = 0; i < 6; i++) a[i] = from_bits(strtoull(p, &p, 16));
      int integ = (int)strtol(p, &p, 10);
      for (int i = 0; i < 3; i++) cb_c[i] = from_bits(strtoull(p, &p, 16));     // absent: 0
      mjSpec* s = mj_makeSpec();
      s->option.timestep = a[3]; s->option.gravity[0] = s->option.gravity[1] = s->option.gravity[2] = 0;
      s->option.integrator = integ; s->option.disableflags |= mjDSBL_EULERDAMP;
      mjsBody* b = mjs_addBody(mjs_findBody(s, "world"), NULL);
      mjsJoint* j = mjs_addJoint(b, NULL); j->type = mjJNT_SLIDE; j->axis[0] = 1; j->axis[1] = 0; j->axis[2] = 0;
      j->stiffness[0] = a[0]; j->damping[0] = a[1]; mjs_setName(j->element, "s");
      { mjsActuator* ac = mjs_addActuator(s, NULL); ac->trntype = mjTRN_JOINT; mjs_setString(ac->target, "s"); mjs_setToMotor(ac); }
      mjsGeom* g = mjs_addGeom(b, NULL); g->type = mjGEOM_SPHERE; g->size[0] = 0.1; g->mass = a[2]; g->contype = 0; g->conaffinity = 0;
      mjModel* m = mj_compile(s, NULL);
      if (!m) { printf("ERR compile %s\n", mjs_getError(s)); mj_deleteSpec(s); fflush(stdout); continue; }
      mjData* d = mj_makeData(m);
      d->qpos[0] = a[4]; d->qvel[0] = a[5]; d->time = 0.25;
      mjcb_control = time_ctrl_cb;
      mj_step(m, d);
      mjcb_control = NULL;
      pv(d->qpos, 1); pv(d->qvel, 1); pv(&d->time, 1); pv(m->body_mass + 1, 1); printf("\n");
      mj_deleteData(d); mj_deleteModel(m); mj_deleteSpec(s);
    } else {
      printf("ERR op\n");
    }
    fflush(stdout);
  }
  return 0;
}
