// c33_shim.h -- adds a controlled-scheduler std::condition_variable to the C03 shim (shim_atomic.h) so
// that the unmodified src/user/user_threadpool.cc can be compiled against it: std::thread, std::mutex
// come from shim_atomic.h; std::condition_variable is verif::CondVar below.  Semantics: exactly one
// logical thread runs at a time (baton); wait(lock, pred) re-checks pred, and when it is false it
// releases the mutex and parks the thread on this condition variable's waiter list in one atomic
// step; notify_one wakes ONE parked waiter chosen by the seeded scheduler (so a lost wake-up shows
// up as DEADLOCK), notify_all wakes all.  No spurious wake-ups.  Events logged: "cw" (parked),
// "n1"/"nA" (notify, a = condvar id, b = number of waiters woken).
#ifndef VERIF_C33_SHIM_H_
#define VERIF_C33_SHIM_H_

#include <cstdint>
#include <deque>
#include <functional>
#include <queue>
#include <vector>

#include "shim_atomic.h"

namespace verif {

class CondVar {
 public:
  CondVar() noexcept : id_(S().new_obj()) {}
  CondVar(const CondVar&) = delete;

  template <class Lock, class Pred>
  void wait(Lock& lk, Pred pred) {
    while (!pred()) {
      int flag = 0;
      lk.unlock();                       // scheduling point, then releases the mutex
      {
        std::unique_lock<decltype(S().mu)> g(S().mu);
        waiters_.push_back(&flag);
        S().log("cw", id_);
      }
      int* pf = &flag;
      S().block_until([pf] { return *pf != 0; });
      lk.lock();
    }
  }
  template <class Lock>
  void wait(Lock& lk) {
    int flag = 0;
    lk.unlock();
    {
      std::unique_lock<decltype(S().mu)> g(S().mu);
      waiters_.push_back(&flag);
      S().log("cw", id_);
    }
    int* pf = &flag;
    S().block_until([pf] { return *pf != 0; });
    lk.lock();
  }
  void notify_one() noexcept {
    S().point();
    std::unique_lock<decltype(S().mu)> g(S().mu);
    long woken = 0;
    if (!waiters_.empty()) {
      size_t k = (size_t)(S().rnd() % waiters_.size());
      *waiters_[k] = 1;
      waiters_.erase(waiters_.begin() + k);
      woken = 1;
    }
    S().log("n1", id_, woken);
  }
  void notify_all() noexcept {
    S().point();
    std::unique_lock<decltype(S().mu)> g(S().mu);
    long woken = (long)waiters_.size();
    for (int* f : waiters_) *f = 1;
    waiters_.clear();
    S().log("nA", id_, woken);
  }
  long verif_id() const { return id_; }

 private:
  long id_;
  std::vector<int*> waiters_;
};

}  // namespace verif

namespace std {
using verif_condition_variable = ::verif::CondVar;
}
#define condition_variable verif_condition_variable

#endif  // VERIF_C33_SHIM_H_
