// C20 driver (whole step): simulates the scene with spec->memory swept over the sizes read from
// stdin, each size in a child process, with guard zones around every mju_malloc'ed buffer (so also
// around the arena), mju_error intercepted, and mj_arenaAllocByte wrapped at link time
// (-Wl,--wrap=mj_arenaAllocByte) to record failed allocations.
//
// argv: nbody nlink cone islands cluster nsteps [post]   (post = 1: the model is compiled with the default memory and
//       m->narena is set to the swept size afterwards, as for a model loaded from a binary file)
// stdin: memory sizes (bytes; -1 = compiler default)
// stdout per size, one line:
//   M <memory> C                      model does not compile with this memory (message on the next line)
//   M <memory> D                      mj_makeData raised mju_error
//   M <memory> R <steps done> <err 0|1> <ncon> <nefc> <nisland> <parena> <pstack> <pbase> <wcon> <wcnstr>
//        <bad mask> <guard damage> <arena allocs> <failed allocs> <last failed bytes> <last failed align> <narena>
//        <allocations violating the per-allocation oracle of c20_wrap.h> <first: kind bytes align offset parena pstack>
//   M <memory> X <signal> <fault address> <failed allocs> <last failed bytes> <last failed align>
// bad mask bits: 1 stack not restored, 2 parena out of range, 4 contact != arena, 8 efc pointer
// NULL/non-NULL mix or outside the arena, 16 efc_address out of range, 32 nefc > 0 with NULL arrays,
// 64 maxuse_arena > narena
#include <inttypes.h>
#include <setjmp.h>
#include <signal.h>
#include <stdint.h>
#include <stdio.h>
#include <stdlib.h>
#include <string.h>
#include <sys/mman.h>
#include <sys/types.h>
#include <sys/wait.h>
#include <unistd.h>
#include <mujoco/mujoco.h>
#include <mujoco/mjxmacro.h>
#include "c19_scene.h"

static jmp_buf jb;
static char lasterr[300];
static void on_error(const char* msg) { snprintf(lasterr, sizeof(lasterr), "%s", msg); longjmp(jb, 1); }
static void on_warning(const char* msg) { (void)msg; }

// ---- guarded allocator
#define GZ 256
#define MAXA 4096
static struct { unsigned char* raw; size_t n; } allocs[MAXA];
static int nallocs;
static void* g_malloc(size_t n) {
  unsigned char* raw = NULL;
  size_t tot = ((n + 63) / 64) * 64 + 2 * GZ;
  if (posix_memalign((void**)&raw, 64, tot)) return NULL;
  memset(raw, 0xC7, tot);
  if (nallocs < MAXA) { allocs[nallocs].raw = raw; allocs[nallocs].n = n; nallocs++; }
  return raw + GZ;
}
static void g_free(void* p) {
  if (!p) return;
  unsigned char* raw = (unsigned char*)p - GZ;
  for (int i = 0; i < nallocs; i++) if (allocs[i].raw == raw) { allocs[i] = allocs[nallocs - 1]; nallocs--; break; }
  free(raw);
}
static long guard_damage(void) {
  long bad = 0;
  for (int i = 0; i < nallocs; i++) {
    unsigned char* raw = allocs[i].raw; size_t n = allocs[i].n;
    size_t tot = ((n + 63) / 64) * 64 + 2 * GZ;
    for (size_t k = 0; k < GZ; k++) bad += raw[k] != 0xC7;
    for (size_t k = GZ + n; k < tot; k++) bad += raw[k] != 0xC7;
  }
  return bad;
}

#include "c20_wrap.h"
#define n_alloc w_nalloc
#define n_failed w_nfailed
#define last_bytes w_lastb
#define last_align w_lasta

static long long cur_memory;
static volatile long* shared_done;   // number of memory sizes finished (shared with the parent)
static void on_segv(int sig, siginfo_t* si, void* u) {
  (void)u;
  char buf[200];
  int n = snprintf(buf, sizeof(buf), "M %lld X %d %" PRIuPTR " %ld %zu %zu %ld %lld %lld %lld %lld %lld %lld\n", cur_memory, sig, (uintptr_t)si->si_addr,
                   (long)n_failed, (size_t)last_bytes, (size_t)last_align, (long)w_nviol, w_first[0], w_first[1], w_first[2], w_first[3], w_first[4], w_first[5]);
  if (write(1, buf, n) < 0) _exit(5);
  (*shared_done)++;
  _exit(0);
}

static int check(const mjModel* m, const mjData* d) {
  int bad = 0;
  uintptr_t a = (uintptr_t)d->arena;
  size_t csz = sizeof(mjContact);
  if (d->pstack != 0 || d->pbase != 0) bad |= 1;
  if (d->parena < (size_t)d->ncon * csz || d->parena + d->pstack > (size_t)d->narena) bad |= 2;
  if ((void*)d->contact != d->arena) bad |= 4;
  if ((long long)d->maxuse_arena > (long long)d->narena) bad |= 64;
  int nnull = 0, nset = 0;
#undef MJ_M
#define MJ_M(n) m->n
#undef MJ_D
#define MJ_D(n) d->n
#define X(type, name, nr, nc) \
  if (!d->name) nnull++; else { nset++; \
    uintptr_t p = (uintptr_t)d->name; size_t sz = sizeof(type) * (size_t)(nr) * (size_t)(nc); \
    if (p < a + (size_t)d->ncon * csz || p + sz > a + d->parena) bad |= 8; }
  MJDATA_ARENA_POINTERS_SOLVER
#undef X
#undef MJ_M
#define MJ_M(n) n
#undef MJ_D
#define MJ_D(n) n
  if (nnull && nset) bad |= 8;
  if (d->nefc > 0 && nnull) bad |= 32;
  for (int i = 0; i < d->ncon; i++) {
    int ea = d->contact[i].efc_address;
    if (ea < -1 || ea >= (d->nefc > 0 ? d->nefc : 1)) bad |= 16;
  }
  return bad;
}

static mjModel* gmodel;
static int one(int argc, char** argv, long long memory) {
  cur_memory = memory;
  w_nalloc = w_nfailed = w_nstack = w_nviol = 0; w_lastb = w_lasta = 0;
  lasterr[0] = 0;
  char err[400] = "";
  struct sigaction sa; memset(&sa, 0, sizeof(sa));
  sa.sa_sigaction = on_segv; sa.sa_flags = SA_SIGINFO;
  sigaction(SIGSEGV, &sa, NULL); sigaction(SIGBUS, &sa, NULL);
  int post = argc > 7 ? atoi(argv[7]) : 0;   // 1: compile with the default memory, then m->narena = memory
  // in post mode the model was compiled once by the parent (gmodel); the child owns a copy-on-write copy
  mjModel* m = post ? gmodel : verif_scene(atoi(argv[1]), atoi(argv[2]), memory, atoi(argv[3]), atoi(argv[4]), atoi(argv[5]), err, sizeof(err));
  if (m && post && memory >= 0) m->narena = (mjtSize)memory;
  if (!m) { for (char* q = err; *q; q++) if (*q == 10) *q = 32; printf("M %lld C %.200s\n", memory, err); return 0; }
  mjData* volatile d = NULL;
  if (setjmp(jb) == 0) d = mj_makeData(m); else { for (char* q = lasterr; *q; q++) if (*q == 10) *q = 32; printf("M %lld D %.200s\n", memory, lasterr); return 0; }
  if (!d) { printf("M %lld D null\n", memory); return 0; }
  int nsteps = atoi(argv[6]);
  volatile int done = 0, errd = 0;
  int bad = 0;
  for (int s = 0; s < nsteps; s++) {
    if (setjmp(jb) == 0) { mj_step(m, d); done++; bad |= check(m, d); }
    else { errd = 1; break; }
  }
  printf("M %lld R %d %d %d %d %d %zu %zu %zu %d %d %d %ld %ld %ld %zu %zu %lld %ld %lld %lld %lld %lld %lld %lld\n", memory, done, errd, d->ncon, d->nefc, d->nisland,
         d->parena, d->pstack, d->pbase, d->warning[mjWARN_CONTACTFULL].number, d->warning[mjWARN_CNSTRFULL].number,
         bad, guard_damage(), (long)n_alloc, (long)n_failed, (size_t)last_bytes, (size_t)last_align, (long long)d->narena,
         (long)w_nviol, w_first[0], w_first[1], w_first[2], w_first[3], w_first[4], w_first[5]);
  mj_deleteData(d);
  if (!post) mj_deleteModel(m);
  return 0;
}

int main(int argc, char** argv) {
  if (argc < 7) return 2;
  mju_user_error = on_error;
  mju_user_warning = on_warning;
  mju_user_malloc = g_malloc;
  mju_user_free = g_free;
  if (argc > 7 && atoi(argv[7])) {
    char err[400] = "";
    gmodel = verif_scene(atoi(argv[1]), atoi(argv[2]), -1, atoi(argv[3]), atoi(argv[4]), atoi(argv[5]), err, sizeof(err));
    if (!gmodel) { fprintf(stderr, "compile: %s\n", err); return 2; }
  }
  // memory sizes are processed in batches of up to BATCH per child process (forking is slow on a loaded machine);
  // the child counts finished sizes in shared memory, so that after a crash the parent resumes behind the crashed size
  shared_done = mmap(NULL, sizeof(long), PROT_READ | PROT_WRITE, MAP_SHARED | MAP_ANONYMOUS, -1, 0);
  if (shared_done == MAP_FAILED) return 2;
  static long long sizes[1 << 20]; long n = 0;
  while (n < (1 << 20) && scanf("%lld", &sizes[n]) == 1) n++;
  *shared_done = 0;
  while (*shared_done < n) {
    long first = *shared_done;
    fflush(stdout);
    pid_t pid = fork();
    if (pid < 0) return 2;
    if (pid == 0) {
      for (long i = first; i < n && i < first + 64; i++) {
        int rc = one(argc, argv, sizes[i]);
        fflush(stdout);
        if (rc) _exit(rc);
        (*shared_done)++;
      }
      _exit(0);
    }
    int status = 0;
    waitpid(pid, &status, 0);
    if (WIFSIGNALED(status)) { printf("M %lld X %d 0 -1 0 0 0 0 0 0 0 0 0\n", sizes[*shared_done], WTERMSIG(status)); (*shared_done)++; }
    else if (WEXITSTATUS(status)) return WEXITSTATUS(status);
  }
  return 0;
}
