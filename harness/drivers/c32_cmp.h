// c32_cmp.h — field-by-field comparison of two compiled mjModel (every MJMODEL_POINTERS array, every
// MJMODEL_SIZES field, mjOption, mjVisual, mjStatistic).  Owned by C32.
// mode 0: bit-exact (names/paths/text compared as bytes);  mode 1: numeric arrays compared to a
// relative tolerance rtol (printed precision) — integers, bytes and chars always exactly.
#ifndef VERIF_C32_CMP_H_
#define VERIF_C32_CMP_H_
#include <cmath>
#include <cstdio>
#include <cstring>
#include <string>
#include <type_traits>
#include <vector>
#include <mujoco/mujoco.h>
#include <mujoco/mjxmacro.h>

struct C32Diff { std::string field; long idx; long n; double a, b; long count; double maxs; };  // maxs: max |a-b|/max(1,|a|,|b|) over the array (inf for NaN mismatch)

struct C32Cmp {
  int mode = 0; double rtol = 0, atol = 0;
  // limited-precision mode only: position-like quantities are sums of printed inputs (frame offset +
  // rotated local position, re-centring of an aligned free body, ...), so their error is bounded by the
  // printed precision times the model's LENGTH SCALE, not times their own magnitude: atol_pos =
  // rtol * max |position/size input|.  nabs counts the comparisons decided by this absolute bound.
  double atol_pos = 0; long nabs = 0; bool cur_pos = false;
  std::vector<char> qmask;       // per qpos coordinate: 1 = translation of a free joint
  const std::vector<char>* cur_mask = nullptr; long cur_i = 0;
  std::vector<C32Diff> diffs;
  static bool poslike(const char* f) {
    static const char* names[] = {"body_pos", "body_ipos", "geom_pos", "site_pos", "cam_pos", "light_pos", "jnt_pos", "cam_pos0", "cam_poscom0",
                                  "light_pos0", "light_poscom0", "stat.center", "key_mpos", "geom_aabb", "bvh_aabb", nullptr};
    for (int i = 0; names[i]; i++) if (!std::strcmp(f, names[i])) return true;
    return false;
  }
  static bool qposlike(const char* f) { return !std::strcmp(f, "qpos0") || !std::strcmp(f, "qpos_spring") || !std::strcmp(f, "key_qpos"); }
  template <class T> bool same(T a, T b) const {
    if (!std::memcmp(&a, &b, sizeof(T))) return true;
    if constexpr (std::is_floating_point_v<T>) {
      if (a == b) return true;                 // -0 and +0 are the same number (the writer prints "0" for both)
      if (mode == 0) return false;
      if (std::isnan(a) || std::isnan(b)) return std::isnan(a) && std::isnan(b);
      double d = std::fabs((double)a - (double)b), s = std::fmax(std::fabs((double)a), std::fabs((double)b));
      if (d <= rtol * s + atol) return true;
      bool pos = cur_pos || (cur_mask && !cur_mask->empty() && (*cur_mask)[(size_t)cur_i % cur_mask->size()]);
      if (pos && d <= atol_pos) { const_cast<C32Cmp*>(this)->nabs++; return true; }
      return false;
    }
    return false;
  }
  template <class T> void arr(const char* name, const T* a, const T* b, long n) {
    long cnt = 0, first = -1; double maxs = 0;
    if (!a || !b) { if (n > 0 && (a != nullptr) != (b != nullptr)) diffs.push_back({name, -1, n, 0, 0, 1, INFINITY}); return; }
    cur_pos = mode == 1 && poslike(name);
    cur_mask = (mode == 1 && qposlike(name)) ? &qmask : nullptr;
    for (long i = 0; i < n; i++) if ((cur_i = i, !same(a[i], b[i]))) {
      if (first < 0) first = i;
      cnt++;
      double x = (double)a[i], y = (double)b[i];
      double sc = std::fabs(x - y) / std::fmax(1.0, std::fmax(std::fabs(x), std::fabs(y)));
      if (!(sc <= maxs)) maxs = std::isnan(sc) ? INFINITY : sc;
    }
    if (cnt) diffs.push_back({name, first, n, (double)a[first], (double)b[first], cnt, maxs});
  }
  void size(const char* name, long long a, long long b) { if (a != b) diffs.push_back({name, 0, 1, (double)a, (double)b, 1, INFINITY}); }
};

// Components that the compiler copies from the spec but that have no meaning for the element and are
// not part of MJCF for it: size components beyond the arity of a sphere/capsule/cylinder geom or site,
// eq_objtype of joint/tendon/flex equalities.  They are zeroed in both models before the comparison;
// the number of such differences is returned (reported as "don't care", never as a violation).
static inline long c32_normalize_dontcare(mjModel* m1, mjModel* m2) {
  static const int info[8] = {3, 0, 1, 2, 3, 2, 3, 0};
  long n = 0;
  if (m1->ngeom == m2->ngeom)
    for (int i = 0; i < m1->ngeom; i++) {
      int t = m1->geom_type[i];
      if (t != m2->geom_type[i] || !(t == mjGEOM_SPHERE || t == mjGEOM_CAPSULE || t == mjGEOM_CYLINDER)) continue;
      for (int k = info[t]; k < 3; k++) { if (m1->geom_size[3*i+k] != m2->geom_size[3*i+k]) n++; m1->geom_size[3*i+k] = m2->geom_size[3*i+k] = 0; }
    }
  if (m1->nsite == m2->nsite)
    for (int i = 0; i < m1->nsite; i++) {
      int t = m1->site_type[i];
      if (t != m2->site_type[i] || !(t == mjGEOM_SPHERE || t == mjGEOM_CAPSULE || t == mjGEOM_CYLINDER)) continue;
      for (int k = info[t]; k < 3; k++) { if (m1->site_size[3*i+k] != m2->site_size[3*i+k]) n++; m1->site_size[3*i+k] = m2->site_size[3*i+k] = 0; }
    }
  if (m1->neq == m2->neq)
    for (int i = 0; i < m1->neq; i++) {
      int t = m1->eq_type[i];
      if (t != m2->eq_type[i] || t == mjEQ_CONNECT || t == mjEQ_WELD) continue;
      if (m1->eq_objtype[i] != m2->eq_objtype[i]) n++;
      m1->eq_objtype[i] = m2->eq_objtype[i] = 0;
    }
  return n;
}

// length scale of the model: largest magnitude among the position and size inputs
static inline double c32_length_scale(const mjModel* m) {
  double L = 0;
  auto acc = [&](const mjtNum* v, long n) { for (long i = 0; i < n; i++) if (std::isfinite(v[i]) && std::fabs(v[i]) > L) L = std::fabs(v[i]); };
  acc(m->body_pos, 3L * m->nbody); acc(m->body_ipos, 3L * m->nbody); acc(m->geom_pos, 3L * m->ngeom); acc(m->geom_size, 3L * m->ngeom);
  acc(m->site_pos, 3L * m->nsite); acc(m->cam_pos, 3L * m->ncam); acc(m->light_pos, 3L * m->nlight); acc(m->jnt_pos, 3L * m->njnt);
  for (long i = 0; i < 3L * m->nmeshvert; i++) if (std::fabs((double)m->mesh_vert[i]) > L) L = std::fabs((double)m->mesh_vert[i]);
  return L;
}
static inline void c32_free_translation_mask(const mjModel* m, std::vector<char>& mask) {
  mask.assign((size_t)m->nq, 0);
  for (int j = 0; j < m->njnt; j++) if (m->jnt_type[j] == mjJNT_FREE) for (int k = 0; k < 3; k++) mask[(size_t)m->jnt_qposadr[j] + k] = 1;
}

// returns true when all sizes agree (arrays are only compared then)
static inline bool c32_compare(const mjModel* m1, const mjModel* m2, C32Cmp& c) {
  bool sizes_ok = true;
#define X(name) if (m1->name != m2->name) { c.size(#name, (long long)m1->name, (long long)m2->name); sizes_ok = false; }
  MJMODEL_SIZES
#undef X
  // option / visual / statistic
#define X(type, name, n) c.arr("opt." #name, (const type*)&m1->opt.name, (const type*)&m2->opt.name, n);
#define XVEC(type, name, n) c.arr("opt." #name, (const type*)m1->opt.name, (const type*)m2->opt.name, n);
  MJOPTION_FIELDS
#undef X
#undef XVEC
#define X(name, n) c.arr("stat." #name, (const mjtNum*)&m1->stat.name, (const mjtNum*)&m2->stat.name, n);
#define XVEC(name, n) c.arr("stat." #name, (const mjtNum*)m1->stat.name, (const mjtNum*)m2->stat.name, n);
  MJSTATISTIC_FIELDS
#undef X
#undef XVEC
#define X(type, name, n) c.arr("vis.global." #name, (const type*)&m1->vis.global.name, (const type*)&m2->vis.global.name, n);
  MJVISUAL_GLOBAL_FIELDS
#undef X
#define X(type, name, n) c.arr("vis.quality." #name, (const type*)&m1->vis.quality.name, (const type*)&m2->vis.quality.name, n);
  MJVISUAL_QUALITY_FIELDS
#undef X
#define X(type, name, n) c.arr("vis.headlight." #name, (const type*)&m1->vis.headlight.name, (const type*)&m2->vis.headlight.name, n);
#define XVEC(type, name, n) c.arr("vis.headlight." #name, (const type*)m1->vis.headlight.name, (const type*)m2->vis.headlight.name, n);
  MJVISUAL_HEADLIGHT_FIELDS
#undef X
#undef XVEC
#define X(type, name, n) c.arr("vis.map." #name, (const type*)&m1->vis.map.name, (const type*)&m2->vis.map.name, n);
  MJVISUAL_MAP_FIELDS
#undef X
#define X(type, name, n) c.arr("vis.scale." #name, (const type*)&m1->vis.scale.name, (const type*)&m2->vis.scale.name, n);
  MJVISUAL_SCALE_FIELDS
#undef X
#define XVEC(type, name, n) c.arr("vis.rgba." #name, (const type*)m1->vis.rgba.name, (const type*)m2->vis.rgba.name, n);
  MJVISUAL_RGBA_FIELDS
#undef XVEC
  if (!sizes_ok) return false;
  {
    const mjModel* m = m1;
    MJMODEL_POINTERS_PREAMBLE(m)
    (void)nuser_body; (void)nuser_jnt; (void)nuser_geom; (void)nuser_site; (void)nuser_cam; (void)nuser_tendon;
    (void)nuser_actuator; (void)nuser_sensor; (void)nq; (void)nv; (void)na; (void)nu; (void)nmocap;
#undef MJ_M
#define MJ_M(n) m->n
#define X(type, name, nr, nc) c.arr(#name, (const type*)m1->name, (const type*)m2->name, (long)(m->nr) * (long)(nc));
    MJMODEL_POINTERS
#undef X
#undef MJ_M
#define MJ_M(n) n
  }
  return true;
}
#endif
