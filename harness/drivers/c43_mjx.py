"""C43 MJX driver: numeric kernels and the whole pipeline of the working tree's MJX (float64, CPU).
argv: <repo> ; stdin: one JSON request {"jobs": [...]} ; stdout: one JSON reply {"jobs": [...]}.

jobs (all floats travel as python floats through JSON, which round-trips binary64 exactly with repr):
  {"op":"cu", "cone":0|1, "impratio":x, "ne":..,"nf":..,"D":[..],"fl":[..],"con":[{"dim":d,"fr":[5],"adr":a}], "jars":[[..]..]}
      -> solver.Context.create on a Data whose efc arrays are the given ones (efc_J = 0, efc_aref = -jar, qacc = 0,
         so Jaref = jar and the Gauss term is 0): {"cost":[..], "force":[[..]], "active":[[..]], "h":[[[..6x6 per contact]]]}
  {"op":"prim", "pair":name, "cases":[[pos1 3, mat1 9, size1 3, pos2 3, mat2 9, size2 3] ..]}
      -> collision_primitive.<pair> through its collider wrapper: {"out":[[dist, pos3, frame9]*ncon per case]}
  {"op":"euler", "types":[..], "h":h, "cases":[[qpos.., qvel.., qacc.., time]]}
      -> forward._advance on a model with that joint layout: {"out":[[qpos'.., qvel'.., time']]}
  {"op":"act", "acts":[[dyntype, prm0, limited, lo, hi]..], "h":h, "cases":[[act.., act_dot..]]}
      -> forward._next_activation: {"out":[[act'..]]}
  {"op":"pipeline", "xml":..., "states":[{"qpos":..,"qvel":..,"ctrl":..}], "fields":[..]}
      -> put_model / forward / step: model arrays, per state the requested Data fields after forward, contacts,
         efc arrays, and qpos/qvel after step; {"notimpl": msg} when put_model raises NotImplementedError."""
import json, os, sys, traceback

sys.path.insert(0, os.path.dirname(os.path.abspath(__file__)))
import c44_mjxenv

repo = sys.argv[1]
jax, mujoco, mjx = c44_mjxenv.load(repo)
import numpy as np
import jax.numpy as jp
from mujoco.mjx._src import solver, forward as fwd, collision_primitive as cp, types as T, support

F64 = np.float64


def lst(x):
    return np.asarray(x, dtype=F64).reshape(-1).tolist()


# ------------------------------------------------------------------------------------------------- cu
_CU_BASE = {}


def cu_base():
    if not _CU_BASE:
        m = mujoco.MjModel.from_xml_string(
            '<mujoco><worldbody><body><joint type="hinge" frictionloss="0.1"/><geom size="0.1"/></body></worldbody></mujoco>')
        _CU_BASE["m"] = m
        _CU_BASE["mx"] = mjx.put_model(m)
        _CU_BASE["dx"] = mjx.make_data(m)
    return _CU_BASE["m"], _CU_BASE["mx"], _CU_BASE["dx"]


def job_cu(j):
    m, mx, dx = cu_base()
    cone = T.ConeType.ELLIPTIC if j["cone"] else T.ConeType.PYRAMIDAL
    mx = mx.replace(opt=mx.opt.replace(cone=cone, impratio=jp.asarray(j["impratio"], dtype=F64), solver=T.SolverType.NEWTON))
    D, fl = np.array(j["D"], F64), np.array(j["fl"], F64)
    nefc = D.size
    con = j["con"]
    ncon = len(con)
    contact = T.Contact(
        dist=jp.zeros((ncon,)), pos=jp.zeros((ncon, 3)), frame=jp.zeros((ncon, 3, 3)), includemargin=jp.zeros((ncon,)),
        friction=jp.asarray(np.array([c["fr"] for c in con], F64).reshape(ncon, 5)),
        solref=jp.zeros((ncon, 2)), solreffriction=jp.zeros((ncon, 2)), solimp=jp.zeros((ncon, 5)),
        dim=np.array([c["dim"] for c in con], np.int32), geom1=jp.zeros((ncon,), int), geom2=jp.zeros((ncon,), int),
        geom=jp.zeros((ncon, 2), int), efc_address=np.array([c["adr"] for c in con], np.int64))
    nv = m.nv

    def one(jar):
        impl = dx._impl.replace(ne=j["ne"], nf=j["nf"], nl=0, nefc=nefc, ncon=ncon, contact=contact,
                                efc_J=jp.zeros((nefc, nv)), efc_aref=-jar, efc_D=jp.asarray(D), efc_frictionloss=jp.asarray(fl),
                                efc_force=jp.zeros(nefc), efc_pos=jp.zeros(nefc), efc_margin=jp.zeros(nefc),
                                efc_type=np.zeros(nefc, np.int32))
        d = dx.replace(_impl=impl, qacc=jp.zeros(nv), qacc_smooth=jp.zeros(nv), qfrc_smooth=jp.zeros(nv))
        ctx = solver.Context.create(mx, d, grad=False)
        h = ctx.h if (j["cone"] and ncon) else jp.zeros((0, 6, 6))
        return ctx.cost, ctx.efc_force, ctx.active, h

    jars = jp.asarray(np.array(j["jars"], F64).reshape(len(j["jars"]), nefc))
    cost, force, active, h = jax.jit(jax.vmap(one))(jars)
    return {"cost": lst(cost), "force": np.asarray(force, F64).tolist(), "active": np.asarray(active).astype(int).tolist(),
            "h": (np.asarray(h, F64).reshape(len(j["jars"]), ncon, 36).tolist() if (j["cone"] and ncon) else [[] for _ in j["jars"]])}


# ------------------------------------------------------------------------------------------------- prim
class NS:
    pass


def job_prim(j):
    fn = getattr(cp, j["pair"])
    a = np.array(j["cases"], F64).reshape(len(j["cases"]), 30)
    n = a.shape[0]
    m, d = NS(), NS()
    d.geom_xpos = jp.asarray(np.stack([a[:, 0:3], a[:, 15:18]], 1).reshape(2 * n, 3))
    d.geom_xmat = jp.asarray(np.stack([a[:, 3:12], a[:, 18:27]], 1).reshape(2 * n, 3, 3))
    m.geom_size = jp.asarray(np.stack([a[:, 12:15], a[:, 27:30]], 1).reshape(2 * n, 3))
    geom = jp.asarray(np.arange(2 * n).reshape(n, 2))
    dist, pos, frame = jax.jit(lambda mm, dd, g: fn(NSW(mm), NSW(dd), None, g))(vars(m), vars(d), geom)
    k = fn.ncon
    dist, pos, frame = np.asarray(dist, F64).reshape(n, k), np.asarray(pos, F64).reshape(n, k, 3), np.asarray(frame, F64).reshape(n, k, 9)
    return {"ncon": k, "out": [[[float(dist[i, c])] + pos[i, c].tolist() + frame[i, c].tolist() for c in range(k)] for i in range(n)]}


class NSW:
    """attribute view of a dict (so that the dict can cross jax.jit as a pytree)"""

    def __init__(self, dct):
        self.__dict__.update(dct)


# ------------------------------------------------------------------------------------------------- euler / act
JN = {0: "free", 1: "ball", 2: "slide", 3: "hinge"}


def joints_xml(types):
    bodies = []
    for k, t in enumerate(types):
        jt = "<freejoint/>" if t == 0 else '<joint type="%s" axis="0 0 1"/>' % JN[t]
        bodies.append('<body pos="%d 0 0">%s<geom size="0.1"/></body>' % (k, jt))
    return '<mujoco><option timestep="0.002"/><worldbody>%s</worldbody></mujoco>' % "".join(bodies)


def job_euler(j):
    types = j["types"]
    m = mujoco.MjModel.from_xml_string(joints_xml(types))
    if list(m.jnt_type) != list(types):
        raise RuntimeError("joint layout of the MJCF model differs from the request")
    mx, dx = mjx.put_model(m), mjx.make_data(m)
    nq, nv = m.nq, m.nv
    a = np.array(j["cases"], F64).reshape(len(j["cases"]), nq + 2 * nv + 2)

    def one(row):
        h = row[nq + 2 * nv + 1]
        mm = mx.replace(opt=mx.opt.replace(timestep=h))
        d = dx.replace(qpos=row[:nq], qvel=row[nq:nq + nv], qacc=row[nq + nv:nq + 2 * nv], time=row[nq + 2 * nv])
        r = fwd._advance(mm, d, jp.zeros(m.na), d.qacc)
        return jp.concatenate([r.qpos, r.qvel, r.time[None]])

    out = jax.jit(jax.vmap(one))(jp.asarray(a))
    return {"out": np.asarray(out, F64).tolist()}


DYN = {1: "integrator", 2: "filter", 3: "filterexact", 4: "muscle"}


def job_act(j):
    acts = j["acts"]
    rows = []
    for (dyn, prm0, lim, lo, hi) in acts:
        rows.append('<general joint="j" dyntype="%s" dynprm="%s" actlimited="%s" actrange="%s %s"/>' %
                    (DYN[int(dyn)], repr(float(prm0)), "true" if lim else "false", repr(float(lo)), repr(float(hi))))
    xml = ('<mujoco><option timestep="%s"/><worldbody><body><joint name="j" type="hinge"/><geom size="0.1"/></body></worldbody>'
           '<actuator>%s</actuator></mujoco>' % (repr(float(j["h"])), "".join(rows)))
    m = mujoco.MjModel.from_xml_string(xml)
    for k, (dyn, prm0, lim, lo, hi) in enumerate(acts):          # the compiler must not have altered what we test
        if m.actuator_dynprm[k, 0] != prm0 or m.actuator_actrange[k, 0] != lo or m.actuator_actrange[k, 1] != hi or \
                int(m.actuator_dyntype[k]) != int(dyn) or bool(m.actuator_actlimited[k]) != bool(lim) or m.opt.timestep != j["h"]:
            raise RuntimeError("compiled actuator %d differs from the request" % k)
    mx, dx = mjx.put_model(m), mjx.make_data(m)
    na = m.na
    a = np.array(j["cases"], F64).reshape(len(j["cases"]), 2 * na)
    out = jax.jit(jax.vmap(lambda row: fwd._next_activation(mx, dx.replace(act=row[:na]), row[na:])))(jp.asarray(a))
    return {"out": np.asarray(out, F64).tolist()}


def job_kbi(j):
    """constraint._kbi on raw (solref, solimp, pos) with a given timestep and REFSAFE flag: cases [[s0, s1, d0, d1, width, mid, power, pos, h]]"""
    from mujoco.mjx._src import constraint
    m, mx, dx = cu_base()
    flags = int(m.opt.disableflags) | (0 if j["refsafe"] else int(mujoco.mjtDisableBit.mjDSBL_REFSAFE))
    a = jp.asarray(np.array(j["cases"], F64).reshape(-1, 9))

    def one(row):
        mm = mx.replace(opt=mx.opt.replace(timestep=row[8], disableflags=flags))
        k, b, imp = constraint._kbi(mm, row[0:2], row[2:7], row[7])
        return jp.stack([k, b, imp])

    return {"out": np.asarray(jax.jit(jax.vmap(one))(a), F64).tolist()}


# ------------------------------------------------------------------------------------------------- pipeline
MODEL_FIELDS = ["body_mass", "body_inertia", "body_pos", "body_quat", "body_ipos", "body_iquat", "body_parentid", "jnt_type",
                "jnt_pos", "jnt_axis", "jnt_bodyid", "jnt_stiffness", "jnt_range", "dof_damping", "dof_armature", "dof_frictionloss",
                "qpos0", "qpos_spring", "geom_type", "geom_size", "geom_pos", "geom_quat", "geom_bodyid", "geom_condim",
                "geom_friction", "geom_solref", "geom_solimp", "geom_margin", "geom_gap", "actuator_gainprm", "actuator_biasprm",
                "actuator_gear", "actuator_trnid", "site_pos", "site_bodyid", "tendon_stiffness", "tendon_damping", "tendon_lengthspring",
                "jnt_solref", "jnt_solimp", "dof_solref", "dof_solimp", "eq_solref", "eq_solimp", "eq_data",
                "sensor_type", "sensor_objtype", "sensor_objid", "sensor_reftype", "sensor_refid", "sensor_adr", "sensor_dim",
                "body_gravcomp", "jnt_actgravcomp", "jnt_actfrclimited", "jnt_actfrcrange", "actuator_ctrllimited", "actuator_ctrlrange",
                "actuator_forcelimited", "actuator_forcerange"]


def job_pipeline(j):
    m = mujoco.MjModel.from_xml_string(j["xml"])
    out = {"dims": {k: int(getattr(m, k)) for k in ("nq", "nv", "nu", "na", "nbody", "njnt", "ngeom")},
           "model": {f: lst(getattr(m, f)) for f in MODEL_FIELDS},
           "opt": {"timestep": m.opt.timestep, "gravity": lst(m.opt.gravity), "cone": int(m.opt.cone), "solver": int(m.opt.solver),
                   "integrator": int(m.opt.integrator), "iterations": int(m.opt.iterations), "tolerance": m.opt.tolerance,
                   "impratio": m.opt.impratio, "disableflags": int(m.opt.disableflags)}}
    try:
        mx = mjx.put_model(m)
    except NotImplementedError as e:
        out["notimpl"] = str(e)[:200]
        return out
    dx0 = mjx.make_data(m)
    fj, sj = jax.jit(mjx.forward), jax.jit(mjx.step)
    out["states"] = []
    for s in j["states"]:
        d = dx0.replace(qpos=jp.asarray(np.array(s["qpos"], F64)), qvel=jp.asarray(np.array(s["qvel"], F64)),
                        ctrl=jp.asarray(np.array(s["ctrl"], F64)))
        f = fj(mx, d)
        n = sj(mx, d)
        r = {k: lst(getattr(f, k)) for k in ("xpos", "xquat", "xipos", "qfrc_bias", "qfrc_passive", "qfrc_actuator", "qacc", "qacc_smooth", "qfrc_constraint", "ten_length", "sensordata", "actuator_force", "qfrc_gravcomp")}
        r["qM"] = lst(support.full_m(mx, f))
        c = f._impl.contact
        r["contact"] = {"dist": lst(c.dist), "pos": np.asarray(c.pos, F64).tolist(), "frame": np.asarray(c.frame, F64).reshape(-1, 9).tolist(),
                        "geom": np.asarray(c.geom).tolist(), "dim": np.asarray(c.dim).tolist(), "efc_address": np.asarray(c.efc_address).tolist(),
                        "includemargin": lst(c.includemargin)}
        r["nefc"] = int(f._impl.nefc)
        r["ne"], r["nf"], r["nl"] = int(f._impl.ne), int(f._impl.nf), int(f._impl.nl)
        r["efc_J"] = np.asarray(f._impl.efc_J, F64).tolist()
        for k in ("efc_aref", "efc_D", "efc_pos", "efc_force"):
            r[k] = lst(getattr(f._impl, k))
        r["next_qpos"], r["next_qvel"], r["next_act"] = lst(n.qpos), lst(n.qvel), lst(n.act)
        out["states"].append(r)
    return out


JOBS = {"kbi": job_kbi, "cu": job_cu, "prim": job_prim, "euler": job_euler, "act": job_act, "pipeline": job_pipeline}
req = json.load(sys.stdin)
res = []
for j in req["jobs"]:
    try:
        r = JOBS[j["op"]](j)
    except NotImplementedError as e:
        r = {"notimpl": str(e)[:200]}
    except Exception as e:
        r = {"error": "%s: %s" % (type(e).__name__, str(e)[:300]), "trace": traceback.format_exc()[-1200:]}
    res.append(r)
    if j["op"] == "pipeline":
        # drop the executables of this model before compiling the next one
        try:
            jax.clear_caches()
        except Exception:
            pass
        import gc
        gc.collect()
json.dump({"jobs": res}, sys.stdout)
