// C10 driver.
//   c10_solvers proj            : reads kernel cases on stdin and calls the static PGS projection kernels of the working
//                                 tree's engine_solver.c (reached by including the .c file):
//        C type dim f[dim] mu[5]            -> projectCone(f, mu, dim, type)            prints f[dim]
//        E feasible dim normal t[dim-1] mu[5] -> projectEllipsoid(t, normal, mu, dim, feasible)  prints t[dim-1]
//        K x lo hi                          -> mju_clip(x, lo, hi)                      prints 1 number
//   c10_solvers solve s0 s1     : builds small mjgen models for seeds s0..s1-1, steps them, and at a few sample states
//                                 re-solves the SAME constraint problem (same mjData snapshot, same warm start) with
//                                 Newton / CG / PGS, with and without islands, dense and sparse, and prints the problem
//                                 data (dense M and J, D, R, frictionloss, aref, types, contacts, qacc_smooth, warm
//                                 start) and every solver's answer + reported statistics.  Doubles as C99 hex floats.
//   c10_solvers apex z vx vz [density condim] : the sphere-on-plane scenes of findings C10-F1 / C10-F2 (see run_apex)
//   P seed step cone nv nefc ne nf ncon nisland meaninertia tolerance impratio
//     M[nv*nv] J[nefc*nv] D[nefc] R[nefc] floss[nefc] aref[nefc] type[nefc] id[nefc]
//     qacc_smooth[nv] qfrc_smooth[nv] qacc_warmstart[nv] {dim mu fr[5] adr}[ncon]
//   S seed step cfg solver island sparse cold maxiter nefc chk nisl_run {niter}[nisl_rep]  qacc[nv] force[nefc]
//     nstat {improvement gradient}[nstat]         (statistics of island slot 0; monolithic: the whole solve)
#include <stdio.h>
#include <stdlib.h>
#include <string.h>
#include "mjgen.h"
#include "engine/engine_solver.c"

static int rd_int(int* v) { return scanf("%d", v) == 1; }
static int rd_num(mjtNum* v) { char buf[128]; if (scanf("%127s", buf) != 1) return 0; *v = strtod(buf, NULL); return 1; }

static int run_proj(void) {
  char tag[8];
  while (scanf("%7s", tag) == 1) {
    if (tag[0] == 'C') {
      int type, dim; mjtNum f[8] = {0}, mu[5];
      if (!rd_int(&type) || !rd_int(&dim) || dim < 1 || dim > 6) return 2;
      for (int i = 0; i < dim; i++) if (!rd_num(f + i)) return 2;
      for (int i = 0; i < 5; i++) if (!rd_num(mu + i)) return 2;
      projectCone(f, mu, dim, type);
      for (int i = 0; i < dim; i++) printf("%s%a", i ? " " : "", f[i]);
      printf("\n");
    } else if (tag[0] == 'E') {
      int feasible, dim; mjtNum normal, t[8] = {0}, mu[5];
      if (!rd_int(&feasible) || !rd_int(&dim) || dim < 1 || dim > 6 || !rd_num(&normal)) return 2;
      for (int i = 0; i < dim - 1; i++) if (!rd_num(t + i)) return 2;
      for (int i = 0; i < 5; i++) if (!rd_num(mu + i)) return 2;
      projectEllipsoid(t, normal, mu, dim, feasible);
      for (int i = 0; i < dim - 1; i++) printf("%s%a", i ? " " : "", t[i]);
      printf("\n");
    } else if (tag[0] == 'K') {
      mjtNum x, lo, hi;
      if (!rd_num(&x) || !rd_num(&lo) || !rd_num(&hi)) return 2;
      printf("%a\n", mju_clip(x, lo, hi));
    } else return 2;
  }
  return 0;
}

static void pv(const mjtNum* v, int n) { for (int i = 0; i < n; i++) printf(" %a", v[i]); }
static void pi(const int* v, int n) { for (int i = 0; i < n; i++) printf(" %d", v[i]); }

typedef struct { int solver, island, sparse; } cfg_t;
static const cfg_t CFG[] = {
  {mjSOL_NEWTON, 0, 0}, {mjSOL_NEWTON, 1, 0}, {mjSOL_NEWTON, 0, 1}, {mjSOL_NEWTON, 1, 1},
  {mjSOL_CG, 0, 0}, {mjSOL_CG, 1, 1}, {mjSOL_PGS, 0, 0}, {mjSOL_PGS, 1, 1},
};
#define NCFG ((int)(sizeof(CFG) / sizeof(CFG[0])))

static void print_problem(const mjModel* m, const mjData* d, int seed, int step, const mjtNum* warm) {
  int nv = m->nv, nefc = d->nefc;
  printf("P %d %d %d %d %d %d %d %d %d %a %a %a", seed, step, m->opt.cone, nv, nefc, d->ne, d->nf, d->ncon, d->nisland,
         m->stat.meaninertia, m->opt.tolerance, m->opt.impratio);
  mjtNum* M = malloc(sizeof(mjtNum) * nv * nv);
  mj_fullM(m, d, M);
  pv(M, nv * nv);
  free(M);
  // dense J by columns: J e_k
  mjtNum* J = malloc(sizeof(mjtNum) * nefc * nv);
  mjtNum* e = calloc(nv, sizeof(mjtNum));
  mjtNum* col = malloc(sizeof(mjtNum) * nefc);
  for (int k = 0; k < nv; k++) {
    e[k] = 1; mj_mulJacVec(m, d, col, e); e[k] = 0;
    for (int i = 0; i < nefc; i++) J[i * nv + k] = col[i];
  }
  pv(J, nefc * nv);
  free(J); free(e); free(col);
  pv(d->efc_D, nefc); pv(d->efc_R, nefc); pv(d->efc_frictionloss, nefc); pv(d->efc_aref, nefc);
  pi(d->efc_type, nefc); pi(d->efc_id, nefc);
  pv(d->qacc_smooth, nv); pv(d->qfrc_smooth, nv); pv(warm, nv);
  for (int c = 0; c < d->ncon; c++) {
    const mjContact* con = d->contact + c;
    printf(" %d %a", con->dim, con->mu); pv(con->friction, 5); printf(" %d", con->efc_address);
  }
  printf("\n");
}

static void print_solution(const mjModel* m, const mjData* d, int seed, int step, int c, int cold, int islands_run) {
  int nv = m->nv, nefc = d->nefc;
  mjtNum chk = 0;
  for (int i = 0; i < nefc; i++) chk += d->efc_aref[i] * (1 + (i % 7)) + d->efc_D[i] * 1e-3;
  int nrep = islands_run ? (d->nisland < mjNISLAND ? d->nisland : mjNISLAND) : 1;
  printf("S %d %d %d %d %d %d %d %d %d %a %d %d", seed, step, c, m->opt.solver, CFG[c].island, mj_isSparse(m), cold, m->opt.iterations, nefc, chk,
         islands_run ? d->nisland : 0, nrep);
  for (int i = 0; i < nrep; i++) printf(" %d", d->solver_niter[i]);
  pv(d->qacc, nv); pv(d->efc_force, nefc);
  int nstat = d->solver_niter[0] < mjNSOLVER ? d->solver_niter[0] : mjNSOLVER;
  printf(" %d", nstat);
  for (int i = 0; i < nstat; i++) printf(" %a %a", d->solver[i].improvement, d->solver[i].gradient);
  printf("\n");
}

static int run_solve(int s0, int s1) {
  mjg_install_handlers();
  for (int seed = s0; seed < s1; seed++) {
    unsigned feat = MJG_CONTACT | MJG_ELLIPTIC | MJG_FREE | MJG_SLIDE | MJG_BALL | MJG_LIMIT | MJG_FRICTIONLOSS |
                    MJG_EQUALITY | MJG_MULTITREE | MJG_SPRING;
    if (seed % 3 == 0) feat |= MJG_TENDON;
    int nb = 1 + seed % 4;
    mjModel* m = mjg_model(seed, feat, nb, NULL);
    if (!m) { printf("X %d compile\n", seed); continue; }
    mjg_rng r = {(uint64_t)seed * 2654435761ULL + 1010};
    m->opt.cone = (seed % 2) ? mjCONE_ELLIPTIC : mjCONE_PYRAMIDAL;
    { static const double ir[4] = {1, 1, 0.5, 3}; m->opt.impratio = ir[mjg_int(&r, 4)]; }
    for (int g = 0; g < m->ngeom; g++)
      if (mjg_chance(&r, 0.5)) { m->geom_friction[3 * g + 1] = mjg_range(&r, 0.005, 0.3); m->geom_friction[3 * g + 2] = mjg_range(&r, 0.001, 0.1); }
    m->opt.noslip_iterations = 0;
    int cold = (seed % 4 == 3);
    mjData* d = mj_makeData(m);
    mjData* snap = mj_makeData(m);
    mjData* w = mj_makeData(m);
    mjg_random_state(m, d, &r, 1.0);
    if (MJG_TRY) {
      int done = 0;
      for (int step = 0; step <= 40 && done < 2; step++) {
        // advance with the default solver settings
        m->opt.solver = mjSOL_NEWTON; m->opt.tolerance = 1e-8; m->opt.iterations = 100; m->opt.jacobian = mjJAC_AUTO;
        m->opt.disableflags &= ~(mjDSBL_ISLAND | mjDSBL_WARMSTART);
        if (step == 0) mj_forward(m, d); else mj_step(m, d);
        if (!(step == 0 || step == 6 || step == 17 || step == 40)) continue;
        mj_forward(m, d);
        if (d->nefc <= 0 || d->nefc > 60 || m->nv > 24) continue;
        mj_copyData(snap, m, d);
        // perturb the warm start so that the solvers have work to do
        for (int i = 0; i < m->nv; i++) snap->qacc_warmstart[i] += mjg_range(&r, -0.5, 0.5);
        int printed = 0;
        for (int c = 0; c < NCFG; c++) {
          mj_copyData(w, m, snap);
          m->opt.solver = CFG[c].solver;
          m->opt.jacobian = CFG[c].sparse ? mjJAC_SPARSE : mjJAC_DENSE;
          m->opt.tolerance = 1e-14;
          m->opt.iterations = CFG[c].solver == mjSOL_NEWTON ? 150 : (CFG[c].solver == mjSOL_CG ? 1500 : 30000);
          if (CFG[c].island) m->opt.disableflags &= ~mjDSBL_ISLAND; else m->opt.disableflags |= mjDSBL_ISLAND;
          if (cold) m->opt.disableflags |= mjDSBL_WARMSTART; else m->opt.disableflags &= ~mjDSBL_WARMSTART;
          mj_forward(m, w);
          if (!printed) { print_problem(m, w, seed, step, snap->qacc_warmstart); printed = 1; }
          print_solution(m, w, seed, step, c, cold, CFG[c].island && w->nisland > 0);
        }
        done++;
      }
      MJG_END;
    } else { printf("X %d error %s\n", seed, mjg_last_error); }
    mj_deleteData(w); mj_deleteData(snap); mj_deleteData(d); mj_deleteModel(m);
  }
  return 0;
}

// smallest known inputs on which PGS with elliptic cones stops at a non-optimal point: a sphere of radius 0.1 (given density and
// condim, default 1000 and 3) whose centre is at height z above a plane, velocity (vx, 0, vz), elliptic cone, warm start disabled.
//   A solver niter qacc[6] efc_force[nefc]
static int run_apex(double z, double vx, double vz, double density, int condim) {
  mjg_install_handlers();
  mjSpec* s = mj_makeSpec();
  s->option.cone = mjCONE_ELLIPTIC;
  mjsBody* world = mjs_findBody(s, "world");
  mjsGeom* g = mjs_addGeom(world, NULL); g->type = mjGEOM_PLANE; g->size[0] = g->size[1] = 5; g->size[2] = 0.1;
  mjsBody* b = mjs_addBody(world, NULL); b->pos[2] = z;
  mjsJoint* j = mjs_addJoint(b, NULL); j->type = mjJNT_FREE;
  mjsGeom* sp = mjs_addGeom(b, NULL); sp->type = mjGEOM_SPHERE; sp->size[0] = 0.1; sp->condim = condim; sp->density = density;
  mjModel* m = mj_compile(s, NULL);
  if (!m) { fprintf(stderr, "apex: compile failed: %s\n", mjs_getError(s)); return 3; }
  m->opt.disableflags |= mjDSBL_WARMSTART;
  m->opt.tolerance = 1e-14;
  static const int sol[3] = {mjSOL_NEWTON, mjSOL_CG, mjSOL_PGS};
  static const int it[3] = {100, 1000, 10000};
  for (int k = 0; k < 3; k++) {
    mjData* d = mj_makeData(m);
    d->qvel[0] = vx; d->qvel[2] = vz;
    m->opt.solver = sol[k]; m->opt.iterations = it[k];
    mj_forward(m, d);
    printf("A %d %d %d", sol[k], d->nefc, d->solver_niter[0]); pv(d->qacc, m->nv); pv(d->efc_force, d->nefc); printf("\n");
    mj_deleteData(d);
  }
  mj_deleteModel(m); mj_deleteSpec(s);
  return 0;
}

int main(int argc, char** argv) {
  if (argc >= 2 && !strcmp(argv[1], "proj")) return run_proj();
  if (argc >= 5 && !strcmp(argv[1], "solve")) mj_nesterov_momentum = atoi(argv[4]);   // debugging aid: PGS momentum on/off
  if (argc >= 4 && !strcmp(argv[1], "solve")) return run_solve(atoi(argv[2]), atoi(argv[3]));
  if (argc >= 5 && !strcmp(argv[1], "apex"))
    return run_apex(atof(argv[2]), atof(argv[3]), atof(argv[4]), argc >= 6 ? atof(argv[5]) : 1000.0, argc >= 7 ? atoi(argv[6]) : 3);
  fprintf(stderr, "usage: c10_solvers proj | solve s0 s1 | apex z vx vz\n");
  return 2;
}
