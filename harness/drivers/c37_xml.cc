// C37 driver: runs the working tree's mjXSchema / mj_parseXMLString / mj_loadXML on documents read
// from stdin (through the tinyxml2 shim of harness/stubs).
//
// stdin is a sequence of commands:
//   TABLE REAL\n                         use the MJCF[] table + constraints of the working tree
//   TABLE <nrows> <ncons>\n              followed by nrows lines (tab-separated cells of one row) and
//                                        ncons lines "<row> <kind> <spec>"
//   PRINT\n                              print the current mjXSchema tree (mjXSchema::Print)
//   DOC <mode> <nbytes>\n<bytes>\n       mode S: shim parse + mjXSchema::Check on the current table, in process
//                                        mode P: mj_parseXMLString in a forked child
//                                        mode C: mj_parseXMLString + mj_compile in a forked child
//                                        mode L: mj_loadXML (document in a VFS) in a forked child
//   LEX <kind> <n> <nbytes>\n<bytes>\n   attribute lexers on the text as attribute value (kind d/i/f/b = ReadAttr<T> with
//                                        len n exact; D/I = not exact; k = MapValue on bool_map-like map given in n? (see below)
// one output line per command.
#include <mujoco/mujoco.h>

#include <fcntl.h>
#include <signal.h>
#include <sys/resource.h>
#include <sys/wait.h>
#include <unistd.h>

#include <cstdio>
#include <cstdlib>
#include <cstring>
#include <memory>
#include <sstream>
#include <string>
#include <vector>

#include "tinyxml2.h"
#include "xml/xml_util.h"

namespace real {
#include "xml/generated/mjcf_table.inc"
}

using tinyxml2::XMLElement;

static std::string Esc(const std::string& s) {
  std::string o;
  for (unsigned char c : s) {
    if (c == '\\') o += "\\\\";
    else if (c == '\n') o += "\\n";
    else if (c == '\t') o += "\\t";
    else if (c == '\r') o += "\\r";
    else if (c < 32 || c >= 127) { char b[8]; std::snprintf(b, sizeof b, "\\x%02x", c); o += b; }
    else o += c;
  }
  return o;
}

static bool SimpleName(const char* s) {
  if (!*s) return false;
  for (; *s; ++s) {
    unsigned char c = static_cast<unsigned char>(*s);
    if (!((c >= 'a' && c <= 'z') || (c >= 'A' && c <= 'Z') || (c >= '0' && c <= '9') || c == '_' || c == '.' || c == ':' || c == '-')) return false;
  }
  return true;
}

// DOM dump (elements only): "( name line nattr a1 .. an" children ")"; returns false if a name is not simple
static bool Dump(const XMLElement* e, std::string& out, int depth) {
  if (depth > 600) return false;
  bool ok = SimpleName(e->Name());
  out += "( ";
  out += ok ? e->Name() : "?";
  out += ' ';
  out += std::to_string(e->GetLineNum());
  int n = 0;
  for (const tinyxml2::XMLAttribute* a = e->FirstAttribute(); a; a = a->Next()) ++n;
  out += ' ';
  out += std::to_string(n);
  for (const tinyxml2::XMLAttribute* a = e->FirstAttribute(); a; a = a->Next()) {
    bool aok = SimpleName(a->Name());
    ok = ok && aok;
    out += ' ';
    out += aok ? a->Name() : "?";
  }
  out += ' ';
  for (const XMLElement* c = e->FirstChildElement(); c; c = c->NextSiblingElement()) {
    if (!Dump(c, out, depth + 1)) ok = false;
  }
  out += ") ";
  return ok;
}

// ---- current table
static std::vector<std::vector<const char*>> g_rows;
static std::vector<std::string> g_store;
static std::vector<mjXConstraintDef> g_cons;
static std::unique_ptr<mjXSchema> g_schema;

static void warn_silent(const char*) {}

static bool ReadLine(std::string& line) {
  line.clear();
  int c;
  while ((c = std::getchar()) != EOF) {
    if (c == '\n') return true;
    line += static_cast<char>(c);
  }
  return !line.empty();
}

static bool ReadBytes(size_t n, std::string& out) {
  out.resize(n);
  if (n && std::fread(&out[0], 1, n, stdin) != n) return false;
  int c = std::getchar();  // trailing newline
  return c == '\n' || c == EOF;
}

static void CmdTable(const std::string& args) {
  g_schema.reset();
  if (args == "REAL") {
    g_schema.reset(new mjXSchema(real::MJCF, real::nMJCF, real::MJCF_constraints, real::nMJCF_constraints));
    std::printf("TABLE ok %d %d %s\n", real::nMJCF, real::nMJCF_constraints, Esc(g_schema->GetError()).c_str());
    return;
  }
  int nrows = 0, ncons = 0;
  std::sscanf(args.c_str(), "%d %d", &nrows, &ncons);
  g_rows.clear();
  g_store.clear();
  g_cons.clear();
  std::vector<std::vector<std::string>> cells(nrows);
  std::string line;
  for (int i = 0; i < nrows; i++) {
    ReadLine(line);
    size_t p = 0;
    while (true) {
      size_t q = line.find('\t', p);
      cells[i].push_back(line.substr(p, q == std::string::npos ? std::string::npos : q - p));
      if (q == std::string::npos) break;
      p = q + 1;
    }
  }
  std::vector<std::pair<int, std::pair<char, std::string>>> cons;
  for (int i = 0; i < ncons; i++) {
    ReadLine(line);
    int row = 0;
    char kind = 0;
    int off = 0;
    std::sscanf(line.c_str(), "%d %c %n", &row, &kind, &off);
    cons.push_back({row, {kind, line.substr(off)}});
  }
  size_t total = 0;
  for (auto& r : cells) total += r.size();
  g_store.reserve(total + cons.size());
  for (auto& r : cells) {
    std::vector<const char*> row;
    for (auto& c : r) {
      g_store.push_back(c);
      row.push_back(g_store.back().c_str());
    }
    g_rows.push_back(row);
  }
  for (auto& c : cons) {
    g_store.push_back(c.second.second);
    g_cons.push_back(mjXConstraintDef{c.first, c.second.first, g_store.back().c_str()});
  }
  g_schema.reset(new mjXSchema(g_rows.data(), static_cast<unsigned>(g_rows.size()), g_cons.data(), static_cast<int>(g_cons.size())));
  std::printf("TABLE ok %d %d %s\n", nrows, ncons, Esc(g_schema->GetError()).c_str());
}

static void CmdPrint() {
  if (!g_schema) { std::printf("PRINT none\n"); return; }
  std::stringstream ss;
  g_schema->Print(ss, 0);
  std::printf("PRINT %s\n", Esc(ss.str()).c_str());
}

static void DocSchema(const std::string& doc) {
  tinyxml2::XMLDocument d;
  d.Parse(doc.data(), doc.size());
  if (d.Error()) { std::printf("S PARSEERR %d\n", static_cast<int>(d.ErrorID())); return; }
  XMLElement* root = d.RootElement();
  if (!root) { std::printf("S NOROOT\n"); return; }
  if (!g_schema) { std::printf("S NOTABLE\n"); return; }
  std::string dump;
  bool simple = Dump(root, dump, 0);
  XMLElement* bad = g_schema->Check(root, 0);
  if (!bad) {
    std::printf("S OK\t%d\t%s\n", simple ? 1 : 0, dump.c_str());
  } else {
    std::printf("S ERR\t%d\t%s\t%s\t%d\t%s\n", simple ? 1 : 0, dump.c_str(), Esc(bad->Value()).c_str(), bad->GetLineNum(),
                Esc(g_schema->GetError()).c_str());
  }
}

static long g_aslimit_mb = 0;
static int g_timeout = 20;

// runs mode P/C/L in a forked child; prints one line
// extra VFS files for mode L (FILES command): name -> content; files[0] of a DOCV command is the top-level document
static std::vector<std::pair<std::string, std::string>> g_files;

static void DocForked(char mode, const std::string& doc) {
  int fds[2];
  if (pipe(fds) != 0) { std::printf("%c HARNESS pipe\n", mode); return; }
  static FILE* errf = nullptr;
  if (!errf) errf = std::tmpfile();
  if (errf) { if (ftruncate(fileno(errf), 0) != 0) {} std::rewind(errf); }
  std::fflush(stdout);
  pid_t pid = fork();
  if (pid < 0) { std::printf("%c HARNESS fork\n", mode); close(fds[0]); close(fds[1]); return; }
  if (pid == 0) {
    close(fds[0]);
    if (errf) dup2(fileno(errf), 2);
    int devnull = open("/dev/null", O_WRONLY);
    if (devnull >= 0) dup2(devnull, 1);
    if (g_aslimit_mb > 0) {
      struct rlimit rl;
      rl.rlim_cur = rl.rlim_max = static_cast<rlim_t>(g_aslimit_mb) << 20;
      setrlimit(RLIMIT_AS, &rl);
    }
    alarm(g_timeout);
    static char err[2000];
    std::memset(err, 0, sizeof err);
    std::string out;
    if (mode == 'L') {
      mjVFS vfs;
      mj_defaultVFS(&vfs);
      mj_addBufferVFS(&vfs, "doc.xml", doc.data(), static_cast<int>(doc.size()));
      for (const auto& f : g_files) mj_addBufferVFS(&vfs, f.first.c_str(), f.second.data(), static_cast<int>(f.second.size()));
      mjModel* m = mj_loadXML("doc.xml", &vfs, err, sizeof err);
      out = m ? "MODEL\t" : "NULL\t";
      out += Esc(err);
      if (m) {
        // a returned model must be usable
        mjData* d = mj_makeData(m);
        if (d) { mj_forward(m, d); mj_deleteData(d); }
        mj_deleteModel(m);
      }
      mj_deleteVFS(&vfs);
      mj_freeLastXML();
    } else {
      // mj_parseXMLString takes a C string: an embedded NUL ends the document
      mjSpec* s = mj_parseXMLString(doc.c_str(), nullptr, err, sizeof err);
      out = s ? "SPEC\t" : "NULL\t";
      out += Esc(err);
      if (s && mode == 'C') {
        mjModel* m = mj_compile(s, nullptr);
        out += m ? "\tMODEL\t" : "\tCNULL\t";
        out += Esc(m ? "" : mjs_getError(s));
        if (m) mj_deleteModel(m);
      }
      if (s) mj_deleteSpec(s);
    }
    size_t off = 0;
    while (off < out.size()) {
      ssize_t w = write(fds[1], out.data() + off, out.size() - off);
      if (w <= 0) break;
      off += static_cast<size_t>(w);
    }
    close(fds[1]);
    _exit(0);
  }
  close(fds[1]);
  std::string res;
  char buf[4096];
  ssize_t r;
  while ((r = read(fds[0], buf, sizeof buf)) > 0) res.append(buf, static_cast<size_t>(r));
  close(fds[0]);
  int status = 0;
  waitpid(pid, &status, 0);
  std::string errtxt;
  if (errf) {
    std::fflush(errf);
    std::rewind(errf);
    char eb[1500];
    size_t n = std::fread(eb, 1, sizeof eb, errf);
    errtxt.assign(eb, n);
  }
  if (WIFSIGNALED(status)) {
    std::printf("%c SIGNAL\t%d\t%s\n", mode, WTERMSIG(status), Esc(errtxt).c_str());
  } else if (WIFEXITED(status) && WEXITSTATUS(status) != 0) {
    std::printf("%c EXIT\t%d\t%s\n", mode, WEXITSTATUS(status), Esc(errtxt).c_str());
  } else {
    std::printf("%c RET\t%s\n", mode, res.c_str());
  }
}

// ---- attribute lexers: the text is the value of attribute "a" of an element <e>
template <typename T>
static void LexNum(XMLElement* e, int n, bool exact, const char* fmt) {
  std::vector<T> data(n > 0 ? n : 1);
  std::string text;
  try {
    int got = mjXUtil::ReadAttr<T>(e, "a", n, data.data(), text, false, exact);
    std::printf("LEX OK %d", got);
    for (int i = 0; i < got; i++) { std::printf(" "); std::printf(fmt, data[i]); }
    std::printf("\n");
  } catch (mjXError err) {
    std::printf("LEX ERR %s\n", Esc(err.message).c_str());
  }
}

static void CmdLex(char kind, int n, const std::string& text, const std::vector<std::string>& keys) {
  tinyxml2::XMLDocument d;
  XMLElement* e = d.NewElement("e");
  d.InsertEndChild(e);
  e->SetAttribute("a", text.c_str());
  switch (kind) {
    case 'd': LexNum<double>(e, n, true, "%a"); break;
    case 'D': LexNum<double>(e, n, false, "%a"); break;
    case 'f': LexNum<float>(e, n, true, "%a"); break;
    case 'F': LexNum<float>(e, n, false, "%a"); break;
    case 'i': LexNum<int>(e, n, true, "%d"); break;
    case 'I': LexNum<int>(e, n, false, "%d"); break;
    case 'b': LexNum<unsigned char>(e, n, true, "%d"); break;
    case 'B': LexNum<unsigned char>(e, n, false, "%d"); break;
    case 'k': case 'K': {
      std::vector<mjMap> map;
      for (size_t i = 0; i < keys.size(); i++) map.push_back(mjMap{keys[i].c_str(), static_cast<int>(i)});
      try {
        if (kind == 'k') {
          int v = -7;
          bool ok = mjXUtil::MapValue(e, "a", &v, map.data(), static_cast<int>(map.size()), false);
          std::printf("LEX OK %d %d\n", ok ? 1 : 0, v);
        } else {
          std::vector<int> vals(512, -7);
          int cnt = mjXUtil::MapValues(e, "a", vals.data(), map.data(), static_cast<int>(map.size()), false);
          std::printf("LEX OK %d", cnt);
          for (int i = 0; i < cnt; i++) std::printf(" %d", vals[i]);
          std::printf("\n");
        }
      } catch (mjXError err) {
        std::printf("LEX ERR %s\n", Esc(err.message).c_str());
      }
      break;
    }
    default: std::printf("LEX BADKIND\n");
  }
}

int main(int argc, char** argv) {
  for (int i = 1; i < argc; i++) {
    if (!std::strncmp(argv[i], "--as-mb=", 8)) g_aslimit_mb = std::atol(argv[i] + 8);
    if (!std::strncmp(argv[i], "--timeout=", 10)) g_timeout = std::atoi(argv[i] + 10);
    if (!std::strncmp(argv[i], "--cwd=", 6)) { if (chdir(argv[i] + 6) != 0) return 3; }
  }
  mju_user_warning = warn_silent;
  std::string line, body;
  std::vector<std::string> keys;
  while (ReadLine(line)) {
    if (!line.compare(0, 6, "TABLE ")) {
      CmdTable(line.substr(6));
    } else if (line == "PRINT") {
      CmdPrint();
    } else if (!line.compare(0, 4, "DOC ")) {
      char mode = 0;
      unsigned long n = 0;
      std::sscanf(line.c_str() + 4, "%c %lu", &mode, &n);
      if (!ReadBytes(n, body)) { std::printf("HARNESS short read\n"); return 2; }
      if (mode == 'S') DocSchema(body); else DocForked(mode, body);
    } else if (!line.compare(0, 5, "FILE ")) {
      // FILE <name> <nbytes>\n<bytes>\n : add a file to the VFS of the following mode-L documents; "FILES CLEAR" empties it
      char name[256] = "";
      unsigned long n = 0;
      std::sscanf(line.c_str() + 5, "%255s %lu", name, &n);
      if (!ReadBytes(n, body)) { std::printf("HARNESS short read\n"); return 2; }
      g_files.push_back({name, body});
      std::printf("FILE %zu\n", g_files.size());
    } else if (line == "FILES CLEAR") {
      g_files.clear();
      std::printf("FILES 0\n");
    } else if (!line.compare(0, 5, "KEYS ")) {
      // KEYS k1 k2 ... : keyword map for the next LEX k/K commands (value = index)
      keys.clear();
      std::istringstream is(line.substr(5));
      std::string k;
      while (is >> k) keys.push_back(k);
      std::printf("KEYS %zu\n", keys.size());
    } else if (!line.compare(0, 4, "LEX ")) {
      char kind = 0;
      int n = 0;
      unsigned long nb = 0;
      std::sscanf(line.c_str() + 4, "%c %d %lu", &kind, &n, &nb);
      if (!ReadBytes(nb, body)) { std::printf("HARNESS short read\n"); return 2; }
      CmdLex(kind, n, body, keys);
    } else if (line.empty()) {
      continue;
    } else {
      std::printf("HARNESS unknown command\n");
    }
    std::fflush(stdout);
  }
  return 0;
}
