// C15 driver (support functions): includes the working tree's engine_collision_convex.c so that the
// static per-shape support functions are reachable, and calls them through mjc_initCCDObj's
// obj->support callback on a model holding one geom of each convex primitive type.
// All doubles are read and written as hex floats.
//
//   SUP type mat[9] pos[3] size[3] dir[3]     type in {2 sphere, 3 capsule, 4 ellipsoid, 5 cylinder, 6 box}
//        -> "res[3] vertindex"  (mjc_initCCDObj(obj, m, d, g) then obj.support(res, &obj, dir))
//   LINE mat[9] pos[3] size[3] dir[3]         -> mjc_lineSupport on a capsule object     "res[3] vertindex"
//   POINT mat[9] pos[3] size[3] dir[3]        -> mjc_pointSupport on a sphere object     "res[3] vertindex"
//   MESH mat[9] pos[3] nvert vertindex (x y z)*nvert dir[3]
//        -> mjc_meshSupport on a hand-built object whose float vertex array is the given one
//           "res[3] vertindex"
#include <math.h>
#include <stdio.h>
#include <stdlib.h>
#include <string.h>

#include <mujoco/mujoco.h>
#include "mjgen.h"
#include "engine/engine_collision_convex.c"

static int rd(double* x, int n) {
  for (int i = 0; i < n; i++) {
    char tok[128];
    if (scanf("%127s", tok) != 1) return 0;
    if (!strcmp(tok, "nan")) x[i] = NAN;
    else if (!strcmp(tok, "inf")) x[i] = INFINITY;
    else if (!strcmp(tok, "-inf")) x[i] = -INFINITY;
    else x[i] = strtod(tok, NULL);
  }
  return 1;
}
static void pr(const double* x, int n) { for (int i = 0; i < n; i++) printf(" %a", x[i]); }

static mjModel* M = NULL;
static mjData* D = NULL;
static int gid[mjNGEOMTYPES];

static void build(void) {
  mjSpec* s = mj_makeSpec();
  mjsBody* world = mjs_findBody(s, "world");
  int types[5] = {mjGEOM_SPHERE, mjGEOM_CAPSULE, mjGEOM_ELLIPSOID, mjGEOM_CYLINDER, mjGEOM_BOX};
  for (int i = 0; i < 5; i++) {
    mjsBody* b = mjs_addBody(world, NULL);
    b->pos[0] = i;
    mjsJoint* j = mjs_addJoint(b, NULL); j->type = mjJNT_FREE;
    mjsGeom* g = mjs_addGeom(b, NULL); g->type = (mjtGeom)types[i];
    g->size[0] = 0.1; g->size[1] = 0.2; g->size[2] = 0.3;
    gid[types[i]] = i;
  }
  M = mj_compile(s, NULL);
  if (!M) { fprintf(stderr, "c15: compile failed: %s\n", mjs_getError(s)); exit(3); }
  mj_deleteSpec(s);
  D = mj_makeData(M);
  mj_kinematics(M, D);
}

static void run_sup(int mode) {
  int type = mjGEOM_SPHERE; double a[18];
  if (mode == 0 && scanf("%d", &type) != 1) exit(2);
  if (mode == 1) type = mjGEOM_CAPSULE;
  if (!rd(a, 18)) exit(2);
  if (type < 0 || type >= mjNGEOMTYPES || (type != mjGEOM_SPHERE && type != mjGEOM_CAPSULE && type != mjGEOM_ELLIPSOID
      && type != mjGEOM_CYLINDER && type != mjGEOM_BOX)) { printf("ERR\n"); return; }
  int g = gid[type];
  if (M->geom_type[g] != type) { printf("ERR\n"); return; }
  memcpy(D->geom_xmat + 9 * g, a, 9 * sizeof(double));
  memcpy(D->geom_xpos + 3 * g, a + 9, 3 * sizeof(double));
  memcpy(M->geom_size + 3 * g, a + 12, 3 * sizeof(double));
  mjCCDObj obj;
  mjc_initCCDObj(&obj, M, D, g, 0);
  double res[3] = {0, 0, 0};
  if (mode == 0) { if (!obj.support) { printf("ERR\n"); return; } obj.support(res, &obj, a + 15); }
  else if (mode == 1) mjc_lineSupport(res, &obj, a + 15);
  else mjc_pointSupport(res, &obj, a + 15);
  pr(res, 3); printf(" %d\n", obj.vertindex);
}

static void run_mesh(void) {
  double a[12]; int nvert, vertindex;
  if (!rd(a, 12) || scanf("%d %d", &nvert, &vertindex) != 2 || nvert < 1 || nvert > 100000) exit(2);
  float* v = (float*)malloc(sizeof(float) * 3 * nvert);
  for (int i = 0; i < 3 * nvert; i++) { double x; if (!rd(&x, 1)) exit(2); v[i] = (float)x; }
  double dir[3]; if (!rd(dir, 3)) exit(2);
  mjCCDObj obj;
  memset(&obj, 0, sizeof(obj));
  obj.geom = 0; obj.geom_type = mjGEOM_MESH; obj.flex = obj.elem = obj.vert = -1; obj.meshindex = -1;
  memcpy(obj.mat, a, 9 * sizeof(double)); memcpy(obj.pos, a + 9, 3 * sizeof(double));
  obj.vertindex = vertindex;
  obj.data.mesh.vert = v; obj.data.mesh.nvert = nvert;
  double res[3];
  mjc_meshSupport(res, &obj, dir);
  pr(res, 3); printf(" %d\n", obj.vertindex);
  free(v);
}

int main(void) {
  mjg_install_handlers();
  build();
  char cmd[32];
  while (scanf("%31s", cmd) == 1) {
    if (!strcmp(cmd, "SUP")) run_sup(0);
    else if (!strcmp(cmd, "LINE")) run_sup(1);
    else if (!strcmp(cmd, "POINT")) run_sup(2);
    else if (!strcmp(cmd, "MESH")) run_mesh();
    else { fprintf(stderr, "c15: unknown command %s\n", cmd); return 2; }
  }
  return 0;
}
