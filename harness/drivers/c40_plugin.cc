// C40 driver (sequential part): the real plugin and resource-provider registries of the working
// tree's engine_plugin.cc (library build), driven through the public mjp_* API.
// stdin : <P|R> <nops>, then one op per line:  A <key> <val> | S <slot> | K <key> | C
// stdout: one line per op:  slot <r>  |  none  |  some <slot> <key> <val>  |  count <c>
// P: mjp_registerPlugin / mjp_getPluginAtSlot / mjp_getPlugin / mjp_pluginCount; key = name, val is
//    stored in capabilityflags.  R: mjp_registerResourceProvider (returns slot+1) /
//    mjp_getResourceProviderAtSlot(slot+1) / mjp_getResourceProvider("<key>:x") /
//    mjp_resourceProviderCount; key = prefix, val is stored in the data pointer.
// mju_error (conflicting registration) is caught with a log handler that longjmps: result -1.
#include <csetjmp>
#include <cstdint>
#include <cstdio>
#include <cstring>
#include <string>

#include <mujoco/mujoco.h>

static std::jmp_buf g_jb;
static void handler(const mjLogMessage* m) {
  if (m->level == mjLOG_ERROR) std::longjmp(g_jb, 1);
}

static int dummy_open(mjResource*) { return 0; }
static int dummy_read(mjResource*, const void**) { return 0; }
static void dummy_close(mjResource*) {}

static int rp_slot_of(const mjpResourceProvider* p) {
  int n = mjp_resourceProviderCount();
  for (int i = 1; i <= n; i++) if (mjp_getResourceProviderAtSlot(i) == p) return i - 1;
  return -9;
}

int main() {
  char table[4];
  int nops;
  if (std::scanf("%3s %d", table, &nops) != 2) return 2;
  bool P = table[0] == 'P';
  mju_setLogHandler(handler);
  for (int n = 0; n < nops; n++) {
    char op[4], key[64];
    int x;
    if (std::scanf("%3s", op) != 1) return 2;
    if (op[0] == 'A') {
      if (std::scanf("%63s %d", key, &x) != 2) return 2;
      volatile int r = -1;
      if (!setjmp(g_jb)) {
        if (P) {
          mjpPlugin pl;
          mjp_defaultPlugin(&pl);
          pl.name = key;
          pl.capabilityflags = x;
          r = mjp_registerPlugin(&pl);
        } else {
          mjpResourceProvider rp;
          mjp_defaultResourceProvider(&rp);
          rp.prefix = key;
          rp.open = (mjfOpenResource)dummy_open;
          rp.read = (mjfReadResource)dummy_read;
          rp.close = (mjfCloseResource)dummy_close;
          rp.data = (void*)(intptr_t)x;
          int s = mjp_registerResourceProvider(&rp);
          r = s >= 1 ? s - 1 : -1;
        }
      } else {
        r = -1;
      }
      std::memset(key, 'x', sizeof(key) - 1);   // the registry must own its copy of the key
      std::printf("slot %d\n", r);
    } else if (op[0] == 'S') {
      if (std::scanf("%d", &x) != 1) return 2;
      if (P) {
        const mjpPlugin* p = mjp_getPluginAtSlot(x);
        if (p) std::printf("some %d %s %d\n", x, p->name, p->capabilityflags); else std::printf("none\n");
      } else {
        const mjpResourceProvider* p = mjp_getResourceProviderAtSlot(x + 1);
        if (p) std::printf("some %d %s %d\n", x, p->prefix, (int)(intptr_t)p->data); else std::printf("none\n");
      }
    } else if (op[0] == 'K') {
      if (std::scanf("%63s", key) != 1) return 2;
      if (P) {
        int slot = -7;
        const mjpPlugin* p = mjp_getPlugin(key, &slot);
        if (p) std::printf("some %d %s %d\n", slot, p->name, p->capabilityflags);
        else if (slot != -1) std::printf("none-but-slot %d\n", slot);
        else std::printf("none\n");
      } else {
        std::string res = std::string(key) + ":x";
        const mjpResourceProvider* p = mjp_getResourceProvider(res.c_str());
        if (p) std::printf("some %d %s %d\n", rp_slot_of(p), p->prefix, (int)(intptr_t)p->data); else std::printf("none\n");
      }
    } else if (op[0] == 'C') {
      std::printf("count %d\n", P ? mjp_pluginCount() : mjp_resourceProviderCount());
    } else {
      return 3;
    }
  }
  return 0;
}
