// C01 driver: read/write frames of the pipeline stage functions and end-to-end determinism.
//   I seed feat nb enable stage                      infer writes / float reads of a stage (tooling)
//   V seed feat nb enable stage nR R.. nW W.. nA A..  validate a frame: garbage outside R must not
//                                                    change the must-fields W; nothing outside A (must+may) is written
//   E seed feat nb integ enable recv fn nF F..       two mjData with the same integration state
//                                                    (receiver built by method recv) must agree on
//                                                    the fields F after running fn
// Every case runs in a forked child so that a crash is reported as "CRASH" instead of killing the run.
#include <sys/wait.h>
#include <unistd.h>
#include "mjgen.h"
#include <mujoco/mjxmacro.h>

typedef void (*stagefn)(const mjModel*, mjData*);
static void st_rk4(const mjModel* m, mjData* d) { mj_RungeKutta(m, d, 4); }
static void st_step3(const mjModel* m, mjData* d) { for (int i = 0; i < 3; i++) mj_step(m, d); }
static void st_fwdinv(const mjModel* m, mjData* d) { mj_forward(m, d); mj_inverse(m, d); }
// inverse dynamics alone: qacc is its input and is not part of the integration state, so it is set here
static void st_inverse_q(const mjModel* m, mjData* d) { for (int i = 0; i < m->nv; i++) d->qacc[i] = 0.25 * ((i % 5) - 2) + 0.01 * i; mj_inverse(m, d); }
static struct { const char* name; stagefn fn; } STAGES[] = {
  {"mj_checkPos", mj_checkPos}, {"mj_checkVel", mj_checkVel}, {"mj_checkAcc", mj_checkAcc},
  {"mj_fwdPosition", mj_fwdPosition}, {"mj_sensorPos", mj_sensorPos}, {"mj_energyPos", mj_energyPos},
  {"mj_fwdVelocity", mj_fwdVelocity}, {"mj_sensorVel", mj_sensorVel}, {"mj_energyVel", mj_energyVel},
  {"mj_fwdActuation", mj_fwdActuation}, {"mj_fwdAcceleration", mj_fwdAcceleration},
  {"mj_fwdConstraint", mj_fwdConstraint}, {"mj_sensorAcc", mj_sensorAcc}, {"mj_compareFwdInv", mj_compareFwdInv},
  {"mj_Euler", mj_Euler}, {"mj_implicit", mj_implicit}, {"mj_RungeKutta,4", st_rk4},
  {"mj_forward", mj_forward}, {"mj_step", mj_step}, {"mj_inverse", mj_inverse},
  {"mj_step3", st_step3}, {"mj_forward_inverse", st_fwdinv}, {"mj_inverse_q", st_inverse_q},
  {NULL, NULL}};
static stagefn find_stage(const char* n) {
  for (int i = 0; STAGES[i].name; i++) if (!strcmp(STAGES[i].name, n)) return STAGES[i].fn;
  return NULL;
}

// ---------------------------------------------------------------- field universe
typedef struct { const char* fname; void* ptr; size_t bytes; char kind; } Field;   // kind: f i b c s
#define MAXF 400
static const char* BOOKKEEPING[] = {"narena", "nbuffer", "nplugin", "pstack", "pbase", "parena", "threadpool",
  "maxuse_stack", "maxuse_arena", "maxuse_con", "maxuse_efc", "warning", "timer", "plugin", NULL};
static int is_bookkeeping(const char* n) { for (int i = 0; BOOKKEEPING[i]; i++) if (!strcmp(BOOKKEEPING[i], n)) return 1; return 0; }
static char kind_of(const char* type) {
  if (!strcmp(type, "mjtNum")) return 'f';
  if (!strcmp(type, "int")) return 'i';
  if (!strcmp(type, "mjtBool") || !strcmp(type, "mjtByte")) return 'b';
  if (!strcmp(type, "mjContact")) return 'c';
  return 's';
}
static int fields_of(const mjModel* m, mjData* d, Field* F) {
  int n = 0; int sparse = mj_isSparse(m);
#define X(type, name) if (!is_bookkeeping(#name)) { F[n].fname = #name; F[n].ptr = &d->name; F[n].bytes = sizeof(type); F[n].kind = kind_of(#type); n++; }
  MJDATA_SCALAR
#undef X
#define X(type, name, nr, nc) if (!is_bookkeeping(#name)) { F[n].fname = #name; F[n].ptr = d->name; F[n].bytes = sizeof(type) * (nr) * (nc); F[n].kind = kind_of(#type); n++; }
  MJDATA_VECTOR
#undef X
#define X(type, name, nr, nc) if (!is_bookkeeping(#name)) { F[n].fname = #name; F[n].ptr = d->name; F[n].bytes = sizeof(type) * (size_t)(m->nr) * (nc); F[n].kind = kind_of(#type); n++; }
  MJDATA_POINTERS
#undef X
#undef MJ_D
#define MJ_D(x) (d->x)
#undef MJ_M
#define MJ_M(x) (m->x)
#define X(type, name, nr, nc) { F[n].fname = #name; F[n].ptr = d->name; \
    F[n].bytes = d->name ? sizeof(type) * (size_t)((!sparse && !strcmp(#name, "efc_J")) ? d->nefc * m->nv : (nr)) * (nc) : 0; \
    if (!sparse && !strncmp(#name, "efc_J_", 6)) F[n].bytes = 0; \
    F[n].kind = kind_of(#type); n++; }
  MJDATA_ARENA_POINTERS
#undef X
#undef MJ_D
#define MJ_D(x) x
#undef MJ_M
#define MJ_M(x) x
  if (n > MAXF) { fprintf(stderr, "too many fields\n"); exit(4); }
  return n;
}
static int contact_differs(const mjContact* a, const mjContact* b, int n) {
  for (int i = 0; i < n; i++) {
    const mjContact *x = a + i, *y = b + i;
    if (memcmp(&x->dist, &y->dist, sizeof(mjtNum)) || memcmp(x->pos, y->pos, sizeof(x->pos)) || memcmp(x->frame, y->frame, sizeof(x->frame)) ||
        memcmp(&x->includemargin, &y->includemargin, sizeof(mjtNum)) || memcmp(x->friction, y->friction, sizeof(x->friction)) ||
        memcmp(x->solref, y->solref, sizeof(x->solref)) || memcmp(x->solreffriction, y->solreffriction, sizeof(x->solreffriction)) ||
        memcmp(x->solimp, y->solimp, sizeof(x->solimp)) || memcmp(&x->mu, &y->mu, sizeof(mjtNum)) || x->dim != y->dim ||
        x->geom1 != y->geom1 || x->geom2 != y->geom2 || memcmp(x->geom, y->geom, sizeof(x->geom)) || memcmp(x->flex, y->flex, sizeof(x->flex)) ||
        memcmp(x->elem, y->elem, sizeof(x->elem)) || memcmp(x->vert, y->vert, sizeof(x->vert)) || x->exclude != y->exclude ||
        x->efc_address != y->efc_address) return 1;   // H (solver scratch, only rewritten for middle-zone contacts) is not compared
  }
  return 0;
}
// do field i of (a) and (b) differ?  sizes may differ (arena) -> differ
static int field_differs(const Field* fa, const Field* fb) {
  if (fa->bytes != fb->bytes) return 1;
  if (fa->bytes == 0) return 0;
  if ((fa->ptr == NULL) != (fb->ptr == NULL)) return 1;
  if (fa->kind == 'c') return contact_differs((const mjContact*)fa->ptr, (const mjContact*)fb->ptr, (int)(fa->bytes / sizeof(mjContact)));
  return memcmp(fa->ptr, fb->ptr, fa->bytes) != 0;
}
static int in_list(const char* n, char** L, int nL) { for (int i = 0; i < nL; i++) if (!strcmp(L[i], n)) return 1; return 0; }

// ---------------------------------------------------------------- base state
static mjModel* make_model(unsigned long long seed, unsigned feat, int nb, int integ, int enable) {
  mjModel* m;
  if ((enable >> 21) & 1) {
    // bit 21: "partial island" scenes: a plane and nb+1 balls on vertical slide joints (one tree each); a random
    // state puts some of them into contact and leaves the others in flight, so that some dofs belong to no
    // constraint island while others do, and a previously used receiver had a different subset in contact
    mjSpec* s = mj_makeSpec();
    mjsBody* w = mjs_findBody(s, "world");
    mjsGeom* fl = mjs_addGeom(w, NULL); fl->type = mjGEOM_PLANE; fl->size[0] = 5; fl->size[1] = 5; fl->size[2] = 0.1;
    mjg_rng r = {seed * 17 + 3};
    for (int i = 0; i <= nb; i++) {
      mjsBody* b = mjs_addBody(w, NULL);
      char nm[16]; snprintf(nm, sizeof nm, "ball%d", i); mjs_setName(b->element, nm);
      b->pos[0] = 0.5 * i; b->pos[2] = 0.12;
      mjsJoint* j = mjs_addJoint(b, NULL); j->type = mjJNT_SLIDE; j->axis[0] = 0; j->axis[1] = 0; j->axis[2] = 1;
      snprintf(nm, sizeof nm, "sl%d", i); mjs_setName(j->element, nm);
      j->damping[0] = mjg_range(&r, 0, 2);
      mjsGeom* g = mjs_addGeom(b, NULL); g->type = mjGEOM_SPHERE; g->size[0] = 0.1; g->condim = (i % 2) ? 3 : 1;
      if (i % 3 == 0) { mjsActuator* a = mjs_addActuator(s, NULL); a->trntype = mjTRN_JOINT; mjs_setString(a->target, nm); }
    }
    m = mj_compile(s, NULL);
    mj_deleteSpec(s);
  } else if ((enable >> 20) & 1) {
    // bit 20: append multi-input (PID: [pos, vel] controls) actuators so that nu > nactuator and the
    // trailing control entries belong to them (end-to-end runs only)
    mjSpec* s = mjg_spec(seed, feat, nb);
    int added = 0;
    for (mjsElement* e = mjs_firstElement(s, mjOBJ_JOINT); e && added < 2; e = mjs_nextElement(s, e)) {
      mjsJoint* j = mjs_asJoint(e);
      if (!j || (j->type != mjJNT_HINGE && j->type != mjJNT_SLIDE)) continue;
      const char* nm = mjs_getString(mjs_getName(e));
      if (!nm || !nm[0]) continue;
      mjsActuator* a = mjs_addActuator(s, NULL);
      char an[32]; snprintf(an, sizeof an, "c01pid%d", added); mjs_setName(a->element, an);
      a->trntype = mjTRN_JOINT; mjs_setString(a->target, nm);
      a->gaintype = mjGAIN_PID; a->biastype = mjBIAS_AFFINE; a->dyntype = mjDYN_NONE;
      a->gainprm[0] = 0; a->gainprm[1] = 5; a->gainprm[2] = 0.5;
      added++;
    }
    m = mj_compile(s, NULL);
    mj_deleteSpec(s);
  } else if ((enable >> 22) & 1) {
    // bit 22: history buffers (part of mjSTATE_INTEGRATION through mjSTATE_HISTORY): every sensor gets a buffer and one of
    // {interval + zero-order hold, interval with phase + linear interpolation, delay with interp 0/1/2, history only};
    // the first actuators get delayed controls.  Periods are not multiples of the timestep, so the captured state
    // usually lies strictly between two sampling ticks and the held sample must come out of the buffer.
    mjSpec* s = mjg_spec(seed, feat, nb);
    double dt = s->option.timestep;
    if (!mjs_firstElement(s, mjOBJ_SENSOR)) {
      mjsSensor* c = mjs_addSensor(s); mjs_setName(c->element, "c01clock"); c->type = mjSENS_CLOCK; c->objtype = mjOBJ_UNKNOWN;
      mjsElement* be = mjs_firstElement(s, mjOBJ_BODY);
      for (int k = 0; be && k < 2; be = mjs_nextElement(s, be)) {
        const char* nm = mjs_getString(mjs_getName(be));
        if (!nm || !nm[0] || !strcmp(nm, "world")) continue;
        mjsSensor* p = mjs_addSensor(s); char sn[32]; snprintf(sn, sizeof sn, "c01pos%d", k); mjs_setName(p->element, sn);
        p->type = k ? mjSENS_FRAMELINVEL : mjSENS_FRAMEPOS; p->objtype = mjOBJ_BODY; mjs_setString(p->objname, nm); k++;
      }
    }
    int k = 0;
    for (mjsElement* e = mjs_firstElement(s, mjOBJ_SENSOR); e; e = mjs_nextElement(s, e), k++) {
      mjsSensor* sn = mjs_asSensor(e); if (!sn) continue;
      sn->nsample = 2 + (k + (int)(seed % 3)) % 4;
      switch ((k + (int)(seed % 5)) % 5) {
        case 0: sn->interval[0] = 4.5 * dt; sn->interp = 0; break;
        case 1: sn->interval[0] = 3 * dt; sn->interval[1] = -0.5 * dt; sn->interp = 1; break;
        case 2: sn->delay = 1.5 * dt; sn->interp = k % 3; break;
        case 3: break;
        default: sn->interval[0] = 6 * dt; sn->interval[1] = -2 * dt; sn->interp = (seed >> 3) % 2 ? 2 : 0; break;
      }
    }
    k = 0;
    for (mjsElement* e = mjs_firstElement(s, mjOBJ_ACTUATOR); e && k < 2; e = mjs_nextElement(s, e), k++) {
      mjsActuator* a = mjs_asActuator(e); if (!a) continue;
      a->nsample = 3 + k; a->delay = (1.5 + k) * dt; a->interp = (k + (int)(seed % 3)) % 3;
    }
    m = mj_compile(s, NULL);
    mj_deleteSpec(s);
  } else {
    m = mjg_model(seed, feat, nb, NULL);
  }
  if (!m) return NULL;
  if (integ >= 0) m->opt.integrator = integ;
  m->opt.enableflags |= (enable & 0xFF);
  if ((enable >> 8) & 3) m->opt.solver = ((enable >> 8) & 3) - 1;      // bits 8-9: solver + 1
  if ((enable >> 10) & 3) m->opt.cone = ((enable >> 10) & 3) - 1;      // bits 10-11: cone + 1
  if ((enable >> 12) & 3) m->opt.jacobian = ((enable >> 12) & 3) - 1;  // bits 12-13: jacobian + 1
  {                                                                    // bits 14-17: a set of disable flags
    static const int DIS[16] = {0, mjDSBL_WARMSTART, mjDSBL_ISLAND, mjDSBL_WARMSTART | mjDSBL_ISLAND, mjDSBL_REFSAFE,
                                mjDSBL_EULERDAMP, mjDSBL_FRICTIONLOSS, mjDSBL_WARMSTART | mjDSBL_FILTERPARENT | mjDSBL_MIDPHASE,
                                mjDSBL_LIMIT | mjDSBL_EQUALITY, mjDSBL_GRAVITY | mjDSBL_SPRING, mjDSBL_DAMPER, mjDSBL_CLAMPCTRL,
                                mjDSBL_AUTORESET, mjDSBL_MULTICCD | mjDSBL_WARMSTART, mjDSBL_CONTACT, mjDSBL_ACTUATION};
    m->opt.disableflags |= DIS[(enable >> 14) & 15];
  }
  if ((enable >> 18) & 1) m->opt.noslip_iterations = 3;                // bit 18: noslip post-processing
  if ((enable >> 19) & 1) m->opt.enableflags |= mjENBL_SLEEP;          // bit 19: sleeping (end-to-end runs only)
  return m;
}
static void base_state(const mjModel* m, mjData* d, unsigned long long seed) {
  mjg_rng r = {seed * 31 + 7}; mjg_random_state(m, d, &r, 1.0);
  for (int k = 0; k < 2; k++) mj_step(m, d);
  mj_inverse(m, d); mj_forward(m, d);   // forward last: the arena then holds what the forward stages expect (dual arrays)
  mjg_rng r2 = {seed * 131 + 5};
  for (int i = 0; i < m->nv; i++) d->qvel[i] += 0.01 * mjg_range(&r2, -1, 1);
  for (int i = 0; i < m->nu; i++) d->ctrl[i] = mjg_range(&r2, -1, 1);
}
static void perturb(Field* f, mjg_rng* r) {
  if (f->kind == 'f') { mjtNum* p = (mjtNum*)f->ptr; size_t n = f->bytes / sizeof(mjtNum); for (size_t i = 0; i < n; i++) p[i] = p[i] * (1 + 1e-6 * mjg_range(r, 0.5, 1)) + 1e-7 * mjg_range(r, 0.5, 1); }
}
static void garbage(Field* f, mjg_rng* r) {
  if (!f->ptr || !f->bytes) return;
  if (f->kind == 'f') { mjtNum* p = (mjtNum*)f->ptr; size_t n = f->bytes / sizeof(mjtNum); for (size_t i = 0; i < n; i++) p[i] = mjg_range(r, -3, 3); }
  else if (f->kind == 'i') { int* p = (int*)f->ptr; size_t n = f->bytes / sizeof(int); for (size_t i = 0; i < n; i++) p[i] = 1000000 + mjg_int(r, 1000); }
  else if (f->kind == 'b') { unsigned char* p = (unsigned char*)f->ptr; for (size_t i = 0; i < f->bytes; i++) p[i] = (unsigned char)(mjg_int(r, 2)); }
  else if (f->kind == 'c') { mjContact* c = (mjContact*)f->ptr; size_t n = f->bytes / sizeof(mjContact); for (size_t i = 0; i < n; i++) { c[i].dist = mjg_range(r, -1, 1); c[i].geom[0] = 1000000; c[i].geom[1] = 1000000; c[i].efc_address = 1000000; c[i].dim = 77; } }
  else memset(f->ptr, 0x5A, f->bytes);
}

static FILE* IN = NULL;
static int read_names(char*** out) {
  int n; if (fscanf(IN, "%d", &n) != 1) exit(2);
  char** L = (char**)calloc(n + 1, sizeof(char*));
  for (int i = 0; i < n; i++) { char buf[128]; if (fscanf(IN, "%127s", buf) != 1) exit(2); L[i] = strdup(buf); }
  *out = L; return n;
}

static void run_infer(unsigned long long seed, unsigned feat, int nb, int enable, const char* sname) {
  stagefn f = find_stage(sname); if (!f) { printf("UNKNOWN %s\n", sname); return; }
  mjModel* m = make_model(seed, feat, nb, -1, enable); if (!m) { printf("ERR compile\n"); return; }
  mjData* d0 = mj_makeData(m); base_state(m, d0, seed);
  mjData* dA = mj_makeData(m); mj_copyData(dA, m, d0); f(m, dA);
  Field F0[MAXF], FA[MAXF], FB[MAXF];
  int n = fields_of(m, d0, F0); fields_of(m, dA, FA);
  printf("W:");
  for (int i = 0; i < n; i++) if (field_differs(&F0[i], &FA[i])) printf(" %s", F0[i].fname);
  printf(" ; R:");
  mjData* dB = mj_makeData(m);
  for (int g = 0; g < n; g++) {
    if (F0[g].kind != 'f' || !F0[g].bytes) continue;
    mj_copyData(dB, m, d0); fields_of(m, dB, FB);
    mjg_rng r = {seed + 1000 * g}; perturb(&FB[g], &r);
    f(m, dB); fields_of(m, dB, FB);
    int dep = 0;
    for (int i = 0; i < n && !dep; i++) {
      if (i == g && !field_differs(&F0[g], &FA[g])) continue;   // g itself not written: trivially different
      if (field_differs(&FA[i], &FB[i])) dep = 1;
    }
    if (dep) printf(" %s", F0[g].fname);
  }
  printf("\n");
}


// sequential inference along a pipeline: stale outputs (from another state) make writes visible
static void run_pipeline_infer(unsigned long long seed, unsigned feat, int nb, int integ, int enable) {
  char** SL; int nS = read_names(&SL);
  mjModel* m = make_model(seed, feat, nb, integ, enable); if (!m) { printf("ERR compile\n"); return; }
  mjData* d = mj_makeData(m); base_state(m, d, seed);
  // new integration state, outputs stale
  mjg_rng r = {seed * 7919 + 11}; mjg_random_state(m, d, &r, 1.5); d->time += 0.37;
  for (int i = 0; i < m->nv; i++) d->qacc_warmstart[i] = mjg_range(&r, -1, 1);
  mjData* dA = mj_makeData(m); mjData* dB = mj_makeData(m);
  Field F0[MAXF], FA[MAXF], FB[MAXF];
  for (int s = 0; s < nS; s++) {
    stagefn f = find_stage(SL[s]); if (!f) { printf("UNKNOWN %s\n", SL[s]); return; }
    mj_copyData(dA, m, d); f(m, dA);
    int n = fields_of(m, d, F0); fields_of(m, dA, FA);
    printf("%s | W:", SL[s]);
    for (int i = 0; i < n; i++) if (field_differs(&F0[i], &FA[i])) printf(" %s", F0[i].fname);
    printf(" | R:");
    for (int g = 0; g < n; g++) {
      if (F0[g].kind != 'f' || !F0[g].bytes) continue;
      mj_copyData(dB, m, d); fields_of(m, dB, FB);
      mjg_rng rp = {seed + 1000 * g + s}; perturb(&FB[g], &rp);
      f(m, dB); fields_of(m, dB, FB);
      int dep = 0;
      for (int i = 0; i < n && !dep; i++) {
        if (i == g && !field_differs(&F0[g], &FA[g])) continue;
        if (field_differs(&FA[i], &FB[i])) dep = 1;
      }
      if (dep) printf(" %s", F0[g].fname);
    }
    printf(" ;; ");
    f(m, d);
  }
  printf("\n");
}

static void run_validate(unsigned long long seed, unsigned feat, int nb, int enable, const char* sname) {
  char **R, **W, **WA; int nR = read_names(&R); int nW = read_names(&W); int nWA = read_names(&WA);
  stagefn f = find_stage(sname); if (!f) { printf("UNKNOWN %s\n", sname); return; }
  mjModel* m = make_model(seed, feat, nb, strcmp(sname, "mj_implicit") ? -1 : (seed % 2 ? mjINT_IMPLICIT : mjINT_IMPLICITFAST), enable); if (!m) { printf("ERR compile\n"); return; }
  mjData* d0 = mj_makeData(m); base_state(m, d0, seed);
  mjData* d1 = mj_makeData(m); mj_copyData(d1, m, d0);
  mjData* d2 = mj_makeData(m); mj_copyData(d2, m, d0);
  Field F0[MAXF], F1[MAXF], F2[MAXF], S2[MAXF];
  int n = fields_of(m, d0, F0); fields_of(m, d2, F2);
  mjg_rng r = {seed * 977 + 3};
  // garbage outside R; sizes/pointers were computed before any size field was overwritten
  for (int i = 0; i < n; i++) if (!in_list(F2[i].fname, R, nR)) garbage(&F2[i], &r);
  // snapshot of d2 (field by field: mj_copyData cannot be used on data with garbage sizes)
  for (int i = 0; i < n; i++) { S2[i] = F2[i]; S2[i].ptr = NULL; if (F2[i].ptr && F2[i].bytes) { S2[i].ptr = malloc(F2[i].bytes); memcpy(S2[i].ptr, F2[i].ptr, F2[i].bytes); } }
  f(m, d1); f(m, d2);
  fields_of(m, d1, F1); fields_of(m, d0, F0);
  int n2 = 0;
  // after the stage the size fields of d2 agree with d1 if they are must-fields; recompute
  n2 = fields_of(m, d2, F2); (void)n2;
  char msg[600]; int pos = 0; msg[0] = 0; int bad = 0;
  for (int i = 0; i < n; i++) {
    int inW = in_list(F0[i].fname, W, nW);
    int inWA = in_list(F0[i].fname, WA, nWA);
    if (inW) { if (field_differs(&F1[i], &F2[i])) { bad++; if (pos < 500) pos += snprintf(msg + pos, sizeof(msg) - pos, "reads-outside-R:%s ", F0[i].fname); } }
    else if (!inWA) {
      if (field_differs(&F0[i], &F1[i])) { bad++; if (pos < 500) pos += snprintf(msg + pos, sizeof(msg) - pos, "writes-outside-W:%s ", F0[i].fname); }
      else {
        // garbage run: compare with the snapshot using the snapshot's size (the field was not to be touched)
        Field cur = F2[i]; cur.bytes = S2[i].bytes;
        if (S2[i].ptr && cur.ptr && S2[i].kind != 'c' && memcmp(S2[i].ptr, cur.ptr, S2[i].bytes)) { bad++; if (pos < 500) pos += snprintf(msg + pos, sizeof(msg) - pos, "writes-outside-W(garbage run):%s ", F0[i].fname); }
      }
    }
  }
  if (bad) printf("DIFF n=%d %s\n", bad, msg); else printf("OK\n");
}

static void run_e2e(unsigned long long seed, unsigned feat, int nb, int integ, int enable, int recv, const char* fname) {
  char** FL; int nF = read_names(&FL);
  stagefn f = find_stage(fname); if (!f) { printf("UNKNOWN %s\n", fname); return; }
  mjModel* m = make_model(seed, feat, nb, integ, enable); if (!m) { printf("ERR compile\n"); return; }
  mjData* src = mj_makeData(m);
  mjg_rng r = {seed * 31 + 7}; mjg_random_state(m, src, &r, 1.0);
  for (int k = 0; k < 3; k++) mj_step(m, src);
  mjg_rng r2 = {seed * 131 + 5};
  for (int i = 0; i < m->nu; i++) src->ctrl[i] = mjg_range(&r2, -1, 1);
  for (int i = 0; i < m->nuserdata; i++) src->userdata[i] = mjg_range(&r2, -1, 1);
  for (int i = 0; i < m->neq; i++) if (mjg_chance(&r2, 0.3)) src->eq_active[i] = !src->eq_active[i];
  mjData* a = mj_makeData(m); mj_copyData(a, m, src);           // reference: full copy
  mjData* b = mj_makeData(m);
  int sz = mj_stateSize(m, mjSTATE_INTEGRATION);
  mjtNum* sv = (mjtNum*)malloc(sizeof(mjtNum) * (sz + 1));
  if (recv == 0) { mj_copyData(b, m, src); }
  else if (recv == 1) { mj_copyState(m, src, b, mjSTATE_INTEGRATION); }                     // fresh
  else if (recv == 2) { mjg_rng r3 = {seed + 99}; mjg_random_state(m, b, &r3, 2.0); for (int k = 0; k < 5; k++) mj_step(m, b); mj_resetData(m, b); mj_copyState(m, src, b, mjSTATE_INTEGRATION); }   // reset
  else if (recv == 3) { mjg_rng r3 = {seed + 99}; mjg_random_state(m, b, &r3, 2.0); for (int k = 0; k < 5; k++) mj_step(m, b); mj_forward(m, b); mj_inverse(m, b); mj_copyState(m, src, b, mjSTATE_INTEGRATION); }   // previously used
  else { mjg_rng r3 = {seed + 99}; mjg_random_state(m, b, &r3, 2.0); for (int k = 0; k < 4; k++) mj_step(m, b); mj_getState(m, src, sv, mjSTATE_INTEGRATION); mj_setState(m, b, sv, mjSTATE_INTEGRATION); }  // used + setState
  f(m, a); f(m, b);
  Field FA[MAXF], FB[MAXF]; int n = fields_of(m, a, FA); fields_of(m, b, FB);
  char msg[600]; int pos = 0; msg[0] = 0; int bad = 0, cmp = 0;
  for (int i = 0; i < n; i++) {
    if (!in_list(FA[i].fname, FL, nF)) continue;
    cmp++;
    if (field_differs(&FA[i], &FB[i])) { bad++; if (pos < 500) pos += snprintf(msg + pos, sizeof(msg) - pos, "%s ", FA[i].fname); }
  }
  if (bad) printf("DIFF n=%d %s\n", bad, msg); else printf("OK compared=%d ncon=%d nefc=%d\n", cmp, a->ncon, a->nefc);
  free(sv);
}

int main(void) {
  mjg_install_handlers();
  char op[8];
  setvbuf(stdout, NULL, _IONBF, 0);
  while (scanf("%7s", op) == 1) {
    unsigned long long seed; unsigned feat; int nb;
    if (scanf("%llu %u %d", &seed, &feat, &nb) != 3) return 2;
    int integ = -1, enable = 0, recv = 0; char sname[128];
    if (op[0] == 'E') { if (scanf("%d %d %d %127s", &integ, &enable, &recv, sname) != 4) return 2; }
    else if (op[0] == 'P') { if (scanf("%d %d", &integ, &enable) != 2) return 2; }
    else { if (scanf("%d %127s", &enable, sname) != 2) return 2; }
    // the remaining tokens of the line are consumed inside the child; the parent must skip them: read the
    // line tail into a buffer and give it to the child through a pipe-like temp file
    char tail[65536]; if (!fgets(tail, sizeof(tail), stdin)) tail[0] = 0;
    fflush(stdout);
    pid_t pid = fork();
    if (pid == 0) {
      alarm(60);   // a stage fed garbage may loop: the parent then reports CRASH
      FILE* t = tmpfile(); fputs(tail, t); rewind(t);
      IN = t;
      if (MJG_TRY) {
        if (op[0] == 'I') run_infer(seed, feat, nb, enable, sname);
        else if (op[0] == 'P') run_pipeline_infer(seed, feat, nb, integ, enable);
        else if (op[0] == 'V') run_validate(seed, feat, nb, enable, sname);
        else if (op[0] == 'E') run_e2e(seed, feat, nb, integ, enable, recv, sname);
        MJG_END;
      } else printf("ERR %s\n", mjg_last_error);
      fflush(stdout); _exit(0);
    }
    int status = 0; waitpid(pid, &status, 0);
    if (!WIFEXITED(status) || WEXITSTATUS(status) != 0) printf("CRASH status=%d\n", status);
  }
  return 0;
}
