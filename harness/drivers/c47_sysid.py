"""C47 driver: runs the log-Cholesky functions of <repo>/python/mujoco/sysid/_src/model_modifier.py
(imported BY PATH from the tree under test) on the thetas given on stdin (JSON) and prints JSON.

The `mujoco` wheel of the venv is only a library dependency here: model_modifier.py does
`import mujoco`, and apply_body_theta_inertia needs an MjSpec/MjsBody *container* to write into (the
wheel's compile inside _infer_inertial only produces start values that apply_body_theta_inertia
overwrites: mass, ipos, inertia, iquat, fullinertia).  The values it wrote are read back and are
compiled by the C driver c47_body (built from the tree under test).
colorama / tabulate / yaml are not installed: parameter.py only uses them for printing / file IO, so
empty stand-ins are registered."""
import importlib, json, os, sys, types

repo = sys.argv[1]


def load_sysid(repo):
    import mujoco  # noqa: F401  (wheel; library dependency only)
    for name in ("colorama", "tabulate", "yaml"):
        try:
            importlib.import_module(name)
        except ImportError:
            m = types.ModuleType(name)
            if name == "colorama":
                class _C:
                    def __getattr__(self, k):
                        return ""
                m.Fore = _C(); m.Style = _C(); m.Back = _C()
            if name == "tabulate":
                m.tabulate = lambda *a, **k: ""
            sys.modules[name] = m
    for name, sub in (("mujoco.sysid", "python/mujoco/sysid"), ("mujoco.sysid._src", "python/mujoco/sysid/_src")):
        m = types.ModuleType(name)
        m.__path__ = [os.path.join(repo, sub)]
        sys.modules[name] = m
    mm = importlib.import_module("mujoco.sysid._src.model_modifier")
    assert os.path.realpath(mm.__file__).startswith(os.path.realpath(repo)), mm.__file__
    return mm


def main():
    import numpy as np
    import mujoco
    mm = load_sysid(repo)
    req = json.load(sys.stdin)
    out = []
    # body variants x compiler.inertiafromgeom in {false, true, auto}: the spec handed to the repo's compiler must
    # carry whatever apply_body_theta_inertia left in spec.compiler and in the body
    GEOM = "<geom type='box' size='0.1 0.2 0.3' pos='0.05 0 0.1' density='500'/>"
    INERTIAL = "<inertial pos='0.01 0.02 0.03' mass='2.5' diaginertia='0.3 0.2 0.25'/>"
    BODIES = [("geom", GEOM), ("inertial+geom", INERTIAL + GEOM), ("inertial", INERTIAL)]
    IFG = ["false", "true", "auto"]

    def make_xml(variant):
        bname, binner = BODIES[variant % 3]
        ifg = IFG[(variant // 3) % 3]
        return ("<mujoco><compiler inertiafromgeom='%s'/><worldbody><body name='b' pos='0.1 0.2 0.3'><joint type='free'/>%s</body></worldbody></mujoco>"
                % (ifg, binner)), bname, ifg

    for k, th in enumerate(req["thetas"]):
        rec = {}
        theta = np.array(th, dtype=float)
        theta0 = theta.copy()
        try:
            pi = mm.pi_from_theta(theta)
            rec["pi"] = [float(v) for v in pi]
        except Exception as e:  # noqa: BLE001
            rec["pi_err"] = repr(e)
            out.append(rec)
            continue
        try:
            J = mm.pseudoinertia_from_pi(pi)
            rec["J"] = [float(v) for v in np.asarray(J).reshape(-1)]
            with np.errstate(all="ignore"):
                tb = mm.theta_from_pseudoinertia(J)
            rec["theta_back"] = [float(v) for v in tb]
        except Exception as e:  # noqa: BLE001
            rec["back_err"] = repr(e)
        if req.get("body", True):
            variant = req.get("variants", [0] * len(req["thetas"]))[k]
            xml, bname, ifg = make_xml(variant)
            rec["variant"] = {"body": bname, "inertiafromgeom_xml": ifg, "has_geom": "geom" in bname}
            try:
                spec = mujoco.MjSpec.from_string(xml)
                mm.apply_body_theta_inertia(spec, "b", theta)
                b = spec.body("b")
                rec["body"] = ([float(b.mass)] + [float(v) for v in b.ipos] +
                               [float(v) for v in np.asarray(b.fullinertia).reshape(-1)])
                rec["body_inertia_iquat"] = [float(v) for v in b.inertia] + [float(v) for v in b.iquat]
                rec["explicitinertial"] = bool(b.explicitinertial)
                rec["inertiafromgeom_after"] = int(spec.compiler.inertiafromgeom)
                # the same clause with the wheel as EXTERNAL compiler: compile the spec the function produced and read
                # the parameters back with the repo's pi_from_body / theta_inertia_from_body
                try:
                    m = spec.compile()
                    wb = m.body("b")
                    rec["wheel_compiled"] = [float(wb.mass[0])] + [float(v) for v in wb.ipos] + [float(v) for v in wb.iquat] + [float(v) for v in wb.inertia]
                    with np.errstate(all="ignore"):
                        rec["theta_from_body"] = [float(v) for v in mm.theta_inertia_from_body(spec, "b")]
                except Exception as e:  # noqa: BLE001
                    rec["wheel_compile_err"] = repr(e)
            except Exception as e:  # noqa: BLE001
                rec["body_err"] = repr(e)
        rec["theta_unchanged"] = bool(np.array_equal(theta, theta0))
        out.append(rec)
    json.dump({"file": mm.__file__, "out": out}, sys.stdout)


main()
