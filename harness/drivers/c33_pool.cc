// C33 pool driver: the unmodified src/user/user_threadpool.cc of the working tree compiled against the
// controlled-scheduler shim (shim_atomic.h + c33_shim.h), driven through its public API the way
// user_model.cc uses it: construct, Schedule xN, WaitCount, (more batches), destroy.
//
// stdin : one case per line:  <seed> <mode> <victim> <nthreads> <nops> { S <k> | W }*
//         S k = schedule k tasks, W = WaitCount(number of tasks scheduled so far)
// stdout: CASE i / one line per logged event "<thread> <kind> <a> <b> <c>" / END <OK|DEADLOCK|LIVELOCK> <count at end>
// kinds: lk ul (mutex), cw n1 nA (condition variables; a = object id: cv_in_ = 1, cv_ext_ = 2), sp jn ex (threads),
// cS rS cW rW cD rD (call/return of Schedule / WaitCount / destructor), tb te (task begin/end, a = task index).
#include "c33_shim.h"

#include "user/user_threadpool.cc"

static void dump(const char* status, long count) {
  verif::Sched& s = verif::S();
  for (const verif::Event& e : s.log_) std::printf("%d %s %ld %ld %ld\n", e.tid, e.kind, e.a, e.b, e.c);
  std::printf("END %s %ld\n", status, count);
  std::fflush(stdout);
}
static void on_abort(const char* why) { dump(why, -1); }

int main() {
  verif::S().on_abort = on_abort;
  unsigned long long seed;
  int mode, victim, nthreads, nops, idx = 0;
  while (std::scanf("%llu %d %d %d %d", &seed, &mode, &victim, &nthreads, &nops) == 5) {
    verif::S().reset(seed, mode, victim);
    std::printf("CASE %d\n", idx++);
    long count = 0;
    {
      mujoco::user::ThreadPool pool(nthreads);
      verif::logev("np", pool.NumThreads());
      int nsched = 0;
      for (int i = 0; i < nops; i++) {
        char op[4];
        int k = 0;
        if (std::scanf("%3s", op) != 1) return 2;
        if (op[0] == 'S') {
          if (std::scanf("%d", &k) != 1) return 2;
          for (int j = 0; j < k; j++) {
            int id = nsched++;
            verif::logev("cS", id);
            pool.Schedule([id]() {
              verif::point();
              verif::logev("tb", id, mujoco::user::ThreadPool::WorkerId());
              verif::point();
              verif::logev("te", id, mujoco::user::ThreadPool::WorkerId());
            });
            verif::logev("rS", id);
          }
        } else {
          verif::logev("cW", nsched);
          pool.WaitCount(nsched);
          verif::logev("rW", nsched);
        }
      }
      count = (long)pool.GetCount();
      verif::logev("cD");
    }
    verif::logev("rD");
    dump("OK", count);
  }
  return 0;
}
