// C34 driver: name lookup (mj_name2id / mj_id2name / mj_hashString / m->names_map) on models built through the mjSpec C API
// with name sets chosen by the harness.
//
// stdin:
//   MODEL                         start a model description
//   T <kind> <k> <hex|-> ...      k objects of this kind with the given names ('-' = unnamed); kinds below
//   END                           compile; prints one line "model ..." (see dump_model) or "compile_error <msg>"
//   Q <objtype> <hex|->           -> "<mj_name2id> <mj_hashString(name, 2*count) or -1>"   ('-' = empty string)
//   I <objtype> <id>              -> hex of mj_id2name, "NULL", or "-" for an empty string
//   H <n> <hex|->                 -> mj_hashString(name, n)
#include <mujoco/mujoco.h>
#include <mujoco/mjplugin.h>
#include <stdint.h>
#include <stdio.h>
#include <stdlib.h>
#include <string.h>

extern uint64_t mj_hashString(const char* s, uint64_t n);

static char errbuf[1024];
static void on_error(const char* msg) { fprintf(stderr, "mujoco error: %s\n", msg); exit(3); }
static void on_warning(const char* msg) { (void)msg; }

static int pl_nstate(const mjModel* m, int instance) { return 0; }
static int pl_init(const mjModel* m, mjData* d, int instance) { return 0; }
static void pl_reset(const mjModel* m, mjtNum* st, void* data, int instance) {}
static void pl_compute(const mjModel* m, mjData* d, int instance, int cap) {}

static int unhex(const char* h, char* out) {
  if (!strcmp(h, "-")) { out[0] = 0; return 0; }
  int n = (int)strlen(h) / 2;
  for (int i = 0; i < n; i++) { unsigned v; sscanf(h + 2 * i, "%2x", &v); out[i] = (char)v; }
  out[n] = 0;
  return n;
}
static void puthex(const char* s) {
  if (!*s) { printf("-"); return; }
  for (; *s; s++) printf("%02x", (unsigned char)*s);
}

#define MAXN 256
typedef struct { char kind[16]; int n; char name[MAXN][64]; } Req;

static mjSpec* spec;
static mjModel* model;
static int helper_id;

static void setname(mjsElement* e, const char* nm) { if (nm[0]) mjs_setName(e, nm); }

static mjsBody* new_body(const char* nm) {
  mjsBody* b = mjs_addBody(mjs_findBody(spec, "world"), NULL);
  setname(b->element, nm);
  b->pos[0] = 0.1 * (++helper_id);
  mjsGeom* g = mjs_addGeom(b, NULL);
  g->type = mjGEOM_SPHERE; g->size[0] = 0.01;
  char gn[32]; snprintf(gn, sizeof gn, "hg%d", helper_id); mjs_setName(g->element, gn);
  return b;
}

// helper objects with fixed names (they are ordinary named objects of the model and are reported like all others)
static mjsBody* hb[2];
static void helpers(void) {
  for (int i = 0; i < 2; i++) {
    char nm[16]; snprintf(nm, sizeof nm, "HB%d", i);
    hb[i] = new_body(nm);
    mjsJoint* j = mjs_addJoint(hb[i], NULL); j->type = mjJNT_HINGE;
    snprintf(nm, sizeof nm, "HJ%d", i); mjs_setName(j->element, nm);
    mjsSite* s = mjs_addSite(hb[i], NULL);
    snprintf(nm, sizeof nm, "HS%d", i); mjs_setName(s->element, nm);
  }
}

static void add_objects(const Req* r) {
  const char* k = r->kind;
  for (int i = 0; i < r->n; i++) {
    const char* nm = r->name[i];
    if (!strcmp(k, "body")) {
      new_body(nm);
    } else if (!strcmp(k, "joint")) {
      // at most 6 dofs per body: a fresh unnamed carrier body for every 6 requested hinge joints
      static mjsBody* carrier;
      if (i % 6 == 0) carrier = new_body("");
      mjsJoint* j = mjs_addJoint(carrier, NULL); j->type = mjJNT_HINGE; j->axis[i % 3] = 1; setname(j->element, nm);
    } else if (!strcmp(k, "geom")) {
      mjsGeom* g = mjs_addGeom(hb[i % 2], NULL); g->type = mjGEOM_SPHERE; g->size[0] = 0.01; setname(g->element, nm);
    } else if (!strcmp(k, "site")) {
      mjsSite* s = mjs_addSite(hb[i % 2], NULL); setname(s->element, nm);
    } else if (!strcmp(k, "camera")) {
      mjsCamera* c = mjs_addCamera(hb[i % 2], NULL); setname(c->element, nm);
    } else if (!strcmp(k, "light")) {
      mjsLight* l = mjs_addLight(hb[i % 2], NULL); setname(l->element, nm);
    } else if (!strcmp(k, "mesh")) {
      mjsMesh* me = mjs_addMesh(spec, NULL); setname(me->element, nm);
      float v[12] = {0, 0, 0, 1, 0, 0, 0, 1, 0, 0, 0, 1};
      int f[12] = {0, 2, 1, 0, 1, 3, 0, 3, 2, 1, 2, 3};
      mjs_setFloat(me->uservert, v, 12); mjs_setInt(me->userface, f, 12);
      me->inertia = mjMESH_INERTIA_SHELL;
    } else if (!strcmp(k, "hfield")) {
      mjsHField* h = mjs_addHField(spec); setname(h->element, nm);
      h->nrow = 2; h->ncol = 2; h->size[0] = h->size[1] = h->size[2] = h->size[3] = 1;
      float d[4] = {0, 0.1f, 0.2f, 0.3f}; mjs_setFloat(h->userdata, d, 4);
    } else if (!strcmp(k, "texture")) {
      mjsTexture* t = mjs_addTexture(spec); setname(t->element, nm);
      t->type = mjTEXTURE_2D; t->builtin = mjBUILTIN_FLAT; t->width = 2; t->height = 2; t->nchannel = 3;
    } else if (!strcmp(k, "material")) {
      mjsMaterial* ma = mjs_addMaterial(spec, NULL); setname(ma->element, nm);
    } else if (!strcmp(k, "pair")) {
      // each pair needs its own two geoms
      char g1[32], g2[32];
      mjsBody* b1 = new_body(""); snprintf(g1, sizeof g1, "hg%d", helper_id);
      mjsBody* b2 = new_body(""); snprintf(g2, sizeof g2, "hg%d", helper_id);
      (void)b1; (void)b2;
      mjsPair* p = mjs_addPair(spec, NULL); setname(p->element, nm);
      mjs_setString(p->geomname1, g1); mjs_setString(p->geomname2, g2);
    } else if (!strcmp(k, "exclude")) {
      char b1n[32], b2n[32];
      snprintf(b1n, sizeof b1n, "xb%d_a", i); snprintf(b2n, sizeof b2n, "xb%d_b", i);
      new_body(b1n); new_body(b2n);
      mjsExclude* e = mjs_addExclude(spec); setname(e->element, nm);
      mjs_setString(e->bodyname1, b1n); mjs_setString(e->bodyname2, b2n);
    } else if (!strcmp(k, "equality")) {
      mjsEquality* e = mjs_addEquality(spec, NULL); setname(e->element, nm);
      e->type = mjEQ_CONNECT; e->objtype = mjOBJ_BODY;
      mjs_setString(e->name1, "HB0"); mjs_setString(e->name2, "HB1");
    } else if (!strcmp(k, "tendon")) {
      mjsTendon* t = mjs_addTendon(spec, NULL); setname(t->element, nm);
      mjs_wrapSite(t, "HS0"); mjs_wrapSite(t, "HS1");
    } else if (!strcmp(k, "actuator")) {
      mjsActuator* a = mjs_addActuator(spec, NULL); setname(a->element, nm);
      a->trntype = mjTRN_JOINT; mjs_setString(a->target, "HJ0");
    } else if (!strcmp(k, "sensor")) {
      mjsSensor* s = mjs_addSensor(spec); setname(s->element, nm);
      s->type = mjSENS_JOINTPOS; s->objtype = mjOBJ_JOINT; mjs_setString(s->objname, "HJ1");
    } else if (!strcmp(k, "numeric")) {
      mjsNumeric* q = mjs_addNumeric(spec); setname(q->element, nm);
      q->size = 1; double d = i; mjs_setDouble(q->data, &d, 1);
    } else if (!strcmp(k, "text")) {
      mjsText* t = mjs_addText(spec); setname(t->element, nm); mjs_setString(t->data, "x");
    } else if (!strcmp(k, "tuple")) {
      mjsTuple* t = mjs_addTuple(spec); setname(t->element, nm);
      int ot = mjOBJ_BODY; double pr = 0; mjs_setInt(t->objtype, &ot, 1); mjs_setStringVec(t->objname, "HB0"); mjs_setDouble(t->objprm, &pr, 1);
    } else if (!strcmp(k, "key")) {
      mjsKey* key = mjs_addKey(spec); setname(key->element, nm); key->time = i;
    } else if (!strcmp(k, "plugin")) {
      mjsPlugin* p = mjs_addPlugin(spec);
      mjs_setString(p->plugin_name, "verif.noop"); mjs_setString(p->name, nm); p->active = 1;
      setname(p->element, nm);
    } else if (!strcmp(k, "skin")) {
      mjsSkin* s = mjs_addSkin(spec); setname(s->element, nm);
      float v[9] = {0, 0, 0, 1, 0, 0, 0, 1, 0}; int f[3] = {0, 1, 2};
      mjs_setFloat(s->vert, v, 9); mjs_setInt(s->face, f, 3);
      mjs_setStringVec(s->bodyname, "HB0");
      float bp[3] = {0, 0, 0}, bq[4] = {1, 0, 0, 0};
      mjs_setFloat(s->bindpos, bp, 3); mjs_setFloat(s->bindquat, bq, 4);
      int vid[3] = {0, 1, 2}; float vw[3] = {1, 1, 1};
      mjs_appendIntVec(s->vertid, vid, 3); mjs_appendFloatVec(s->vertweight, vw, 3);
    } else if (!strcmp(k, "flex")) {
      mjsFlex* fx = mjs_addFlex(spec); setname(fx->element, nm);
      fx->dim = 1;
      mjs_setStringVec(fx->vertbody, "HB0"); mjs_appendString(fx->vertbody, "HB1");
      double vv[6] = {0, 0, 0, 0, 0, 0}; mjs_setDouble(fx->vert, vv, 6);
      int el[2] = {0, 1}; mjs_setInt(fx->elem, el, 2);
    } else {
      fprintf(stderr, "unknown kind %s\n", k); exit(5);
    }
  }
}

#define PCOUNT(f) printf(" %s %d", #f, (int)model->f)
#define PADR(f, cnt) do { printf(" %s %d", #f, (int)model->cnt); for (int i_ = 0; i_ < model->cnt; i_++) printf(" %d", model->f[i_]); } while (0)

static void dump_model(void) {
  const mjModel* m = model;
  printf("model nnames %d nnames_map %d |", (int)m->nnames, (int)m->nnames_map);
  PCOUNT(nbody); PCOUNT(njnt); PCOUNT(ngeom); PCOUNT(nsite); PCOUNT(ncam); PCOUNT(nlight); PCOUNT(nflex); PCOUNT(nmesh); PCOUNT(nskin);
  PCOUNT(nhfield); PCOUNT(ntex); PCOUNT(nmat); PCOUNT(npair); PCOUNT(nexclude); PCOUNT(neq); PCOUNT(ntendon); PCOUNT(nactuator);
  PCOUNT(nsensor); PCOUNT(nnumeric); PCOUNT(ntext); PCOUNT(ntuple); PCOUNT(nkey); PCOUNT(nplugin);
  printf(" |");
  PADR(name_bodyadr, nbody); PADR(name_jntadr, njnt); PADR(name_geomadr, ngeom); PADR(name_siteadr, nsite); PADR(name_camadr, ncam);
  PADR(name_lightadr, nlight); PADR(name_flexadr, nflex); PADR(name_meshadr, nmesh); PADR(name_skinadr, nskin); PADR(name_hfieldadr, nhfield);
  PADR(name_texadr, ntex); PADR(name_matadr, nmat); PADR(name_pairadr, npair); PADR(name_excludeadr, nexclude); PADR(name_eqadr, neq);
  PADR(name_tendonadr, ntendon); PADR(name_actuatoradr, nactuator); PADR(name_sensoradr, nsensor); PADR(name_numericadr, nnumeric);
  PADR(name_textadr, ntext); PADR(name_tupleadr, ntuple); PADR(name_keyadr, nkey); PADR(name_pluginadr, nplugin);
  printf(" | ");
  for (int i = 0; i < m->nnames; i++) printf("%02x", (unsigned char)m->names[i]);
  printf(" |");
  for (int i = 0; i < m->nnames_map; i++) printf(" %d", m->names_map[i]);
  printf("\n");
}

int main(void) {
  mju_user_error = on_error;
  mju_user_warning = on_warning;
  mjpPlugin p;
  mjp_defaultPlugin(&p);
  p.name = "verif.noop"; p.capabilityflags = mjPLUGIN_PASSIVE;
  p.nstate = pl_nstate; p.init = pl_init; p.reset = pl_reset; p.compute = pl_compute;
  mjp_registerPlugin(&p);

  static Req reqs[32];
  int nreq = 0;
  static char line[1 << 16];
  char nm[256];
  while (fgets(line, sizeof line, stdin)) {
    if (!strncmp(line, "MODEL", 5)) {
      nreq = 0;
    } else if (line[0] == 'T') {
      Req* r = &reqs[nreq++];
      char* tok = strtok(line + 1, " \n");
      strncpy(r->kind, tok, sizeof r->kind - 1);
      r->n = atoi(strtok(NULL, " \n"));
      for (int i = 0; i < r->n; i++) unhex(strtok(NULL, " \n"), r->name[i]);
    } else if (!strncmp(line, "END", 3)) {
      if (model) { mj_deleteModel(model); model = NULL; }
      spec = mj_makeSpec();
      helper_id = 0;
      mjs_activatePlugin(spec, "verif.noop");
      helpers();
      for (int i = 0; i < nreq; i++) add_objects(&reqs[i]);
      model = mj_compile(spec, NULL);
      if (!model) {
        strncpy(errbuf, mjs_getError(spec), sizeof errbuf - 1);
        for (char* c = errbuf; *c; c++) if (*c == '\n') *c = ' ';
        printf("compile_error %s\n", errbuf);
      } else {
        dump_model();
      }
      mj_deleteSpec(spec);
    } else if (line[0] == 'Q') {
      int type; char hx[512];
      sscanf(line + 1, "%d %511s", &type, hx);
      unhex(hx, nm);
      int id = model ? mj_name2id(model, type, nm) : -2;
      printf("%d\n", id);
    } else if (line[0] == 'I') {
      int type, id;
      sscanf(line + 1, "%d %d", &type, &id);
      const char* s = model ? mj_id2name(model, type, id) : NULL;
      if (!s) printf("NULL\n"); else { puthex(s); printf("\n"); }
    } else if (line[0] == 'H') {
      unsigned long long n; char hx[512];
      sscanf(line + 1, "%llu %511s", &n, hx);
      unhex(hx, nm);
      printf("%llu\n", (unsigned long long)mj_hashString(nm, (uint64_t)n));
    }
  }
  return 0;
}
