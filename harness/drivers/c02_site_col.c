// C02 helper TU: reaches the static collisionTask / mjContactArg of engine_collision_driver.c of the
// working tree (the whole file is compiled into this TU; the archive member is then not pulled).
#include "engine/engine_collision_driver.c"

#include "c02_sites.h"

int c02_col_is(mjTaskFunc f) { return f == collisionTask; }

void c02_col_info(const void* varg, c02ColInfo* out) {
  const mjContactArg* a = (const mjContactArg*)varg;
  out->conbuffer = (const char*)a->conbuffer;
  out->conelem = (int)sizeof(mjPreContact);
  out->nconbuffer = (const char*)a->nconbuffer;
  out->epabuffer = (const char*)a->epabuffer;
  out->ccd_size = a->ccd_size;
  out->npair = a->npair;
  out->chunksize = a->chunksize;
  out->maxcon = a->maxcon;
  out->pair_stride = (int)sizeof(mjcPair);
  out->pairbuffer = (const char*)a->pairbuffer;
}

int c02_col_conpos(const void* varg, int i) {
  const mjContactArg* a = (const mjContactArg*)varg;
  return a->pairbuffer[i].conpos;
}
