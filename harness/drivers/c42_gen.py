"""C42 driver: runs the working tree's doc/generate/*.py (loaded BY PATH from <repo>/doc/generate).

usage: /venv/bin/python c42_gen.py <repo> <request.json> <response.json> <workdir>

request : {"schemas": [{"text": str | null, "all": bool}]}     text null = the checked-in src/xml/mjcf.schema
response: {"results": [{"valid": bool, "error": str|None, "dump": {...}|None,
                         "table": {"text": str}|{"error": cls}, "map": {...},
                         "table_header": str, "map_header": str, "map_footer": str,
                         "others": {gen: {"text":..}|{"error":..}}  (when all)}],
           "checked_in": {relpath: text}}
The dump is a canonical rendering of the PARSED schema object (mjcf_schema.Schema), the input of the
generators: enums (name, items), groups (name, variant, members), elements (name, xml tag, alias
facet present, spec, members); members are attr / use / child / con / const records.
"""
import importlib
import json
import os
import sys


def dump_schema(ms, schema):
  def member(m):
    if isinstance(m, ms.Attr):
      hi = m.arity.hi
      d = m.default
      if isinstance(d, tuple):
        d = list(d)
      return {'k': 'attr', 'name': m.name, 'type': m.type, 'target': m.target, 'lo': m.arity.lo,
              'hi': hi, 'default': d, 'nodefault': bool(m.facets.get('nodefault')),
              'required': bool(m.facets.get('required')), 'facets': {k: v for k, v in m.facets.items()}}
    if isinstance(m, ms.Use):
      return {'k': 'use', 'group': m.group}
    if isinstance(m, ms.Child):
      return {'k': 'child', 'name': m.name, 'card': m.card}
    if isinstance(m, ms.Constraint):
      return {'k': 'con', 'kind': m.kind, 'bundles': [list(b) for b in m.bundles]}
    if isinstance(m, ms.Const):
      return {'k': 'const', 'field': m.field, 'value': m.value}
    raise TypeError(repr(m))
  return {
      'enums': [{'name': e.name, 'ctype': e.ctype, 'items': [[k, v] for k, v in e.items]} for e in schema.enums.values()],
      'groups': [{'name': g.name, 'variant': bool(g.variant), 'members': [member(m) for m in g.members]}
                 for g in schema.groups.values()],
      'elements': [{'name': e.name, 'xml': e.xml_name(), 'alias': 'alias' in e.facets, 'spec': e.spec,
                    'facets': {k: v for k, v in e.facets.items()},
                    'members': [member(m) for m in e.members]} for e in schema.elements.values()],
      'keys_ok': (list(schema.enums.keys()) == [e.name for e in schema.enums.values()]
                  and list(schema.groups.keys()) == [g.name for g in schema.groups.values()]
                  and list(schema.elements.keys()) == [e.name for e in schema.elements.values()]),
  }


def main():
  repo, req_path, resp_path, work = sys.argv[1:5]
  gendir = os.path.join(repo, 'doc', 'generate')
  sys.path.insert(0, gendir)
  ms = importlib.import_module('mjcf_schema')
  names = ['generate_mjcf_table', 'generate_mjcf_map', 'generate_xsd', 'generate_read_table',
           'generate_default_table', 'generate_dmcontrol']
  gens = {n: importlib.import_module(n) for n in names}
  for m in [ms] + list(gens.values()):
    assert os.path.realpath(m.__file__).startswith(os.path.realpath(gendir)), m.__file__
  real_path = os.path.join(repo, 'src', 'xml', 'mjcf.schema')
  req = json.load(open(req_path))
  os.makedirs(work, exist_ok=True)
  results = []

  def run(gen, path):
    gen.SCHEMA_PATH = path
    try:
      return {'text': gen.generate()}
    except RecursionError:
      return {'error': 'RecursionError'}
    except ms.SchemaError as e:
      return {'error': 'SchemaError', 'msg': str(e)[:200]}
    except Exception as e:  # pylint: disable=broad-except
      return {'error': type(e).__name__, 'msg': str(e)[:200]}

  for i, item in enumerate(req['schemas']):
    if item.get('text') is None:
      path = real_path
    else:
      path = os.path.join(work, 's%d.schema' % i)
      with open(path, 'w', encoding='utf-8') as f:
        f.write(item['text'])
    res = {'valid': False, 'error': None, 'dump': None}
    try:
      schema = ms.parse_file(path)
      res['valid'] = True
      res['dump'] = dump_schema(ms, schema)
    except ms.SchemaError as e:
      res['error'] = 'SchemaError: ' + str(e)[:200]
      res['message'] = e.message
      try:   # the parsed, not validated, object: lets the harness compare the validity rules themselves
        with open(path, encoding='utf-8') as f:
          res['dump_unvalidated'] = dump_schema(ms, ms._Parser(f.read(), path).parse())
      except Exception:  # pylint: disable=broad-except
        pass
    except RecursionError:
      res['error'] = 'RecursionError'
    except Exception as e:  # pylint: disable=broad-except
      res['error'] = type(e).__name__ + ': ' + str(e)[:200]
    if res['valid']:
      res['table'] = run(gens['generate_mjcf_table'], path)
      res['map'] = run(gens['generate_mjcf_map'], path)
      # determinism: a second run in the same process
      t2 = run(gens['generate_mjcf_table'], path)
      m2 = run(gens['generate_mjcf_map'], path)
      res['deterministic'] = (t2 == res['table'] and m2 == res['map'])
      if item.get('all'):
        res['others'] = {n: run(gens[n], path) for n in names[2:]}
    results.append(res)
  gt, gm = gens['generate_mjcf_table'], gens['generate_mjcf_map']
  gr, gd, gdm = gens['generate_read_table'], gens['generate_default_table'], gens['generate_dmcontrol']
  consts = {
      'NOT_TABLE_DRIVEN': sorted(gr.NOT_TABLE_DRIVEN), 'SENSOR_DISPATCH': list(gr.SENSOR_DISPATCH),
      'EMIT_GROUPS': {k: list(v) for k, v in gr.EMIT_GROUPS.items()}, 'HAND_GROUPS': list(gr.HAND_GROUPS),
      'EXCLUDED_ELEMENTS': sorted(gdm.EXCLUDED_ELEMENTS), 'EXCLUDED_CHILDREN': sorted(list(x) for x in gdm.EXCLUDED_CHILDREN),
      'IDENTIFIER_OVERRIDES': sorted(list(x) for x in gdm.IDENTIFIER_OVERRIDES), 'BASEPATHS': dict(gdm.BASEPATHS),
      'NAMESPACE_OVERRIDES': dict(gdm.NAMESPACE_OVERRIDES), 'CONTEXT_NAMESPACE': [[list(k), v] for k, v in gdm.CONTEXT_NAMESPACE.items()],
      'REF_NS_MAP': dict(gdm.REF_NS_MAP), 'FILE_NS': dict(gdm.FILE_NS), 'ON_DEMAND': sorted(gdm.ON_DEMAND),
      'SINGLETONS': sorted(list(x) for x in gdm.SINGLETONS),
      'dims': gens['generate_xsd'].parse_dims(),
      'table_header': gt._HEADER,
      'map_header': gm._HEADER.replace('HEADER_GUARD_PLACEHOLDER', gm._GUARD),
      'map_footer': gm._FOOTER.replace('HEADER_GUARD_PLACEHOLDER', gm._GUARD),
  }
  checked = {}
  for rel in ('mjcf_table.inc', 'mjcf_map.h', 'mjcf.xsd', 'mjcf_read_table.inc', 'mjcf_default_table.inc',
              'dmcontrol_schema.xml'):
    p = os.path.join(repo, 'src', 'xml', 'generated', rel)
    try:
      checked[rel] = open(p, encoding='utf-8').read()
    except OSError:
      checked[rel] = None
  json.dump({'results': results, 'consts': consts, 'checked_in': checked}, open(resp_path, 'w'))


if __name__ == '__main__':
  main()
