// mjgen.h — shared random-model generator for harness drivers (models are built through the public
// mjSpec C API of the working tree; no XML).  Everything is a deterministic function of (seed,
// features, nbody), so a replay is just those three numbers.  READ-ONLY for property agents: copy
// what you need to change into your own driver.
#ifndef VERIF_MJGEN_H_
#define VERIF_MJGEN_H_
#include <math.h>
#include <setjmp.h>
#include <stdint.h>
#include <stdio.h>
#include <stdlib.h>
#include <string.h>
#include <mujoco/mujoco.h>

#ifdef __cplusplus
extern "C" {
#endif

// ---------------------------------------------------------------- PRNG (splitmix64)
typedef struct { uint64_t s; } mjg_rng;
static inline uint64_t mjg_next(mjg_rng* r) {
  uint64_t z = (r->s += 0x9E3779B97F4A7C15ULL);
  z = (z ^ (z >> 30)) * 0xBF58476D1CE4E5B9ULL;
  z = (z ^ (z >> 27)) * 0x94D049BB133111EBULL;
  return z ^ (z >> 31);
}
static inline double mjg_u(mjg_rng* r) { return (double)(mjg_next(r) >> 11) / 9007199254740992.0; }  // [0,1)
static inline double mjg_range(mjg_rng* r, double lo, double hi) { return lo + (hi - lo) * mjg_u(r); }
static inline int mjg_int(mjg_rng* r, int n) { return n <= 0 ? 0 : (int)(mjg_next(r) % (uint64_t)n); }
static inline int mjg_chance(mjg_rng* r, double p) { return mjg_u(r) < p; }
static inline void mjg_quat(mjg_rng* r, double q[4]) {
  double n = 0;
  do { n = 0; for (int i = 0; i < 4; i++) { q[i] = mjg_range(r, -1, 1); n += q[i] * q[i]; } } while (n < 1e-3);
  n = sqrt(n); for (int i = 0; i < 4; i++) q[i] /= n;
}

// ---------------------------------------------------------------- error / warning capture
static jmp_buf mjg_jmp;
static int mjg_jmp_armed = 0;
static char mjg_last_error[1024];
static int mjg_nwarning = 0;
static char mjg_last_warning[1024];
static void mjg_error_handler(const char* msg) {
  snprintf(mjg_last_error, sizeof(mjg_last_error), "%s", msg);
  if (mjg_jmp_armed) longjmp(mjg_jmp, 1);
  fprintf(stderr, "MUJOCO ERROR (uncaught): %s\n", msg); exit(3);
}
static void mjg_warning_handler(const char* msg) {
  mjg_nwarning++; snprintf(mjg_last_warning, sizeof(mjg_last_warning), "%s", msg);
}
static inline void mjg_install_handlers(void) {
  mju_user_error = mjg_error_handler; mju_user_warning = mjg_warning_handler;
}
// usage: if (MJG_TRY) { ...calls that may mju_error... MJG_END; } else { /* error in mjg_last_error */ }
#define MJG_TRY (mjg_jmp_armed = 1, setjmp(mjg_jmp) == 0)
#define MJG_END (mjg_jmp_armed = 0)

// ---------------------------------------------------------------- feature flags
enum {
  MJG_FREE = 1 << 0,       // some root bodies get free joints
  MJG_BALL = 1 << 1,       // ball joints
  MJG_SLIDE = 1 << 2,      // slide joints
  MJG_CONTACT = 1 << 3,    // colliding geoms + ground plane
  MJG_EQUALITY = 1 << 4,   // connect / weld / joint equalities
  MJG_TENDON = 1 << 5,     // fixed tendons (with limits / friction / springs)
  MJG_ACTUATOR = 1 << 6,   // actuators of several gain/bias kinds
  MJG_ACTDYN = 1 << 7,     // actuators with activation dynamics (na > 0)
  MJG_SENSOR = 1 << 8,     // a selection of sensors
  MJG_MOCAP = 1 << 9,      // a mocap body (welded to something if MJG_EQUALITY)
  MJG_LIMIT = 1 << 10,     // joint limits
  MJG_FRICTIONLOSS = 1 << 11,
  MJG_SPRING = 1 << 12,    // joint stiffness/damping/armature
  MJG_KEY = 1 << 13,       // keyframes
  MJG_ELLIPTIC = 1 << 14,  // elliptic cones, condim in {1,3,4,6}
  MJG_MULTITREE = 1 << 15, // several kinematic trees
  MJG_SITE = 1 << 16,
  MJG_USER = 1 << 17,      // nuserdata, nuser_*
  MJG_GRAVCOMP = 1 << 18,
  MJG_ALL = 0x7FFFF
};

static inline void mjg_name(mjsElement* e, const char* prefix, int i) {
  char buf[64]; snprintf(buf, sizeof(buf), "%s%d", prefix, i); mjs_setName(e, buf);
}

// Build a random spec.  nbody >= 1 moving bodies.
static inline mjSpec* mjg_spec(uint64_t seed, unsigned feat, int nbody) {
  mjg_rng R = { seed * 0x2545F4914F6CDD1DULL + 12345 }; mjg_rng* r = &R;
  mjSpec* s = mj_makeSpec();
  s->option.timestep = 0.002 * (1 + mjg_int(r, 3));
  if (feat & MJG_ELLIPTIC) s->option.cone = mjg_chance(r, 0.5) ? mjCONE_ELLIPTIC : mjCONE_PYRAMIDAL;
  if (feat & MJG_USER) { s->nuserdata = 3; s->nuser_body = 2; s->nuser_jnt = 1; s->nuser_geom = 1; }
  mjsBody* world = mjs_findBody(s, "world");
  if (feat & MJG_CONTACT) {
    mjsGeom* g = mjs_addGeom(world, NULL); g->type = mjGEOM_PLANE; g->size[0] = g->size[1] = 5; g->size[2] = 0.1;
    mjs_setName(g->element, "floor");
  }
  mjsBody** bodies = (mjsBody**)calloc(nbody + 2, sizeof(mjsBody*));
  int* isroot = (int*)calloc(nbody + 2, sizeof(int));
  int njnt = 0, ngeom = 0, nsite = 0, nscalar = 0;
  char scalar_jnt[256][16]; int nscal_names = 0;
  for (int b = 0; b < nbody; b++) {
    mjsBody* parent = world;
    int root = 1;
    if (b > 0 && !((feat & MJG_MULTITREE) && mjg_chance(r, 0.3))) { parent = bodies[mjg_int(r, b)]; root = 0; }
    mjsBody* body = mjs_addBody(parent, NULL);
    bodies[b] = body; isroot[b] = root;
    mjg_name(body->element, "b", b);
    body->pos[0] = mjg_range(r, -0.4, 0.4); body->pos[1] = mjg_range(r, -0.4, 0.4);
    body->pos[2] = root ? mjg_range(r, 0.05, 1.0) : mjg_range(r, -0.4, 0.4);
    if (mjg_chance(r, 0.5)) mjg_quat(r, body->quat);
    if ((feat & MJG_GRAVCOMP) && mjg_chance(r, 0.3)) body->gravcomp = mjg_range(r, 0, 1);
    // joints
    int kind;
    if (root && (feat & MJG_FREE) && mjg_chance(r, 0.6)) kind = 0;
    else if ((feat & MJG_BALL) && mjg_chance(r, 0.25)) kind = 1;
    else if ((feat & MJG_SLIDE) && mjg_chance(r, 0.3)) kind = 2;
    else kind = 3;
    int nj = (kind >= 2) ? 1 + mjg_int(r, 2) : 1;
    for (int k = 0; k < nj; k++) {
      mjsJoint* j = mjs_addJoint(body, NULL);
      mjg_name(j->element, "j", njnt);
      int kk = (k == 0) ? kind : (mjg_chance(r, 0.5) && (feat & MJG_SLIDE) ? 2 : 3);
      j->type = kk == 0 ? mjJNT_FREE : kk == 1 ? mjJNT_BALL : kk == 2 ? mjJNT_SLIDE : mjJNT_HINGE;
      if (kk >= 1) { for (int i = 0; i < 3; i++) { j->pos[i] = mjg_range(r, -0.1, 0.1); j->axis[i] = mjg_range(r, -1, 1); }
        if (fabs(j->axis[0]) + fabs(j->axis[1]) + fabs(j->axis[2]) < 0.1) j->axis[2] = 1; }
      if (kk >= 2) {
        if (nscal_names < 256) snprintf(scalar_jnt[nscal_names++], 16, "j%d", njnt);
        nscalar++;
        if ((feat & MJG_LIMIT) && mjg_chance(r, 0.5)) { j->limited = mjLIMITED_TRUE; j->range[0] = mjg_range(r, -1.0, -0.05); j->range[1] = mjg_range(r, 0.05, 1.0); }
        if (mjg_chance(r, 0.3)) j->ref = mjg_range(r, -0.2, 0.2);
      } else if (kk == 1 && (feat & MJG_LIMIT) && mjg_chance(r, 0.3)) { j->limited = mjLIMITED_TRUE; j->range[0] = 0; j->range[1] = mjg_range(r, 0.3, 1.5); }
      if ((feat & MJG_SPRING) && kk >= 1) {
        if (mjg_chance(r, 0.5)) j->stiffness[0] = mjg_range(r, 0, 20);
        if (mjg_chance(r, 0.5)) j->damping[0] = mjg_range(r, 0, 2);
        if (mjg_chance(r, 0.5)) j->armature = mjg_range(r, 0, 0.1);
        if (kk >= 2 && mjg_chance(r, 0.3)) j->springref = mjg_range(r, -0.3, 0.3);
      }
      if ((feat & MJG_FRICTIONLOSS) && kk >= 1 && mjg_chance(r, 0.4)) j->frictionloss = mjg_range(r, 0.01, 1);
      njnt++;
      if (kk <= 1) break;
    }
    // geoms (at least one so that the body has mass)
    int ng = 1 + mjg_int(r, 2);
    for (int k = 0; k < ng; k++) {
      mjsGeom* g = mjs_addGeom(body, NULL);
      mjg_name(g->element, "g", ngeom++);
      int t = mjg_int(r, 5);
      g->type = t == 0 ? mjGEOM_SPHERE : t == 1 ? mjGEOM_CAPSULE : t == 2 ? mjGEOM_ELLIPSOID : t == 3 ? mjGEOM_CYLINDER : mjGEOM_BOX;
      g->size[0] = mjg_range(r, 0.03, 0.12); g->size[1] = mjg_range(r, 0.03, 0.12); g->size[2] = mjg_range(r, 0.03, 0.12);
      for (int i = 0; i < 3; i++) g->pos[i] = mjg_range(r, -0.1, 0.1);
      if (mjg_chance(r, 0.5)) mjg_quat(r, g->quat);
      g->density = mjg_range(r, 200, 2000);
      if (feat & MJG_CONTACT) {
        if (feat & MJG_ELLIPTIC) { static const int dims[4] = {1, 3, 4, 6}; g->condim = dims[mjg_int(r, 4)]; }
        g->friction[0] = mjg_range(r, 0.2, 1.2);
        if (mjg_chance(r, 0.2)) g->margin = mjg_range(r, 0, 0.02);
        if (mjg_chance(r, 0.15)) { g->contype = 1 + mjg_int(r, 3); g->conaffinity = 1 + mjg_int(r, 3); }
      } else { g->contype = 0; g->conaffinity = 0; }
      g->group = mjg_int(r, 4);
    }
    if (feat & MJG_SITE) {
      mjsSite* st = mjs_addSite(body, NULL); mjg_name(st->element, "s", nsite++);
      for (int i = 0; i < 3; i++) st->pos[i] = mjg_range(r, -0.1, 0.1);
      if (mjg_chance(r, 0.5)) mjg_quat(r, st->quat);
    }
  }
  // mocap body
  if (feat & MJG_MOCAP) {
    mjsBody* mb = mjs_addBody(world, NULL); mjs_setName(mb->element, "mocap0"); mb->mocap = 1;
    mb->pos[0] = mjg_range(r, -1, 1); mb->pos[2] = mjg_range(r, 0.2, 1);
    mjsGeom* g = mjs_addGeom(mb, NULL); g->type = mjGEOM_SPHERE; g->size[0] = 0.03; g->contype = 0; g->conaffinity = 0;
    mjs_setName(g->element, "gmocap");
  }
  // equalities
  if (feat & MJG_EQUALITY) {
    int ne = 1 + mjg_int(r, 3);
    for (int k = 0; k < ne; k++) {
      mjsEquality* e = mjs_addEquality(s, NULL); mjg_name(e->element, "e", k);
      int t = mjg_int(r, 3);
      char n1[16], n2[16];
      if (t == 2 && nscal_names >= 2) {
        e->type = mjEQ_JOINT; e->objtype = mjOBJ_JOINT;
        int a = mjg_int(r, nscal_names), b2 = (a + 1 + mjg_int(r, nscal_names - 1)) % nscal_names;
        mjs_setString(e->name1, scalar_jnt[a]); mjs_setString(e->name2, scalar_jnt[b2]);
        e->data[0] = mjg_range(r, -0.1, 0.1); e->data[1] = mjg_range(r, 0.5, 1.5);
      } else {
        e->type = (t == 0) ? mjEQ_CONNECT : mjEQ_WELD; e->objtype = mjOBJ_BODY;
        int a = mjg_int(r, nbody);
        snprintf(n1, sizeof(n1), "b%d", a);
        mjs_setString(e->name1, n1);
        if ((feat & MJG_MOCAP) && k == 0) mjs_setString(e->name2, "mocap0");
        else if (nbody > 1 && mjg_chance(r, 0.6)) { int b2 = (a + 1 + mjg_int(r, nbody - 1)) % nbody; snprintf(n2, sizeof(n2), "b%d", b2); mjs_setString(e->name2, n2); }
        if (e->type == mjEQ_CONNECT) { for (int i = 0; i < 3; i++) e->data[i] = mjg_range(r, -0.1, 0.1); }
        else { e->data[3] = 0; e->data[4] = 0; e->data[5] = 0; e->data[6] = 1; e->data[10] = 1; }
      }
      e->active = mjg_chance(r, 0.8);
    }
  }
  // tendons
  int ntendon = 0;
  if ((feat & MJG_TENDON) && nscal_names >= 1) {
    int nt = 1 + mjg_int(r, 2);
    for (int k = 0; k < nt; k++) {
      mjsTendon* t = mjs_addTendon(s, NULL); mjg_name(t->element, "t", ntendon++);
      int nw = 1 + mjg_int(r, 3);
      int used[8]; int nused = 0;
      for (int w = 0; w < nw; w++) {
        int jsel = mjg_int(r, nscal_names); double coef = mjg_range(r, -1, 1) + 0.2;
        int dup = 0; for (int u = 0; u < nused; u++) if (used[u] == jsel) dup = 1;
        if (dup) continue;   // a joint may appear only once in a fixed tendon (the compiler rejects repeats)
        used[nused++] = jsel;
        mjs_wrapJoint(t, scalar_jnt[jsel], coef);
      }
      if ((feat & MJG_LIMIT) && mjg_chance(r, 0.5)) { t->limited = mjLIMITED_TRUE; t->range[0] = -0.5; t->range[1] = 0.5; }
      if ((feat & MJG_FRICTIONLOSS) && mjg_chance(r, 0.4)) t->frictionloss = mjg_range(r, 0.01, 0.5);
      if ((feat & MJG_SPRING) && mjg_chance(r, 0.5)) { t->stiffness[0] = mjg_range(r, 0, 10); t->damping[0] = mjg_range(r, 0, 1); }
    }
  }
  // actuators
  int nact = 0;
  if ((feat & MJG_ACTUATOR) && nscal_names >= 1) {
    int na = 1 + mjg_int(r, 4);
    for (int k = 0; k < na; k++) {
      mjsActuator* a = mjs_addActuator(s, NULL); mjg_name(a->element, "a", nact++);
      if (ntendon > 0 && mjg_chance(r, 0.25)) { char tn[16]; snprintf(tn, sizeof(tn), "t%d", mjg_int(r, ntendon)); a->trntype = mjTRN_TENDON; mjs_setString(a->target, tn); }
      else { a->trntype = mjTRN_JOINT; mjs_setString(a->target, scalar_jnt[mjg_int(r, nscal_names)]); }
      a->gear[0] = mjg_range(r, 0.5, 3);
      int kind = mjg_int(r, 4);
      if (kind == 0) mjs_setToMotor(a);
      else if (kind == 1) { double kv = mjg_range(r, 0, 1); mjs_setToPosition(a, mjg_range(r, 1, 20), &kv, NULL, NULL, 0); }
      else if (kind == 2) mjs_setToVelocity(a, mjg_range(r, 0.1, 2));
      else { a->gaintype = mjGAIN_AFFINE; a->gainprm[0] = mjg_range(r, 0.5, 2); a->gainprm[1] = mjg_range(r, -0.5, 0.5); a->gainprm[2] = mjg_range(r, -0.5, 0.5);
             a->biastype = mjBIAS_AFFINE; a->biasprm[0] = mjg_range(r, -1, 1); a->biasprm[1] = mjg_range(r, -2, 0); a->biasprm[2] = mjg_range(r, -0.5, 0); }
      if (mjg_chance(r, 0.5)) { a->ctrllimited = mjLIMITED_TRUE; a->ctrlrange[0] = -1; a->ctrlrange[1] = 1; }
      if (mjg_chance(r, 0.4)) { a->forcelimited = mjLIMITED_TRUE; a->forcerange[0] = -3; a->forcerange[1] = 3; }
      if ((feat & MJG_ACTDYN) && mjg_chance(r, 0.6)) {
        int d = mjg_int(r, 3);
        a->dyntype = d == 0 ? mjDYN_INTEGRATOR : d == 1 ? mjDYN_FILTER : mjDYN_FILTEREXACT;
        a->dynprm[0] = mjg_range(r, 0.01, 0.5);
        if (mjg_chance(r, 0.5)) { a->actlimited = mjLIMITED_TRUE; a->actrange[0] = -0.7; a->actrange[1] = 0.7; }
      }
      a->group = mjg_int(r, 3);
    }
  }
  // sensors
  if (feat & MJG_SENSOR) {
    int ns = 2 + mjg_int(r, 5);
    for (int k = 0; k < ns; k++) {
      mjsSensor* sn = mjs_addSensor(s); mjg_name(sn->element, "sn", k);
      int t = mjg_int(r, 6);
      char nm[16];
      if (t <= 1 && nscal_names > 0) { sn->type = t == 0 ? mjSENS_JOINTPOS : mjSENS_JOINTVEL; sn->objtype = mjOBJ_JOINT; mjs_setString(sn->objname, scalar_jnt[mjg_int(r, nscal_names)]); }
      else if (t == 2) { sn->type = mjSENS_FRAMEPOS; sn->objtype = mjOBJ_BODY; snprintf(nm, sizeof(nm), "b%d", mjg_int(r, nbody)); mjs_setString(sn->objname, nm); }
      else if (t == 3) { sn->type = mjSENS_FRAMEQUAT; sn->objtype = mjOBJ_BODY; snprintf(nm, sizeof(nm), "b%d", mjg_int(r, nbody)); mjs_setString(sn->objname, nm); }
      else if (t == 4) { sn->type = mjSENS_SUBTREECOM; sn->objtype = mjOBJ_BODY; snprintf(nm, sizeof(nm), "b%d", mjg_int(r, nbody)); mjs_setString(sn->objname, nm); }
      else { sn->type = mjSENS_FRAMELINACC; sn->objtype = mjOBJ_BODY; snprintf(nm, sizeof(nm), "b%d", mjg_int(r, nbody)); mjs_setString(sn->objname, nm); }
      if (t != 3 && mjg_chance(r, 0.3)) sn->cutoff = mjg_range(r, 0.1, 2);
    }
  }
  if (feat & MJG_KEY) { for (int k = 0; k < 2; k++) { mjsKey* key = mjs_addKey(s); mjg_name(key->element, "k", k); key->time = 0.5 * (k + 1); } }
  free(bodies); free(isroot);
  return s;
}

// fill a keyframe-free model's data with a random valid state (unit quaternions), controls, forces
static inline void mjg_random_state(const mjModel* m, mjData* d, mjg_rng* r, double vel_scale) {
  for (int j = 0; j < m->njnt; j++) {
    int a = m->jnt_qposadr[j];
    switch (m->jnt_type[j]) {
      case mjJNT_FREE: for (int i = 0; i < 3; i++) d->qpos[a + i] = m->qpos0[a + i] + mjg_range(r, -0.2, 0.2); { double q[4]; mjg_quat(r, q); for (int i = 0; i < 4; i++) d->qpos[a + 3 + i] = q[i]; } break;
      case mjJNT_BALL: { double q[4]; mjg_quat(r, q); for (int i = 0; i < 4; i++) d->qpos[a + i] = q[i]; } break;
      default: d->qpos[a] = m->qpos0[a] + mjg_range(r, -0.5, 0.5);
    }
  }
  for (int i = 0; i < m->nv; i++) d->qvel[i] = vel_scale * mjg_range(r, -1, 1);
  for (int i = 0; i < m->nu; i++) d->ctrl[i] = mjg_range(r, -1.5, 1.5);
  for (int i = 0; i < m->na; i++) d->act[i] = mjg_range(r, -0.5, 0.5);
  for (int i = 0; i < m->nmocap; i++) { for (int k = 0; k < 3; k++) d->mocap_pos[3 * i + k] += mjg_range(r, -0.1, 0.1); }
  if (mjg_chance(r, 0.5)) for (int i = 0; i < m->nv; i++) d->qfrc_applied[i] = mjg_range(r, -1, 1);
  if (mjg_chance(r, 0.5) && m->nbody > 1) { int b = 1 + mjg_int(r, m->nbody - 1); for (int k = 0; k < 6; k++) d->xfrc_applied[6 * b + k] = mjg_range(r, -1, 1); }
}

// compile; returns NULL (and prints the compiler error to stderr) on failure
static inline mjModel* mjg_model(uint64_t seed, unsigned feat, int nbody, mjSpec** out_spec) {
  mjSpec* s = mjg_spec(seed, feat, nbody);
  mjModel* m = mj_compile(s, NULL);
  if (!m) fprintf(stderr, "mjgen: compile failed seed=%llu feat=%u nbody=%d: %s\n", (unsigned long long)seed, feat, nbody, mjs_getError(s));
  if (out_spec) *out_spec = s; else mj_deleteSpec(s);
  return m;
}

#ifdef __cplusplus
}
#endif
#endif  // VERIF_MJGEN_H_
