"""Shared set-up of the MJX drivers (C43, C44, C45): imports the MJX package of the working tree
(<repo>/mjx/mujoco/mjx) on top of the installed `mujoco` wheel, float64 on the CPU.

The wheel (3.13.0) is NOT this tree: it is only the library MJX itself imports (MjModel/MjData containers, XML
parser, enums).  Everything under mujoco.mjx comes from the repo path given by the caller; this is asserted.
`trimesh` is not installed: a stub module satisfies the import of mjx/_src/mesh.py (only used for mesh geoms)."""
import os, sys, types

os.environ.setdefault("JAX_PLATFORMS", "cpu")
os.environ.setdefault("XLA_FLAGS", "--xla_cpu_multi_thread_eigen=false intra_op_parallelism_threads=1")


def load(repo):
    import logging
    logging.disable(logging.WARNING)
    import jax
    jax.config.update("jax_enable_x64", True)
    if "trimesh" not in sys.modules:
        tm = types.ModuleType("trimesh")
        tm.Trimesh = type("Trimesh", (), {})
        sys.modules["trimesh"] = tm
    import io, contextlib
    import mujoco
    root = os.path.join(os.path.abspath(repo), "mjx", "mujoco")
    mujoco.__path__.insert(0, root)
    with contextlib.redirect_stdout(io.StringIO()):      # "Failed to import warp" notices
        from mujoco import mjx
    if not os.path.abspath(mjx.__file__).startswith(root + os.sep):
        raise RuntimeError("mujoco.mjx was imported from %s, not from the working tree %s" % (mjx.__file__, root))
    for name, mod in list(sys.modules.items()):
        if name.startswith("mujoco.mjx") and getattr(mod, "__file__", None) and \
                not os.path.abspath(mod.__file__).startswith(root + os.sep):
            raise RuntimeError("%s was imported from %s, not from the working tree" % (name, mod.__file__))
    logging.disable(logging.NOTSET)
    return jax, mujoco, mjx
